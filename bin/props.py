"""Per-property configuration for bin/check (what is trusted, what is assumed)."""

TB_COMMON = [
    "Lean 4.33 kernel; axioms allowed: propext, Classical.choice, Quot.sound (checked by #print axioms on every theorem of the property file)",
    "hand-written Lean model (lean/MsVerif/MsVerif/Model) tied to /repo by the correspondence run of this check (harness/ + Driver/), not by construction",
    "Rust harness (harness/src) and line-protocol driver (Driver/*.lean)",
]

PROPS = {
    "C05": {
        "model": "Model/Types.lean",
        "level": "proof",
        "trusted_base": TB_COMMON + [
            "Spec/MsSpecTypes.lean: the Miniscript specification's correctness and malleability tables, transcribed by hand (no network) - trusted, reviewable, ~200 lines",
        ],
        "assumptions": [
            "thresholds: 1 <= k <= n (guaranteed by Threshold::new; the Rust `n - k` would underflow otherwise)",
            "c: on a child typed 'K and zero-arg' copies z through; proved unreachable (C05.K_never_zero_arg)",
        ],
        "exhaustive": True,
        "exhaustive_tables": ["every unary/binary rule over all 80 correctness values (80, 80^2)", "and_or over 80^3",
                              "every malleability rule over all 12 values (12, 12^2, 12^3)", "Type::* unary over all 960 types"],
        "rule": "complete rule tables of the implementation compared entry by entry with the Lean model (C lines) and with the specification tables (J lines); thresholds exhaustive for small n plus random child lists. `C typeof`: `Miniscript::ty` of whole ASTs (enumerated pool with full atoms, raw pkh, sugar shapes, every subterm of the shared designated corpus incl. wrapper towers, unchecked combinators) against the model's typeOf through THREE routes: from_ast, the text parser (to_string -> from_str_with_validation_params(MAX)) and the script decoder (encode -> decode_with_validation_params(MAX)); ill-typed trees must be refused.",
        "tier_proved": "T1-T4: all rules exact on the complete domain; thresholds for all k, n by induction",
        "partial_gaps": [],
        "level_text": "Every typing rule of the library is proved (Lean kernel) equal to the specification's row on the complete finite domain of child types (80x12 per child), thresholds for every k and n by induction; the Lean model of the rules is compared with the implementation on the complete tables on every run, and the implementation's tables are additionally judged directly against the specification tables.",
        "level_note": "Trusted: Lean kernel + {propext, Quot.sound, Classical.choice}; the hand transcription of the specification tables (Spec/MsSpecTypes.lean); harness + driver. The model is tied to the code by exhaustive table comparison, not by construction.",
        "technique": "Lean 4 proof (decide over complete finite domains + induction for thresholds) + exhaustive table correspondence",
    },
}

NOT_YET = {}

# per-property entries kept in bin/props.d/<Cxx>.py.txt (one `"Cxx": {...},` dict item each)
import glob as _glob, os as _os
for _f in sorted(_glob.glob(_os.path.join(_os.path.dirname(_os.path.abspath(__file__)), "props.d", "*.py.txt"))):
    PROPS.update(eval("{" + open(_f, encoding="utf-8").read() + "}", {"TB_COMMON": TB_COMMON}))

#!/usr/bin/env python3
"""Regenerates MANIFEST.json from bin/props.py (claimed properties) + the fixed property list."""
import json, os, sys
VERIF = os.path.dirname(os.path.dirname(os.path.abspath(__file__)))
sys.path.insert(0, os.path.join(VERIF, "bin"))
from props import PROPS, NOT_YET

ids = [json.loads(l)["id"] for l in open(os.path.join(VERIF, "properties.jsonl"))]
checks = []
for pid in ids:
    if pid not in PROPS:
        continue
    c = PROPS[pid]
    checks.append({
        "property_id": pid,
        "quick_cmd": "bin/check %s --tier quick" % pid,
        "thorough_cmd": "bin/check %s --tier thorough" % pid,
        "evidence_file": "/verif/evidence/%s.json" % pid,
        "replay_cmd_template": "bin/check %s --replay {path}" % pid,
        "engine": "lean4-model+correspondence",
        "level_claimed": {"category": c.get("level", "proof"), "text": c["level_text"], "design_ref": "DESIGN.md §4 " + pid},
        "level_note": c["level_note"],
        "technique": c["technique"],
    })
man = {
    "version": 1,
    "setup_cmd": "bin/check --setup",
    "hooks": {
        "guard": "miniscript_verif",
        "enable": "RUSTFLAGS='--cfg miniscript_verif' (set by bin/check for the harness build only)",
        "baseline_off_cmd": "cd /repo && cargo test --workspace --no-fail-fast --offline",
        "source_commits": json.load(open(os.path.join(VERIF, "bin", "hook_commits.json"))),
        "add_only": True,
    },
    "engines": [{
        "name": "lean4-model+correspondence",
        "path": "lean/MsVerif (Lean 4 project), harness/ (Rust), bin/check (orchestrator)",
        "serves_properties": [c["property_id"] for c in checks],
        "kind_free_text": "machine-checked Lean 4 theorems about a hand-written executable model; model tied to /repo on every run by a differential correspondence run (Rust harness in-process vs compiled Lean driver) and implementation outputs judged by the Lean specification",
    }],
    "checks": checks,
    "notes": "See DESIGN.md. known_findings.txt lists genuine defects (finding:/fixed:).",
    "not_applicable": [{"property_id": p, "reason": NOT_YET.get(p, "check not built yet in this round; see DESIGN.md for the planned model and theorems")} for p in ids if p not in PROPS],
}
json.dump(man, open(os.path.join(VERIF, "MANIFEST.json"), "w"), indent=1)
print("MANIFEST.json: %d checks, %d not_applicable" % (len(checks), len(man["not_applicable"])))

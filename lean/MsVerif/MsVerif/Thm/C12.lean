/-
C12 — accepted scripts obey their context; validation switches mean what they say.

Model (Model/Validate.lean) ↔ Rust:
  ValidationParams.{MAX,SANE,CONSENSUS,eq,intersect,entails}, validatePk ↔ src/validation.rs
  Ctx.CONSENSUS / Ctx.SANE, checkPk, checkGlobalValidity, topLevelChecks ↔ src/miniscript/context.rs
  validate / validateNonTopLevel, constructed (= `from_ast` on every node) ↔ src/miniscript/mod.rs
  accepts e ↔ the entry points (`from_str*`, `decode*`, `Wsh::new`/`Sh::new`/`Bare::new`,
              `Descriptor::from_str`, `Tr::from_str`, `TapTree::leaf`+`Tr::new`)
Specification (Spec/CtxRules.lean): `ctxOK` (rules R1–R8), `hasDefect_X`.

All theorems quantify over EVERY script `ms`, every key table `K`/`env`, every context and
every value of `ValidationParams` (all 2^15 switch vectors, all limits in ℕ).
`isOk (validate …) = true` means `Miniscript::validate` returns `Ok(())`.

T3 (lattice, monotonicity) and T2 (switch exactness) are proved in full at the level of the
model's own defect predicates, and down to the SPECIFICATION's predicates for every switch
whose defect is syntactic (duplicate keys, `d:`, `or_i`, `multi`, `multi_a`, raw pkh, key
kinds, multipath lengths, depth) and for the three type-level switches (malleability, sigless
branch, non-B), where the step from the library's whole-fragment type to the specification's
is `typeBridge_of_ranges` (composition of C05's rule-by-rule theorems over the AST; hypothesis:
thresholds in range, which `Threshold::new` guarantees).  For mixed time locks and
the defect is the library's own analysis (`…_model`), the semantic statement is
`def switch_exact_mixed_time_locks_full`; for unsatisfiability and for the signature-less
branch the defect is SEMANTIC: the specification's satisfaction table with all assets available
resp. with no signature available (`switch_exact_unsatisfiable`, `switch_exact_sigless_branch`;
the type letters `d` and `s` are proved to mean exactly that in Lemmas/ValidateSem.lean).
The `_spec_type` variants compare with the specification's type letters `m` / `s`.

T1/T4 after the fixes 8a19a019 (base-type test), 4cd8ebfa (`pk_h` keys), a3413640
(`new_sortedmulti`), 2d0df974 (`Tr::new`), f6816493 (`Wsh::new`/`Sh::new` call `validate`):
every entry point obeys every context rule (`accepted_obeys_ctx`) with ONE exception that the
library keeps on purpose: `Sh::new` / `sh(..)` validate with `Legacy::CONSENSUS` but leave `d:`
and `or_i` allowed (F13; pinned by the library's own tests `display_prefers_u`,
`regression_734`).  That gap is stated exactly: witness (`sh_accepts_or_i`), negation of the
full statements, and the `_partial` theorems saying that nothing else is missing.
-/
import MsVerif.Lemmas.ValidateCtx
import MsVerif.Lemmas.ValidateTypes
import MsVerif.Lemmas.ValidateSat
import MsVerif.Lemmas.ValidateSem
import MsVerif.Thm.C09
import MsVerif.Lemmas.ValidateCC

namespace MsVerif.C12
open MsVerif MsVerif.Spec ValidationParams

/-! ## T3 — the parameter lattice -/

/-- `eq` is equality -/
theorem eq_iff_eq (a b : ValidationParams) : a.eq b = true ↔ a = b := ValidationParams.eq_iff a b

/-- `entails` is the component-wise order: every switch `a` allows `b` allows, every limit of
`a` is at most that of `b` -/
theorem entails_iff_le (a b : ValidationParams) : a.entails b = true ↔ a.le b = true :=
  ValidationParams.entails_iff a b

theorem entails_refl (a : ValidationParams) : a.entails a = true := by
  rw [entails_iff, le_iff]; simp

theorem entails_trans {a b c : ValidationParams} (h1 : a.entails b = true)
    (h2 : b.entails c = true) : a.entails c = true := by
  rw [entails_iff, le_iff] at *
  obtain ⟨⟨a1, a2, a3, a4, a5, a6, a7, a8, a9, a10, a11, a12, a13, a14, a15⟩, a16, a17, a18, a19,
    a20⟩ := h1
  obtain ⟨⟨b1, b2, b3, b4, b5, b6, b7, b8, b9, b10, b11, b12, b13, b14, b15⟩, b16, b17, b18, b19,
    b20⟩ := h2
  exact ⟨⟨b1 ∘ a1, b2 ∘ a2, b3 ∘ a3, b4 ∘ a4, b5 ∘ a5, b6 ∘ a6, b7 ∘ a7, b8 ∘ a8, b9 ∘ a9,
    b10 ∘ a10, b11 ∘ a11, b12 ∘ a12, b13 ∘ a13, b14 ∘ a14, b15 ∘ a15⟩, by omega, by omega,
    by omega, by omega, by omega⟩

theorem entails_antisymm {a b : ValidationParams} (h1 : a.entails b = true)
    (h2 : b.entails a = true) : a = b := by
  rw [entails_iff, le_iff] at *
  obtain ⟨⟨a1, a2, a3, a4, a5, a6, a7, a8, a9, a10, a11, a12, a13, a14, a15⟩, a16, a17, a18, a19,
    a20⟩ := h1
  obtain ⟨⟨b1, b2, b3, b4, b5, b6, b7, b8, b9, b10, b11, b12, b13, b14, b15⟩, b16, b17, b18, b19,
    b20⟩ := h2
  have hb : ∀ x y : Bool, (x = true → y = true) → (y = true → x = true) → x = y := by
    intro x y; cases x <;> cases y <;> simp
  cases a; cases b
  simp only [ValidationParams.mk.injEq]
  exact ⟨hb _ _ a1 b1, hb _ _ a2 b2, hb _ _ a3 b3, hb _ _ a4 b4, hb _ _ a6 b6, hb _ _ a7 b7,
    hb _ _ a5 b5, hb _ _ a8 b8, hb _ _ a9 b9, hb _ _ a10 b10, hb _ _ a11 b11, hb _ _ a12 b12,
    hb _ _ a13 b13, hb _ _ a14 b14, hb _ _ a15 b15, Nat.le_antisymm a16 b16,
    Nat.le_antisymm a17 b17, Nat.le_antisymm a18 b18, Nat.le_antisymm a19 b19,
    Nat.le_antisymm a20 b20⟩

/-- `intersect` is a lower bound … -/
theorem intersect_entails_left (a b : ValidationParams) : (a.intersect b).entails a = true := by
  rw [entails_iff, le_iff]
  simp only [intersect, Bool.and_eq_true]
  exact ⟨⟨And.left, And.left, And.left, And.left, And.left, And.left, And.left, And.left,
    And.left, And.left, And.left, And.left, And.left, And.left, And.left⟩, minU_le_left _ _,
    minU_le_left _ _, minU_le_left _ _, minU_le_left _ _, minU_le_left _ _⟩

theorem intersect_entails_right (a b : ValidationParams) : (a.intersect b).entails b = true := by
  rw [entails_iff, le_iff]
  simp only [intersect, Bool.and_eq_true]
  exact ⟨⟨And.right, And.right, And.right, And.right, And.right, And.right, And.right, And.right,
    And.right, And.right, And.right, And.right, And.right, And.right, And.right⟩,
    minU_le_right _ _, minU_le_right _ _, minU_le_right _ _, minU_le_right _ _, minU_le_right _ _⟩

/-- … and the greatest one: `intersect` is the meet w.r.t. `entails` -/
theorem entails_intersect {c a b : ValidationParams} (h1 : c.entails a = true)
    (h2 : c.entails b = true) : c.entails (a.intersect b) = true := by
  rw [entails_iff, le_iff] at *
  obtain ⟨⟨a1, a2, a3, a4, a5, a6, a7, a8, a9, a10, a11, a12, a13, a14, a15⟩, a16, a17, a18, a19,
    a20⟩ := h1
  obtain ⟨⟨b1, b2, b3, b4, b5, b6, b7, b8, b9, b10, b11, b12, b13, b14, b15⟩, b16, b17, b18, b19,
    b20⟩ := h2
  simp only [intersect, Bool.and_eq_true]
  exact ⟨⟨fun h => ⟨a1 h, b1 h⟩, fun h => ⟨a2 h, b2 h⟩, fun h => ⟨a3 h, b3 h⟩,
    fun h => ⟨a4 h, b4 h⟩, fun h => ⟨a5 h, b5 h⟩, fun h => ⟨a6 h, b6 h⟩, fun h => ⟨a7 h, b7 h⟩,
    fun h => ⟨a8 h, b8 h⟩, fun h => ⟨a9 h, b9 h⟩, fun h => ⟨a10 h, b10 h⟩,
    fun h => ⟨a11 h, b11 h⟩, fun h => ⟨a12 h, b12 h⟩, fun h => ⟨a13 h, b13 h⟩,
    fun h => ⟨a14 h, b14 h⟩, fun h => ⟨a15 h, b15 h⟩⟩, le_minU a16 b16, le_minU a17 b17,
    le_minU a18 b18, le_minU a19 b19, le_minU a20 b20⟩

/-- `entails` is exactly "the meet is the left argument" (the Rust definition) -/
theorem entails_iff_intersect_eq (a b : ValidationParams) :
    a.entails b = true ↔ a.intersect b = a := by
  simp only [entails, eq_iff]

theorem intersect_comm (a b : ValidationParams) : a.intersect b = b.intersect a := by
  simp only [intersect, Bool.and_comm, minU_comm]

theorem intersect_idem (a : ValidationParams) : a.intersect a = a :=
  (entails_iff_intersect_eq a a).1 (entails_refl a)

/-- the library's own constants: `SANE` entails `CONSENSUS`, every context's `SANE` entails
that context's `CONSENSUS` and the global `SANE`, every context's `CONSENSUS` entails the
global one, everything entails `MAX` -/
theorem constants_ordered :
    ValidationParams.SANE.entails .CONSENSUS = true ∧ ValidationParams.CONSENSUS.entails .MAX = true ∧
    (∀ c : Ctx, c.SANE.entails c.CONSENSUS = true ∧ c.SANE.entails .SANE = true ∧
      c.CONSENSUS.entails .CONSENSUS = true ∧ c.INSANE.entails c.CONSENSUS = true) := by
  refine ⟨by decide, by decide, fun c => ?_⟩
  cases c <;> decide

/-- T3 monotonicity: tightening the parameters never admits more scripts -/
theorem validate_monotone (env : KeyEnv) (K : KeyInfo) (ctx : Ctx) {p q : ValidationParams}
    (h : p.entails q = true) (ms : Ms) (hv : isOk (validate env K ctx p ms) = true) :
    isOk (validate env K ctx q ms) = true := by
  rw [validate_isOk] at *
  exact validOK_mono ((entails_iff p q).1 h) env K ctx ms hv

/-- gap-5 form: what is accepted under `P ∩ Q` is accepted under `P` and under `Q` -/
theorem validate_intersect (env : KeyEnv) (K : KeyInfo) (ctx : Ctx) (p q : ValidationParams)
    (ms : Ms) (hv : isOk (validate env K ctx (p.intersect q) ms) = true) :
    isOk (validate env K ctx p ms) = true ∧ isOk (validate env K ctx q ms) = true :=
  ⟨validate_monotone env K ctx (intersect_entails_left p q) ms hv,
   validate_monotone env K ctx (intersect_entails_right p q) ms hv⟩

example : ValidationParams.SANE.entails .CONSENSUS = true ∧
    ValidationParams.CONSENSUS.entails .SANE = false := by decide
example : (Ctx.CONSENSUS .legacy).intersect .SANE = Ctx.SANE .legacy := rfl

/-! ## T2 — every switch rejects exactly the scripts with the stated defect

Form: `accepts with the switch off  =  accepts with the switch as in p  ∧  no defect`, i.e.
"rejects iff it rejected before or the script has the defect" — a statement about the verdict,
not about which error is reported (the order of checks decides that). -/

section T2
variable (env : KeyEnv) (K : KeyInfo) (ctx : Ctx) (p : ValidationParams) (ms : Ms) (len : Ms → Nat)

theorem switch_exact_duplicate_keys :
    isOk (validate env K ctx { p with allowDuplicateKeys := false } ms)
      = (isOk (validate env K ctx p ms) && !hasDefect_duplicateKeys ms) := by
  simp only [validate_isOk, switch_duplicateKeys, hasRepeatedKeys_eq]

theorem switch_exact_dup_if :
    isOk (validate env K ctx { p with allowDupIf := false } ms)
      = (isOk (validate env K ctx p ms) && !hasDefect_dupIf ms) := by
  simp only [validate_isOk, switch_dupIf, hasDefect_dupIf, someNode_eq]; rfl

theorem switch_exact_or_i :
    isOk (validate env K ctx { p with allowOrI := false } ms)
      = (isOk (validate env K ctx p ms) && !hasDefect_orI ms) := by
  simp only [validate_isOk, switch_orI, hasDefect_orI, someNode_eq]; rfl

theorem switch_exact_multi :
    isOk (validate env K ctx { p with allowMulti := false } ms)
      = (isOk (validate env K ctx p ms) && !hasDefect_multi ms) := by
  simp only [validate_isOk, switch_multi, hasDefect_multi, someNode_eq]; rfl

theorem switch_exact_multi_a :
    isOk (validate env K ctx { p with allowMultiA := false } ms)
      = (isOk (validate env K ctx p ms) && !hasDefect_multiA ms) := by
  simp only [validate_isOk, switch_multiA, hasDefect_multiA, someNode_eq]; rfl

theorem switch_exact_raw_pkh :
    isOk (validate env K ctx { p with allowRawPkh := false } ms)
      = (isOk (validate env K ctx p ms) && !hasDefect_rawPkh ms) := by
  simp only [validate_isOk, switch_rawPkh, hasDefect_rawPkh, someNode_eq]; rfl

theorem switch_exact_uncompressed_keys :
    isOk (validate env K ctx { p with allowUncompressedKeys := false } ms)
      = (isOk (validate env K ctx p ms) && !hasUncompressedKey (factsFrom K len) ms) := by
  simp only [validate_isOk, switch_uncompressedKeys, hasUncompressedKey, allKeys_eq]; rfl

/-- x-only keys off: x-only keys are rejected, AND compressed keys lose the "stands for its
x-only key" escape that `validate_pk` documents (they are then rejected unless
`allow_compressed_keys`) -/
theorem switch_exact_x_only_keys :
    isOk (validate env K ctx { p with allowXOnlyKeys := false } ms)
      = (isOk (validate env K ctx p ms) && (!hasXOnlyKey (factsFrom K len) ms
          && (p.allowCompressedKeys || !D_kind K .compressed ms))) := by
  simp only [validate_isOk, switch_xOnlyKeys, hasXOnlyKey, allKeys_eq]; rfl

/-- compressed keys off: has an effect only when x-only keys are off as well -/
theorem switch_exact_compressed_keys :
    isOk (validate env K ctx { p with allowCompressedKeys := false } ms)
      = (isOk (validate env K ctx p ms) && (p.allowXOnlyKeys || !D_kind K .compressed ms)) := by
  simp only [validate_isOk, switch_compressedKeys]

/-- `D_kind K .compressed` is the specification's "a compressed key occurs" -/
theorem compressed_defect_is_spec :
    D_kind K .compressed ms = hasCompressedKey (factsFrom K len) ms := by
  simp only [D_kind, hasCompressedKey, allKeys_eq, factsFrom]
  congr 1; funext k; cases K.kind k <;> rfl

theorem switch_exact_inconsistent_multipath_keys :
    isOk (validate env K ctx { p with allowInconsistentMultipathKeys := false } ms)
      = (isOk (validate env K ctx p ms) && !hasDefect_multipath (factsFrom K len) ms) := by
  simp only [validate_isOk, switch_multipath, D_multipath, hasDefect_multipath, mpRun_none_iff,
    allKeys_eq]
  rfl

/-- the library's whole-fragment type agrees with the specification's: same base-`B`-ness, same
`m` and `s` letters -/
def TypeBridge (ctx : Ctx) (ms : Ms) : Prop :=
  ∀ ty, typeOf ms = some ty → ∃ τ, specTy (isTap ctx) ms = some τ ∧
    (τ.c.base == .B) = (ty.corr.base == .B) ∧ τ.m.m = ty.mall.nonMall ∧ τ.m.s = ty.mall.signed

/-- it holds for every AST whose thresholds satisfy `1 ≤ k ≤ n` (an invariant of the Rust
`Threshold` type): composition of C05 over the tree -/
theorem typeBridge_of_ranges (hr : ruleRange ms = true) : TypeBridge ctx ms :=
  fun ty h => typeBridge (isTap ctx) ms hr ty h

theorem switch_exact_malleability_spec_type (hr : ruleRange ms = true) :
    isOk (validate env K ctx { p with allowMalleability := false } ms)
      = (isOk (validate env K ctx p ms) && !hasDefect_malleable (isTap ctx) ms) := by
  simp only [validate_isOk, switch_malleability]
  cases hty : typeOf ms with
  | none => simp [validOK, hty]
  | some ty =>
    obtain ⟨τ, h1, _, h3, _⟩ := typeBridge_of_ranges ctx ms hr ty hty
    simp [D_malleable, hasDefect_malleable, hty, h1, h3]

theorem switch_exact_sigless_branch_spec_type (hr : ruleRange ms = true) :
    isOk (validate env K ctx { p with allowSiglessBranch := false } ms)
      = (isOk (validate env K ctx p ms) && !hasDefect_sigless (isTap ctx) ms) := by
  simp only [validate_isOk, switch_sigless]
  cases hty : typeOf ms with
  | none => simp [validOK, hty]
  | some ty =>
    obtain ⟨τ, h1, _, _, h4⟩ := typeBridge_of_ranges ctx ms hr ty hty
    simp [D_sigless, hasDefect_sigless, hty, h1, h4]

theorem switch_exact_non_b (hr : ruleRange ms = true) :
    isOk (validate env K ctx { p with allowNonB := false } ms)
      = (isOk (validate env K ctx p ms) && !hasDefect_nonB (isTap ctx) ms) := by
  simp only [validate_isOk, switch_nonB]
  cases hty : typeOf ms with
  | none => simp [validOK, hty]
  | some ty =>
    obtain ⟨τ, h1, h2, _, _⟩ := typeBridge_of_ranges ctx ms hr ty hty
    have : (τ.c.base != SBase.B) = (ty.corr.base != Base.B) := by
      simp only [bne, h2]
    simp [D_nonB, hasDefect_nonB, hty, h1, this]

/-- type-level switches, in terms of the library's own type (no hypothesis) -/
theorem switch_exact_type_switches_model :
    isOk (validate env K ctx { p with allowMalleability := false } ms)
      = (isOk (validate env K ctx p ms) && !D_malleable ms) ∧
    isOk (validate env K ctx { p with allowSiglessBranch := false } ms)
      = (isOk (validate env K ctx p ms) && !D_sigless ms) ∧
    isOk (validate env K ctx { p with allowNonB := false } ms)
      = (isOk (validate env K ctx p ms) && !D_nonB ms) := by
  simp only [validate_isOk, switch_malleability, switch_sigless, switch_nonB, and_self]

/-- mixed time locks and unsatisfiability: exact w.r.t. the library's own analysis
(`TimelockInfo.contains_combination`, `sat_data = None`) -/
theorem switch_exact_mixed_time_locks_model :
    isOk (validate env K ctx { p with allowMixedTimeLocks := false } ms)
      = (isOk (validate env K ctx p ms) && !hasMixedTimelocks (extOf env ctx ms)) := by
  simp only [validate_isOk, switch_mixedTimeLocks]

theorem switch_exact_unsatisfiable_model :
    isOk (validate env K ctx { p with allowUnsatisfiable := false } ms)
      = (isOk (validate env K ctx p ms) && (extOf env ctx ms).satData.isSome) := by
  simp only [validate_isOk, switch_unsatisfiable, D_unsat]
  cases (extOf env ctx ms).satData <;> rfl

/-- `allow_unsatisfiable` at specification level: switching it off rejects exactly the scripts
for which the specification's table of canonical satisfactions (Spec/SatTable.lean) has NO
satisfaction even with every signature, preimage, key and lock available.  Only hypothesis:
thresholds in range (an invariant of the Rust `Threshold` type); that every `thresh` child is
dissatisfiable follows from typing (`threshKidsOK_of_typed`: type letter `d` ⇒ `dsatEx`). -/
theorem switch_exact_unsatisfiable (hr : ruleRange ms = true) :
    isOk (validate env K ctx { p with allowUnsatisfiable := false } ms)
      = (isOk (validate env K ctx p ms) && !hasDefect_unsatisfiable ms) := by
  cases hty : typeOf ms with
  | none => simp [validate_isOk, validOK, hty]
  | some ty =>
    rw [switch_exact_unsatisfiable_model,
      satData_isSome_eq_satEx env ctx ms hr (threshKidsOK_of_typed ms ty hty)]

/-- `allow_sigless_branch`, SEMANTICALLY: switching it off rejects exactly the scripts that
have a canonical satisfaction using no signature at all (the specification's satisfaction
table finds one when no signature is available and everything else is) — independent of the
type system: the type letter `s` is proved to mean exactly that (`signed_eq_noSigSat`). -/
theorem switch_exact_sigless_branch (hr : ruleRange ms = true) :
    isOk (validate env K ctx { p with allowSiglessBranch := false } ms)
      = (isOk (validate env K ctx p ms) && !hasDefect_siglessSem ms) := by
  simp only [validate_isOk, switch_sigless]
  cases hty : typeOf ms with
  | none => simp [validOK, hty]
  | some ty =>
    simp only [D_sigless, hty, hasDefect_siglessSem, signed_eq_noSigSat ms hr ty hty, Bool.not_not]

/-- duplicate keys: the defect is the standard notion — the list of key occurrences has a
repetition -/
theorem duplicate_keys_defect_iff : hasDefect_duplicateKeys ms = false ↔ (allKeys ms).Nodup := by
  simp only [hasDefect_duplicateKeys, Bool.not_eq_false']
  generalize allKeys ms = l
  induction l with
  | nil => simp [nodupB]
  | cons k ks ih =>
    simp only [nodupB, Bool.and_eq_true, Bool.not_eq_true', List.nodup_cons, ih]
    constructor
    · rintro ⟨h1, h2⟩; exact ⟨by simpa using h1, h2⟩
    · rintro ⟨h1, h2⟩; exact ⟨by simpa using h1, h2⟩

/-- the semantic statement for mixed time locks: exact for scripts without a `0` fragment
(a `0` under a conjunction makes the library's analysis count a combination no satisfaction
uses, cf. F10), sound in general.  NOT proved; the judge checks it on every enumerated script. -/
def switch_exact_mixed_time_locks_full : Prop :=
  ∀ (env : KeyEnv) (K : KeyInfo) (ctx : Ctx) (p : ValidationParams) (ms : Ms),
    (hasDefect_mixedTimeLocks ms = true →
      isOk (validate env K ctx { p with allowMixedTimeLocks := false } ms) = false) ∧
    (someNode (fun | .fls => true | _ => false) ms = false →
      isOk (validate env K ctx { p with allowMixedTimeLocks := false } ms)
        = (isOk (validate env K ctx p ms) && !hasDefect_mixedTimeLocks ms))

/-! ### numeric limits: lowering a limit to `L` rejects exactly the scripts whose figure exceeds `L` -/

theorem limit_exact_recursive_depth (L : Nat) (hL : L ≤ p.maxRecursiveDepth) :
    isOk (validate env K ctx { p with maxRecursiveDepth := L } ms)
      = (isOk (validate env K ctx p ms) && decide (depth ms ≤ L)) := by
  simp only [validate_isOk, limit_depth env K ctx p ms L hL, treeHeight_eq]

/-- script size: the limit is only looked at when it is finite (`< usize::MAX`) -/
theorem limit_exact_script_size (L : Nat) (hL : L ≤ p.maxScriptSize) (hfin : L < USIZE_MAX) :
    isOk (validate env K ctx { p with maxScriptSize := L } ms)
      = (isOk (validate env K ctx p ms) && decide (scriptSize env ctx ms ≤ L)) := by
  simp only [validate_isOk, limit_scriptSize env K ctx p ms L hL hfin]

/-- witness items / opcodes / stack: only scripts that have a satisfaction are measured -/
theorem limit_exact_witness_items (L : Nat) (hL : L ≤ p.maxWitnessItems) :
    isOk (validate env K ctx { p with maxWitnessItems := L } ms)
      = (isOk (validate env K ctx p ms) &&
          (match (extOf env ctx ms).satData with
           | none => true | some d => decide (d.wCount + 1 ≤ L))) := by
  simp only [validate_isOk, limit_witnessItems env K ctx p ms L hL]; rfl

theorem limit_exact_opcode_count (L : Nat) (hL : L ≤ p.maxOpcodeCount) :
    isOk (validate env K ctx { p with maxOpcodeCount := L } ms)
      = (isOk (validate env K ctx p ms) &&
          (match (extOf env ctx ms).satData with
           | none => true | some d => decide ((extOf env ctx ms).staticOps + d.execOps ≤ L))) := by
  simp only [validate_isOk, limit_opcodeCount env K ctx p ms L hL]; rfl

theorem limit_exact_exec_stack_size (L : Nat) (hL : L ≤ p.maxExecStackSize) :
    isOk (validate env K ctx { p with maxExecStackSize := L } ms)
      = (isOk (validate env K ctx p ms) &&
          (match (extOf env ctx ms).satData with
           | none => true | some d => decide (d.wCount + d.execStack ≤ L))) := by
  simp only [validate_isOk, limit_execStack env K ctx p ms L hL]; rfl

end T2

/-! ### concrete key table for the witnesses / non-vacuity examples

ids 0..99 compressed (33 bytes), 100..199 uncompressed (65), 200.. x-only (32) -/
def demoEnv : KeyEnv where
  ser k := List.replicate (if 200 ≤ k then 32 else if 100 ≤ k then 65 else 33) 0
  sortKey _ := []
  pkh _ := []
  rawPkh _ := []
  hashVal _ _ := []
def demoK : KeyInfo := ⟨keyKindOf demoEnv, fun _ => 1⟩
def demoF (ctx : Ctx) : Facts := factsFrom demoK (fun ms => (extOf demoEnv ctx ms).pkCost)

/-- `and_v(v:pk(0),pk(0))` -/
def dupScript : Ms := .andV (.verify (.check (.pkK 0))) (.check (.pkK 0))
example : isOk (validate demoEnv demoK .segwitv0 .MAX dupScript) = true ∧
    hasDefect_duplicateKeys dupScript = true ∧
    isOk (validate demoEnv demoK .segwitv0 { ValidationParams.MAX with allowDuplicateKeys := false }
      dupScript) = false := by decide
/-- `and_v(v:pk(0),0)`: no satisfaction -/
example : hasDefect_unsatisfiable (.andV (.verify (.check (.pkK 0))) .fls) = true ∧
    hasDefect_siglessSem (.andV (.verify (.check (.pkK 0))) (.older 10)) = false ∧
    hasDefect_siglessSem (.orI (.check (.pkK 0)) (.older 10)) = true ∧
    ruleRange (.andV (.verify (.check (.pkK 0))) .fls) = true ∧
    hasDefect_unsatisfiable dupScript = false ∧
    threshKidsOK (.thresh 1 (.cons (.check (.pkK 0)) (.cons (.swap (.check (.pkK 1))) .nil))) = true := by
  simp [hasDefect_unsatisfiable, threshKidsOK, kidsPred, everyNode, everyNodeL, ruleRange, rangeOk,
    SatTable.satEx, SatTable.dsatEx, SatTable.allDsatEx, allAvail, dupScript, hasDefect_siglessSem,
    noSigAvail]
example : isOk (validate demoEnv demoK .segwitv0 { ValidationParams.MAX with maxScriptSize := 70 }
      dupScript) = true ∧
    isOk (validate demoEnv demoK .segwitv0 { ValidationParams.MAX with maxScriptSize := 69 }
      dupScript) = false := by decide

/-! ## T1 — what is accepted obeys the rules of the context -/

section T1
variable (env : KeyEnv) (K : KeyInfo) (ctx : Ctx) (ms : Ms) (len : Ms → Nat)

/-- `from_ast` (run on every node): every fragment rule of the context — key kinds (also of
`pk_h` keys since fix 4cd8ebfa), multisig flavour, threshold and lock ranges, depth, script size.
`hlen`: the script length is at most the library's size figure `pk_cost` (discharged for the
real encoded length by C09, see `accepted_obeys_ctx_encoded`). -/
theorem from_ast_obeys_ctx (h : accepts env K ctx .fromAst ms = true)
    (hlen : len ms ≤ (extOf env ctx ms).pkCost) :
    ctxFragOK (factsFrom K len) ctx ms = true := by
  simp only [accepts, Bool.and_true] at h
  obtain ⟨h1, h2, h3⟩ := constructed_rules env K ctx len ms h
  simp only [ctxFragOK, Bool.and_eq_true]
  refine ⟨⟨⟨⟨h3, h2⟩, h1⟩, ?_⟩, constructed_depth env K ctx ms h⟩
  simp only [ruleSize, factsFrom]
  exact decide_eq_true (Nat.le_trans hlen (constructed_size env K ctx ms h))

example : accepts demoEnv demoK .segwitv0 .fromAst (.pkH 200) = false ∧
    accepts demoEnv demoK .segwitv0 .fromAst (.pkH 0) = true := by decide

/-- the miniscript parsers / decoders (`from_str`, `from_str_insane`,
`from_str_with_validation_params(_, &Ctx::CONSENSUS)`, `decode`, `decode_consensus`) and the
`tr(..)` descriptor parsers: everything accepted obeys ALL rules of the context.
Hypothesis `hlen`: `len` is at most the library's size figure `pk_cost` — an inequality, because
`pk_cost` overshoots for `multi_a` (C09 `costSlack`); it was one byte SHORT per uncompressed key
before fix F17, which the size judge found.  `accepted_obeys_ctx_encoded` discharges it for the
real encoded length. -/
theorem accepted_obeys_ctx_consensus (h : accepts env K ctx .msConsensus ms = true)
    (hlen : len ms ≤ (extOf env ctx ms).pkCost) :
    ctxOK (factsFrom K len) ctx ms = true := by
  simp only [accepts, Bool.and_eq_true, validate_isOk] at h
  obtain ⟨hc, hv⟩ := h
  obtain ⟨hk, hcond, ty, hty, hB⟩ := validOK_consensus_rules env K ctx len ms hv
  obtain ⟨h1, h2, _⟩ := constructed_rules env K ctx len ms hc
  obtain ⟨τ, ht1, ht2, _, _⟩ := typeBridge_of_ranges ctx ms h1 ty hty
  simp only [ctxOK, ctxFragOK, Bool.and_eq_true]
  refine ⟨⟨?_, hcond⟩, ⟨⟨⟨⟨hk, h2⟩, h1⟩, ?_⟩, constructed_depth env K ctx ms hc⟩⟩
  · simp only [ruleTopB, ht1, ht2, hB]; rfl
  · simp only [ruleSize, factsFrom]
    exact decide_eq_true (Nat.le_trans hlen (constructed_size env K ctx ms hc))

/-- the same for the two contexts that admit uncompressed keys, from the figure `validate`
actually uses there (`script_size()`, which counts 66 bytes for an uncompressed key and is
compared with `max_script_size` = 520 / 10 000): hypothesis real length ≤ `script_size()` -/
theorem accepted_obeys_ctx_consensus_by_script_size (hctx : ctx = .legacy ∨ ctx = .bare)
    (h : accepts env K ctx .msConsensus ms = true)
    (hss : len ms ≤ scriptSize env ctx ms) :
    ctxOK (factsFrom K len) ctx ms = true := by
  simp only [accepts, Bool.and_eq_true, validate_isOk] at h
  obtain ⟨hc, hv⟩ := h
  obtain ⟨hk, hcond, ty, hty, hB⟩ := validOK_consensus_rules env K ctx len ms hv
  obtain ⟨h1, h2, _⟩ := constructed_rules env K ctx len ms hc
  obtain ⟨τ, ht1, ht2, _, _⟩ := typeBridge_of_ranges ctx ms h1 ty hty
  simp only [ctxOK, ctxFragOK, Bool.and_eq_true]
  refine ⟨⟨?_, hcond⟩, ⟨⟨⟨⟨hk, h2⟩, h1⟩, ?_⟩, constructed_depth env K ctx ms hc⟩⟩
  · simp only [ruleTopB, ht1, ht2, hB]; rfl
  · simp only [validOK, hty, nonTopOK, resourceOK, Bool.and_eq_true, Bool.or_eq_true,
      decide_eq_true_eq] at hv
    have hsz := hv.1.2.1
    simp only [ruleSize, factsFrom]
    apply decide_eq_true
    rcases hctx with rfl | rfl <;>
      simp only [Ctx.CONSENSUS, ValidationParams.CONSENSUS, USIZE_MAX, MAX_SCRIPT_ELEMENT_SIZE,
        MAX_SCRIPT_SIZE, maxScriptLen] at hsz ⊢ <;> omega

theorem accepted_obeys_ctx_sane (h : accepts env K ctx .msSane ms = true)
    (hlen : len ms ≤ (extOf env ctx ms).pkCost) :
    ctxOK (factsFrom K len) ctx ms = true := by
  apply accepted_obeys_ctx_consensus env K ctx ms len _ hlen
  simp only [accepts, Bool.and_eq_true, validate_isOk] at h ⊢
  exact ⟨h.1, validOK_mono (sane_le_consensus ctx) env K ctx ms h.2⟩

theorem accepted_obeys_ctx_insane (h : accepts env K ctx .msInsane ms = true)
    (hlen : len ms ≤ (extOf env ctx ms).pkCost) :
    ctxOK (factsFrom K len) ctx ms = true := by
  apply accepted_obeys_ctx_consensus env K ctx ms len _ hlen
  simp only [accepts, Bool.and_eq_true, validate_isOk] at h ⊢
  exact ⟨h.1, validOK_mono (insane_le_consensus ctx) env K ctx ms h.2⟩

/-- `Tr::from_str` and `Descriptor::from_str("tr(..)")` validate every leaf with `Tap::CONSENSUS` -/
theorem accepted_obeys_ctx_tr (e : Entry) (he : e = .trFromStr ∨ e = .descFromStr)
    (h : accepts env K .tap e ms = true) (hlen : len ms ≤ (extOf env .tap ms).pkCost) :
    ctxOK (factsFrom K len) .tap ms = true := by
  apply accepted_obeys_ctx_consensus env K .tap ms len _ hlen
  rcases he with rfl | rfl <;> simp only [accepts, Bool.and_eq_true] at h ⊢
  · exact h
  · exact ⟨h.1, h.2.1⟩

/-- everything a wrapper constructor / descriptor parser accepts was accepted by `from_ast`
and passed `top_level_checks` -/
theorem wrapper_imp_top (e : Entry) (he : e = .wrapper ∨ (e = .descFromStr ∧ ctx ≠ .tap))
    (h : accepts env K ctx e ms = true) :
    constructed env K ctx ms = true ∧ topLevelChecks K ctx ms = true := by
  rcases he with rfl | ⟨rfl, hne⟩
  · simp only [accepts, Bool.and_eq_true] at h; exact ⟨h.1, h.2.1⟩
  · cases ctx <;> simp_all [accepts]

/-- where MINIMALIF is enforced there is no restriction on `d:` / `or_i` -/
theorem ruleCond_of_minimalIf (h : minimalIf ctx = true) : ruleCond ctx ms = true := by
  simp only [ruleCond, everyNode_eq, List.all_eq_true]
  intro m _
  cases m <;> simp [condAllowed, h]

/-- the bare templates (`c:pk_k`, `c:pk_h`, `c:expr_raw_pkh`, `multi` with n ≤ 3) contain no
conditional -/
theorem ruleCond_of_bareTemplate (h : bareTemplate ms = true) : ruleCond .bare ms = true := by
  unfold bareTemplate at h
  split at h <;> first | rfl | simp at h

/-- `Wsh::new` / `Sh::new` / `Sh::new_wsh` / `Bare::new` / `Descriptor::new_*` /
`*::new_sortedmulti` and `Descriptor::from_str` of `wsh(..)`, `sh(..)`, `sh(wsh(..))`, bare:
R1 (type-B top level) and ALL fragment rules hold in every context; R4 (`d:`/`or_i`) holds in
every context except legacy. -/
theorem wrapper_obeys_ctx_partial (e : Entry)
    (he : e = .wrapper ∨ (e = .descFromStr ∧ ctx ≠ .tap))
    (h : accepts env K ctx e ms = true) (hlen : len ms ≤ (extOf env ctx ms).pkCost) :
    ruleTopB ctx ms = true ∧ ctxFragOK (factsFrom K len) ctx ms = true ∧
      (ctx ≠ .legacy → ruleCond ctx ms = true) := by
  obtain ⟨hc, htop⟩ := wrapper_imp_top env K ctx ms e he h
  have hfa : accepts env K ctx .fromAst ms = true := by simp [accepts, hc]
  have hfrag := from_ast_obeys_ctx env K ctx ms len hfa hlen
  have hrange : ruleRange ms = true := (constructed_rules env K ctx len ms hc).1
  simp only [topLevelChecks, topLevelTypeCheck, Bool.and_eq_true] at htop
  obtain ⟨⟨hB, _⟩, hbare⟩ := htop
  refine ⟨?_, hfrag, ?_⟩
  · cases hty : typeOf ms with
    | none => simp [hty] at hB
    | some ty =>
      obtain ⟨τ, ht1, ht2, _, _⟩ := typeBridge_of_ranges ctx ms hrange ty hty
      simp only [hty] at hB
      simp only [ruleTopB, ht1, ht2, hB]
  · intro hne
    cases ctx with
    | legacy => exact absurd rfl hne
    | bare => exact ruleCond_of_bareTemplate ms hbare
    | segwitv0 => exact ruleCond_of_minimalIf .segwitv0 ms rfl
    | tap => exact ruleCond_of_minimalIf .tap ms rfl

/-- T1 for ALL entry points: everything accepted obeys every rule of its context, except that
the `sh` wrapper / `sh(..)` parser do not enforce R4 (`d:`/`or_i` in legacy, F13) -/
theorem accepted_obeys_ctx (e : Entry) (he : e ≠ .fromAst)
    (hsh : ¬ (ctx = .legacy ∧ (e = .wrapper ∨ e = .descFromStr)))
    (h : accepts env K ctx e ms = true) (hlen : len ms ≤ (extOf env ctx ms).pkCost) :
    ctxOK (factsFrom K len) ctx ms = true := by
  have hw : ∀ e', (e' = .wrapper ∨ (e' = .descFromStr ∧ ctx ≠ .tap)) → ctx ≠ .legacy →
      accepts env K ctx e' ms = true → ctxOK (factsFrom K len) ctx ms = true := by
    intro e' he' hne h'
    obtain ⟨h1, h2, h3⟩ := wrapper_obeys_ctx_partial env K ctx ms len e' he' h' hlen
    simp only [ctxOK, Bool.and_eq_true]
    exact ⟨⟨h1, h3 hne⟩, h2⟩
  cases e with
  | fromAst => exact absurd rfl he
  | msSane => exact accepted_obeys_ctx_sane env K ctx ms len h hlen
  | msConsensus => exact accepted_obeys_ctx_consensus env K ctx ms len h hlen
  | msInsane => exact accepted_obeys_ctx_insane env K ctx ms len h hlen
  | trFromStr | trNew =>
    apply accepted_obeys_ctx_consensus env K ctx ms len _ hlen
    simpa only [accepts] using h
  | wrapper =>
    exact hw .wrapper (Or.inl rfl) (fun hc => hsh ⟨hc, Or.inl rfl⟩) h
  | descFromStr =>
    by_cases ht : ctx = .tap
    · subst ht
      exact accepted_obeys_ctx_tr env K ms len .descFromStr (Or.inr rfl) h hlen
    · exact hw .descFromStr (Or.inr ⟨rfl, ht⟩) (fun hc => hsh ⟨hc, Or.inr rfl⟩) h

/-- the byte length of the script the fragment really encodes to (Model/Encode, C04) -/
def encodedLen (env : KeyEnv) (ctx : Ctx) (ms : Ms) : Nat :=
  (Script.serialize (encode env ctx ms)).length

/-- T1 about the REAL encoded length: no size hypothesis is left; what remains are C09's
decidable side conditions on the atom table (`costOk`, `sizeOk`: keys, key hashes and hash
values have the byte lengths the context prescribes, numbers fit 32 bits), under which C09
proves `encoded length ≤ pk_cost` (`C09.pk_cost_ge_encoded_length`) -/
theorem accepted_obeys_ctx_encoded (e : Entry) (he : e ≠ .fromAst)
    (hsh : ¬ (ctx = .legacy ∧ (e = .wrapper ∨ e = .descFromStr)))
    (h : accepts env K ctx e ms = true)
    (hc : C09.costOk env ctx ms = true) (hs : C09.sizeOk env ctx ms = true) :
    ctxOK (factsFrom K (encodedLen env ctx)) ctx ms = true :=
  accepted_obeys_ctx env K ctx ms (encodedLen env ctx) e he hsh h
    (C09.pk_cost_ge_encoded_length env ctx ms hc hs)

theorem from_ast_obeys_ctx_encoded (h : accepts env K ctx .fromAst ms = true)
    (hc : C09.costOk env ctx ms = true) (hs : C09.sizeOk env ctx ms = true) :
    ctxFragOK (factsFrom K (encodedLen env ctx)) ctx ms = true :=
  from_ast_obeys_ctx env K ctx ms (encodedLen env ctx) h
    (C09.pk_cost_ge_encoded_length env ctx ms hc hs)

example : accepts C09.ke0 ⟨keyKindOf C09.ke0, fun _ => 1⟩ .segwitv0 .msSane (.check (.pkK 0)) = true ∧
    C09.costOk C09.ke0 .segwitv0 (.check (.pkK 0)) = true ∧
    C09.sizeOk C09.ke0 .segwitv0 (.check (.pkK 0)) = true := by decide

/-- the full statement (no exception for `sh`) -/
def accepted_obeys_ctx_full : Prop :=
  ∀ (env : KeyEnv) (K : KeyInfo) (ctx : Ctx) (e : Entry) (ms : Ms) (len : Ms → Nat),
    e ≠ .fromAst → accepts env K ctx e ms = true →
    len ms ≤ (extOf env ctx ms).pkCost → ctxOK (factsFrom K len) ctx ms = true

end T1

/-- F13, the remaining gap: `Sh::new(or_i(pk(A),pk(B)))` and
`Descriptor::from_str("sh(or_i(pk(A),pk(B)))")` are accepted although `Legacy::CONSENSUS`
forbids `or_i` (likewise `d:`); `Miniscript::<_, Legacy>::from_str*` reject them.
(All other former witnesses are now rejected: non-B top level, `pk_h` of a forbidden key kind,
non-B tap leaf through `Tr::new`.) -/
theorem sh_accepts_or_i :
    accepts demoEnv demoK .legacy .descFromStr (.orI (.check (.pkK 0)) (.check (.pkK 1))) = true ∧
    accepts demoEnv demoK .legacy .wrapper (.orI (.check (.pkK 0)) (.check (.pkK 1))) = true ∧
    accepts demoEnv demoK .legacy .wrapper
      (.andV (.verify (.check (.pkK 0))) (.dupIf (.verify (.older 10)))) = true ∧
    ruleCond .legacy (.orI (.check (.pkK 0)) (.check (.pkK 1))) = false ∧
    accepts demoEnv demoK .legacy .msConsensus (.orI (.check (.pkK 0)) (.check (.pkK 1))) = false ∧
    -- regression: the witnesses of the repaired defects
    accepts demoEnv demoK .segwitv0 .wrapper (.pkK 0) = false ∧
    accepts demoEnv demoK .segwitv0 .wrapper (.check (.pkH 200)) = false ∧
    accepts demoEnv demoK .segwitv0 .descFromStr (.check (.pkH 100)) = false ∧
    accepts demoEnv demoK .tap .trNew (.pkK 200) = false := by
  decide

theorem accepted_obeys_ctx_false : ¬ accepted_obeys_ctx_full := by
  intro h
  have := h demoEnv demoK .legacy .wrapper (.orI (.check (.pkK 0)) (.check (.pkK 1)))
    (fun ms => (extOf demoEnv .legacy ms).pkCost) (by decide) (by decide) (Nat.le_refl _)
  revert this; decide

example : accepts demoEnv demoK .segwitv0 .wrapper (.check (.pkK 0)) = true ∧
    accepts demoEnv demoK .segwitv0 .msSane (.check (.pkK 0)) = true ∧
    ctxOK (demoF .segwitv0) .segwitv0 (.check (.pkK 0)) = true ∧
    acceptsSortedMulti demoEnv demoK .segwitv0 1 [0, 1] = true ∧
    acceptsSortedMulti demoEnv demoK .segwitv0 1 [100, 0] = false := by decide

/-! ## key-only descriptors, taproot trees, `decode_with_validation_params` -/

/-- `Pkh::new` / `Wpkh::new` / `Sh::new_wpkh` / `Tr::new(k, None)` / `Descriptor::new_*` and the
parsers of `pkh(K)`, `wpkh(K)`, `sh(wpkh(K))`, `pk(K)`, `tr(K)` (one model for constructor and
parser): accepted IF AND ONLY IF the context permits the key's kind -/
theorem key_only_accepts_iff (K : KeyInfo) (len : Ms → Nat) (d : KeyDesc) (k : Key) :
    keyOnlyAccepts K d k = keyAllowed (factsFrom K len) d.ctx k :=
  checkPk_eq K len d.ctx k

/-- `Descriptor::new_pk` cannot report an error: it panics exactly on the keys the bare context
forbids (x-only keys) -/
theorem new_pk_panics_iff (K : KeyInfo) (len : Ms → Nat) (k : Key) :
    keyOnlyOutcome K .pk true k = .panic ↔ keyAllowed (factsFrom K len) .bare k = false := by
  simp only [keyOnlyOutcome, key_only_accepts_iff K len, KeyDesc.ctx]
  cases keyAllowed (factsFrom K len) .bare k <;> simp

example : keyOnlyAccepts demoK .wpkh 100 = false ∧ keyOnlyAccepts demoK .wpkh 0 = true ∧
    keyOnlyAccepts demoK .tr 0 = true ∧ keyOnlyOutcome demoK .pk true 200 = .panic := by decide

/-- multi-leaf `tr`: whatever `TapTree::combine` + `Tr::new`, `Tr::from_str` or
`Descriptor::from_str` accept has every leaf at depth ≤ 128 and every leaf obeys the Tapscript
rules -/
theorem tr_tree_accepts_obeys (env : KeyEnv) (K : KeyInfo) (len : Ms → Nat) (e : Entry)
    (he : e = .trNew ∨ e = .trFromStr ∨ e = .descFromStr) (t : TapT)
    (h : trTreeAccepts env K e t = true)
    (hlen : ∀ m ∈ t.leaves, len m ≤ (extOf env .tap m).pkCost) :
    tapTreeOK (factsFrom K len) (t.depths 0) t.leaves = true := by
  simp only [trTreeAccepts, Bool.and_eq_true, decide_eq_true_eq, List.all_eq_true] at h
  simp only [tapTreeOK, Bool.and_eq_true, List.all_eq_true, decide_eq_true_eq]
  refine ⟨fun d hd => by have := depths_le_height t 0 d hd; omega, fun m hm => ?_⟩
  apply accepted_obeys_ctx env K .tap m len e _ _ (h.2 m hm) (hlen m hm)
  · rcases he with rfl | rfl | rfl <;> decide
  · rintro ⟨hc, _⟩; cases hc

example : trTreeAccepts demoEnv demoK .trNew
      (.node (.leaf (.check (.pkK 200))) (.leaf (.check (.pkK 201)))) = true ∧
    trTreeAccepts demoEnv demoK .trNew (.node (.leaf (.check (.pkK 200))) (.leaf (.pkK 201))) = false := by
  decide

/-- `decode_with_validation_params(script, p)` is "decode, then `validate(p)`": once the script
decodes under `MAX`, the verdict under any `p` is the verdict of `validate` on the decoded AST -/
theorem decode_then_validate (env : KeyEnv) (K : KeyInfo) (ctx : Ctx) (p : ValidationParams)
    (ms : Ms) (h : decodeAccepts env K ctx .MAX ms = true) :
    decodeAccepts env K ctx p ms = isOk (validate env K ctx p ms) := by
  simp only [decodeAccepts, Bool.and_eq_true] at h ⊢
  simp [h.1]

/-- what the decoder accepts under parameters at least as tight as the context's `CONSENSUS`
(`decode_consensus`, `decode`, …) obeys every rule of the context — although the decoder
itself pushes `pk_k` / `multi` / lock leaves unchecked: `validate` makes up for it.
`hlen`: as in `accepted_obeys_ctx_consensus`. -/
theorem decode_accepts_obeys_ctx (env : KeyEnv) (K : KeyInfo) (ctx : Ctx) (p : ValidationParams)
    (ms : Ms) (len : Ms → Nat) (hp : p.entails ctx.CONSENSUS = true)
    (h : decodeAccepts env K ctx p ms = true) (hlen : len ms ≤ (extOf env ctx ms).pkCost) :
    ctxOK (factsFrom K len) ctx ms = true := by
  simp only [decodeAccepts, decConstructed, Bool.and_eq_true, List.all_eq_true] at h
  obtain ⟨⟨⟨hnodes, hglob⟩, _⟩, hv⟩ := h
  have hv' : validOK env K ctx ctx.CONSENSUS ms = true := by
    rw [← validate_isOk]; exact validate_monotone env K ctx hp ms hv
  obtain ⟨hk, hcond, ty, hty, hB⟩ := validOK_consensus_rules env K ctx len ms hv'
  have hrange : ruleRange ms = true := by
    simp only [ruleRange, everyNode_eq, List.all_eq_true]
    intro m hm; rw [← termNodeOk_eq]; exact (hnodes m hm).1
  obtain ⟨τ, ht1, ht2, _, _⟩ := typeBridge_of_ranges ctx ms hrange ty hty
  simp only [ctxOK, ctxFragOK, Bool.and_eq_true]
  refine ⟨⟨?_, hcond⟩, ⟨⟨⟨⟨hk, validOK_consensus_multi env K ctx ms hv'⟩, hrange⟩, ?_⟩, ?_⟩⟩
  · simp only [ruleTopB, ht1, ht2, hB]; rfl
  · simp only [checkGlobalValidity, Bool.and_eq_true] at hglob
    simp only [ruleSize, factsFrom]
    exact decide_eq_true (Nat.le_trans hlen (sizeChecked_le _ _ hglob.2))
  · have := validOK_depth env K ctx ctx.CONSENSUS ms hv'
    have h402 : (ctx.CONSENSUS).maxRecursiveDepth = 402 := by cases ctx <;> rfl
    simp only [ruleDepth, decide_eq_true_eq]; omega

/-! ## the public-API routes that bypass `from_consensus` / `from_ast` -/

/-- the API routes accept at least what the `from_consensus` + `from_ast` route accepts, and the
unchecked leaf constructors accept at least what `from_ast` on every node accepts -/
theorem api_routes_monotone (env : KeyEnv) (K : KeyInfo) (ctx : Ctx) (ms : Ms)
    (h : constructed env K ctx ms = true) :
    constructedApi false env K ctx ms = true ∧ constructedApi true env K ctx ms = true := by
  simp only [constructed, constructedApi, List.all_eq_true] at h ⊢
  have hterm : ∀ m, termNodeOk m = true → termNodeOkApi m = true := by
    intro m hm
    cases m <;> simp_all [termNodeOk, termNodeOkApi, relLockOk]
  constructor <;> intro m hm <;>
    (have := h m hm
     simp only [fromAstNode, Bool.and_eq_true] at this
     split
     · exact hterm m this.1.1.1
     · simp [this.1.1.1, this.1.1.2, this.1.2, this.2])

/-- F19 (repaired by abe9c44e for `from_ast`, regression): a miniscript containing `older(0)`
can no longer be built with `from_ast`, so no entry point fed through the checked route accepts
`and_v(v:pk(A),older(0))`.  What is left of F19: the unchecked leaf constructor
`Miniscript::older(RelLockTime::ZERO)` still builds the leaf, its parents' `from_ast` do not look
at it and `validate` has no lock-range check — listed with the other unchecked leaf constructors
(F20) -/
theorem api_older_zero :
    let s := Ms.andV (.verify (.check (.pkK 0))) (.older 0)
    acceptsApi false demoEnv demoK .segwitv0 .fromAst s = false ∧
    acceptsApi false demoEnv demoK .segwitv0 .msSane s = false ∧
    acceptsApi false demoEnv demoK .segwitv0 .wrapper s = false ∧
    acceptsApi false demoEnv demoK .legacy .wrapper s = false ∧
    acceptsApi false demoEnv demoK .tap .trNew (.andV (.verify (.check (.pkK 200))) (.older 0)) = false ∧
    acceptsApi false demoEnv demoK .segwitv0 .fromAst (.older 0) = false ∧
    accepts demoEnv demoK .segwitv0 .fromAst s = false ∧ ruleRange s = false ∧
    -- the residue, through `Miniscript::older(RelLockTime::ZERO)`
    acceptsApi true demoEnv demoK .segwitv0 .fromAst (.older 0) = true ∧
    acceptsApi true demoEnv demoK .segwitv0 .wrapper s = true := by
  decide

/-- F20: the unchecked leaf constructors yield miniscripts whose keys the context forbids;
every wrapper now catches them with `validate` — `Bare::new` too since fix d43c12c1 (F21,
regression) -/
theorem api_ctor_wrong_key_kinds :
    acceptsApi true demoEnv demoK .segwitv0 .fromAst (.check (.pkK 200)) = true ∧
    acceptsApi true demoEnv demoK .tap .fromAst (.multi 1 [200, 201]) = true ∧
    ruleKeys (demoF .segwitv0) .segwitv0 (.check (.pkK 200)) = false ∧
    acceptsApi true demoEnv demoK .bare .wrapper (.check (.pkK 200)) = false ∧
    acceptsApi true demoEnv demoK .bare .wrapper (.multi 2 [200, 201, 202]) = false ∧
    acceptsApi true demoEnv demoK .bare .wrapper (.check (.pkK 0)) = true ∧
    acceptsApi true demoEnv demoK .segwitv0 .wrapper (.check (.pkK 200)) = false ∧
    acceptsApi true demoEnv demoK .legacy .wrapper (.check (.pkK 200)) = false ∧
    acceptsApi true demoEnv demoK .tap .trNew (.check (.pkK 100)) = false ∧
    acceptsApi false demoEnv demoK .bare .wrapper (.check (.pkK 200)) = false := by
  decide

/-! ## one model of `validate`: C08's mirror is this one -/

/-- `CC.validateSane` (Model/CompileCheck.lean, used by C08's compiler checker) equals
`validate … ctx.SANE` of Model/Validate.lean on the compiler's key table, for every script whose
satisfaction figures fit a `usize` (`FitsUsize`; true of every Rust value by construction) -/
theorem c08_validateSane_is_validate (env : KeyEnv) (ctx : Ctx) (m : Ms)
    (hfit : FitsUsize env ctx m) :
    CC.validateSane env ctx m = isOk (validate env (ccKeys env) ctx ctx.SANE m) :=
  validateSane_eq_validate env ctx m hfit

/-! ## T4 — what the descriptor parser accepts, the miniscript parser with the context's
consensus parameters accepts -/

/-- `tr(..)`: every leaf is validated with `Tap::CONSENSUS` (and `Tap::SANE`);
`wsh(..)` / `sh(wsh(..))`: `Wsh::new` validates with `Segwitv0::CONSENSUS` (fix f6816493) -/
theorem descriptor_accept_imp_consensus (env : KeyEnv) (K : KeyInfo) (ctx : Ctx) (ms : Ms)
    (hctx : ctx = .tap ∨ ctx = .segwitv0) (h : accepts env K ctx .descFromStr ms = true) :
    accepts env K ctx .msConsensus ms = true := by
  rcases hctx with rfl | rfl <;> simp only [accepts, wrapperValidate, Bool.and_eq_true] at h ⊢
  · exact ⟨h.1, h.2.1⟩
  · exact ⟨h.1, h.2.2⟩

/-- `sh(..)`: accepted ⇒ accepted by the miniscript parser with `Legacy::CONSENSUS` relaxed on
`d:`/`or_i` (`SH_PARAMS`), hence with `Legacy::CONSENSUS` itself whenever the script contains
neither fragment (by T2: the two switches reject exactly those scripts) -/
theorem descriptor_accept_imp_consensus_legacy_partial (env : KeyEnv) (K : KeyInfo) (ms : Ms)
    (h : accepts env K .legacy .descFromStr ms = true) :
    isOk (validate env K .legacy SH_PARAMS ms) = true ∧
    (hasDefect_dupIf ms = false → hasDefect_orI ms = false →
      accepts env K .legacy .msConsensus ms = true) := by
  simp only [accepts, wrapperValidate, Bool.and_eq_true] at h ⊢
  refine ⟨h.2.2, fun hd ho => ⟨h.1, ?_⟩⟩
  have e : Ctx.CONSENSUS .legacy
      = { ({ SH_PARAMS with allowDupIf := false } : ValidationParams) with allowOrI := false } := rfl
  rw [e, switch_exact_or_i, switch_exact_dup_if, h.2.2, hd, ho]
  rfl

def descriptor_accept_imp_consensus_full : Prop :=
  ∀ (env : KeyEnv) (K : KeyInfo) (ctx : Ctx) (ms : Ms),
    accepts env K ctx .descFromStr ms = true → accepts env K ctx .msConsensus ms = true

/-- still FALSE for `sh(..)` (F13): `sh(or_i(pk(A),pk(B)))` is accepted,
`Miniscript::<_, Legacy>::from_str_with_validation_params(_, &Legacy::CONSENSUS)` rejects it.
For bare descriptors the implication holds on every script of the run (judge `t4`) but is not
proved here (it needs the size/opcode figures of the five bare templates). -/
theorem descriptor_accept_imp_consensus_false : ¬ descriptor_accept_imp_consensus_full := by
  intro h
  have := h demoEnv demoK .legacy (.orI (.check (.pkK 0)) (.check (.pkK 1))) (by decide)
  revert this; decide

/-- what holds for every context: the descriptor parser accepts only what `from_ast` accepts on
every node, with a type-B top level -/
theorem descriptor_accept_imp_constructed (env : KeyEnv) (K : KeyInfo) (ctx : Ctx) (ms : Ms)
    (h : accepts env K ctx .descFromStr ms = true) : accepts env K ctx .fromAst ms = true := by
  simp only [accepts, Bool.and_eq_true] at h ⊢
  simp [h.1]

example : accepts demoEnv demoK .tap .descFromStr (.check (.pkK 200)) = true ∧
    accepts demoEnv demoK .legacy .descFromStr (.check (.pkK 0)) = true ∧
    hasDefect_orI (.check (.pkK 0)) = false := by decide

end MsVerif.C12

/-
C01 — every satisfaction the library returns actually spends the output (Miniscript level).

Model ↔ Rust:  `satDissat cfg ms` (Model/Satisfy.lean) ↔ `Satisfaction::sat_dissat` in
src/miniscript/satisfy/sat_dissat.rs with `Witness::combine`, `concatenate_rev`, `minimum`,
`minimum_mall`, `thresh`, `thresh_mall` of src/miniscript/satisfy/mod.rs
(`build_template{,_mall}` = its `.sat`; `Miniscript::satisfy{,_malleable}`, `Plan::satisfy` and
the PSBT finalizer complete that template with `Placeholder::satisfy_self` = `σ` here).
`cfg : SatCfg` = (key environment, script context, malleable?, root_has_sig, assets): every
theorem below holds for BOTH modes, ANY `rootHasSig` and ANY asset set, because `cfg` is
universally quantified.

Script side: `frag` (Spec/Frag.lean) is the structured semantics of the emitted opcodes,
proved equal to the flat interpreter `Script.run` on `encode ms` by Thm/Bridge.lean;
`top_level_sat_sound_exec` composes the two and speaks about `Script.accepts`.

Hypotheses (all explicit, vocabulary in Spec/SatSpec.lean):
  `EnvOk env ctx`   resource limits off (judged per run: C09), tapscript rules iff ctx = Tap;
                    MINIMALIF / NULLFAIL / NULLDUMMY / MINIMALDATA arbitrary
  `Agrees env ke assets σ`   what the caller holds is real: signatures verify against the
                    digest (`env.sigOk`), preimages hash to the committed values, keys have the
                    shape the context wants, `σ` is `Placeholder::satisfy_self`
  `WF ctx ms`       numeric side conditions guaranteed by `AbsLockTime/RelLockTime::from_consensus`
                    (1 ≤ n < 2^31), `Threshold::new` (1 ≤ k ≤ n, n ≤ 20 for multi) and the
                    context rules (`multi` outside Tap, `multi_a` inside)
  `typeOf ms = some τ`   the fragment type-checks
  `LocksMet env s`  the transaction's nLockTime / nSequence pass CLTV / CSV for the locks the
                    satisfaction REPORTS (`abs`/`rel` fields = `absolute_timelock`/`relative_timelock`)

The satisfier's `assert!`s (not modelled as panics) are treated at the end: they cannot fire
in non-malleable mode (`asserts_hold_nonmall`), and CAN fire in malleable mode
(`asserts_fail_mall`, reproduced on the library).
-/
import MsVerif.Lemmas.SatSound
import MsVerif.Lemmas.SatAsserts
import MsVerif.Thm.Bridge
import MsVerif.Lemmas.SatSpend
import MsVerif.Model.Validate

namespace MsVerif.C01
open MsVerif MsVerif.Script MsVerif.SatSpec

section main
variable {env : Env} {σ : Ph → Bytes} {cfg : SatCfg}

/-! ## T1 — soundness of the satisfier on the structured semantics -/

/-- **Satisfactions are sound.**  If the model returns a satisfaction stack `w` for a
well-typed fragment and the transaction meets the reported locks, then running the fragment on
the realised witness (on top of ANY `rest`, any alt stack, any opcode counter) succeeds and
leaves what the fragment's base type promises (`SatRuns`, Spec/SatSpec.lean): B → one true
value in place of the witness (exactly `[1]` for `u`), V → nothing, K → key over a signature
CHECKSIG accepts, W → the true value next to the untouched top element. -/
theorem sat_sound (henv : EnvOk env cfg.ctx) (hag : Agrees env cfg.env cfg.assets σ)
    (ms : Ms) (τ : Ty) (hwf : WF cfg.ctx ms) (hty : typeOf ms = some τ) (w : List Ph)
    (hs : (satDissat cfg ms).sat.stack = .stack w) (hl : LocksMet env (satDissat cfg ms).sat) :
    SatRuns env cfg.env cfg.ctx σ τ.corr ms w :=
  (sound_all henv hag ms τ hwf hty).sat w ⟨hs, hl⟩

/-- **Dissatisfactions are sound.**  If the model returns a dissatisfaction stack `w`, running
the fragment on it leaves exactly the empty vector in place of the witness (B / W), resp. the
key over an empty signature (K). -/
theorem dissat_sound (henv : EnvOk env cfg.ctx) (hag : Agrees env cfg.env cfg.assets σ)
    (ms : Ms) (τ : Ty) (hwf : WF cfg.ctx ms) (hty : typeOf ms = some τ) (w : List Ph)
    (hs : (satDissat cfg ms).dissat.stack = .stack w)
    (hl : LocksMet env (satDissat cfg ms).dissat) :
    DisRuns env cfg.env cfg.ctx σ τ.corr ms w :=
  (sound_all henv hag ms τ hwf hty).dis w ⟨hs, hl⟩

/-- a `V` fragment never has a dissatisfaction stack (whose locks could be met) -/
theorem dissat_V_never (henv : EnvOk env cfg.ctx) (hag : Agrees env cfg.env cfg.assets σ)
    (ms : Ms) (τ : Ty) (hwf : WF cfg.ctx ms) (hty : typeOf ms = some τ) (hV : τ.corr.base = .V)
    (w : List Ph) (hs : (satDissat cfg ms).dissat.stack = .stack w)
    (hl : LocksMet env (satDissat cfg ms).dissat) : False :=
  (disRuns_V hV).mp (dissat_sound henv hag ms τ hwf hty w hs hl)

/-- the witnesses have the shape the input type promises (`z`: empty, `o`: one element,
`n`: non-empty top element) — used for `s:`, `d:` and `j:` -/
theorem witness_shape (hag : Agrees env cfg.env cfg.assets σ) (ms : Ms) (τ : Ty)
    (hwf : WF cfg.ctx ms) (hty : typeOf ms = some τ) : Shape σ τ.corr (satDissat cfg ms) :=
  shape_sound cfg hag ms τ hwf hty

/-! ## The property's first sentence at Miniscript level -/

/-- **Top level, structured semantics.**  For a `B` script (what `wsh`/`sh`/tapleaf/bare
wrap), the script run on EXACTLY the realised witness leaves EXACTLY one element, and it is
true (CLEANSTACK form); the alt stack is empty again. -/
theorem top_level_sat_sound (henv : EnvOk env cfg.ctx) (hag : Agrees env cfg.env cfg.assets σ)
    (ms : Ms) (τ : Ty) (hwf : WF cfg.ctx ms) (hty : typeOf ms = some τ) (hB : τ.corr.base = .B)
    (w : List Ph) (hs : (satDissat cfg ms).sat.stack = .stack w)
    (hl : LocksMet env (satDissat cfg ms).sat) :
    ∃ v ops, frag env cfg.env cfg.ctx ms ⟨stk σ w, [], 0⟩ = .ok ⟨[v], [], ops⟩ ∧
      castToBool v = true := by
  obtain ⟨v, hr, hv, _⟩ := (satRuns_B hB).mp (sat_sound henv hag ms τ hwf hty w hs hl) []
  obtain ⟨⟨st, al, ops⟩, he, hst, hal⟩ := hr [] 0
  simp only [List.append_nil] at he
  simp only at hst hal
  subst hst hal
  exact ⟨v, ops, he, hv.1⟩

/-- **Top level, real opcode execution** (T2: composition with the bridge theorem): the
encoded script, executed by the flat Script interpreter on exactly the realised witness, is
ACCEPTED — no error, balanced conditionals, exactly one true element left. -/
theorem top_level_sat_sound_exec (henv : EnvOk env cfg.ctx)
    (hag : Agrees env cfg.env cfg.assets σ)
    (ms : Ms) (τ : Ty) (hwf : WF cfg.ctx ms) (hty : typeOf ms = some τ) (hB : τ.corr.base = .B)
    (w : List Ph) (hs : (satDissat cfg ms).sat.stack = .stack w)
    (hl : LocksMet env (satDissat cfg ms).sat) :
    Script.accepts env (encode cfg.env cfg.ctx ms) (stk σ w) = true := by
  obtain ⟨v, ops, he, hv⟩ := top_level_sat_sound henv hag ms τ hwf hty hB w hs hl
  have hb := Bridge.exec_encode_eq_frag_nostack env cfg.env cfg.ctx ms ⟨stk σ w, [], 0⟩ [] rfl
    henv.stackLimits
  unfold Script.accepts State.init
  rw [hb, he]
  simp [Except.map, hv]

end main

/-! ## T4 — acceptance under the real resource limits -/

/-- Static, decidable resource conditions on a script and a witness template that are
SUFFICIENT for the limits never to fire (they are cruder than the library's own figures):
* every realised witness element has at most 520 bytes;
* `|witness| + #{pushes, DUP, IFDUP, SIZE in the script} ≤ 1000` (each of those script elements
  grows `stack + altstack` by at most one, nothing else grows it);
* outside tapscript: `#{non-push opcodes} + 20·#{CHECKMULTISIG} ≤ 201` (every opcode counts
  once whether executed or not; an executed CHECKMULTISIG adds its key count ≤ 20). -/
structure Fits (tap : Bool) (σ : Ph → Bytes) (script : List Op) (w : List Ph) : Prop where
  elem : ∀ p ∈ w, (σ p).length ≤ 520
  depth : w.length + growCount script ≤ 1000
  ops : tap = true ∨ codeCount script + 20 * msCount script ≤ 201

section limits
variable {env : Env} {σ : Ph → Bytes} {cfg : SatCfg}

/-- **Limits ON.**  `env` is the limit-free environment of the T1/T2 theorems; `withLimits env o t`
is the same environment with the opcode-count limit (201) and the stack limits (1000 elements,
520-byte elements) set to `o`/`t` — `limitsOn env = withLimits env true true`.  For a script
whose atoms are ≤ 520 bytes (`KeyEnv.Small`), hash outputs ≤ 520 bytes and a witness that `Fits`,
the encoded script run by the flat interpreter WITH the limits enforced accepts the satisfaction.
`_partial`: the resource hypothesis is the static sufficient condition `Fits`, not "the
library's `validate` accepts the script under `Ctx.CONSENSUS`" (see
`top_level_sat_sound_limits_full`). -/
theorem top_level_sat_sound_limits_partial (henv : EnvOk env cfg.ctx)
    (hag : Agrees env cfg.env cfg.assets σ)
    (ms : Ms) (τ : Ty) (hwf : WF cfg.ctx ms) (hty : typeOf ms = some τ) (hB : τ.corr.base = .B)
    (w : List Ph) (hs : (satDissat cfg ms).sat.stack = .stack w)
    (hl : LocksMet env (satDissat cfg ms).sat)
    (hke : Bridge.KeyEnv.Small cfg.env) (hhash : ∀ op b, (env.hash op b).length ≤ 520)
    (hfit : Fits (decide (cfg.ctx = .tap)) σ (encode cfg.env cfg.ctx ms) w) (o t : Bool) :
    Script.accepts (withLimits env o t) (encode cfg.env cfg.ctx ms) (stk σ w) = true := by
  have hacc := top_level_sat_sound_exec henv hag ms τ hwf hty hB w hs hl
  refine accepts_withLimits env henv.opLimit henv.stackLimits hhash o t _
    (Bridge.encode_noBigPush _ _ hke ms) _ hacc ?_ ?_ ?_
  · intro x hx
    simp only [stk, List.mem_reverse, List.mem_map] at hx
    obtain ⟨p, hp, rfl⟩ := hx
    exact hfit.elem p hp
  · simpa [stk] using hfit.depth
  · rcases hfit.ops with h | h
    · exact .inl (by rw [henv.tap]; exact h)
    · exact .inr h

/-- the statement with the library's own resource check as hypothesis: every script that
`Miniscript::validate` accepts under the consensus limits of its context.  OPEN: it needs
(i) the executed-opcode bound for scripts with `multi` (C09 `opcount_full`, unproved there) and
(ii) soundness of `max_exec_stack_count`, which C09 documents as inexact (CHECKMULTISIG's
pushes of k and n; the accumulator of a `thresh` dissatisfaction) — judged per run instead
(`J exec` with the real flags, `J bound`). -/
def top_level_sat_sound_limits_full : Prop :=
  ∀ (env : Env) (σ : Ph → Bytes) (cfg : SatCfg) (K : KeyInfo) (ms : Ms) (τ : Ty) (w : List Ph),
    EnvOk env cfg.ctx → Agrees env cfg.env cfg.assets σ → WF cfg.ctx ms → typeOf ms = some τ →
    τ.corr.base = .B → (satDissat cfg ms).sat.stack = .stack w → LocksMet env (satDissat cfg ms).sat →
    Bridge.KeyEnv.Small cfg.env → (∀ op b, (env.hash op b).length ≤ 520) →
    (∀ p ∈ w, (σ p).length ≤ 520) →
    isOk (validate cfg.env K cfg.ctx (Ctx.CONSENSUS cfg.ctx) ms) = true →
    Script.accepts (limitsOn env) (encode cfg.env cfg.ctx ms) (stk σ w) = true

end limits

/-! ## T3 — descriptor level: the assembled (scriptSig, witness) passes `verifySpend`

`Spend.verifySpend` (Spec/Spend.lean) is Core's `VerifyScript` for the standard output types
WITH the real flags of each type — limits on, CLEANSTACK, push-only minimal scriptSig, witness
element sizes.  The scriptPubKey is `Desc.scriptPubkey` (Model/Descriptor.lean), the
(witness, scriptSig) pair is `Plan.getSatisfaction` (Model/Plan.lean: the assembly of
`Descriptor::get_satisfaction{,_mall}` / `Plan::satisfy`) applied to the completed Miniscript
witness `items σ w`.  Signature validity enters through `SpendEnv.sigOk` (per sighash domain),
the hashes through `HashAgree`, the taproot commitment as the oracle `SpendEnv.tapCommitOk`. -/

section descriptors
open MsVerif.Desc MsVerif.Plan MsVerif.Spend

theorem std_small {ke : KeyEnv} (h : KeyEnv.Std ke) : Bridge.KeyEnv.Small ke :=
  ⟨fun k => by have := (h.1 k).2; omega, fun k => by have := (h.2.1 k).2; omega,
   fun x => by have := (h.2.2.1 x).2; omega, fun kind x => by have := (h.2.2.2 kind x).2; omega⟩

/-- everything the Miniscript-level theorems need, for a script of context `ctx` judged under
the flag set `fl` (limits off) and sighash domain `dom` of transaction environment `e` -/
structure MsSpend (e : SpendEnv) (P : Params) (ctx : Ctx) (fl : Flags) (dom : Nat)
    (σ : Ph → Bytes) (mall rootHasSig : Bool) (a : Assets) (ms : Ms) (w : List Ph) : Prop where
  flags : EnvOk (mkEnv e fl dom) ctx
  agrees : Agrees (mkEnv e fl dom) P.env a σ
  wf : WF ctx ms
  typed : ∃ τ, typeOf ms = some τ ∧ τ.corr.base = .B
  sat : (satDissat ⟨P.env, ctx, mall, rootHasSig, a⟩ ms).sat.stack = .stack w
  locks : LocksMet (mkEnv e fl dom) (satDissat ⟨P.env, ctx, mall, rootHasSig, a⟩ ms).sat
  std : KeyEnv.Std P.env
  fits : Fits (decide (ctx = .tap)) σ (encode P.env ctx ms) w

theorem msSpend_accepts {e : SpendEnv} {P : Params} {ctx : Ctx} {fl : Flags} {dom : Nat}
    {σ : Ph → Bytes} {mall rhs : Bool} {a : Assets} {ms : Ms} {w : List Ph}
    (h : MsSpend e P ctx fl dom σ mall rhs a ms w) (hH : HashAgree e P) (o t : Bool) :
    Script.accepts (withLimits (mkEnv e fl dom) o t) (encode P.env ctx ms) (items σ w).reverse = true := by
  obtain ⟨τ, hty, hB⟩ := h.typed
  exact top_level_sat_sound_limits_partial (cfg := ⟨P.env, ctx, mall, rhs, a⟩) h.flags h.agrees ms τ
    h.wf hty hB w h.sat h.locks (std_small h.std) hH.out_len h.fits o t

/-- **wsh(ms)**: witness = items ++ [witness script], empty scriptSig. -/
theorem wsh_spend_sound (e : SpendEnv) (P : Params) (hH : HashAgree e P) {σ : Ph → Bytes}
    {mall rhs : Bool} {a : Assets} {ms : Ms} {w : List Ph}
    (h : MsSpend e P .segwitv0 segwitFlagsOff DOM_SEGWITV0 σ mall rhs a ms w)
    (hsize : (encodeBytes P.env .segwitv0 ms).length ≤ 10000) :
    verifySpend e (Desc.scriptPubkey P (.wsh ms)) (descScriptSig P (.wsh ms) (items σ w))
      (descWitness P (.wsh ms) (items σ w)) = .ok := by
  show verifySpend e (serialize [.small 0, .push (P.H.sha256 (encodeBytes P.env .segwitv0 ms))]) []
    (items σ w ++ [encodeBytes P.env .segwitv0 ms]) = .ok
  rw [hH.sha256, verifySpend_p2wsh e _ (hH.sha256_len _)]
  exact verifyWitnessV0_wsh e _ _ _ (parse_encodeBytes _ _ h.std ms) hsize
    (by intro x hx; simp only [items, List.mem_map] at hx; obtain ⟨p, hp, rfl⟩ := hx
        exact h.fits.elem p hp)
    (msSpend_accepts h hH true true)

/-- **sh(wsh(ms))**: scriptSig = the single push of the witness program, witness as for wsh. -/
theorem sh_wsh_spend_sound (e : SpendEnv) (P : Params) (hH : HashAgree e P) {σ : Ph → Bytes}
    {mall rhs : Bool} {a : Assets} {ms : Ms} {w : List Ph}
    (h : MsSpend e P .segwitv0 segwitFlagsOff DOM_SEGWITV0 σ mall rhs a ms w)
    (hsize : (encodeBytes P.env .segwitv0 ms).length ≤ 10000) :
    verifySpend e (Desc.scriptPubkey P (.sh (.wsh ms))) (descScriptSig P (.sh (.wsh ms)) (items σ w))
      (descWitness P (.sh (.wsh ms)) (items σ w)) = .ok := by
  show verifySpend e
    (serialize (newP2sh (P.H.hash160 (serialize [.small 0, .push (P.H.sha256 (encodeBytes P.env .segwitv0 ms))]))))
    (Plan.pushSlice (serialize [.small 0, .push (P.H.sha256 (encodeBytes P.env .segwitv0 ms))]))
    (items σ w ++ [encodeBytes P.env .segwitv0 ms]) = .ok
  rw [hH.sha256, hH.hash160,
    verifySpend_p2sh_segwit e _ (.p2wsh _) (.inl ⟨hH.sha256_len _, rfl⟩) (hH.hash160_len _)]
  exact verifyWitnessV0_wsh e _ _ _ (parse_encodeBytes _ _ h.std ms) hsize
    (by intro x hx; simp only [items, List.mem_map] at hx; obtain ⟨p, hp, rfl⟩ := hx
        exact h.fits.elem p hp)
    (msSpend_accepts h hH true true)

/-- **sh(ms)** (legacy P2SH): scriptSig = `witness_to_scriptsig(items ++ [redeem script])`, no
witness.  Extra hypotheses, all about sizes/shapes the spec checks: every realised element is
`[]`, `[1]` or longer than 4 bytes (true of signatures, keys, preimages: shorter elements
would be re-encoded as numbers by `witness_to_scriptsig`); the redeem script has 5..520 bytes;
the scriptSig has at most 1650 bytes; the redeem script is not itself a v0 witness program. -/
theorem sh_spend_sound (e : SpendEnv) (P : Params) (hH : HashAgree e P) {σ : Ph → Bytes}
    {mall rhs : Bool} {a : Assets} {ms : Ms} {w : List Ph}
    (h : MsSpend e P .legacy legacyFlagsOff DOM_LEGACY σ mall rhs a ms w)
    (hitems : ∀ p ∈ w, ssItemOk (σ p))
    (hred : 4 < (encodeBytes P.env .legacy ms).length ∧ (encodeBytes P.env .legacy ms).length ≤ 520)
    (hss : (witnessToScriptSig (items σ w ++ [encodeBytes P.env .legacy ms])).length ≤ 1650)
    (hnw : ∀ prog, encode P.env .legacy ms ≠ [.small 0, .push prog]) :
    verifySpend e (Desc.scriptPubkey P (.sh (.ms ms))) (descScriptSig P (.sh (.ms ms)) (items σ w))
      (descWitness P (.sh (.ms ms)) (items σ w)) = .ok := by
  show verifySpend e (serialize (newP2sh (P.H.hash160 (encodeBytes P.env .legacy ms))))
    (witnessToScriptSig (items σ w ++ [encodeBytes P.env .legacy ms])) [] = .ok
  rw [hH.hash160]
  exact verifySpend_p2sh_legacy e _ _ _
    (by intro x hx; simp only [items, List.mem_map] at hx; obtain ⟨p, hp, rfl⟩ := hx
        exact hitems p hp)
    hred (hH.hash160_len _) hss (parse_encodeBytes _ _ h.std ms) hnw (msSpend_accepts h hH true true)

/-- **tr(…) script path**: witness = items ++ [leaf script, control block].  The BIP341
commitment of (control block, leaf script) to the output key is the ORACLE hypothesis
`tapCommitOk` (C15 proves the library's control blocks verify against the Merkle root); the
control block has a legal size and leaf version 0xc0. -/
theorem tr_script_spend_sound (e : SpendEnv) (P : Params) (hH : HashAgree e P) {σ : Ph → Bytes}
    {mall rhs : Bool} {a : Assets} {ms : Ms} {w : List Ph} (ik : Key) (leaves : List (Nat × Ms))
    (h : MsSpend e P .tap tapFlagsOff DOM_TAPSCRIPT σ mall rhs a ms w)
    (hkey : (P.trOutputKey ik (trLeafScripts P leaves)).length = 32)
    (control : Bytes) (hc1 : 33 ≤ control.length) (hc2 : (control.length - 33) % 32 = 0)
    (hc3 : control.length ≤ 33 + 32 * 128)
    (hver : control.head?.map (· &&& 0xfe) = some 0xc0)
    (hcommit : e.tapCommitOk control (encodeBytes P.env .tap ms)
      (P.trOutputKey ik (trLeafScripts P leaves)) = true) :
    verifySpend e (Desc.scriptPubkey P (.tr ik leaves))
      (descScriptSig P (.tr ik leaves) (items σ w ++ [encodeBytes P.env .tap ms, control]))
      (descWitness P (.tr ik leaves) (items σ w ++ [encodeBytes P.env .tap ms, control])) = .ok := by
  show verifySpend e (serialize [.small 1, .push (P.trOutputKey ik (trLeafScripts P leaves))]) []
    (items σ w ++ [encodeBytes P.env .tap ms, control]) = .ok
  rw [verifySpend_p2tr e _ hkey]
  exact verifyTaproot_script e _ _ _ _ _ (parse_encodeBytes _ _ h.std ms) hc1 hc2 hc3 hcommit hver
    (by intro x hx; simp only [items, List.mem_map] at hx; obtain ⟨p, hp, rfl⟩ := hx
        exact h.fits.elem p hp)
    (msSpend_accepts h hH false true)

/-- **tr(…) key path**: witness = [signature for the output key]. -/
theorem tr_key_spend_sound (e : SpendEnv) (P : Params) (ik : Key) (leaves : List (Nat × Ms))
    (hkey : (P.trOutputKey ik (trLeafScripts P leaves)).length = 32) (sig : Bytes)
    (hsig : e.sigOk DOM_TAPKEY (P.trOutputKey ik (trLeafScripts P leaves)) sig = true) :
    verifySpend e (Desc.scriptPubkey P (.tr ik leaves)) (descScriptSig P (.tr ik leaves) [sig])
      (descWitness P (.tr ik leaves) [sig]) = .ok := by
  show verifySpend e (serialize [.small 1, .push (P.trOutputKey ik (trLeafScripts P leaves))]) []
    [sig] = .ok
  rw [verifySpend_p2tr e _ hkey]
  exact verifyTaproot_key e _ _ hsig

/-- **wpkh(K)**: witness = [signature, key]; `sig`/`pk` are what `Wpkh::get_satisfaction` looks
up (`lookup_ecdsa_sig`) resp. serialises. -/
theorem wpkh_spend_sound (e : SpendEnv) (P : Params) (hH : HashAgree e P) (k : Key) (sig : Bytes)
    (hpk : pubkeyOk (mkEnv e segwitFlags DOM_SEGWITV0) (P.env.ser k) = true) (hne : sig ≠ [])
    (hsig : e.sigOk DOM_SEGWITV0 (P.env.ser k) sig = true) (hlen : (P.env.ser k).length ≤ 520) :
    verifySpend e (Desc.scriptPubkey P (.wpkh k)) (descScriptSig P (.wpkh k) [sig, P.env.ser k])
      (descWitness P (.wpkh k) [sig, P.env.ser k]) = .ok := by
  show verifySpend e (serialize [.small 0, .push (P.H.hash160 (P.env.ser k))]) []
    [sig, P.env.ser k] = .ok
  rw [hH.hash160, verifySpend_p2wpkh e _ (hH.hash160_len _)]
  exact verifyWitnessV0_wpkh e sig _ hpk hne hsig hlen (hH.out_len _ _)

/-- **sh(wpkh(K))**: scriptSig = push of the witness program, witness = [signature, key]. -/
theorem sh_wpkh_spend_sound (e : SpendEnv) (P : Params) (hH : HashAgree e P) (k : Key) (sig : Bytes)
    (hpk : pubkeyOk (mkEnv e segwitFlags DOM_SEGWITV0) (P.env.ser k) = true) (hne : sig ≠ [])
    (hsig : e.sigOk DOM_SEGWITV0 (P.env.ser k) sig = true) (hlen : (P.env.ser k).length ≤ 520) :
    verifySpend e (Desc.scriptPubkey P (.sh (.wpkh k)))
      (descScriptSig P (.sh (.wpkh k)) [sig, P.env.ser k])
      (descWitness P (.sh (.wpkh k)) [sig, P.env.ser k]) = .ok := by
  show verifySpend e
    (serialize (newP2sh (P.H.hash160 (serialize [.small 0, .push (P.H.hash160 (P.env.ser k))]))))
    (Plan.pushSlice (serialize [.small 0, .push (P.H.hash160 (P.env.ser k))]))
    [sig, P.env.ser k] = .ok
  rw [hH.hash160, hH.hash160,
    verifySpend_p2sh_segwit e _ (.p2wpkh _) (.inr ⟨hH.hash160_len _, rfl⟩) (hH.hash160_len _)]
  exact verifyWitnessV0_wpkh e sig _ hpk hne hsig hlen (hH.out_len _ _)

end descriptors

/-! ## The `assert!`s of the satisfier (not modelled as panics) -/

/-- **No `assert!` of the satisfier can fire.**  `assertsOk c ms` (Lemmas/SatAsserts.lean)
mirrors the asserts of the current code: `assert!(malleable || !l_dis.has_sig)` (and `r_dis`)
in the or_b / or_c / or_d arms of `sat_dissat`, and `assert!(!sat.has_sig)` in the UNAVAILABLE
branch of the non-malleable `Satisfaction::thresh`.  For every well-typed script (with `k ≤ n`
at every `thresh`, which `Threshold::new` guarantees), every asset set and BOTH modes it holds:
in malleable mode the asserts are disabled, in non-malleable mode every dissatisfaction of a
`d`-typed fragment is signature-free (`dissat_clean_nonmall`). -/
theorem asserts_hold (c : SatCfg) (ms : Ms) (τ : Ty) (hty : typeOf ms = some τ)
    (hk : threshKOk ms = true) : assertsOk c ms = true :=
  SatSpec.asserts_hold c ms τ hty hk

/-- the non-malleable half on its own -/
theorem asserts_hold_nonmall (c : SatCfg) (hm : c.mall = false) (ms : Ms) (τ : Ty)
    (hty : typeOf ms = some τ) (hk : threshKOk ms = true) :
    assertsOk c ms = true :=
  SatSpec.asserts_hold_nonmall c hm ms τ hty hk

/-- non-malleable mode: every dissatisfaction computed for a `d`-typed fragment is
signature-free, lock-free and not IMPOSSIBLE -/
theorem dissat_clean_nonmall (c : SatCfg) (hm : c.mall = false) (ms : Ms) (τ : Ty)
    (hty : typeOf ms = some τ) (hk : threshKOk ms = true) (hd : τ.corr.dissat = true) :
    (satDissat c ms).dissat.hasSig = false ∧ (satDissat c ms).dissat.stack ≠ .impossible ∧
      (satDissat c ms).dissat.abs = none ∧ (satDissat c ms).dissat.rel = none :=
  SatSpec.dissat_clean_nonmall c hm ms τ hty hk hd

/-- the two scripts on which asserts fired before the fixes are silent now:
`or_d(or_i(j:and_v(v:pk(K0),pk(K1)),and_v(v:pk(K2),0)),pk(K3))` (non-malleable mode, signature
for K2; `j:` used to report its dissatisfaction as IMPOSSIBLE), and
`or_d(or_i(and_b(or_i(0,and_v(v:older(1),0)),a:or_i(0,and_v(v:older(4194305),0))),and_v(v:pk(K2),0)),pk(K3))`
(malleable mode: the left child of `or_d` still gets a dissatisfaction carrying a signature,
which is legitimate there — the assert is now `malleable || …`) -/
theorem asserts_former_counterexamples_silent :
    (typeOf exA).isSome = true ∧ assertsOk cfgA exA = true ∧
    (typeOf exB).isSome = true ∧ assertsOk cfgB exB = true ∧
    (satDissat cfgB (.orI (.andB (Asserts.dl 1) (.alt (Asserts.dl 4194305)))
      (.andV (.verify (Asserts.pk 2)) .fls))).dissat.hasSig = true := by decide

/-- the side condition `k ≤ n` cannot be dropped IN THE MODEL (`typeOf` ignores `k`; the Rust
type `Threshold` makes `k > n` unrepresentable): `thresh(2, pk(K0))` -/
theorem asserts_need_k_le_n :
    (typeOf exK).isSome = true ∧ threshKOk exK = false ∧ assertsOk cfgA exK = false :=
  exK_facts

/-! ## Non-vacuity: a toy world in which every hypothesis holds

One script with a threshold, a hash and a lock, `and_v(v:thresh(2,pk(K0),s:pk(K1),a:sha256(H0)),
or_d(pk(K2),older(144)))`, in the segwit-v0, legacy and tapscript contexts; every theorem above
that carries `EnvOk` / `Agrees` / `MsSpend` is instantiated on it. -/

namespace Ex
open MsVerif.Desc MsVerif.Plan MsVerif.Spend

/-- keys: 33 bytes `02 00…00 k` outside Tap, 32 bytes `00…00 k` in Tap -/
def ser (tap : Bool) (k : Key) : Bytes :=
  if tap then List.replicate 31 0 ++ [UInt8.ofNat k] else 2 :: (List.replicate 31 0 ++ [UInt8.ofNat k])
/-- 32-byte preimages `09…09 h` -/
def pre (h : Nat) : Bytes := List.replicate 31 9 ++ [UInt8.ofNat h]
/-- toy hash with the standard output sizes: the first 32 (20) bytes of the input, padded -/
def toyHash (op : HashOp) (b : Bytes) : Bytes :=
  match op with
  | .sha256 | .hash256 => (b ++ List.replicate 32 7).take 32
  | .ripemd160 | .hash160 => (b ++ List.replicate 20 7).take 20

def ke (tap : Bool) : KeyEnv where
  ser := ser tap
  sortKey := ser tap
  pkh k := toyHash .hash160 (ser tap k)
  rawPkh h := toyHash .hash160 (ser tap h)
  hashVal kind h := toyHash (hashOpOf kind) (pre h)

/-- transaction environment: a signature is valid (in every sighash domain) iff it is
`key ++ [1]`; every taproot commitment is declared valid (it is an oracle) -/
def tE (lockTime seq : Nat) : SpendEnv where
  sigOk _ pk sig := sig == pk ++ [1]
  hash := toyHash
  tapCommitOk _ _ _ := true
  nLockTime := lockTime
  nSequence := seq
  txVersion := 2

def P (tap : Bool) : Params := ⟨⟨toyHash .sha256, toyHash .hash160⟩, ke tap, fun _ _ => List.replicate 32 5⟩

def tσ (tap : Bool) : Ph → Bytes
  | .pubkey k _ => ser tap k
  | .pubkeyHash h _ => ser tap h
  | .ecdsaSig k => ser tap k ++ [1]
  | .ecdsaSigPkh h => ser tap h ++ [1]
  | .schnorrSig k _ => ser tap k ++ [1]
  | .schnorrSigPkh h _ => ser tap h ++ [1]
  | .preimage _ h => pre h
  | .hashDissat => List.replicate 32 0
  | .pushOne => [1]
  | .pushZero => []

def pk (k : Key) : Ms := .check (.pkK k)
/-- `thresh(2,pk(K0),s:pk(K1),a:sha256(H0))` -/
def thr : Ms := .thresh 2 (.cons (pk 0) (.cons (.swap (pk 1)) (.cons (.alt (.hash .sha256 0)) .nil)))
/-- `and_v(v:thresh(2,pk(K0),s:pk(K1),a:sha256(H0)),or_d(pk(K2),older(144)))` -/
def ms : Ms := .andV (.verify thr) (.orD (pk 2) (.older 144))
def ty : Ty := ⟨⟨.B, .any, false, false⟩, ⟨.none, true, false⟩⟩
def thrTy : Ty := ⟨⟨.B, .any, true, true⟩, ⟨.unknown, true, false⟩⟩

/-- the caller holds: a signature for K0, the preimage of H0, and 144 blocks have passed -/
def assets : Assets :=
  ⟨fun k => k == 0, fun k => if k == 0 then some 64 else none, fun _ => none, fun _ => none,
   fun _ => none, fun k h => k == .sha256 && h == 0, fun n => n == 144, fun _ => false⟩

def cfg (ctx : Ctx) (mall : Bool) : SatCfg := ⟨ke (decide (ctx = .tap)), ctx, mall, true, assets⟩

/-- what the satisfier answers: `[<>, preimage, <>, sig(K0)]`, reporting `older(144)` -/
def w : List Ph := [.pushZero, .preimage .sha256 0, .pushZero, .ecdsaSig 0]
def wTap : List Ph := [.pushZero, .preimage .sha256 0, .pushZero, .schnorrSig 0 64]

end Ex

section toy
open Ex MsVerif.Desc MsVerif.Plan MsVerif.Spend

theorem ex_sat : (∀ mall, (satDissat (cfg .segwitv0 mall) Ex.ms).sat = ⟨.stack w, true, none, some 144⟩) ∧
    (∀ mall, (satDissat (cfg .legacy mall) Ex.ms).sat = ⟨.stack w, true, none, some 144⟩) ∧
    (∀ mall, (satDissat (cfg .tap mall) Ex.ms).sat = ⟨.stack wTap, true, none, some 144⟩) ∧
    (satDissat (cfg .segwitv0 false) thr).dissat = ⟨.stack [.hashDissat, .pushZero, .pushZero], false, none, none⟩ := by
  decide

theorem ex_typed : typeOf Ex.ms = some ty ∧ typeOf thr = some thrTy := by decide
theorem ex_wf (ctx : Ctx) : WF ctx Ex.ms ∧ WF ctx thr := by
  simp [Ex.ms, thr, pk, WF, WFs, MsList.length]

theorem ex_keyOk (fl : Flags) (lt sq dom : Nat) (k : Key) :
    pubkeyOk (mkEnv (tE lt sq) fl dom) (ser fl.tapscript k) = true := by
  cases h : fl.tapscript <;> simp [pubkeyOk, mkEnv, ser, h]

theorem toyHash_len (op : HashOp) (b : Bytes) : (toyHash op b).length ≤ 520 := by
  cases op <;> simp [toyHash] <;> omega

/-- in the toy world every signature/preimage the satisfier could hold is genuine, so `Agrees`
holds for EVERY asset set, in every flag set and sighash domain -/
theorem ex_agrees (fl : Flags) (lt sq dom : Nat) (a : Assets) :
    Agrees (mkEnv (tE lt sq) fl dom) (ke fl.tapscript) a (tσ fl.tapscript) where
  pushOne := rfl
  pushZero := rfl
  hashDissat := rfl
  keyShape := ex_keyOk fl lt sq dom
  pkh _ := rfl
  pubkey _ _ := rfl
  ecdsa k _ := ⟨by simp [tσ], by simp [mkEnv, tE, tσ, ke]⟩
  schnorr k _ _ := ⟨by simp [tσ], by simp [mkEnv, tE, tσ, ke]⟩
  rawPk h _ _ := ⟨rfl, ex_keyOk fl lt sq dom h⟩
  rawEcdsa h _ _ _ := ⟨by simp [tσ], by simp [mkEnv, tE, tσ]⟩
  rawSchnorr h _ _ _ _ := ⟨by simp [tσ], by simp [mkEnv, tE, tσ]⟩
  preimage _ h _ := ⟨by simp [tσ, pre], rfl⟩
  zeroNoPreimage kind h := by
    intro e
    have := congrArg List.head? e
    cases kind <;> simp [mkEnv, tE, ke, toyHash, hashOpOf, pre, List.replicate] at this
  sizeOk p := by cases p <;> cases h : fl.tapscript <;> simp [tσ, ser, pre]

theorem ex_std (tap : Bool) : KeyEnv.Std (ke tap) := by
  refine ⟨fun k => ?_, fun k => ?_, fun k => ?_, fun kind k => ?_⟩
  · cases tap <;> simp [ke, ser]
  · simp [ke, toyHash]
  · simp [ke, toyHash]
  · cases kind <;> simp [ke, toyHash, hashOpOf]

theorem ex_hashAgree (tap : Bool) (lt sq : Nat) : HashAgree (tE lt sq) (P tap) where
  sha256 _ := rfl
  hash160 _ := rfl
  sha256_len b := by simp [tE, toyHash]
  hash160_len b := by simp [tE, toyHash]
  out_len := toyHash_len

theorem ex_envOk (lt sq : Nat) :
    EnvOk (mkEnv (tE lt sq) segwitFlagsOff DOM_SEGWITV0) .segwitv0 ∧
    EnvOk (mkEnv (tE lt sq) legacyFlagsOff DOM_LEGACY) .legacy ∧
    EnvOk (mkEnv (tE lt sq) tapFlagsOff DOM_TAPSCRIPT) .tap :=
  ⟨⟨rfl, rfl, rfl⟩, ⟨rfl, rfl, rfl⟩, ⟨rfl, rfl, rfl⟩⟩

theorem ex_locks (ctx : Ctx) (fl : Flags) (dom : Nat) (mall : Bool)
    (h : (satDissat (cfg ctx mall) Ex.ms).sat.abs = none ∧ (satDissat (cfg ctx mall) Ex.ms).sat.rel = some 144) :
    LocksMet (mkEnv (tE 0 144) fl dom) (satDissat (cfg ctx mall) Ex.ms).sat := by
  refine ⟨fun n hn => ?_, fun n hn => ?_⟩
  · rw [h.1] at hn; cases hn
  · rw [h.2] at hn; cases hn
    simp [checkSequence, mkEnv, tE, seqMasked, SEQ_DISABLE, SEQ_TYPE, SEQ_MASK]

/-- the resource conditions hold for the example in all three contexts -/
theorem ex_fits :
    Fits false (tσ false) (encode (ke false) .segwitv0 Ex.ms) w ∧
    Fits false (tσ false) (encode (ke false) .legacy Ex.ms) w ∧
    Fits true (tσ true) (encode (ke true) .tap Ex.ms) wTap := by
  refine ⟨⟨by decide, by decide, by decide⟩, ⟨by decide, by decide, by decide⟩,
    ⟨by decide, by decide, by decide⟩⟩

/-- `MsSpend` for the example: segwit v0 (both modes) -/
theorem ex_msSpend_segwit (mall : Bool) :
    MsSpend (tE 0 144) (P false) .segwitv0 segwitFlagsOff DOM_SEGWITV0 (tσ false) mall true assets Ex.ms w where
  flags := (ex_envOk 0 144).1
  agrees := ex_agrees segwitFlagsOff 0 144 DOM_SEGWITV0 assets
  wf := (ex_wf _).1
  typed := ⟨ty, ex_typed.1, rfl⟩
  sat := by have := ex_sat.1 mall; simp only [cfg] at this; exact congrArg Sat.stack this
  locks := by
    have := ex_sat.1 mall
    exact ex_locks .segwitv0 segwitFlagsOff DOM_SEGWITV0 mall ⟨by rw [this], by rw [this]⟩
  std := ex_std false
  fits := ex_fits.1

theorem ex_msSpend_legacy (mall : Bool) :
    MsSpend (tE 0 144) (P false) .legacy legacyFlagsOff DOM_LEGACY (tσ false) mall true assets Ex.ms w where
  flags := (ex_envOk 0 144).2.1
  agrees := ex_agrees legacyFlagsOff 0 144 DOM_LEGACY assets
  wf := (ex_wf _).1
  typed := ⟨ty, ex_typed.1, rfl⟩
  sat := by have := ex_sat.2.1 mall; simp only [cfg] at this; exact congrArg Sat.stack this
  locks := by
    have := ex_sat.2.1 mall
    exact ex_locks .legacy legacyFlagsOff DOM_LEGACY mall ⟨by rw [this], by rw [this]⟩
  std := ex_std false
  fits := ex_fits.2.1

theorem ex_msSpend_tap (mall : Bool) :
    MsSpend (tE 0 144) (P true) .tap tapFlagsOff DOM_TAPSCRIPT (tσ true) mall true assets Ex.ms wTap where
  flags := (ex_envOk 0 144).2.2
  agrees := ex_agrees tapFlagsOff 0 144 DOM_TAPSCRIPT assets
  wf := (ex_wf _).1
  typed := ⟨ty, ex_typed.1, rfl⟩
  sat := by have := ex_sat.2.2.1 mall; simp only [cfg] at this; exact congrArg Sat.stack this
  locks := by
    have := ex_sat.2.2.1 mall
    exact ex_locks .tap tapFlagsOff DOM_TAPSCRIPT mall ⟨by rw [this], by rw [this]⟩
  std := ex_std true
  fits := ex_fits.2.2

end toy

section examples
open Ex MsVerif.Desc MsVerif.Plan MsVerif.Spend

/-- `sat_sound`, `witness_shape`, `top_level_sat_sound{,_exec}` on the example (both modes):
the transaction has nSequence = 144 -/
example (mall : Bool) :
    SatRuns (mkEnv (tE 0 144) segwitFlagsOff DOM_SEGWITV0) (ke false) .segwitv0 (tσ false) ty.corr Ex.ms w ∧
    Shape (tσ false) ty.corr (satDissat (cfg .segwitv0 mall) Ex.ms) ∧
    Script.accepts (mkEnv (tE 0 144) segwitFlagsOff DOM_SEGWITV0) (encode (ke false) .segwitv0 Ex.ms)
      (stk (tσ false) w) = true :=
  have h := ex_msSpend_segwit mall
  ⟨sat_sound (cfg := cfg .segwitv0 mall) h.flags h.agrees Ex.ms ty h.wf ex_typed.1 w h.sat h.locks,
   witness_shape (cfg := cfg .segwitv0 mall) h.agrees Ex.ms ty h.wf ex_typed.1,
   top_level_sat_sound_exec (cfg := cfg .segwitv0 mall) h.flags h.agrees Ex.ms ty h.wf ex_typed.1 rfl w
     h.sat h.locks⟩

/-- `dissat_sound` on the threshold: its dissatisfaction `[z32, <>, <>]` leaves the empty vector -/
example : DisRuns (mkEnv (tE 0 0) segwitFlagsOff DOM_SEGWITV0) (ke false) .segwitv0 (tσ false)
    thrTy.corr thr [.hashDissat, .pushZero, .pushZero] :=
  dissat_sound (cfg := cfg .segwitv0 false) ⟨rfl, rfl, rfl⟩
    (ex_agrees segwitFlagsOff 0 0 DOM_SEGWITV0 assets) thr thrTy (ex_wf _).2 ex_typed.2 _
    (congrArg Sat.stack ex_sat.2.2.2) (by rw [ex_sat.2.2.2]; simp [LocksMet])

/-- `top_level_sat_sound_limits_partial`: accepted WITH the 201-opcode, 1000-element and
520-byte limits on -/
example (mall : Bool) :
    Script.accepts (limitsOn (mkEnv (tE 0 144) segwitFlagsOff DOM_SEGWITV0))
      (encode (ke false) .segwitv0 Ex.ms) (stk (tσ false) w) = true :=
  msSpend_accepts (ex_msSpend_segwit mall) (ex_hashAgree false 0 144) true true

/-- the descriptor-level theorems on the example: `wsh`, `sh(wsh)`, `sh`, `tr` script path
(any control block of legal size and leaf version, here 33 bytes `c0 00…`), both modes -/
example (mall : Bool) :
    verifySpend (tE 0 144) (Desc.scriptPubkey (P false) (.wsh Ex.ms))
      (descScriptSig (P false) (.wsh Ex.ms) (items (tσ false) w))
      (descWitness (P false) (.wsh Ex.ms) (items (tσ false) w)) = .ok ∧
    verifySpend (tE 0 144) (Desc.scriptPubkey (P false) (.sh (.wsh Ex.ms)))
      (descScriptSig (P false) (.sh (.wsh Ex.ms)) (items (tσ false) w))
      (descWitness (P false) (.sh (.wsh Ex.ms)) (items (tσ false) w)) = .ok ∧
    verifySpend (tE 0 144) (Desc.scriptPubkey (P false) (.sh (.ms Ex.ms)))
      (descScriptSig (P false) (.sh (.ms Ex.ms)) (items (tσ false) w))
      (descWitness (P false) (.sh (.ms Ex.ms)) (items (tσ false) w)) = .ok ∧
    verifySpend (tE 0 144) (Desc.scriptPubkey (P true) (.tr 7 [(0, Ex.ms)]))
      (descScriptSig (P true) (.tr 7 [(0, Ex.ms)])
        (items (tσ true) wTap ++ [encodeBytes (ke true) .tap Ex.ms, 0xc0 :: List.replicate 32 0]))
      (descWitness (P true) (.tr 7 [(0, Ex.ms)])
        (items (tσ true) wTap ++ [encodeBytes (ke true) .tap Ex.ms, 0xc0 :: List.replicate 32 0])) = .ok :=
  ⟨wsh_spend_sound _ _ (ex_hashAgree false 0 144) (ex_msSpend_segwit mall) (by decide +kernel),
   sh_wsh_spend_sound _ _ (ex_hashAgree false 0 144) (ex_msSpend_segwit mall) (by decide +kernel),
   sh_spend_sound _ _ (ex_hashAgree false 0 144) (ex_msSpend_legacy mall)
     (by intro p hp; simp [w] at hp; rcases hp with rfl | rfl | rfl | rfl <;> simp [ssItemOk, tσ, ser, pre])
     (by decide +kernel) (by decide +kernel)
     (by intro prog h; have := congrArg List.length h
         simp only [List.length_cons, List.length_nil] at this; revert this; decide +kernel),
   tr_script_spend_sound _ _ (ex_hashAgree true 0 144) 7 [(0, Ex.ms)] (ex_msSpend_tap mall) (by decide)
     (0xc0 :: List.replicate 32 0) (by decide) (by decide) (by decide) (by decide) rfl⟩

/-- `wpkh`, `sh(wpkh)`, `tr` key path -/
example :
    verifySpend (tE 0 0) (Desc.scriptPubkey (P false) (.wpkh 3))
      (descScriptSig (P false) (.wpkh 3) [ser false 3 ++ [1], (P false).env.ser 3])
      (descWitness (P false) (.wpkh 3) [ser false 3 ++ [1], (P false).env.ser 3]) = .ok ∧
    verifySpend (tE 0 0) (Desc.scriptPubkey (P false) (.sh (.wpkh 3)))
      (descScriptSig (P false) (.sh (.wpkh 3)) [ser false 3 ++ [1], (P false).env.ser 3])
      (descWitness (P false) (.sh (.wpkh 3)) [ser false 3 ++ [1], (P false).env.ser 3]) = .ok ∧
    verifySpend (tE 0 0) (Desc.scriptPubkey (P true) (.tr 7 []))
      (descScriptSig (P true) (.tr 7 []) [List.replicate 32 5 ++ [1]])
      (descWitness (P true) (.tr 7 []) [List.replicate 32 5 ++ [1]]) = .ok :=
  ⟨wpkh_spend_sound _ _ (ex_hashAgree false 0 0) 3 _ (ex_keyOk segwitFlags 0 0 DOM_SEGWITV0 3)
     (by simp) (by simp [tE, P, ke]) (by decide),
   sh_wpkh_spend_sound _ _ (ex_hashAgree false 0 0) 3 _ (ex_keyOk segwitFlags 0 0 DOM_SEGWITV0 3)
     (by simp) (by simp [tE, P, ke]) (by decide),
   tr_key_spend_sound _ _ 7 [] (by decide) _ (by decide)⟩

/-- the conclusions also compute (independent of the theorems): direct evaluation of the flat
interpreter with the limits on, and the lock really matters (nSequence one below the reported
lock is rejected) -/
example :
    Script.accepts (mkEnv (tE 0 144) segwitFlags DOM_SEGWITV0) (encode (ke false) .segwitv0 Ex.ms)
      (stk (tσ false) w) = true ∧
    Script.accepts (mkEnv (tE 0 143) segwitFlags DOM_SEGWITV0) (encode (ke false) .segwitv0 Ex.ms)
      (stk (tσ false) w) = false := by
  decide +kernel

end examples

end MsVerif.C01

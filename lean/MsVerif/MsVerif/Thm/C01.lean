/-
C01 — every satisfaction the library returns actually spends the output (Miniscript level).

Model ↔ Rust:  `satDissat cfg ms` (Model/Satisfy.lean) ↔ `Satisfaction::sat_dissat` in
src/miniscript/satisfy/sat_dissat.rs with `Witness::combine`, `concatenate_rev`, `minimum`,
`minimum_mall`, `thresh`, `thresh_mall` of src/miniscript/satisfy/mod.rs
(`build_template{,_mall}` = its `.sat`; `Miniscript::satisfy{,_malleable}`, `Plan::satisfy` and
the PSBT finalizer complete that template with `Placeholder::satisfy_self` = `σ` here).
`cfg : SatCfg` = (key environment, script context, malleable?, root_has_sig, assets): every
theorem below holds for BOTH modes, ANY `rootHasSig` and ANY asset set, because `cfg` is
universally quantified.

Script side: `frag` (Spec/Frag.lean) is the structured semantics of the emitted opcodes,
proved equal to the flat interpreter `Script.run` on `encode ms` by Thm/Bridge.lean;
`top_level_sat_sound_exec` composes the two and speaks about `Script.accepts`.

Hypotheses (all explicit, vocabulary in Spec/SatSpec.lean):
  `EnvOk env ctx`   resource limits off (judged per run: C09), tapscript rules iff ctx = Tap;
                    MINIMALIF / NULLFAIL / NULLDUMMY / MINIMALDATA arbitrary
  `Agrees env ke assets σ`   what the caller holds is real: signatures verify against the
                    digest (`env.sigOk`), preimages hash to the committed values, keys have the
                    shape the context wants, `σ` is `Placeholder::satisfy_self`
  `WF ctx ms`       numeric side conditions guaranteed by `AbsLockTime/RelLockTime::from_consensus`
                    (1 ≤ n < 2^31), `Threshold::new` (1 ≤ k ≤ n, n ≤ 20 for multi) and the
                    context rules (`multi` outside Tap, `multi_a` inside)
  `typeOf ms = some τ`   the fragment type-checks
  `LocksMet env s`  the transaction's nLockTime / nSequence pass CLTV / CSV for the locks the
                    satisfaction REPORTS (`abs`/`rel` fields = `absolute_timelock`/`relative_timelock`)

The satisfier's `assert!`s (not modelled as panics) are treated at the end: they cannot fire
in non-malleable mode (`asserts_hold_nonmall`), and CAN fire in malleable mode
(`asserts_fail_mall`, reproduced on the library).
-/
import MsVerif.Lemmas.SatSound
import MsVerif.Lemmas.SatAsserts
import MsVerif.Thm.Bridge

namespace MsVerif.C01
open MsVerif MsVerif.Script MsVerif.SatSpec

section main
variable {env : Env} {σ : Ph → Bytes} {cfg : SatCfg}

/-! ## T1 — soundness of the satisfier on the structured semantics -/

/-- **Satisfactions are sound.**  If the model returns a satisfaction stack `w` for a
well-typed fragment and the transaction meets the reported locks, then running the fragment on
the realised witness (on top of ANY `rest`, any alt stack, any opcode counter) succeeds and
leaves what the fragment's base type promises (`SatRuns`, Spec/SatSpec.lean): B → one true
value in place of the witness (exactly `[1]` for `u`), V → nothing, K → key over a signature
CHECKSIG accepts, W → the true value next to the untouched top element. -/
theorem sat_sound (henv : EnvOk env cfg.ctx) (hag : Agrees env cfg.env cfg.assets σ)
    (ms : Ms) (τ : Ty) (hwf : WF cfg.ctx ms) (hty : typeOf ms = some τ) (w : List Ph)
    (hs : (satDissat cfg ms).sat.stack = .stack w) (hl : LocksMet env (satDissat cfg ms).sat) :
    SatRuns env cfg.env cfg.ctx σ τ.corr ms w :=
  (sound_all henv hag ms τ hwf hty).sat w ⟨hs, hl⟩

/-- **Dissatisfactions are sound.**  If the model returns a dissatisfaction stack `w`, running
the fragment on it leaves exactly the empty vector in place of the witness (B / W), resp. the
key over an empty signature (K). -/
theorem dissat_sound (henv : EnvOk env cfg.ctx) (hag : Agrees env cfg.env cfg.assets σ)
    (ms : Ms) (τ : Ty) (hwf : WF cfg.ctx ms) (hty : typeOf ms = some τ) (w : List Ph)
    (hs : (satDissat cfg ms).dissat.stack = .stack w)
    (hl : LocksMet env (satDissat cfg ms).dissat) :
    DisRuns env cfg.env cfg.ctx σ τ.corr ms w :=
  (sound_all henv hag ms τ hwf hty).dis w ⟨hs, hl⟩

/-- a `V` fragment never has a dissatisfaction stack (whose locks could be met) -/
theorem dissat_V_never (henv : EnvOk env cfg.ctx) (hag : Agrees env cfg.env cfg.assets σ)
    (ms : Ms) (τ : Ty) (hwf : WF cfg.ctx ms) (hty : typeOf ms = some τ) (hV : τ.corr.base = .V)
    (w : List Ph) (hs : (satDissat cfg ms).dissat.stack = .stack w)
    (hl : LocksMet env (satDissat cfg ms).dissat) : False :=
  (disRuns_V hV).mp (dissat_sound henv hag ms τ hwf hty w hs hl)

/-- the witnesses have the shape the input type promises (`z`: empty, `o`: one element,
`n`: non-empty top element) — used for `s:`, `d:` and `j:` -/
theorem witness_shape (hag : Agrees env cfg.env cfg.assets σ) (ms : Ms) (τ : Ty)
    (hwf : WF cfg.ctx ms) (hty : typeOf ms = some τ) : Shape σ τ.corr (satDissat cfg ms) :=
  shape_sound cfg hag ms τ hwf hty

/-! ## The property's first sentence at Miniscript level -/

/-- **Top level, structured semantics.**  For a `B` script (what `wsh`/`sh`/tapleaf/bare
wrap), the script run on EXACTLY the realised witness leaves EXACTLY one element, and it is
true (CLEANSTACK form); the alt stack is empty again. -/
theorem top_level_sat_sound (henv : EnvOk env cfg.ctx) (hag : Agrees env cfg.env cfg.assets σ)
    (ms : Ms) (τ : Ty) (hwf : WF cfg.ctx ms) (hty : typeOf ms = some τ) (hB : τ.corr.base = .B)
    (w : List Ph) (hs : (satDissat cfg ms).sat.stack = .stack w)
    (hl : LocksMet env (satDissat cfg ms).sat) :
    ∃ v ops, frag env cfg.env cfg.ctx ms ⟨stk σ w, [], 0⟩ = .ok ⟨[v], [], ops⟩ ∧
      castToBool v = true := by
  obtain ⟨v, hr, hv, _⟩ := (satRuns_B hB).mp (sat_sound henv hag ms τ hwf hty w hs hl) []
  obtain ⟨⟨st, al, ops⟩, he, hst, hal⟩ := hr [] 0
  simp only [List.append_nil] at he
  simp only at hst hal
  subst hst hal
  exact ⟨v, ops, he, hv.1⟩

/-- **Top level, real opcode execution** (T2: composition with the bridge theorem): the
encoded script, executed by the flat Script interpreter on exactly the realised witness, is
ACCEPTED — no error, balanced conditionals, exactly one true element left. -/
theorem top_level_sat_sound_exec (henv : EnvOk env cfg.ctx)
    (hag : Agrees env cfg.env cfg.assets σ)
    (ms : Ms) (τ : Ty) (hwf : WF cfg.ctx ms) (hty : typeOf ms = some τ) (hB : τ.corr.base = .B)
    (w : List Ph) (hs : (satDissat cfg ms).sat.stack = .stack w)
    (hl : LocksMet env (satDissat cfg ms).sat) :
    accepts env (encode cfg.env cfg.ctx ms) (stk σ w) = true := by
  obtain ⟨v, ops, he, hv⟩ := top_level_sat_sound henv hag ms τ hwf hty hB w hs hl
  have hb := Bridge.exec_encode_eq_frag_nostack env cfg.env cfg.ctx ms ⟨stk σ w, [], 0⟩ [] rfl
    henv.stackLimits
  unfold accepts State.init
  rw [hb, he]
  simp [Except.map, hv]

end main

/-! ## The `assert!`s of the satisfier (not modelled as panics) -/

/-- **Where the asserts provably hold**: non-malleable mode (and `k ≤ n` at every `thresh`,
which `Threshold::new` guarantees): for every well-typed script and every asset set none of the
`assert!`s in `sat_dissat` (or_b / or_c / or_d) and `Satisfaction::thresh` fires. -/
theorem asserts_hold_nonmall (c : SatCfg) (hm : c.mall = false) (ms : Ms) (τ : Ty)
    (hty : typeOf ms = some τ) (hk : threshKOk ms = true) :
    assertsOk c ms = true :=
  SatSpec.asserts_hold_nonmall c hm ms τ hty hk

/-- under the same hypotheses every dissatisfaction computed for a `d`-typed fragment is
signature-free, lock-free and not IMPOSSIBLE -/
theorem dissat_clean_nonmall (c : SatCfg) (hm : c.mall = false) (ms : Ms) (τ : Ty)
    (hty : typeOf ms = some τ) (hk : threshKOk ms = true) (hd : τ.corr.dissat = true) :
    (satDissat c ms).dissat.hasSig = false ∧ (satDissat c ms).dissat.stack ≠ .impossible ∧
      (satDissat c ms).dissat.abs = none ∧ (satDissat c ms).dissat.rel = none :=
  SatSpec.dissat_clean_nonmall c hm ms τ hty hk hd

/-- `or_d(or_i(j:and_v(v:pk(K0),pk(K1)),and_v(v:pk(K2),0)),pk(K3))` with a signature for K2
only made `assert!(!l_dis.has_sig)` (`Terminal::OrD`) fire — a panic on a sane script through
`Miniscript::satisfy` / `Descriptor::get_satisfaction` — while `Terminal::NonZero` reported
its dissatisfaction as IMPOSSIBLE (finding F3).  With the fix (`j:` dissatisfies with one
empty push, mirrored in the model) the script is silent. -/
theorem asserts_exA_silent :
    (typeOf exA).map (fun t => (t.corr.base, t.mall.nonMall, t.mall.signed)) = some (.B, true, true) ∧
    assertsOk cfgA exA = true := by decide

/-- **In malleable mode the asserts can still fire**: mixed height/time relative locks in an
`and_b` make its dissatisfaction IMPOSSIBLE, so `minimum_mall` hands `or_d` a dissatisfaction
with a signature
(`or_d(or_i(and_b(or_i(0,and_v(v:older(1),0)),a:or_i(0,and_v(v:older(4194305),0))),and_v(v:pk(K2),0)),pk(K3))`,
signature for K2, `check_older` true; reproduced on the library: `satisfy_malleable` and
`get_satisfaction_mall` on `wsh(…)` panic at sat_dissat.rs, `Terminal::OrD`). -/
theorem asserts_fail_mall : (typeOf exB).isSome = true ∧ assertsOk cfgB exB = false := by decide

/-- the unrestricted claim "no assert fires on a well-typed script, in either mode" … -/
def asserts_hold_full : Prop :=
  ∀ (c : SatCfg) (ms : Ms) (τ : Ty), typeOf ms = some τ → assertsOk c ms = true

/-- … is false (malleable mode, `asserts_fail_mall`). -/
theorem asserts_hold_full_false : ¬ asserts_hold_full :=
  SatSpec.asserts_hold_full_false

/-! ## Non-vacuity: a toy world in which every hypothesis holds -/

namespace Ex

/-- 33-byte "compressed keys" `02 00…00 k` -/
def ser (k : Key) : Bytes := 2 :: (List.replicate 31 0 ++ [UInt8.ofNat k])
/-- 32-byte preimages `09…09 h` -/
def pre (h : Nat) : Bytes := List.replicate 31 9 ++ [UInt8.ofNat h]
/-- toy hash: append a byte (injective, so "collision free") -/
def toyHash (b : Bytes) : Bytes := b ++ [7]

def ke : KeyEnv where
  ser := ser
  sortKey := ser
  pkh k := toyHash (ser k)
  rawPkh h := toyHash (ser h)
  hashVal _ h := toyHash (pre h)

/-- segwit-v0 standardness flags, limits off; a signature is valid iff it is `key ++ [1]` -/
def tEnv (lockTime seq : Nat) : Env where
  flags := ⟨false, true, true, true, true, false, false⟩
  sigOk pk sig := sig == pk ++ [1]
  hash _ b := toyHash b
  nLockTime := lockTime
  nSequence := seq
  txVersion := 2

def tσ : Ph → Bytes
  | .pubkey k _ => ser k
  | .pubkeyHash h _ => ser h
  | .ecdsaSig k => ser k ++ [1]
  | .ecdsaSigPkh h => ser h ++ [1]
  | .schnorrSig k _ => ser k ++ [1]
  | .schnorrSigPkh h _ => ser h ++ [1]
  | .preimage _ h => pre h
  | .hashDissat => List.replicate 32 0
  | .pushOne => [1]
  | .pushZero => []

def pk (k : Key) : Ms := .check (.pkK k)

/-- `and_v(v:pk(K0),or_d(pk(K1),older(144)))` -/
def ms : Ms := .andV (.verify (pk 0)) (.orD (pk 1) (.older 144))
def ty : Ty := ⟨⟨.B, .anyNonZero, false, false⟩, ⟨.none, true, true⟩⟩

def noAssets : Assets :=
  ⟨fun _ => false, fun _ => none, fun _ => none, fun _ => none, fun _ => none,
   fun _ _ => false, fun _ => false, fun _ => false⟩
/-- signatures for K0 and K1 -/
def assets1 : Assets := { noAssets with ecdsaSig := fun k => k == 0 || k == 1 }
/-- signature for K0 only, and 144 blocks have passed -/
def assets2 : Assets := { noAssets with ecdsaSig := fun k => k == 0, checkOlder := fun n => n == 144 }

def cfg1 : SatCfg := ⟨ke, .segwitv0, false, true, assets1⟩
def cfg2 : SatCfg := ⟨ke, .segwitv0, false, true, assets2⟩
def cfg2mall : SatCfg := { cfg2 with mall := true }

end Ex

section toy
open Ex

theorem ex_envOk (lt sq : Nat) : EnvOk (tEnv lt sq) .segwitv0 := ⟨rfl, rfl, rfl⟩

theorem ex_keyOk (lt sq : Nat) (k : Key) : pubkeyOk (tEnv lt sq) (ser k) = true := by
  simp [pubkeyOk, tEnv, ser]

/-- in the toy world every signature/preimage the satisfier could hold is genuine, so `Agrees`
holds for EVERY asset set -/
theorem ex_agrees (lt sq : Nat) (a : Assets) : Agrees (tEnv lt sq) ke a tσ where
  pushOne := rfl
  pushZero := rfl
  hashDissat := rfl
  keyShape := ex_keyOk lt sq
  pkh _ := rfl
  pubkey _ _ := rfl
  ecdsa k _ := ⟨by simp [tσ], by simp [tEnv, tσ, ke]⟩
  schnorr k _ _ := ⟨by simp [tσ], by simp [tEnv, tσ, ke]⟩
  rawPk h _ _ := ⟨rfl, ex_keyOk lt sq h⟩
  rawEcdsa h _ _ _ := ⟨by simp [tσ], by simp [tEnv, tσ]⟩
  rawSchnorr h _ _ _ _ := ⟨by simp [tσ], by simp [tEnv, tσ]⟩
  preimage _ h _ := ⟨by simp [tσ, pre], rfl⟩
  zeroNoPreimage _ h := by
    intro e
    have := congrArg List.head? e
    simp [tEnv, ke, toyHash, pre, List.replicate] at this
  sizeOk p := by cases p <;> simp [tσ, ser, pre]

theorem ex_typed : typeOf ms = some ty := by decide
theorem ex_wf : WF .segwitv0 ms := by simp [ms, pk, WF]

end toy

open Ex in
/-- asset set 1 (both signatures): the satisfier answers `[sig(K1), sig(K0)]`, no locks; all
hypotheses of `top_level_sat_sound_exec` are met with any transaction -/
example : (satDissat cfg1 Ex.ms).sat = ⟨.stack [.ecdsaSig 1, .ecdsaSig 0], true, none, none⟩ ∧
    accepts (tEnv 0 0) (encode ke .segwitv0 Ex.ms) (stk tσ [.ecdsaSig 1, .ecdsaSig 0]) = true :=
  ⟨by decide, top_level_sat_sound_exec (cfg := cfg1) (ex_envOk 0 0) (ex_agrees 0 0 _) Ex.ms ty ex_wf ex_typed rfl _
    (by decide) (by simp [LocksMet]; decide)⟩

open Ex in
/-- asset set 2 (K0 + `older(144)`): the satisfier answers `[<empty>, sig(K0)]` and REPORTS the
relative lock 144 — in non-malleable and in malleable mode; a transaction with nSequence = 144
(version 2) meets it -/
example : (satDissat cfg2 Ex.ms).sat = ⟨.stack [.pushZero, .ecdsaSig 0], true, none, some 144⟩ ∧
    (satDissat cfg2mall Ex.ms).sat = ⟨.stack [.pushZero, .ecdsaSig 0], true, none, some 144⟩ ∧
    accepts (tEnv 0 144) (encode ke .segwitv0 Ex.ms) (stk tσ [.pushZero, .ecdsaSig 0]) = true :=
  ⟨by decide, by decide,
   top_level_sat_sound_exec (cfg := cfg2mall) (ex_envOk 0 144) (ex_agrees 0 144 _) Ex.ms ty ex_wf ex_typed rfl _
    (by decide) (by simp [LocksMet]; decide)⟩

open Ex in
/-- the conclusions also compute: direct evaluation of the flat interpreter (independent of the
theorems), and the lock really matters (nSequence one below the reported lock is rejected) -/
example :
    accepts (tEnv 0 0) (encode ke .segwitv0 Ex.ms) (stk tσ [.ecdsaSig 1, .ecdsaSig 0]) = true ∧
    accepts (tEnv 0 144) (encode ke .segwitv0 Ex.ms) (stk tσ [.pushZero, .ecdsaSig 0]) = true ∧
    accepts (tEnv 0 143) (encode ke .segwitv0 Ex.ms) (stk tσ [.pushZero, .ecdsaSig 0]) = false := by
  decide +kernel

open Ex in
/-- `dissat_sound` instantiated: `or_d(pk(K1),older(144))` is not `d` (no dissatisfaction), but
`pk(K1)` is: its dissatisfaction `[<empty>]` leaves the empty vector -/
example : Runs (frag (tEnv 0 0) ke .segwitv0 (pk 1)) (stk tσ [.pushZero] ++ [[5]]) ([] :: [[5]]) :=
  (disRuns_B (c := Corr.pkK |> fun c => { c with base := .B }) rfl).mp
    (dissat_sound (cfg := cfg1) (ex_envOk 0 0) (ex_agrees 0 0 _) (pk 1) ⟨⟨.B, .oneNonZero, true, true⟩, Mall.pkK⟩
      (by simp [pk, WF]) (by decide) [.pushZero] (by decide) (by simp [LocksMet]; decide)) [[5]]

end MsVerif.C01

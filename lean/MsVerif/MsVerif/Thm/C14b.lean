/-
C14b — T1 of C14 INSTANTIATED: the interpreter parameter of the finalizer model is C13's model
of the transaction interpreter (`Model/Interp.lean`, tied to the Rust iterator by C13's
correspondence run), and its soundness hypothesis (`C14.InterpSound`) is DISCHARGED by C13's
theorem `interp_accept_imp_script_accepts_partial` (interpreter accepts ⇒ the flat opcode
interpreter `Script.run` accepts the encoded script with a clean stack).

What `from_txdata` does before the iterator runs — pick, from (scriptPubKey, scriptSig, witness),
the miniscript to interpret, its script context and the initial stack — is a parameter
(`Resolver.resolve`); C13's model has no byte-level `from_txdata` either.  What "valid" means here
(`ScriptAccepts`): the Script semantics (`Spec/Script.lean`, `accepts` = CLEANSTACK acceptance)
accepts the ENCODED resolved miniscript on the resolved stack, in the environment of input `i` of
the unsigned transaction.

`_partial` because it inherits C13's restrictions, all explicit in `ResolverOk`:
  * the resolved miniscripts satisfy `C13.WF` (everything the script decoder produces, `j:` included;
    keys well-formed for the context, thresholds `1 ≤ k ≤ n`, lock values in range) and the resolved
    stack elements are shorter than 2^31 bytes;
  * `Agree`: the interpreter's verifier / hashes / lock fields are Script's, and the transaction
    version is ≥ 2 (the interpreter never sees the version: `C13.interp_unsound_csv_tx_version_1`);
  * `NoLimits`: Script runs without the 201-opcode and 1000-element limits (resource limits are
    C09's subject, the interpreter does not count).
The step from `accepts` on the inner script to `Spend.verifySpend` on the whole output (hash
commitment of the witness / redeem script, push-only scriptSig, element sizes) is NOT taken here:
it is judged on every run (`J spend` applies `verifySpend` to every finalized input).
-/
import MsVerif.Thm.C14
import MsVerif.Thm.C13

namespace MsVerif.C14b
open MsVerif MsVerif.Script MsVerif.Interp MsVerif.InterpSound

/-- what `Interpreter::from_txdata` + `Interpreter::iter` fix before the iterator runs -/
structure Resolver where
  /-- `(spk, scriptSig, witness) ↦ (script context, miniscript, initial stack)`; `none`: `from_txdata`
  fails, or the output is a bare key / key hash (not a miniscript) -/
  resolve : Psbt.Scr → Psbt.SS → Psbt.Wit → Option (MsVerif.Ctx × Ms × List Bytes)
  ke : KeyEnv
  /-- the interpreter's environment for input `i` of `tx` spending `utxos` (verifier closure of
  `Interpreter::iter`: sighash of this input; lock fields of the transaction) -/
  ie : Psbt.Tx → Nat → List Psbt.TxOut → MsVerif.Ctx → IEnv
  /-- Script's environment for the same input -/
  env : Psbt.Tx → Nat → List Psbt.TxOut → MsVerif.Ctx → Env

/-- the interpreter parameter of the finalizer model, built from C13's `interpTop` -/
def interpOf (R : Resolver) : Psbt.Tx → Nat → List Psbt.TxOut → Psbt.Scr → Psbt.Wit → Psbt.SS → Bool :=
  fun tx i utxos spk wit ss =>
    match R.resolve spk ss wit with
    | none => false
    | some (ctx, ms, c) =>
      (match typeOf ms with | some ty => ty.corr.base == .B | none => false) &&
      (match interpTop R.ke (R.ie tx i utxos ctx) ms (absS c) with | .ok _ => true | .error _ => false)

/-- validity: Script accepts the encoded resolved miniscript on the resolved stack -/
def ScriptAccepts (R : Resolver) : Psbt.Tx → Nat → List Psbt.TxOut → Psbt.Scr → Psbt.SS → Psbt.Wit → Prop :=
  fun tx i utxos spk ss wit =>
    ∃ ctx ms c, R.resolve spk ss wit = some (ctx, ms, c) ∧
      accepts (R.env tx i utxos ctx) (encode R.ke ctx ms) c = true

/-- C13's side conditions, for everything the resolver can return -/
structure ResolverOk (R : Resolver) : Prop where
  nolimits : ∀ tx i utxos ctx, NoLimits (R.env tx i utxos ctx)
  agree : ∀ tx i utxos ctx, Agree (R.env tx i utxos ctx) (R.ie tx i utxos ctx)
  /-- the resolved miniscript is one the script decoder produces (`C13.WF`: no sortedmulti node,
  well-formed keys, `1 ≤ k ≤ n`, lock values an `AbsLockTime` / `RelLockTime` can carry) -/
  wf : ∀ tx i utxos spk ss wit ctx ms c, R.resolve spk ss wit = some (ctx, ms, c) →
    C13.WF (R.env tx i utxos ctx) R.ke ms
  /-- the resolved stack elements are shorter than 2^31 bytes (witness elements; needed by `j:`) -/
  small : ∀ spk ss wit ctx ms c, R.resolve spk ss wit = some (ctx, ms, c) → ∀ e ∈ c, e.length < 2 ^ 31

/-- `InterpSound` discharged by C13 -/
theorem interpSound_of_c13_partial (P : Psbt.Params) (R : Resolver) (hP : P.interp = interpOf R)
    (ok : ResolverOk R) : C14.InterpSound P (ScriptAccepts R) := by
  intro tx i utxos spk wit ss h
  rw [hP] at h
  unfold interpOf at h
  cases hr : R.resolve spk ss wit with
  | none => simp [hr] at h
  | some r =>
    obtain ⟨ctx, ms, c⟩ := r
    simp only [hr, Bool.and_eq_true] at h
    obtain ⟨hty, hint⟩ := h
    cases ht : typeOf ms with
    | none => simp [ht] at hty
    | some ty =>
      simp only [ht, beq_iff_eq] at hty
      cases hi : interpTop R.ke (R.ie tx i utxos ctx) ms (absS c) with
      | error e => simp [hi] at hint
      | ok cs =>
        exact ⟨ctx, ms, c, hr,
          C13.interp_accept_imp_script_accepts_partial (ok.nolimits tx i utxos ctx) (ok.agree tx i utxos ctx) ms
            (ok.wf tx i utxos spk ss wit ctx ms c hr) ty ht hty c cs (ok.small spk ss wit ctx ms c hr) hi⟩

/-- T1 instantiated (`finalize_input`): when the finalizer — running C13's interpreter as its
check — finalizes an input that was not final, the Script semantics accepts the encoded miniscript
of the spent output on exactly the stack made of the final scriptSig / witness it wrote, for
input `i` of the actual unsigned transaction and the referenced outputs. -/
theorem finalize_valid_script_partial (P : Psbt.Params) (R : Resolver) (hP : P.interp = interpOf R)
    (ok : ResolverOk R) (p p' : Psbt.Psbt) (i : Nat) (m : Bool) (inp : Psbt.Input)
    (hi : p.inputs[i]? = some inp) (hnf : inp.isFinal = false)
    (h : Psbt.finalizeInput P p i m = .ok p') :
    ∃ inp' utxo utxos, p'.inputs[i]? = some inp' ∧ Psbt.getUtxo p i = .ok utxo ∧ Psbt.prevouts p = .ok utxos ∧
      ∃ ctx ms c, R.resolve utxo.spk (inp'.finalScriptSig.getD []) (inp'.finalScriptWitness.getD []) = some (ctx, ms, c) ∧
        accepts (R.env p.tx i utxos ctx) (encode R.ke ctx ms) c = true := by
  obtain ⟨inp', utxo, utxos, h1, h2, h3, _, _, _, hv⟩ :=
    C14.finalize_valid P (ScriptAccepts R) (interpSound_of_c13_partial P R hP ok) p p' i m inp hi hnf h
  exact ⟨inp', utxo, utxos, h1, h2, h3, hv⟩

/-- T1 instantiated (`extract`): every input of an extracted transaction — whoever finalized it —
is accepted by the Script semantics in the same sense. -/
theorem extract_valid_script_partial (P : Psbt.Params) (R : Resolver) (hP : P.interp = interpOf R)
    (ok : ResolverOk R) (p : Psbt.Psbt) (l : List (Psbt.SS × Psbt.Wit)) (h : Psbt.extract P p = .ok l)
    (i : Nat) (inp : Psbt.Input) (hi : p.inputs[i]? = some inp) :
    ∃ utxo utxos, Psbt.getUtxo p i = .ok utxo ∧ Psbt.prevouts p = .ok utxos ∧
      ∃ ctx ms c, R.resolve utxo.spk (C14.decodeFinal inp).1 (C14.decodeFinal inp).2 = some (ctx, ms, c) ∧
        accepts (R.env p.tx i utxos ctx) (encode R.ke ctx ms) c = true := by
  obtain ⟨_, _, hall⟩ := C14.extract_valid P (ScriptAccepts R) (interpSound_of_c13_partial P R hP ok) p l h
  obtain ⟨_, utxo, utxos, h2, h3, hv⟩ := hall i inp hi
  exact ⟨utxo, utxos, h2, h3, hv⟩

/-! ### non-vacuity: a concrete world (defined here; nothing but C13's THEOREMS is imported)

One 33-byte key `K0` with one valid signature `S0`; lock time 100, sequence 10, version 2; no
resource limits.  P2WSH-like output `[1]` whose witness script is `and_v(v:pk(K0), after(100))`.
The satisfier returns the witness `[S0, script]`; `from_txdata` resolves it to
(segwitv0, `msX`, `[S0]`). -/

def K0 : Bytes := 2 :: List.replicate 32 7
def S0 : Bytes := [0x30, 0x01]
def keX : KeyEnv := ⟨fun _ => K0, fun _ => K0, fun _ => [], fun _ => [], fun _ _ => []⟩
def flagsX : Flags := ⟨false, true, true, true, true, false, false⟩
def envX : Env := ⟨flagsX, fun pk sg => pk == K0 && sg == S0, fun _ _ => [], 100, 10, 2⟩
def ieX : IEnv := ⟨fun pk sg => pk == K0 && sg == S0, fun _ => false, fun b => envX.hash .hash160 b,
  fun k b => envX.hash (hkOp k) b, 100, 10, 2⟩

theorem envX_nolimits : NoLimits envX := ⟨rfl, rfl⟩

theorem envX_agree : Agree envX ieX where
  sig := fun _ _ h => h
  key := by intro pk h; simp [ieX] at h
  h160 := fun _ => rfl
  hash := fun _ _ => rfl
  lockTime := rfl
  sequence := rfl
  version := by decide

def msX : Ms := .andV (.verify (.check (.pkK 0))) (.after 100)

theorem wfX : C13.WF envX keX msX := ⟨(by decide : pubkeyOk envX K0 = true), by decide, by decide⟩

def wsX : Psbt.Scr := [7]

def RX : Resolver where
  resolve spk _ wit :=
    if spk = [1] then
      match wit with
      | [sig, ws] => if ws = wsX ∧ sig.length ≤ 520 then some (.segwitv0, msX, [sig]) else none
      | _ => none
    else none
  ke := keX
  ie _ _ _ _ := ieX
  env _ _ _ _ := envX

theorem RX_ok : ResolverOk RX where
  nolimits _ _ _ _ := envX_nolimits
  agree _ _ _ _ := envX_agree
  wf tx i utxos spk ss wit ctx ms c h := by
    simp only [RX] at h
    split at h
    · split at h
      · split at h
        · cases h; exact wfX
        · cases h
      · cases h
    · cases h
  small spk ss wit ctx ms c h := by
    simp only [RX] at h
    split at h
    · split at h
      · split at h
        · rename_i hsz
          cases h
          intro e he
          simp only [List.mem_singleton] at he
          subst he
          omega
        · cases h
      · cases h
    · cases h

def PX : Psbt.Params where
  kind s := if s = [1] then .p2wsh else .other
  toP2wsh s := if s = wsX then [1] else 0 :: s
  toP2sh s := 8 :: s
  p2pkKey _ := none
  isP2pkhOf _ _ := false
  isP2wpkhOf _ _ := false
  decodes _ _ := true
  allKeys := [0]
  satisfy d p i _ :=
    match d with
    | .wsh ws => ((p.inputs[i]?).bind (·.partialSigs 0)).map fun sg => ([if sg = 0 then S0 else [0x30, 0x02], ws], [])
    | _ => none
  tapScriptWitness _ _ _ := none
  sigBytes _ _ := []
  interp := interpOf RX
  sanityInput _ := true

def inX (sig : Psbt.Sig) : Psbt.Input :=
  { witnessUtxo := some ⟨[1], 1000⟩, witnessScript := some wsX, partialSigs := fun k => if k = 0 then some sig else none }

def psbtX : Psbt.Psbt := ⟨⟨2, 100, [⟨1, 0, 0⟩, ⟨2, 0, 0⟩], 0⟩, [inX 0, inX 1]⟩

/-- the finalizer with C13's interpreter inside: input 0 (valid signature) is finalized with the
witness `[S0, script]`, input 1 (invalid signature) fails the interpreter check and is untouched -/
example : (Psbt.finalizeMut PX psbtX false).result = .err [.input .interpreter 1] := by decide
example : (Psbt.finalizeMut PX psbtX false).psbt.inputs.map (·.finalScriptWitness) = [some [S0, wsX], none] := by
  decide

/-- … and the theorem applies to it (its hypotheses are satisfiable, its conclusion is about a real
acceptance): Script accepts the encoded resolved miniscript on the stack of the witness written -/
example : ∃ ctx ms c, accepts envX (encode keX ctx ms) c = true := by
  have hfin : ∃ p', Psbt.finalizeInput PX psbtX 0 false = .ok p' := by
    cases hh : Psbt.finalizeInput PX psbtX 0 false with
    | ok p' => exact ⟨p', rfl⟩
    | err e => exact absurd (show (match Psbt.finalizeInput PX psbtX 0 false with | .ok _ => true | _ => false) = true by decide) (by rw [hh]; simp)
    | panic => exact absurd (show (match Psbt.finalizeInput PX psbtX 0 false with | .ok _ => true | _ => false) = true by decide) (by rw [hh]; simp)
  obtain ⟨p', hp'⟩ := hfin
  obtain ⟨_, _, _, _, _, _, ctx, ms, c, _, hacc⟩ :=
    finalize_valid_script_partial PX RX rfl RX_ok psbtX p' 0 false (inX 0) rfl rfl hp'
  exact ⟨ctx, ms, c, hacc⟩

end MsVerif.C14b

/-
C14c — T4 of C14 (update consistency) as theorems: what `update_input_with_descriptor` /
`update_output_with_descriptor` write (`Model/PsbtUpdate.lean`), for every descriptor of C16's
descriptor model and every script tree of C15's taproot model.

* `update_scripts_are_spec`: the `redeem_script` / `witness_script` written are exactly the BIP16
  redeem script / BIP141 witness script (`Spec/Outputs.lean`) of the output the descriptor
  commits to;
* `update_scripts_hash_to_spk`: hence they hash to the descriptor's scriptPubKey (P2WSH:
  `OP_0 <sha256 ws>`; P2SH-P2WSH: `rs = OP_0 <sha256 ws>`, spk = `HASH160 <hash160 rs> EQUAL`; P2SH /
  P2SH-P2WPKH: spk = `HASH160 <hash160 rs> EQUAL`), with C16's serialisation lemmas (`Lemmas/OutputsSer.lean`);
* `updated_input_descriptor_inferred`: on an input updated this way the finalizer's
  `get_descriptor` passes its own consistency tests and infers exactly that script (link between
  the Updater and the Finalizer roles);
* `tap_update_commits` (taproot, from C15's theorems): `tap_merkle_root` is the BIP341 root of the
  described tree, the scriptPubKey's output key is the internal key tweaked by it, and EVERY
  `tap_scripts` control block proves its leaf against that root (path length ≤ 128), leaves in
  pre-order with the tree's depths.
Not modelled: the origin VALUES (`bip32_derivation` / `tap_key_origins` contents: fingerprint and
path of each key) — judged on every run (`J update-consistent`, `J update-output-consistent`).
-/
import MsVerif.Model.PsbtUpdate
import MsVerif.Lemmas.OutputsSer
import MsVerif.Thm.C15

namespace MsVerif.C14c
open MsVerif MsVerif.Script MsVerif.Outputs MsVerif.Desc MsVerif.PsbtUpd

/-- the written scripts are the specification's redeem / witness script of the committed output -/
theorem update_scripts_are_spec (P : Desc.Params) (hH : P.H.WellSized) (d : Desc.Desc) :
    updateScripts P d = ((d.toOutput P).redeemScript P.H, (d.toOutput P).witnessScript) := by
  cases d with
  | bare ms => rfl
  | pkh pk => rfl
  | wpkh pk => rfl
  | wsh ms => rfl
  | tr ik leaves => rfl
  | sh inner =>
    cases inner with
    | ms ms => rfl
    | wpkh pk =>
      simp only [updateScripts, shInnerScript, wpkhScriptPubkey, wpkhAddress, Payload.scriptPubkey,
        Desc.toOutput, Output.redeemScript, Output.witnessScript]
      rw [ser_witness0_20 _ (hH.hash160_len _)]
    | wsh ms =>
      simp only [updateScripts, toP2wsh, wshInnerScript, Desc.toOutput, Output.redeemScript,
        Output.witnessScript]
      rw [ser_witness0_32 _ (hH.sha256_len _)]

/-- T4 (non-taproot): the recorded scripts hash to the scriptPubKey of the descriptor -/
theorem update_scripts_hash_to_spk (P : Desc.Params) (hH : P.H.WellSized) (d : Desc.Desc) :
    match d with
    | .wsh _ => ∃ ws, updateScripts P d = (none, some ws) ∧ d.scriptPubkey P = p2wsh (P.H.sha256 ws)
    | .sh (.wsh _) => ∃ rs ws, updateScripts P d = (some rs, some ws) ∧ rs = p2wsh (P.H.sha256 ws) ∧
        d.scriptPubkey P = p2sh (P.H.hash160 rs)
    | .sh (.wpkh _) | .sh (.ms _) => ∃ rs, updateScripts P d = (some rs, none) ∧ d.scriptPubkey P = p2sh (P.H.hash160 rs)
    | .bare _ | .pkh _ | .wpkh _ | .tr _ _ => updateScripts P d = (none, none) := by
  have hs := update_scripts_are_spec P hH d
  cases d with
  | bare ms => rfl
  | pkh pk => rfl
  | wpkh pk => rfl
  | tr ik leaves => rfl
  | wsh ms =>
    refine ⟨_, hs, ?_⟩
    simp only [Desc.scriptPubkey, wshScriptPubkey, toP2wsh, wshInnerScript, Desc.toOutput, Output.witnessScript]
    exact ser_witness0_32 _ (hH.sha256_len _)
  | sh inner =>
    cases inner with
    | ms ms =>
      refine ⟨_, hs, ?_⟩
      simp only [Desc.scriptPubkey, shScriptPubkey, toP2sh, Desc.toOutput, Output.redeemScript]
      exact ser_newP2sh _ (hH.hash160_len _)
    | wpkh pk =>
      refine ⟨_, hs, ?_⟩
      simp only [Desc.scriptPubkey, shScriptPubkey, toP2sh, wpkhScriptPubkey, wpkhAddress, Payload.scriptPubkey,
        Desc.toOutput, Output.redeemScript]
      rw [ser_witness0_20 _ (hH.hash160_len _), ser_newP2sh _ (hH.hash160_len _)]
    | wsh ms =>
      refine ⟨_, _, hs, rfl, ?_⟩
      simp only [Desc.scriptPubkey, shScriptPubkey, toP2sh, wshScriptPubkey, toP2wsh, wshInnerScript,
        Desc.toOutput, Output.redeemScript, Output.witnessScript]
      rw [ser_witness0_32 _ (hH.sha256_len _), ser_newP2sh _ (hH.hash160_len _)]

/-! ### link to the finalizer: `get_descriptor` on an updated input -/

/-- finalizer parameters whose script algebra is the real one of `Model/Descriptor.lean` -/
def RealScripts (P : Desc.Params) (Q : Psbt.Params) : Prop :=
  Q.toP2wsh = Desc.toP2wsh P.H ∧ Q.toP2sh = Desc.toP2sh P.H

/-- an input carrying the utxo of `d` and the scripts `update_input_with_descriptor` records -/
def updatedInput (P : Desc.Params) (d : Desc.Desc) (value : Nat) : Psbt.Input :=
  { witnessUtxo := some ⟨d.scriptPubkey P, value⟩
    redeemScript := (updateScripts P d).1
    witnessScript := (updateScripts P d).2 }

/-- P2WSH: `get_descriptor` finds the witness script consistent (`witness_script.to_p2wsh() ==
script_pubkey`, no stray redeem script) and infers `wsh(<that script>)` -/
theorem updated_input_descriptor_inferred_wsh (P : Desc.Params) (Q : Psbt.Params) (hR : RealScripts P Q)
    (ms : Ms) (tx : Psbt.Tx) (value : Nat)
    (hkind : Q.kind ((Desc.Desc.wsh ms).scriptPubkey P) = .p2wsh)
    (hdec : Q.decodes .segwitv0 (wshInnerScript P ms) = true) :
    Psbt.getDescriptor Q ⟨tx, [updatedInput P (.wsh ms) value]⟩ 0 = .ok (.wsh (wshInnerScript P ms)) := by
  have hk : Q.kind (toP2wsh P.H (wshInnerScript P ms)) = .p2wsh := hkind
  simp [Psbt.getDescriptor, Psbt.getScriptPubkey, Psbt.getUtxo, updatedInput, updateScripts, Psbt.Res.bind,
    hR.1, Desc.Desc.scriptPubkey, wshScriptPubkey, hdec, hk]

/-- P2SH-P2WSH: both hash tests pass -/
theorem updated_input_descriptor_inferred_sh_wsh (P : Desc.Params) (Q : Psbt.Params) (hR : RealScripts P Q)
    (ms : Ms) (tx : Psbt.Tx) (value : Nat)
    (hkind : Q.kind ((Desc.Desc.sh (.wsh ms)).scriptPubkey P) = .p2sh)
    (hkind2 : Q.kind (toP2wsh P.H (wshInnerScript P ms)) = .p2wsh)
    (hdec : Q.decodes .segwitv0 (wshInnerScript P ms) = true) :
    Psbt.getDescriptor Q ⟨tx, [updatedInput P (.sh (.wsh ms)) value]⟩ 0 = .ok (.shWsh (wshInnerScript P ms)) := by
  have hk : Q.kind (toP2sh P.H (toP2wsh P.H (wshInnerScript P ms))) = .p2sh := hkind
  simp [Psbt.getDescriptor, Psbt.getScriptPubkey, Psbt.getUtxo, updatedInput, updateScripts, Psbt.Res.bind,
    hR.1, hR.2, Desc.Desc.scriptPubkey, shScriptPubkey, wshScriptPubkey, hdec, hk, hkind2]

/-- P2SH: the redeem script hashes to the scriptPubKey -/
theorem updated_input_descriptor_inferred_sh (P : Desc.Params) (Q : Psbt.Params) (hR : RealScripts P Q)
    (ms : Ms) (tx : Psbt.Tx) (value : Nat)
    (hkind : Q.kind ((Desc.Desc.sh (.ms ms)).scriptPubkey P) = .p2sh)
    (hk1 : Q.kind (encodeBytes P.env .legacy ms) ≠ .p2wsh) (hk2 : Q.kind (encodeBytes P.env .legacy ms) ≠ .p2wpkh)
    (hdec : Q.decodes .legacy (encodeBytes P.env .legacy ms) = true) :
    Psbt.getDescriptor Q ⟨tx, [updatedInput P (.sh (.ms ms)) value]⟩ 0 = .ok (.sh (encodeBytes P.env .legacy ms)) := by
  have hk : Q.kind (toP2sh P.H (encodeBytes P.env .legacy ms)) = .p2sh := hkind
  simp [Psbt.getDescriptor, Psbt.getScriptPubkey, Psbt.getUtxo, updatedInput, updateScripts, Psbt.Res.bind,
    hR.2, Desc.Desc.scriptPubkey, shScriptPubkey, shInnerScript, hdec, hk, hk1, hk2]

/-! ### taproot -/

open MsVerif.Spec MsVerif.Spec.Tree MsVerif.Tap in
/-- T4 (taproot): for every script tree of height ≤ 128 (any shape, any leaves; `H` any hash
algebra with a commutative branch hash, `tweak` = rust-bitcoin's `tap_tweak`) the update records
the BIP341 Merkle root, the output key committed to by the scriptPubKey is the internal key
tweaked by that root, and every recorded control block proves its leaf against the root; the
leaves appear in the tree's pre-order with the tree's depths. -/
theorem tap_update_commits {α ν κ ω : Type} (H : HashAlg α ν) (hc : H.Comm) (tweak : κ → Option ν → ω)
    (ik : κ) (t : Tree α) (ht : height t ≤ 128) :
    ∃ u, tapUpdate H tweak ik (some (depths t)) = some u ∧
      u.internalKey = ik ∧ u.merkleRoot = some (root H t) ∧ u.outputKey = tweak ik (some (root H t)) ∧
      (∀ it ∈ u.scripts, verifyPath H (H.leafHash it.leaf) it.merkleBranch = root H t ∧
        it.merkleBranch.length ≤ maxDepth) ∧
      u.scripts.map (fun it => (it.depth, it.leaf)) = depths t := by
  obtain ⟨items, hitems, hver⟩ := C15.controlBlock_verifies H hc t ht
  have hord := C15.leaves_order_depths H t ht
  rw [hitems] at hord
  simp only [Option.map_some, Option.some.injEq] at hord
  have hnodes := C15.nodes_all H t
  have hroot := C15.nodes_root H t
  rw [hnodes] at hroot
  simp only [Option.bind_some] at hroot
  refine ⟨⟨ik, some (root H t), items, tweak ik (some (root H t))⟩, ?_, rfl, rfl, rfl, hver, hord⟩
  simp only [tapUpdate, SpendInfo.fromTr, hnodes, hitems, hroot]

open MsVerif.Spec MsVerif.Tap in
/-- key-only taproot output: no root, no scripts, output key = internal key tweaked by "no root" -/
theorem tap_update_key_only {α ν κ ω : Type} (H : HashAlg α ν) (tweak : κ → Option ν → ω) (ik : κ) :
    tapUpdate H tweak ik (none : Option (TapTree α)) = some ⟨ik, none, [], tweak ik none⟩ := by
  simp [tapUpdate, SpendInfo.fromTr, merkleRootOf]

/-! ### non-vacuity -/

/-- real hash sizes are not needed for the example: a toy `Hashes` with the standard lengths -/
def HX : Hashes := ⟨fun b => List.replicate 32 (UInt8.ofNat b.length), fun b => List.replicate 20 (UInt8.ofNat b.length)⟩
theorem HX_sized : HX.WellSized := ⟨fun _ => by simp [HX], fun _ => by simp [HX]⟩
/-- one 33-byte key; `and_v(v:pk(K0), after(100))` -/
def keX : KeyEnv := ⟨fun _ => 2 :: List.replicate 32 7, fun _ => 2 :: List.replicate 32 7, fun _ => [], fun _ => [], fun _ _ => []⟩
def msX : Ms := .andV (.verify (.check (.pkK 0))) (.after 100)
def PX : Desc.Params := ⟨HX, keX, fun _ _ => List.replicate 32 0⟩

example : ∃ rs ws, updateScripts PX (.sh (.wsh msX)) = (some rs, some ws) ∧ rs = p2wsh (HX.sha256 ws) ∧
    (Desc.Desc.sh (.wsh msX)).scriptPubkey PX = p2sh (HX.hash160 rs) :=
  update_scripts_hash_to_spk PX HX_sized (.sh (.wsh msX))

/-- a local hash algebra with a commutative branch and a three-leaf tree -/
def sumAlgX : Spec.HashAlg Nat Nat := ⟨fun s => s + 1, fun a b => a + b⟩
theorem sumAlgX_comm : sumAlgX.Comm := fun a b => Nat.add_comm a b
def treeX : Spec.Tree Nat := .node (.leaf 1) (.node (.leaf 2) (.leaf 3))

example : ∃ u, tapUpdate sumAlgX (fun (k : Nat) r => (k, r)) 5 (some (Spec.Tree.depths treeX)) = some u ∧
    u.merkleRoot = some (Spec.Tree.root sumAlgX treeX) ∧ u.scripts.length = 3 := by
  obtain ⟨u, h1, _, h3, _, _, h6⟩ := tap_update_commits sumAlgX sumAlgX_comm (fun (k : Nat) r => (k, r)) 5 treeX (by decide)
  refine ⟨u, h1, h3, ?_⟩
  have := congrArg List.length h6
  simpa [treeX, Spec.Tree.depths, Spec.Tree.depthsFrom] using this

end MsVerif.C14c

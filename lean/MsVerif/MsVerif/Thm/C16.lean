/-
C16 — Descriptors map to the standard output scripts, addresses and derived keys.

Quantification: every theorem is for EVERY descriptor shape `d : Desc` (all wrappers of this
version, any miniscript, any tap tree), every key environment `P.env` and every pair of hash
functions `P.H` of the standard digest sizes (hence real SHA256 / HASH160); every network; every
derivation index `i : Nat`; every key form (`single`, `xpub` with any origin / path /
wildcard / hardened wildcard, `multi` with any number of alternatives); every key order.

Model ↔ Rust (Model/Descriptor.lean, Model/Keys.lean):
  Desc.scriptPubkey / address / explicitScript / scriptCode / unsignedScriptSig
      ↔ Descriptor::{script_pubkey, address, explicit_script, script_code, unsigned_script_sig}
  encode (.sortedMulti ..), sortKeys ↔ Terminal::encode + Threshold::into_sorted_bip67 (stable sort)
  KDesc.{atDerivationIndex, deriveAtIndex, intoDefinite, derivedDescriptor,
         findDerivationIndexForSpk, intoSingleDescriptors} ↔ the methods of the same names
Specification: Spec/Outputs.lean (byte templates), Spec/Address.lean + Spec/Base58.lean +
  Spec/Bech32m.lean (address strings), Spec/Bip341.lean (tagged hashes), Spec/Bip32.lean, Spec/KeyExpr.lean
  (`keyAt`: the key a key expression denotes at index i; `selectPath`: BIP389 alternative j).

Both former findings are fixed in /repo and the theorems are at full strength: sortedmulti
orders the compressed and the uncompressed form of one point deterministically (2f8a2bb0; T2
holds for every key list), `into_single_descriptors` rejects every arity mismatch (34f096f6; T4).
-/
import MsVerif.Lemmas.SortKeys
import MsVerif.Lemmas.OutputsSer
import MsVerif.Lemmas.DescKeys
import MsVerif.Lemmas.SortedAnywhere
import MsVerif.Lemmas.AddressLegacy
import MsVerif.Lemmas.TrLink
import MsVerif.Thm.C15

namespace MsVerif.C16
open MsVerif MsVerif.Script MsVerif.Outputs MsVerif.Desc MsVerif.Keys MsVerif.Bip32 MsVerif.KeyExpr
  MsVerif.Sorted

/-- the taproot output key is 32 bytes (x-only key) -/
def TrKeySized (P : Params) : Prop := ∀ ik leaves, (P.trOutputKey ik leaves).length = 32

/-! ## T1 — scriptPubKey, explicit script, script code, unsigned scriptSig, address -/

/-- T1: the scriptPubKey of every descriptor is the standard byte template of its output type
applied to what it commits to -/
theorem spk_is_template (P : Params) (hH : P.H.WellSized) (hk : TrKeySized P) (d : Desc) :
    d.scriptPubkey P = (d.toOutput P).scriptPubKey P.H := by
  cases d with
  | bare ms => rfl
  | pkh pk => exact ser_newP2pkh _ (hH.hash160_len _)
  | wpkh pk => exact ser_witness0_20 _ (hH.hash160_len _)
  | wsh ms => exact ser_witness0_32 _ (hH.sha256_len _)
  | tr ik leaves => exact ser_witness1_32 _ (hk _ _)
  | sh inner =>
    cases inner with
    | ms ms => exact ser_newP2sh _ (hH.hash160_len _)
    | wpkh pk =>
      simp only [Desc.scriptPubkey, shScriptPubkey, toP2sh, wpkhScriptPubkey, wpkhAddress,
        Payload.scriptPubkey, Desc.toOutput, Output.scriptPubKey]
      rw [ser_witness0_20 _ (hH.hash160_len _), ser_newP2sh _ (hH.hash160_len _)]
    | wsh ms =>
      simp only [Desc.scriptPubkey, shScriptPubkey, toP2sh, wshScriptPubkey, toP2wsh, wshInnerScript,
        Desc.toOutput, Output.scriptPubKey]
      rw [ser_witness0_32 _ (hH.sha256_len _), ser_newP2sh _ (hH.hash160_len _)]

/-- T1: `explicit_script` is the specification's explicit script (`Err` exactly for taproot) … -/
theorem explicit_script_is_spec (P : Params) (hH : P.H.WellSized) (d : Desc) :
    d.explicitScript P = (d.toOutput P).explicitScript P.H := by
  cases d with
  | bare ms => rfl
  | pkh pk =>
    simp only [Desc.explicitScript, pkhScriptPubkey, pkhAddress, Payload.scriptPubkey,
      Desc.toOutput, Output.explicitScript, ser_newP2pkh _ (hH.hash160_len _)]
  | wpkh pk =>
    simp only [Desc.explicitScript, wpkhScriptPubkey, wpkhAddress, Payload.scriptPubkey,
      Desc.toOutput, Output.explicitScript, ser_witness0_20 _ (hH.hash160_len _)]
  | wsh ms => rfl
  | tr ik leaves => rfl
  | sh inner =>
    cases inner with
    | ms ms => rfl
    | wpkh pk =>
      simp only [Desc.explicitScript, shInnerScript, wpkhScriptPubkey, wpkhAddress,
        Payload.scriptPubkey, Desc.toOutput, Output.explicitScript,
        ser_witness0_20 _ (hH.hash160_len _)]
    | wsh ms => rfl

/-- … and the scriptPubKey is the type's wrapping of the explicit script: identity for
bare/pkh/wpkh, P2SH of the redeem script, P2WSH of the witness script, P2SH-P2WSH -/
theorem explicit_script_consistent (P : Params) (hH : P.H.WellSized) (hk : TrKeySized P) (d : Desc)
    (s : Bytes) (hs : d.explicitScript P = some s) :
    d.scriptPubkey P = (d.toOutput P).wrap P.H s := by
  rw [spk_is_template P hH hk d]
  rw [explicit_script_is_spec P hH d] at hs
  revert hs
  cases d with
  | sh inner => cases inner <;> (simp only [Desc.toOutput, Output.explicitScript, Output.scriptPubKey,
      Output.wrap, Option.some.injEq]; rintro rfl; rfl)
  | _ => simp only [Desc.toOutput, Output.explicitScript, Output.scriptPubKey, Output.wrap,
      Option.some.injEq, reduceCtorEq, false_implies] <;> (try (rintro rfl; rfl))

/-- T1: `script_code` is the BIP143 / legacy script code of the output type -/
theorem script_code_is_bip143 (P : Params) (hH : P.H.WellSized) (d : Desc) :
    d.scriptCode P = (d.toOutput P).scriptCode P.H := by
  cases d with
  | bare ms => rfl
  | pkh pk =>
    simp only [Desc.scriptCode, pkhScriptCode, pkhScriptPubkey, pkhAddress, Payload.scriptPubkey,
      Desc.toOutput, Output.scriptCode, ser_newP2pkh _ (hH.hash160_len _)]
  | wpkh pk =>
    simp only [Desc.scriptCode, wpkhScriptCode, pkhAddress, Payload.scriptPubkey,
      Desc.toOutput, Output.scriptCode, ser_newP2pkh _ (hH.hash160_len _)]
  | wsh ms => rfl
  | tr ik leaves => rfl
  | sh inner =>
    cases inner with
    | ms ms => rfl
    | wpkh pk =>
      simp only [Desc.scriptCode, shScriptCode, wpkhScriptCode, pkhAddress, Payload.scriptPubkey,
        Desc.toOutput, Output.scriptCode, ser_newP2pkh _ (hH.hash160_len _)]
    | wsh ms => rfl

/-- T1: the scriptSig of an unsigned input is the single push of the redeem script for nested
segwit and empty otherwise -/
theorem unsigned_script_sig_correct (P : Params) (hH : P.H.WellSized) (d : Desc) :
    d.unsignedScriptSig P = (d.toOutput P).unsignedScriptSig P.H := by
  cases d with
  | sh inner =>
    cases inner with
    | ms ms => rfl
    | wpkh pk =>
      simp only [Desc.unsignedScriptSig, shUnsignedScriptSig, wpkhScriptPubkey, wpkhAddress,
        Payload.scriptPubkey, Desc.toOutput, Output.unsignedScriptSig]
      rw [ser_witness0_20 _ (hH.hash160_len _),
        pushSlice_22 _ (p2wpkh_length _ (hH.hash160_len _))]
    | wsh ms =>
      simp only [Desc.unsignedScriptSig, shUnsignedScriptSig, toP2wsh, wshInnerScript,
        Desc.toOutput, Output.unsignedScriptSig]
      rw [ser_witness0_32 _ (hH.sha256_len _), pushSlice_34 _ (p2wsh_length _ (hH.sha256_len _))]
  | _ => rfl

/-- T1: on EVERY network the address exists exactly for the non-bare types, carries that
network, and its scriptPubKey is the descriptor's scriptPubKey -/
theorem address_agrees_on_every_network (P : Params) (net : Network) (d : Desc) :
    (d.address P net).map (fun a => (a.1, a.2.scriptPubkey)) =
      if (d.toOutput P).hasAddress then some (net, d.scriptPubkey P) else none := by
  cases d with
  | sh inner => cases inner <;> rfl
  | _ => rfl

/-- T1: the accessors agree with each other — the script code is the explicit script except
for (nested) P2WPKH where it is the P2PKH script of the same key -/
theorem script_code_vs_explicit (P : Params) (d : Desc) :
    (match d with
     | .wpkh pk | .sh (.wpkh pk) => d.scriptCode P = some (pkhScriptPubkey P pk)
     | _ => d.scriptCode P = d.explicitScript P) := by
  cases d with
  | sh inner => cases inner <;> rfl
  | _ => rfl

example : (Desc.sh (.wpkh 7)).unsignedScriptSig ⟨⟨fun _ => List.replicate 32 0, fun _ => List.replicate 20 7⟩,
    ⟨fun _ => [2], fun _ => [], fun _ => [], fun _ => [], fun _ _ => []⟩, fun _ _ => []⟩
    = 0x16 :: 0x00 :: 0x14 :: List.replicate 20 7 := by decide

/-! ## T1 — address STRINGS on every network, and the real hash functions -/

/-- the hypothesis `Hashes.WellSized` of T1 holds for the real SHA256 / HASH160 (Spec/Hash.lean) -/
theorem real_hashes_well_sized : (⟨Hash.sha256, Hash.hash160⟩ : Hashes).WellSized :=
  ⟨Address.sha256_length, Address.hash160_length⟩

/-- T1: on every network (mainnet, testnet3, testnet4, signet, regtest) the address string
`Descriptor::address(net).to_string()` is the standard address of the output the descriptor
commits to: Base58Check with the network's version byte for pkh / sh / sh(wpkh) / sh(wsh),
Bech32 (v0) for wpkh / wsh, Bech32m (v1) for tr, none for bare -/
theorem address_string_is_standard (P : Params) (hH : P.H.WellSized) (net : Network) (d : Desc) :
    d.addressString P net = Address.addressOfOutput P.H net.toSpec (d.toOutput P) := by
  cases d with
  | sh inner =>
    cases inner with
    | ms ms => rfl
    | wpkh pk =>
      simp only [Desc.addressString, Desc.address, shAddress, wpkhScriptPubkey, wpkhAddress,
        Payload.scriptPubkey, Option.map_some, Payload.toString, Desc.toOutput,
        Address.addressOfOutput, ser_witness0_20 _ (hH.hash160_len _)]
    | wsh ms =>
      simp only [Desc.addressString, Desc.address, shAddress, wshScriptPubkey, toP2wsh,
        wshInnerScript, Option.map_some, Payload.toString, Desc.toOutput,
        Address.addressOfOutput, ser_witness0_32 _ (hH.sha256_len _)]
  | _ => rfl

/-- T1: every legacy address string DECODES (Base58 alphabet, checksum = first four bytes of
SHA256d, version byte) to the network class, the kind and a 20-byte hash whose standard template
is the descriptor's scriptPubKey — string, payload and scriptPubKey agree on every network -/
theorem legacy_address_roundtrip (P : Params) (hH : P.H.WellSized) (hk : TrKeySized P)
    (net : Network) (d : Desc) :
    match d.toOutput P with
    | .pkh _ => ∃ s h, d.addressString P net = some s ∧
        Address.decodeLegacy s = some (net.toSpec.cls, .p2pkh, h) ∧ d.scriptPubkey P = p2pkh h
    | .sh _ | .shWpkh _ | .shWsh _ => ∃ s h, d.addressString P net = some s ∧
        Address.decodeLegacy s = some (net.toSpec.cls, .p2sh, h) ∧ d.scriptPubkey P = p2sh h
    | _ => True := by
  have hs := address_string_is_standard P hH net d
  have hspk := spk_is_template P hH hk d
  revert hs hspk
  cases d with
  | sh inner =>
    cases inner <;>
      (simp only [Desc.toOutput, Address.addressOfOutput, Output.scriptPubKey]
       intro hs hspk
       exact ⟨_, _, hs, Address.decodeLegacy_p2sh _ _ (hH.hash160_len _), hspk⟩)
  | pkh pk =>
    simp only [Desc.toOutput, Address.addressOfOutput, Output.scriptPubKey]
    intro hs hspk
    exact ⟨_, _, hs, Address.decodeLegacy_p2pkh _ _ (hH.hash160_len _), hspk⟩
  | _ => simp [Desc.toOutput]

/-- the corresponding statement for segwit addresses — the Bech32 / Bech32m string of every
witness program decodes back (`Address.decodeSegwit`: charset, checksum, regrouping, padding) —
is OPEN as a theorem: it needs the BCH linearity of `polymod` (the checksum of an own encoding
verifies) and the inverse of the 8↔5 bit regrouping.  It is checked by `#guard` on the BIP173 /
BIP350 vectors and on all five networks (Spec/Address.lean), and on every run the library's
address strings are decoded by the Lean decoder (`J addrspec`). -/
def segwit_address_roundtrip_full : Prop :=
  ∀ (net : Address.Net) (witver : Nat) (prog : List UInt8), witver ≤ 16 →
    (2 ≤ prog.length ∧ prog.length ≤ 40) → (witver = 0 → prog.length = 20 ∨ prog.length = 32) →
    Address.decodeSegwit (Address.segwitString net witver prog) = some (net.hrp, witver, prog)

/-! ## T1 — taproot: the scriptPubKey commits to the Merkle root of C15 -/

/-- T1/tr: for every tap tree `t` of miniscripts the scriptPubKey of `tr(ik, t)` is
`51 20 ‖ tweak(ik, root)` where `root` is the BIP341 Merkle root — real tagged SHA-256
(`Bip341.alg`) — of the tree of the leaves' scripts, exactly the root property C15 proves
`TrSpendInfo::from_tr` to compute; for `tr(ik)` it is the tweak by no root.  The elliptic-curve
tweak is the only oracle (`hP`: the output key parameter is `spend_info().output_key()` of the
C15 model; `hk`: x-only keys are 32 bytes). -/
theorem tr_spk_commits_to_merkle_root (P : Params) (tweak : Bytes → Option Bytes → Bytes)
    (hP : P.TrKeyFromSpendInfo Bip341.alg tweak) (hk : ∀ ik r, (tweak ik r).length = 32)
    (ik : Key) (t : Spec.Tree Ms) :
    (Desc.tr ik (Spec.Tree.depths t)).scriptPubkey P =
      p2tr (tweak (P.env.ser ik)
        (some (Spec.Tree.root Bip341.alg (treeMap (encodeBytes P.env .tap) t)))) ∧
    (Desc.tr ik []).scriptPubkey P = p2tr (tweak (P.env.ser ik) none) := by
  constructor
  · have h := (C15.outputKey_commits Bip341.alg tweak (P.env.ser ik)
      (treeMap (encodeBytes P.env .tap) t)).1
    rw [← trLeafScripts_depths] at h
    cases hsi : Tap.SpendInfo.fromTr Bip341.alg tweak (P.env.ser ik)
        (some (trLeafScripts P (Spec.Tree.depths t))) with
    | none => rw [hsi] at h; cases h
    | some si =>
      rw [hsi] at h
      simp only [Option.map_some, Option.some.injEq] at h
      have := hP ik (Spec.Tree.depths t) si (by
        simp only [trSpendInfo, depths_isEmpty, Bool.false_eq_true, if_false]; exact hsi)
      simp only [Desc.scriptPubkey, trScriptPubkey, this, h]
      exact ser_witness1_32 _ (hk _ _)
  · have h := (C15.outputKey_commits Bip341.alg tweak (P.env.ser ik)
      (Spec.Tree.leaf ([] : Bytes))).2
    cases hsi : Tap.SpendInfo.fromTr Bip341.alg tweak (P.env.ser ik)
        (none : Option (Tap.TapTree Bytes)) with
    | none => rw [hsi] at h; cases h
    | some si =>
      rw [hsi] at h
      simp only [Option.map_some, Option.some.injEq] at h
      have := hP ik [] si (by simpa [trSpendInfo] using hsi)
      simp only [trLeafScripts, List.map_nil] at this
      simp only [Desc.scriptPubkey, trScriptPubkey, trLeafScripts, List.map_nil, this, h]
      exact ser_witness1_32 _ (hk _ _)

/-- T1/tr: scriptPubKey, script tree and control blocks agree with each other: for a tree of
height ≤ 128, every control block the spend info yields (C15) makes BIP341's script-path
computation arrive at the SAME root the scriptPubKey's output key is tweaked with -/
theorem tr_spk_and_control_blocks_agree (P : Params) (tweak : Bytes → Option Bytes → Bytes)
    (hP : P.TrKeyFromSpendInfo Bip341.alg tweak) (hk : ∀ ik r, (tweak ik r).length = 32)
    (ik : Key) (t : Spec.Tree Ms) (ht : Spec.Tree.height t ≤ 128) :
    ∃ root items,
      (Desc.tr ik (Spec.Tree.depths t)).scriptPubkey P = p2tr (tweak (P.env.ser ik) (some root)) ∧
      Tap.spendLeaves Bip341.alg (trLeafScripts P (Spec.Tree.depths t)) = some items ∧
      ∀ it ∈ items, ∀ (odd : Bool) (ikb : Bytes),
        Bip341.committedRoot ⟨Bip341.tapscriptVersion, odd, ikb, it.merkleBranch⟩ it.leaf = root := by
  obtain ⟨items, h1, _, h3⟩ := C15.controlBlock_verifies_bip341
    (treeMap (encodeBytes P.env .tap) t) (by rw [height_treeMap]; exact ht)
  refine ⟨_, items, (tr_spk_commits_to_merkle_root P tweak hP hk ik t).1, ?_, ?_⟩
  · rw [trLeafScripts_depths]; exact h1
  · intro it hit odd ikb; exact (h3 it hit odd ikb).1

/-- the hypothesis `TrKeyFromSpendInfo` is satisfiable: take the output key FROM the model -/
example (H : Hashes) (env : KeyEnv) (tweak : Bytes → Option Bytes → Bytes) :
    ∃ P : Params, P.H = H ∧ P.env = env ∧ P.TrKeyFromSpendInfo Bip341.alg tweak := by
  let f : Key → List (Nat × Bytes) → Bytes := fun ik scripts =>
    match Tap.SpendInfo.fromTr Bip341.alg tweak (env.ser ik)
        (if scripts.isEmpty then none else some scripts) with
    | some si => si.outputKey
    | none => []
  refine ⟨⟨H, env, f⟩, rfl, rfl, ?_⟩
  intro ik leaves si hsi
  have hemp : (trLeafScripts ⟨H, env, f⟩ leaves).isEmpty = leaves.isEmpty := by
    simp [trLeafScripts]
  simp only [trSpendInfo] at hsi
  show f ik (trLeafScripts ⟨H, env, f⟩ leaves) = si.outputKey
  simp only [f, hemp, hsi]

/-- a two-leaf tree `{and_v(v:pk(1),older(144)), pk(2)}` of height 1 -/
example : Spec.Tree.height (Spec.Tree.node
    (.leaf (Ms.andV (.verify (.check (.pkK 1))) (.older 144))) (.leaf (Ms.check (.pkK 2)))) ≤ 128 := by
  decide

/-! ## T2 — sorted multisig does not depend on the listing order -/

/-- T2, full strength: in every key environment whose sort key determines the pushed
serialisation (`SortKeyFaithful`; the real ECDSA key `(compressed encoding, !compressed)` and the
x-only key do, see `sort_key_of_the_code_is_faithful`) the script of `sortedmulti(k, ks)` is
invariant under EVERY permutation of EVERY key list `ks` — repeated keys and the same point in
compressed and uncompressed form included -/
theorem sortedmulti_perm_invariant (env : KeyEnv) (hf : SortKeyFaithful env) (ctx : Ctx) (k : Nat)
    (ks ks' : List Key) (hp : ks.Perm ks') :
    encode env ctx (.sortedMulti k ks) = encode env ctx (.sortedMulti k ks') := by
  simp only [encode]
  have h := sortKeys_map_perm_invariant env (fun pk => Op.push (env.ser pk)) ks ks' hp
    (fun x _ y _ hxy => by simp only [hf x y hxy])
  rw [h, hp.length_eq]

/-- T2 for tapscript `sortedmulti_a` -/
theorem sortedmulti_a_perm_invariant (env : KeyEnv) (hf : SortKeyFaithful env) (ctx : Ctx) (k : Nat)
    (ks ks' : List Key) (hp : ks.Perm ks') :
    encode env ctx (.sortedMultiA k ks) = encode env ctx (.sortedMultiA k ks') := by
  simp only [encode, encodeMultiA_eq]
  rw [sortKeys_map_perm_invariant env env.ser ks ks' hp (fun x _ y _ hxy => hf x y hxy)]

/-- the sort keys of the code satisfy the hypothesis of T2: for ECDSA keys (every key a curve
point pushed compressed or uncompressed, sort key = `bip67_sort_key` = compressed encoding then
`!compressed`; the compressed encoding identifies the point), and for x-only keys (sort key = the
pushed 32 bytes) -/
theorem sort_key_of_the_code_is_faithful (env : KeyEnv) :
    (∀ (point : Key → Nat) (compressed : Key → Bool) (serC serU : Nat → Bytes),
      (∀ p q, serC p = serC q → p = q) →
      (∀ k, env.ser k = if compressed k then serC (point k) else serU (point k)) →
      (∀ k, env.sortKey k = bip67SortKey (serC (point k)) (compressed k)) → SortKeyFaithful env) ∧
    ((∀ k, env.sortKey k = env.ser k) → SortKeyFaithful env) :=
  ⟨fun point compressed serC serU hinj hser hsort =>
    faithful_of_bip67 env point compressed serC serU hinj hser hsort, faithful_of_xonly env⟩

/-- the byte string standing for `bip67_sort_key`'s tuple orders like the tuple: by the
compressed encoding, and compressed before uncompressed on a tie -/
theorem bip67_sort_key_order (a b : Bytes) (ca cb : Bool) (h : a.length = b.length) :
    bytesLe (bip67SortKey a ca) (bip67SortKey b cb) = true ↔
      (a ≠ b ∧ bytesLe a b = true) ∨ (a = b ∧ (ca = true ∨ cb = false)) :=
  bip67SortKey_le_iff a b ca cb h

/-- T2: the keys are pushed in sort-key order: the script is that of a plain `multi` over the
sorted list, which is sorted (ascending sort keys) and a permutation of the input -/
theorem sortedmulti_is_multi_of_sorted (env : KeyEnv) (ctx : Ctx) (k : Nat) (ks : List Key) :
    encode env ctx (.sortedMulti k ks) = encode env ctx (.multi k (sortKeys env ks)) ∧
    encode env ctx (.sortedMultiA k ks) = encode env ctx (.multiA k (sortKeys env ks)) ∧
    (sortKeys env ks).Perm ks ∧
    (sortKeys env ks).Pairwise (fun a b => bytesLe (env.sortKey a) (env.sortKey b) = true) := by
  refine ⟨?_, ?_, sortKeys_perm env ks, sortKeys_sorted env ks⟩
  · simp only [encode, sortKeys_length]
  · simp only [encode]

/-- T2: a sorted multisig ANYWHERE inside a miniscript (`sortedmulti` is a fragment in this
version: `wsh(and_v(v:sortedmulti(..),pk(K)))` is accepted): re-listing its keys in another
order at every occurrence leaves the whole script unchanged -/
theorem sortedmulti_anywhere_perm_invariant (env : KeyEnv) (hf : SortKeyFaithful env) (ctx : Ctx)
    (m : Ms) (k : Nat) (ks ks' : List Key) (hp : ks.Perm ks') :
    encode env ctx (replaceMs (.sortedMulti k ks) (.sortedMulti k ks') m) = encode env ctx m ∧
    encode env ctx (replaceMs (.sortedMultiA k ks) (.sortedMultiA k ks') m) = encode env ctx m :=
  ⟨encode_replaceMs env ctx _ _ (sortedmulti_perm_invariant env hf ctx k ks ks' hp) m,
   encode_replaceMs env ctx _ _ (sortedmulti_a_perm_invariant env hf ctx k ks ks' hp) m⟩

example : replaceMs (.sortedMulti 1 [1, 2]) (.sortedMulti 1 [2, 1])
    (.andV (.verify (.sortedMulti 1 [1, 2])) (.check (.pkK 3))) =
    .andV (.verify (.sortedMulti 1 [2, 1])) (.check (.pkK 3)) := by decide

/-- regression (former finding, fixed in /repo 2f8a2bb0): atoms 5 and 105 are ONE point listed
compressed and uncompressed (`sh(sortedmulti(1,A,A_uncompressed))`).  With the sort key of the
code — compressed encoding `[9]` for both, then the flag — both listing orders give the same
script, compressed key first. -/
example :
    let env : KeyEnv := ⟨fun k => [UInt8.ofNat k], fun k => bip67SortKey [9] (decide (k < 100)),
      fun _ => [], fun _ => [], fun _ _ => []⟩
    encode env .legacy (.sortedMulti 1 [5, 105]) = encode env .legacy (.sortedMulti 1 [105, 5]) ∧
    encode env .legacy (.sortedMulti 1 [105, 5]) =
      [.small 1, .push [5], .push [105], .small 2, .code .checkmultisig] := by decide

/-- why the flag is part of the sort key: with the OLD key (compressed encoding only) the same two
atoms compare equal, the stable sort keeps the listing order and the script depends on it; such
an environment is not `SortKeyFaithful` -/
theorem sort_key_without_flag_is_order_dependent :
    ∃ env : KeyEnv, ¬ SortKeyFaithful env ∧
      encode env .legacy (.sortedMulti 1 [5, 105]) ≠ encode env .legacy (.sortedMulti 1 [105, 5]) := by
  refine ⟨⟨fun k => [UInt8.ofNat k], fun _ => [9], fun _ => [], fun _ => [], fun _ _ => []⟩, ?_, by decide⟩
  intro h
  have := h 5 105 rfl
  revert this
  decide

/-- T2 at descriptor level: every wrapper of a sorted multisig has an order-independent
scriptPubKey (`wsh`, `sh`, `sh(wsh)`), for all hash functions -/
theorem sortedmulti_spk_perm_invariant (P : Params) (hf : SortKeyFaithful P.env) (k : Nat)
    (ks ks' : List Key) (hp : ks.Perm ks') :
    (Desc.wsh (.sortedMulti k ks)).scriptPubkey P = (Desc.wsh (.sortedMulti k ks')).scriptPubkey P ∧
    (Desc.sh (.ms (.sortedMulti k ks))).scriptPubkey P = (Desc.sh (.ms (.sortedMulti k ks'))).scriptPubkey P ∧
    (Desc.sh (.wsh (.sortedMulti k ks))).scriptPubkey P = (Desc.sh (.wsh (.sortedMulti k ks'))).scriptPubkey P := by
  simp only [Desc.scriptPubkey, wshScriptPubkey, wshInnerScript, shScriptPubkey, encodeBytes,
    sortedmulti_perm_invariant P.env hf _ k ks ks' hp, and_self]

/-- T2 in taproot: a `sortedmulti_a` leaf anywhere in the tree -/
theorem sortedmulti_a_tr_spk_perm_invariant (P : Params) (hf : SortKeyFaithful P.env) (ik : Key)
    (pre post : List (Nat × Ms)) (depth k : Nat) (ks ks' : List Key) (hp : ks.Perm ks') :
    (Desc.tr ik (pre ++ (depth, .sortedMultiA k ks) :: post)).scriptPubkey P =
    (Desc.tr ik (pre ++ (depth, .sortedMultiA k ks') :: post)).scriptPubkey P := by
  simp only [Desc.scriptPubkey, trScriptPubkey, trLeafScripts, List.map_append, List.map_cons,
    encodeBytes, sortedmulti_a_perm_invariant P.env hf _ k ks ks' hp]

/-- T2, satisfier: signatures are chosen exactly as for `multi` over the SORTED key list, so
they line up with the keys of the script -/
theorem satisfier_follows_sorted_order (c : SatCfg) (k : Nat) (ks : List Key) :
    satDissat c (.sortedMulti k ks) = satDissat c (.multi k (sortKeys c.env ks)) ∧
    satDissat c (.sortedMultiA k ks) = satDissat c (.multiA k (sortKeys c.env ks)) := by
  constructor <;> simp only [satDissat, sortKeys'_eq]

/-- T2, satisfier: with pairwise distinct sort keys the satisfaction does not depend on the
listing order either -/
theorem satisfier_perm_invariant (c : SatCfg) (k : Nat) (ks ks' : List Key) (hp : ks.Perm ks')
    (hinj : ∀ x ∈ ks, ∀ y ∈ ks, c.env.sortKey x = c.env.sortKey y → x = y) :
    satDissat c (.sortedMulti k ks) = satDissat c (.sortedMulti k ks') ∧
    satDissat c (.sortedMultiA k ks) = satDissat c (.sortedMultiA k ks') := by
  constructor <;>
    simp only [satDissat, sortKeys'_eq, sortKeys_perm_invariant c.env ks ks' hp hinj]

example : encode ⟨fun k => [UInt8.ofNat k], fun k => [UInt8.ofNat (255 - k)], fun _ => [], fun _ => [], fun _ _ => []⟩
    .segwitv0 (.sortedMulti 2 [3, 1, 2]) =
    [.small 2, .push [3], .push [2], .push [1], .small 3, .code .checkmultisig] := by decide

/-! ## T3 — derivation commutes with the descriptor structure -/

variable {X P : Type}

/-- T3 (key level): `at_derivation_index` + `derive_public_key` yield exactly the key the
expression denotes at `i` by independent BIP32 public derivation (`keyAt`: fold of `CKDpub` over
`path ++ [i if wildcard]`), never hit an `unreachable!()`, and fail exactly when there is no such
key, with `Multipath` for a multipath key and `HardenedStep` otherwise -/
theorem key_derivation_is_bip32 (ckd : X → Nat → X) (k : DPK X P) (i : Nat) :
    match k.atDerivationIndex i with
    | .ok k' => k'.IsDefinite ∧ keyAt ckd k i = some (derivePublicKey ckd k') ∧
        derivePublicKey ckd k' ≠ .panic
    | .error e => keyAt ckd k i = none ∧ e = keyErrAt k :=
  atDerivationIndex_spec ckd k i

/-- T3 (key level): the exact failure condition of public derivation at index `i` —
multipath key, a hardened step in the path, a hardened wildcard, or a wildcard with `i ≥ 2³¹` -/
theorem key_derivation_fails_iff (ckd : X → Nat → X) (k : DPK X P) (i : Nat) :
    (∃ e, k.atDerivationIndex i = .error e) ↔
      (k.isMultipath = true ∨ k.hasHardenedStep = true ∨
        (∃ o x p, k = .xpub o x p .hardened) ∨ (k.hasWildcard = true ∧ indexLimit ≤ i)) := by
  have h : (∃ e, k.atDerivationIndex i = .error e) ↔ keyAt ckd k i = none := by
    constructor
    · rintro ⟨e, he⟩; exact ((atDerivationIndex_error_iff ckd k i e).mp he).1
    · intro hn; exact ⟨_, (atDerivationIndex_error_iff ckd k i _).mpr ⟨hn, rfl⟩⟩
  rw [h]
  cases k with
  | single o key => simp [keyAt, DPK.isMultipath, DPK.hasHardenedStep, DPK.hasWildcard]
  | multi o x paths wc => simp [keyAt, DPK.isMultipath]
  | xpub o x path wc =>
    have hp : ∀ p : List Child, (derivePath ckd x p = none) ↔ p.any Child.isHardened = true := by
      intro p
      have := derivePath_isSome_iff ckd x p
      cases hd : derivePath ckd x p <;> cases ha : p.any Child.isHardened <;> simp_all
    cases wc with
    | none => simp [keyAt, DPK.isMultipath, DPK.hasHardenedStep, DPK.hasWildcard, hp]
    | hardened => simp [keyAt, DPK.isMultipath, DPK.hasHardenedStep, DPK.hasWildcard]
    | unhardened =>
      by_cases hi : i < indexLimit
      · have : ¬ indexLimit ≤ i := by omega
        simp [keyAt, DPK.isMultipath, DPK.hasHardenedStep, DPK.hasWildcard, hp, hi, this,
          Child.isHardened]
      · have : indexLimit ≤ i := by omega
        simp [keyAt, DPK.isMultipath, DPK.hasHardenedStep, DPK.hasWildcard, hi, this]

/-- T3: `derived_descriptor(index)` = the SAME shape with every key replaced by the key it
denotes at `index` (`mapKeys (keyAt · index)`), unless some key has no public derivation, in
which case the error is that of the first such key in `translate_pk` order -/
theorem derive_commutes (ckd : X → Nat → X) (d : KDesc (DPK X P)) (i : Nat) :
    d.derivedDescriptor ckd i =
      match firstError (fun k => k.atDerivationIndex i) d.keysTranslate with
      | some e => .error e
      | none => .ok ⟨d.shape, fun a => (d.key a).bind (keyAt ckd · i)⟩ :=
  derivedDescriptor_eq ckd d i

/-- T3: success condition, exact: every key of the descriptor has a key at `index` -/
theorem derive_succeeds_iff (ckd : X → Nat → X) (d : KDesc (DPK X P)) (i : Nat) :
    (∃ r, d.derivedDescriptor ckd i = .ok r) ↔ ∀ k ∈ d.keysPre, (keyAt ckd k i).isSome := by
  rw [derive_commutes]
  cases hf : firstError (fun k => k.atDerivationIndex i) d.keysTranslate with
  | none =>
    simp only [Except.ok.injEq, exists_eq', true_iff]
    intro k hk
    exact (atDerivationIndex_ok_iff ckd k i).mp
      ((firstError_none_iff _ _).mp hf k ((d.mem_keysTranslate_iff k).mpr hk))
  | some e =>
    simp only [reduceCtorEq, exists_false, false_iff]
    intro hall
    obtain ⟨pre, k, post, hl, _, hk⟩ := (firstError_some_iff _ _ _).mp hf
    have hm : k ∈ d.keysPre := (d.mem_keysTranslate_iff k).mp (by simp [hl])
    have := ((atDerivationIndex_error_iff ckd k i e).mp hk).1
    exact absurd (hall k hm) (by simp [this])

/-- T3: when it succeeds, the key standing at every atom of the result is `keyAt` of the key
that stood there — derivation commutes with the descriptor structure -/
theorem derived_keys_are_bip32 (ckd : X → Nat → X) (d : KDesc (DPK X P)) (i : Nat)
    (r : KDesc (Derived X P)) (h : d.derivedDescriptor ckd i = .ok r) :
    r.shape = d.shape ∧ ∀ a k, d.key a = some k → r.key a = keyAt ckd k i := by
  rw [derive_commutes] at h
  split at h
  · cases h
  · cases h
    exact ⟨rfl, fun a k hk => by simp [hk]⟩

/-- T3: the error kind, exact: `Multipath` / `HardenedStep` of the first key (in translate
order) that has no public derivation at `index` -/
theorem derive_error_iff (ckd : X → Nat → X) (d : KDesc (DPK X P)) (i : Nat) (e : KeyErr) :
    d.derivedDescriptor ckd i = .error e ↔
      ∃ pre k post, d.keysTranslate = pre ++ k :: post ∧
        (∀ k' ∈ pre, (keyAt ckd k' i).isSome) ∧ keyAt ckd k i = none ∧ e = keyErrAt k := by
  rw [derive_commutes]
  cases hf : firstError (fun k => k.atDerivationIndex i) d.keysTranslate with
  | none =>
    simp only [reduceCtorEq, false_iff]
    rintro ⟨pre, k, post, hl, _, hk, _⟩
    obtain ⟨r, hr⟩ := (firstError_none_iff _ _).mp hf k (by simp [hl])
    have := (atDerivationIndex_ok_iff ckd k i).mp ⟨r, hr⟩
    simp [hk] at this
  | some e' =>
    simp only [Except.error.injEq]
    constructor
    · rintro rfl
      obtain ⟨pre, k, post, hl, hpre, hk⟩ := (firstError_some_iff _ _ _).mp hf
      exact ⟨pre, k, post, hl, fun k' hk' => (atDerivationIndex_ok_iff ckd k' i).mp (hpre k' hk'),
        (atDerivationIndex_error_iff ckd k i e').mp hk⟩
    · rintro ⟨pre, k, post, hl, hpre, hk, he⟩
      have : firstError (fun k => k.atDerivationIndex i) d.keysTranslate = some e :=
        (firstError_some_iff _ _ _).mpr ⟨pre, k, post, hl,
          fun k' hk' => (atDerivationIndex_ok_iff ckd k' i).mpr (hpre k' hk'),
          (atDerivationIndex_error_iff ckd k i e).mpr ⟨hk, he⟩⟩
      rw [hf] at this
      exact Option.some.inj this

/-- T3: `derive_at_index` insists on a wildcard: without one it is `NoWildcard` (the caller
falls back to `into_definite`); with one it is `at_derivation_index` -/
theorem derive_at_index_wildcard_gate (d : KDesc (DPK X P)) (i : Nat) :
    (d.hasWildcard = false → (d.deriveAtIndex i).intoResult = .error .noWildcard) ∧
    (d.hasWildcard = true → (d.deriveAtIndex i).intoResult = d.atDerivationIndex i) := by
  constructor
  · intro h; simp [KDesc.deriveAtIndex, h, DerivationResult.intoResult]
  · intro h
    simp only [KDesc.deriveAtIndex, h, Bool.not_true, Bool.false_eq_true, if_false]
    cases d.atDerivationIndex i <;> rfl

example : keyAt (fun (x : List Nat) i => x ++ [i]) (DPK.xpub (P := Nat) none [] [.normal 0, .normal 1] .unhardened) 7
    = some (.ofXpub [0, 1, 7]) := by decide

/-- a concrete two-key descriptor `wsh(and_v(v:pk(X/0/*),pk(S5)))` (hypotheses of T3–T5 are
satisfiable): derived at index 7 it is the same shape over `X/0/7` and `S5` -/
example :
    (match (KDesc.mk (Desc.wsh (.andV (.verify (.check (.pkK 0))) (.check (.pkK 1))))
        (fun a => if a = 0 then some (DPK.xpub (P := Nat) none ([] : List Nat) [.normal 0] .unhardened)
                  else if a = 1 then some (.single none 5) else none)).derivedDescriptor
        (fun x i => x ++ [i]) 7 with
     | .ok r => (r.key 0, r.key 1)
     | .error _ => (none, none)) = (some (.ofXpub [0, 7]), some (.single 5)) := by decide

example :
    (KDesc.mk (Desc.wsh (.check (.pkK 0)))
      (fun a => if a = 0 then some (DPK.xpub (P := Nat) none ([] : List Nat) [] .unhardened) else none)).hasWildcard
      = true := by decide

/-- T3, guards spelled out: a key has a public derivation at `index` exactly when it is not a
multipath key, has no hardened step, no hardened wildcard and — with a wildcard — `index < 2³¹` -/
theorem key_derivable_iff_guards (ckd : X → Nat → X) (k : DPK X P) (i : Nat) :
    (∃ r, k.atDerivationIndex i = .ok r) ↔ PubliclyDerivableAt k i := by
  rw [atDerivationIndex_ok_iff ckd, keyAt_isSome_iff]

/-- T3: the key a wildcard xpub `[origin]xpub/c₁/…/cₙ/*` (ANY origin, ANY number of steps)
denotes at `index` is `CKDpub` folded over `c₁ … cₙ, index` — the independent BIP32 derivation
along `path ++ [index]` -/
theorem wildcard_xpub_is_ckd_fold (ckd : X → Nat → X) (o : Option Origin) (x : X)
    (path : List Child) (idx : List Nat) (hidx : normalIndices path = some idx) (i : Nat)
    (hi : i < indexLimit) :
    keyAt ckd (DPK.xpub (P := P) o x path .unhardened) i =
      some (.ofXpub ((idx ++ [i]).foldl ckd x)) :=
  keyAt_wildcard_xpub ckd o x path idx hidx i hi

/-- T3 for `derive_at_index` + `derived_descriptor`: whenever `derive_at_index(index)` succeeds,
the descriptor has a wildcard, EVERY key passes the guards (no multipath key, no hardened step,
no hardened wildcard, `index < 2³¹` for wildcard keys), the shape is unchanged, and the public
key derived for every key is the one independent BIP32 derivation gives at the same index -/
theorem derive_at_index_is_independent_bip32 (ckd : X → Nat → X) (d : KDesc (DPK X P)) (i : Nat)
    (r : KDesc (DPK X P)) (h : (d.deriveAtIndex i).intoResult = .ok r) :
    d.hasWildcard = true ∧ r.shape = d.shape ∧
    (∀ k ∈ d.keysPre, PubliclyDerivableAt k i) ∧
    (∀ a k, d.key a = some k → (r.key a).map (derivePublicKey ckd) = keyAt ckd k i) := by
  have hw : d.hasWildcard = true := by
    cases hw : d.hasWildcard with
    | true => rfl
    | false => rw [(derive_at_index_wildcard_gate d i).1 hw] at h; cases h
  rw [(derive_at_index_wildcard_gate d i).2 hw] at h
  unfold KDesc.atDerivationIndex KDesc.translate at h
  cases hf : firstError (fun k => k.atDerivationIndex i) d.keysTranslate with
  | some e => rw [hf] at h; cases h
  | none =>
    rw [hf] at h
    cases h
    refine ⟨hw, rfl, ?_, ?_⟩
    · intro k hk
      exact (key_derivable_iff_guards ckd k i).mp
        ((firstError_none_iff _ _).mp hf k ((d.mem_keysTranslate_iff k).mpr hk))
    · intro a k hk
      have := atDerivationIndex_toOption ckd k i
      simp only [hk, Option.bind_some]
      cases hk' : k.atDerivationIndex i with
      | ok k' => simpa [hk', Except.map, Except.toOption] using this
      | error e => simpa [hk', Except.map, Except.toOption] using this

/-- non-vacuity with an ORIGIN and a TWO-STEP path: `wsh(and_v(v:pk([f7/44h/0]X/1/2/*),pk(S5)))`.
At index 9 the first key is `CKDpub` folded along 1, 2, 9 (here: the list of indices walked),
the search over `5..12` for that script finds exactly index 9, and index 2³¹ is refused. -/
example :
    let d : KDesc (DPK (List Nat) Nat) :=
      ⟨.wsh (.andV (.verify (.check (.pkK 0))) (.check (.pkK 1))),
       fun a => if a = 0 then some (.xpub (some ⟨0xf7, [.hardened 44, .normal 0]⟩) [] [.normal 1, .normal 2] .unhardened)
                else if a = 1 then some (.single none 5) else none⟩
    let ckd : List Nat → Nat → List Nat := fun x i => x ++ [i]
    let spk : KDesc (Derived (List Nat) Nat) → Bytes := fun c =>
      match c.key 0 with | some (.ofXpub l) => l.map UInt8.ofNat | _ => []
    (match d.derivedDescriptor ckd 9 with
      | .ok r => (r.key 0, r.key 1) | .error _ => (none, none))
        = (some (.ofXpub [1, 2, 9]), some (.single 5)) ∧
    (match d.findDerivationIndexForSpk ckd spk [1, 2, 9] 5 12 with
      | .ok (some (i, c)) => some (i, c.key 0) | _ => none) = some (9, some (.ofXpub [1, 2, 9])) ∧
    (match (d.deriveAtIndex (2 ^ 31)).intoResult with
      | .error e => some e | .ok _ => none) = some .hardenedStep := by
  decide

/-! ## T4 — multipath split -/

/-- T4: a descriptor without multipath keys splits into itself -/
theorem split_single (d : KDesc (DPK X P)) (h : d.isMultipath = false) :
    d.intoSingleDescriptors = .ok [d] := by
  unfold KDesc.intoSingleDescriptors
  have : d.keysPre.find? DPK.isMultipath = none := by
    rw [List.find?_eq_none]
    intro k hk
    have := List.any_eq_false.mp h k hk
    simpa using this
  simp [this]

/-- T4: when all multipath keys have the same number `n > 0` of alternatives, the result is
exactly the `n` descriptors obtained by selecting alternative `j = 0 … n-1` in every multipath
key (`KDesc.select j = mapKeys (selectPath j)`), in this order -/
theorem split_uniform (d : KDesc (DPK X P)) (n : Nat) (hm : d.isMultipath = true) (hn : 0 < n)
    (hall : ∀ k ∈ d.keysPre, ∀ m, arity k = some m → m = n) :
    d.intoSingleDescriptors = .ok ((List.range n).map d.select) := by
  unfold KDesc.intoSingleDescriptors
  obtain ⟨k, hk, hkm⟩ := List.any_eq_true.mp hm
  cases hf : d.keysPre.find? DPK.isMultipath with
  | none => exact absurd hkm (by simpa using List.find?_eq_none.mp hf k hk)
  | some k0 =>
    have hmem := List.mem_of_find?_eq_some hf
    have hmulti := List.find?_some hf
    cases k0 with
    | single o key => simp [DPK.isMultipath] at hmulti
    | xpub o x p wc => simp [DPK.isMultipath] at hmulti
    | multi o x paths wc =>
      have hlen : paths.length = n := hall _ hmem _ rfl
      have hne : paths.isEmpty = false := by
        cases paths with
        | nil => simp at hlen; omega
        | cons _ _ => rfl
      have hany : d.keysPre.any (arityNe paths.length) = false := by
        rw [List.any_eq_false]
        intro k' hk' hne'
        obtain ⟨m, hm', hmn⟩ := (arityNe_iff _ k').mp hne'
        exact hmn (by rw [hall k' hk' m hm', hlen])
      rw [hlen] at hany
      simp only [hne, hlen, hany, Bool.false_eq_true, if_false]
      exact splitLoop_ok d _ (fun j hj k' hk' m hm' => by
        rw [hall k' hk' m hm']; exact List.mem_range.mp hj)

example :
    let d : KDesc (DPK Nat Nat) := ⟨.wsh (.andV (.verify (.check (.pkK 0))) (.check (.pkK 1))),
      fun a => if a = 0 then some (.multi none 0 [[.normal 0], [.normal 1]] .unhardened)
               else if a = 1 then some (.multi none 1 [[.normal 5], [.normal 6]] .none) else none⟩
    d.isMultipath = true ∧ ∀ k ∈ d.keysPre, ∀ m, arity k = some m → m = 2 := by
  intro d
  have hkeys : d.keysPre = [.multi none 0 [[.normal 0], [.normal 1]] .unhardened,
      .multi none 1 [[.normal 5], [.normal 6]] .none] := by rfl
  refine ⟨by decide, ?_⟩
  intro k hk m hm
  rw [hkeys] at hk
  simp only [List.mem_cons, List.not_mem_nil, or_false] at hk
  rcases hk with rfl | rfl <;> simp [arity] at hm <;> omega

/-- T4, full strength: two multipath keys with DIFFERENT numbers of alternatives anywhere in the
descriptor (whichever comes first) are rejected with `MultipathDescLenMismatch`.  (`hne`: a
multipath key has at least one alternative — the invariant of `DerivPaths::new`.) -/
theorem split_rejects_mismatch (d : KDesc (DPK X P))
    (hne : ∀ k ∈ d.keysPre, arity k ≠ some 0)
    (k k' : DPK X P) (m m' : Nat) (hk : k ∈ d.keysPre) (hk' : k' ∈ d.keysPre)
    (hm : arity k = some m) (hm' : arity k' = some m') (hdiff : m ≠ m') :
    d.intoSingleDescriptors = .error .lenMismatch := by
  unfold KDesc.intoSingleDescriptors
  have hkm : k.isMultipath = true := by
    cases k <;> simp [arity] at hm <;> rfl
  cases hf : d.keysPre.find? DPK.isMultipath with
  | none => exact absurd hkm (by simpa using List.find?_eq_none.mp hf k hk)
  | some k0 =>
    have hmem := List.mem_of_find?_eq_some hf
    have hmulti := List.find?_some hf
    cases k0 with
    | single o key => simp [DPK.isMultipath] at hmulti
    | xpub o x p wc => simp [DPK.isMultipath] at hmulti
    | multi o x paths wc =>
      have hne0 : paths.isEmpty = false := by
        cases paths with
        | nil => exact absurd rfl (hne _ hmem)
        | cons _ _ => rfl
      have hany : d.keysPre.any (arityNe paths.length) = true := by
        rw [List.any_eq_true]
        by_cases h1 : m = paths.length
        · exact ⟨k', hk', (arityNe_iff _ k').mpr ⟨m', hm', by omega⟩⟩
        · exact ⟨k, hk, (arityNe_iff _ k).mpr ⟨m, hm, h1⟩⟩
      simp only [hne0, hany, Bool.false_eq_true, if_false, if_true]

/-- T4: hence the split succeeds exactly when all multipath keys have the same arity -/
theorem split_succeeds_iff (d : KDesc (DPK X P)) (hne : ∀ k ∈ d.keysPre, arity k ≠ some 0) :
    (∃ ds, d.intoSingleDescriptors = .ok ds) ↔
      ∀ k ∈ d.keysPre, ∀ k' ∈ d.keysPre, ∀ m m', arity k = some m → arity k' = some m' → m = m' := by
  constructor
  · rintro ⟨ds, hds⟩ k hk k' hk' m m' hm hm'
    by_cases h : m = m'
    · exact h
    · rw [split_rejects_mismatch d hne k k' m m' hk hk' hm hm' h] at hds; cases hds
  · intro hall
    cases hmp : d.isMultipath with
    | false => exact ⟨_, split_single d hmp⟩
    | true =>
      obtain ⟨k, hk, hkm⟩ := List.any_eq_true.mp hmp
      cases k with
      | single o key => simp [DPK.isMultipath] at hkm
      | xpub o x p wc => simp [DPK.isMultipath] at hkm
      | multi o x paths wc =>
        refine ⟨_, split_uniform d paths.length hmp ?_ ?_⟩
        · have := hne _ hk
          simp only [arity, ne_eq, Option.some.injEq] at this
          omega
        · intro k' hk' m hm
          exact (hall _ hk k' hk' _ m rfl hm).symm

/-! ## T5 — `find_derivation_index_for_spk` -/

/-- T5: for a descriptor with a wildcard the result is `Some((i, c))` exactly when `i` is the
LEAST index of the range `lo..hi` whose derived descriptor `c` has the wanted scriptPubKey
(all smaller indices of the range derive and do not match) -/
theorem find_returns_least_match (ckd : X → Nat → X) (spk : KDesc (Derived X P) → Bytes)
    (d : KDesc (DPK X P)) (hw : d.hasWildcard = true) (target : Bytes) (lo hi i : Nat)
    (c : KDesc (Derived X P)) :
    d.findDerivationIndexForSpk ckd spk target lo hi = .ok (some (i, c)) ↔
      lo ≤ i ∧ i < hi ∧ d.derivedDescriptor ckd i = .ok c ∧ spk c = target ∧
      ∀ j, lo ≤ j → j < i → ∃ cj, d.derivedDescriptor ckd j = .ok cj ∧ spk cj ≠ target := by
  rw [find_wildcard_eq ckd spk d hw, findLoop_ok_some]
  constructor
  · rintro ⟨j, hj, hstep, hall⟩
    obtain ⟨rfl, hd, hs⟩ := (findStep_some_iff ckd spk d target _ i c).mp hstep
    refine ⟨by omega, by omega, hd, hs, ?_⟩
    intro j' hlo hlt
    have := hall (j' - lo) (by omega)
    rw [show lo + (j' - lo) = j' by omega] at this
    exact (findStep_none_iff ckd spk d target j').mp this
  · rintro ⟨hlo, hhi, hd, hs, hall⟩
    refine ⟨i - lo, by omega, ?_, ?_⟩
    · rw [show lo + (i - lo) = i by omega]
      exact (findStep_some_iff ckd spk d target i i c).mpr ⟨rfl, hd, hs⟩
    · intro j' hj'
      exact (findStep_none_iff ckd spk d target _).mpr (hall (lo + j') (by omega) (by omega))

/-- T5: `Ok(None)` exactly when every index of the range derives and none matches (in
particular for an empty range, whatever the keys are) -/
theorem find_none_iff (ckd : X → Nat → X) (spk : KDesc (Derived X P) → Bytes)
    (d : KDesc (DPK X P)) (hw : d.hasWildcard = true) (target : Bytes) (lo hi : Nat) :
    d.findDerivationIndexForSpk ckd spk target lo hi = .ok none ↔
      ∀ j, lo ≤ j → j < hi → ∃ cj, d.derivedDescriptor ckd j = .ok cj ∧ spk cj ≠ target := by
  rw [find_wildcard_eq ckd spk d hw, findLoop_ok_none]
  constructor
  · intro hall j hlo hhi
    have := hall (j - lo) (by omega)
    rw [show lo + (j - lo) = j by omega] at this
    exact (findStep_none_iff ckd spk d target j).mp this
  · intro hall j hj
    exact (findStep_none_iff ckd spk d target _).mpr (hall (lo + j) (by omega) (by omega))

/-- T5: an error is the derivation error of the first index of the range that cannot be
derived, provided no earlier index matched -/
theorem find_error_iff (ckd : X → Nat → X) (spk : KDesc (Derived X P) → Bytes)
    (d : KDesc (DPK X P)) (hw : d.hasWildcard = true) (target : Bytes) (lo hi : Nat) (e : KeyErr) :
    d.findDerivationIndexForSpk ckd spk target lo hi = .error e ↔
      ∃ i, lo ≤ i ∧ i < hi ∧ d.derivedDescriptor ckd i = .error e ∧
        ∀ j, lo ≤ j → j < i → ∃ cj, d.derivedDescriptor ckd j = .ok cj ∧ spk cj ≠ target := by
  rw [find_wildcard_eq ckd spk d hw, findLoop_error]
  constructor
  · rintro ⟨j, hj, hstep, hall⟩
    refine ⟨lo + j, by omega, by omega, (findStep_error_iff ckd spk d target _ e).mp hstep, ?_⟩
    intro j' hlo hlt
    have := hall (j' - lo) (by omega)
    rw [show lo + (j' - lo) = j' by omega] at this
    exact (findStep_none_iff ckd spk d target j').mp this
  · rintro ⟨i, hlo, hhi, hd, hall⟩
    refine ⟨i - lo, by omega, ?_, ?_⟩
    · rw [show lo + (i - lo) = i by omega]
      exact (findStep_error_iff ckd spk d target i e).mpr hd
    · intro j' hj'
      exact (findStep_none_iff ckd spk d target _).mpr (hall (lo + j') (by omega) (by omega))

/-- T5: without a wildcard the range is ignored: the definite descriptor is compared once and
reported at index 0 -/
theorem find_without_wildcard (ckd : X → Nat → X) (spk : KDesc (Derived X P) → Bytes)
    (d : KDesc (DPK X P)) (hw : d.hasWildcard = false) (target : Bytes) (lo hi : Nat) :
    d.findDerivationIndexForSpk ckd spk target lo hi =
      match d.intoDefinite with
      | .error e => .error e
      | .ok c =>
        if spk (c.derivedDefinite ckd) = target then .ok (some (0, c.derivedDefinite ckd)) else .ok none := by
  unfold KDesc.findDerivationIndexForSpk
  simp only [hw, Bool.not_false, if_true]
  cases d.intoDefinite <;> rfl

/-- T5 + T3: what `find_derivation_index_for_spk` returns for a wildcard descriptor is the
descriptor over the independently BIP32-derived keys at the returned index, which lies in the
range and below 2³¹ for every wildcard key; all guards hold for every key -/
theorem find_match_is_independent_bip32 (ckd : X → Nat → X) (spk : KDesc (Derived X P) → Bytes)
    (d : KDesc (DPK X P)) (hw : d.hasWildcard = true) (target : Bytes) (lo hi i : Nat)
    (c : KDesc (Derived X P))
    (h : d.findDerivationIndexForSpk ckd spk target lo hi = .ok (some (i, c))) :
    lo ≤ i ∧ i < hi ∧ spk c = target ∧ c.shape = d.shape ∧
    (∀ k ∈ d.keysPre, PubliclyDerivableAt k i) ∧
    (∀ a k, d.key a = some k → c.key a = keyAt ckd k i) := by
  obtain ⟨h1, h2, h3, h4, _⟩ := (find_returns_least_match ckd spk d hw target lo hi i c).mp h
  obtain ⟨hs, hk⟩ := derived_keys_are_bip32 ckd d i c h3
  refine ⟨h1, h2, h4, hs, ?_, hk⟩
  intro k hk'
  exact (keyAt_isSome_iff ckd k i).mp ((derive_succeeds_iff ckd d i).mp ⟨c, h3⟩ k hk')

end MsVerif.C16

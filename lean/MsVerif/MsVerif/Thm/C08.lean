/-
C08 — "Compiled policies keep their meaning and are sane in the target context", by
TRANSLATION VALIDATION.

The policy compiler (src/policy/compiler.rs: 1 600 lines, floating-point cost dynamic
programme; src/policy/concrete.rs: key extraction, leaf enumeration, Huffman tree) is NOT
modelled.  Instead every output of every public compile entry point is handed, on every run, to
the executable checker `CC.checkCompile` / `CC.checkCompileTr` (Model/CompileCheck.lean; judge ops
`J compiled`, `J compiledtr`, `J ctxfrag` in Driver/OpsCompile.lean).  This file proves the
checker SOUND (and its semantic part complete): acceptance implies

* for EVERY world (any set of signing keys and known preimages, any nLockTime, any nSequence —
  not only the finitely many the checker enumerates) the policy holds iff the output has a
  canonical satisfaction from what that world supplies            (`semantic_check_adequate`);
* the type attached by the compiler is the recomputed one, base B, `signed`, `nonMall`;
* the output obeys the fragment restrictions and resource limits of `Ctx::SANE` (`SaneIn`).

What `signed` / `nonMall` MEAN for executions is the business of C06 / C03 and is not re-proved
here; that the canonical satisfactions counted by `satEx` are real witnesses is validated by
execution on every run of C02 (`C tablecheck`).
-/
import MsVerif.Lemmas.CompileCheck
import MsVerif.Lemmas.ValidateCC

namespace MsVerif.C08
open MsVerif MsVerif.CC MsVerif.SatTable

/-! ## T1  Both sides depend on the world only through comparisons -/

/-- two worlds are indistinguishable on a list of atoms: the same keys of the list can sign,
the same preimages of the list are known, and every lock value of the list compares the same
way with the two nLockTime / nSequence values -/
def AgreeOn (L : List Atom) (W W' : World) : Prop :=
  (∀ k, Pol.Atom.key k ∈ L → W.canSign k = W'.canSign k)
  ∧ (∀ kind h, Pol.Atom.hash kind h ∈ L → W.preimage kind h = W'.preimage kind h)
  ∧ (∀ n, Pol.Atom.after n ∈ L → Pol.cltvOk W.nLockTime n = Pol.cltvOk W'.nLockTime n)
  ∧ (∀ n, Pol.Atom.older n ∈ L → Pol.csvOk W.nSequence n = Pol.csvOk W'.nSequence n)

theorem agreeOn_iff_val (L : List Atom) (W W' : World) :
    AgreeOn L W W' ↔ ∀ a ∈ L, W.val a = W'.val a := by
  constructor
  · intro h a ha
    cases a with
    | key i => exact h.1 i ha
    | hash k x => exact h.2.1 k x ha
    | after n => exact h.2.2.1 n ha
    | older n => exact h.2.2.2 n ha
  · intro h
    exact ⟨fun k hk => h _ hk, fun k x hx => h _ hx, fun n hn => h _ hn, fun n hn => h _ hn⟩

/-- the truth of a concrete policy depends on the world only through the comparisons with the
lock values that occur in it (and the availability of its keys / preimages) -/
theorem holds_depends_only_on_comparisons (P : CPolicy) (W W' : World)
    (h : AgreeOn (Pol.atomsOfC P) W W') : Pol.holdsCW W P = Pol.holdsCW W' P :=
  holdsC_congr W.val W'.val P ((agreeOn_iff_val _ W W').mp h)

/-- the same for the existence of a canonical satisfaction of a miniscript -/
theorem satEx_depends_only_on_comparisons (m : Ms) (W W' : World)
    (h : AgreeOn (msAtoms m) W W') : satEx (availOfWorld W) m = satEx (availOfWorld W') m :=
  satEx_congr W.val W'.val m ((agreeOn_iff_val _ W W').mp h)

/-- every world is represented: for any finite list of atoms, one of the worlds enumerated by
the checker is indistinguishable from the given one (largest lock ≤ the world's value, or the
smallest value of the unit; relative locks in canonical form; a disabled nSequence) -/
theorem every_world_is_represented (L : List Atom) (W : World) :
    ∃ W' ∈ reps L, AgreeOn L W' W := by
  obtain ⟨W', hm, hv⟩ := reps_adequate L W
  exact ⟨W', hm, (agreeOn_iff_val L W' W).mpr hv⟩

/-! ## T2  Adequacy of the finite enumeration -/

theorem agreeOn_left {L₁ L₂ : List Atom} {W W' : World} (h : AgreeOn (L₁ ++ L₂) W W') :
    AgreeOn L₁ W W' :=
  (agreeOn_iff_val _ _ _).mpr fun a ha =>
    (agreeOn_iff_val _ _ _).mp h a (List.mem_append_left _ ha)

theorem agreeOn_right {L₁ L₂ : List Atom} {W W' : World} (h : AgreeOn (L₁ ++ L₂) W W') :
    AgreeOn L₂ W W' :=
  (agreeOn_iff_val _ _ _).mpr fun a ha =>
    (agreeOn_iff_val _ _ _).mp h a (List.mem_append_right _ ha)

/-- SOUNDNESS of the semantic check: agreement on the representatives is agreement in every
world -/
theorem semantic_check_adequate (P : CPolicy) (out : Ms) (h : checkSem P out = true) :
    ∀ W : World, Pol.holdsCW W P = satEx (availOfWorld W) out := by
  intro W
  obtain ⟨W', hm, hag⟩ := every_world_is_represented (Pol.atomsOfC P ++ msAtoms out) W
  have hc := List.all_eq_true.mp h W' hm
  have hc' : Pol.holdsCW W' P = satEx (availOfWorld W') out := by simpa [semMs] using hc
  rw [← holds_depends_only_on_comparisons P W' W (agreeOn_left hag),
    ← satEx_depends_only_on_comparisons out W' W (agreeOn_right hag)]
  exact hc'

/-- COMPLETENESS of the semantic check (it never rejects an equivalent output): the
representatives are worlds -/
theorem semantic_check_complete (P : CPolicy) (out : Ms)
    (h : ∀ W : World, Pol.holdsCW W P = satEx (availOfWorld W) out) : checkSem P out = true := by
  apply List.all_eq_true.mpr
  intro W _
  simp [semMs, h W]

/-- a taproot output depends on the world only through its atoms -/
theorem semTr_depends_only_on_comparisons (t : TrOut) (W W' : World)
    (h : AgreeOn (trAtoms t) W W') : semTr t W = semTr t W' := by
  have hv := (agreeOn_iff_val _ W W').mp h
  have h1 : keyPath t.internal W = keyPath t.internal W' := by
    unfold keyPath
    cases hi : t.internal with
    | none => rfl
    | some k => exact hv (.key k) (by simp [trAtoms, hi])
  have h2 : (t.leaves.any fun l => satEx (availOfWorld W) l)
      = (t.leaves.any fun l => satEx (availOfWorld W') l) := by
    apply any_congr_mem
    intro l hl
    exact satEx_congr W.val W'.val l (fun a ha => hv a (by
      unfold trAtoms
      exact List.mem_append_right _ (List.mem_flatMap.mpr ⟨l, hl, ha⟩)))
  unfold semTr
  rw [h1, h2]

theorem semantic_check_tr_adequate (P : CPolicy) (t : TrOut) (h : checkSemTr P t = true) :
    ∀ W : World, Pol.holdsCW W P = semTr t W := by
  intro W
  obtain ⟨W', hm, hag⟩ := every_world_is_represented (Pol.atomsOfC P ++ trAtoms t) W
  have hc := List.all_eq_true.mp h W' hm
  have hc' : Pol.holdsCW W' P = semTr t W' := by simpa using hc
  rw [← holds_depends_only_on_comparisons P W' W (agreeOn_left hag),
    ← semTr_depends_only_on_comparisons t W' W (agreeOn_right hag)]
  exact hc'

/-! ## T3  What `validateSane` guarantees (fragment restrictions, limits of the context) -/

/-- limits of src/miniscript/limits.rs as used by the `SANE` parameters of the contexts -/
def MAX_OPS_PER_SCRIPT : Nat := 201
def MAX_STANDARD_P2WSH_STACK_ITEMS : Nat := 100
def MAX_STANDARD_P2WSH_SCRIPT_SIZE : Nat := 3600
def MAX_SCRIPT_SIZE : Nat := 10000
def MAX_SCRIPT_ELEMENT_SIZE : Nat := 520
def MAX_STACK_SIZE : Nat := 1000

def isMulti : Ms → Prop | .multi _ _ | .sortedMulti _ _ => True | _ => False
def isMultiA : Ms → Prop | .multiA _ _ | .sortedMultiA _ _ => True | _ => False
def isDupIf : Ms → Prop | .dupIf _ => True | _ => False
def isOrI : Ms → Prop | .orI _ _ => True | _ => False
def isRawPkH : Ms → Prop | .rawPkH _ => True | _ => False

/-- the context's restrictions, stated declaratively -/
structure SaneIn (env : KeyEnv) (ctx : Ctx) (out : Ms) : Prop where
  no_multi_in_tap : ctx = .tap → ∀ n ∈ subterms out, ¬ isMulti n
  no_multi_a_outside_tap : ctx ≠ .tap → ∀ n ∈ subterms out, ¬ isMultiA n
  no_dupif_ori_pre_segwit : (ctx = .bare ∨ ctx = .legacy) → ∀ n ∈ subterms out, ¬ isDupIf n ∧ ¬ isOrI n
  no_raw_pkh : ∀ n ∈ subterms out, ¬ isRawPkH n
  no_uncompressed_in_segwit_tap : (ctx = .segwitv0 ∨ ctx = .tap) → ∀ k ∈ msKeys out, isUnc env k = false
  no_xonly_outside_tap : ctx ≠ .tap → ∀ k ∈ msKeys out, isXOnly env k = false
  no_duplicate_keys : hasDup (msKeys out) = false
  no_mixed_timelocks : (extOf env ctx out).timelockInfo.containsCombination = false
  script_size :
    (ctx = .bare → scriptSize env ctx out ≤ MAX_SCRIPT_SIZE)
    ∧ (ctx = .legacy → scriptSize env ctx out ≤ MAX_SCRIPT_ELEMENT_SIZE)
    ∧ (ctx = .segwitv0 → scriptSize env ctx out ≤ MAX_STANDARD_P2WSH_SCRIPT_SIZE)
  op_count : ctx ≠ .tap → ∀ d, (extOf env ctx out).satData = some d →
    (extOf env ctx out).staticOps + d.execOps ≤ MAX_OPS_PER_SCRIPT
  witness_items : ctx = .segwitv0 → ∀ d, (extOf env ctx out).satData = some d →
    d.wCount + 1 ≤ MAX_STANDARD_P2WSH_STACK_ITEMS
  exec_stack : (ctx = .segwitv0 ∨ ctx = .tap) → ∀ d, (extOf env ctx out).satData = some d →
    d.wCount + d.execStack ≤ MAX_STACK_SIZE

/-- acceptance by the mirror of `validate(&Ctx::SANE)` implies the declarative restrictions -/
theorem validateSane_spec (env : KeyEnv) (ctx : Ctx) (out : Ms) (h : validateSane env ctx out = true) :
    SaneIn env ctx out := by
  unfold validateSane at h
  rw [Bool.and_eq_true] at h
  obtain ⟨hr, hf⟩ := h
  unfold validateRest at hr
  cases hty : typeOf out with
  | none => simp [hty] at hr
  | some ty =>
    simp only [hty, Bool.and_eq_true, decide_eq_true_eq, Bool.not_eq_true'] at hr
    obtain ⟨⟨⟨⟨⟨⟨⟨⟨_, hdup⟩, hmix⟩, hnodes⟩, hsize⟩, hsat⟩, _⟩, _⟩, _⟩ := hr
    have hnodes' := List.all_eq_true.mp hnodes
    have hfrag := List.all_eq_true.mp hf
    have hkeys : ∀ k ∈ msKeys out, pkOk env (saneParams ctx) k = true := by
      intro k hk
      obtain ⟨n, hn, hkn⟩ := mem_msKeys hk
      exact pkOk_of_nodeOk (hnodes' n hn) hkn
    refine ⟨?_, ?_, ?_, ?_, ?_, ?_, hdup, hmix, ?_, ?_, ?_, ?_⟩
    · intro hc n hn hm
      have := hnodes' n hn
      subst hc
      cases n <;> simp [isMulti] at hm <;> simp [nodeOk, saneParams] at this
    · intro hc n hn hm
      have := hnodes' n hn
      cases n <;> simp [isMultiA] at hm <;> cases ctx <;> simp [nodeOk, saneParams] at this hc
    · intro hc n hn
      have := hfrag n hn
      rcases hc with hc | hc <;> subst hc <;> cases n <;> simp [isDupIf, isOrI] <;>
        simp [nodeIfOk, saneParams] at this
    · intro n hn hm
      have := hnodes' n hn
      cases n <;> simp [isRawPkH] at hm <;> simp [nodeOk] at this
    · intro hc k hk
      have := hkeys k hk
      rcases hc with hc | hc <;> subst hc <;> simp [pkOk, saneParams] at this
      · exact this.1
      · cases hu : isUnc env k
        · rfl
        · simp [hu] at this
    · intro hc k hk
      have := hkeys k hk
      cases ctx <;> simp [pkOk, saneParams] at this hc <;> first | exact this | exact this.2
    · refine ⟨?_, ?_, ?_⟩ <;> intro hc <;> subst hc <;>
        simpa [saneParams, leOpt, MAX_SCRIPT_SIZE, MAX_SCRIPT_ELEMENT_SIZE,
          MAX_STANDARD_P2WSH_SCRIPT_SIZE] using hsize
    · intro hc d hd
      rw [hd] at hsat
      simp only [Bool.and_eq_true] at hsat
      have := hsat.1.2
      cases ctx <;> simp [saneParams, leOpt, MAX_OPS_PER_SCRIPT] at this hc ⊢ <;> exact this
    · intro hc d hd
      rw [hd] at hsat
      simp only [Bool.and_eq_true] at hsat
      have := hsat.1.1
      subst hc
      simpa [saneParams, leOpt, MAX_STANDARD_P2WSH_STACK_ITEMS] using this
    · intro hc d hd
      rw [hd] at hsat
      simp only [Bool.and_eq_true] at hsat
      have := hsat.2
      rcases hc with hc | hc <;> subst hc <;>
        simpa [saneParams, leOpt, MAX_STACK_SIZE] using this

/-! ## T4  Soundness of the checker -/

/-- everything C08 asks of a compiled miniscript -/
structure CompiledOk (env : KeyEnv) (P : CPolicy) (ctx : Ctx) (out : Ms) (ty : Ty) : Prop where
  /-- same spending semantics, in EVERY world -/
  same_meaning : ∀ W : World, Pol.holdsCW W P = satEx (availOfWorld W) out
  /-- the type attached by the compiler is the real one -/
  claimed_type_correct : typeOf out = some ty
  base_B : ty.corr.base = .B
  /-- every path needs a signature (type-level; meaning: C06) -/
  signed : ty.mall.signed = true
  /-- non-malleable (type-level; meaning: C03) -/
  non_malleable : ty.mall.nonMall = true
  /-- fragment restrictions and resource limits of the target context -/
  sane : SaneIn env ctx out

theorem checkCompile_sound (env : KeyEnv) (P : CPolicy) (ctx : Ctx) (out : Ms) (ty : Ty)
    (h : checkCompile env P ctx out ty = true) : CompiledOk env P ctx out ty := by
  unfold checkCompile at h
  simp only [Bool.and_eq_true, beq_iff_eq] at h
  obtain ⟨⟨⟨⟨⟨hty, hb⟩, hs⟩, hm⟩, hsane⟩, hsem⟩ := h
  exact ⟨semantic_check_adequate P out hsem, hty, hb, hs, hm, validateSane_spec env ctx out hsane⟩

/-- everything C08 asks of a compiled `tr(internal, {leaves})` descriptor -/
structure CompiledTrOk (env : KeyEnv) (P : CPolicy) (internal : Option Key)
    (claimed : List (Ms × Ty)) : Prop where
  /-- same spending semantics in every world: key path (unless the internal key is the caller's
  unspendable key) or some leaf -/
  same_meaning : ∀ W : World, Pol.holdsCW W P = semTr ⟨internal, claimed.map (·.1)⟩ W
  /-- the extracted internal key does not reappear in a leaf -/
  internal_key_fresh : ∀ k, internal = some k → ∀ l ∈ claimed, k ∉ msKeys l.1
  /-- every leaf: claimed type correct, B, signed, non-malleable, sane in the Tap context -/
  leaves_ok : ∀ l ∈ claimed, typeOf l.1 = some l.2 ∧ l.2.corr.base = .B ∧ l.2.mall.signed = true
    ∧ l.2.mall.nonMall = true ∧ SaneIn env .tap l.1

theorem checkCompileTr_sound (env : KeyEnv) (P : CPolicy) (internal : Option Key)
    (claimed : List (Ms × Ty)) (h : checkCompileTr env P internal claimed = true) :
    CompiledTrOk env P internal claimed := by
  unfold checkCompileTr at h
  simp only [Bool.and_eq_true] at h
  obtain ⟨⟨⟨hl, _⟩, hfresh⟩, hsem⟩ := h
  refine ⟨semantic_check_tr_adequate P _ hsem, ?_, ?_⟩
  · intro k hk l hmem hin
    subst hk
    unfold internalFresh at hfresh
    have := List.all_eq_true.mp hfresh l.1 (List.mem_map.mpr ⟨l, hmem, rfl⟩)
    simp only [Bool.not_eq_true'] at this
    have hc : (msKeys l.1).contains k = true := List.contains_iff_mem.mpr hin
    rw [this] at hc
    exact Bool.noConfusion hc
  intro l hmem
  have := List.all_eq_true.mp hl l hmem
  unfold checkLeaf at this
  simp only [Bool.and_eq_true, beq_iff_eq] at this
  obtain ⟨⟨⟨⟨hty, hb⟩, hs⟩, hm⟩, hsane⟩ := this
  exact ⟨hty, hb, hs, hm, validateSane_spec env .tap l.1 hsane⟩

/-- the checker's semantic part accepts exactly the equivalent outputs -/
theorem checkSem_iff (P : CPolicy) (out : Ms) :
    checkSem P out = true ↔ ∀ W : World, Pol.holdsCW W P = satEx (availOfWorld W) out :=
  ⟨semantic_check_adequate P out, semantic_check_complete P out⟩

/-! ## T5  The lift of a compiled taproot descriptor; the class that must compile -/

/-- `or(pk(0), and(pk(1), older(10)))` -/
def polExFwd : CPolicy := .or [.atom (.key 0), .and [.atom (.key 1), .atom (.older 10)]]

/-- SOUNDNESS of the `J trlift` judge: if it accepts the library's lift `q` of a compiled
`tr(…)` descriptor (internal key included), then `q` and the concrete policy have the same
truth value under EVERY assignment in which the caller's unspendable key does not sign -/
theorem trLiftOk_sound (unsp : Option Nat) (P : CPolicy) (q : Pol.Policy)
    (h : trLiftOk unsp P q = true) (v : Atom → Bool)
    (hu : ∀ u, unsp = some u → v (.key u) = false) : Pol.holdsA v q = Pol.holdsC v P := by
  unfold trLiftOk at h
  obtain ⟨w, hw, hag⟩ := forallVals_spec _ _ h v
  have hm : ∀ a ∈ Pol.atomsOfC P ++ Pol.atomsOf q, maskKey unsp w a = v a := by
    intro a ha
    unfold maskKey
    cases hun : unsp with
    | none => exact hag a ha
    | some u =>
      simp only
      by_cases hk : a = Pol.Atom.key u
      · subst hk; simp [hu u hun]
      · have : (a == Pol.Atom.key u) = false := by simpa using hk
        rw [this]; simpa using hag a ha
  have hw' : Pol.holdsA (maskKey unsp w) q = Pol.holdsC (maskKey unsp w) P := by simpa using hw
  rw [← holdsA_congr (maskKey unsp w) v q (fun a ha => hm a (List.mem_append_right _ ha)),
    ← holdsC_congr (maskKey unsp w) v P (fun a ha => hm a (List.mem_append_left _ ha))]
  exact hw'

/-- what the class judged by `J compiles` consists of -/
theorem mustCompile_spec (P : CPolicy) (h : mustCompile P = true) :
    (Pol.atomsOfC P).length ≤ 4 ∧ noConst P = true ∧ binaryOps P = true ∧ Pol.WFC P = true
    ∧ hasDup (keyIds (Pol.atomsOfC P)) = false
    ∧ Pol.Conc.checkTimelocks P = true
    ∧ Pol.Conc.isSafeNonmalleable P = (true, true) := by
  unfold mustCompile at h
  simp only [Bool.and_eq_true, decide_eq_true_eq, Bool.not_eq_true', beq_iff_eq] at h
  obtain ⟨⟨⟨⟨⟨⟨⟨h1, h2⟩, h3⟩, h4⟩, _⟩, h6⟩, h7⟩, h8⟩ := h
  exact ⟨h1, h2, h3, h4, h6, h7, h8⟩

/-- the class is not empty: `or(pk(0), and(pk(1), older(10)))` is in it … -/
example : mustCompile polExFwd = true := by decide +kernel
/-- … a policy with a repeated key or a sigless branch is not -/
example : mustCompile (.or [.atom (.key 0), .atom (.key 0)]) = false := by decide +kernel
example : mustCompile (.or [.atom (.key 0), .atom (.older 10)]) = false := by decide +kernel

/-- the lift judge accepts `thresh(1, pk(0), and(pk(1), older(10)))` for `polEx` and rejects a
lift in which the two leaves swapped their locks' owner -/
example : trLiftOk none polExFwd
    (.thresh 1 [.atom (.key 0), .thresh 2 [.atom (.key 1), .atom (.older 10)]]) = true := by decide +kernel
theorem lift_with_wrong_leaf_rejected : trLiftOk none polExFwd
    (.thresh 1 [.atom (.key 0), .thresh 2 [.atom (.key 0), .atom (.older 10)]]) = false := by decide +kernel
/-- the unspendable internal key does not count as a spending path -/
example : trLiftOk (some 9) (.and [.atom (.key 1), .atom (.older 10)])
    (.thresh 1 [.atom (.key 9), .thresh 2 [.atom (.key 1), .atom (.older 10)]]) = true := by decide +kernel
theorem unspendable_key_is_masked : trLiftOk none (.and [.atom (.key 1), .atom (.older 10)])
    (.thresh 1 [.atom (.key 9), .thresh 2 [.atom (.key 1), .atom (.older 10)]]) = false := by decide +kernel

/-! ## T6  Policies for which no conforming output exists (`J refuses`) -/

theorem mem_reps_canSign {L : List Atom} {W : World} (h : W ∈ reps L) (k : Nat)
    (hk : Pol.Atom.key k ∉ L) : W.canSign k = false := by
  unfold reps at h
  obtain ⟨S, hS, h⟩ := List.mem_flatMap.mp h
  obtain ⟨lt, _, h⟩ := List.mem_flatMap.mp h
  obtain ⟨sq, _, rfl⟩ := List.mem_map.mp h
  show S.contains (Pol.Atom.key k) = false
  cases hc : S.contains (Pol.Atom.key k) with
  | false => rfl
  | true =>
    exfalso
    have hm : Pol.Atom.key k ∈ S := List.contains_iff_mem.mp hc
    have hsub : ∀ (l : List Atom) (S : List Atom), S ∈ Pol.subsets l → ∀ a ∈ S, a ∈ l := by
      intro l
      induction l with
      | nil => intro S hS a ha; simp [Pol.subsets] at hS; subst hS; simp at ha
      | cons x xs ih =>
        intro S hS a ha
        rw [Pol.subsets] at hS
        rcases List.mem_append.mp hS with h1 | h1
        · exact List.mem_cons_of_mem _ (ih S h1 a ha)
        · obtain ⟨T, hT, rfl⟩ := List.mem_map.mp h1
          rcases List.mem_cons.mp ha with h2 | h2
          · subst h2; exact List.mem_cons_self
          · exact List.mem_cons_of_mem _ (ih T hT a h2)
    have := hsub _ S hS _ hm
    unfold nonLocks at this
    rw [List.mem_eraseDups, List.mem_filter] at this
    exact hk this.1

/-- if the judge says "satisfiable without a signer", there IS a world in which no key at all
can sign and the policy holds -/
theorem siglessSatisfiable_sound (P : CPolicy) (h : siglessSatisfiable P = true) :
    ∃ W : World, (∀ k, W.canSign k = false) ∧ Pol.holdsCW W P = true := by
  unfold siglessSatisfiable at h
  obtain ⟨W, hW, hP⟩ := List.any_eq_true.mp h
  refine ⟨W, fun k => mem_reps_canSign hW k ?_, hP⟩
  intro hm
  have := (List.mem_filter.mp hm).2
  simp [Pol.Atom.isKey] at this

/-- … and then every output the checker's semantic part accepts is satisfiable WITHOUT ANY
SIGNATURE in that world: no conforming (`signed`) output exists -/
theorem sigless_policy_has_sigless_output (P : CPolicy) (out : Ms)
    (hs : siglessSatisfiable P = true) (hc : checkSem P out = true) :
    ∃ W : World, (∀ k, W.canSign k = false) ∧ satEx (availOfWorld W) out = true := by
  obtain ⟨W, hk, hP⟩ := siglessSatisfiable_sound P hs
  exact ⟨W, hk, by rw [← semantic_check_adequate P out hc W]; exact hP⟩

/-- if the policy's truth depends on key `k`, every output the semantic check accepts mentions
`k` — so a key of a kind the context forbids cannot be avoided -/
theorem needed_key_occurs_in_output (P : CPolicy) (out : Ms) (k : Nat)
    (hd : dependsOnKey P k = true) (hc : checkSem P out = true) :
    Pol.Atom.key k ∈ msAtoms out := by
  unfold dependsOnKey at hd
  obtain ⟨W, _, hne⟩ := List.any_eq_true.mp hd
  have hne' : Pol.holdsCW W P ≠ Pol.holdsCW (flipKey W k) P := by simpa using hne
  cases hmem : decide (Pol.Atom.key k ∈ msAtoms out) with
  | true => exact of_decide_eq_true hmem
  | false =>
    exfalso
    have hnot : Pol.Atom.key k ∉ msAtoms out := of_decide_eq_false hmem
    apply hne'
    rw [semantic_check_adequate P out hc W, semantic_check_adequate P out hc (flipKey W k)]
    apply satEx_congr
    intro a ha
    cases a with
    | key j =>
      show W.canSign j = (if j == k then !W.canSign k else W.canSign j)
      have : j ≠ k := fun e => hnot (e ▸ ha)
      simp [this]
    | hash kind x => rfl
    | after n => rfl
    | older n => rfl

/-- the class is not empty and not everything: `TRIVIAL` and `or(pk(0), older(10))` are
satisfiable without a signer, `or(pk(0), and(pk(1), older(10)))` is not -/
example : siglessSatisfiable .trivial = true := by decide +kernel
example : siglessSatisfiable (.or [.atom (.key 0), .atom (.older 10)]) = true := by decide +kernel
example : siglessSatisfiable polExFwd = false := by decide +kernel
example : dependsOnKey polExFwd 1 = true := by decide +kernel
example : dependsOnKey (.and [.atom (.key 1), .unsat]) 1 = false := by decide +kernel

/-! ## T3'  `validateSane` IS the library's `validate(&Ctx::SANE)` as modelled for C12 -/

/-- the sanity part of the checker is not a second, independent mirror: it equals the shared
model of `Miniscript::validate` (Model/Validate.lean, tied to the library by C12) with the
context's `SANE` parameters (C12's `validateSane_eq_validate`) -/
theorem checkCompile_validates_like_the_library (env : KeyEnv) (P : CPolicy) (ctx : Ctx) (out : Ms)
    (ty : Ty) (hfit : FitsUsize env ctx out) (h : checkCompile env P ctx out ty = true) :
    isOk (validate env (ccKeys env) ctx ctx.SANE out) = true := by
  unfold checkCompile at h
  simp only [Bool.and_eq_true] at h
  rw [← validateSane_eq_validate env ctx out hfit]
  exact h.1.2

/-! ## Non-vacuity and sensitivity

`satEx` is defined by well-founded recursion and does not reduce in the kernel, so the concrete
instances below are proved through `checkSem_iff` (a symbolic world) resp. by exhibiting a
distinguishing world. -/

/-- a distinguishing world refutes the semantic check -/
theorem checkSem_false_of_world (P : CPolicy) (out : Ms) (W : World)
    (h : Pol.holdsCW W P ≠ satEx (availOfWorld W) out) : checkSem P out = false := by
  cases hc : checkSem P out with
  | false => rfl
  | true => exact absurd (semantic_check_adequate P out hc W) h

theorem checkSemTr_false_of_world (P : CPolicy) (t : TrOut) (W : World)
    (h : Pol.holdsCW W P ≠ semTr t W) : checkSemTr P t = false := by
  cases hc : checkSemTr P t with
  | false => rfl
  | true => exact absurd (semantic_check_tr_adequate P t hc W) h

/-- toy key environment: ids < 100 compressed, 100..199 uncompressed, ≥ 200 x-only -/
def envEx : KeyEnv where
  ser k := List.replicate (if k < 100 then 33 else if k < 200 then 65 else 32) 0
  sortKey _ := []
  pkh _ := []
  rawPkh _ := []
  hashVal _ _ := []

/-- `or(pk(0), and(pk(1), older(10)))` -/
def polEx : CPolicy := .or [.atom (.key 0), .and [.atom (.key 1), .atom (.older 10)]]
/-- `or_d(pk(0), and_v(v:pk(1), older(10)))` -/
def outEx : Ms := .orD (.check (.pkK 0)) (.andV (.verify (.check (.pkK 1))) (.older 10))

theorem outEx_equiv : ∀ W : World, Pol.holdsCW W polEx = satEx (availOfWorld W) outEx := by
  intro W
  simp only [polEx, outEx, Pol.holdsCW, Pol.holdsC, Pol.countC, satEx, dsatEx, availOfWorld, availOfVal,
    Pol.World.val, List.length]
  by_cases h0 : W.canSign 0 = true <;> by_cases h1 : W.canSign 1 = true <;>
    by_cases h2 : Pol.csvOk W.nSequence 10 = true <;> simp [h0, h1, h2]

/-- the hypothesis of `checkCompile_sound` is satisfiable on a non-trivial output -/
example : ∃ ty, checkCompile envEx polEx .segwitv0 outEx ty = true := by
  refine ⟨(typeOf outEx).getD Ty.FALSE, ?_⟩
  have h1 : checkSem polEx outEx = true := semantic_check_complete _ _ outEx_equiv
  have h2 : validateSane envEx .segwitv0 outEx = true := by decide +kernel
  have h3 : typeOf outEx = some ((typeOf outEx).getD Ty.FALSE) := by decide +kernel
  have h4 : (((typeOf outEx).getD Ty.FALSE).corr.base == Base.B) = true := by decide +kernel
  have h5 : ((typeOf outEx).getD Ty.FALSE).mall.signed = true := by decide +kernel
  have h6 : ((typeOf outEx).getD Ty.FALSE).mall.nonMall = true := by decide +kernel
  unfold checkCompile
  rw [h1, h2, h4, h5, h6, ← h3]
  simp

/-- 2-of-3 compiled to `multi(2,…)`: accepted -/
example : checkSem (.thresh 2 [.atom (.key 0), .atom (.key 1), .atom (.key 2)]) (.multi 2 [0, 1, 2]) = true := by
  apply semantic_check_complete
  intro W
  simp only [Pol.holdsCW, Pol.holdsC, Pol.countC, satEx, availOfWorld, availOfVal, Pol.World.val,
    List.filter]
  by_cases h0 : W.canSign 0 = true <;> by_cases h1 : W.canSign 1 = true <;>
    by_cases h2 : W.canSign 2 = true <;> simp [h0, h1, h2]

/-- the `thresh` → `multi` special case with k+1: rejected (world: keys 0 and 1 sign) -/
theorem miscompiled_threshold_rejected :
    checkSem (.thresh 2 [.atom (.key 0), .atom (.key 1), .atom (.key 2)]) (.multi 3 [0, 1, 2]) = false := by
  apply checkSem_false_of_world _ _ (mkWorld [.key 0, .key 1] 0 0)
  simp [Pol.holdsCW, Pol.holdsC, Pol.countC, satEx, availOfWorld, availOfVal, Pol.World.val,
    List.filter, mkWorld]

/-- a lock value off by one is seen (world: key 0 signs, nLockTime = 100) -/
theorem lock_off_by_one_rejected :
    checkSem (.and [.atom (.key 0), .atom (.after 100)])
      (.andV (.verify (.check (.pkK 0))) (.after 101)) = false := by
  apply checkSem_false_of_world _ _ (mkWorld [.key 0] 100 0)
  simp [Pol.holdsCW, Pol.holdsC, Pol.countC, satEx, availOfWorld, availOfVal, Pol.World.val, mkWorld,
    Pol.cltvOk, Pol.absIsHeight, Pol.LOCKTIME_THRESHOLD]

/-- taproot: the extracted internal key counts as a spending path -/
example : checkSemTr (.or [.atom (.key 0), .or [.atom (.key 1), .atom (.key 2)]])
    ⟨some 0, [.check (.pkK 1), .check (.pkK 2)]⟩ = true := by
  apply List.all_eq_true.mpr
  intro W _
  simp only [Pol.holdsCW, Pol.holdsC, Pol.countC, semTr, keyPath, satEx, availOfWorld, availOfVal, Pol.World.val,
    List.any]
  by_cases h0 : W.canSign 0 = true <;> by_cases h1 : W.canSign 1 = true <;>
    by_cases h2 : W.canSign 2 = true <;> simp [h0, h1, h2]

/-- a leaf dropped by the tree builder is seen (world: only key 2 signs) -/
theorem dropped_leaf_rejected :
    checkSemTr (.or [.atom (.key 0), .or [.atom (.key 1), .atom (.key 2)]])
      ⟨some 0, [.check (.pkK 1)]⟩ = false := by
  apply checkSemTr_false_of_world _ _ (mkWorld [.key 2] 0 0)
  simp [Pol.holdsCW, Pol.holdsC, Pol.countC, semTr, keyPath, satEx, availOfWorld, availOfVal, Pol.World.val, mkWorld]

/-- an extracted key that is neither the internal key nor in a leaf is seen (world: only key 0) -/
theorem missing_key_path_rejected :
    checkSemTr (.or [.atom (.key 0), .atom (.key 1)]) ⟨none, [.check (.pkK 1)]⟩ = false := by
  apply checkSemTr_false_of_world _ _ (mkWorld [.key 0] 0 0)
  simp [Pol.holdsCW, Pol.holdsC, Pol.countC, semTr, keyPath, satEx, availOfWorld, availOfVal, Pol.World.val, mkWorld]

/-- a key path that the policy does not grant is seen: `tr(0, and_v(v:pk(0), pk(1)))` for
`and(pk(0), pk(1))` (world: only key 0 signs) -/
theorem key_path_added_rejected :
    checkSemTr (.and [.atom (.key 0), .atom (.key 1)])
      ⟨some 0, [.andV (.verify (.check (.pkK 0))) (.check (.pkK 1))]⟩ = false := by
  apply checkSemTr_false_of_world _ _ (mkWorld [.key 0] 0 0)
  simp [Pol.holdsCW, Pol.holdsC, Pol.countC, semTr, keyPath, satEx, availOfWorld, availOfVal, Pol.World.val, mkWorld]

/-- the hypothesis of `checkCompileTr_sound` is satisfiable: `or(pk(0), and(pk(1), older(10)))`
compiled to `tr(0, and_v(v:pk(1), older(10)))` -/
example : ∃ ty, checkCompileTr envEx polEx (some 0)
    [(.andV (.verify (.check (.pkK 1))) (.older 10), ty)] = true := by
  refine ⟨(typeOf (.andV (.verify (.check (.pkK 1))) (.older 10))).getD Ty.FALSE, ?_⟩
  have hsem : checkSemTr polEx ⟨some 0, [.andV (.verify (.check (.pkK 1))) (.older 10)]⟩ = true := by
    apply List.all_eq_true.mpr
    intro W _
    simp only [polEx, Pol.holdsCW, Pol.holdsC, Pol.countC, semTr, keyPath, satEx, availOfWorld, availOfVal,
      Pol.World.val, List.any, List.length]
    by_cases h0 : W.canSign 0 = true <;> by_cases h1 : W.canSign 1 = true <;>
      by_cases h2 : Pol.csvOk W.nSequence 10 = true <;> simp [h0, h1, h2]
  have hleaf : checkLeaf envEx (.andV (.verify (.check (.pkK 1))) (.older 10),
      (typeOf (.andV (.verify (.check (.pkK 1))) (.older 10))).getD Ty.FALSE) = true := by decide +kernel
  have hfresh : internalFresh (some 0) [.andV (.verify (.check (.pkK 1))) (.older 10)] = true := by
    decide +kernel
  have hpk : pkOk envEx (saneParams .tap) 0 = true := by decide +kernel
  unfold checkCompileTr
  simp only [List.all_cons, List.all_nil, List.map, hleaf, hpk, hfresh, hsem, Bool.and_self]

/-- `d:` / `or_i` in a pre-segwit context is refused by the mirror of `Legacy::SANE` -/
theorem legacy_or_i_rejected :
    validateSane envEx .legacy (.orI (.check (.pkK 0)) (.check (.pkK 1))) = false := by decide +kernel
example : validateSane envEx .segwitv0 (.orI (.check (.pkK 0)) (.check (.pkK 1))) = true := by
  decide +kernel


/-- REGRESSION WITNESS (defect F13, fixed in /repo by "fix: compiler does not produce or_i / d:
fragments in contexts that forbid them"): before the fix `compile::<Legacy>()` returned, for
`thresh(2,pk(0),pk(1),older(10))`, the tree `thresh(2,pk(0),s:pk(1),snl:older(10))`
(= `…,s:n:or_i(0,older(10)))`).  `Legacy::SANE` forbids `or_i`, so the checker refuses exactly
that output — for this one reason only (`validateRest` accepts it, and the same tree is sane in
Segwitv0): should the compiler ever emit it again, `J compiled` fails with
`bad:sane(d-or-or_i-not-allowed-in-this-context)`. -/
def legacyOut : Ms :=
  .thresh 2 (.cons (.check (.pkK 0)) (.cons (.swap (.check (.pkK 1)))
    (.cons (.swap (.zeroNotEqual (.orI .fls (.older 10)))) .nil)))
theorem pre_fix_legacy_output_rejected : validateSane envEx .legacy legacyOut = false := by
  decide +kernel
example : validateSane envEx .segwitv0 legacyOut = true := by decide +kernel
example : validateRest envEx .legacy legacyOut = true := by decide +kernel

end MsVerif.C08

/-
C15 — Taproot outputs commit to exactly the described script tree.

All theorems quantify over EVERY script tree `t : Tree α` (any shape, any number of leaves,
any leaf scripts) and EVERY hash algebra `H` (`leafHash`, `branch` abstract; hence SHA-256
tagged hashes in particular).  Where BIP341's sorting of the two children matters the
commutativity of `branch` is an explicit hypothesis `H.Comm`.  Where the 128 limit matters the
hypothesis is `height t ≤ 128`, and the behaviour above the limit is stated too.
`none` in the model = the Rust function returns `Err(TapTreeDepthError)` or panics
(see Model/TapTree.lean); so `… = some …` includes "no error, no panic".

Model functions (Model/TapTree.lean) ↔ Rust:
  nodesFromTapTree ↔ TrSpendInfo::nodes_from_tap_tree      spendLeaves ↔ TrSpendInfo::leaves()
  SpendInfo.fromTr ↔ TrSpendInfo::from_tr                  buildFromOps ↔ TapTreeBuilder via Tr::from_tree
  TapTree.combine / translate / fmt ↔ TapTree::combine / translate_pk / Display
-/
import MsVerif.Lemmas.TapTreeNodes
import MsVerif.Lemmas.TapTreeIter
import MsVerif.Lemmas.TapTreeBuilder
import MsVerif.Lemmas.TapTreeCombine
import MsVerif.Lemmas.TapTreeDisplay
import MsVerif.Lemmas.TapTreeBip341
import MsVerif.Lemmas.TapTreeTranslate
import MsVerif.Lemmas.TapTreeDecode
import MsVerif.Lemmas.TapTreeKraft

namespace MsVerif.C15
open MsVerif MsVerif.Spec MsVerif.Spec.Tree MsVerif.Tap

variable {α β ν κ ω : Type}

/-! ## T1 — the Merkle root -/

/-- T1: for every tree, `nodes_from_tap_tree` on its depth list does not panic and the root
node's `sibling_hash` (= `TrSpendInfo::merkle_root`) is the BIP341 Merkle root.  (No depth
bound is needed here.) -/
theorem nodes_root (H : HashAlg α ν) (t : Tree α) :
    (nodesFromTapTree H (depths t)).bind merkleRootOf = some (root H t) := by
  simp [nodesFromTapTree_depths, merkleRootOf, encWith]

/-- T1, full node vector: all nodes in pre-order; every node except the root carries the hash
of its sibling subtree (`encWith`, Lemmas/TapTreeNodes.lean) -/
theorem nodes_all (H : HashAlg α ν) (t : Tree α) :
    nodesFromTapTree H (depths t) = some (encWith H (root H t) t) :=
  nodesFromTapTree_depths H t

/-- T4: the output key is the internal key tweaked by the Merkle root of the described tree
(`tweak` = rust-bitcoin's `tap_tweak`, a parameter), and by "no root" for a key-only output -/
theorem outputKey_commits (H : HashAlg α ν) (tweak : κ → Option ν → ω) (ik : κ) (t : Tree α) :
    (SpendInfo.fromTr H tweak ik (some (depths t))).map (·.outputKey)
      = some (tweak ik (some (root H t))) ∧
    (SpendInfo.fromTr H tweak ik (none : Option (TapTree α))).map (·.outputKey)
      = some (tweak ik none) := by
  simp [SpendInfo.fromTr, nodesFromTapTree_depths, merkleRootOf, encWith]

/-! ## T2 — control blocks -/

/-- T2 (main): for every tree of height ≤ 128 the spend-info iterator does not panic and
yields, leaf by leaf in pre-order, exactly the specification's sibling paths -/
theorem leaves_sibling_paths (H : HashAlg α ν) (t : Tree α) (ht : height t ≤ 128) :
    spendLeaves H (depths t) = some ((siblingPaths H t).map (fun p => ⟨p.1, p.2⟩)) := by
  have h := iterL_tree H t ht
  simp only [spendLeaves, nodesFromTapTree_depths, Option.bind_some, leavesOf]
  rw [iterCollect_sim _ _ _ _ [] RS_default]
  simpa [itemsOf] using h

/-- T2: the `i`-th item yielded is the `i`-th leaf with `merkle_branch = siblingPath t i` -/
theorem item_eq_siblingPath (H : HashAlg α ν) (t : Tree α) (ht : height t ≤ 128) (i : Nat) :
    (spendLeaves H (depths t)).bind (fun items => items[i]?) =
      (siblingPath H t i).map (fun p => ⟨p.1, p.2⟩) := by
  simp [leaves_sibling_paths H t ht, siblingPath, List.getElem?_map]

/-- T2: every control block proves its leaf against the Merkle root (BIP341 validation:
fold the path into the leaf hash), and is within the 128 limit -/
theorem controlBlock_verifies (H : HashAlg α ν) (hc : H.Comm) (t : Tree α) (ht : height t ≤ 128) :
    ∃ items, spendLeaves H (depths t) = some items ∧
      ∀ it ∈ items, verifyPath H (H.leafHash it.leaf) it.merkleBranch = root H t ∧
        it.merkleBranch.length ≤ maxDepth := by
  refine ⟨_, leaves_sibling_paths H t ht, ?_⟩
  intro it hit
  simp only [List.mem_map] at hit
  obtain ⟨p, hp, rfl⟩ := hit
  refine ⟨siblingPaths_verify H hc t p hp, ?_⟩
  have hd := siblingPaths_depths H t 0
  have hm : (p.2.length + 0, p.1) ∈ depthsFrom 0 t := by
    rw [← hd]; exact List.mem_map.mpr ⟨p, hp, rfl⟩
  have := depthsFrom_le t 0 _ hm
  simp [maxDepth] at this ⊢; omega

/-- T2/T5: `TrSpendInfo::leaves()` yields the same leaves, in the same order, with the same
depths (`depth() = merkle_branch.len()`) as `Tr::leaves()` / `TapTree::leaves()` -/
theorem leaves_order_depths (H : HashAlg α ν) (t : Tree α) (ht : height t ≤ 128) :
    (spendLeaves H (depths t)).map (fun items => items.map (fun it => (it.depth, it.leaf)))
      = some (depths t) := by
  rw [leaves_sibling_paths H t ht]
  have := siblingPaths_depths H t 0
  simp only [Nat.add_zero] at this
  simp [Item.depth, List.map_map, Function.comp_def, depths, this]

/-! ## T3 — bitmaps, builder, combine -/

/-- T3: `BitStack128` refines a list of booleans while at most 128 bits are pushed
(`RS` = refinement relation, Lemmas/TapTreeBits.lean); beyond that `push` is the Rust panic -/
theorem bitstack128_refines_list (s : BitStack128) (l : List Bool) (h : RS s l) :
    (∀ b, l.length < 128 → ∃ s', s.push b = some s' ∧ RS s' (b :: l)) ∧
    (∀ b, ¬ l.length < 128 → s.push b = none) ∧
    (∀ x l', l = x :: l' → ∃ s', s.pop = some (x, s') ∧ RS s' l') ∧
    (l = [] → s.pop = none) ∧ RS BitStack128.default [] := by
  refine ⟨fun b hl => h.push_some hl b, fun b hl => h.push_none hl b, ?_, ?_, RS_default⟩
  · intro x l' e; subst e; exact h.pop_cons
  · intro e; subst e; exact h.pop_nil

/-- T3: parsing `{…}` with `TapTreeBuilder` (pre-order walk `opsOf t`, then `finalize`)
rebuilds exactly `depths t` for every tree of height ≤ 128 — the depth-128 special case
included — and returns the depth error for every deeper tree -/
theorem builder_inverse (t : Tree α) :
    buildFromOps (opsOf t) = if height t ≤ 128 then some (depths t) else none :=
  buildFromOps_tree t

/-- T3: the builder's height never exceeds 128, so its `1 << current_height` shifts are by at
most 127 (the loop is entered only below 128) -/
theorem builder_height_le (ops : List (BOp α)) (b : Builder α)
    (h : Builder.run ops Builder.new = some b) : b.currentHeight ≤ 128 :=
  run_height_le ops b h

/-- T3: `TapTree::combine` is `Tree.node` on depth lists; it errors iff the combined tree would
be deeper than 128 -/
theorem combine_depths (l r : Tree α) :
    TapTree.combine (depths l) (depths r) =
      if height (Tree.node l r) ≤ 128 then some (depths (Tree.node l r)) else none :=
  combine_depths_aux l r

/-- `TapTree::leaf` is a single-leaf tree -/
theorem leaf_depths (s : α) : TapTree.leaf s = depths (Tree.leaf s) := rfl

/-! ## T5 — the tree survives formatting, parsing, translation -/

/-- a depth list describes at most one tree: what is committed to is *exactly* the tree -/
theorem depths_injective (t₁ t₂ : Tree α) (h : depths t₁ = depths t₂) : t₁ = t₂ :=
  depths_inj t₁ t₂ h

/-- T5: `Display` prints the depth list of a tree as that tree's `{l,r}` text -/
theorem display_tree (t : Tree α) : TapTree.fmt (depths t) = tokens t := fmt_tree t

/-- T5: formatting then parsing (the tokens of `t` are walked in pre-order as `opsOf t`) gives
back the same `TapTree` value -/
theorem parse_display_roundtrip (t : Tree α) (ht : height t ≤ 128) :
    TapTree.fmt (depths t) = tokens t ∧ buildFromOps (opsOf t) = some (depths t) := by
  refine ⟨fmt_tree t, ?_⟩
  simp [buildFromOps_tree, ht]

/-- T5: `translate_pk` keeps every depth and the order, and maps the leaves pointwise -/
theorem translate_preserves (f : α → Option β) (t : TapTree α) (t' : TapTree β)
    (h : TapTree.translate f t = some t') :
    t'.map (·.1) = t.map (·.1) ∧ t'.map (fun p => some p.2) = t.map (fun p => f p.2) :=
  translate_some f t t' h

/-- the specification is consistent: with a commutative branch hash every sibling path of the
specification folds to the specification's root (so T2 is not vacuous in `siblingPaths`) -/
theorem spec_paths_verify (H : HashAlg α ν) (hc : H.Comm) (t : Tree α) :
    ∀ p ∈ siblingPaths H t, verifyPath H (H.leafHash p.1) p.2 = root H t :=
  siblingPaths_verify H hc t

/-- T5, error propagation: `Tr::translate_pk` returns a descriptor exactly when every leaf
translates (translator and context check) and the internal key does; otherwise it returns an
error and nothing else -/
theorem translate_pk_ok_iff (f : α → Except TrErr β) (fk : κ → Except TrErr ω) (ik : κ)
    (t : TapTree α) :
    (∃ r, trTranslate f fk ik (some t) = .ok r) ↔
      (∀ p ∈ t, ∃ s, f p.2 = .ok s) ∧ ∃ k, fk ik = .ok k := by
  rw [trTranslate_some, ← leafLoop_ok_iff]
  cases hl : leafLoop f t with
  | error e => simp
  | ok t' => cases hk : fk ik <;> simp

/-- T5: when it succeeds, every depth and the order are kept and leaf `i` is the translation of
leaf `i`; the first error in translation order (leaves left to right, then the internal key)
is the one reported -/
theorem translate_pk_ok_preserves (f : α → Except TrErr β) (fk : κ → Except TrErr ω) (ik : κ)
    (t : TapTree α) (k : ω) (t' : Option (TapTree β))
    (h : trTranslate f fk ik (some t) = .ok (k, t')) :
    ∃ t'', t' = some t'' ∧ fk ik = .ok k ∧ t''.map (·.1) = t.map (·.1) ∧
      t''.map (fun p => Except.ok p.2) = t.map (fun p => f p.2) := by
  rw [trTranslate_some] at h
  cases hl : leafLoop f t with
  | error e => simp [hl] at h
  | ok t'' =>
    cases hk : fk ik with
    | error e => simp [hl, hk] at h
    | ok k' =>
      simp [hl, hk] at h
      obtain ⟨rfl, rfl⟩ := h
      exact ⟨t'', rfl, rfl, leafLoop_ok f t t'' hl⟩

example : trTranslate (fun (i : Nat) => if i = 1 then .error .outer else .ok (i + 10))
    (fun (_ : Nat) => (.error .translator : Except TrErr Nat)) 0 (some [(1, 0), (1, 1)])
    = .error .outer := by rfl
example : trTranslate (fun (i : Nat) => (.ok (i + 10) : Except TrErr Nat))
    (fun (k : Nat) => (.ok k : Except TrErr Nat)) 7 (some [(1, 0), (1, 1)])
    = .ok (7, some [(1, 10), (1, 11)]) := by rfl

/-- the decoder the PSBT judge uses (`Tree.ofDepths`, a recursive-descent reading of a BIP 371
depth list) inverts `depths`: a depth list that comes from a tree decodes to exactly that tree -/
theorem ofDepths_inverts_depths (t : Tree α) : Tree.ofDepths (depths t) = some t :=
  Tree.ofDepths_depths t

example : Tree.ofDepths [(1, 7), (2, 8), (2, 9)] = some (.node (.leaf 7) (.node (.leaf 8) (.leaf 9))) := by
  decide
example : Tree.ofDepths [(1, 7), (2, 8)] = none := by decide

/-! ## Every reachable `TapTree` value is the depth list of a tree

`TapTree` has no public constructor from a raw depth list: values arise from `TapTree::leaf`,
`TapTree::combine` and `TapTreeBuilder` fed with the pre-order walk of a `{…}` expression.  The
theorems above are stated for `depths t`; `reachable_is_tree` shows that this covers every
value the API can produce, and the Kraft equality is the arithmetic invariant such lists obey
(the single pass of `nodes_from_tap_tree` relies on it to terminate with exactly one root). -/

/-- the `TapTree` values the public API can construct -/
inductive Reachable : TapTree α → Prop where
  | leaf (s : α) : Reachable (TapTree.leaf s)
  | combine (l r tt : TapTree α) : Reachable l → Reachable r →
      TapTree.combine l r = some tt → Reachable tt
  | build (t : Tree α) (tt : TapTree α) : buildFromOps (opsOf t) = some tt → Reachable tt

/-- every reachable `TapTree` is the depth list of exactly one script tree, of height ≤ 128 -/
theorem reachable_is_tree (tt : TapTree α) (h : Reachable tt) :
    ∃ t : Tree α, height t ≤ 128 ∧ tt = depths t ∧ ∀ t', tt = depths t' → t' = t := by
  have key : ∃ t : Tree α, height t ≤ 128 ∧ tt = depths t := by
    induction h with
    | leaf s => exact ⟨Tree.leaf s, by simp [height], rfl⟩
    | combine l r tt _ _ hc ihl ihr =>
      obtain ⟨tl, _, rfl⟩ := ihl
      obtain ⟨tr, _, rfl⟩ := ihr
      rw [combine_depths] at hc
      by_cases hh : height (Tree.node tl tr) ≤ 128
      · rw [if_pos hh] at hc
        exact ⟨Tree.node tl tr, hh, (Option.some.inj hc).symm⟩
      · rw [if_neg hh] at hc; cases hc
    | build t tt hb =>
      rw [builder_inverse] at hb
      by_cases hh : height t ≤ 128
      · rw [if_pos hh] at hb
        exact ⟨t, hh, (Option.some.inj hb).symm⟩
      · rw [if_neg hh] at hb; cases hb
  obtain ⟨t, ht, rfl⟩ := key
  exact ⟨t, ht, rfl, fun t' e => depths_injective t' t e.symm⟩

/-- Kraft's equality: for every tree and every horizon `H ≥ height t`,
`Σ_leaves 2^(H - depth) = 2^H` -/
theorem kraft_equality (t : Tree α) (H : Nat) (h : height t ≤ H) :
    kraft H (depths t) = 2 ^ H := by
  have := kraft_depthsFrom t 0 H (by omega)
  simpa [depths] using this

/-- a tree within the depth limit has at most `2^height` leaves, and at least one -/
theorem leaves_count_bounds (t : Tree α) :
    1 ≤ (depths t).length ∧ (depths t).length ≤ 2 ^ height t := by
  refine ⟨?_, depths_length_le t⟩
  have := Tree.depthsFrom_ne_nil t 0
  unfold depths
  cases h : depthsFrom 0 t with
  | nil => exact absurd h this
  | cons _ _ => simp

/-- a tree's depth list is never a proper prefix of another tree's depth list -/
theorem depths_no_proper_prefix (t₁ t₂ : Tree α) (rest : List (Nat × α))
    (h : depths t₁ ++ rest = depths t₂) : rest = [] ∧ t₁ = t₂ :=
  depths_prefix_free t₁ t₂ rest h

/-- the reachable closure is not vacuous: combining a leaf with a built tree is reachable -/
example : Reachable (α := Nat) [(1, 7), (2, 8), (2, 9)] :=
  .combine (TapTree.leaf 7) [(1, 8), (1, 9)] _ (.leaf 7)
    (.build (.node (.leaf 8) (.leaf 9)) _ (by decide)) (by decide)
example : kraft 3 ([(1, 7), (2, 8), (2, 9)] : List (Nat × Nat)) = 2 ^ 3 := by decide

/-! ## Real hashes: the byte-level BIP341 instance (Spec/Bip341.lean)

Nothing above assumes that different leaves carry different scripts: `Tree α` may repeat a leaf
any number of times, at equal or different depths, and every statement (root, sibling paths,
order, depths) is about leaf POSITIONS.  The theorems below instantiate the abstract hashes
with tagged SHA-256. -/

/-- BIP341's TapBranch hash sorts its two children, hence is commutative: the `H.Comm`
hypothesis of `controlBlock_verifies` holds for the real hash functions -/
theorem bip341_branch_comm : Bip341.alg.Comm := Bip341.alg_comm

/-- for every tree of scripts (repetitions allowed) of height ≤ 128: every yielded control-block
path, put into ANY control block with the tapscript leaf version, makes BIP341's script-path
computation (`committedRoot`: TapLeaf hash of the script folded through the path with sorted
TapBranch hashes) arrive at the Merkle root that `merkle_root()` reports and that the output
key is tweaked with (`outputKey_commits`) -/
theorem controlBlock_verifies_bip341 (t : Tree Hash.Bytes) (ht : height t ≤ 128) :
    ∃ items, spendLeaves Bip341.alg (depths t) = some items ∧
      (nodesFromTapTree Bip341.alg (depths t)).bind merkleRootOf = some (root Bip341.alg t) ∧
      ∀ it ∈ items, ∀ (odd : Bool) (ik : Hash.Bytes),
        Bip341.committedRoot ⟨Bip341.tapscriptVersion, odd, ik, it.merkleBranch⟩ it.leaf
          = root Bip341.alg t ∧ it.merkleBranch.length ≤ maxDepth := by
  obtain ⟨items, h1, h2⟩ := controlBlock_verifies Bip341.alg bip341_branch_comm t ht
  exact ⟨items, h1, nodes_root Bip341.alg t, fun it hit _ _ => h2 it hit⟩

/-- the one-pass (root, sibling paths) function the driver's `trcommit` judge evaluates is the
specification's `root` and `siblingPaths` -/
theorem judge_rootAndPaths (H : HashAlg α ν) (t : Tree α) :
    rootAndPaths H t = (root H t, siblingPaths H t) := rootAndPaths_eq H t

/-! ## Non-vacuity: concrete instances -/

/-- a tree with REPEATED leaves: `{{0,1},{1,{0,0}}}` -/
def exDup : Tree Nat :=
  .node (.node (.leaf 0) (.leaf 1)) (.node (.leaf 1) (.node (.leaf 0) (.leaf 0)))
example : depths exDup = [(2, 0), (2, 1), (2, 1), (3, 0), (3, 0)] := by decide
example : (spendLeaves termAlg (depths exDup)).map (fun l => l.map (fun it => (it.depth, it.leaf))) =
    some (depths exDup) := leaves_order_depths termAlg exDup (by decide)
example : (spendLeaves termAlg (depths exDup)).map (fun l => l.map (·.merkleBranch)) =
    some [[.leaf 1, .branch (.leaf 1) (.branch (.leaf 0) (.leaf 0))],
          [.leaf 0, .branch (.leaf 1) (.branch (.leaf 0) (.leaf 0))],
          [.branch (.leaf 0) (.leaf 0), .branch (.leaf 0) (.leaf 1)],
          [.leaf 0, .leaf 1, .branch (.leaf 0) (.leaf 1)],
          [.leaf 0, .leaf 1, .branch (.leaf 0) (.leaf 1)]] := by decide
example : height (Tree.node (Tree.leaf [0x00]) (Tree.leaf [0x00]) : Tree Hash.Bytes) ≤ 128 := by decide


/-- `{{0,1},{2,{3,4}}}` -/
def exTree : Tree Nat :=
  .node (.node (.leaf 0) (.leaf 1)) (.node (.leaf 2) (.node (.leaf 3) (.leaf 4)))

/-- a (toy) commutative hash algebra, to instantiate the `H.Comm` hypothesis -/
def sumAlg : HashAlg Nat Nat := ⟨fun s => s + 1, fun a b => a + b⟩
theorem sumAlg_comm : sumAlg.Comm := fun a b => Nat.add_comm a b

example : depths exTree = [(2, 0), (2, 1), (2, 2), (3, 3), (3, 4)] := by decide
example : height exTree ≤ 128 := by decide
example : (nodesFromTapTree termAlg (depths exTree)).bind merkleRootOf =
    some (.branch (.branch (.leaf 0) (.leaf 1)) (.branch (.leaf 2) (.branch (.leaf 3) (.leaf 4)))) := by
  decide
example : (spendLeaves termAlg (depths exTree)).map (fun l => l.map (·.merkleBranch)) =
    some [[.leaf 1, .branch (.leaf 2) (.branch (.leaf 3) (.leaf 4))],
          [.leaf 0, .branch (.leaf 2) (.branch (.leaf 3) (.leaf 4))],
          [.branch (.leaf 3) (.leaf 4), .branch (.leaf 0) (.leaf 1)],
          [.leaf 4, .leaf 2, .branch (.leaf 0) (.leaf 1)],
          [.leaf 3, .leaf 2, .branch (.leaf 0) (.leaf 1)]] := by decide
example : ∃ items, spendLeaves sumAlg (depths exTree) = some items ∧ items.length = 5 :=
  ⟨_, leaves_sibling_paths sumAlg exTree (by decide), by decide⟩
example : ∃ items, spendLeaves sumAlg (depths exTree) = some items ∧
    ∀ it ∈ items, verifyPath sumAlg (sumAlg.leafHash it.leaf) it.merkleBranch = root sumAlg exTree ∧
      it.merkleBranch.length ≤ maxDepth :=
  controlBlock_verifies sumAlg sumAlg_comm exTree (by decide)
example : TapTree.fmt (depths exTree) = tokens exTree := by decide
example : buildFromOps (opsOf exTree) = some (depths exTree) := by decide
example : TapTree.combine (depths (Tree.leaf 7)) (depths exTree) =
    some [(1, 7), (3, 0), (3, 1), (3, 2), (4, 3), (4, 4)] := by decide

end MsVerif.C15

/-
C05 — fragment typing equals the Miniscript specification's tables.

Every theorem quantifies over the COMPLETE domain of the Rust type representation
(80 correctness values × 12 malleability values per child; thresholds for every `k` and every
child list).  `eqC`/`=`: the library's rule is exactly the specification's row;
`leC`/`le`: it grants a subset of the specification's letters (deliberately conservative).
The only non-exact rows are listed in `conservativeDeviations` at the end.
-/
import MsVerif.Lemmas.TypesEnum
import MsVerif.Lemmas.Thresh

namespace MsVerif.C05
open MsVerif Spec

/-! ## Leaves -/
theorem leaf_true   : Ty.TRUE.toSpec  = ⟨C.one,  M.one⟩ := by decide
theorem leaf_false  : Ty.FALSE.toSpec = ⟨C.zero, M.zero⟩ := by decide
theorem leaf_pk_k   : Ty.pkK.toSpec   = ⟨C.pkK,  M.pkK⟩ := by decide
theorem leaf_pk_h   : Ty.pkH.toSpec   = ⟨C.pkH,  M.pkH⟩ := by decide
theorem leaf_multi  : Ty.multi.toSpec = ⟨C.multi, M.multi⟩ := by decide
theorem leaf_sortedmulti : Ty.sortedmulti.toSpec = ⟨C.multi, M.multi⟩ := by decide
theorem leaf_multi_a : Ty.multiA.toSpec = ⟨C.multiA, M.multiA⟩ := by decide
theorem leaf_sortedmulti_a : Ty.sortedmultiA.toSpec = ⟨C.multiA, M.multiA⟩ := by decide
theorem leaf_hash   : Ty.hash.toSpec  = ⟨C.hash, M.hash⟩ := by decide
theorem leaf_time   : Ty.time.toSpec  = ⟨C.time, M.time⟩ := by decide

/-! ## Correctness rules: rejects exactly what the specification rejects, result letters equal -/
theorem corr_a : ∀ x, eqC (Corr.castAlt x) (C.wrapA x.toSpec) = true :=
  forall_corr (by decide +kernel)
theorem corr_s : ∀ x, eqC (Corr.castSwap x) (C.wrapS x.toSpec) = true :=
  forall_corr (by decide +kernel)
/-- `c:`: exact on every child except the *unreachable* combination "K and z" (no K-typed
fragment is zero-arg: `Reach.K_not_zero` below), where the library copies `z` through. -/
theorem corr_c : ∀ x, ((x.base == .K && x.input == .zero)
    || eqC (Corr.castCheck x) (C.wrapC x.toSpec)) = true :=
  forall_corr (by decide +kernel)
/-- `d:` outside Tapscript: exact -/
theorem corr_d_nontap : ∀ x, eqC (Corr.castDupIf x) (C.wrapD false x.toSpec) = true :=
  forall_corr (by decide +kernel)
/-- `d:` under Tapscript: the library withholds `u` (conservative), never stronger -/
theorem corr_d_tap : ∀ x, leC (Corr.castDupIf x) (C.wrapD true x.toSpec) = true :=
  forall_corr (by decide +kernel)
theorem corr_v : ∀ x, eqC (Corr.castVerify x) (C.wrapV x.toSpec) = true :=
  forall_corr (by decide +kernel)
theorem corr_j : ∀ x, eqC (Corr.castNonZero x) (C.wrapJ x.toSpec) = true :=
  forall_corr (by decide +kernel)
theorem corr_n : ∀ x, eqC (Corr.castZeroNotEqual x) (C.wrapN x.toSpec) = true :=
  forall_corr (by decide +kernel)
/-- `t:X` is `and_v(X,1)` -/
theorem corr_t : ∀ x, eqC (Corr.castTrue x) (C.andV x.toSpec C.one) = true :=
  forall_corr (by decide +kernel)
/-- `l:X` is `or_i(0,X)` -/
theorem corr_l : ∀ x, eqC (Corr.castOrIFalse x) (C.orI C.zero x.toSpec) = true :=
  forall_corr (by decide +kernel)
/-- `u:X` is `or_i(X,0)` -/
theorem corr_u : ∀ x, eqC (Corr.castOrIFalse x) (C.orI x.toSpec C.zero) = true :=
  forall_corr (by decide +kernel)

theorem corr_and_b : ∀ x y, eqC (Corr.andB x y) (C.andB x.toSpec y.toSpec) = true :=
  forall_corr2 (by decide +kernel)
theorem corr_and_v : ∀ x y, eqC (Corr.andV x y) (C.andV x.toSpec y.toSpec) = true :=
  forall_corr2 (by decide +kernel)
theorem corr_or_b : ∀ x y, eqC (Corr.orB x y) (C.orB x.toSpec y.toSpec) = true :=
  forall_corr2 (by decide +kernel)
theorem corr_or_c : ∀ x y, eqC (Corr.orC x y) (C.orC x.toSpec y.toSpec) = true :=
  forall_corr2 (by decide +kernel)
theorem corr_or_d : ∀ x y, eqC (Corr.orD x y) (C.orD x.toSpec y.toSpec) = true :=
  forall_corr2 (by decide +kernel)
theorem corr_or_i : ∀ x y, eqC (Corr.orI x y) (C.orI x.toSpec y.toSpec) = true :=
  forall_corr2 (by decide +kernel)

/-- `andor`: 80³ triples, split into the five components the rule actually reads -/
theorem corr_andor : ∀ x y z,
    eqC (Corr.andOr x y z) (C.andOr x.toSpec y.toSpec z.toSpec) = true := by
  intro ⟨xb, xi, xd, xu⟩ ⟨yb, yi, yd, yu⟩ ⟨zb, zi, zd, zu⟩
  have hi := forall_input3
    (P := fun a b c => (Corr.andOrInput a b c).z == (a.z && b.z && c.z)
      && (Corr.andOrInput a b c).o == ((a.z && b.o && c.o) || (a.o && b.z && c.z))
      && (Corr.andOrInput a b c).n == false) (by decide +kernel) xi yi zi
  simp only [Bool.and_eq_true, beq_iff_eq] at hi
  obtain ⟨⟨h1, h2⟩, h3⟩ := hi
  cases xb <;> cases yb <;> cases zb <;> cases xd <;> cases xu <;>
    simp [Corr.andOr, C.andOr, Corr.toSpec, Base.toSpec, eqC, h1, h2, h3]

/-! ## Malleability rules: exact on the complete domain -/
theorem mall_a : ∀ x, (Mall.castAlt x).toSpec = M.wrapA x.toSpec :=
  forall_mall_eq (by decide +kernel)
theorem mall_s : ∀ x, (Mall.castSwap x).toSpec = M.wrapS x.toSpec :=
  forall_mall_eq (by decide +kernel)
theorem mall_n : ∀ x, (Mall.castZeroNotEqual x).toSpec = M.wrapN x.toSpec :=
  forall_mall_eq (by decide +kernel)
/-- `c:`: the specification grants `s` unconditionally, the library passes the child's `s`
through (every K-typed child is `s` anyway): never stronger -/
theorem mall_c : ∀ x, ((Mall.castCheck x).toSpec.le (M.wrapC x.toSpec)) = true :=
  forall_mall (by decide +kernel)
theorem mall_c_exact_on_signed : ∀ x, x.signed = true →
    (Mall.castCheck x).toSpec = M.wrapC x.toSpec := by
  intro ⟨d, s, m⟩ h; cases d <;> cases m <;> simp_all [Mall.castCheck, Mall.toSpec, M.wrapC]
theorem mall_d : ∀ x, (Mall.castDupIf x).toSpec = M.wrapD x.toSpec :=
  forall_mall_eq (by decide +kernel)
theorem mall_v : ∀ x, (Mall.castVerify x).toSpec = M.wrapV x.toSpec :=
  forall_mall_eq (by decide +kernel)
theorem mall_j : ∀ x, (Mall.castNonZero x).toSpec = M.wrapJ x.toSpec :=
  forall_mall_eq (by decide +kernel)
theorem mall_t : ∀ x, (Mall.castTrue x).toSpec = M.andV x.toSpec M.one :=
  forall_mall_eq (by decide +kernel)
theorem mall_l : ∀ x, (Mall.castOrIFalse x).toSpec = M.orI M.zero x.toSpec :=
  forall_mall_eq (by decide +kernel)
theorem mall_u : ∀ x, (Mall.castOrIFalse x).toSpec = M.orI x.toSpec M.zero :=
  forall_mall_eq (by decide +kernel)

theorem mall_and_b : ∀ x y, (Mall.andB x y).toSpec = M.andB x.toSpec y.toSpec :=
  forall_mall2_eq (by decide +kernel)
theorem mall_and_v : ∀ x y, (Mall.andV x y).toSpec = M.andV x.toSpec y.toSpec :=
  forall_mall2_eq (by decide +kernel)
theorem mall_or_b : ∀ x y, (Mall.orB x y).toSpec = M.orB x.toSpec y.toSpec :=
  forall_mall2_eq (by decide +kernel)
theorem mall_or_c : ∀ x y, (Mall.orC x y).toSpec = M.orC x.toSpec y.toSpec :=
  forall_mall2_eq (by decide +kernel)
theorem mall_or_d : ∀ x y, (Mall.orD x y).toSpec = M.orD x.toSpec y.toSpec :=
  forall_mall2_eq (by decide +kernel)
theorem mall_or_i : ∀ x y, (Mall.orI x y).toSpec = M.orI x.toSpec y.toSpec :=
  forall_mall2_eq (by decide +kernel)
theorem mall_andor : ∀ x y z,
    (Mall.andOr x y z).toSpec = M.andOr x.toSpec y.toSpec z.toSpec :=
  forall_mall3_eq (by decide +kernel)

/-! ## Thresholds: every `k`, every child list (no bound on `n`) -/
theorem corr_thresh (k : Nat) (xs : List Corr) (hne : xs ≠ []) :
    eqC (Corr.threshold k xs) (C.thresh k (xs.map Corr.toSpec)) = true :=
  Thresh.corr_threshold_spec k xs hne

/-- `Threshold` guarantees `k ≤ n`; under exactly that guard the malleability fold equals
the specification's counting formulation. -/
theorem mall_thresh (k : Nat) (xs : List Mall) (hk : k ≤ xs.length) :
    (Mall.threshold k xs).toSpec = M.thresh k (xs.map Mall.toSpec) :=
  Thresh.mall_threshold_spec k xs hk

/-! ## The product glue (`Type::*` = correctness × malleability) -/
theorem ty_lift1 (fc fm) (t : Ty) :
    Ty.lift1 fc fm t = (fc t.corr).map (fun c => ⟨c, fm t.mall⟩) := by
  unfold Ty.lift1; cases fc t.corr <;> rfl
theorem ty_lift2 (fc fm) (l r : Ty) :
    Ty.lift2 fc fm l r = (fc l.corr r.corr).map (fun c => ⟨c, fm l.mall r.mall⟩) := by
  unfold Ty.lift2; cases fc l.corr r.corr <;> rfl

/-! ## The `c:` exception is unreachable -/
/-- no correctness type derivable from the leaves through the rules is "K and zero-arg" -/
theorem K_never_zero_arg {c : Corr} (h : Reach c) : c.kz = false := Reach.K_not_zero h
/-- hence `c:` is exact on every derivable child -/
theorem corr_c_reachable {x : Corr} (h : Reach x) :
    eqC (Corr.castCheck x) (C.wrapC x.toSpec) = true := by
  have := corr_c x
  have hk : x.kz = false := Reach.K_not_zero h
  simp only [Corr.kz] at hk
  simpa [hk] using this

/-! ## Sanity invariants of every type the rules can produce from sane children -/
/-- what `Type::sanity_checks` + `Correctness::sanity_checks` assert -/
def sane (t : Ty) : Bool :=
  (!t.corr.dissat || t.mall.dissat != .none)
  && (t.mall.dissat == .none || t.corr.base != .V)
  && (t.mall.signed || t.corr.base != .K)
  && (t.mall.nonMall || t.corr.input != .zero)
  && (match t.corr.base with
      | .B => true
      | .K => t.corr.unit
      | .V => !t.corr.unit && !t.corr.dissat
      | .W => t.corr.input != .oneNonZero && t.corr.input != .anyNonZero)

/-- the deliberate deviations from exact equality, each proved above in its direction -/
def conservativeDeviations : List String :=
  ["d: under Tapscript — the specification grants u, the library does not (corr_d_tap)",
   "c: — the specification grants s unconditionally, the library copies the child's s " ++
   "(mall_c; exact whenever the child is s, which every K type is: mall_c_exact_on_signed)"]

/-! ## Non-vacuity: the hypotheses/definitions are inhabited by real rows -/
example : Corr.andOr Corr.multi Corr.pkK Corr.pkH = some ⟨.K, .any, true, true⟩ := by decide
example : Corr.orD Corr.multi Corr.time = some ⟨.B, .any, false, false⟩ := by decide
example : Mall.threshold 2 [Mall.pkK, Mall.hash, Mall.pkK] = ⟨.unknown, true, false⟩ := by decide
example : (2 : Nat) ≤ [Mall.pkK, Mall.hash, Mall.pkK].length := by decide
example : Corr.threshold 2 [Corr.FALSE, ⟨.W, .any, true, true⟩] = some ⟨.B, .any, true, true⟩ := by
  decide

end MsVerif.C05

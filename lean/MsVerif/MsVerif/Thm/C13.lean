/-
C13 — the transaction interpreter agrees with real script execution.

Model: `Model/Interp.lean` (big-step form of `Iter::iter_next` over the abstract stack), tied to
the Rust iterator by the `C interp` correspondence lines of every run.  Script side:
`Spec/Frag.lean` (structured per-fragment semantics, executed with the very same `execOpc` as the
flat interpreter).

T1  `interp_sound`         interpreter accepts  ⇒  Script accepts, with a clean stack
      * `interp_sound_partial`  PROVED for EVERY miniscript the script decoder can produce (`WF`:
        0, 1, pk_k, pk_h, raw_pkh, after, older, the four hashes, a: s: c: d: v: j: n:, and_v, and_b,
        or_b, or_c, or_d, or_i, andor, thresh (any k, n), multi (CHECKMULTISIG key walk with the
        exchange argument), multi_a).  `_partial` because of two hypotheses: limits off (`NoLimits`)
        and transaction version ≥ 2 (`Agree.version`).
      * `interp_sound_full` (no version assumption) is FALSE: `interp_sound_full_false`, from the
        counterexample `interp_unsound_csv_tx_version_1` — the remaining finding `csv-tx-version-1`.
      * witness elements are assumed shorter than 2^31 bytes (`TopSound`; needed by `j:`)
      * `interp_fragment_sound_partial`  the simulation per base type (B / V / K / W)
      * `interp_accept_imp_script_accepts_partial`  composition with `Thm/Bridge.lean`: the flat
        opcode interpreter accepts the encoded script
      * `interp_sound_any_verifier_partial`: the same for `iter_assume_sigs` / `iter_custom`
      * concrete accepting runs (`msBig_run_multi`, `msBig_run_thresh`, `msTap_run`) through multi,
        thresh, multi_a, s:, d:, j:, a hash and both locks, and the resulting Script acceptances
T2  `constraints_checked`  every reported constraint was checked successfully (ALL fragments) and
      holds in Script's environment (`constraints_hold_for_script`);
    `reported_constraints_exact_partial`  conversely the report is EXACTLY the list of successful
      checks of an instrumented reading of the Script semantics (fragment set `InterpChecks.CSup`)
T3  `constraints_satisfy_policy_partial`  the reported constraints make `Spec/MsSem.sem` true
      (all fragments; descriptor AST, i.e. no bare raw_pkh)
Open: "accepts every satisfaction the library produces" (composition of C01's soundness with a
      completeness lemma of the model interpreter on canonical witnesses) — judged per run only
      (`J interp-accepts-own`, `J interp-accepts-own-m`).
Fixed in /repo and followed by the model (positive facts): `after_final_sequence_rejected`,
      `schnorr_parse_is_bip341`, `committed_script_is_the_element`.
-/
import MsVerif.Lemmas.InterpSound
import MsVerif.Lemmas.InterpConstraints
import MsVerif.Thm.Bridge
import MsVerif.Lemmas.InterpPolicy
import MsVerif.Lemmas.InterpChecks

namespace MsVerif.C13
open MsVerif Script Interp InterpSound

/-! ### T1 -/

/-- interpreter accepts ⇒ the structured Script semantics ends with exactly one true element.
The witness elements are shorter than 2^31 bytes (BIP141 / policy: ≤ 520 bytes for v0 and tapscript;
consensus: the 4 MB block weight) — `j:` computes `SIZE` of one of them as a 4-byte script number -/
def TopSound (env : Env) (ke : KeyEnv) (ie : IEnv) (ctx : Ctx) (ms : Ms) : Prop :=
  ∀ ty, typeOf ms = some ty → ty.corr.base = .B →
    ∀ (c : List Bytes) (cs : List Constraint), (∀ e ∈ c, e.length < 2 ^ 31) →
      interpTop ke ie ms (absS c) = .ok cs →
      ∃ v ops', frag env ke ctx ms ⟨c, [], 0⟩ = .ok ⟨[v], [], ops'⟩ ∧ castToBool v = true

mutual
/-- the side conditions under which T1 is stated: the AST is one the script decoder produces (no
`sortedmulti` / `sortedmulti_a` node), keys are well-formed for the context, thresholds are
`1 ≤ k ≤ n` (with `n ≤ 20` for CHECKMULTISIG), lock values are what `AbsLockTime` / `RelLockTime`
can carry, `multi` / `multi_a` live in the right context -/
def WF (env : Env) (ke : KeyEnv) : Ms → Prop
  | .tru | .fls | .pkH _ | .rawPkH _ | .hash _ _ => True
  | .pkK k => pubkeyOk env (ke.ser k) = true
  | .after n | .older n => 0 < n ∧ n < 2 ^ 31
  | .alt x | .swap x | .check x | .dupIf x | .verify x | .nonZero x | .zeroNotEqual x => WF env ke x
  | .andV l r | .andB l r | .orB l r | .orC l r | .orD l r | .orI l r => WF env ke l ∧ WF env ke r
  | .andOr a b c => WF env ke a ∧ WF env ke b ∧ WF env ke c
  | .thresh k xs => 1 ≤ k ∧ k ≤ xs.length ∧ xs.length < 2 ^ 31 ∧ WFList env ke xs
  | .multi k ks =>
    env.flags.tapscript = false ∧ 1 ≤ k ∧ k ≤ ks.length ∧ ks.length ≤ 20
      ∧ ∀ key ∈ ks, pubkeyOk env (ke.ser key) = true
  | .multiA k ks =>
    env.flags.tapscript = true ∧ 1 ≤ k ∧ k ≤ ks.length ∧ ks.length < 2 ^ 31
      ∧ ∀ key ∈ ks, pubkeyOk env (ke.ser key) = true
  | .sortedMulti _ _ | .sortedMultiA _ _ => False
def WFList (env : Env) (ke : KeyEnv) : MsList → Prop
  | .nil => True
  | .cons x xs => WF env ke x ∧ WFList env ke xs
end

/-- the lock-value side condition of `Sup` (script-number codec round trip) holds for every value
an `AbsLockTime` / `RelLockTime` can carry -/
theorem lockOk_of_lt (env : Env) {n : Nat} (h0 : 0 < n) (h : n < 2 ^ 31) : LockOk env n := by
  have ok := SatSpec.numOk_of_lt n (by omega)
  have d4 := ok.1 env.flags.minimalNum
  refine ⟨?_, ?_, h0, ?_, ?_⟩
  · rw [lockVal_eq]; exact SatSpec.numDecode_5_of_4 d4
  · rw [lockVal_eq]; exact d4
  · rw [lockVal_eq]; exact ok.2 (by omega)
  · show n < 2147483648; omega

mutual
/-- C06's structural well-formedness (`thresh` non-empty, `multi` ≤ 20 keys) follows from `WF` -/
theorem wf_of_WF {env : Env} {ke : KeyEnv} : (ms : Ms) → WF env ke ms → TypeSound.wf ms = true
  | .tru, _ | .fls, _ | .pkK _, _ | .pkH _, _ | .rawPkH _, _ | .after _, _ | .older _, _ | .hash _ _, _ => rfl
  | .alt x, h | .swap x, h | .check x, h | .dupIf x, h | .verify x, h | .nonZero x, h
  | .zeroNotEqual x, h => by simp only [TypeSound.wf]; exact wf_of_WF x h
  | .andV l r, h | .andB l r, h | .orB l r, h | .orC l r, h | .orD l r, h | .orI l r, h => by
    simp only [TypeSound.wf, Bool.and_eq_true]; exact ⟨wf_of_WF l h.1, wf_of_WF r h.2⟩
  | .andOr a b c, h => by
    simp only [TypeSound.wf, Bool.and_eq_true]
    exact ⟨⟨wf_of_WF a h.1, wf_of_WF b h.2.1⟩, wf_of_WF c h.2.2⟩
  | .thresh k xs, h => by
    simp only [TypeSound.wf, Bool.and_eq_true, decide_eq_true_eq]
    exact ⟨by have := h.1; have := h.2.1; omega, wfL_of_WFList xs h.2.2.2⟩
  | .multi k ks, h => by simp only [TypeSound.wf, decide_eq_true_eq]; exact h.2.2.2.1
  | .multiA _ _, _ => rfl
  | .sortedMulti _ _, h => h.elim
  | .sortedMultiA _ _, h => h.elim
theorem wfL_of_WFList {env : Env} {ke : KeyEnv} : (xs : MsList) → WFList env ke xs → TypeSound.wfL xs = true
  | .nil, _ => rfl
  | .cons x xs, h => by
    simp only [TypeSound.wfL, Bool.and_eq_true]; exact ⟨wf_of_WF x h.1, wfL_of_WFList xs h.2⟩
end

mutual
/-- the natural side conditions imply the proof's fragment predicate: EVERY fragment the script
decoder can produce is covered -/
theorem sup_of_WF {env : Env} {ke : KeyEnv} : (ms : Ms) → WF env ke ms → Sup env ke ms
  | .tru, _ | .fls, _ | .pkH _, _ | .rawPkH _, _ | .hash _ _, _ => trivial
  | .pkK _, h => h
  | .after n, h | .older n, h => lockOk_of_lt env h.1 h.2
  | .alt x, h | .check x, h | .verify x, h | .nonZero x, h | .zeroNotEqual x, h => sup_of_WF x h
  | .swap x, h | .dupIf x, h => ⟨sup_of_WF x h, wf_of_WF x h⟩
  | .andV l r, h | .andB l r, h | .orB l r, h | .orC l r, h | .orD l r, h | .orI l r, h =>
    ⟨sup_of_WF l h.1, sup_of_WF r h.2⟩
  | .andOr a b c, h => ⟨sup_of_WF a h.1, sup_of_WF b h.2.1, sup_of_WF c h.2.2⟩
  | .thresh k xs, h => ⟨h.1, by have := h.2.1; have := h.2.2.1; omega, h.2.2.1, supList_of_WFList xs h.2.2.2⟩
  | .multi k ks, h => h
  | .multiA k ks, h =>
    ⟨h.1, by have := h.2.2.1; have := h.2.2.2.1; omega, h.2.2.2.1,
      by intro e; subst e; have := h.2.1; have := h.2.2.1; simp at *; omega, h.2.2.2.2⟩
  | .sortedMulti _ _, h => h.elim
  | .sortedMultiA _ _, h => h.elim
theorem supList_of_WFList {env : Env} {ke : KeyEnv} : (xs : MsList) → WFList env ke xs → SupList env ke xs
  | .nil, _ => trivial
  | .cons x xs, h => ⟨sup_of_WF x h.1, supList_of_WFList xs h.2⟩
end

theorem smallA_of_forall {c : List Bytes} (h : ∀ e ∈ c, e.length < 2 ^ 31) : SmallA (absS c) := by
  intro b hb
  simp only [absS, List.mem_map] at hb
  obtain ⟨e, he, heq⟩ := hb
  obtain ⟨e1, _, _⟩ := ofBytes_push heq
  subst e1
  exact h e he

/-- T1 per fragment: the simulation between the abstract-stack evaluator and Script, for every
base type (`Post`: what is left on the concrete stack, with an arbitrary rest below, an arbitrary
alt stack and opcode counter, and how the result relates to the interpreter's result element).
`_partial`: limits off (`NoLimits`) and transaction version ≥ 2 (`Agree.version`, see
`interp_sound_full_false`) are assumed. -/
theorem interp_fragment_sound_partial {env : Env} {ke : KeyEnv} {ie : IEnv} {ctx : Ctx}
    (hl : NoLimits env) (ag : Agree env ie) (ms : Ms) (ty : Ty) (hty : typeOf ms = some ty)
    (hs : WF env ke ms) (c : List Bytes) (hsz : ∀ e ∈ c, e.length < 2 ^ 31) (a' : AStack)
    (cs : List Constraint) (hi : interp ke ie ms (absS c) = .ok (a', cs)) :
    Post env ke ctx ms ty.corr.base ty.corr.unit c a' :=
  sound hl ag ms ty hty (sup_of_WF ms hs) c a' cs (smallA_of_forall hsz) hi

/-- T1 at top level, for EVERY miniscript the script decoder can produce.
`_partial`: limits off (`NoLimits`: op-count / stack-size limits are static properties of the
script, C09/C12) and transaction version ≥ 2 (`Agree.version`; without it the statement is false:
`interp_sound_full_false`). -/
theorem interp_sound_partial {env : Env} {ke : KeyEnv} {ie : IEnv} {ctx : Ctx}
    (hl : NoLimits env) (ag : Agree env ie) (ms : Ms) (hs : WF env ke ms) :
    TopSound env ke ie ctx ms := by
  intro ty hty hb c cs hsz hi
  unfold interpTop at hi
  cases hx : interp ke ie ms (absS c) with
  | error e => simp [hx] at hi
  | ok p =>
    obtain ⟨a', cs'⟩ := p
    have P := sound (ctx := ctx) hl ag ms ty hty (sup_of_WF ms hs) c a' cs' (smallA_of_forall hsz) hx
    rw [hb] at P
    obtain ⟨r, c0, ha, F⟩ := P
    subst ha
    simp only [hx] at hi
    cases r with
    | dissat => simp at hi
    | push b => simp at hi
    | sat =>
      cases c0 with
      | cons e c1 => simp [absS] at hi
      | nil =>
        obtain ⟨v, o, hf, hr⟩ := F [] [] 0
        exact ⟨v, o, by simpa using hf, (hr.sat rfl).1⟩

/-- T1 composed with the bridge theorem (`Thm/Bridge.lean`): the FLAT opcode interpreter
`Script.run` accepts the ENCODED script on the very stack the transaction interpreter accepted
(CLEANSTACK form: exactly one true element is left).  `_partial` as `interp_sound_partial`. -/
theorem interp_accept_imp_script_accepts_partial {env : Env} {ke : KeyEnv} {ie : IEnv} {ctx : Ctx}
    (hl : NoLimits env) (ag : Agree env ie) (ms : Ms) (hs : WF env ke ms) (ty : Ty)
    (hty : typeOf ms = some ty) (hb : ty.corr.base = .B) (c : List Bytes) (cs : List Constraint)
    (hsz : ∀ e ∈ c, e.length < 2 ^ 31) (hi : interpTop ke ie ms (absS c) = .ok cs) :
    accepts env (encode ke ctx ms) c = true := by
  obtain ⟨v, o, hf, hv⟩ := interp_sound_partial (ctx := ctx) hl ag ms hs ty hty hb c cs hsz hi
  exact (Bridge.accepts_iff_frag_nolimits env ke ctx ms c ⟨hl.op, hl.st⟩).mpr ⟨_, v, hf, rfl, hv⟩

/-- `iter_assume_sigs` and `iter_custom`: T1 holds for ANY verifier `f`, as long as Script is run
with the same `f` as its signature oracle (`iter_assume_sigs`: `f` = "has the shape of a
signature"; `iter_custom`: the caller's closure).  The per-run judges `J interp-sound-m` /
`C interp-m` instantiate exactly this. -/
theorem interp_sound_any_verifier_partial {env : Env} {ke : KeyEnv} {ie : IEnv} {ctx : Ctx}
    (f : Bytes → Bytes → Bool) (hl : NoLimits env) (ag : Agree env ie) (ms : Ms)
    (hs : WF { env with sigOk := f } ke ms) :
    TopSound { env with sigOk := f } ke { ie with verifySig := f } ctx ms :=
  interp_sound_partial (env := { env with sigOk := f }) ⟨hl.op, hl.st⟩ (ag.withVerifier f) ms hs

/-! ### T2 -/

/-- every constraint the interpreter reports was checked successfully by it — for ALL fragments
(signatures by `verify_sersig`, key hashes, preimages of the right length, lock values against the
transaction fields) -/
theorem constraints_checked {ke : KeyEnv} {ie : IEnv} (ms : Ms) (st : AStack) (cs : List Constraint)
    (hi : interpTop ke ie ms st = .ok cs) : AllValid ie cs := by
  unfold interpTop at hi
  cases hx : interp ke ie ms st with
  | error e => simp [hx] at hi
  | ok p =>
    obtain ⟨a', cs'⟩ := p
    have v := interp_valid (ke := ke) ms st a' cs' hx
    simp only [hx] at hi
    cases a' with
    | nil => simp at hi
    | cons e t =>
      cases e <;> cases t <;> simp at hi
      subst hi; exact v

/-- … and, under the oracle agreement, each of them is a fact about Script's environment: the
signature verifies for a well-formed key, the preimage hashes to the committed value and has 32
bytes, `CHECKLOCKTIMEVERIFY` / `CHECKSEQUENCEVERIFY` on that value succeed -/
def HoldsForScript (env : Env) : Constraint → Prop
  | .pk pk sg => env.sigOk pk sg = true
  | .pkh hh pk sg => env.sigOk pk sg = true ∧ pubkeyOk env pk = true ∧ env.hash .hash160 pk = hh
  | .hashLock k hh pre => env.hash (hkOp k) pre = hh ∧ pre.length = 32
  | .after n => checkLockTime env n = true
  | .older n => checkSequence env n = true

theorem constraints_hold_for_script {env : Env} {ke : KeyEnv} {ie : IEnv} (ag : Agree env ie)
    (ms : Ms) (st : AStack) (cs : List Constraint) (hi : interpTop ke ie ms st = .ok cs) :
    ∀ c ∈ cs, HoldsForScript env c := by
  intro c hc
  have v := constraints_checked ms st cs hi c hc
  cases c with
  | pk pk sg => exact ag.sig pk sg v
  | pkh hh pk sg =>
    obtain ⟨v1, v2⟩ := v
    obtain ⟨v2, v3⟩ := v2
    exact ⟨ag.sig pk sg v1, ag.key pk v3, by rw [← ag.h160]; exact v2⟩
  | hashLock k hh pre => exact ⟨by rw [← ag.hash]; exact v.1, v.2⟩
  | after n =>
    obtain ⟨v0, v1, v2⟩ := v
    refine after_ok ag (beq_eq_false_iff_ne.mpr v0) ?_ v2
    simpa only [Bool.and_eq_true, Bool.or_eq_true, decide_eq_true_eq] using v1
  | older n =>
    obtain ⟨v0, v1, v2⟩ := v
    refine older_ok ag ?_ ?_
    · exact beq_eq_false_iff_ne.mpr (by omega)
    · simp only [Bool.and_eq_true, decide_eq_true_eq, beq_iff_eq]
      refine ⟨?_, v2⟩
      by_cases hh : ie.sequence / Interp.SEQ_TYPE % 2 = 1
      · have := v1.mp hh; simp [hh, this]
      · have : ¬ (n / Interp.SEQ_TYPE % 2 = 1) := fun x => hh (v1.mpr x)
        rw [beq_eq_false_iff_ne.mpr hh, beq_eq_false_iff_ne.mpr this]

/-! ### "the reported constraints satisfy the lifted policy" -/

/-- the world the reported constraints describe: it can sign for exactly the keys a signature was
reported for, knows exactly the preimages reported, and has the transaction's lock fields -/
def worldOf (ke : KeyEnv) (ie : IEnv) (cs : List Constraint) : Pol.World where
  canSign k := cs.any fun c => match c with
    | .pk pk _ => pk == ke.ser k
    | .pkh _ pk _ => pk == ke.ser k
    | _ => false
  preimage kind h := cs.any fun c => match c with
    | .hashLock k hv _ => decide (MsSem.polHash k = kind) && hv == ke.hashVal k h
    | _ => false
  nLockTime := ie.lockTime
  nSequence := ie.sequence

theorem worldOf_covers (ke : KeyEnv) (ie : IEnv) (cs : List Constraint) :
    InterpPolicy.WLe ke ie cs (worldOf ke ie cs) where
  lt := rfl
  sq := rfl
  cov := by
    intro c hc
    cases c with
    | pk pk sg =>
      intro k hk
      exact List.any_eq_true.mpr ⟨_, hc, by simp [hk]⟩
    | pkh hh pk sg =>
      intro k hk
      exact List.any_eq_true.mpr ⟨_, hc, by simp [hk]⟩
    | hashLock kind hv pre =>
      intro h hh
      exact List.any_eq_true.mpr ⟨_, hc, by simp [hh]⟩
    | after n => trivial
    | older n => trivial

/-- whenever the model interpreter accepts, the constraints it reports make the spending
condition `Spec/MsSem.sem` of the miniscript true (the per-run judge `J policy` checks the same
on the real library).  All fragments incl. thresh / multi / multi_a, typed by the library's rules.
`_partial`: the AST is the descriptor's (`pk_h` carries its key; a bare `expr_raw_pkh` names no
key, `MsSem.sem` is false for it), HASH160 is collision-free on the script's keys
(`KeyHashFaithful`), nSequence is a 32-bit value. -/
theorem constraints_satisfy_policy_partial {ke : KeyEnv} {ie : IEnv}
    (hf : InterpPolicy.KeyHashFaithful ke ie) (hseq : ie.sequence < 2 ^ 32)
    (ms : Ms) (ty : Ty) (hty : typeOf ms = some ty) (hb : ty.corr.base = .B) (hn : InterpPolicy.NoRaw ms)
    (st : AStack) (cs : List Constraint) (hi : interpTop ke ie ms st = .ok cs) :
    MsSem.sem (worldOf ke ie cs) ms = true := by
  unfold interpTop at hi
  cases hx : interp ke ie ms st with
  | error e => simp [hx] at hi
  | ok p =>
    obtain ⟨a', cs'⟩ := p
    have P := InterpPolicy.policy hf hseq ms ty hty hn st a' cs' (worldOf ke ie cs') hx (worldOf_covers ke ie cs')
    rw [hb] at P
    obtain ⟨r, st', ha, _, hs⟩ := P
    subst ha
    simp only [hx] at hi
    cases r with
    | dissat => simp at hi
    | push b => simp at hi
    | sat =>
      cases st' with
      | cons e t => simp at hi
      | nil => simp at hi; subst hi; exact hs rfl

/-! ### "the reported constraints are exactly the checks the executed path performed" -/

/-- COMPLETENESS of the report: the model interpreter's constraint list is, element for element
and in order, the list of checks an instrumented reading of the Script semantics performs
successfully on the accepted spend (`InterpChecks.checksOf`: CHECKSIG / CHECKSIGADD with a valid
non-empty signature, opened hash locks, the values CLTV / CSV are run on) — nothing missing,
nothing extra; a key-hash constraint counts as the signature check of `pk_h` (`norm`).  Together
with `constraints_checked` (every reported constraint was checked) this is "exactly".
`_partial`: fragment set `InterpChecks.CSup` = everything except `s:`, `d:` (a frame lemma for
`checksOf` is missing), `thresh`, `multi` (under the one-directional oracle Script may match a
signature to an earlier key than the interpreter) and `c:` over compound K fragments; plus the
hypotheses of `interp_sound_partial`.  The per-run judge `J constraints` checks the same equality
(as multisets, on the flat executor) for ALL fragments on the real library. -/
theorem reported_constraints_exact_partial {env : Env} {ke : KeyEnv} {ie : IEnv} {ctx : Ctx}
    (hl : NoLimits env) (ag : Agree env ie) (ms : Ms) (hs : WF env ke ms) (hcs : InterpChecks.CSup ms)
    (ty : Ty) (hty : typeOf ms = some ty) (hb : ty.corr.base = .B) (c : List Bytes)
    (cs : List Constraint) (hsz : ∀ e ∈ c, e.length < 2 ^ 31)
    (hi : interpTop ke ie ms (absS c) = .ok cs) :
    InterpChecks.checksOf env ke ctx ms c = cs.map InterpChecks.norm := by
  unfold interpTop at hi
  cases hx : interp ke ie ms (absS c) with
  | error e => simp [hx] at hi
  | ok p =>
    obtain ⟨a', cs'⟩ := p
    have P := InterpChecks.complete (ctx := ctx) hl ag ms ty hty (sup_of_WF ms hs) hcs c a' cs'
      (smallA_of_forall hsz) hx
    rw [hb] at P
    simp only [hx] at hi
    have : cs' = cs := by
      cases a' with
      | nil => simp at hi
      | cons e t => cases e <;> cases t <;> simp at hi <;> exact hi
    subst this
    simpa using P []

/-! ### findings: where the literal interpreter is more permissive than Script -/

def ke0 : KeyEnv := ⟨fun _ => [], fun _ => [], fun _ => [], fun _ => [], fun _ _ => []⟩
def flags0 : Flags := ⟨false, true, true, true, true, false, false⟩
/-- nLockTime 100, nSequence `lsq`, version `ver`; no valid signatures, irrelevant hashes -/
def envOf (lsq ver : Nat) : Env := ⟨flags0, fun _ _ => false, fun _ _ => [], 100, lsq, ver⟩
def ieOf (lsq ver : Nat) : IEnv := ⟨fun _ _ => false, fun _ => false, fun _ => [], fun _ _ => [], 100, lsq, ver⟩

/-- `after(100)` with nLockTime = 100 on a FINAL input: rejected by the interpreter, as by
`OP_CHECKLOCKTIMEVERIFY` (BIP65) — the former finding `cltv-final-sequence`, fixed in /repo -/
theorem after_final_sequence_rejected :
    interpTop ke0 (ieOf 4294967295 2) (.after 100) [] = .error .absoluteLockTimeNotMet
    ∧ frag (envOf 4294967295 2) ke0 .segwitv0 (.after 100) ⟨[], [], 0⟩ = .error .unsatisfiedLocktime := by
  constructor <;> rfl

/-- `older(10)` with nSequence = 10 in a VERSION-1 transaction: the interpreter reports the lock
as satisfied, `OP_CHECKSEQUENCEVERIFY` fails (BIP112).  The interpreter never sees the version. -/
theorem interp_unsound_csv_tx_version_1 :
    interpTop ke0 (ieOf 10 1) (.older 10) [] = .ok [.older 10]
    ∧ frag (envOf 10 1) ke0 .segwitv0 (.older 10) ⟨[], [], 0⟩ = .error .unsatisfiedLocktime := by
  constructor <;> rfl

/-- every other clause of the oracle agreement holds in that counterexample, so `version` is
exactly what the interpreter fails to check -/
theorem finding_agrees_otherwise :
    (∀ pk sg, (ieOf 10 1).verifySig pk sg = true → (envOf 10 1).sigOk pk sg = true)
    ∧ (∀ pk, (ieOf 10 1).keyParse pk = true → pubkeyOk (envOf 10 1) pk = true)
    ∧ (ieOf 10 1).lockTime = (envOf 10 1).nLockTime
    ∧ (ieOf 10 1).sequence = (envOf 10 1).nSequence := by
  refine ⟨fun pk sg h => ?_, fun pk h => ?_, rfl, rfl⟩
  · simp [ieOf] at h
  · simp [ieOf] at h

/-- `verify_sersig` lets exactly the BIP341 signature shapes through to verification (a 64-byte
signature followed by 0x00 is refused) — the former finding `schnorr65-explicit-default` -/
theorem schnorr_parse_is_bip341 : ∀ sig : Bytes, schnorrSigParses sig = bip341SigShape sig := by
  intro sig
  unfold schnorrSigParses bip341SigShape
  by_cases h64 : sig.length = 64
  · have e1 : (sig.length == 64) = true := by simpa using h64
    have e2 : (sig.length == 65) = false := by simp [h64]
    simp [e1, e2]
  · have e1 : (sig.length == 64) = false := by simpa using h64
    by_cases h65 : sig.length = 65
    · have e2 : (sig.length == 65) = true := by simpa using h65
      cases hl : sig.getLast? with
      | none =>
        have : sig = [] := List.getLast?_eq_none_iff.mp hl
        subst this; simp at h65
      | some b =>
        by_cases hb : b = 0
        · subst hb; simp [e1, e2]
        · simp [e1, e2, hb]
    · have e2 : (sig.length == 65) = false := by simpa using h65
      simp [e1, e2]

/-- a witness-script / redeem-script / tapscript element is committed to as the very bytes given;
`[01]` and `[]` are refused — the former finding `bool-script-element` -/
theorem committed_script_is_the_element :
    ∀ (e : Elem) (b : Bytes), committedScriptBytes e = some b → b = e.bytes := by
  intro e b h
  cases e <;> simp [committedScriptBytes, Elem.bytes] at h ⊢
  exact h.symm

/-- T1 WITHOUT the transaction-version assumption (every other clause of `Agree` kept) -/
def AgreeNoVersion (env : Env) (ie : IEnv) : Prop :=
  (∀ pk sg, ie.verifySig pk sg = true → env.sigOk pk sg = true)
  ∧ (∀ pk, ie.keyParse pk = true → pubkeyOk env pk = true)
  ∧ (∀ b, ie.hash160 b = env.hash .hash160 b) ∧ (∀ k b, ie.hash k b = env.hash (hkOp k) b)
  ∧ ie.lockTime = env.nLockTime ∧ ie.sequence = env.nSequence

/-- the statement one would like: T1 for every transaction version.  FALSE (next theorem): the
interpreter never receives the version, `older(n)` in a version-1 transaction is the remaining
finding `csv-tx-version-1` -/
def interp_sound_full : Prop :=
  ∀ (env : Env) (ke : KeyEnv) (ie : IEnv) (ctx : Ctx) (ms : Ms),
    NoLimits env → AgreeNoVersion env ie → WF env ke ms → TopSound env ke ie ctx ms

theorem interp_sound_full_false : ¬ interp_sound_full := by
  intro hfull
  have hag : AgreeNoVersion (envOf 10 1) (ieOf 10 1) :=
    ⟨fun pk sg hh => by simp [ieOf] at hh, fun pk hh => by simp [ieOf] at hh, fun _ => rfl, fun _ _ => rfl, rfl, rfl⟩
  obtain ⟨v, o, hf, _⟩ := hfull (envOf 10 1) ke0 (ieOf 10 1) .segwitv0 (.older 10) ⟨rfl, rfl⟩ hag
    ⟨by decide, by decide⟩ Ty.time rfl rfl [] [.older 10] (by simp) interp_unsound_csv_tx_version_1.1
  rw [interp_unsound_csv_tx_version_1.2] at hf
  cases hf

/-! ### non-vacuity: concrete, nested objects meeting every hypothesis, with accepting runs -/

/-- four 33-byte keys `02 k 07…07`, the signature `30 k` valid for key `k` only -/
def ser3 (k : Nat) : List UInt8 := 2 :: UInt8.ofNat k :: List.replicate 31 7
def sig3 (k : Nat) : List UInt8 := [0x30, UInt8.ofNat k]
def ok3 (ser : Nat → List UInt8) (pk sg : List UInt8) : Bool :=
  (List.range 4).any fun k => pk == ser k && sg == sig3 k
/-- every hash of a 32-byte string is `[32]`, and that is the committed value -/
def ke3 : KeyEnv := ⟨ser3, ser3, fun _ => [], fun _ => [], fun _ _ => [32]⟩
def env3 : Env := ⟨flags0, ok3 ser3, fun _ b => [UInt8.ofNat b.length], 100, 10, 2⟩
def ie3 : IEnv := ⟨ok3 ser3, fun pk => pk.length == 33 && pk.head? == some 2, fun b => env3.hash .hash160 b,
  fun k b => env3.hash (hkOp k) b, 100, 10, 2⟩
def pre32 : List UInt8 := List.replicate 32 1

theorem env3_nolimits : NoLimits env3 := ⟨rfl, rfl⟩

theorem env3_agree : Agree env3 ie3 where
  sig := fun _ _ h => h
  key := by
    intro pk h
    simp only [ie3, Bool.and_eq_true, beq_iff_eq] at h
    simp [pubkeyOk, env3, flags0, h.1, h.2]
  h160 := fun _ => rfl
  hash := fun _ _ => rfl
  lockTime := rfl
  sequence := rfl
  version := by decide

def pk3 (k : Nat) : Ms := .check (.pkK k)

/-- `or_d(multi(2,K0,K1,K2), and_v(v:thresh(2,pk(K0),s:pk(K1),a:sha256(H)),
     and_v(v:and_b(j:pk(K3), a:d:v:older(10)), after(100))))` — multi, thresh, a hash, both locks and
every wrapper the earlier versions of T1 excluded (`s:`, `d:`, `j:`) -/
def msBig : Ms :=
  .orD (.multi 2 [0, 1, 2])
    (.andV (.verify (.thresh 2 (.cons (pk3 0) (.cons (.swap (pk3 1)) (.cons (.alt (.hash .sha256 0)) .nil)))))
      (.andV (.verify (.andB (.nonZero (pk3 3)) (.alt (.dupIf (.verify (.older 10)))))) (.after 100)))

def tyBig : Ty := ⟨⟨.B, .any, false, false⟩, ⟨.none, true, false⟩⟩

theorem msBig_typed : typeOf msBig = some tyBig := by decide

theorem pk3_ok (k : Nat) (hk : k < 4) : pubkeyOk env3 (ke3.ser k) = true := by
  have : k = 0 ∨ k = 1 ∨ k = 2 ∨ k = 3 := by omega
  rcases this with e | e | e | e <;> subst e <;> decide

theorem msBig_wf : WF env3 ke3 msBig := by
  refine ⟨⟨rfl, by decide, by decide, by decide, ?_⟩,
    ⟨by decide, by decide, by decide, pk3_ok 0 (by decide), pk3_ok 1 (by decide), trivial, trivial⟩,
    ⟨pk3_ok 3 (by decide), by decide, by decide⟩, by decide, by decide⟩
  intro key hkey
  simp at hkey
  rcases hkey with e | e | e <;> subst e <;> decide

/-- the interpreter model ACCEPTS through the `multi` branch: signatures of K2 and K1 over the dummy -/
theorem msBig_run_multi : ∃ cs, interpTop ke3 ie3 msBig (absS [sig3 2, sig3 1, []]) = .ok cs := ⟨_, rfl⟩

/-- … and through the other branch: `multi` dissatisfied (three empty elements), then
thresh = pk(K0) ✓, s:pk(K1) ✗, a:sha256 ✓; `j:pk(K3)` with a signature; `d:` taken; both locks met -/
theorem msBig_run_thresh :
    ∃ cs, interpTop ke3 ie3 msBig (absS [[], [], [], sig3 0, [], pre32, sig3 3, [1]]) = .ok cs := ⟨_, rfl⟩

/-- hence (T1 + bridge) the flat Script interpreter accepts the encoded script on both witnesses -/
theorem msBig_script_accepts_multi : accepts env3 (encode ke3 .segwitv0 msBig) [sig3 2, sig3 1, []] = true := by
  obtain ⟨cs, h⟩ := msBig_run_multi
  exact interp_accept_imp_script_accepts_partial (ctx := .segwitv0) env3_nolimits env3_agree msBig msBig_wf
    tyBig msBig_typed rfl _ cs (by decide) h

theorem msBig_script_accepts_thresh :
    accepts env3 (encode ke3 .segwitv0 msBig) [[], [], [], sig3 0, [], pre32, sig3 3, [1]] = true := by
  obtain ⟨cs, h⟩ := msBig_run_thresh
  exact interp_accept_imp_script_accepts_partial (ctx := .segwitv0) env3_nolimits env3_agree msBig msBig_wf
    tyBig msBig_typed rfl _ cs (by decide) h

/-- the constraints reported on that run are checked ones (T2) -/
example : ∀ cs, interpTop ke3 ie3 msBig (absS [[], [], [], sig3 0, [], pre32, sig3 3, [1]]) = .ok cs →
    ∀ c ∈ cs, HoldsForScript env3 c :=
  fun cs h => constraints_hold_for_script env3_agree msBig _ cs h

/-- … and satisfy the spending condition (policy claim), on both runs -/
theorem msBig_policy_thresh : ∀ cs, interpTop ke3 ie3 msBig (absS [[], [], [], sig3 0, [], pre32, sig3 3, [1]]) = .ok cs →
    MsSem.sem (worldOf ke3 ie3 cs) msBig = true :=
  fun cs h => constraints_satisfy_policy_partial (fun _ _ hh => by simp [ie3, env3, ke3] at hh) (by decide)
    msBig tyBig msBig_typed rfl (by simp [msBig, pk3, InterpPolicy.NoRaw, InterpPolicy.NoRawL]) _ cs h

/-- `or_d(pk(K0), and_v(v:and_b(j:pk(K3), a:sha256(H)), after(100)))` lies in the fragment set of
the completeness theorem; on the witness `[<>, sig3, preimage]` the interpreter accepts and its
report is exactly the executed checks: the signature for K3, the hash lock, the lock value -/
def msC : Ms :=
  .orD (pk3 0) (.andV (.verify (.andB (.nonZero (pk3 3)) (.alt (.hash .sha256 0)))) (.after 100))

theorem msC_wf : WF env3 ke3 msC :=
  ⟨pk3_ok 0 (by decide), ⟨pk3_ok 3 (by decide), trivial⟩, by decide, by decide⟩

theorem msC_exact :
    interpTop ke3 ie3 msC (absS [[], sig3 3, pre32])
      = .ok [.pk (ser3 3) (sig3 3), .hashLock .sha256 [32] pre32, .after 100]
    ∧ InterpChecks.checksOf env3 ke3 .segwitv0 msC [[], sig3 3, pre32]
      = [.pk (ser3 3) (sig3 3), .hashLock .sha256 [32] pre32, .after 100] := by
  have hrun : interpTop ke3 ie3 msC (absS [[], sig3 3, pre32])
      = .ok [.pk (ser3 3) (sig3 3), .hashLock .sha256 [32] pre32, .after 100] := rfl
  refine ⟨hrun, ?_⟩
  have := reported_constraints_exact_partial (ctx := .segwitv0) env3_nolimits env3_agree msC msC_wf
    (by simp [msC, pk3, InterpChecks.CSup]) ⟨⟨.B, .any, false, false⟩, ⟨.none, true, true⟩⟩ (by decide) rfl
    _ _ (by decide) hrun
  simpa [InterpChecks.norm] using this

/-! tapscript: `and_v(v:multi_a(2,X0,X1,X2), after(100))` with x-only keys -/

def serx (k : Nat) : List UInt8 := UInt8.ofNat k :: List.replicate 31 7
def flagsT : Flags := ⟨true, true, true, true, true, false, false⟩
def ke3t : KeyEnv := ⟨serx, serx, fun _ => [32], fun _ => [32], fun _ _ => [32]⟩
def env3t : Env := ⟨flagsT, ok3 serx, fun _ b => [UInt8.ofNat b.length], 100, 10, 2⟩
def ie3t : IEnv := ⟨ok3 serx, fun pk => pk.length == 32, fun b => env3t.hash .hash160 b,
  fun k b => env3t.hash (hkOp k) b, 100, 10, 2⟩
def msTap : Ms := .andV (.verify (.multiA 2 [0, 1, 2])) (.after 100)

theorem env3t_agree : Agree env3t ie3t where
  sig := fun _ _ h => h
  key := by
    intro pk h
    simp only [ie3t, beq_iff_eq] at h
    simp [pubkeyOk, env3t, flagsT, h]
  h160 := fun _ => rfl
  hash := fun _ _ => rfl
  lockTime := rfl
  sequence := rfl
  version := by decide

theorem msTap_wf : WF env3t ke3t msTap := by
  refine ⟨⟨rfl, by decide, by decide, by decide, ?_⟩, by decide, by decide⟩
  intro key hkey
  simp at hkey
  rcases hkey with e | e | e <;> subst e <;> decide

theorem msTap_run : ∃ cs, interpTop ke3t ie3t msTap (absS [sig3 0, [], sig3 2]) = .ok cs := ⟨_, rfl⟩

theorem msTap_script_accepts : accepts env3t (encode ke3t .tap msTap) [sig3 0, [], sig3 2] = true := by
  obtain ⟨cs, h⟩ := msTap_run
  exact interp_accept_imp_script_accepts_partial (ctx := .tap) ⟨rfl, rfl⟩ env3t_agree msTap msTap_wf
    ⟨⟨.B, .any, false, false⟩, ⟨.none, true, true⟩⟩ (by decide) rfl _ cs (by decide) h

/-! ### key admission at the boundary (segwit v0: compressed keys only) -/

/-- a key `from_txdata` admits as the witness-program key of p2wpkh / sh-wpkh is 33 bytes long -/
theorem pkFromSlice_segwit_compressed (kp : Bytes → Bool) (b : Bytes)
    (h : Interp.pkFromSlice kp true b = .ok ()) : kp b = true ∧ b.length = 33 := by
  unfold Interp.pkFromSlice at h
  by_cases hk : kp b = true
  · by_cases hl : b.length = 33
    · exact ⟨hk, hl⟩
    · simp [hk, hl] at h
  · simp [hk] at h

/-- in p2pkh (no compressedness required) exactly the parseable keys are admitted -/
theorem pkFromSlice_legacy (kp : Bytes → Bool) (b : Bytes) :
    Interp.pkFromSlice kp false b = .ok () ↔ kp b = true := by
  unfold Interp.pkFromSlice
  by_cases hk : kp b = true <;> simp [hk]

/-- a witness script the interpreter admits pushes 33-byte keys only -/
theorem segwitScriptAdmits_keys (ke : KeyEnv) (ms : Ms) (h : Interp.segwitScriptAdmits ke ms = true)
    (k : Key) (hk : k ∈ Interp.msKeys ms) : (ke.ser k).length = 33 := by
  unfold Interp.segwitScriptAdmits at h
  rw [List.all_eq_true] at h
  simpa using h k hk

/-- non-vacuity / the refused shape: `<65-byte key> CHECKSIG` is not admitted, `<33-byte key> CHECKSIG` is -/
example : Interp.segwitScriptAdmits { ke3 with ser := fun k => List.replicate (if k = 0 then 65 else 33) 4 } (.check (.pkK 0)) = false
    ∧ Interp.segwitScriptAdmits { ke3 with ser := fun k => List.replicate (if k = 0 then 65 else 33) 4 } (.check (.pkK 1)) = true := by
  constructor <;> rfl

end MsVerif.C13

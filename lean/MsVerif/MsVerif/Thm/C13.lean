/-
C13 — the transaction interpreter agrees with real script execution.

Model: `Model/Interp.lean` (big-step form of `Iter::iter_next` over the abstract stack), tied to
the Rust iterator by the `C interp` correspondence lines of every run.  Script side:
`Spec/Frag.lean` (structured per-fragment semantics, executed with the very same `execOpc` as the
flat interpreter).

T1  `interp_sound`         interpreter accepts  ⇒  Script accepts, with a clean stack
      * `interp_sound_full`     full statement (all fragments) — kept as a `def … : Prop`
      * `interp_sound_partial`  PROVED for the fragment set `Sup`: 0, 1, pk_k, pk_h, raw_pkh, after,
        older, the four hashes, a:, s:, c:, d:, v:, n:, and_v, and_b, or_b, or_c, or_d, or_i, andor,
        thresh (any k, n), multi (CHECKMULTISIG key walk, incl. the exchange argument for a Script
        oracle that accepts more than the interpreter's), multi_a — i.e. everything the script
        decoder can produce except `j:`.
        Missing: j: (`SIZE 0NOTEQUAL` needs the element's length to be a 4-byte script number, i.e.
        a bound < 2^31 on witness element sizes that the statement does not carry); sortedmulti /
        sortedmulti_a nodes never reach the interpreter (the decoder yields multi / multi_a).
        Uses C06's exact-argument-count lemmas (`TypeSound.args_cons`, `framed_frag`) for s: / d:,
        C01's script-number lemmas (`SatSpec.numOk_of_lt`) and CHECKMULTISIG evaluation
        (`SatSpec.frag_multi`) for thresh / multi / multi_a.
      * `interp_fragment_sound_partial`  the simulation per base type (B / V / K / W)
      * `interp_accept_imp_script_accepts_partial`  composition with `Thm/Bridge.lean`: the flat
        opcode interpreter accepts the encoded script
      * `lockOk_of_lt`: the lock-value side condition `LockOk` holds for every `0 < n < 2^31`
      * `interp_sound_any_verifier_partial`: the same for `iter_assume_sigs` / `iter_custom` — any
        verifier, as long as Script runs with the same one (`Agree.withVerifier`)
T2  `constraints_checked`  every reported constraint was checked successfully (ALL fragments) and
      holds in Script's environment (`constraints_hold_for_script`)
Remaining finding, proved on the model as a counterexample to the unconditional statement:
      `interp_unsound_csv_tx_version_1` (the interpreter never sees the transaction version; this is
      the only finding-related clause left in `Agree`).
Fixed in /repo and followed by the model (the former counterexamples are now positive facts):
      `after_final_sequence_rejected` (BIP65 final input, fix 1d81d5db),
      `schnorr_parse_is_bip341` (65-byte signature with sighash byte 0x00, fix bda5c1de),
      `committed_script_is_the_element` (script element `[01]` / `[]`, fix be897bb9).
-/
import MsVerif.Lemmas.InterpSound
import MsVerif.Lemmas.InterpConstraints
import MsVerif.Thm.Bridge

namespace MsVerif.C13
open MsVerif Script Interp InterpSound

/-! ### T1 -/

/-- interpreter accepts ⇒ the structured Script semantics ends with exactly one true element -/
def TopSound (env : Env) (ke : KeyEnv) (ie : IEnv) (ctx : Ctx) (ms : Ms) : Prop :=
  ∀ ty, typeOf ms = some ty → ty.corr.base = .B →
    ∀ (c : List Bytes) (cs : List Constraint), interpTop ke ie ms (absS c) = .ok cs →
      ∃ v ops', frag env ke ctx ms ⟨c, [], 0⟩ = .ok ⟨[v], [], ops'⟩ ∧ castToBool v = true

mutual
/-- side conditions of the full statement: the AST is one the script decoder produces (no
`sortedmulti` node), keys are well-formed for the context, thresholds are `1 ≤ k ≤ n`, lock values
round-trip through the script-number codec, `multi` / `multi_a` live in the right context -/
def WF (env : Env) (ke : KeyEnv) : Ms → Prop
  | .tru | .fls | .pkH _ | .rawPkH _ | .hash _ _ => True
  | .pkK k => pubkeyOk env (ke.ser k) = true
  | .after n | .older n => LockOk env n
  | .alt x | .swap x | .check x | .dupIf x | .verify x | .nonZero x | .zeroNotEqual x => WF env ke x
  | .andV l r | .andB l r | .orB l r | .orC l r | .orD l r | .orI l r => WF env ke l ∧ WF env ke r
  | .andOr a b c => WF env ke a ∧ WF env ke b ∧ WF env ke c
  | .thresh k xs => 1 ≤ k ∧ k ≤ xs.length ∧ WFList env ke xs
  | .multi k ks =>
    env.flags.tapscript = false ∧ 1 ≤ k ∧ k ≤ ks.length ∧ ks.length ≤ 20
      ∧ ∀ key ∈ ks, pubkeyOk env (ke.ser key) = true
  | .multiA k ks =>
    env.flags.tapscript = true ∧ 1 ≤ k ∧ k ≤ ks.length ∧ ∀ key ∈ ks, pubkeyOk env (ke.ser key) = true
  | .sortedMulti _ _ | .sortedMultiA _ _ => False
def WFList (env : Env) (ke : KeyEnv) : MsList → Prop
  | .nil => True
  | .cons x xs => WF env ke x ∧ WFList env ke xs
end

/-- T1, full strength (not proved; see the header for what is missing) -/
def interp_sound_full : Prop :=
  ∀ (env : Env) (ke : KeyEnv) (ie : IEnv) (ctx : Ctx) (ms : Ms),
    NoLimits env → Agree env ie → WF env ke ms → TopSound env ke ie ctx ms

/-- T1 per fragment: the simulation between the abstract-stack evaluator and Script, for every
base type (`Post`: what is left on the concrete stack, with an arbitrary rest below, an arbitrary
alt stack and opcode counter, and how the result relates to the interpreter's result element) -/
theorem interp_fragment_sound_partial {env : Env} {ke : KeyEnv} {ie : IEnv} {ctx : Ctx}
    (hl : NoLimits env) (ag : Agree env ie) (ms : Ms) (ty : Ty) (hty : typeOf ms = some ty)
    (hs : Sup env ke ms) (c : List Bytes) (a' : AStack) (cs : List Constraint)
    (hi : interp ke ie ms (absS c) = .ok (a', cs)) :
    Post env ke ctx ms ty.corr.base ty.corr.unit c a' :=
  sound hl ag ms ty hty hs c a' cs hi

/-- T1 at top level for the proved fragment set -/
theorem interp_sound_partial {env : Env} {ke : KeyEnv} {ie : IEnv} {ctx : Ctx}
    (hl : NoLimits env) (ag : Agree env ie) (ms : Ms) (hs : Sup env ke ms) :
    TopSound env ke ie ctx ms := by
  intro ty hty hb c cs hi
  unfold interpTop at hi
  cases hx : interp ke ie ms (absS c) with
  | error e => simp [hx] at hi
  | ok p =>
    obtain ⟨a', cs'⟩ := p
    have P := sound (ctx := ctx) hl ag ms ty hty hs c a' cs' hx
    rw [hb] at P
    obtain ⟨r, c0, ha, F⟩ := P
    subst ha
    simp only [hx] at hi
    cases r with
    | dissat => simp at hi
    | push b => simp at hi
    | sat =>
      cases c0 with
      | cons e c1 => simp [absS] at hi
      | nil =>
        obtain ⟨v, o, hf, hr⟩ := F [] [] 0
        exact ⟨v, o, by simpa using hf, (hr.sat rfl).1⟩

/-- T1 composed with the bridge theorem (`Thm/Bridge.lean`): the FLAT opcode interpreter
`Script.run` accepts the ENCODED script on the very stack the transaction interpreter accepted
(CLEANSTACK form: exactly one true element is left) -/
theorem interp_accept_imp_script_accepts_partial {env : Env} {ke : KeyEnv} {ie : IEnv} {ctx : Ctx}
    (hl : NoLimits env) (ag : Agree env ie) (ms : Ms) (hs : Sup env ke ms) (ty : Ty)
    (hty : typeOf ms = some ty) (hb : ty.corr.base = .B) (c : List Bytes) (cs : List Constraint)
    (hi : interpTop ke ie ms (absS c) = .ok cs) :
    accepts env (encode ke ctx ms) c = true := by
  obtain ⟨v, o, hf, hv⟩ := interp_sound_partial (ctx := ctx) hl ag ms hs ty hty hb c cs hi
  exact (Bridge.accepts_iff_frag_nolimits env ke ctx ms c ⟨hl.op, hl.st⟩).mpr ⟨_, v, hf, rfl, hv⟩

/-- the lock-value side condition of `Sup` (script-number codec round trip) holds for every value
an `AbsLockTime` / `RelLockTime` can carry -/
theorem lockOk_of_lt (env : Env) {n : Nat} (h0 : 0 < n) (h : n < 2 ^ 31) : LockOk env n := by
  have ok := SatSpec.numOk_of_lt n (by omega)
  have d4 := ok.1 env.flags.minimalNum
  refine ⟨?_, ?_, h0, ?_, ?_⟩
  · rw [lockVal_eq]; exact SatSpec.numDecode_5_of_4 d4
  · rw [lockVal_eq]; exact d4
  · rw [lockVal_eq]; exact ok.2 (by omega)
  · show n < 2147483648; omega

/-- `iter_assume_sigs` and `iter_custom`: T1 holds for ANY verifier `f`, as long as Script is run
with the same `f` as its signature oracle (`iter_assume_sigs`: `f` = "has the shape of a
signature"; `iter_custom`: the caller's closure).  The per-run judges `J interp-sound-m` /
`C interp-m` instantiate exactly this. -/
theorem interp_sound_any_verifier_partial {env : Env} {ke : KeyEnv} {ie : IEnv} {ctx : Ctx}
    (f : Bytes → Bytes → Bool) (hl : NoLimits env) (ag : Agree env ie) (ms : Ms)
    (hs : Sup { env with sigOk := f } ke ms) :
    TopSound { env with sigOk := f } ke { ie with verifySig := f } ctx ms :=
  interp_sound_partial (env := { env with sigOk := f }) ⟨hl.op, hl.st⟩ (ag.withVerifier f) ms hs

/-! ### T2 -/

/-- every constraint the interpreter reports was checked successfully by it — for ALL fragments
(signatures by `verify_sersig`, key hashes, preimages of the right length, lock values against the
transaction fields) -/
theorem constraints_checked {ke : KeyEnv} {ie : IEnv} (ms : Ms) (st : AStack) (cs : List Constraint)
    (hi : interpTop ke ie ms st = .ok cs) : AllValid ie cs := by
  unfold interpTop at hi
  cases hx : interp ke ie ms st with
  | error e => simp [hx] at hi
  | ok p =>
    obtain ⟨a', cs'⟩ := p
    have v := interp_valid (ke := ke) ms st a' cs' hx
    simp only [hx] at hi
    cases a' with
    | nil => simp at hi
    | cons e t =>
      cases e <;> cases t <;> simp at hi
      subst hi; exact v

/-- … and, under the oracle agreement, each of them is a fact about Script's environment: the
signature verifies for a well-formed key, the preimage hashes to the committed value and has 32
bytes, `CHECKLOCKTIMEVERIFY` / `CHECKSEQUENCEVERIFY` on that value succeed -/
def HoldsForScript (env : Env) : Constraint → Prop
  | .pk pk sg => env.sigOk pk sg = true
  | .pkh hh pk sg => env.sigOk pk sg = true ∧ pubkeyOk env pk = true ∧ env.hash .hash160 pk = hh
  | .hashLock k hh pre => env.hash (hkOp k) pre = hh ∧ pre.length = 32
  | .after n => checkLockTime env n = true
  | .older n => checkSequence env n = true

theorem constraints_hold_for_script {env : Env} {ke : KeyEnv} {ie : IEnv} (ag : Agree env ie)
    (ms : Ms) (st : AStack) (cs : List Constraint) (hi : interpTop ke ie ms st = .ok cs) :
    ∀ c ∈ cs, HoldsForScript env c := by
  intro c hc
  have v := constraints_checked ms st cs hi c hc
  cases c with
  | pk pk sg => exact ag.sig pk sg v
  | pkh hh pk sg =>
    obtain ⟨v1, v2⟩ := v
    obtain ⟨v2, v3⟩ := v2
    exact ⟨ag.sig pk sg v1, ag.key pk v3, by rw [← ag.h160]; exact v2⟩
  | hashLock k hh pre => exact ⟨by rw [← ag.hash]; exact v.1, v.2⟩
  | after n =>
    obtain ⟨v0, v1, v2⟩ := v
    refine after_ok ag (beq_eq_false_iff_ne.mpr v0) ?_ v2
    simpa only [Bool.and_eq_true, Bool.or_eq_true, decide_eq_true_eq] using v1
  | older n =>
    obtain ⟨v0, v1, v2⟩ := v
    refine older_ok ag ?_ ?_
    · exact beq_eq_false_iff_ne.mpr (by omega)
    · simp only [Bool.and_eq_true, decide_eq_true_eq, beq_iff_eq]
      refine ⟨?_, v2⟩
      by_cases hh : ie.sequence / Interp.SEQ_TYPE % 2 = 1
      · have := v1.mp hh; simp [hh, this]
      · have : ¬ (n / Interp.SEQ_TYPE % 2 = 1) := fun x => hh (v1.mpr x)
        rw [beq_eq_false_iff_ne.mpr hh, beq_eq_false_iff_ne.mpr this]

/-! ### findings: where the literal interpreter is more permissive than Script -/

def ke0 : KeyEnv := ⟨fun _ => [], fun _ => [], fun _ => [], fun _ => [], fun _ _ => []⟩
def flags0 : Flags := ⟨false, true, true, true, true, false, false⟩
/-- nLockTime 100, nSequence `lsq`, version `ver`; no valid signatures, irrelevant hashes -/
def envOf (lsq ver : Nat) : Env := ⟨flags0, fun _ _ => false, fun _ _ => [], 100, lsq, ver⟩
def ieOf (lsq ver : Nat) : IEnv := ⟨fun _ _ => false, fun _ => false, fun _ => [], fun _ _ => [], 100, lsq, ver⟩

/-- `after(100)` with nLockTime = 100 on a FINAL input: rejected by the interpreter, as by
`OP_CHECKLOCKTIMEVERIFY` (BIP65) — the former finding `cltv-final-sequence`, fixed in /repo -/
theorem after_final_sequence_rejected :
    interpTop ke0 (ieOf 4294967295 2) (.after 100) [] = .error .absoluteLockTimeNotMet
    ∧ frag (envOf 4294967295 2) ke0 .segwitv0 (.after 100) ⟨[], [], 0⟩ = .error .unsatisfiedLocktime := by
  constructor <;> rfl

/-- `older(10)` with nSequence = 10 in a VERSION-1 transaction: the interpreter reports the lock
as satisfied, `OP_CHECKSEQUENCEVERIFY` fails (BIP112).  The interpreter never sees the version. -/
theorem interp_unsound_csv_tx_version_1 :
    interpTop ke0 (ieOf 10 1) (.older 10) [] = .ok [.older 10]
    ∧ frag (envOf 10 1) ke0 .segwitv0 (.older 10) ⟨[], [], 0⟩ = .error .unsatisfiedLocktime := by
  constructor <;> rfl

/-- every other clause of the oracle agreement holds in that counterexample, so `version` is
exactly what the interpreter fails to check -/
theorem finding_agrees_otherwise :
    (∀ pk sg, (ieOf 10 1).verifySig pk sg = true → (envOf 10 1).sigOk pk sg = true)
    ∧ (∀ pk, (ieOf 10 1).keyParse pk = true → pubkeyOk (envOf 10 1) pk = true)
    ∧ (ieOf 10 1).lockTime = (envOf 10 1).nLockTime
    ∧ (ieOf 10 1).sequence = (envOf 10 1).nSequence := by
  refine ⟨fun pk sg h => ?_, fun pk h => ?_, rfl, rfl⟩
  · simp [ieOf] at h
  · simp [ieOf] at h

/-- `verify_sersig` lets exactly the BIP341 signature shapes through to verification (a 64-byte
signature followed by 0x00 is refused) — the former finding `schnorr65-explicit-default` -/
theorem schnorr_parse_is_bip341 : ∀ sig : Bytes, schnorrSigParses sig = bip341SigShape sig := by
  intro sig
  unfold schnorrSigParses bip341SigShape
  by_cases h64 : sig.length = 64
  · have e1 : (sig.length == 64) = true := by simpa using h64
    have e2 : (sig.length == 65) = false := by simp [h64]
    simp [e1, e2]
  · have e1 : (sig.length == 64) = false := by simpa using h64
    by_cases h65 : sig.length = 65
    · have e2 : (sig.length == 65) = true := by simpa using h65
      cases hl : sig.getLast? with
      | none =>
        have : sig = [] := List.getLast?_eq_none_iff.mp hl
        subst this; simp at h65
      | some b =>
        by_cases hb : b = 0
        · subst hb; simp [e1, e2]
        · simp [e1, e2, hb]
    · have e2 : (sig.length == 65) = false := by simpa using h65
      simp [e1, e2]

/-- a witness-script / redeem-script / tapscript element is committed to as the very bytes given;
`[01]` and `[]` are refused — the former finding `bool-script-element` -/
theorem committed_script_is_the_element :
    ∀ (e : Elem) (b : Bytes), committedScriptBytes e = some b → b = e.bytes := by
  intro e b h
  cases e <;> simp [committedScriptBytes, Elem.bytes] at h ⊢
  exact h.symm

/-! ### non-vacuity -/

def K0 : Bytes := 2 :: List.replicate 32 7
def S0 : Bytes := [0x30, 0x01]
def keX : KeyEnv := ⟨fun _ => K0, fun _ => K0, fun _ => [], fun _ => [], fun _ _ => []⟩
def envX : Env := ⟨flags0, fun pk sg => pk == K0 && sg == S0, fun _ _ => [], 100, 10, 2⟩
def ieX : IEnv := ⟨fun pk sg => pk == K0 && sg == S0, fun _ => false, fun b => envX.hash .hash160 b,
  fun k b => envX.hash (hkOp k) b, 100, 10, 2⟩

theorem envX_nolimits : NoLimits envX := ⟨rfl, rfl⟩

theorem envX_agree : Agree envX ieX where
  sig := by
    intro pk sg h
    simp [ieX] at h
    obtain ⟨h1, h2⟩ := h
    subst h1; subst h2
    decide
  key := by intro pk h; simp [ieX] at h
  h160 := fun _ => rfl
  hash := fun _ _ => rfl
  lockTime := rfl
  sequence := rfl
  version := by decide

theorem lockOk_100 : LockOk envX 100 := ⟨by decide, by decide, by decide, by decide, by decide⟩
theorem lockOk_10 : LockOk envX 10 := ⟨by decide, by decide, by decide, by decide, by decide⟩

/-- `and_v(v:pk(K), andor(older(10)?…` — a concrete supported script: `and_v(v:c:pk_k(0), after(100))` -/
def msX : Ms := .andV (.verify (.check (.pkK 0))) (.after 100)

theorem supX : Sup envX keX msX := ⟨(by decide : pubkeyOk envX K0 = true), lockOk_100⟩

/-- the hypotheses of `interp_sound_partial` are satisfiable and its conclusion is not vacuous:
the interpreter accepts the witness `[S0]`, hence Script does -/
example : ∃ v ops', frag envX keX .segwitv0 msX ⟨[S0], [], 0⟩ = .ok ⟨[v], [], ops'⟩ ∧ castToBool v = true :=
  interp_sound_partial (ctx := .segwitv0) envX_nolimits envX_agree msX supX
    ⟨⟨.B, .oneNonZero, false, false⟩, ⟨.none, true, true⟩⟩ (by decide) rfl [S0] [.pk K0 S0, .after 100] rfl

example : AllValid ieX [.pk K0 S0, .after 100] :=
  constraints_checked (ke := keX) msX (absS [S0]) _ rfl

/-- `thresh(1, pk(K), s:pk(K))` and `or_d(multi(1,K,K), and_v(v:pk(K), older(10)))`: the fragments
added with C06's frame lemmas and C01's number / CHECKMULTISIG lemmas -/
def msT : Ms := .thresh 1 (.cons (.check (.pkK 0)) (.cons (.swap (.check (.pkK 0))) .nil))
def msM : Ms := .orD (.multi 1 [0, 0]) (.andV (.verify (.check (.pkK 0))) (.older 10))

theorem supT : Sup envX keX msT :=
  ⟨by decide, by decide, by decide, (by decide : pubkeyOk envX K0 = true),
    ⟨(by decide : pubkeyOk envX K0 = true), rfl⟩, trivial⟩

theorem supM : Sup envX keX msM :=
  ⟨⟨rfl, by decide, by decide, by decide, fun key _ => (by decide : pubkeyOk envX K0 = true)⟩,
    (by decide : pubkeyOk envX K0 = true), lockOk_10⟩

example : ∃ v ops', frag envX keX .segwitv0 msT ⟨[S0, []], [], 0⟩ = .ok ⟨[v], [], ops'⟩ ∧ castToBool v = true :=
  interp_sound_partial (ctx := .segwitv0) envX_nolimits envX_agree msT supT
    ⟨⟨.B, .any, true, true⟩, ⟨.unique, true, true⟩⟩ (by decide) rfl [S0, []] [.pk K0 S0] rfl

example : accepts envX (encode keX .segwitv0 msT) [S0, []] = true :=
  interp_accept_imp_script_accepts_partial (ctx := .segwitv0) envX_nolimits envX_agree msT supT
    ⟨⟨.B, .any, true, true⟩, ⟨.unique, true, true⟩⟩ (by decide) rfl [S0, []] [.pk K0 S0] rfl

/-- for a script with `multi` the theorem applies to whatever the interpreter accepts -/
example (c : List Bytes) (cs : List Constraint) (hi : interpTop keX ieX msM (absS c) = .ok cs) :
    accepts envX (encode keX .segwitv0 msM) c = true :=
  interp_accept_imp_script_accepts_partial (ctx := .segwitv0) envX_nolimits envX_agree msM supM
    ⟨⟨.B, .any, false, false⟩, ⟨.none, true, true⟩⟩ (by decide) rfl c cs hi

end MsVerif.C13

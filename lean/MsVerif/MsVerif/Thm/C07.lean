/-
C07 — the lifted policy is exactly the script's spending condition.

Model: `Model/Lift.lean` (`lift_check`, the explicit-stack loop of `Liftable for Miniscript`
over `rtl_post_order_iter`, `Liftable for Descriptor / Tr / TapTree`), `Model/Semantic.lean`
(`normalized`), `Model/Ext.lean` (what `lift_check` reads).
Specification: `Spec/Policy.lean` (`holds W p`: truth of an abstract policy in a world with
signing keys, known preimages, nLockTime, nSequence), `Spec/MsSem.lean` (`sem W ms`: the spending
condition read directly off the AST; `semDesc`), `Spec/SatTable.lean` (`satEx`: a canonical
satisfaction of the Miniscript specification exists with the given assets).

Every theorem quantifies over ALL miniscripts (any depth, any threshold width, repeated keys,
constants anywhere), all four script contexts, all key environments and all worlds.

  T0  the loop never panics and computes the structural fold; `lift` fails exactly when
      `lift_check` refuses or a raw key hash occurs.
  T1  `lift_sem`: whatever `lift` returns has the truth table `sem` in every world
      (uses C18's `normalized` theorem), and is in normal form.
  T2  `table_eq_sem`: for every well-typed script without raw key hashes, "a canonical
      satisfaction exists from the world's assets" (`satEx`) = `sem`; every `d`-typed fragment has
      a canonical dissatisfaction (`dissatisfiable_of_type`) — this is where typing is needed
      (`or_b`, `or_d`, `or_c`, `andor`, `thresh` must be able to dissatisfy the branches not taken).
  T3  `lift_iff_canonical_satisfaction`: T1 + T2.
  T4  descriptors: `pkh/wpkh/sh(wpkh)` ↦ the key; `wsh/sh/sh(wsh)/bare` ↦ the script;
      `tr(k, leaves)` ↦ `k` can sign OR some leaf's condition holds.

  T0' `has_mixed_timelocks_exact`: the `contains_combination` fold is exactly "some structural
      spending path mixes height and time" (Spec/MsSem.lean); hence `timelock_refusal_justified`,
      `no_policy_for_mixed_path`; `raw_key_hash_refused`.
  T3' execution level.  A world fixes signing keys, known preimages and the lock fields.
      `Available`: every byte string except forgeries and unknown preimages can be pushed;
      `Realises`: the Script environment is one in which the world lives; `Closed`: the
      environment itself accepts only what the world holds (C02's `EnvOK`).
      `lift_exact_forward` (any realising environment): policy holds ⇒ some witness of AVAILABLE
      byte strings is accepted by `Script.accepts` on the encoded script — C02.mall_complete_table
      + C01.top_level_sat_sound_exec + "reported locks were accepted" (Lemmas/LiftExec.lean).
      `lift_exact_reverse` (closed environments): accepted ⇒ policy holds — C02.accepts_imp_satEx.
      `lift_exact` / `lift_exact_available`: THE PROPERTY, both directions, closed environments.
      `rx_realises`, `cx_realises`, `cx_closed`, `cx_unknown_preimage`: non-vacuity (worlds with an
      unknown preimage; a script with a threshold, a hash and a lock).

Level reached: the property verbatim at the level of the flat Script interpreter for closed
environments (unforgeability / preimage resistance as properties of the environment, as in
C02).  Open: the same iff for environments in which forgeries exist as byte strings but are not
`Available` (`lift_exact_open_env_full`, a `def`): its forward half is `lift_exact_forward`.
-/
import MsVerif.Lemmas.Lift
import MsVerif.Lemmas.LiftExec
import MsVerif.Lemmas.LiftLocks
import MsVerif.Model.Encode
import MsVerif.Spec.Script
import MsVerif.Thm.C01
import MsVerif.Thm.C02
import MsVerif.Thm.C18

namespace MsVerif.C07
open MsVerif MsVerif.Pol MsVerif.Pol.Sem MsVerif.MsSem MsVerif.Lift MsVerif.SatTable

/-! ## T0 — the loop -/

/-- the explicit-stack loop over the right-to-left post-order leaves exactly the structural fold
on the stack (or stops at the first raw key hash) -/
theorem loop_is_structural (ms : Ms) :
    liftLoop (rtlPost ms) [] =
      match liftRaw ms with
      | some p => .ok [p]
      | none => .error .rawDescriptorLift := liftLoop_eq ms

/-- `lift` = `lift_check`, then the structural fold, then `normalized` -/
theorem lift_eq (env : KeyEnv) (ctx : Ctx) (ms : Ms) :
    lift env ctx ms =
      match liftCheck env ctx ms with
      | .error e => .error e
      | .ok () =>
        match liftRaw ms with
        | some p => .ok (normalized p)
        | none => .error .rawDescriptorLift := lift_eq' env ctx ms

/-- no `unwrap()` of the loop can fail -/
theorem lift_never_panics (env : KeyEnv) (ctx : Ctx) (ms : Ms) :
    lift env ctx ms ≠ .error .panic := lift_no_panic env ctx ms

/-- `lift` succeeds exactly for scripts within the resource limits of their context, without a
height/time lock combination and without raw key hashes -/
theorem lift_ok_iff (env : KeyEnv) (ctx : Ctx) (ms : Ms) :
    (∃ p, lift env ctx ms = .ok p) ↔
      withinResourceLimits env ctx ms = true ∧ Lift.hasMixedTimelocks env ctx ms = false
        ∧ noRaw ms = true := by
  rw [lift_eq, ← liftRaw_isSome]
  unfold liftCheck
  cases withinResourceLimits env ctx ms <;> cases Lift.hasMixedTimelocks env ctx ms <;>
    cases liftRaw ms <;> simp

/-- the three refusals, in the order the Rust tests them -/
theorem lift_error_kinds (env : KeyEnv) (ctx : Ctx) (ms : Ms) :
    (withinResourceLimits env ctx ms = false →
        lift env ctx ms = .error .branchExceedResourceLimits)
    ∧ (withinResourceLimits env ctx ms = true → Lift.hasMixedTimelocks env ctx ms = true →
        lift env ctx ms = .error .heightTimelockCombination)
    ∧ (withinResourceLimits env ctx ms = true → Lift.hasMixedTimelocks env ctx ms = false →
        noRaw ms = false → lift env ctx ms = .error .rawDescriptorLift) := by
  rw [lift_eq, ← liftRaw_isSome]
  unfold liftCheck
  cases withinResourceLimits env ctx ms <;> cases Lift.hasMixedTimelocks env ctx ms <;>
    cases liftRaw ms <;> simp

/-- what `J liftrefusal` judges about raw key hashes, for the model: a script that mentions one
(specification predicate `mentionsRaw`) is never shown as a policy, and `RawDescriptorLift` is
reported only for such scripts -/
theorem raw_key_hash_refused (env : KeyEnv) (ctx : Ctx) (ms : Ms) :
    (mentionsRaw ms = true → ∀ p, lift env ctx ms ≠ .ok p)
    ∧ (lift env ctx ms = .error .rawDescriptorLift → mentionsRaw ms = true) := by
  rw [mentionsRaw_eq]
  constructor
  · intro hm p hp
    have := ((lift_ok_iff env ctx ms).mp ⟨p, hp⟩).2.2
    simp [this] at hm
  · rw [lift_eq, ← liftRaw_isSome]
    unfold liftCheck
    cases withinResourceLimits env ctx ms <;> cases Lift.hasMixedTimelocks env ctx ms <;>
      cases liftRaw ms <;> simp

/-! ## T0' — the timelock refusal (what `J liftrefusal` judges, as theorems about the model)

`hasMixedPath` (Spec/MsSem.lean): some spending path — one branch per `or`, both per `and`,
exactly `k` children per `thresh` — needs a height-based and a time-based lock of one kind.
`kBounds`: `1 ≤ k ≤ n` at every `thresh`, `k ≤ n` at every multi (what `Threshold::new`
guarantees). -/

/-- `has_mixed_timelocks` (the `contains_combination` flag folded bottom-up by `ExtData`) is
EXACT w.r.t. structural spending paths: every script, context and key environment -/
theorem has_mixed_timelocks_exact (env : KeyEnv) (ctx : Ctx) (ms : Ms)
    (hk : LiftLocks.kBounds ms = true) :
    Lift.hasMixedTimelocks env ctx ms = hasMixedPath true ms :=
  LiftLocks.hasMixedTimelocks_eq env ctx ms hk

/-- `HeightTimelockCombination` is reported only for scripts that have a mixed path -/
theorem timelock_refusal_justified (env : KeyEnv) (ctx : Ctx) (ms : Ms)
    (hk : LiftLocks.kBounds ms = true)
    (h : lift env ctx ms = .error .heightTimelockCombination) : hasMixedPath true ms = true := by
  rw [← has_mixed_timelocks_exact env ctx ms hk]
  rw [lift_eq] at h
  unfold liftCheck at h
  cases hw : withinResourceLimits env ctx ms <;> cases hm : Lift.hasMixedTimelocks env ctx ms <;>
    cases hr : liftRaw ms <;> simp [hw, hm, hr] at h ⊢

/-- a script for which a policy is shown has no mixed path — neither a structural one nor
(a fortiori) a satisfiable one -/
theorem no_policy_for_mixed_path (env : KeyEnv) (ctx : Ctx) (ms : Ms) (p : Policy)
    (hk : LiftLocks.kBounds ms = true) (h : lift env ctx ms = .ok p) :
    hasMixedPath true ms = false ∧ hasMixedPath false ms = false := by
  have h1 : hasMixedPath true ms = false := by
    rw [← has_mixed_timelocks_exact env ctx ms hk]
    exact ((lift_ok_iff env ctx ms).mp ⟨p, h⟩).2.1
  refine ⟨h1, ?_⟩
  cases h2 : hasMixedPath false ms
  · rfl
  · rw [LiftLocks.hasMixedPath_mono ms h2] at h1; cases h1

mutual
/-- `kBounds` is part of what C01's `WF` (the constructors' numeric guarantees) says -/
theorem kBounds_of_WF (ctx : Ctx) : ∀ ms : Ms, SatSpec.WF ctx ms → LiftLocks.kBounds ms = true
  | .tru, _ | .fls, _ | .pkK _, _ | .pkH _, _ | .rawPkH _, _ | .after _, _ | .older _, _
  | .hash _ _, _ => by simp [LiftLocks.kBounds]
  | .multi k ks, h | .sortedMulti k ks, h | .multiA k ks, h | .sortedMultiA k ks, h => by
    simp only [SatSpec.WF] at h
    simp only [LiftLocks.kBounds, decide_eq_true_eq]; omega
  | .alt x, h | .swap x, h | .check x, h | .dupIf x, h | .verify x, h | .nonZero x, h
  | .zeroNotEqual x, h => by
    simp only [SatSpec.WF] at h
    simp only [LiftLocks.kBounds]; exact kBounds_of_WF ctx x h
  | .andV l r, h | .andB l r, h | .orB l r, h | .orD l r, h | .orC l r, h | .orI l r, h => by
    simp only [SatSpec.WF] at h
    simp only [LiftLocks.kBounds, Bool.and_eq_true]
    exact ⟨kBounds_of_WF ctx l h.1, kBounds_of_WF ctx r h.2⟩
  | .andOr a b c, h => by
    simp only [SatSpec.WF] at h
    simp only [LiftLocks.kBounds, Bool.and_eq_true]
    exact ⟨⟨kBounds_of_WF ctx a h.1, kBounds_of_WF ctx b h.2.1⟩, kBounds_of_WF ctx c h.2.2⟩
  | .thresh k xs, h => by
    simp only [SatSpec.WF] at h
    simp only [LiftLocks.kBounds, Bool.and_eq_true, decide_eq_true_eq]
    exact ⟨⟨h.1, h.2.1⟩, kBoundsL_of_WFs ctx xs h.2.2.2⟩
theorem kBoundsL_of_WFs (ctx : Ctx) : ∀ xs : MsList, SatSpec.WFs ctx xs → LiftLocks.kBoundsL xs = true
  | .nil, _ => by simp [LiftLocks.kBoundsL]
  | .cons x xs, h => by
    simp only [SatSpec.WFs] at h
    simp only [LiftLocks.kBoundsL, Bool.and_eq_true]
    exact ⟨kBounds_of_WF ctx x h.1, kBoundsL_of_WFs ctx xs h.2⟩
end

/-- the hypothesis is satisfiable by nested scripts with thresholds and locks of both units, the
refusal is reachable, and `kBounds` is needed: `multi(3,K0,K1)` (not constructible through
`Threshold::new`) has no path at all, while the fold still reports "no combination" -/
example : LiftLocks.kBounds (.thresh 2 (.cons (.check (.pkK 0)) (.cons (.alt (.dupIf (.verify
    (.older 10)))) (.cons (.alt (.dupIf (.verify (.older 4194305)))) .nil)))) = true := by decide
example : hasMixedPath true (.thresh 2 (.cons (.check (.pkK 0)) (.cons (.alt (.dupIf (.verify
    (.older 10)))) (.cons (.alt (.dupIf (.verify (.older 4194305)))) .nil)))) = true := by decide
example : hasMixedPath true (.thresh 1 (.cons (.check (.pkK 0)) (.cons (.alt (.dupIf (.verify
    (.older 10)))) (.cons (.alt (.dupIf (.verify (.older 4194305)))) .nil)))) = false := by decide

/-! ## T1 — the lifted policy has the script's truth table -/

/-- T1: in every world the lifted policy holds iff the script's condition does -/
theorem lift_sem (env : KeyEnv) (ctx : Ctx) (ms : Ms) (p : Policy)
    (h : lift env ctx ms = .ok p) (W : World) : holds W p = sem W ms :=
  lift_holds env ctx ms p h W

/-- the lifted policy is in the normal form of C18 (no constants below the root, no 1-child
thresholds, no `and` directly under `and`, no `or` directly under `or`) -/
theorem lift_normal_form (env : KeyEnv) (ctx : Ctx) (ms : Ms) (p : Policy)
    (h : lift env ctx ms = .ok p) : NF p = true := by
  obtain ⟨q, _, rfl⟩ := lift_ok_raw h
  exact normalized_NF q

/-- states of the lifted policy (`J liftstate`): normalising it again changes nothing, and
restricting it to the age / lock time of the very transaction that spends keeps its meaning -/
theorem lift_normalized_again (env : KeyEnv) (ctx : Ctx) (ms : Ms) (p : Policy)
    (h : lift env ctx ms = .ok p) : normalized p = p :=
  C18.normalized_fixes_normal_forms p (lift_normal_form env ctx ms p h)

theorem lift_at_age_sem (env : KeyEnv) (ctx : Ctx) (ms : Ms) (p : Policy)
    (h : lift env ctx ms = .ok p) (W : World) (ha : W.nSequence < 2147483648) :
    holds W (atAge W.nSequence p) = sem W ms := by
  rw [C18.at_age_holds W p ha, lift_sem env ctx ms p h W]

theorem lift_at_lock_time_sem (env : KeyEnv) (ctx : Ctx) (ms : Ms) (p : Policy)
    (h : lift env ctx ms = .ok p) (W : World) :
    holds W (atLockTime W.nLockTime p) = sem W ms := by
  rw [C18.at_lock_time_holds W p, lift_sem env ctx ms p h W]

/-- a lifted script has no raw key hash -/
theorem lift_ok_noRaw (env : KeyEnv) (ctx : Ctx) (ms : Ms) (p : Policy)
    (h : lift env ctx ms = .ok p) : noRaw ms = true :=
  ((lift_ok_iff env ctx ms).mp ⟨p, h⟩).2.2

/-! ## T2 — the direct reading is the specification's satisfaction table -/

/-- T2: for every well-typed fragment (any base type) without raw key hashes, a canonical
satisfaction from the world's assets exists iff the direct reading holds -/
theorem table_eq_sem (W : World) (ms : Ms) (τ : Ty) (ht : typeOf ms = some τ)
    (hr : noRaw ms = true) : satEx (availOfWorld W) ms = sem W ms :=
  (table_ms W ms τ ht hr).1

/-- the invariant that makes T2 go through: a fragment whose type says `d` has a canonical
dissatisfaction whatever the assets -/
theorem dissatisfiable_of_type (W : World) (ms : Ms) (τ : Ty) (ht : typeOf ms = some τ)
    (hr : noRaw ms = true) (hd : τ.corr.dissat = true) : dsatEx (availOfWorld W) ms = true :=
  (table_ms W ms τ ht hr).2 hd

/-- typing is needed: the ill-typed `or_d(v:pk(0), pk(1))` cannot dissatisfy its left branch, so
with only key 1 the table has no satisfaction although the direct reading holds -/
theorem table_eq_sem_needs_typing :
    ∃ (W : World) (ms : Ms), typeOf ms = none ∧ noRaw ms = true
      ∧ satEx (availOfWorld W) ms ≠ sem W ms :=
  ⟨⟨fun k => k == 1, fun _ _ => false, 0, 0⟩,
   .orD (.verify (.check (.pkK 0))) (.check (.pkK 1)), by decide, by decide,
   by simp [satEx, dsatEx, sem, availOfWorld]⟩

/-! ## T3 — lifted policy ⇔ canonical satisfaction -/

/-- T1 + T2: the policy the library reports holds in a world exactly when the specification's
table has a satisfaction built from that world's signatures, preimages, nLockTime, nSequence -/
theorem lift_iff_canonical_satisfaction (env : KeyEnv) (ctx : Ctx) (ms : Ms) (p : Policy) (τ : Ty)
    (h : lift env ctx ms = .ok p) (ht : typeOf ms = some τ) (W : World) :
    holds W p = satEx (availOfWorld W) ms := by
  rw [lift_sem env ctx ms p h W, table_eq_sem W ms τ ht (lift_ok_noRaw env ctx ms p h)]

/-! ## T3' — execution level: the lifted policy and `Script.accepts`

A world fixes which keys can sign, which hash preimages are known, and the transaction's lock
fields.  What the spender can put on the stack is then determined: EVERY byte string, except
signatures (valid in the spending transaction) for keys the world cannot sign for
(unforgeability) and preimages of committed hash values the world does not know (preimage
resistance). -/

/-- byte strings a spender in world `W` can push, given the transaction's Script environment -/
def Available (kenv : KeyEnv) (senv : Script.Env) (W : World) (b : Bytes) : Prop :=
  (∀ k, senv.sigOk (kenv.ser k) b = true → W.canSign k = true) ∧
  (∀ kind h, senv.hash (SatSpec.hashOpOf kind) b = kenv.hashVal kind h →
      W.preimage (polHash kind) h = true)

/-- The Script environment `senv` of the spending transaction is one in which world `W` lives:
same lock fields (input not final, version ≥ 2); interpreter flags of the context with resource
limits off (limits are C09's subject); keys well-formed for the context; for every key the
world can sign for SOME valid signature is available, for every preimage it knows SOME 32-byte
preimage is; the non-secret constants of a witness (empty vector, `1`, 32 zero bytes, public
keys) are available, i.e. are no forgeries / unknown preimages; no committed hash value is the
hash of 32 zero bytes (the canonical hash dissatisfaction).  Nothing is said about unknown
preimages or keys that cannot sign: by `Available` such strings simply cannot be pushed. -/
structure Realises (kenv : KeyEnv) (ctx : Ctx) (senv : Script.Env) (W : World) : Prop where
  envOk : SatSpec.EnvOk senv ctx
  lockTime : senv.nLockTime = W.nLockTime
  sequence : senv.nSequence = W.nSequence
  notFinal : W.nSequence ≠ Script.SEQ_FINAL
  seqU32 : W.nSequence < 4294967296
  version : senv.txVersion ≥ 2
  keyShape : ∀ k, Script.pubkeyOk senv (kenv.ser k) = true
  keyLen : ∀ k, (kenv.ser k).length < 2147483648
  pkh : ∀ k, senv.hash .hash160 (kenv.ser k) = kenv.pkh k
  signs : ∀ k, W.canSign k = true →
    ∃ sg, Available kenv senv W sg ∧ sg ≠ [] ∧ sg.length < 2147483648
      ∧ senv.sigOk (kenv.ser k) sg = true
  knows : ∀ kind h, W.preimage (polHash kind) h = true →
    ∃ x, Available kenv senv W x ∧ x.length = 32
      ∧ senv.hash (SatSpec.hashOpOf kind) x = kenv.hashVal kind h
  publicData : Available kenv senv W [] ∧ Available kenv senv W [1]
    ∧ Available kenv senv W (List.replicate 32 0) ∧ ∀ k, Available kenv senv W (kenv.ser k)
  zeroNoPreimage : ∀ kind h,
    senv.hash (SatSpec.hashOpOf kind) (List.replicate 32 0) ≠ kenv.hashVal kind h

/-- some witness made of available byte strings is accepted by the encoded script -/
def Spendable (kenv : KeyEnv) (ctx : Ctx) (senv : Script.Env) (W : World) (ms : Ms) : Prop :=
  ∃ wit : List Bytes, (∀ b ∈ wit, Available kenv senv W b)
    ∧ Script.accepts senv (encode kenv ctx ms) wit = true

section forward
open MsVerif.LiftExec MsVerif.SatSpec

/-- `Placeholder::satisfy_self` for a spender living in `W` (the signatures / preimages whose
existence `Realises` asserts) -/
noncomputable def sigmaOf {kenv : KeyEnv} {ctx : Ctx} {senv : Script.Env} {W : World}
    (R : Realises kenv ctx senv W) : Ph → Bytes
  | .pushOne => [1]
  | .pushZero => []
  | .hashDissat => List.replicate 32 0
  | .pubkey k _ => kenv.ser k
  | .ecdsaSig k => if h : W.canSign k = true then Classical.choose (R.signs k h) else []
  | .schnorrSig k _ => if h : W.canSign k = true then Classical.choose (R.signs k h) else []
  | .preimage kind x =>
    if h : W.preimage (polHash kind) x = true then Classical.choose (R.knows kind x h) else []
  | .pubkeyHash _ _ | .ecdsaSigPkh _ | .schnorrSigPkh _ _ => []

variable {kenv : KeyEnv} {ctx : Ctx} {senv : Script.Env} {W : World}

theorem sigmaOf_available (R : Realises kenv ctx senv W) (p : Ph) :
    Available kenv senv W (sigmaOf R p) := by
  cases p with
  | pushOne => exact R.publicData.2.1
  | pushZero => exact R.publicData.1
  | hashDissat => exact R.publicData.2.2.1
  | pubkey k _ => exact R.publicData.2.2.2 k
  | ecdsaSig k =>
    simp only [sigmaOf]
    split
    · rename_i h; exact (Classical.choose_spec (R.signs k h)).1
    · exact R.publicData.1
  | schnorrSig k _ =>
    simp only [sigmaOf]
    split
    · rename_i h; exact (Classical.choose_spec (R.signs k h)).1
    · exact R.publicData.1
  | preimage kind x =>
    simp only [sigmaOf]
    split
    · rename_i h; exact (Classical.choose_spec (R.knows kind x h)).1
    · exact R.publicData.1
  | pubkeyHash _ _ => exact R.publicData.1
  | ecdsaSigPkh _ => exact R.publicData.1
  | schnorrSigPkh _ _ => exact R.publicData.1

theorem sigmaOf_size (R : Realises kenv ctx senv W) (p : Ph) :
    (sigmaOf R p).length < 2147483648 := by
  cases p with
  | pushOne => simp [sigmaOf]
  | pushZero => simp [sigmaOf]
  | hashDissat => simp [sigmaOf]
  | pubkey k _ => exact R.keyLen k
  | ecdsaSig k =>
    simp only [sigmaOf]
    split
    · rename_i h; exact (Classical.choose_spec (R.signs k h)).2.2.1
    · simp
  | schnorrSig k _ =>
    simp only [sigmaOf]
    split
    · rename_i h; exact (Classical.choose_spec (R.signs k h)).2.2.1
    · simp
  | preimage kind x =>
    simp only [sigmaOf]
    split
    · rename_i h; rw [(Classical.choose_spec (R.knows kind x h)).2.1]; decide
    · simp
  | pubkeyHash _ _ => simp [sigmaOf]
  | ecdsaSigPkh _ => simp [sigmaOf]
  | schnorrSigPkh _ _ => simp [sigmaOf]

/-- C01's `Agrees`: what the spender of world `W` hands to the satisfier is real -/
theorem agrees_of_realises (R : Realises kenv ctx senv W) :
    Agrees senv kenv (assetsOfWorld W) (sigmaOf R) where
  pushOne := rfl
  pushZero := rfl
  hashDissat := rfl
  keyShape := R.keyShape
  pkh := R.pkh
  pubkey := fun _ _ => rfl
  ecdsa := by
    intro k hk
    have hk' : W.canSign k = true := hk
    have hs := Classical.choose_spec (R.signs k hk')
    simp only [sigmaOf, hk', dite_true]
    exact ⟨hs.2.1, hs.2.2.2⟩
  schnorr := by
    intro k sz hk
    have hk' : W.canSign k = true := by
      simp only [assetsOfWorld] at hk
      by_cases h : W.canSign k = true
      · exact h
      · simp [h] at hk
    have hs := Classical.choose_spec (R.signs k hk')
    simp only [sigmaOf, hk', dite_true]
    exact ⟨hs.2.1, hs.2.2.2⟩
  rawPk := by intro h sz hh; simp [assetsOfWorld] at hh
  rawEcdsa := by intro h pk sz hh; simp [assetsOfWorld] at hh
  rawSchnorr := by intro h pk sz sz' hh; simp [assetsOfWorld] at hh
  preimage := by
    intro kind h hk
    have hk' : W.preimage (polHash kind) h = true := hk
    have hs := Classical.choose_spec (R.knows kind h hk')
    simp only [sigmaOf, hk', dite_true]
    exact ⟨hs.2.1, hs.2.2⟩
  zeroNoPreimage := R.zeroNoPreimage
  sizeOk := sigmaOf_size R

/-- the table's view of the satisfier's assets IS the world's assets -/
theorem avail_assetsOfWorld (W : World) (ctx : Ctx) :
    C02.avail (assetsOfWorld W) ctx = availOfWorld W := by
  unfold C02.avail availOfWorld assetsOfWorld
  simp only [csvOk_relCanon]
  cases ctx.sigType <;> simp
  · funext k; by_cases h : W.canSign k = true <;> simp [h]

/-- the locks a satisfaction of the world's spender reports are met by the world's transaction -/
theorem locksMet_of_realises (R : Realises kenv ctx senv W) (cfg : SatCfg)
    (ha : cfg.assets = assetsOfWorld W) (ms : Ms) : LocksMet senv (satDissat cfg ms).sat := by
  have hr := reported_locks_accepted cfg ms
  rw [ha] at hr
  have hnf : senv.nSequence ≠ Script.SEQ_FINAL := by rw [R.sequence]; exact R.notFinal
  constructor
  · intro n hn
    have h := hr.1 n hn
    simp only [assetsOfWorld] at h
    rw [← R.lockTime] at h
    exact checkLockTime_of_cltvOk senv n hnf h
  · intro n hn
    have h := hr.2 n hn
    simp only [assetsOfWorld, csvOk_relCanon] at h
    rw [← R.sequence] at h
    exact checkSequence_of_csvOk senv n R.version h

/-- **Forward half of the property at execution level.**  If the policy `lift` reports holds
in world `W`, then SOME witness consisting of byte strings available in `W` makes the encoded
script succeed under the Script semantics of a transaction realising `W` — the policy invents no
spending path.  From `lift_sem` + `table_eq_sem` (this file), completeness of the malleable
satisfier w.r.t. the table (`C02.mall_complete_table`) and soundness of every satisfaction on
the flat interpreter (`C01.top_level_sat_sound_exec`).  Hypotheses beyond `Realises`: `WF`,
`ThreshKOK` and `SmallScript` — numeric side conditions the Rust constructors guarantee
(`1 ≤ k ≤ n`, lock values in `1 … 2^31-1`, `multi` only outside Tap with ≤ 20 keys; fewer than
2^55 witness items). -/
theorem lift_exact_forward (kenv : KeyEnv) (ctx : Ctx) (ms : Ms) (p : Policy) (τ : Ty)
    (senv : Script.Env) (W : World)
    (hl : lift kenv ctx ms = .ok p) (ht : typeOf ms = some τ) (hB : τ.corr.base = .B)
    (hwf : WF ctx ms) (hk : C02.ThreshKOK ms) (hsm : C02.SmallScript ms)
    (R : Realises kenv ctx senv W) (hh : holds W p = true) : Spendable kenv ctx senv W ms := by
  have hex : satEx (availOfWorld W) ms = true := by
    rw [← lift_iff_canonical_satisfaction kenv ctx ms p τ hl ht W]; exact hh
  rw [← avail_assetsOfWorld W ctx] at hex
  have hlk : C02.NoMixedLocks (assetsOfWorld W) ms := fun s _ t _ => lockCompat_world W s t
  have hsz : Complete.SigSizesOK (assetsOfWorld W) := by
    constructor
    · intro k sz h
      simp only [assetsOfWorld] at h
      by_cases hc : W.canSign k = true
      · simp [hc] at h; omega
      · simp [hc] at h
    · intro h pr hp; simp [assetsOfWorld] at hp
  obtain ⟨w, hw⟩ := (C02.mall_complete_table kenv ctx true (assetsOfWorld W) ms hk hlk hsz hsm).1 hex
  let cfg : SatCfg := ⟨kenv, ctx, true, true, assetsOfWorld W⟩
  have hacc := C01.top_level_sat_sound_exec (env := senv) (σ := sigmaOf R) (cfg := cfg) R.envOk
    (agrees_of_realises R) ms τ hwf ht hB w hw (locksMet_of_realises R cfg rfl ms)
  refine ⟨stk (sigmaOf R) w, ?_, hacc⟩
  intro b hb
  simp only [stk, List.mem_reverse, List.mem_map] at hb
  obtain ⟨ph, _, rfl⟩ := hb
  exact sigmaOf_available R ph

end forward

/-! ### Non-vacuity: a world with an UNKNOWN preimage that is realised, and a script with a
threshold, a hash and a lock to which `lift_exact_forward` applies -/

/-- three distinguishable compressed-looking keys (`0`, `1`, everything else) -/
def rxSer (k : Key) : Bytes :=
  2 :: List.replicate 32 (if k == 0 then 0 else if k == 1 then 1 else 2)
/-- hash atom `0` commits to `1^32`, every other hash atom to `2^32`; hashing is the identity -/
def rxKenv : KeyEnv :=
  ⟨rxSer, rxSer, rxSer, fun _ => [], fun _ h => List.replicate 32 (if h == 0 then 1 else 2)⟩
/-- P2WSH flags, limits off; the only valid signature for `pk` is `0x30 ‖ pk` -/
def rxSenv : Script.Env :=
  { flags := ⟨false, true, true, true, true, false, false⟩
    sigOk := fun pk sg => sg == 0x30 :: pk
    hash := fun _ x => x
    nLockTime := 0, nSequence := 144, txVersion := 2 }
/-- keys 0 and 1 can sign, ONLY the preimage of hash atom 0 is known (that of every other hash
atom, `2^32`, is not — and is therefore not `Available`) -/
def rxWorld : World := ⟨fun k => k == 0 || k == 1, fun _ h => h == 0, 0, 144⟩

theorem rx_avail_of_len (b : Bytes) (h1 : b.length ≠ 34) (h2 : b.length ≠ 32) :
    Available rxKenv rxSenv rxWorld b := by
  constructor
  · intro k hk
    simp only [rxSenv, rxKenv, beq_iff_eq] at hk
    subst hk
    simp [rxSer] at h1
  · intro kind h hh
    simp only [rxSenv, rxKenv] at hh
    subst hh
    simp at h2

theorem rx_unknown_preimage_unavailable :
    rxWorld.preimage .sha256 1 = false ∧ ¬ Available rxKenv rxSenv rxWorld (List.replicate 32 2) := by
  refine ⟨rfl, fun h => ?_⟩
  have := h.2 .sha256 1 rfl
  simp [rxWorld, polHash] at this

theorem rx_realises : Realises rxKenv .segwitv0 rxSenv rxWorld where
  envOk := ⟨rfl, rfl, by decide⟩
  lockTime := rfl
  sequence := rfl
  notFinal := by decide
  seqU32 := by decide
  version := by decide
  keyShape := by intro k; simp [Script.pubkeyOk, rxSenv, rxKenv, rxSer]
  keyLen := by intro k; simp [rxKenv, rxSer]
  pkh := fun _ => rfl
  signs := by
    intro k hk
    refine ⟨0x30 :: rxSer k, ⟨?_, ?_⟩, by simp, by simp [rxSer], by simp [rxSenv, rxKenv]⟩
    · intro k' hk'
      simp only [rxSenv, rxKenv, beq_iff_eq, List.cons.injEq, true_and] at hk'
      simp only [rxWorld, Bool.or_eq_true, beq_iff_eq] at hk ⊢
      simp only [rxSer, List.cons.injEq, true_and] at hk'
      have h0 := congrArg (fun l => l.head?) hk'
      simp only [List.replicate, List.head?_cons, Option.some.injEq] at h0
      rcases hk with rfl | rfl
      · by_cases a : k' = 0
        · exact Or.inl a
        · by_cases b : k' = 1
          · exact Or.inr b
          · simp [a, b] at h0
      · by_cases a : k' = 0
        · exact Or.inl a
        · by_cases b : k' = 1
          · exact Or.inr b
          · simp [a, b] at h0
    · intro kind h hh
      simp only [rxSenv, rxKenv] at hh
      have := congrArg List.length hh
      simp [rxSer] at this
  knows := by
    intro kind h hk
    simp only [rxWorld, beq_iff_eq] at hk
    subst hk
    refine ⟨List.replicate 32 1, ⟨?_, ?_⟩, by simp, by simp [rxSenv, rxKenv]⟩
    · intro k' hk'
      simp only [rxSenv, rxKenv, beq_iff_eq] at hk'
      have := congrArg List.length hk'
      simp [rxSer] at this
    · intro kind' h' hh
      simp only [rxSenv, rxKenv] at hh
      simp only [rxWorld, beq_iff_eq]
      by_cases a : h' = 0
      · exact a
      · have h0 := congrArg (fun l => l.head?) hh
        simp [List.replicate, a] at h0
  publicData := by
    refine ⟨rx_avail_of_len _ (by simp) (by simp), rx_avail_of_len _ (by simp) (by simp), ?_,
      fun k => rx_avail_of_len _ (by simp [rxKenv, rxSer]) (by simp [rxKenv, rxSer])⟩
    constructor
    · intro k hk
      simp only [rxSenv, rxKenv, beq_iff_eq] at hk
      have := congrArg List.length hk
      simp [rxSer] at this
    · intro kind h hh
      simp only [rxSenv, rxKenv] at hh
      have h0 := congrArg (fun l => l.head?) hh
      by_cases a : h = 0 <;> simp [List.replicate, a] at h0
  zeroNoPreimage := by
    intro kind h hh
    simp only [rxSenv, rxKenv] at hh
    have h0 := congrArg (fun l => l.head?) hh
    by_cases a : h = 0 <;> simp [List.replicate, a] at h0

/-- `and_v(v:thresh(2, pk(0), s:pk(1), a:sha256(H0)), older(144))` -/
def rxMs : Ms :=
  .andV (.verify (.thresh 2 (.cons (.check (.pkK 0)) (.cons (.swap (.check (.pkK 1)))
    (.cons (.alt (.hash .sha256 0)) .nil))))) (.older 144)

example : Spendable rxKenv .segwitv0 rxSenv rxWorld rxMs :=
  lift_exact_forward rxKenv .segwitv0 rxMs
    (.thresh 2 [.thresh 2 [.atom (.key 0), .atom (.key 1), .atom (.hash .sha256 0)],
                .atom (.older 144)])
    ⟨⟨.B, .any, false, false⟩, ⟨.none, true, false⟩⟩ rxSenv rxWorld
    (by rfl) (by decide) rfl
    (by simp [rxMs, SatSpec.WF, SatSpec.WFs, MsList.length])
    (by decide)
    (by simp [rxMs, C02.SmallScript, Complete.itemBound, Complete.itemBounds])
    rx_realises (by decide)

/-! ### both directions

The reverse direction is C02's `accepts_imp_satEx` (an ACCEPTED witness of a well-typed `B` script
implies a canonical satisfaction in the table).  It speaks about environments that accept only
what the spender holds — unforgeability and preimage resistance as properties of the ENVIRONMENT
(`Closed`): no byte string at all verifies as a signature for a key the world cannot sign for
(also not through a `pk_h` commitment), none of length 32 hashes to a committed value whose
preimage the world does not know.  In such an environment an unknown preimage is one that no
string hashes to, and every byte string is harmless to offer: "a witness built from the world's
assets" is any witness. -/

/-- the environment accepts only what the world holds (`AccSat.EnvOK`, in world terms) -/
structure Closed (kenv : KeyEnv) (senv : Script.Env) (W : World) : Prop where
  sigK : ∀ k s, senv.sigOk (kenv.ser k) s = true → W.canSign k = true
  sigH : ∀ k pk s, senv.hash .hash160 pk = kenv.pkh k → senv.sigOk pk s = true →
    W.canSign k = true
  pre : ∀ kind h x, x.length = 32 → senv.hash (SatSpec.hashOpOf kind) x = kenv.hashVal kind h →
    W.preimage (polHash kind) h = true

/-- `Realises` + `Closed` give C02's `EnvOK` for the world's availability (the lock clauses come
from the equal lock fields) -/
theorem envOK_of_closed {kenv : KeyEnv} {ctx : Ctx} {senv : Script.Env} {W : World}
    (R : Realises kenv ctx senv W) (hc : Closed kenv senv W) :
    AccSat.EnvOK senv kenv (availOfWorld W) where
  sigK := hc.sigK
  sigH := hc.sigH
  pre := hc.pre
  after := by
    intro n h
    have := LiftExec.cltvOk_of_checkLockTime senv n h
    rw [R.lockTime] at this
    exact this
  older := by
    intro n h
    have hu : senv.nSequence < 4294967296 := by rw [R.sequence]; exact R.seqU32
    have := LiftExec.csvOk_of_checkSequence senv n hu h
    rw [R.sequence] at this
    exact this

/-- in a closed environment nothing is unavailable except unknown preimages of the wrong
length (which hash opcodes reject anyway) -/
theorem closed_available {kenv : KeyEnv} {senv : Script.Env} {W : World}
    (hc : Closed kenv senv W) (b : Bytes) (hb : b.length = 32 ∨ ∀ kind h,
      senv.hash (SatSpec.hashOpOf kind) b ≠ kenv.hashVal kind h) : Available kenv senv W b :=
  ⟨fun k h => hc.sigK k b h, fun kind h hh => by
    rcases hb with hb | hb
    · exact hc.pre kind h b hb hh
    · exact absurd hh (hb kind h)⟩

/-- **Reverse half at execution level**: a witness (ANY byte strings) that the encoded script
accepts in a closed environment realising `W` ⇒ the lifted policy holds in `W` — the policy
hides no spending path.  C02.`accepts_imp_satEx` + `table_eq_sem` + `lift_sem`. -/
theorem lift_exact_reverse (kenv : KeyEnv) (ctx : Ctx) (ms : Ms) (p : Policy) (τ : Ty)
    (senv : Script.Env) (W : World)
    (hl : lift kenv ctx ms = .ok p) (ht : typeOf ms = some τ) (hB : τ.corr.base = .B)
    (hwa : AccSat.WF ms) (R : Realises kenv ctx senv W) (hc : Closed kenv senv W)
    (wit : List Bytes) (hacc : Script.accepts senv (encode kenv ctx ms) wit = true) :
    holds W p = true := by
  rw [lift_iff_canonical_satisfaction kenv ctx ms p τ hl ht W]
  exact C02.accepts_imp_satEx R.envOk.stackLimits (envOK_of_closed R hc) ctx ms hwa τ ht hB wit hacc

/-- **The property at execution level, both directions proved**: for a script that `lift`
accepts, in every world and every closed Script environment realising it, the reported policy
holds EXACTLY when some witness makes the encoded script succeed (CLEANSTACK acceptance by the
flat interpreter).  Side conditions (`WF`, `AccSat.WF`, `ThreshKOK`, `SmallScript`) are
decidable invariants of the library's `Threshold` / lock-time / context types. -/
theorem lift_exact (kenv : KeyEnv) (ctx : Ctx) (ms : Ms) (p : Policy) (τ : Ty)
    (senv : Script.Env) (W : World)
    (hl : lift kenv ctx ms = .ok p) (ht : typeOf ms = some τ) (hB : τ.corr.base = .B)
    (hwf : SatSpec.WF ctx ms) (hwa : AccSat.WF ms) (hk : C02.ThreshKOK ms)
    (hsm : C02.SmallScript ms) (R : Realises kenv ctx senv W) (hc : Closed kenv senv W) :
    holds W p = true ↔ ∃ wit : List Bytes, Script.accepts senv (encode kenv ctx ms) wit = true := by
  constructor
  · intro hh
    obtain ⟨wit, _, hacc⟩ := lift_exact_forward kenv ctx ms p τ senv W hl ht hB hwf hk hsm R hh
    exact ⟨wit, hacc⟩
  · rintro ⟨wit, hacc⟩
    exact lift_exact_reverse kenv ctx ms p τ senv W hl ht hB hwa R hc wit hacc

/-- … and the witness can always be taken from the world's available byte strings -/
theorem lift_exact_available (kenv : KeyEnv) (ctx : Ctx) (ms : Ms) (p : Policy) (τ : Ty)
    (senv : Script.Env) (W : World)
    (hl : lift kenv ctx ms = .ok p) (ht : typeOf ms = some τ) (hB : τ.corr.base = .B)
    (hwf : SatSpec.WF ctx ms) (hwa : AccSat.WF ms) (hk : C02.ThreshKOK ms)
    (hsm : C02.SmallScript ms) (R : Realises kenv ctx senv W) (hc : Closed kenv senv W) :
    holds W p = true ↔ Spendable kenv ctx senv W ms :=
  ⟨lift_exact_forward kenv ctx ms p τ senv W hl ht hB hwf hk hsm R,
   fun ⟨wit, _, hacc⟩ => lift_exact_reverse kenv ctx ms p τ senv W hl ht hB hwa R hc wit hacc⟩

/-- The same iff WITHOUT `Closed` (environments in which forgeries / unknown preimages exist as
byte strings but are not `Available`): forward half = `lift_exact_forward`; the reverse half
would need an execution invariant ("only witness elements reach CHECKSIG / hash opcodes as
signatures / preimages") on top of C02's theorem and is not proved. -/
def lift_exact_open_env_full : Prop :=
  ∀ (kenv : KeyEnv) (ctx : Ctx) (ms : Ms) (p : Policy) (τ : Ty) (senv : Script.Env) (W : World),
    lift kenv ctx ms = .ok p → typeOf ms = some τ → τ.corr.base = .B → SatSpec.WF ctx ms →
    AccSat.WF ms → C02.ThreshKOK ms → C02.SmallScript ms → Realises kenv ctx senv W →
    (holds W p = true ↔ Spendable kenv ctx senv W ms)

/-! ### Non-vacuity of `Realises ∧ Closed`: a closed environment with an unknown preimage -/

/-- as `rxSenv`, but only keys 0 / 1 have a valid signature and nothing hashes to `2^32` (the
committed value of every hash atom other than 0): its preimage is unknown to everybody -/
def cxSenv : Script.Env :=
  { flags := ⟨false, true, true, true, true, false, false⟩
    sigOk := fun pk sg => sg == 0x30 :: pk && (pk == rxSer 0 || pk == rxSer 1)
    hash := fun _ x => if x == List.replicate 32 2 then [] else x
    nLockTime := 0, nSequence := 144, txVersion := 2 }

theorem cx_hash_ne32 (op : Script.HashOp) (x : Bytes) (h : x.length ≠ 32) :
    cxSenv.hash op x = x := by
  have hb : (x == List.replicate 32 (2 : UInt8)) = false := by
    apply beq_false_of_ne
    intro e; apply h; rw [e]; simp
  simp only [cxSenv, hb, Bool.false_eq_true, if_false]

theorem rxSer_len (k : Key) : (rxSer k).length = 33 := by simp [rxSer]

theorem rx_hashVal_len (kind : HashKind) (h : Nat) : (rxKenv.hashVal kind h).length = 32 := by
  simp [rxKenv]

theorem rxSer_inj01 (k : Key) (h : rxSer k = rxSer 0 ∨ rxSer k = rxSer 1) : k = 0 ∨ k = 1 := by
  simp only [rxSer, List.cons.injEq, true_and] at h
  by_cases a : k = 0
  · exact Or.inl a
  · by_cases b : k = 1
    · exact Or.inr b
    · exfalso
      rcases h with h | h
      · have h0 := congrArg (fun l => l.head?) h
        simp [List.replicate, a, b] at h0
      · have h0 := congrArg (fun l => l.head?) h
        simp [List.replicate, a, b] at h0

theorem cx_closed : Closed rxKenv cxSenv rxWorld where
  sigK := by
    intro k s h
    simp only [cxSenv, rxKenv, Bool.and_eq_true, Bool.or_eq_true, beq_iff_eq] at h
    simp only [rxWorld, Bool.or_eq_true, beq_iff_eq]
    exact rxSer_inj01 k h.2
  sigH := by
    intro k pk s hh h
    have h' : pk = rxSer 0 ∨ pk = rxSer 1 := by
      simp only [cxSenv, Bool.and_eq_true, Bool.or_eq_true, beq_iff_eq] at h
      exact h.2
    simp only [rxWorld, Bool.or_eq_true, beq_iff_eq]
    apply rxSer_inj01 k
    have hpk : pk.length ≠ 32 := by rcases h' with rfl | rfl <;> simp [rxSer_len]
    rw [cx_hash_ne32 _ pk hpk] at hh
    have hh' : pk = rxSer k := hh
    rcases h' with h2 | h2
    · exact Or.inl (hh'.symm.trans h2)
    · exact Or.inr (hh'.symm.trans h2)
  pre := by
    intro kind h x _ hh
    simp only [cxSenv, rxKenv] at hh
    simp only [rxWorld, beq_iff_eq]
    by_cases a : h = 0
    · exact a
    · exfalso
      by_cases hx : x = List.replicate 32 2
      · simp [hx, a] at hh
      · simp only [beq_iff_eq, hx, if_false, a] at hh

theorem cx_avail_of_len (b : Bytes) (h2 : b.length ≠ 32) :
    Available rxKenv cxSenv rxWorld b :=
  closed_available cx_closed b (Or.inr (by
    intro kind h hh
    rw [cx_hash_ne32 _ b h2] at hh
    apply h2
    rw [hh, rx_hashVal_len]))

theorem cx_realises : Realises rxKenv .segwitv0 cxSenv rxWorld where
  envOk := ⟨rfl, rfl, by decide⟩
  lockTime := rfl
  sequence := rfl
  notFinal := by decide
  seqU32 := by decide
  version := by decide
  keyShape := by intro k; simp [Script.pubkeyOk, cxSenv, rxKenv, rxSer]
  keyLen := by intro k; simp [rxKenv, rxSer]
  pkh := fun k => cx_hash_ne32 _ (rxSer k) (by simp [rxSer_len])
  signs := by
    intro k hk
    simp only [rxWorld, Bool.or_eq_true, beq_iff_eq] at hk
    refine ⟨0x30 :: rxSer k, cx_avail_of_len _ (by simp [rxSer_len]), by simp,
      by simp [rxSer_len], ?_⟩
    simp only [cxSenv, rxKenv, beq_self_eq_true, Bool.true_and, Bool.or_eq_true, beq_iff_eq]
    rcases hk with rfl | rfl
    · exact Or.inl rfl
    · exact Or.inr rfl
  knows := by
    intro kind h hk
    simp only [rxWorld, beq_iff_eq] at hk
    subst hk
    refine ⟨List.replicate 32 1, closed_available cx_closed _ (Or.inl (by simp)), by simp, ?_⟩
    simp only [cxSenv, rxKenv]
    have : List.replicate 32 (1 : UInt8) ≠ List.replicate 32 2 := by decide
    simp [this]
  publicData :=
    ⟨cx_avail_of_len _ (by simp), cx_avail_of_len _ (by simp),
     closed_available cx_closed _ (Or.inl (by simp)),
     fun k => cx_avail_of_len _ (by simp [rxKenv, rxSer_len])⟩
  zeroNoPreimage := by
    intro kind h hh
    simp only [cxSenv, rxKenv] at hh
    have : List.replicate 32 (0 : UInt8) ≠ List.replicate 32 2 := by decide
    simp only [beq_iff_eq, this, if_false] at hh
    have h0 := congrArg (fun l => l.head?) hh
    by_cases a : h = 0 <;> simp [List.replicate, a] at h0

/-- the hash atom 1 is committed (`2^32`), its preimage is unknown in `rxWorld`, and in the closed
environment NO byte string hashes to it -/
theorem cx_unknown_preimage :
    rxWorld.preimage .sha256 1 = false ∧ ∀ x, cxSenv.hash .sha256 x ≠ rxKenv.hashVal .sha256 1 := by
  refine ⟨rfl, fun x hh => ?_⟩
  simp only [cxSenv, rxKenv] at hh
  split at hh
  · have := congrArg List.length hh; simp at this
  · rename_i hx
    simp only [beq_iff_eq] at hx
    exact hx (by simpa using hh)

/-- `lift_exact` applies to the script with a threshold, a hash and a lock -/
example :
    holds rxWorld (.thresh 2 [.thresh 2 [.atom (.key 0), .atom (.key 1), .atom (.hash .sha256 0)],
                   .atom (.older 144)]) = true
      ↔ ∃ wit : List Bytes, Script.accepts cxSenv (encode rxKenv .segwitv0 rxMs) wit = true :=
  lift_exact rxKenv .segwitv0 rxMs _ ⟨⟨.B, .any, false, false⟩, ⟨.none, true, false⟩⟩ cxSenv rxWorld
    (by rfl) (by decide) rfl
    (by simp [rxMs, SatSpec.WF, SatSpec.WFs, MsList.length])
    ⟨by decide, by decide, by decide, by decide, by decide⟩ (by decide)
    (by simp [rxMs, C02.SmallScript, Complete.itemBound, Complete.itemBounds])
    cx_realises cx_closed

/-- table level (no execution hypotheses at all): the `_partial` form of `lift_exact_full` -/
theorem lift_exact_partial (env : KeyEnv) (ctx : Ctx) (ms : Ms) (p : Policy) (τ : Ty)
    (h : lift env ctx ms = .ok p) (ht : typeOf ms = some τ) (W : World) :
    holds W p = true ↔ satEx (availOfWorld W) ms = true := by
  rw [lift_iff_canonical_satisfaction env ctx ms p τ h ht W]

/-! ## T4 — descriptors -/

/-- T4: the lifted policy of every descriptor type has the descriptor's spending condition -/
theorem liftDesc_sem (env : KeyEnv) (d : Desc) (p : Policy) (h : liftDesc env d = .ok p)
    (W : World) : holds W p = semDesc W d := by
  cases d with
  | bare ms => exact lift_sem env .bare ms p h W
  | wsh ms => exact lift_sem env .segwitv0 ms p h W
  | sh ms => exact lift_sem env .legacy ms p h W
  | shWsh ms => exact lift_sem env .segwitv0 ms p h W
  | pkh k => simp [liftDesc] at h; subst h; simp [holds, holdsA, keyPol, World.val, semDesc]
  | wpkh k => simp [liftDesc] at h; subst h; simp [holds, holdsA, keyPol, World.val, semDesc]
  | shWpkh k => simp [liftDesc] at h; subst h; simp [holds, holdsA, keyPol, World.val, semDesc]
  | tr k leaves =>
    cases leaves with
    | nil => simp [liftDesc] at h; subst h; simp [holds, holdsA, keyPol, World.val, semDesc]
    | cons l ls =>
      simp only [liftDesc, liftTapTree] at h
      cases hl : liftLeaves env (l :: ls) with
      | error e => simp [hl] at h
      | ok ps =>
        have ⟨h1, h2⟩ := liftLeaves_any env W (l :: ls) ps hl
        cases ps with
        | nil => simp at h2
        | cons q qs =>
          simp [hl] at h; subst h
          simp only [holds, holdsA, countA, normalized_holdsA, keyPol, World.val, semDesc, ← h1]
          cases W.canSign k <;> simp
          exact dec_one_idem _

/-- `Liftable for TapTree` on its own (no internal key): some leaf's condition holds -/
theorem liftTapTree_sem (env : KeyEnv) (leaves : List Ms) (p : Policy)
    (h : liftTapTree env leaves = .ok p) (W : World) : holds W p = leaves.any (sem W) := by
  simp only [liftTapTree] at h
  cases hl : liftLeaves env leaves with
  | error e => simp [hl] at h
  | ok ps =>
    have ⟨h1, _⟩ := liftLeaves_any env W leaves ps hl
    cases ps with
    | nil => simp [hl] at h
    | cons q qs =>
      simp [hl] at h; subst h
      rw [holds, normalized_holdsA, holdsA, h1]

/-- taproot, spelled out: the internal key is never dropped and no leaf is invented or hidden -/
theorem lift_tr (env : KeyEnv) (k : Key) (leaves : List Ms) (p : Policy)
    (h : liftDesc env (.tr k leaves) = .ok p) (W : World) :
    holds W p = (W.canSign k || leaves.any (sem W)) := liftDesc_sem env _ p h W

/-- single-key descriptors lift to exactly their key -/
theorem lift_single_key (env : KeyEnv) (k : Key) :
    liftDesc env (.pkh k) = .ok (.atom (.key k)) ∧ liftDesc env (.wpkh k) = .ok (.atom (.key k))
      ∧ liftDesc env (.shWpkh k) = .ok (.atom (.key k))
      ∧ liftDesc env (.tr k []) = .ok (.atom (.key k)) := ⟨rfl, rfl, rfl, rfl⟩

/-- no descriptor makes `lift` panic (in particular `Threshold::new(1, leaves)` is never empty) -/
theorem liftDesc_never_panics (env : KeyEnv) (d : Desc) : liftDesc env d ≠ .error .panic := by
  cases d with
  | bare ms => exact lift_never_panics env .bare ms
  | wsh ms => exact lift_never_panics env .segwitv0 ms
  | sh ms => exact lift_never_panics env .legacy ms
  | shWsh ms => exact lift_never_panics env .segwitv0 ms
  | pkh k => simp [liftDesc]
  | wpkh k => simp [liftDesc]
  | shWpkh k => simp [liftDesc]
  | tr k leaves =>
    cases leaves with
    | nil => simp [liftDesc]
    | cons l ls =>
      simp only [liftDesc, liftTapTree]
      have hp := liftLeaves_no_panic env (l :: ls)
      cases hl : liftLeaves env (l :: ls) with
      | error e => intro hh; simp at hh; subst hh; exact hp hl
      | ok ps =>
        cases ps with
        | nil =>
          -- impossible: one policy per leaf
          simp only [liftLeaves] at hl
          cases h1 : lift env .tap l with
          | error e => simp [h1] at hl
          | ok p => cases h2 : liftLeaves env ls <;> simp [h1, h2] at hl
        | cons q qs => simp

/-! ## Non-vacuity -/

/-- a key environment with compressed keys (33-byte serialisations) -/
def exEnv : KeyEnv :=
  ⟨fun _ => List.replicate 33 2, fun _ => List.replicate 33 2, fun _ => List.replicate 20 0,
   fun _ => List.replicate 20 0, fun _ _ => List.replicate 32 0⟩

/-- `andor(pk(0), older(144), and_v(v:pk(1), after(500000001)))` -/
def exMs : Ms :=
  .andOr (.check (.pkK 0)) (.older 144) (.andV (.verify (.check (.pkK 1))) (.after 500000001))

example : lift exEnv .segwitv0 exMs =
    .ok (.thresh 1 [.thresh 2 [.atom (.key 0), .atom (.older 144)],
                    .thresh 2 [.atom (.key 1), .atom (.after 500000001)]]) := by rfl
example : (typeOf exMs).isSome = true ∧ noRaw exMs = true := by decide
-- the hypotheses of T2 hold for a script whose table needs the dissatisfaction invariant
example : typeOf (.orB (.check (.pkK 0)) (.alt (.check (.pkK 1)))) = some
    ⟨⟨.B, .any, true, true⟩, ⟨.unique, true, true⟩⟩ := by decide
-- the three refusals are reachable
example : lift exEnv .segwitv0 (.andV (.verify (.check (.pkK 0))) .fls)
    = .error .branchExceedResourceLimits := by rfl
example : lift exEnv .tap (.andV (.verify (.check (.pkK 0))) .fls) = .ok .unsat := by rfl
example : lift exEnv .segwitv0 (.andV (.verify (.older 1)) (.older 4194305))
    = .error .heightTimelockCombination := by rfl
example : lift exEnv .segwitv0 (.check (.rawPkH 0)) = .error .rawDescriptorLift := by rfl
-- taproot: key path OR leaves, not normalized again at the top
example : liftDesc exEnv (.tr 9 [.check (.pkK 0), .multiA 2 [1, 2]]) =
    .ok (.thresh 1 [.atom (.key 9), .thresh 1 [.atom (.key 0),
      .thresh 2 [.atom (.key 1), .atom (.key 2)]]]) := by rfl
-- the lifted policy is not constant in the world
example : holds ⟨fun k => k == 0, fun _ _ => false, 0, 144⟩
      (.thresh 1 [.thresh 2 [.atom (.key 0), .atom (.older 144)],
                  .thresh 2 [.atom (.key 1), .atom (.after 500000001)]]) = true
    ∧ holds ⟨fun k => k == 0, fun _ _ => false, 0, 143⟩
      (.thresh 1 [.thresh 2 [.atom (.key 0), .atom (.older 144)],
                  .thresh 2 [.atom (.key 1), .atom (.after 500000001)]]) = false := by decide

end MsVerif.C07

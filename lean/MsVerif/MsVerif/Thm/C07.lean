/-
C07 — the lifted policy is exactly the script's spending condition.

Model: `Model/Lift.lean` (`lift_check`, the explicit-stack loop of `Liftable for Miniscript`
over `rtl_post_order_iter`, `Liftable for Descriptor / Tr / TapTree`), `Model/Semantic.lean`
(`normalized`), `Model/Ext.lean` (what `lift_check` reads).
Specification: `Spec/Policy.lean` (`holds W p`: truth of an abstract policy in a world with
signing keys, known preimages, nLockTime, nSequence), `Spec/MsSem.lean` (`sem W ms`: the spending
condition read directly off the AST; `semDesc`), `Spec/SatTable.lean` (`satEx`: a canonical
satisfaction of the Miniscript specification exists with the given assets).

Every theorem quantifies over ALL miniscripts (any depth, any threshold width, repeated keys,
constants anywhere), all four script contexts, all key environments and all worlds.

  T0  the loop never panics and computes the structural fold; `lift` fails exactly when
      `lift_check` refuses or a raw key hash occurs.
  T1  `lift_sem`: whatever `lift` returns has the truth table `sem` in every world
      (uses C18's `normalized` theorem), and is in normal form.
  T2  `table_eq_sem`: for every well-typed script without raw key hashes, "a canonical
      satisfaction exists from the world's assets" (`satEx`) = `sem`; every `d`-typed fragment has
      a canonical dissatisfaction (`dissatisfiable_of_type`) — this is where typing is needed
      (`or_b`, `or_d`, `or_c`, `andor`, `thresh` must be able to dissatisfy the branches not taken).
  T3  `lift_iff_canonical_satisfaction`: T1 + T2.
  T4  descriptors: `pkh/wpkh/sh(wpkh)` ↦ the key; `wsh/sh/sh(wsh)/bare` ↦ the script;
      `tr(k, leaves)` ↦ `k` can sign OR some leaf's condition holds.

Level reached: the property at the level of the specification's satisfaction table.  The step
from "some witness built from the assets is accepted by Script" to "a canonical one exists"
(soundness of the table w.r.t. execution: C06 type soundness, C02) is NOT proved here; the full
statement is `lift_exact_full` below.  The check run executes the table's witness with the Script
semantics for every world it judges (`J liftsem`).
-/
import MsVerif.Lemmas.Lift
import MsVerif.Model.Encode
import MsVerif.Spec.Script

namespace MsVerif.C07
open MsVerif MsVerif.Pol MsVerif.Pol.Sem MsVerif.MsSem MsVerif.Lift MsVerif.SatTable

/-! ## T0 — the loop -/

/-- the explicit-stack loop over the right-to-left post-order leaves exactly the structural fold
on the stack (or stops at the first raw key hash) -/
theorem loop_is_structural (ms : Ms) :
    liftLoop (rtlPost ms) [] =
      match liftRaw ms with
      | some p => .ok [p]
      | none => .error .rawDescriptorLift := liftLoop_eq ms

/-- `lift` = `lift_check`, then the structural fold, then `normalized` -/
theorem lift_eq (env : KeyEnv) (ctx : Ctx) (ms : Ms) :
    lift env ctx ms =
      match liftCheck env ctx ms with
      | .error e => .error e
      | .ok () =>
        match liftRaw ms with
        | some p => .ok (normalized p)
        | none => .error .rawDescriptorLift := lift_eq' env ctx ms

/-- no `unwrap()` of the loop can fail -/
theorem lift_never_panics (env : KeyEnv) (ctx : Ctx) (ms : Ms) :
    lift env ctx ms ≠ .error .panic := lift_no_panic env ctx ms

/-- `lift` succeeds exactly for scripts within the resource limits of their context, without a
height/time lock combination and without raw key hashes -/
theorem lift_ok_iff (env : KeyEnv) (ctx : Ctx) (ms : Ms) :
    (∃ p, lift env ctx ms = .ok p) ↔
      withinResourceLimits env ctx ms = true ∧ hasMixedTimelocks env ctx ms = false
        ∧ noRaw ms = true := by
  rw [lift_eq, ← liftRaw_isSome]
  unfold liftCheck
  cases withinResourceLimits env ctx ms <;> cases hasMixedTimelocks env ctx ms <;>
    cases liftRaw ms <;> simp

/-- the three refusals, in the order the Rust tests them -/
theorem lift_error_kinds (env : KeyEnv) (ctx : Ctx) (ms : Ms) :
    (withinResourceLimits env ctx ms = false →
        lift env ctx ms = .error .branchExceedResourceLimits)
    ∧ (withinResourceLimits env ctx ms = true → hasMixedTimelocks env ctx ms = true →
        lift env ctx ms = .error .heightTimelockCombination)
    ∧ (withinResourceLimits env ctx ms = true → hasMixedTimelocks env ctx ms = false →
        noRaw ms = false → lift env ctx ms = .error .rawDescriptorLift) := by
  rw [lift_eq, ← liftRaw_isSome]
  unfold liftCheck
  cases withinResourceLimits env ctx ms <;> cases hasMixedTimelocks env ctx ms <;>
    cases liftRaw ms <;> simp

/-- what `J liftrefusal` judges about raw key hashes, for the model: a script that mentions one
(specification predicate `mentionsRaw`) is never shown as a policy, and `RawDescriptorLift` is
reported only for such scripts -/
theorem raw_key_hash_refused (env : KeyEnv) (ctx : Ctx) (ms : Ms) :
    (mentionsRaw ms = true → ∀ p, lift env ctx ms ≠ .ok p)
    ∧ (lift env ctx ms = .error .rawDescriptorLift → mentionsRaw ms = true) := by
  rw [mentionsRaw_eq]
  constructor
  · intro hm p hp
    have := ((lift_ok_iff env ctx ms).mp ⟨p, hp⟩).2.2
    simp [this] at hm
  · rw [lift_eq, ← liftRaw_isSome]
    unfold liftCheck
    cases withinResourceLimits env ctx ms <;> cases hasMixedTimelocks env ctx ms <;>
      cases liftRaw ms <;> simp

/-! ## T1 — the lifted policy has the script's truth table -/

/-- T1: in every world the lifted policy holds iff the script's condition does -/
theorem lift_sem (env : KeyEnv) (ctx : Ctx) (ms : Ms) (p : Policy)
    (h : lift env ctx ms = .ok p) (W : World) : holds W p = sem W ms :=
  lift_holds env ctx ms p h W

/-- the lifted policy is in the normal form of C18 (no constants below the root, no 1-child
thresholds, no `and` directly under `and`, no `or` directly under `or`) -/
theorem lift_normal_form (env : KeyEnv) (ctx : Ctx) (ms : Ms) (p : Policy)
    (h : lift env ctx ms = .ok p) : NF p = true := by
  obtain ⟨q, _, rfl⟩ := lift_ok_raw h
  exact normalized_NF q

/-- a lifted script has no raw key hash -/
theorem lift_ok_noRaw (env : KeyEnv) (ctx : Ctx) (ms : Ms) (p : Policy)
    (h : lift env ctx ms = .ok p) : noRaw ms = true :=
  ((lift_ok_iff env ctx ms).mp ⟨p, h⟩).2.2

/-! ## T2 — the direct reading is the specification's satisfaction table -/

/-- T2: for every well-typed fragment (any base type) without raw key hashes, a canonical
satisfaction from the world's assets exists iff the direct reading holds -/
theorem table_eq_sem (W : World) (ms : Ms) (τ : Ty) (ht : typeOf ms = some τ)
    (hr : noRaw ms = true) : satEx (availOfWorld W) ms = sem W ms :=
  (table_ms W ms τ ht hr).1

/-- the invariant that makes T2 go through: a fragment whose type says `d` has a canonical
dissatisfaction whatever the assets -/
theorem dissatisfiable_of_type (W : World) (ms : Ms) (τ : Ty) (ht : typeOf ms = some τ)
    (hr : noRaw ms = true) (hd : τ.corr.dissat = true) : dsatEx (availOfWorld W) ms = true :=
  (table_ms W ms τ ht hr).2 hd

/-- typing is needed: the ill-typed `or_d(v:pk(0), pk(1))` cannot dissatisfy its left branch, so
with only key 1 the table has no satisfaction although the direct reading holds -/
theorem table_eq_sem_needs_typing :
    ∃ (W : World) (ms : Ms), typeOf ms = none ∧ noRaw ms = true
      ∧ satEx (availOfWorld W) ms ≠ sem W ms :=
  ⟨⟨fun k => k == 1, fun _ _ => false, 0, 0⟩,
   .orD (.verify (.check (.pkK 0))) (.check (.pkK 1)), by decide, by decide,
   by simp [satEx, dsatEx, sem, availOfWorld]⟩

/-! ## T3 — lifted policy ⇔ canonical satisfaction -/

/-- T1 + T2: the policy the library reports holds in a world exactly when the specification's
table has a satisfaction built from that world's signatures, preimages, nLockTime, nSequence -/
theorem lift_iff_canonical_satisfaction (env : KeyEnv) (ctx : Ctx) (ms : Ms) (p : Policy) (τ : Ty)
    (h : lift env ctx ms = .ok p) (ht : typeOf ms = some τ) (W : World) :
    holds W p = satEx (availOfWorld W) ms := by
  rw [lift_sem env ctx ms p h W, table_eq_sem W ms τ ht (lift_ok_noRaw env ctx ms p h)]

/-- The property verbatim.  `can` is the set of byte strings the spender is able to put on the
stack, `senv` the Script environment of the spending transaction; `Realises` ties both to the
world: same lock fields (input not final, version ≥ 2), a valid signature is producible exactly
for the keys the world can sign for, a 32-byte preimage exactly for the hashes it knows. -/
structure Realises (kenv : KeyEnv) (senv : Script.Env) (can : Bytes → Prop) (W : World) : Prop where
  lockTime : senv.nLockTime = W.nLockTime
  sequence : senv.nSequence = W.nSequence
  notFinal : W.nSequence ≠ Script.SEQ_FINAL
  version : senv.txVersion ≥ 2
  sigs : ∀ k, W.canSign k = true ↔ ∃ sg, can sg ∧ sg ≠ [] ∧ senv.sigOk (kenv.ser k) sg = true
  pres : ∀ kind h, W.preimage (polHash kind) h = true ↔
    ∃ x, can x ∧ x.length = 32
      ∧ senv.hash (match kind with
          | .sha256 => .sha256 | .hash256 => .hash256 | .ripemd160 => .ripemd160
          | .hash160 => .hash160) x = kenv.hashVal kind h
  /-- everything that is not a secret is available -/
  publicData : ∀ b, (∀ pk, senv.sigOk pk b = false) → can b

/-- full strength: the lifted policy holds iff SOME witness built from the world's assets makes
the encoded script succeed under the Script semantics -/
def lift_exact_full : Prop :=
  ∀ (kenv : KeyEnv) (ctx : Ctx) (ms : Ms) (p : Policy) (τ : Ty) (senv : Script.Env)
    (can : Bytes → Prop) (W : World),
    lift kenv ctx ms = .ok p → typeOf ms = some τ → τ.corr.base = .B →
    Realises kenv senv can W →
    (holds W p = true ↔
      ∃ wit : List Bytes, (∀ b ∈ wit, can b) ∧ Script.accepts senv (encode kenv ctx ms) wit = true)

/- `lift_iff_canonical_satisfaction` is the `_partial` form of `lift_exact_full`: missing are
(→) "the table's canonical witness is accepted by `Script.run`" (C01/C02 soundness of the table,
checked on every judged case by executing `satWit`) and (←) "an accepted witness implies a
canonical satisfaction" (C06 type soundness). -/
theorem lift_exact_partial (env : KeyEnv) (ctx : Ctx) (ms : Ms) (p : Policy) (τ : Ty)
    (h : lift env ctx ms = .ok p) (ht : typeOf ms = some τ) (W : World) :
    holds W p = true ↔ satEx (availOfWorld W) ms = true := by
  rw [lift_iff_canonical_satisfaction env ctx ms p τ h ht W]

/-! ## T4 — descriptors -/

/-- T4: the lifted policy of every descriptor type has the descriptor's spending condition -/
theorem liftDesc_sem (env : KeyEnv) (d : Desc) (p : Policy) (h : liftDesc env d = .ok p)
    (W : World) : holds W p = semDesc W d := by
  cases d with
  | bare ms => exact lift_sem env .bare ms p h W
  | wsh ms => exact lift_sem env .segwitv0 ms p h W
  | sh ms => exact lift_sem env .legacy ms p h W
  | shWsh ms => exact lift_sem env .segwitv0 ms p h W
  | pkh k => simp [liftDesc] at h; subst h; simp [holds, holdsA, keyPol, World.val, semDesc]
  | wpkh k => simp [liftDesc] at h; subst h; simp [holds, holdsA, keyPol, World.val, semDesc]
  | shWpkh k => simp [liftDesc] at h; subst h; simp [holds, holdsA, keyPol, World.val, semDesc]
  | tr k leaves =>
    cases leaves with
    | nil => simp [liftDesc] at h; subst h; simp [holds, holdsA, keyPol, World.val, semDesc]
    | cons l ls =>
      simp only [liftDesc, liftTapTree] at h
      cases hl : liftLeaves env (l :: ls) with
      | error e => simp [hl] at h
      | ok ps =>
        have ⟨h1, h2⟩ := liftLeaves_any env W (l :: ls) ps hl
        cases ps with
        | nil => simp at h2
        | cons q qs =>
          simp [hl] at h; subst h
          simp only [holds, holdsA, countA, normalized_holdsA, keyPol, World.val, semDesc, ← h1]
          cases W.canSign k <;> simp
          exact dec_one_idem _

/-- `Liftable for TapTree` on its own (no internal key): some leaf's condition holds -/
theorem liftTapTree_sem (env : KeyEnv) (leaves : List Ms) (p : Policy)
    (h : liftTapTree env leaves = .ok p) (W : World) : holds W p = leaves.any (sem W) := by
  simp only [liftTapTree] at h
  cases hl : liftLeaves env leaves with
  | error e => simp [hl] at h
  | ok ps =>
    have ⟨h1, _⟩ := liftLeaves_any env W leaves ps hl
    cases ps with
    | nil => simp [hl] at h
    | cons q qs =>
      simp [hl] at h; subst h
      rw [holds, normalized_holdsA, holdsA, h1]

/-- taproot, spelled out: the internal key is never dropped and no leaf is invented or hidden -/
theorem lift_tr (env : KeyEnv) (k : Key) (leaves : List Ms) (p : Policy)
    (h : liftDesc env (.tr k leaves) = .ok p) (W : World) :
    holds W p = (W.canSign k || leaves.any (sem W)) := liftDesc_sem env _ p h W

/-- single-key descriptors lift to exactly their key -/
theorem lift_single_key (env : KeyEnv) (k : Key) :
    liftDesc env (.pkh k) = .ok (.atom (.key k)) ∧ liftDesc env (.wpkh k) = .ok (.atom (.key k))
      ∧ liftDesc env (.shWpkh k) = .ok (.atom (.key k))
      ∧ liftDesc env (.tr k []) = .ok (.atom (.key k)) := ⟨rfl, rfl, rfl, rfl⟩

/-- no descriptor makes `lift` panic (in particular `Threshold::new(1, leaves)` is never empty) -/
theorem liftDesc_never_panics (env : KeyEnv) (d : Desc) : liftDesc env d ≠ .error .panic := by
  cases d with
  | bare ms => exact lift_never_panics env .bare ms
  | wsh ms => exact lift_never_panics env .segwitv0 ms
  | sh ms => exact lift_never_panics env .legacy ms
  | shWsh ms => exact lift_never_panics env .segwitv0 ms
  | pkh k => simp [liftDesc]
  | wpkh k => simp [liftDesc]
  | shWpkh k => simp [liftDesc]
  | tr k leaves =>
    cases leaves with
    | nil => simp [liftDesc]
    | cons l ls =>
      simp only [liftDesc, liftTapTree]
      have hp := liftLeaves_no_panic env (l :: ls)
      cases hl : liftLeaves env (l :: ls) with
      | error e => intro hh; simp at hh; subst hh; exact hp hl
      | ok ps =>
        cases ps with
        | nil =>
          -- impossible: one policy per leaf
          simp only [liftLeaves] at hl
          cases h1 : lift env .tap l with
          | error e => simp [h1] at hl
          | ok p => cases h2 : liftLeaves env ls <;> simp [h1, h2] at hl
        | cons q qs => simp

/-! ## Non-vacuity -/

/-- a key environment with compressed keys (33-byte serialisations) -/
def exEnv : KeyEnv :=
  ⟨fun _ => List.replicate 33 2, fun _ => List.replicate 33 2, fun _ => List.replicate 20 0,
   fun _ => List.replicate 20 0, fun _ _ => List.replicate 32 0⟩

/-- `andor(pk(0), older(144), and_v(v:pk(1), after(500000001)))` -/
def exMs : Ms :=
  .andOr (.check (.pkK 0)) (.older 144) (.andV (.verify (.check (.pkK 1))) (.after 500000001))

example : lift exEnv .segwitv0 exMs =
    .ok (.thresh 1 [.thresh 2 [.atom (.key 0), .atom (.older 144)],
                    .thresh 2 [.atom (.key 1), .atom (.after 500000001)]]) := by rfl
example : (typeOf exMs).isSome = true ∧ noRaw exMs = true := by decide
-- the hypotheses of T2 hold for a script whose table needs the dissatisfaction invariant
example : typeOf (.orB (.check (.pkK 0)) (.alt (.check (.pkK 1)))) = some
    ⟨⟨.B, .any, true, true⟩, ⟨.unique, true, true⟩⟩ := by decide
-- the three refusals are reachable
example : lift exEnv .segwitv0 (.andV (.verify (.check (.pkK 0))) .fls)
    = .error .branchExceedResourceLimits := by rfl
example : lift exEnv .tap (.andV (.verify (.check (.pkK 0))) .fls) = .ok .unsat := by rfl
example : lift exEnv .segwitv0 (.andV (.verify (.older 1)) (.older 4194305))
    = .error .heightTimelockCombination := by rfl
example : lift exEnv .segwitv0 (.check (.rawPkH 0)) = .error .rawDescriptorLift := by rfl
-- taproot: key path OR leaves, not normalized again at the top
example : liftDesc exEnv (.tr 9 [.check (.pkK 0), .multiA 2 [1, 2]]) =
    .ok (.thresh 1 [.atom (.key 9), .thresh 1 [.atom (.key 0),
      .thresh 2 [.atom (.key 1), .atom (.key 2)]]]) := by rfl
-- the lifted policy is not constant in the world
example : holds ⟨fun k => k == 0, fun _ _ => false, 0, 144⟩
      (.thresh 1 [.thresh 2 [.atom (.key 0), .atom (.older 144)],
                  .thresh 2 [.atom (.key 1), .atom (.after 500000001)]]) = true
    ∧ holds ⟨fun k => k == 0, fun _ _ => false, 0, 143⟩
      (.thresh 1 [.thresh 2 [.atom (.key 0), .atom (.older 144)],
                  .thresh 2 [.atom (.key 1), .atom (.after 500000001)]]) = false := by decide

end MsVerif.C07

/-
C02 — satisfiable with the caller's assets ⇒ a satisfaction is found.

"Satisfiable" is decided by the specification's table of canonical (dis)satisfactions
restricted to the caller's assets (`Spec/SatTable.lean`: `satEx`, `dsatEx`); the satisfier is
the model `satDissat` of `src/miniscript/satisfy/{mod,sat_dissat}.rs` (`Model/Satisfy.lean`).

Results (all by induction over the AST, Lemmas/Complete*.lean), at full strength for `satDissat`:

  T1  `mall_complete_table` — malleable mode (`satisfy_malleable`), BOTH halves (satisfaction
      and dissatisfaction), every script (typed or not, every base type), any `root_has_sig`.
  T2  `accepted_imp_satEx` (+ `frag_satisfied_imp_satEx` per base type B/V/K/W) — THE PREMISE:
      if ANY witness makes the encoded script of a typed B miniscript end with a true value
      (`Script.acceptsLoose`, through the bridge theorem), in an environment that accepts only
      what the caller holds (`AccSat.EnvOK`: unforgeability of signatures for the script's keys
      and pk_h commitments, preimage resistance for the committed hashes, the transaction's
      locks as the caller declares them), then the table has a satisfaction (`satEx`).  Every
      fragment incl. `thresh` and the multi family; side conditions `AccSat.WF` = invariants of
      the library's `Threshold` / lock-time types + no raw pkh.  With T1 / T3:
      `accepted_imp_found_mall`, `accepted_imp_found_nonmall` — the property's two sentences.
      Raw pkh is excluded for a reason: a non-canonical dissatisfaction (`and_b` with one side
      true) can stand in for a canonical one that needs a raw key the caller does not know, so
      with raw pkh an accepted witness need not have a canonical table row.
  T3  `nonmall_complete` — non-malleable mode (`satisfy`), scripts whose type is `m`
      (non-malleable) and `s`, every hash preimage known, no raw `pkh` (refused by the sanity
      rules), `1 ≤ k ≤ n` in `thresh` — hash fragments and time locks INCLUDED.

History: until the fix of defect F3 (`/repo` commit "fix: j: wrapper dissatisfaction is a
single empty push, not impossible") both statements were FALSE for the code (witnesses
`f3Script`, `f3SaneScript` below, kept as regression examples).  The proofs are parameterised
over the `j:` dissatisfaction (`satDissatG nz`, Lemmas/CompleteFixed.lean): they need
`nz = push0` or a script without `j:`; `MODEL_NZ` is the literal of the current code.

  T4  descriptor level, taproot: the leaf loop `best_tap_spend` (Model/TapSpend.lean; shared by
      `Tr::get_satisfaction{,_mall}` and `Descriptor::into_plan{,_mall}`) returns a spend iff a
      key-path signature is available or some leaf's satisfier returns a stack
      (`tr_leafloop_iff`), the kept leaf has the smallest witness size (`tr_leafloop_minimal`),
      hence with T1 / T3: table-satisfiable key path or leaf ⇒ a spend is returned
      (`tr_complete_mall`, `tr_complete_nonmall`).  (For the other output types the descriptor
      satisfier IS the miniscript satisfier of the single script: T1 / T3 apply directly.)

Explicit hypotheses, all decidable predicates over the nodes of the script:
  `NoMixedLocks a ms`  the locks of `ms` that the assets declare satisfied have one unit per kind
                       (they come from one transaction's nLockTime / nSequence), so
                       `concatenate_rev` never hits its mixed-unit refusal;
  `SigSizesOK a`, `SmallScript ms`  (T1 only) witness sizes stay far below 2^63, so the
                       `as i64` differences that `thresh_mall` sorts by lie strictly between its
                       `i64::MIN` / `i64::MAX` sentinels.  Without a size bound the statement is
                       false for the unbounded-`Nat` model.
-/
import MsVerif.Lemmas.CompleteMall
import MsVerif.Lemmas.CompleteNonMall
import MsVerif.Lemmas.CompleteTap
import MsVerif.Lemmas.AccSatThm
import MsVerif.Thm.Bridge

namespace MsVerif.C02
open MsVerif SatTable Complete

/-! ## Linking the satisfier's `Assets` to the specification's `Avail` -/

/-- what the table may use, for assets `a` in script context `ctx`: a signature for `k` is
available iff `Witness::signature` returns a stack (ECDSA contexts: `a.ecdsaSig k`; Tapscript:
a Schnorr signature is known); locks as the asset provider answers `check_after` /
`check_older` (on the `relative::LockTime` view of the script's value) -/
def avail (a : Assets) (ctx : Ctx) : Avail where
  sig k := match ctx.sigType with
    | .ecdsa => a.ecdsaSig k
    | .schnorr => (a.schnorrSig k).isSome
  preimage := a.preimage
  after := a.checkAfter
  older n := a.checkOlder (relCanon n)
  rawKey h := (a.rawPkhPk h).isSome
  rawSig h := match ctx.sigType with
    | .ecdsa => (a.rawPkhEcdsa h).isSome
    | .schnorr => (a.rawPkhSchnorr h).isSome

theorem avail_eq (a : Assets) (ctx : Ctx) : avail a ctx = availOf a ctx := by
  unfold avail availOf sigAvail
  cases ctx.sigType <;> rfl

/-! ## Hypotheses (decidable predicates over the nodes, `Complete.subterms`) -/

/-- the locks of `ms` that are satisfied by the caller's transaction have one unit per kind:
any two `after` nodes that `check_after` accepts are both heights or both times; any two
`older` nodes that `check_older` accepts are both block- or both time-based -/
def NoMixedLocks (a : Assets) (ms : Ms) : Prop :=
  ∀ s ∈ subterms ms, ∀ t ∈ subterms ms, lockCompat a s t = true

instance (a : Assets) (ms : Ms) : Decidable (NoMixedLocks a ms) := by
  unfold NoMixedLocks; infer_instance

/-- no `j:` wrapper anywhere -/
def NoNonZero (ms : Ms) : Prop := allNodes isNotNonZero ms = true
/-- no raw-hash `pkh` (only produced by script decoding; refused by `ExtParams::sane()`) -/
def NoRawPkH (ms : Ms) : Prop := allNodes isNotRawPkH ms = true
/-- the caller knows the preimage of every hash that appears in the script -/
def AllPreimages (a : Assets) (ms : Ms) : Prop := allNodes (preKnown a) ms = true
/-- every `thresh(k, x₁…xₙ)` has `1 ≤ k ≤ n` (invariant of the Rust `Threshold` type) -/
def ThreshKOK (ms : Ms) : Prop := allNodes threshKOK ms = true
/-- fewer than 2^55 witness items in any (dis)satisfaction (`Complete.itemBound`) -/
def SmallScript (ms : Ms) : Prop := itemBound ms < 2 ^ 55

instance (ms : Ms) : Decidable (NoNonZero ms) := by unfold NoNonZero; infer_instance
instance (ms : Ms) : Decidable (NoRawPkH ms) := by unfold NoRawPkH; infer_instance
instance (a : Assets) (ms : Ms) : Decidable (AllPreimages a ms) := by unfold AllPreimages; infer_instance
instance (ms : Ms) : Decidable (ThreshKOK ms) := by unfold ThreshKOK; infer_instance
instance (ms : Ms) : Decidable (SmallScript ms) := by unfold SmallScript; infer_instance

/-! ## T1 — malleable mode -/

/-- T1 for the satisfier with `j:`-dissatisfaction `nz`: if the table has a satisfaction
(dissatisfaction) from the caller's assets, the malleable-mode satisfier returns a stack for the
satisfaction (dissatisfaction) half — provided `nz` is the specification's row or the script has
no `j:`. -/
theorem mall_complete_generic (nz : Sat) (ke : KeyEnv) (ctx : Ctx) (rhs : Bool) (a : Assets) (ms : Ms)
    (hnz : nz = Sat.push0 ∨ NoNonZero ms) (hlk : NoMixedLocks a ms) (hsz : SigSizesOK a)
    (hsm : SmallScript ms) :
    (satEx (avail a ctx) ms = true →
      ∃ w, (satDissatG nz ⟨ke, ctx, true, rhs, a⟩ ms).sat.stack = .stack w) ∧
    (dsatEx (avail a ctx) ms = true →
      ∃ w, (satDissatG nz ⟨ke, ctx, true, rhs, a⟩ ms).dissat.stack = .stack w) := by
  obtain ⟨ua, ur, hu⟩ := exists_units a ms hlk
  have hP : allNodes (mallP nz a ua ur) ms = true := by
    unfold mallP allNodes
    rw [all_and, Bool.and_eq_true]
    exact ⟨hu, nzOK hnz⟩
  have hs : 73 * itemBound ms < SMALL := by unfold SmallScript at hsm; unfold SMALL; omega
  have inv := mall_inv nz ⟨ke, ctx, true, rhs, a⟩ ua ur rfl hsz ms hP hs
  rw [avail_eq]
  exact ⟨fun h => isStk_exists (inv.sat h), fun h => isStk_exists (inv.dsat h)⟩

/-- T1: if the table has a satisfaction (dissatisfaction) built from the caller's assets, the
malleable-mode satisfier returns a stack for the satisfaction (dissatisfaction) half — every
script (typed or not), both halves, any `root_has_sig`.
`ThreshKOK` (`1 ≤ k ≤ n`, what `Threshold::new` enforces) is an explicit guard: for `k > n` the
model of `thresh_mall` would index its child lists out of range (`sats[i]!` defaults) and the
statement, though provable (`mall_complete_generic` does not use the guard), would not speak
about any behaviour of the library. -/
theorem mall_complete_table (ke : KeyEnv) (ctx : Ctx) (rhs : Bool) (a : Assets) (ms : Ms)
    (hk : ThreshKOK ms) (hlk : NoMixedLocks a ms) (hsz : SigSizesOK a) (hsm : SmallScript ms) :
    (satEx (avail a ctx) ms = true → ∃ w, (satDissat ⟨ke, ctx, true, rhs, a⟩ ms).sat.stack = .stack w) ∧
    (dsatEx (avail a ctx) ms = true → ∃ w, (satDissat ⟨ke, ctx, true, rhs, a⟩ ms).dissat.stack = .stack w) := by
  have _ := hk
  have := mall_complete_generic MODEL_NZ ke ctx rhs a ms (.inl rfl) hlk hsz hsm
  rwa [satDissatG_model] at this

/-- former F3 witness: `or_d(j:multi(1,K0),pk(K1))` … -/
def f3Script : Ms := .orD (.nonZero (.multi 1 [0])) (.check (.pkK 1))
/-- … with a signature for `K1` only: the witness `[sig_K1, <>]` satisfies the script -/
def f3Assets : Assets where
  ecdsaSig k := k == 1
  schnorrSig _ := none
  rawPkhPk _ := none
  rawPkhEcdsa _ := none
  rawPkhSchnorr _ := none
  preimage _ _ := false
  checkOlder _ := false
  checkAfter _ := false
def keyEnv0 : KeyEnv := ⟨fun _ => [], fun _ => [], fun _ => [], fun _ => [], fun _ _ => []⟩

/-- evaluate the table on a concrete script (its definition is by well-founded recursion, so
the kernel cannot run it; the equation lemmas can) -/
macro "table_eval" : tactic =>
  `(tactic| simp [satEx, dsatEx, threshEx, allDsatEx, countOnlySat, countCanSat, countDead, avail,
      Ctx.sigType, relCanon, Sat.relIsTime, Sat.relVal])

theorem f3_table_satisfiable : satEx (avail f3Assets .segwitv0) f3Script = true := by
  unfold f3Script f3Assets; table_eval

/-- regression (F3): the satisfier now returns exactly the witness `[sig_K1, <>]` in both modes -/
theorem f3_model_satisfies :
    (satDissat ⟨keyEnv0, .segwitv0, true, true, f3Assets⟩ f3Script).sat.stack
      = .stack [.ecdsaSig 1, .pushZero] ∧
    (satDissat ⟨keyEnv0, .segwitv0, false, true, f3Assets⟩ f3Script).sat.stack
      = .stack [.ecdsaSig 1, .pushZero] := by
  decide

/-- the same through T1 -/
theorem f3_satisfied_by_T1 :
    ∃ w, (satDissat ⟨keyEnv0, .segwitv0, true, true, f3Assets⟩ f3Script).sat.stack = .stack w :=
  (mall_complete_table keyEnv0 .segwitv0 true f3Assets f3Script (by decide) (by decide)
    (sizesOK_of_noSchnorr _ (fun _ => rfl) (fun _ => rfl)) (by decide)).1 f3_table_satisfiable

/-! ### non-vacuity of T1's hypotheses -/

/-- `andor(pk(0), and_v(v:older(5),after(10)), thresh(2,pk(1),s:pk(2),a:sha256(7)))`: a
threshold, a hash and both kinds of lock -/
def ex1Script : Ms :=
  .andOr (.check (.pkK 0)) (.andV (.verify (.older 5)) (.after 10))
    (.thresh 2 (.cons (.check (.pkK 1)) (.cons (.swap (.check (.pkK 2)))
      (.cons (.alt (.hash .sha256 7)) .nil))))
def ex1Assets : Assets where
  ecdsaSig k := k == 1
  schnorrSig _ := none
  rawPkhPk _ := none
  rawPkhEcdsa _ := none
  rawPkhSchnorr _ := none
  preimage _ h := h == 7
  checkOlder _ := false
  checkAfter n := n == 10

theorem ex1_table : satEx (avail ex1Assets .segwitv0) ex1Script = true := by
  unfold ex1Script ex1Assets; table_eval

example : (typeOf ex1Script).isSome = true ∧ ThreshKOK ex1Script ∧ NoMixedLocks ex1Assets ex1Script ∧
    SmallScript ex1Script := by decide

example : ∃ w, (satDissat ⟨keyEnv0, .segwitv0, true, true, ex1Assets⟩ ex1Script).sat.stack = .stack w :=
  (mall_complete_table keyEnv0 .segwitv0 true ex1Assets ex1Script (by decide) (by decide)
    (sizesOK_of_noSchnorr _ (fun _ => rfl) (fun _ => rfl)) (by decide)).1 ex1_table

/-! ## T3 — non-malleable mode -/

/-- T3 for the satisfier with `j:`-dissatisfaction `nz` -/
theorem nonmall_complete_generic (nz : Sat) (ke : KeyEnv) (ctx : Ctx) (a : Assets) (ms : Ms) (τ : Ty)
    (hτ : typeOf ms = some τ) (hm : τ.mall.nonMall = true) (hs : τ.mall.signed = true)
    (hnz : nz = Sat.push0 ∨ NoNonZero ms) (hraw : NoRawPkH ms) (hpre : AllPreimages a ms)
    (hk : ThreshKOK ms) (hlk : NoMixedLocks a ms) :
    satEx (avail a ctx) ms = true →
      ∃ w, (satDissatG nz ⟨ke, ctx, false, τ.mall.signed, a⟩ ms).sat.stack = .stack w := by
  obtain ⟨ua, ur, hu⟩ := exists_units a ms hlk
  have hP : allNodes (nmP nz a ua ur) ms = true := by
    unfold nmP allNodes
    rw [all_and, all_and, all_and, all_and]
    simp only [Bool.and_eq_true]
    exact ⟨⟨⟨⟨hu, nzOK hnz⟩, hraw⟩, hpre⟩, hk⟩
  have inv := nm_inv nz ⟨ke, ctx, false, τ.mall.signed, a⟩ ua ur rfl hs ms τ hτ hm hP
  rw [avail_eq]
  exact fun h => isStk_exists (inv.cs h)

/-- T3: a script whose type is non-malleable and signed (what `validate(&ExtParams::sane())`
demands), all preimages known: if the table has a satisfaction built from the caller's assets,
the non-malleable satisfier returns a stack -/
theorem nonmall_complete (ke : KeyEnv) (ctx : Ctx) (a : Assets) (ms : Ms) (τ : Ty)
    (hτ : typeOf ms = some τ) (hm : τ.mall.nonMall = true) (hs : τ.mall.signed = true)
    (hraw : NoRawPkH ms) (hpre : AllPreimages a ms) (hk : ThreshKOK ms) (hlk : NoMixedLocks a ms) :
    satEx (avail a ctx) ms = true →
      ∃ w, (satDissat ⟨ke, ctx, false, τ.mall.signed, a⟩ ms).sat.stack = .stack w := by
  have := nonmall_complete_generic MODEL_NZ ke ctx a ms τ hτ hm hs (.inl rfl) hraw hpre hk hlk
  rwa [satDissatG_model] at this

/-- former F3 witness that passes the sanity rules: `or_d(j:and_v(v:pk(K0),pk(K2)),pk(K1))`
(type `Bdu/esm`) with a signature for `K1` only; the witness `[sig_K1, <>]` satisfies it -/
def f3SaneScript : Ms :=
  .orD (.nonZero (.andV (.verify (.check (.pkK 0))) (.check (.pkK 2)))) (.check (.pkK 1))

theorem f3Sane_sane : ∃ τ, typeOf f3SaneScript = some τ ∧ τ.corr.base = .B ∧
    τ.mall.nonMall = true ∧ τ.mall.signed = true := ⟨_, rfl, by decide⟩

theorem f3Sane_table_satisfiable : satEx (avail f3Assets .segwitv0) f3SaneScript = true := by
  unfold f3SaneScript f3Assets; table_eval

/-- regression (F3) through T3 -/
theorem f3Sane_satisfied_by_T3 :
    ∃ w, (satDissat ⟨keyEnv0, .segwitv0, false, true, f3Assets⟩ f3SaneScript).sat.stack = .stack w := by
  obtain ⟨τ, hτ, _, hm, hs⟩ := f3Sane_sane
  have := nonmall_complete keyEnv0 .segwitv0 f3Assets f3SaneScript τ hτ hm hs (by decide)
    (by decide) (by decide) (by decide) f3Sane_table_satisfiable
  rwa [hs] at this

/-! ### non-vacuity of T3's hypotheses -/

/-- `or_d(pk(0), and_v(v:thresh(2,pk(1),s:pk(2),s:pk(3)), and_v(v:sha256(7), older(5))))`:
non-malleable, signed; contains a threshold, a hash and a lock -/
def ex3Script : Ms :=
  .orD (.check (.pkK 0))
    (.andV (.verify (.thresh 2 (.cons (.check (.pkK 1)) (.cons (.swap (.check (.pkK 2)))
      (.cons (.swap (.check (.pkK 3))) .nil)))))
      (.andV (.verify (.hash .sha256 7)) (.older 5)))
def ex3Assets : Assets where
  ecdsaSig k := k == 1 || k == 3
  schnorrSig _ := none
  rawPkhPk _ := none
  rawPkhEcdsa _ := none
  rawPkhSchnorr _ := none
  preimage _ h := h == 7
  checkOlder n := n == 5
  checkAfter _ := false

theorem ex3_typed : ∃ τ, typeOf ex3Script = some τ ∧ τ.corr.base = .B ∧
    τ.mall.nonMall = true ∧ τ.mall.signed = true := ⟨_, rfl, by decide⟩

theorem ex3_table : satEx (avail ex3Assets .segwitv0) ex3Script = true := by
  unfold ex3Script ex3Assets; table_eval

example : NoRawPkH ex3Script ∧ AllPreimages ex3Assets ex3Script ∧
    ThreshKOK ex3Script ∧ NoMixedLocks ex3Assets ex3Script := by decide

example : ∃ w, (satDissat ⟨keyEnv0, .segwitv0, false, true, ex3Assets⟩ ex3Script).sat.stack = .stack w := by
  obtain ⟨τ, hτ, _, hm, hs⟩ := ex3_typed
  have := nonmall_complete keyEnv0 .segwitv0 ex3Assets ex3Script τ hτ hm hs
    (by decide) (by decide) (by decide) (by decide) ex3_table
  rwa [hs] at this

/-! ## T2 — the property's premise: an ACCEPTED witness implies a table satisfaction -/

open MsVerif.Script MsVerif.AccSat in
/-- T2 on the structured semantics, per base type (`AccSat.SatS`): a typed fragment (side
conditions `AccSat.WF`: the `Threshold` / lock-time invariants of the library's types and "no
raw pkh") that runs to completion SATISFIED — B: leaves a true value; V: completes; K: the
signature next to the key it leaves verifies; W: the value it leaves next to the `x` it found is
true — in an environment that accepts only what the caller holds (`AccSat.EnvOK`:
unforgeability, preimage resistance, the transaction's locks) has a table satisfaction from the
caller's assets.  EVERY fragment, thresholds and the multi family included. -/
theorem frag_satisfied_imp_satEx {env : Env} {ke : KeyEnv} {av : Avail}
    (hlim : env.flags.stackLimits = false) (henv : EnvOK env ke av) (ctx : Ctx) (ms : Ms) (hw : WF ms)
    (τ : Ty) (hτ : typeOf ms = some τ) (c c' : Core) (hrun : frag env ke ctx ms c = .ok c') :
    SatS env (satEx av ms = true) τ.corr.base c.stack c' :=
  sound hlim henv ctx ms hw τ hτ c c' hrun

open MsVerif.Script MsVerif.AccSat in
/-- T2 on real opcode execution (through the bridge theorem `run (encode ms) = frag ms`): if ANY
witness stack `w` makes the encoded script of a B-typed miniscript end with a true value on top
(consensus acceptance `acceptsLoose`; a fortiori the CLEANSTACK form `accepts`), then the
specification's table has a satisfaction from the caller's assets. -/
theorem accepted_imp_satEx {env : Env} {ke : KeyEnv} {av : Avail}
    (hlim : env.flags.stackLimits = false) (henv : EnvOK env ke av) (ctx : Ctx) (ms : Ms) (hw : WF ms)
    (τ : Ty) (hτ : typeOf ms = some τ) (hB : τ.corr.base = .B) (w : List Bytes)
    (hacc : acceptsLoose env (encode ke ctx ms) w = true) : satEx av ms = true := by
  unfold acceptsLoose at hacc
  rw [State.init, Bridge.exec_encode_eq_frag_nostack env ke ctx ms _ [] rfl hlim] at hacc
  cases hr : frag env ke ctx ms ⟨w, [], 0⟩ with
  | error e => rw [hr] at hacc; simp [Except.map] at hacc
  | ok c' =>
    rw [hr] at hacc
    simp only [Except.map] at hacc
    have hs := sound hlim henv ctx ms hw τ hτ _ c' hr
    cases hst : c'.stack with
    | nil => rw [hst] at hacc; simp at hacc
    | cons a r =>
      rw [hst] at hacc
      simp only [List.isEmpty_nil, Bool.true_and] at hacc
      exact (SatS.B hB).1 hs a r hst hacc

open MsVerif.Script MsVerif.AccSat in
theorem accepts_imp_satEx {env : Env} {ke : KeyEnv} {av : Avail}
    (hlim : env.flags.stackLimits = false) (henv : EnvOK env ke av) (ctx : Ctx) (ms : Ms) (hw : WF ms)
    (τ : Ty) (hτ : typeOf ms = some τ) (hB : τ.corr.base = .B) (w : List Bytes)
    (hacc : accepts env (encode ke ctx ms) w = true) : satEx av ms = true := by
  apply accepted_imp_satEx hlim henv ctx ms hw τ hτ hB w
  unfold accepts at hacc
  unfold acceptsLoose
  cases hr : run env (encode ke ctx ms) (State.init w) with
  | error e => rw [hr] at hacc; simp at hacc
  | ok st =>
    rw [hr] at hacc
    simp only [Bool.and_eq_true] at hacc ⊢
    refine ⟨hacc.1, ?_⟩
    cases hst : st.core.stack with
    | nil => rw [hst] at hacc; simp at hacc
    | cons a r =>
      cases r with
      | nil => rw [hst] at hacc; exact hacc.2
      | cons b r' => rw [hst] at hacc; simp at hacc

/-- the dissatisfaction side is static: a fragment typed `d` (no raw pkh) ALWAYS has a table
dissatisfaction — so wherever the composition rules read a child's dissatisfaction (`or_b`,
`or_d`, `or_c`, `andor`, `thresh` demand `d`), "the child was left false" needs no run-time
argument.  (A fragment NOT typed `d` that is left false — `and_v`, `and_b` with one side true,
a wrong `thresh` count — is a non-canonical dissatisfaction; the table does not list those and
no satisfaction row uses them.) -/
theorem d_typed_imp_dsatEx (av : Avail) (ms : Ms) (τ : Ty) (hτ : typeOf ms = some τ)
    (hd : τ.corr.dissat = true) (hraw : NoRawPkH ms) : dsatEx av ms = true :=
  AccSat.dsat_of_d av ms τ hτ hd hraw

open MsVerif.Script MsVerif.AccSat in
/-- THE PROPERTY'S FIRST SENTENCE (malleable mode): if some witness makes the script succeed in
an environment bounded by the caller's assets, `satisfy_malleable` returns a satisfaction. -/
theorem accepted_imp_found_mall {env : Env} (ke : KeyEnv) (ctx : Ctx) (rhs : Bool) (a : Assets) (ms : Ms)
    (hlim : env.flags.stackLimits = false) (henv : EnvOK env ke (avail a ctx)) (hw : WF ms)
    (τ : Ty) (hτ : typeOf ms = some τ) (hB : τ.corr.base = .B)
    (hk : ThreshKOK ms) (hlk : NoMixedLocks a ms) (hsz : SigSizesOK a) (hsm : SmallScript ms)
    (w : List Bytes) (hacc : acceptsLoose env (encode ke ctx ms) w = true) :
    ∃ w', (satDissat ⟨ke, ctx, true, rhs, a⟩ ms).sat.stack = .stack w' :=
  (mall_complete_table ke ctx rhs a ms hk hlk hsz hsm).1
    (accepted_imp_satEx hlim henv ctx ms hw τ hτ hB w hacc)

open MsVerif.Script MsVerif.AccSat in
/-- THE PROPERTY'S SECOND SENTENCE (non-malleable mode, scripts that pass the sanity rules, all
preimages known): … `satisfy` returns a satisfaction. -/
theorem accepted_imp_found_nonmall {env : Env} (ke : KeyEnv) (ctx : Ctx) (a : Assets) (ms : Ms)
    (hlim : env.flags.stackLimits = false) (henv : EnvOK env ke (avail a ctx)) (hw : WF ms)
    (τ : Ty) (hτ : typeOf ms = some τ) (hB : τ.corr.base = .B)
    (hm : τ.mall.nonMall = true) (hs : τ.mall.signed = true)
    (hpre : AllPreimages a ms) (hk : ThreshKOK ms) (hlk : NoMixedLocks a ms)
    (w : List Bytes) (hacc : acceptsLoose env (encode ke ctx ms) w = true) :
    ∃ w', (satDissat ⟨ke, ctx, false, τ.mall.signed, a⟩ ms).sat.stack = .stack w' :=
  nonmall_complete ke ctx a ms τ hτ hm hs hw.r hpre hk hlk
    (accepted_imp_satEx hlim henv ctx ms hw τ hτ hB w hacc)

/-! ### non-vacuity of T2: a concrete environment, script (threshold + hash + lock) and witness -/

/-- keys are 33-byte compressed encodings; hashes are the identity (so a preimage "is" its hash) -/
def ex2Ke : KeyEnv :=
  { ser := fun k => 2 :: List.replicate 32 (UInt8.ofNat k), sortKey := fun k => [UInt8.ofNat k],
    pkh := fun _ => [], rawPkh := fun _ => [], hashVal := fun _ h => List.replicate 32 (UInt8.ofNat h) }
/-- the only signature that verifies is `[7]` for key 1; nLockTime = 10 -/
def ex2Env : Script.Env :=
  { flags := ⟨false, true, false, true, true, false, false⟩,
    sigOk := fun pk s => pk == ex2Ke.ser 1 && s == [7],
    hash := fun _ b => b, nLockTime := 10, nSequence := 0, txVersion := 2 }
/-- the caller holds exactly what `ex2Env` accepts -/
def ex2Avail : Avail :=
  { sig := fun k => ex2Env.sigOk (ex2Ke.ser k) [7], preimage := fun _ _ => true,
    after := fun n => Script.checkLockTime ex2Env n, older := fun n => Script.checkSequence ex2Env n,
    rawKey := fun _ => false, rawSig := fun _ => false }
/-- `and_v(v:thresh(1,pk(1),s:pk(2)),and_v(v:sha256(7),after(10)))` -/
def ex2Script : Ms :=
  .andV (.verify (.thresh 1 (.cons (.check (.pkK 1)) (.cons (.swap (.check (.pkK 2))) .nil))))
    (.andV (.verify (.hash .sha256 7)) (.after 10))

theorem ex2_sigOk (pk s : Script.Bytes) (h : ex2Env.sigOk pk s = true) : pk = ex2Ke.ser 1 ∧ s = [7] := by
  have h' : (pk == ex2Ke.ser 1 && s == [7]) = true := h
  rw [Bool.and_eq_true, beq_iff_eq, beq_iff_eq] at h'
  exact h'

theorem ex2_envOK : AccSat.EnvOK ex2Env ex2Ke ex2Avail := by
  constructor
  · intro k s h
    obtain ⟨h1, _⟩ := ex2_sigOk _ _ h
    show (ex2Ke.ser k == ex2Ke.ser 1 && ([7] : Script.Bytes) == [7]) = true
    rw [h1]; simp
  · intro k p s hh h
    obtain ⟨h1, _⟩ := ex2_sigOk _ _ h
    have hp : p = ex2Ke.pkh k := hh
    rw [h1] at hp
    exact absurd hp (List.cons_ne_nil _ _)
  · intro _ _ _ _ _; rfl
  · intro n h; simp only [ex2Avail]; exact h
  · intro n h; simp only [ex2Avail]; exact h

example : AccSat.WF ex2Script :=
  ⟨by decide, by decide, by decide, by decide, by decide⟩

/-- the witness `[sig₁, <>, preimage]` (top first) is accepted … -/
theorem ex2_accepted :
    Script.acceptsLoose ex2Env (encode ex2Ke .segwitv0 ex2Script) [[7], [], List.replicate 32 7] = true := by
  decide

/-- … hence the table has a satisfaction -/
example : satEx ex2Avail ex2Script = true := by
  have hτ : ∃ τ, typeOf ex2Script = some τ ∧ τ.corr.base = .B := ⟨_, rfl, by decide⟩
  obtain ⟨τ, hτ, hB⟩ := hτ
  exact accepted_imp_satEx rfl ex2_envOK .segwitv0 ex2Script
    ⟨by decide, by decide, by decide, by decide, by decide⟩ τ hτ hB _ ex2_accepted

/-! ## T4 — descriptor level: the taproot leaf loop -/

/-- the leaf loop skips no leaf: a spend is returned iff the key path is signable or some leaf
has a stack satisfaction in the given mode -/
theorem tr_leafloop_iff (ke : KeyEnv) (a : Assets) (mall tk : Bool) (ls : List TapLeaf) :
    bestTapSpend ke a mall tk ls ≠ .none ↔
      (tk = true ∨ ∃ l ∈ ls, ∃ w, (satDissat (tapLeafCfg ke a mall l.ms) l.ms).sat.stack = .stack w) := by
  rw [bestTapSpend_ne_none]
  constructor
  · rintro (h | ⟨l, hm, hs⟩)
    · exact .inl h
    · exact .inr ⟨l, hm, isStk_exists hs⟩
  · rintro (h | ⟨l, hm, w, hw⟩)
    · exact .inl h
    · exact .inr ⟨l, hm, by unfold leafSat; rw [hw]; rfl⟩

/-- … and ranks correctly: the witness size kept by the loop is minimal among all leaves that
have a stack satisfaction -/
theorem tr_leafloop_minimal (ke : KeyEnv) (a : Assets) (mall : Bool) (ls : List TapLeaf) (j m : Nat)
    (h : tapLoop ke a mall ls 0 none = some (j, m)) :
    ∀ l ∈ ls, ∀ s, (satDissat (tapLeafCfg ke a mall l.ms) l.ms).sat.stack = .stack s →
      m ≤ tapLeafWitSize ke l s :=
  (tapLoop_min ke a mall ls 0 none j m h).2

/-- malleable mode (`get_satisfaction_mall`, `into_plan_mall`): key path signable or some leaf
table-satisfiable ⇒ a spend is returned -/
theorem tr_complete_mall (ke : KeyEnv) (a : Assets) (tk : Bool) (ls : List TapLeaf)
    (hk : ∀ l ∈ ls, ThreshKOK l.ms) (hlk : ∀ l ∈ ls, NoMixedLocks a l.ms) (hsz : SigSizesOK a)
    (hsm : ∀ l ∈ ls, SmallScript l.ms)
    (h : tk = true ∨ ∃ l ∈ ls, satEx (avail a .tap) l.ms = true) :
    bestTapSpend ke a true tk ls ≠ .none := by
  rw [tr_leafloop_iff]
  rcases h with h | ⟨l, hm, hs⟩
  · exact .inl h
  · exact .inr ⟨l, hm, (mall_complete_table ke .tap _ a l.ms (hk l hm) (hlk l hm) hsz (hsm l hm)).1 hs⟩

/-- non-malleable mode (`get_satisfaction`, `into_plan`): key path signable or some leaf that
meets T3's hypotheses is table-satisfiable ⇒ a spend is returned -/
theorem tr_complete_nonmall (ke : KeyEnv) (a : Assets) (tk : Bool) (ls : List TapLeaf)
    (h : tk = true ∨ ∃ l ∈ ls, ∃ τ, typeOf l.ms = some τ ∧ τ.mall.nonMall = true ∧
      τ.mall.signed = true ∧ NoRawPkH l.ms ∧ AllPreimages a l.ms ∧ ThreshKOK l.ms ∧
      NoMixedLocks a l.ms ∧ satEx (avail a .tap) l.ms = true) :
    bestTapSpend ke a false tk ls ≠ .none := by
  rw [tr_leafloop_iff]
  rcases h with h | ⟨l, hm, τ, hτ, hnm, hsg, hraw, hpre, hk, hlk, hs⟩
  · exact .inl h
  · refine .inr ⟨l, hm, ?_⟩
    have := nonmall_complete ke .tap a l.ms τ hτ hnm hsg hraw hpre hk hlk hs
    simpa [tapLeafCfg, hτ] using this

/-- non-vacuity: `tr(K9,{pk(K0),and_v(v:pk(K1),older(5))})` with a Schnorr signature for K1 and
the lock: only the second leaf is satisfiable and it is the one returned -/
def ex4Leaves : List TapLeaf :=
  [⟨.check (.pkK 0), 1⟩, ⟨.andV (.verify (.check (.pkK 1))) (.older 5), 1⟩]
def ex4Assets : Assets where
  ecdsaSig _ := false
  schnorrSig k := if k == 1 then some 64 else none
  rawPkhPk _ := none
  rawPkhEcdsa _ := none
  rawPkhSchnorr _ := none
  preimage _ _ := false
  checkOlder n := n == 5
  checkAfter _ := false

example : bestTapSpend keyEnv0 ex4Assets false false ex4Leaves = .leaf 1 ∧
    bestTapSpend keyEnv0 ex4Assets true false ex4Leaves = .leaf 1 ∧
    bestTapSpend keyEnv0 ex4Assets false true ex4Leaves = .key := by decide

/-- non-vacuity of the two completeness bundles at descriptor level: a tree whose second leaf is
`ex3Script` (threshold + hash + lock), Schnorr signatures for K1 and K3 only -/
def ex4bLeaves : List TapLeaf := [⟨.check (.pkK 0), 1⟩, ⟨ex3Script, 1⟩]
def ex4bAssets : Assets where
  ecdsaSig _ := false
  schnorrSig k := if k == 1 || k == 3 then some 64 else none
  rawPkhPk _ := none
  rawPkhEcdsa _ := none
  rawPkhSchnorr _ := none
  preimage _ h := h == 7
  checkOlder n := n == 5
  checkAfter _ := false

theorem ex4b_table : satEx (avail ex4bAssets .tap) ex3Script = true := by
  unfold ex3Script ex4bAssets; table_eval

example : bestTapSpend keyEnv0 ex4bAssets false false ex4bLeaves ≠ .none := by
  obtain ⟨τ, hτ, _, hm, hs⟩ := ex3_typed
  exact tr_complete_nonmall keyEnv0 ex4bAssets false ex4bLeaves
    (.inr ⟨⟨ex3Script, 1⟩, by simp [ex4bLeaves], τ, hτ, hm, hs, by decide, by decide, by decide, by decide,
      ex4b_table⟩)

example : bestTapSpend keyEnv0 ex4bAssets true false ex4bLeaves ≠ .none := by
  refine tr_complete_mall keyEnv0 ex4bAssets false ex4bLeaves ?_ ?_ ?_ ?_
    (.inr ⟨⟨ex3Script, 1⟩, by simp [ex4bLeaves], ex4b_table⟩)
  · intro l hl; simp only [ex4bLeaves, List.mem_cons, List.mem_nil_iff, or_false] at hl
    rcases hl with rfl | rfl <;> decide
  · intro l hl; simp only [ex4bLeaves, List.mem_cons, List.mem_nil_iff, or_false] at hl
    rcases hl with rfl | rfl <;> decide
  · exact ⟨fun k sz h => by
      simp only [ex4bAssets] at h; split at h <;> simp at h; omega, fun h p hp => by cases hp⟩
  · intro l hl; simp only [ex4bLeaves, List.mem_cons, List.mem_nil_iff, or_false] at hl
    rcases hl with rfl | rfl <;> decide

end MsVerif.C02

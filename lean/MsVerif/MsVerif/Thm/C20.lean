/-
C20 — Key translation and key iteration preserve structure.

Model (Model/Translate.lean) ↔ Rust:
  translatePk     ↔ `Miniscript::translate_pk` / `translate_pk_ctx` (src/miniscript/mod.rs): the
                    fold over `rtl_post_order_iter` with one `translated.pop().unwrap()` per child
                    in ARGUMENT order (`AndOr`: three pops, `Thresh`: `map_ref` pops per child),
                    translator calls on the node's own atoms, `Miniscript::from_ast` per node
  substituteRawPkh↔ `Miniscript::substitute_raw_pkh`
  forEachKey / forAnyKey ↔ `ForEachKey for Miniscript` (loop over `pre_order_iter`, short-circuit)
  Ms.iterNodes / Ms.iterPkLit ↔ `Miniscript::iter` (path stack, `get_nth_child`) / `iter_pk` (`get_nth_pk`)
The translator is `&mut`: its methods run in `TrM σ ε = StateT σ (Except (TrErr ε))`, so the
ORDER of the calls (right-to-left post-order) is part of every statement.  `chk` stands for
`Miniscript::from_ast` in the target context (type check + `Ctx::check_global_validity`).

Policies (Model/TranslatePolicy.lean), section P below:
  polTranslate    ↔ `policy::concrete::Policy::translate_pk` and (on policies without `and` / `or`
                    nodes, `PPol.isSemantic`) `policy::semantic::Policy::translate_pk`: fold over
                    `rtl_post_order_iter`, `And`: n pops, `Or`: weight of the ORIGINAL child at
                    that position with the popped child, `Thresh`: `map_ref` pops, k kept
  translateUnsat  ↔ `Concrete::translate_unsatisfiable_pk`
  polForEachKey / polForAnyKey / polKeys ↔ `ForEachKey for Policy` (both types), `Concrete::keys`

Descriptors (Model/TranslateDesc.lean over the shapes of Model/Descriptor.lean), section D:
  descTranslate ↔ `Descriptor::translate_pk` through Bare / Pkh / Wpkh / Wsh / Sh / Tr
  Desc.iterPk   ↔ `Descriptor::iter_pk` (src/descriptor/iter.rs, the `PkIter` state machine)

All theorems are for EVERY miniscript `ms` / policy `p` / descriptor `d` (no bound on size, depth, width).
-/
import MsVerif.Lemmas.TranslateEncode
import MsVerif.Lemmas.TranslatePolicy
import MsVerif.Lemmas.TranslateDesc
import MsVerif.Model.ThresholdOps

namespace MsVerif.C20
open MsVerif MsVerif.TreeWalk MsVerif.CmpEq MsVerif.TranslateLemmas MsVerif.TranslateEncode

variable {σ ε : Type}

/-! ## witnesses for the non-vacuity examples -/

def pk (k : Key) : Ms := .check (.pkK k)
/-- `andor(pk(0), thresh(2,pk(1),s:pk(2),s:pk_h(3)), or_b(multi(1,4,5), s:sha256(0)))`:
asymmetric children everywhere -/
def w : Ms :=
  .andOr (pk 0) (.thresh 2 (MsList.ofList [pk 1, .swap (pk 2), .swap (.check (.pkH 3))]))
    (.orB (.multi 1 [4, 5]) (.swap (.hash .sha256 0)))
/-- fails on key 2 and on key 4 -/
def failOn24 : Key → Except Key Key := fun k => if k = 2 ∨ k = 4 then .error k else .ok (k + 10)

/-! ## T1 — the stack-based rebuild is the structural map -/

/-- T1 (main): for every translator (stateful, fallible), every `from_ast` check and every
miniscript, the fold over the right-to-left post-order traversal with a stack equals the
structural translation `Ms.trRtl` — same result, same errors, same order of translator calls
(children right to left, then the node's own atoms left to right, then the node's check).
In particular no `pop().unwrap()` ever panics. -/
theorem translate_is_map (t : Translator σ ε) (chk : Ms → Bool) (ms : Ms) :
    translatePk t chk ms = ms.trRtl t chk := translatePk_eq t chk ms

/-- T1 for a pure total key/hash mapping: the result is the structural `Ms.mapKeys f g` if
every rebuilt node passes `from_ast`, and `OuterError` otherwise — nothing else can happen
(a translation fails ONLY IF the mapping fails or a rebuilt node is illegal in the context) -/
theorem translate_pure (f : Key → Key) (g : HashKind → Nat → Nat) (chk : Ms → Bool) (ms : Ms) :
    translatePk (pureT (σ := σ) (ε := ε) f g) chk ms =
      if (ms.mapKeys f g).pre.all chk then pure (ms.mapKeys f g) else throw .outerError := by
  rw [translate_is_map, trRtl_pure]; rfl

/-- T1, failure order: for a stateless fallible mapping and no context re-check, the
translation fails iff the mapping fails on some atom, with the error of the FIRST failing atom
in translator-call order `ms.atomsRtl` (right-to-left post-order); otherwise it returns
`Ms.mapKeys` -/
theorem translate_first_failure (f : Key → Except ε Key) (g : HashKind → Nat → Except ε Nat) (ms : Ms) :
    translatePk (statelessT (σ := σ) f g) (fun _ => true) ms =
      match firstErr (ms.atomsRtl.map (atomRes f g)) with
      | some e => throw (.translatorErr e)
      | none => pure (ms.mapKeys (fOr f) (gOr g)) := by
  rw [translate_is_map, trRtl_stateless]; rfl

/-- the translator-call order of the witness: right child first, `thresh` children last to
first, `multi` keys left to right -/
example : w.atomsRtl =
    [.hash .sha256 0, .key 4, .key 5, .key 3, .key 2, .key 1, .key 0] := by decide

/-- on the witness the mapping fails on keys 2 and 4; key 4 is reached first -/
example : firstErr (w.atomsRtl.map (atomRes failOn24 (fun _ h => .ok h))) = some 4 := by decide
example : translatePk (statelessT (σ := Unit) failOn24 (fun _ h => .ok h)) (fun _ => true) w
    = throw (.translatorErr 4) := by
  rw [translate_first_failure]
  have : firstErr (w.atomsRtl.map (atomRes failOn24 (fun _ h => .ok h))) = some 4 := by decide
  rw [this]

/-- `Clone` is the same fold without translator and check (shared lemma with C19) -/
theorem clone_is_identity (ms : Ms) : msClone ms = .ok ms := msClone_eq ms

/-- `substitute_raw_pkh` (the same fold, `RawPkH` leaves looked up in a map, no re-check) is
the structural substitution and never panics -/
theorem substitute_raw_pkh_is_map (pkMap : Nat → Option Key) (ms : Ms) :
    substituteRawPkh pkMap ms = .ok (ms.substRaw pkMap) := substituteRawPkh_eq pkMap ms

/-! ## T2 — functor laws -/

/-- identity mapping: the structural map is the identity … -/
theorem mapKeys_identity (ms : Ms) : ms.mapKeys id (fun _ h => h) = ms := mapKeys_id ms

/-- … so translating a miniscript all of whose nodes are legal with the identity translator
returns the same miniscript -/
theorem translate_identity (chk : Ms → Bool) (ms : Ms) (h : ms.pre.all chk = true) :
    translatePk (pureT (σ := σ) (ε := ε) id (fun _ h => h)) chk ms = pure ms := by
  rw [translate_pure, mapKeys_identity, h]; rfl

/-- composition of the structural maps -/
theorem mapKeys_compose (f f' : Key → Key) (g g' : HashKind → Nat → Nat) (ms : Ms) :
    (ms.mapKeys f g).mapKeys f' g' = ms.mapKeys (f' ∘ f) (fun kind h => g' kind (g kind h)) :=
  mapKeys_comp f f' g g' ms

/-- translation composes: if the intermediate object is legal, translating with `f` and then
with `f'` is translating with `f' ∘ f` -/
theorem translate_compose (f f' : Key → Key) (g g' : HashKind → Nat → Nat) (chk : Ms → Bool) (ms : Ms)
    (hmid : (ms.mapKeys f g).pre.all chk = true) :
    (translatePk (pureT (σ := σ) (ε := ε) f g) chk ms >>= translatePk (pureT f' g') chk)
      = translatePk (pureT (f' ∘ f) (fun kind h => g' kind (g kind h))) chk ms := by
  rw [translate_pure f g, hmid]
  simp only [if_true, pure_bind]
  rw [translate_pure, translate_pure, mapKeys_compose]

example : (w.mapKeys (· + 1) (fun _ h => h)).mapKeys (· * 2) (fun _ h => h + 1)
    = w.mapKeys (fun k => (k + 1) * 2) (fun _ h => h + 1) := by decide

/-! ## T3 — the script of the translated object is the script with the keys substituted -/

/-- for every key table `env`: encoding the key-substituted miniscript equals encoding the
original miniscript with every atom `k` serialised as the mapped key `f k` (`env.comap f g`:
`ser`, `sortKey` (BIP67 order of `sortedmulti`), `pkh` and hash values looked up through the
mapping) — including the position of sorted keys -/
theorem encode_translate (env : KeyEnv) (ctx : Ctx) (f : Key → Key) (g : HashKind → Nat → Nat) (ms : Ms) :
    encode env ctx (ms.mapKeys f g) = encode (KeyEnv.comap env f g) ctx ms :=
  encode_mapKeys env ctx f g ms

/-- in particular the script bytes -/
theorem encodeBytes_translate (env : KeyEnv) (ctx : Ctx) (f : Key → Key) (g : HashKind → Nat → Nat) (ms : Ms) :
    encodeBytes env ctx (ms.mapKeys f g) = encodeBytes (KeyEnv.comap env f g) ctx ms := by
  unfold encodeBytes; rw [encode_translate]

/-! ## T4 — types are invariant -/

/-- the correctness/malleability type does not depend on the keys at all -/
theorem type_translate (f : Key → Key) (g : HashKind → Nat → Nat) (ms : Ms) :
    typeOf (ms.mapKeys f g) = typeOf ms := typeOf_mapKeys f g ms

/-- the extra data (sizes, op counts, time locks) is invariant under every mapping that
preserves the key kind (compressed ↔ uncompressed is the only thing `ExtData` reads) -/
theorem ext_translate (env : KeyEnv) (ctx : Ctx) (f : Key → Key) (g : HashKind → Nat → Nat)
    (hk : ∀ k, isUnc env (f k) = isUnc env k) (ms : Ms) :
    extOf env ctx (ms.mapKeys f g) = extOf env ctx ms := extOf_mapKeys env ctx f g hk ms

example : typeOf (w.mapKeys (· + 7) (fun _ h => h + 1)) = typeOf w := type_translate _ _ _

/-! ## T5 — the key iterators visit exactly the keys of the string form, in order -/

/-- `for_each_key(pred)` calls `pred` on the keys in pre-order (= the order of the string form)
and stops at the first key that fails: visited keys and result are those of `Iterator::all`
over `ms.keys` -/
theorem for_each_key_eq_keys (pred : Key → Bool) (ms : Ms) :
    forEachKey pred ms = allVisit pred ms.keys := by
  unfold forEachKey Ms.keys
  rw [preOrder_eq_pre, forEachKeyLoop_eq]

/-- with a predicate that never fails, every key is visited exactly once per occurrence -/
theorem for_each_key_visits_all (ms : Ms) : forEachKey (fun _ => true) ms = (ms.keys, true) := by
  rw [for_each_key_eq_keys]
  generalize ms.keys = l
  induction l with
  | nil => rfl
  | cons k ks ih => simp [allVisit, ih]

/-- `for_any_key(pred)` = `!for_each_key(!pred)`: stops at the first hit -/
theorem for_any_key_eq_keys (pred : Key → Bool) (ms : Ms) :
    forAnyKey pred ms = ((allVisit (fun k => !pred k) ms.keys).1, !(allVisit (fun k => !pred k) ms.keys).2) := by
  unfold forAnyKey
  rw [for_each_key_eq_keys]

/-- `Miniscript::branches` (its own child table), `get_nth_child` and `get_nth_pk` agree with
the children / keys of the node: the three tables in src/miniscript/iter.rs are consistent -/
theorem branches_eq_children (ms : Ms) : ms.branches = ms.asNode.children := branches_eq ms
theorem get_nth_child_eq (ms : Ms) (n : Nat) : ms.getNthChild n = ms.branches[n]? := by
  rw [getNthChild_eq, branches_eq]
theorem get_nth_pk_eq (ms : Ms) (n : Nat) : ms.getNthPk n = ms.keysAt[n]? := getNthPk_eq ms n

/-- `Miniscript::iter` (path stack + `get_nth_child`) yields the nodes in pre-order -/
theorem iter_eq_pre (ms : Ms) : ms.iterNodes = ms.pre := iterNodes_eq ms

/-- `iter_pk` (`get_nth_pk(0), get_nth_pk(1), …` on every node of `iter`) yields exactly
`ms.keys`: the keys of `pk_k`, `pk_h`, `multi`, `sortedmulti`, `multi_a`, `sortedmulti_a` in the
order of the string form, with multiplicity -/
theorem iter_pk_eq_keys (ms : Ms) : ms.iterPkLit = ms.keys := iterPk_eq ms

/-- a key-substituted miniscript has the substituted key list (same positions, same
multiplicities) -/
theorem keys_translate (f : Key → Key) (g : HashKind → Nat → Nat) (ms : Ms) :
    (ms.mapKeys f g).iterPkLit = ms.iterPkLit.map f := by
  rw [iter_pk_eq_keys, iter_pk_eq_keys]
  exact keysPre_mapKeys f g ms

example : w.iterPkLit = [0, 1, 2, 3, 4, 5] := by decide
example : forEachKey (fun k => k != 3) w = ([0, 1, 2, 3], false) := by decide
example : forAnyKey (fun k => k == 4) w = ([0, 1, 2, 3, 4], true) := by decide

/-! ## P — policies (concrete and semantic) -/

section Policies
open MsVerif.TranslatePolicy

/-- `or(9@pk(0), 1@and(pk(1), thresh(2, pk(2), sha256(0), pk(0), older(5))))`: unequal odds,
mixed connectives, k < n, a repeated key -/
def wp : PPol :=
  .or (.cons 9 (.key 0) (.cons 1 (.and (.cons 0 (.key 1) (.cons 0
    (.thresh 2 (.cons 0 (.key 2) (.cons 0 (.hash .sha256 0) (.cons 0 (.key 0) (.cons 0 (.older 5) .nil)))))
    .nil))) .nil))

/-- P1 (main): for every translator (stateful, fallible) and every policy, the fold over the
right-to-left post-order with a stack equals the structural translation `PPol.trRtl`: same
result, same errors, same order of translator calls; no `pop().unwrap()` panics; every `or`
weight stays attached to the child at its position, every `thresh` keeps its k -/
theorem policy_translate_is_map (t : Translator σ ε) (p : PPol) :
    polTranslate t p = p.trRtl t := polTranslate_eq t p

/-- P1 for a pure total mapping: the translation always succeeds and is `PPol.mapKeys` -/
theorem policy_translate_pure (f : Key → Key) (g : HashKind → Nat → Nat) (p : PPol) :
    polTranslate (pureT (σ := σ) (ε := ε) f g) p = pure (p.mapKeys f g) := by
  rw [policy_translate_is_map, TranslatePolicy.trRtl_pure]

/-- structure is preserved exactly: tree shape, node kinds, `or` weights in the same positions,
thresholds k, locks and hash kinds of the translated policy are those of the original -/
theorem policy_structure_preserved (f : Key → Key) (g : HashKind → Nat → Nat) (p : PPol) :
    (p.mapKeys f g).skeleton = p.skeleton := by
  unfold PPol.skeleton; rw [TranslatePolicy.mapKeys_comp]; rfl

/-- a semantic policy (no `and` / `or` nodes) translates to a semantic policy: the model of
`Concrete::translate_pk` restricted to thresholds is the model of `Semantic::translate_pk` -/
theorem policy_semantic_closed (f : Key → Key) (g : HashKind → Nat → Nat) (p : PPol) :
    (p.mapKeys f g).isSemantic = p.isSemantic := isSemantic_mapKeys f g p

/-- a translation fails ONLY IF the mapping fails, with the error of the FIRST failing atom in
the code's visiting order `p.atomsRtl` (right-to-left post-order); otherwise it is `mapKeys` -/
theorem policy_translate_first_failure (f : Key → Except ε Key) (g : HashKind → Nat → Except ε Nat)
    (p : PPol) :
    polTranslate (statelessT (σ := σ) f g) p =
      match firstErr (p.atomsRtl.map (atomRes f g)) with
      | some e => throw (.translatorErr e)
      | none => pure (p.mapKeys (fOr f) (gOr g)) := by
  rw [policy_translate_is_map, TranslatePolicy.trRtl_stateless]; rfl

example : wp.atomsRtl = [.key 0, .hash .sha256 0, .key 2, .key 1, .key 0] := by decide
example : firstErr (wp.atomsRtl.map (atomRes failOn24 (fun _ h => .ok h))) = some 2 := by decide

/-- identity mapping yields an equal policy -/
theorem policy_translate_identity (p : PPol) :
    polTranslate (pureT (σ := σ) (ε := ε) id (fun _ h => h)) p = pure p := by
  rw [policy_translate_pure, TranslatePolicy.mapKeys_id]

/-- translation composes -/
theorem policy_translate_compose (f f' : Key → Key) (g g' : HashKind → Nat → Nat) (p : PPol) :
    (polTranslate (pureT (σ := σ) (ε := ε) f g) p >>= polTranslate (pureT f' g'))
      = polTranslate (pureT (f' ∘ f) (fun kind h => g' kind (g kind h))) p := by
  rw [policy_translate_pure f g]
  simp only [pure_bind]
  rw [policy_translate_pure, policy_translate_pure, TranslatePolicy.mapKeys_comp]

example : (wp.mapKeys (· + 1) (fun _ h => h)).mapKeys (· % 2) (fun _ h => h + 1)
    = wp.mapKeys (fun k => (k + 1) % 2) (fun _ h => h + 1) := by decide
example : wp.mapKeys (· % 2) (fun _ h => h) =
    .or (.cons 9 (.key 0) (.cons 1 (.and (.cons 0 (.key 1) (.cons 0
      (.thresh 2 (.cons 0 (.key 0) (.cons 0 (.hash .sha256 0) (.cons 0 (.key 0) (.cons 0 (.older 5) .nil)))))
      .nil))) .nil)) := by decide

/-- `translate_unsatisfiable_pk(key)` never panics and replaces exactly the `pk(key)` leaves
by `UNSATISFIABLE`; everything else (other keys, weights, k, shape) is untouched -/
theorem policy_translate_unsatisfiable (key : Key) (p : PPol) :
    translateUnsat key p = .ok (p.replaceKey key) := translateUnsat_eq key p

example : translateUnsat 0 wp =
    .ok (.or (.cons 9 .unsat (.cons 1 (.and (.cons 0 (.key 1) (.cons 0
      (.thresh 2 (.cons 0 (.key 2) (.cons 0 (.hash .sha256 0) (.cons 0 .unsat (.cons 0 (.older 5) .nil)))))
      .nil))) .nil))) := policy_translate_unsatisfiable 0 wp

/-- `for_each_key(pred)` (both policy types) calls `pred` on the keys in pre-order (= the order
of the printed form) and stops at the first key that fails -/
theorem policy_for_each_key_eq_keys (pred : Key → Bool) (p : PPol) :
    polForEachKey pred p = allVisit pred p.keys := by
  unfold polForEachKey PPol.keys
  rw [TranslatePolicy.preOrder_eq, polAllLoop_eq]

theorem policy_for_any_key_eq_keys (pred : Key → Bool) (p : PPol) :
    polForAnyKey pred p = ((allVisit (fun k => !pred k) p.keys).1, !(allVisit (fun k => !pred k) p.keys).2) := by
  unfold polForAnyKey
  rw [policy_for_each_key_eq_keys]

/-- `Concrete::keys()` is exactly the key list of the printed form, with multiplicity -/
theorem policy_keys_eq (p : PPol) : polKeys p = p.keys := polKeys_eq p

/-- the translated policy has the substituted key list (same positions and multiplicities) -/
theorem policy_keys_translate (f : Key → Key) (g : HashKind → Nat → Nat) (p : PPol) :
    polKeys (p.mapKeys f g) = (polKeys p).map f := by
  rw [policy_keys_eq, policy_keys_eq]
  exact TranslatePolicy.keysPre_mapKeys f g p

example : polKeys wp = [0, 1, 2, 0] := by decide
example : polForEachKey (fun k => k != 2) wp = ([0, 1, 2], false) := by decide

end Policies

/-! ## Th — the element-wise operations of `Threshold` -/

section ThresholdOps
variable {α β ε' : Type}

/-- `map` keeps k and the positions -/
theorem threshold_map_structure (f : α → β) (t : Thr α) :
    (t.map f).k = t.k ∧ (t.map f).inner = t.inner.map f := ⟨rfl, rfl⟩

/-- `translate` with a closure that never fails is `map`, with one call per element -/
theorem threshold_translate_ok (f : α → β) (t : Thr α) :
    t.translate (fun x => (.ok (f x) : Except ε' β)) = (.ok (t.map f), t.inner.length) := by
  obtain ⟨k, l⟩ := t
  simp only [Thr.translate, Thr.map]
  induction l with
  | nil => rfl
  | cons x xs ih =>
    simp only [Thr.walk]
    cases h : Thr.walk (fun x => (.ok (f x) : Except ε' β)) xs with
    | mk r n =>
      rw [h] at ih
      cases r with
      | ok ys => simp at ih ⊢; exact ⟨by rw [ih.1], ih.2⟩
      | error e => simp at ih

/-- a failing closure stops the walk: the error is the one of the FIRST failing element and the
closure is called exactly on the elements up to it -/
theorem threshold_translate_first_failure (f : α → Except ε' β) (pre : List α) (x : α) (post : List α)
    (e : ε') (hpre : ∀ y ∈ pre, ∃ z, f y = .ok z) (hx : f x = .error e) (k : Nat) :
    (Thr.translate f ⟨k, pre ++ x :: post⟩) = (.error e, pre.length + 1) := by
  simp only [Thr.translate]
  induction pre with
  | nil => simp [Thr.walk, hx]
  | cons y ys ih =>
    obtain ⟨z, hz⟩ := hpre y (by simp)
    have := ih (fun w hw => hpre w (by simp [hw]))
    simp only [List.cons_append, Thr.walk, hz]
    cases h : Thr.walk f (ys ++ x :: post) with
    | mk r n =>
      rw [h] at this
      cases r with
      | ok _ => simp at this
      | error e' => simp at this ⊢; exact ⟨this.1, by omega⟩

example : (Thr.translate (fun x => if x = 3 then (.error x : Except Nat Nat) else .ok (x * 2)) ⟨2, [1, 2, 3, 4]⟩).2
    = 3 := by decide

end ThresholdOps

/-! ## D — descriptors -/

section Descriptors
open MsVerif.Desc MsVerif.TranslateDesc

/-- D1: for a pure total mapping `Descriptor::translate_pk` returns the descriptor with the
atoms substituted iff every rebuilt miniscript node passes `from_ast` in its context and every
key held directly by a wrapper (`pkh`, `wpkh`, `sh(wpkh)`, the internal key of `tr`) passes
`Ctx::check_pk` — and `OuterError` otherwise: an illegal target is always refused, a legal one
never -/
theorem desc_translate_pure (f : Key → Key) (g : HashKind → Nat → Nat) (chk : Ctx → Ms → Bool)
    (keyOk : Ctx → Key → Bool) (d : Desc) :
    descTranslate (pureT (σ := σ) (ε := ε) f g) chk keyOk d =
      if (d.mapKeys f g).legal chk keyOk then pure (d.mapKeys f g) else throw .outerError := by
  rw [descTranslate_pure]; rfl

/-- D2: the output script of the key-substituted descriptor is the output script of the
original computed with every atom serialised as its image — for every wrapper (`bare`, `pkh`,
`wpkh`, `wsh`, `sh(..)`, and `tr` given the same output-key function of the mapped internal
key and the leaf scripts) -/
theorem desc_script_translate (P : Params) (f : Key → Key) (g : HashKind → Nat → Nat) (d : Desc) :
    (d.mapKeys f g).scriptPubkey P = d.scriptPubkey (Params.comap P f g) :=
  scriptPubkey_mapKeys P f g d

/-- D2 for the leaf scripts of `tr` -/
theorem desc_leaf_scripts_translate (P : Params) (f : Key → Key) (g : HashKind → Nat → Nat)
    (leaves : List (Nat × Ms)) :
    trLeafScripts P (leaves.map fun l => (l.1, l.2.mapKeys f g))
      = trLeafScripts (Params.comap P f g) leaves := leafScripts_mapKeys P f g leaves

/-- D3: `Descriptor::iter_pk` (single key, tap leaves in order, then the miniscript iterator)
yields exactly the keys of the printed form in order, with multiplicity — for every descriptor
type (`tr`: internal key first; `sortedmulti` / `multi_a` keys as written) -/
theorem desc_iter_pk_eq_keys (d : Desc) : d.iterPk = d.keysPrinted := TranslateDesc.iterPk_eq d

/-- D4: `Descriptor::for_each_key(pred)` calls `pred` on the keys in `for_each_key` order (the
miniscript's pre-order; `tr`: tap leaves in order, then the internal key) and stops at the first
key that fails; `for_any_key` is its dual -/
theorem desc_for_each_key_eq_keys (pred : Key → Bool) (d : Desc) :
    descForEachKey pred d = allVisit pred d.keysForEach := descForEachKey_eq pred d

theorem desc_for_any_key_eq_keys (pred : Key → Bool) (d : Desc) :
    descForAnyKey pred d = ((allVisit (fun k => !pred k) d.keysForEach).1,
      !(allVisit (fun k => !pred k) d.keysForEach).2) := by
  unfold descForAnyKey; rw [desc_for_each_key_eq_keys]

example : descForEachKey (fun k => k != 3) (Desc.tr 7 [(1, .hash .sha256 0), (1, .multiA 1 [3, 2])]) = ([3], false) := by
  decide

/-- the translated descriptor has the substituted key list -/
theorem desc_keys_translate (f : Key → Key) (g : HashKind → Nat → Nat) (d : Desc) :
    (d.mapKeys f g).iterPk = d.iterPk.map f := by
  rw [desc_iter_pk_eq_keys, desc_iter_pk_eq_keys, keysPrinted_mapKeys]

example : (Desc.tr 7 [(1, pk 0), (1, .multiA 1 [3, 2])]).iterPk = [7, 0, 3, 2] := by decide

end Descriptors

end MsVerif.C20

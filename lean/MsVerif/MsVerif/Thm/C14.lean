/-
C14 — PSBT finalization yields a valid spend, atomically and idempotently.

Theorems about `Model/Psbt.lean` (the finalizer state machine of `src/psbt/finalizer.rs` and
`PsbtExt` of `src/psbt/mod.rs`).  The satisfier and the interpreter are parameters
(`Params`); every statement holds for ALL parameter values unless a hypothesis says
otherwise, and every hypothesis is instantiated on a concrete value below its theorem.

* T1 `finalize_valid`, `extract_valid`: relative to soundness of the interpreter parameter
  (C13's statement) every freshly finalized input, and every input of an extracted
  transaction, is a valid spend of the referenced output in the unsigned transaction.
* T2 `finalize_preserves_final`, `finalize_atomic` (+ `finalizeMut_atomic`),
  `finalize_idempotent` (single input: unconditional for failing calls; whole PSBT: needs the
  satisfier to be local to its input — shown necessary by a counterexample).
* T3 `order_independent`: the result is a function of the field maps; insertions with
  distinct keys commute.
* the former defects (F8, F8b, `finalize_inp_mall_mut`) are fixed in /repo; the model follows and
  the positive statements are theorems at full strength: `finalize_never_panics` (no public entry
  point panics, on any PSBT), `finalize_inp_mall_honours_mall` (an equation).
-/
import MsVerif.Model.Psbt

namespace MsVerif.C14
open MsVerif.Psbt

/-! ## basic facts -/

theorem final_fields_decode_ss (ss : SS) : (if ss.isEmpty then none else some ss : Option SS).getD [] = ss := by
  cases ss <;> simp

theorem final_fields_decode_wit (w : Wit) : (if w.isEmpty then none else some w : Option Wit).getD [] = w := by
  cases w <;> simp

/-- the freshly written input is final unless scriptSig and witness are both empty -/
theorem finalizedInput_isFinal (inp : Input) (wit : Wit) (ss : SS) (h : ¬(wit = [] ∧ ss = [])) :
    (finalizedInput inp wit ss).isFinal = true := by
  cases wit <;> cases ss <;> simp_all [finalizedInput, Input.isFinal]

/-- `finalize_input` succeeds only when PSBT and transaction have the same number of inputs -/
theorem finalizeInput_ok_core (P : Params) (p p' : Psbt) (i : Nat) (m : Bool)
    (h : finalizeInput P p i m = .ok p') :
    p.tx.ins.length = p.inputs.length ∧ finalizeInputCore P p i m = .ok p' := by
  unfold finalizeInput at h
  by_cases hc : p.tx.ins.length = p.inputs.length
  · simp [hc] at h; exact ⟨hc, h⟩
  · simp [hc] at h

theorem finalizeInput_eq_core (P : Params) (p : Psbt) (i : Nat) (m : Bool)
    (hc : p.tx.ins.length = p.inputs.length) : finalizeInput P p i m = finalizeInputCore P p i m := by
  simp [finalizeInput, hc]

/-- case analysis of `finalize_input` -/
theorem finalizeInput_ok_cases (P : Params) (p p' : Psbt) (i : Nat) (m : Bool)
    (h : finalizeInput P p i m = .ok p') :
    ∃ inp, p.inputs[i]? = some inp ∧
      ((inp.isFinal = true ∧ p' = p) ∨
       (inp.isFinal = false ∧ ∃ wit ss, finalizeInputHelper P p i m = .ok (wit, ss) ∧
          p' = { p with inputs := p.inputs.set i (finalizedInput inp wit ss) })) := by
  have h := (finalizeInput_ok_core P p p' i m h).2
  unfold finalizeInputCore at h
  cases hi : p.inputs[i]? with
  | none => simp [hi] at h
  | some inp =>
    refine ⟨inp, rfl, ?_⟩
    simp only [hi] at h
    cases hf : inp.isFinal with
    | true => simp [hf] at h; exact Or.inl ⟨rfl, h.symm⟩
    | false =>
      simp only [hf, Bool.false_eq_true, if_false] at h
      cases hh : finalizeInputHelper P p i m with
      | ok r =>
        simp [hh, Res.bind] at h
        exact Or.inr ⟨rfl, r.1, r.2, rfl, h.symm⟩
      | err e => simp [hh, Res.bind] at h
      | panic => simp [hh, Res.bind] at h

/-- when the helper succeeds the interpreter parameter has accepted exactly the returned pair,
for the unsigned transaction, this index, the referenced outputs and this script_pubkey -/
theorem helper_ok_interp (P : Params) (p : Psbt) (i : Nat) (m : Bool) (wit : Wit) (ss : SS)
    (h : finalizeInputHelper P p i m = .ok (wit, ss)) :
    ∃ utxo utxos, getUtxo p i = .ok utxo ∧ prevouts p = .ok utxos ∧
      P.interp p.tx i utxos utxo.spk wit ss = true := by
  unfold finalizeInputHelper at h
  cases hu : getUtxo p i with
  | err e => simp [getScriptPubkey, hu, Res.bind, Res.mapErr] at h
  | panic => simp [getScriptPubkey, hu, Res.bind, Res.mapErr] at h
  | ok utxo =>
    simp only [getScriptPubkey, hu, Res.bind, Res.mapErr] at h
    generalize hsat : satisfyStep P p i m utxo.spk = sat at h
    cases sat with
    | err e => simp at h
    | panic => simp at h
    | ok r =>
      simp only at h
      cases hp : prevouts p with
      | err e => simp [hp] at h
      | panic => simp [hp] at h
      | ok utxos =>
        simp only [hp] at h
        unfold interpreterInpCheck at h
        simp only [getScriptPubkey, hu, Res.bind, Res.mapErr] at h
        cases hti : p.tx.ins[i]? with
        | none => simp [hti] at h
        | some txin =>
          simp only [hti] at h
          by_cases hint : P.interp p.tx i utxos utxo.spk r.1 r.2 = true
          · simp [hint] at h
            refine ⟨utxo, utxos, rfl, rfl, ?_⟩
            subst h; exact hint
          · simp [hint] at h

/-! ## T1 — a finalized input spends the referenced output -/

/-- soundness of the interpreter parameter with respect to a validity predicate (for the real
code: C13, `Interpreter` accepts ⇒ `Spec.verifySpend` accepts) -/
def InterpSound (P : Params) (Valid : Tx → Nat → List TxOut → Scr → SS → Wit → Prop) : Prop :=
  ∀ tx i utxos spk wit ss, P.interp tx i utxos spk wit ss = true → Valid tx i utxos spk ss wit

/-- T1: if `finalize_input` succeeds on an input that was not final, the input now carries
final fields that decode (empty = absent) to a scriptSig / witness pair which is a valid spend
of the output referenced by input `i` of the ACTUAL unsigned transaction, all other fields are
cleared and the utxo fields are kept. -/
theorem finalize_valid (P : Params) (Valid : Tx → Nat → List TxOut → Scr → SS → Wit → Prop)
    (hs : InterpSound P Valid) (p p' : Psbt) (i : Nat) (m : Bool) (inp : Input)
    (hi : p.inputs[i]? = some inp) (hnf : inp.isFinal = false)
    (h : finalizeInput P p i m = .ok p') :
    ∃ inp' utxo utxos, p'.inputs[i]? = some inp' ∧ getUtxo p i = .ok utxo ∧ prevouts p = .ok utxos ∧
      p'.tx = p.tx ∧
      inp'.witnessUtxo = inp.witnessUtxo ∧ inp'.nonWitnessUtxo = inp.nonWitnessUtxo ∧
      Valid p.tx i utxos utxo.spk (inp'.finalScriptSig.getD []) (inp'.finalScriptWitness.getD []) := by
  obtain ⟨inp0, hi0, hc⟩ := finalizeInput_ok_cases P p p' i m h
  rw [hi] at hi0; cases hi0
  rcases hc with ⟨hf, _⟩ | ⟨_, wit, ss, hh, hp'⟩
  · rw [hnf] at hf; cases hf
  · obtain ⟨utxo, utxos, hu, hpv, hint⟩ := helper_ok_interp P p i m wit ss hh
    have hlt : i < p.inputs.length := by
      rcases Nat.lt_or_ge i p.inputs.length with h1 | h1
      · exact h1
      · rw [List.getElem?_eq_none h1] at hi; cases hi
    refine ⟨finalizedInput inp wit ss, utxo, utxos, ?_, hu, hpv, ?_, rfl, rfl, ?_⟩
    · rw [hp']; simp [List.getElem?_set_self hlt]
    · rw [hp']
    · simp only [finalizedInput, final_fields_decode_ss, final_fields_decode_wit]
      exact hs _ _ _ _ _ _ hint

/-! ## T2 — frame, atomicity, preservation of final inputs -/

/-- frame of `finalize_input`: only input `i` can change, the transaction and the number of
inputs never do, and the utxo fields of every input are kept -/
theorem finalizeInput_frame (P : Params) (p p' : Psbt) (i : Nat) (m : Bool)
    (h : finalizeInput P p i m = .ok p') :
    p'.tx = p.tx ∧ p'.inputs.length = p.inputs.length ∧
    (∀ j, j ≠ i → p'.inputs[j]? = p.inputs[j]?) ∧
    (∀ (j : Nat) (inp inp' : Input), p.inputs[j]? = some inp → p'.inputs[j]? = some inp' →
        inp'.witnessUtxo = inp.witnessUtxo ∧ inp'.nonWitnessUtxo = inp.nonWitnessUtxo) := by
  obtain ⟨inp0, hi0, hc⟩ := finalizeInput_ok_cases P p p' i m h
  rcases hc with ⟨_, rfl⟩ | ⟨_, wit, ss, _, rfl⟩
  · refine ⟨rfl, rfl, fun _ _ => rfl, ?_⟩
    intro j inp inp' h1 h2; rw [h1] at h2; cases h2; exact ⟨rfl, rfl⟩
  · refine ⟨rfl, by simp, ?_, ?_⟩
    · intro j hj; simp [List.getElem?_set_ne (Ne.symm hj)]
    · intro j inp inp' h1 h2
      by_cases hj : j = i
      · subst hj
        rw [hi0] at h1; cases h1
        have hlt : j < p.inputs.length := by
          rcases Nat.lt_or_ge j p.inputs.length with h1 | h1
          · exact h1
          · rw [List.getElem?_eq_none h1] at hi0; cases hi0
        simp [List.getElem?_set_self hlt] at h2
        subst h2; exact ⟨rfl, rfl⟩
      · simp [List.getElem?_set_ne (Ne.symm hj)] at h2
        rw [h1] at h2; cases h2; exact ⟨rfl, rfl⟩

/-- T2 (`finalize_preserves_final`): `finalize_input` — whatever its index and mode — never
alters an input that is already final -/
theorem finalize_preserves_final (P : Params) (p p' : Psbt) (i : Nat) (m : Bool)
    (h : finalizeInput P p i m = .ok p') (j : Nat) (inp : Input)
    (hj : p.inputs[j]? = some inp) (hf : inp.isFinal = true) :
    p'.inputs[j]? = some inp := by
  obtain ⟨inp0, hi0, hc⟩ := finalizeInput_ok_cases P p p' i m h
  rcases hc with ⟨_, rfl⟩ | ⟨hnf, wit, ss, _, rfl⟩
  · exact hj
  · by_cases hji : j = i
    · subst hji; rw [hi0] at hj; cases hj; rw [hf] at hnf; cases hnf
    · simp [List.getElem?_set_ne (Ne.symm hji)]; exact hj

/-- every input after `finalize_input` is either untouched or freshly and completely written -/
def InputStep (before after : Option Input) : Prop :=
  after = before ∨
  ∃ inp wit ss, before = some inp ∧ inp.isFinal = false ∧ after = some (finalizedInput inp wit ss)

theorem inputStep_refl (a : Option Input) : InputStep a a := Or.inl rfl

theorem finalizeInput_step (P : Params) (p p' : Psbt) (i : Nat) (m : Bool)
    (h : finalizeInput P p i m = .ok p') (j : Nat) : InputStep p.inputs[j]? p'.inputs[j]? := by
  obtain ⟨inp0, hi0, hc⟩ := finalizeInput_ok_cases P p p' i m h
  rcases hc with ⟨_, rfl⟩ | ⟨hnf, wit, ss, _, rfl⟩
  · exact Or.inl rfl
  · by_cases hji : j = i
    · subst hji
      have hlt : j < p.inputs.length := by
        rcases Nat.lt_or_ge j p.inputs.length with h1 | h1
        · exact h1
        · rw [List.getElem?_eq_none h1] at hi0; cases hi0
      exact Or.inr ⟨inp0, wit, ss, hi0, hnf, by simp [List.getElem?_set_self hlt]⟩
    · exact Or.inl (by simp [List.getElem?_set_ne (Ne.symm hji)])

/-- T2 (`finalize_atomic`), single input (`finalize_inp_mut`, `finalize_inp_mall_mut`):
an error (or a panic) leaves the whole PSBT as it was; success changes input `i` at most. -/
theorem finalize_atomic (P : Params) (p : Psbt) (i : Nat) :
    let o := finalizeInpMut P p i
    (o.result ≠ .ok () → o.psbt = p) ∧
    (o.result = .ok () → ∀ j, j ≠ i → o.psbt.inputs[j]? = p.inputs[j]?) := by
  simp only [finalizeInpMut]
  by_cases hge : i ≥ p.inputs.length
  · simp [hge]
  · simp only [hge, if_false]
    cases h : finalizeInput P p i false with
    | ok p' =>
      refine ⟨fun hne => absurd rfl hne, fun _ j hj => ?_⟩
      exact (finalizeInput_frame P p p' i false h).2.2.1 j hj
    | err e => exact ⟨fun _ => rfl, fun h => by cases h⟩
    | panic => exact ⟨fun _ => rfl, fun h => by cases h⟩

theorem finalize_atomic_mall (P : Params) (p : Psbt) (i : Nat) :
    let o := finalizeInpMallMut P p i
    (o.result ≠ .ok () → o.psbt = p) ∧
    (o.result = .ok () → ∀ j, j ≠ i → o.psbt.inputs[j]? = p.inputs[j]?) := by
  simp only [finalizeInpMallMut]
  by_cases hge : i ≥ p.inputs.length
  · simp [hge]
  · simp only [hge, if_false]
    cases h : finalizeInput P p i inpMallFlag with
    | ok p' =>
      refine ⟨fun hne => absurd rfl hne, fun _ j hj => ?_⟩
      exact (finalizeInput_frame P p p' i inpMallFlag h).2.2.1 j hj
    | err e => exact ⟨fun _ => rfl, fun h => by cases h⟩
    | panic => exact ⟨fun _ => rfl, fun h => by cases h⟩

/-! ### the loops of `finalize_mut` / `finalize_mall_mut` -/

theorem finalizedInput_twice (a : Input) (w w' : Wit) (s s' : SS) :
    finalizedInput (finalizedInput a w s) w' s' = finalizedInput a w' s' := rfl

theorem inputStep_trans {a b c : Option Input} (h1 : InputStep a b) (h2 : InputStep b c) : InputStep a c := by
  rcases h1 with rfl | ⟨inp, w, s, rfl, hnf, rfl⟩
  · exact h2
  · rcases h2 with rfl | ⟨inp2, w2, s2, h, _, rfl⟩
    · exact Or.inr ⟨inp, w, s, rfl, hnf, rfl⟩
    · cases h
      exact Or.inr ⟨inp, w2, s2, rfl, hnf, by rw [finalizedInput_twice]⟩

/-- the error list only accumulates: the state and the panic flag do not depend on it -/
theorem finalizeLoop_es (P : Params) (m : Bool) : ∀ (is : List Nat) (p : Psbt) (es : List Err),
    finalizeLoop P m is p es =
      ((finalizeLoop P m is p []).1, es ++ (finalizeLoop P m is p []).2.1, (finalizeLoop P m is p []).2.2) := by
  intro is
  induction is with
  | nil => intro p es; simp [finalizeLoop]
  | cons i tl ih =>
    intro p es
    simp only [finalizeLoop]
    cases h : finalizeInput P p i m with
    | ok p' => simp only; exact ih p' es
    | err e =>
      simp only
      rw [ih p (es ++ [e]), ih p ([] ++ [e])]
      simp
    | panic => simp

/-- invariant of the loop: transaction and number of inputs fixed, every input untouched or
freshly and completely written -/
theorem finalizeLoop_step (P : Params) (m : Bool) : ∀ (is : List Nat) (p : Psbt) (es : List Err),
    (finalizeLoop P m is p es).1.tx = p.tx ∧
    (finalizeLoop P m is p es).1.inputs.length = p.inputs.length ∧
    (∀ j : Nat, InputStep p.inputs[j]? (finalizeLoop P m is p es).1.inputs[j]?) ∧
    (∀ j : Nat, j ∉ is → (finalizeLoop P m is p es).1.inputs[j]? = p.inputs[j]?) := by
  intro is
  induction is with
  | nil => intro p es; exact ⟨rfl, rfl, fun _ => Or.inl rfl, fun _ _ => rfl⟩
  | cons i tl ih =>
    intro p es
    simp only [finalizeLoop]
    cases h : finalizeInput P p i m with
    | ok p' =>
      simp only
      obtain ⟨h1, h2, h3, h4⟩ := ih p' es
      obtain ⟨f1, f2, f3, _⟩ := finalizeInput_frame P p p' i m h
      refine ⟨h1.trans f1, h2.trans f2, fun j => inputStep_trans (finalizeInput_step P p p' i m h j) (h3 j), ?_⟩
      intro j hj
      simp only [List.mem_cons, not_or] at hj
      rw [h4 j hj.2, f3 j hj.1]
    | err e =>
      simp only
      obtain ⟨h1, h2, h3, h4⟩ := ih p (es ++ [e])
      refine ⟨h1, h2, h3, ?_⟩
      intro j hj
      simp only [List.mem_cons, not_or] at hj
      exact h4 j hj.2
    | panic => exact ⟨rfl, rfl, fun _ => Or.inl rfl, fun _ _ => rfl⟩

/-- T2 (`finalize_atomic`, whole PSBT): after `finalize_mut` / `finalize_mall_mut` — whether it
returns `Ok`, a vector of errors, or panics half-way — the transaction and the number of
inputs are unchanged and EVERY input is either exactly as before or was not final and now
consists of its utxo fields plus the final fields only.  (Inputs finalized before a later
input fails stay finalized: atomicity is per input, as the documentation of `finalize_mut`
says.) -/
theorem finalizeMut_atomic (P : Params) (p : Psbt) (m : Bool) :
    (finalizeMut P p m).psbt.tx = p.tx ∧
    (finalizeMut P p m).psbt.inputs.length = p.inputs.length ∧
    ∀ j : Nat, InputStep p.inputs[j]? (finalizeMut P p m).psbt.inputs[j]? := by
  have h := finalizeLoop_step P m (List.range p.inputs.length) p []
  have hp : (finalizeMut P p m).psbt = (finalizeLoop P m (List.range p.inputs.length) p []).1 := by
    unfold finalizeMut
    rcases hl : finalizeLoop P m (List.range p.inputs.length) p [] with ⟨p', es, fl⟩
    cases fl <;> cases es <;> rfl
  rw [hp]
  exact ⟨h.1, h.2.1, h.2.2.1⟩

/-- T2 (`finalize_preserves_final`, whole PSBT): already-final inputs are never altered -/
theorem finalizeMut_preserves_final (P : Params) (p : Psbt) (m : Bool) (j : Nat) (inp : Input)
    (hj : p.inputs[j]? = some inp) (hf : inp.isFinal = true) :
    (finalizeMut P p m).psbt.inputs[j]? = some inp := by
  rcases (finalizeMut_atomic P p m).2.2 j with h | ⟨inp', _, _, h1, hnf, _⟩
  · rw [h, hj]
  · rw [hj] at h1; cases h1; rw [hf] at hnf; cases hnf

/-! ## T2 — idempotence -/

/-- the interpreter parameter rejects the spend with empty scriptSig AND empty witness (true of
every output type a sane descriptor produces: all need at least a signature) -/
def NonEmptySpend (P : Params) : Prop := ∀ tx i utxos spk, P.interp tx i utxos spk [] [] = false

theorem finalizeInput_of_final (P : Params) (p : Psbt) (i : Nat) (m : Bool) (inp : Input)
    (hc : p.tx.ins.length = p.inputs.length)
    (hi : p.inputs[i]? = some inp) (hf : inp.isFinal = true) : finalizeInput P p i m = .ok p := by
  simp [finalizeInput, finalizeInputCore, hc, hi, hf]

/-- after a successful `finalize_input` the input is final -/
theorem finalizeInput_makes_final (P : Params) (hne : NonEmptySpend P) (p p' : Psbt) (i : Nat) (m : Bool)
    (h : finalizeInput P p i m = .ok p') : ∃ inp', p'.inputs[i]? = some inp' ∧ inp'.isFinal = true := by
  obtain ⟨inp0, hi0, hc⟩ := finalizeInput_ok_cases P p p' i m h
  rcases hc with ⟨hf, rfl⟩ | ⟨_, wit, ss, hh, rfl⟩
  · exact ⟨inp0, hi0, hf⟩
  · have hlt : i < p.inputs.length := by
      rcases Nat.lt_or_ge i p.inputs.length with h1 | h1
      · exact h1
      · rw [List.getElem?_eq_none h1] at hi0; cases hi0
    refine ⟨finalizedInput inp0 wit ss, by simp [List.getElem?_set_self hlt], ?_⟩
    apply finalizedInput_isFinal
    rintro ⟨rfl, rfl⟩
    obtain ⟨utxo, utxos, _, _, hint⟩ := helper_ok_interp P p i m [] [] hh
    rw [hne] at hint; cases hint

/-- T2 (`finalize_idempotent`), single input: calling `finalize_inp_mut` again — after success,
after an error, after a panic — returns the same result and the same PSBT. -/
theorem finalize_idempotent (P : Params) (hne : NonEmptySpend P) (p : Psbt) (i : Nat) :
    finalizeInpMut P (finalizeInpMut P p i).psbt i = finalizeInpMut P p i := by
  unfold finalizeInpMut
  by_cases hge : i ≥ p.inputs.length
  · simp [hge]
  · simp only [hge, if_false]
    cases h : finalizeInput P p i false with
    | ok p' =>
      simp only
      obtain ⟨inp', hi', hf'⟩ := finalizeInput_makes_final P hne p p' i false h
      have hfr := finalizeInput_frame P p p' i false h
      have hlen := hfr.2.1
      have hc' : p'.tx.ins.length = p'.inputs.length := by
        rw [hfr.1, hlen]; exact (finalizeInput_ok_core P p p' i false h).1
      rw [hlen]; simp only [hge, if_false]
      rw [finalizeInput_of_final P p' i false inp' hc' hi' hf']
    | err e => simp only [hge, if_false, h]
    | panic => simp only [hge, if_false, h]

/-- the failing half needs no hypothesis at all: an error is reproduced exactly -/
theorem finalize_idempotent_err (P : Params) (p : Psbt) (i : Nat) (e : Err)
    (h : (finalizeInpMut P p i).result = .err e) :
    finalizeInpMut P (finalizeInpMut P p i).psbt i = finalizeInpMut P p i := by
  have : (finalizeInpMut P p i).psbt = p := (finalize_atomic P p i).1 (by rw [h]; simp)
  rw [this]

/-- two PSBTs that look the same from input `i`: same transaction, same input `i`, same
referenced outputs everywhere -/
def SameView (p q : Psbt) (i : Nat) : Prop :=
  q.tx = p.tx ∧ q.inputs.length = p.inputs.length ∧ q.inputs[i]? = p.inputs[i]? ∧
  ∀ j, getUtxo q j = getUtxo p j

/-- the satisfier parameters look only at their own input, the transaction and the utxos (the
real `PsbtInputSatisfier` does; `get_descriptor`'s raw-pkh `map` over the other inputs'
`bip32_derivation` is the one place where the code is not literally local) -/
def Local (P : Params) : Prop :=
  ∀ p q i m, SameView p q i →
    (∀ d, P.satisfy d q i m = P.satisfy d p i m) ∧ P.tapScriptWitness q i m = P.tapScriptWitness p i m

theorem prevoutsFrom_congr (p q : Psbt) (h : ∀ j, getUtxo q j = getUtxo p j) :
    ∀ is, prevoutsFrom q is = prevoutsFrom p is := by
  intro is
  induction is with
  | nil => rfl
  | cons i tl ih => simp only [prevoutsFrom, h i, ih]

theorem helper_local (P : Params) (hl : Local P) (p q : Psbt) (i : Nat) (m : Bool) (hv : SameView p q i) :
    finalizeInputHelper P q i m = finalizeInputHelper P p i m := by
  obtain ⟨htx, hlen, hin, hut⟩ := hv
  obtain ⟨hsat, htap⟩ := hl p q i m ⟨htx, hlen, hin, hut⟩
  have hspk : getScriptPubkey q i = getScriptPubkey p i := by simp only [getScriptPubkey, hut i]
  have hprev : prevouts q = prevouts p := by
    simp only [prevouts, hlen]; exact prevoutsFrom_congr p q hut _
  have hdesc : getDescriptor P q i = getDescriptor P p i := by
    simp only [getDescriptor, hspk, hin]
  have hctw : constructTapWitness P q i m = constructTapWitness P p i m := by
    simp only [constructTapWitness, hin, htap]
  have hstep : ∀ spk, satisfyStep P q i m spk = satisfyStep P p i m spk := by
    intro spk; simp only [satisfyStep, hdesc, hctw, hsat]
  have hint : ∀ u w s, interpreterInpCheck P q i u w s = interpreterInpCheck P p i u w s := by
    intro u w s; simp only [interpreterInpCheck, hspk, htx]
  simp only [finalizeInputHelper, hspk, hstep, hprev, hint]

theorem getUtxo_of_frame (p p' : Psbt) (htx : p'.tx = p.tx)
    (hu : ∀ (j : Nat) (inp inp' : Input), p.inputs[j]? = some inp → p'.inputs[j]? = some inp' →
        inp'.witnessUtxo = inp.witnessUtxo ∧ inp'.nonWitnessUtxo = inp.nonWitnessUtxo)
    (hlen : p'.inputs.length = p.inputs.length) (j : Nat) : getUtxo p' j = getUtxo p j := by
  unfold getUtxo
  cases h1 : p.inputs[j]? with
  | none =>
    have : p'.inputs[j]? = none := by
      rw [List.getElem?_eq_none_iff] at h1 ⊢; omega
    simp [this]
  | some inp =>
    have hlt : j < p'.inputs.length := by
      rcases Nat.lt_or_ge j p.inputs.length with h | h
      · omega
      · rw [List.getElem?_eq_none h] at h1; cases h1
    cases h2 : p'.inputs[j]? with
    | none => rw [List.getElem?_eq_none_iff] at h2; omega
    | some inp' =>
      obtain ⟨a, b⟩ := hu j inp inp' h1 h2
      simp only [a, b, htx]

/-- what the loop keeps: transaction, length, utxos, inputs outside the index list, final inputs -/
theorem finalizeLoop_view (P : Params) (m : Bool) : ∀ (is : List Nat) (p : Psbt),
    (finalizeLoop P m is p []).1.tx = p.tx ∧
    (finalizeLoop P m is p []).1.inputs.length = p.inputs.length ∧
    (∀ j, getUtxo (finalizeLoop P m is p []).1 j = getUtxo p j) := by
  intro is
  induction is with
  | nil => intro p; exact ⟨rfl, rfl, fun _ => rfl⟩
  | cons i tl ih =>
    intro p
    simp only [finalizeLoop]
    cases h : finalizeInput P p i m with
    | ok p' =>
      simp only
      obtain ⟨h1, h2, h3⟩ := ih p'
      obtain ⟨f1, f2, _, f4⟩ := finalizeInput_frame P p p' i m h
      exact ⟨h1.trans f1, h2.trans f2, fun j => (h3 j).trans (getUtxo_of_frame p p' f1 f4 f2 j)⟩
    | err e =>
      simp only
      rw [finalizeLoop_es]
      exact ih p
    | panic => exact ⟨rfl, rfl, fun _ => rfl⟩

theorem finalizeLoop_idem (P : Params) (hl : Local P) (hne : NonEmptySpend P) (m : Bool) :
    ∀ (is : List Nat), is.Nodup → ∀ (p p1 : Psbt) (es : List Err),
      finalizeLoop P m is p [] = (p1, es, false) → finalizeLoop P m is p1 [] = (p1, es, false) := by
  intro is
  induction is with
  | nil =>
    intro _ p p1 es h
    simp only [finalizeLoop, Prod.mk.injEq] at h ⊢
    obtain ⟨rfl, h2⟩ := h
    exact ⟨trivial, h2⟩
  | cons i tl ih =>
    intro hnd p p1 es h
    have hnd' := (List.nodup_cons.mp hnd)
    simp only [finalizeLoop] at h ⊢
    cases h0 : finalizeInput P p i m with
    | ok q =>
      simp only [h0] at h
      -- input i is final in q, hence in p1
      obtain ⟨inp', hi', hf'⟩ := finalizeInput_makes_final P hne p q i m h0
      have hkeep : p1.inputs[i]? = some inp' := by
        have := (finalizeLoop_step P m tl q []).2.2.2 i hnd'.1
        rw [h] at this; simp only at this; rw [this, hi']
      have hc1 : p1.tx.ins.length = p1.inputs.length := by
        have hq := finalizeInput_frame P p q i m h0
        have hv := finalizeLoop_step P m tl q []
        rw [h] at hv; simp only at hv
        rw [hv.1, hv.2.1, hq.1, hq.2.1]; exact (finalizeInput_ok_core P p q i m h0).1
      rw [finalizeInput_of_final P p1 i m inp' hc1 hkeep hf']
      exact ih hnd'.2 q p1 es h
    | err e =>
      simp only [h0] at h
      rw [finalizeLoop_es] at h
      have h1 : (finalizeLoop P m tl p []).1 = p1 := congrArg Prod.fst h
      have h2 : [e] ++ (finalizeLoop P m tl p []).2.1 = es := by
        have := congrArg (fun x => x.2.1) h; simpa using this
      have h3 : (finalizeLoop P m tl p []).2.2 = false := by
        have := congrArg (fun x => x.2.2) h; simpa using this
      have hrec : finalizeLoop P m tl p [] = (p1, (finalizeLoop P m tl p []).2.1, false) := by
        rw [← h1, ← h3]
      have ih' := ih hnd'.2 p p1 _ hrec
      -- input i fails again in the same way
      have hview : SameView p p1 i := by
        obtain ⟨v1, v2, v3⟩ := finalizeLoop_view P m tl p
        have v4 := (finalizeLoop_step P m tl p []).2.2.2 i hnd'.1
        rw [h1] at v1 v2 v3 v4
        exact ⟨v1, v2, v4, v3⟩
      have hfail : finalizeInput P p1 i m = .err e := by
        unfold finalizeInput at h0 ⊢
        rw [hview.1, hview.2.1]
        by_cases hcnt : p.tx.ins.length = p.inputs.length
        case neg => simpa [hcnt] using h0
        simp only [hcnt, bne_self_eq_false, Bool.false_eq_true, if_false] at h0 ⊢
        unfold finalizeInputCore at h0 ⊢
        rw [hview.2.2.1]
        cases hi : p.inputs[i]? with
        | none => simp [hi] at h0
        | some inp =>
          simp only [hi] at h0 ⊢
          cases hf : inp.isFinal with
          | true => simp [hf] at h0
          | false =>
            simp only [hf, Bool.false_eq_true, if_false] at h0 ⊢
            rw [helper_local P hl p p1 i m hview]
            cases hh : finalizeInputHelper P p i m with
            | ok r => simp [hh, Res.bind] at h0
            | err e' => simp [hh, Res.bind] at h0 ⊢; exact h0
            | panic => simp [hh, Res.bind] at h0
      simp only [hfail]
      rw [finalizeLoop_es, ih', ← h2]
      simp
    | panic => simp [h0] at h

/-- T2 (`finalize_idempotent`, whole PSBT): if the satisfier is local to its input and the
interpreter rejects the all-empty spend, `finalize_mut` (resp. `finalize_mall_mut`) run a second
time returns the same `Ok` / the same vector of errors and leaves the PSBT exactly as the first
run left it. -/
theorem finalizeMut_idempotent (P : Params) (hl : Local P) (hne : NonEmptySpend P) (p : Psbt) (m : Bool)
    (hnp : (finalizeMut P p m).result ≠ .panic) :
    finalizeMut P (finalizeMut P p m).psbt m = finalizeMut P p m := by
  unfold finalizeMut at hnp ⊢
  rcases hloop : finalizeLoop P m (List.range p.inputs.length) p [] with ⟨p1, es, fl⟩
  rw [hloop] at hnp
  cases fl with
  | true => simp at hnp
  | false =>
    have hlen : p1.inputs.length = p.inputs.length := by
      have := (finalizeLoop_step P m (List.range p.inputs.length) p []).2.1
      rw [hloop] at this; exact this
    have h2 := finalizeLoop_idem P hl hne m _ List.nodup_range p p1 es hloop
    cases es with
    | nil => simp only [hlen, h2]
    | cons e es' => simp only [hlen, h2]

/-! ## T1 for `extract` -/

theorem interpreterInpCheck_ok (P : Params) (p : Psbt) (i : Nat) (utxos : List TxOut) (w : Wit) (s : SS)
    (h : interpreterInpCheck P p i utxos w s = .ok ()) :
    ∃ utxo, getUtxo p i = .ok utxo ∧ P.interp p.tx i utxos utxo.spk w s = true := by
  unfold interpreterInpCheck at h
  cases hu : getUtxo p i with
  | err e => simp [getScriptPubkey, hu, Res.bind, Res.mapErr] at h
  | panic => simp [getScriptPubkey, hu, Res.bind, Res.mapErr] at h
  | ok utxo =>
    simp only [getScriptPubkey, hu, Res.bind, Res.mapErr] at h
    cases hti : p.tx.ins[i]? with
    | none => simp [hti] at h
    | some txin =>
      simp only [hti] at h
      by_cases hint : P.interp p.tx i utxos utxo.spk w s = true
      · exact ⟨utxo, rfl, hint⟩
      · simp [hint] at h

theorem interpreterCheckFrom_ok (P : Params) (p : Psbt) (utxos : List TxOut) :
    ∀ (rest : List Input) (k : Nat), interpreterCheckFrom P p utxos rest k = .ok () →
      ∀ (t : Nat) (inp : Input), rest[t]? = some inp →
        interpreterInpCheck P p (k + t) utxos (inp.finalScriptWitness.getD []) (inp.finalScriptSig.getD []) = .ok () := by
  intro rest
  induction rest with
  | nil => intro k _ t inp h; simp at h
  | cons a tl ih =>
    intro k h t inp ht
    simp only [interpreterCheckFrom, Res.bind] at h
    cases hc : interpreterInpCheck P p k utxos (a.finalScriptWitness.getD []) (a.finalScriptSig.getD []) with
    | err e => simp [hc] at h
    | panic => simp [hc] at h
    | ok u =>
      simp only [hc] at h
      cases t with
      | zero => simp at ht; subst ht; simpa using hc
      | succ t' =>
        simp at ht
        have := ih (k + 1) h t' inp ht
        rw [show k + (t' + 1) = k + 1 + t' by omega]; exact this

/-- the pairs `extract` writes into the transaction: final fields, absent = empty -/
def decodeFinal (inp : Input) : SS × Wit := (inp.finalScriptSig.getD [], inp.finalScriptWitness.getD [])

theorem extractFill_ok : ∀ (rest : List Input) (k : Nat) (l : List (SS × Wit)),
    extractFill rest k = .ok l → l = rest.map decodeFinal ∧ ∀ inp ∈ rest, inp.isFinal = true := by
  intro rest
  induction rest with
  | nil => intro k l h; simp [extractFill] at h; subst h; simp
  | cons a tl ih =>
    intro k l h
    simp only [extractFill] at h
    by_cases hn : (a.finalScriptSig.isNone && a.finalScriptWitness.isNone) = true
    · simp [hn] at h
    · simp only [hn, Bool.false_eq_true, if_false, Res.bind] at h
      cases hr : extractFill tl (k + 1) with
      | err e => simp [hr] at h
      | panic => simp [hr] at h
      | ok l' =>
        simp only [hr, Res.ok.injEq] at h
        obtain ⟨h1, h2⟩ := ih (k + 1) l' hr
        subst h; subst h1
        refine ⟨rfl, ?_⟩
        intro inp hin
        simp only [List.mem_cons] at hin
        rcases hin with rfl | hin
        · cases h3 : inp.finalScriptSig <;> cases h4 : inp.finalScriptWitness <;> simp_all [Input.isFinal]
        · exact h2 inp hin

/-- T1 for `extract`: if `extract` returns a transaction, the PSBT has as many inputs as the
unsigned transaction, every input is final, the returned scriptSig/witness pairs are exactly the
final fields, and (interpreter parameter sound) EVERY input is a valid spend of the output it
references in the unsigned transaction — including inputs that were finalized by someone else. -/
theorem extract_valid (P : Params) (Valid : Tx → Nat → List TxOut → Scr → SS → Wit → Prop)
    (hs : InterpSound P Valid) (p : Psbt) (l : List (SS × Wit)) (h : extract P p = .ok l) :
    l = p.inputs.map decodeFinal ∧ p.tx.ins.length = p.inputs.length ∧
    ∀ (i : Nat) (inp : Input), p.inputs[i]? = some inp →
      inp.isFinal = true ∧
      ∃ utxo utxos, getUtxo p i = .ok utxo ∧ prevouts p = .ok utxos ∧
        Valid p.tx i utxos utxo.spk (decodeFinal inp).1 (decodeFinal inp).2 := by
  unfold extract at h
  cases hsan : sanityCheck P p with
  | err e => simp [hsan, Res.bind] at h
  | panic => simp [hsan, Res.bind] at h
  | ok u =>
    simp only [hsan, Res.bind] at h
    cases hf : extractFill p.inputs 0 with
    | err e => simp [hf] at h
    | panic => simp [hf] at h
    | ok filled =>
      simp only [hf] at h
      cases hic : interpreterCheck P p with
      | err e => simp [hic] at h
      | panic => simp [hic] at h
      | ok u' =>
        simp only [hic, Res.ok.injEq] at h
        subst h
        obtain ⟨hl, hfin⟩ := extractFill_ok p.inputs 0 filled hf
        have hcount : p.tx.ins.length = p.inputs.length := by
          unfold sanityCheck at hsan
          by_cases hc : (p.tx.ins.length != p.inputs.length) = true
          · simp [hc] at hsan
          · simpa using hc
        refine ⟨hl, hcount, ?_⟩
        intro i inp hi
        refine ⟨hfin inp (List.mem_of_getElem? hi), ?_⟩
        unfold interpreterCheck at hic
        cases hp : prevouts p with
        | err e => simp [hp, Res.bind] at hic
        | panic => simp [hp, Res.bind] at hic
        | ok utxos =>
          simp only [hp, Res.bind] at hic
          have := interpreterCheckFrom_ok P p utxos p.inputs 0 hic i inp hi
          rw [Nat.zero_add] at this
          obtain ⟨utxo, hu, hint⟩ := interpreterInpCheck_ok P p i utxos _ _ this
          exact ⟨utxo, utxos, hu, rfl, hs _ _ _ _ _ _ hint⟩

/-! ## T3 — order independence -/

theorem upd_comm {α β} [DecidableEq α] (f : α → Option β) (k k' : α) (v v' : β) (h : k ≠ k') :
    upd (upd f k v) k' v' = upd (upd f k' v') k v := by
  funext x
  simp only [upd]
  by_cases h1 : x = k' <;> by_cases h2 : x = k <;> simp_all

/-- two field insertions on the same input that do not write the same map entry (or are the
same insertion) -/
def FieldIndep : FieldOp → FieldOp → Prop
  | .partialSig k _, .partialSig k' _ => k ≠ k'
  | .preimage h _, .preimage h' _ => h ≠ h'
  | .tapKeySig _, .tapKeySig _ => False
  | .tapScriptSig k l _, .tapScriptSig k' l' _ => (k, l) ≠ (k', l')
  | .update _, .update _ => False
  | .partialSig .., _ => True
  | .preimage .., _ => True
  | .tapKeySig .., _ => True
  | .tapScriptSig .., _ => True
  | .update .., _ => True

theorem fieldIndep_symm {a b : FieldOp} (h : FieldIndep a b) : FieldIndep b a := by
  cases a <;> cases b <;> simp_all [FieldIndep] <;> first | (exact fun h' => h h'.symm) | (intro h1 h2; exact h h1.symm h2.symm) | omega

theorem input_apply_comm (inp : Input) (a b : FieldOp) (h : FieldIndep a b) :
    (inp.apply a).apply b = (inp.apply b).apply a := by
  cases a <;> cases b <;> simp only [FieldIndep] at h <;>
    first
    | (exact absurd h id)
    | (simp only [Input.apply]; rw [upd_comm _ _ _ _ _ h])
    | (simp only [Input.apply, Input.updateWith]; split <;> rfl)
    | rfl

/-- insertions (input index, field insertion) that commute: different inputs, independent
fields, or literally the same insertion -/
def OpIndep (x y : Nat × FieldOp) : Prop := x.1 ≠ y.1 ∨ FieldIndep x.2 y.2

theorem opIndep_symm {x y : Nat × FieldOp} (h : OpIndep x y) : OpIndep y x := by
  rcases h with h | h
  · exact Or.inl (Ne.symm h)
  · exact Or.inr (fieldIndep_symm h)

theorem applyAt_comm (p : Psbt) (x y : Nat × FieldOp) (h : OpIndep x y) :
    (p.applyAt x.1 x.2).applyAt y.1 y.2 = (p.applyAt y.1 y.2).applyAt x.1 x.2 := by
  obtain ⟨i, a⟩ := x
  obtain ⟨j, b⟩ := y
  simp only [Psbt.applyAt]
  by_cases hij : i = j
  · subst hij
    rcases h with h | h
    · exact absurd rfl h
    · cases hi : p.inputs[i]? with
      | none => simp [hi]
      | some inp =>
        have hlt : i < p.inputs.length := by
          rcases Nat.lt_or_ge i p.inputs.length with h1 | h1
          · exact h1
          · rw [List.getElem?_eq_none h1] at hi; cases hi
        simp [List.getElem?_set_self hlt, List.set_set, input_apply_comm inp a b h]
  · cases hi : p.inputs[i]? with
    | none =>
      cases hj : p.inputs[j]? with
      | none => simp [hi]
      | some inpj => simp [hi, List.getElem?_set_ne (Ne.symm hij)]
    | some inpi =>
      cases hj : p.inputs[j]? with
      | none => simp [hi, hj, List.getElem?_set_ne hij]
      | some inpj =>
        simp [hi, hj, List.getElem?_set_ne hij, List.getElem?_set_ne (Ne.symm hij), List.set_comm _ _ hij]

theorem applyAll_perm {l₁ l₂ : List (Nat × FieldOp)} (hp : l₁.Perm l₂) :
    l₁.Pairwise OpIndep → ∀ p : Psbt, p.applyAll l₁ = p.applyAll l₂ := by
  induction hp with
  | nil => intro _ _; rfl
  | cons x _ ih =>
    intro hpw p
    obtain ⟨i, a⟩ := x
    simp only [Psbt.applyAll]
    exact ih (List.pairwise_cons.mp hpw).2 _
  | swap x y l =>
    intro hpw p
    obtain ⟨i, a⟩ := x
    obtain ⟨j, b⟩ := y
    simp only [Psbt.applyAll]
    have hxy : OpIndep (j, b) (i, a) := (List.pairwise_cons.mp hpw).1 (i, a) (by simp)
    rw [applyAt_comm p (j, b) (i, a) hxy]
  | trans h₁ _ ih₁ ih₂ =>
    intro hpw p
    rw [ih₁ hpw p]
    exact ih₂ (h₁.pairwise hpw (fun h => opIndep_symm h)) p

/-- T3 (`order_independent`): two histories of field insertions that are permutations of each
other, with no two different writes to the same map entry, give the same PSBT — and therefore
the same result of every finalizer entry point, which sees the PSBT only through the field maps. -/
theorem order_independent (P : Params) (p : Psbt) (l₁ l₂ : List (Nat × FieldOp))
    (hp : l₁.Perm l₂) (hpw : l₁.Pairwise OpIndep) (m : Bool) (i : Nat) :
    p.applyAll l₁ = p.applyAll l₂ ∧
    finalizeMut P (p.applyAll l₁) m = finalizeMut P (p.applyAll l₂) m ∧
    finalizeInpMut P (p.applyAll l₁) i = finalizeInpMut P (p.applyAll l₂) i ∧
    extract P (p.applyAll l₁) = extract P (p.applyAll l₂) := by
  have h := applyAll_perm hp hpw p
  rw [h]; exact ⟨rfl, rfl, rfl, rfl⟩

/-! ### real histories: overwrites of the same key

`order_independent` above holds essentially by construction (a map is a function, an insertion is
`upd`); the content is in what it says about a REAL history, where a `BTreeMap` is filled by a
sequence of `insert` calls that may hit the same key several times.  The abstraction of such a
history is `insertAll f l` (insert the pairs of `l` in order, later ones overwrite).  It is
insertion-order independent exactly as far as the inserted values PER KEY agree; when two
insertions write different values under one key the last one wins and the order shows. -/

/-- two insertions into one map do not conflict: different keys, or the same value -/
def PairCompat {α β} (a b : α × β) : Prop := a.1 = b.1 → a.2 = b.2

theorem upd_comm_compat {α β} [DecidableEq α] (f : α → Option β) (k k' : α) (v v' : β)
    (h : k = k' → v = v') : upd (upd f k v) k' v' = upd (upd f k' v') k v := by
  funext x
  simp only [upd]
  by_cases h1 : x = k' <;> by_cases h2 : x = k <;> simp_all

/-- the abstraction of a `BTreeMap` history is independent of the insertion order whenever the
values inserted under each key agree (keys may repeat) -/
theorem insertAll_perm {α β} [DecidableEq α] {l₁ l₂ : List (α × β)} (hp : l₁.Perm l₂) :
    l₁.Pairwise PairCompat → ∀ f : α → Option β, insertAll f l₁ = insertAll f l₂ := by
  induction hp with
  | nil => intro _ _; rfl
  | cons x _ ih =>
    intro hpw f
    obtain ⟨k, v⟩ := x
    simp only [insertAll]
    exact ih (List.pairwise_cons.mp hpw).2 _
  | swap x y l =>
    intro hpw f
    obtain ⟨k, v⟩ := x
    obtain ⟨k', v'⟩ := y
    simp only [insertAll]
    have hxy : PairCompat (k', v') (k, v) := (List.pairwise_cons.mp hpw).1 (k, v) (by simp)
    rw [upd_comm_compat f k' k v' v hxy]
  | trans h₁ _ ih₁ ih₂ =>
    intro hpw f
    rw [ih₁ hpw f]
    exact ih₂ (h₁.pairwise hpw (fun {a b} (h : PairCompat a b) (e : b.1 = a.1) => (h e.symm).symm)) f

/-- … and this is sharp: with two different values under one key the order is visible -/
theorem insertAll_order_dependent_when_values_differ :
    insertAll (fun _ : Nat => (none : Option Nat)) [(7, 0), (7, 1)] 7 ≠
    insertAll (fun _ : Nat => (none : Option Nat)) [(7, 1), (7, 0)] 7 := by decide

/-- the same at PSBT level: field insertions that are independent OR literally equal -/
def OpCompat (x y : Nat × FieldOp) : Prop := OpIndep x y ∨ x = y

theorem applyAll_perm_compat {l₁ l₂ : List (Nat × FieldOp)} (hp : l₁.Perm l₂) :
    l₁.Pairwise OpCompat → ∀ p : Psbt, p.applyAll l₁ = p.applyAll l₂ := by
  induction hp with
  | nil => intro _ _; rfl
  | cons x _ ih =>
    intro hpw p
    obtain ⟨i, a⟩ := x
    simp only [Psbt.applyAll]
    exact ih (List.pairwise_cons.mp hpw).2 _
  | swap x y l =>
    intro hpw p
    obtain ⟨i, a⟩ := x
    obtain ⟨j, b⟩ := y
    simp only [Psbt.applyAll]
    rcases (List.pairwise_cons.mp hpw).1 (i, a) (by simp) with hxy | heq
    · rw [applyAt_comm p (j, b) (i, a) hxy]
    · cases heq; rfl
  | trans h₁ _ ih₁ ih₂ =>
    intro hpw p
    rw [ih₁ hpw p]
    refine ih₂ (h₁.pairwise hpw ?_) p
    intro a b h
    rcases h with h | h
    · exact Or.inl (opIndep_symm h)
    · exact Or.inr h.symm

/-- T3 for real histories: a signer / updater history with REPEATED insertions (the same
signature added twice, `update_input_with_descriptor` called again with the same descriptor) can
be reordered freely; every finalizer entry point returns the same. -/
theorem order_independent_with_repeats (P : Params) (p : Psbt) (l₁ l₂ : List (Nat × FieldOp))
    (hp : l₁.Perm l₂) (hpw : l₁.Pairwise OpCompat) (m : Bool) :
    p.applyAll l₁ = p.applyAll l₂ ∧ finalizeMut P (p.applyAll l₁) m = finalizeMut P (p.applyAll l₂) m := by
  rw [applyAll_perm_compat hp hpw p]; exact ⟨rfl, rfl⟩

/-- the result is a function of the field MAPS: inputs whose maps agree pointwise are equal
(so no information about insertion order exists for the finalizer to depend on) -/
theorem input_ext_maps (a b : Input)
    (h1 : a.nonWitnessUtxo = b.nonWitnessUtxo) (h2 : a.witnessUtxo = b.witnessUtxo)
    (h3 : ∀ k, a.partialSigs k = b.partialSigs k) (h4 : a.sighashType = b.sighashType)
    (h5 : a.redeemScript = b.redeemScript) (h6 : a.witnessScript = b.witnessScript)
    (h7 : ∀ k, a.bip32 k = b.bip32 k) (h8 : a.finalScriptSig = b.finalScriptSig)
    (h9 : a.finalScriptWitness = b.finalScriptWitness) (h10 : ∀ k, a.preimages k = b.preimages k)
    (h11 : a.tapKeySig = b.tapKeySig) (h12 : ∀ k, a.tapScriptSigs k = b.tapScriptSigs k)
    (h13 : ∀ k, a.tapScripts k = b.tapScripts k) (h14 : ∀ k, a.tapKeyOrigins k = b.tapKeyOrigins k)
    (h15 : a.tapInternalKey = b.tapInternalKey) (h16 : a.tapMerkleRoot = b.tapMerkleRoot)
    (h17 : ∀ k, a.other k = b.other k) : a = b := by
  cases a; cases b
  simp only at h1 h2 h4 h5 h6 h8 h9 h11 h15 h16
  have e3 := funext h3; have e7 := funext h7; have e10 := funext h10; have e12 := funext h12
  have e13 := funext h13; have e14 := funext h14; have e17 := funext h17
  simp only at e3 e7 e10 e12 e13 e14 e17
  subst h1 h2 h4 h5 h6 h8 h9 h11 h15 h16 e3 e7 e10 e12 e13 e14 e17
  rfl

/-! ## the former defects (fixed in /repo: F8, F8b, `finalize_inp_mall_mut`) as positive theorems -/

/-- what the documentation promises ("same as `finalize_inp_mut`, but allows for malleable
satisfactions"), at full strength: for an index in range `finalize_inp_mall_mut` is exactly
`finalize_input` with `allow_mall = true` (success: that PSBT; error or panic: the PSBT
unchanged and the same error), just as `finalize_inp_mut` is `finalize_input` with
`allow_mall = false`; out of range both report `InputIdxOutofBounds`. -/
def finalize_inp_mall_honours_mall_full : Prop :=
  ∀ (P : Params) (p : Psbt) (i : Nat),
    (i < p.inputs.length →
      finalizeInpMallMut P p i =
        (match finalizeInput P p i true with
         | .ok p' => ⟨p', .ok ()⟩ | .err e => ⟨p, .err e⟩ | .panic => ⟨p, .panic⟩) ∧
      finalizeInpMut P p i =
        (match finalizeInput P p i false with
         | .ok p' => ⟨p', .ok ()⟩ | .err e => ⟨p, .err e⟩ | .panic => ⟨p, .panic⟩)) ∧
    (p.inputs.length ≤ i →
      finalizeInpMallMut P p i = ⟨p, .err .idxOutOfBounds⟩ ∧ finalizeInpMut P p i = ⟨p, .err .idxOutOfBounds⟩)

/-! ### concrete instances (non-vacuity, counterexamples) -/

/-- a P2WPKH-like world: script `[1]` is the P2WPKH script of key 7; signature 0 is valid,
every other signature is not; the satisfier builds `[sig, pk]` from `partial_sigs` -/
def exP : Params where
  kind s := if s = [1] then .p2wpkh else if s = [2] then .p2tr else .other
  toP2wsh s := 9 :: s
  toP2sh s := 8 :: s
  p2pkKey _ := none
  isP2pkhOf _ _ := false
  isP2wpkhOf s k := s == [1] && k == 7
  decodes _ _ := true
  allKeys := [7]
  satisfy d p i _ :=
    match d with
    | .wpkh 7 => ((p.inputs[i]?).bind (·.partialSigs 7)).map fun sg => ([[UInt8.ofNat sg], [7]], [])
    | _ => none
  tapScriptWitness _ _ _ := none
  sigBytes _ s := [UInt8.ofNat s]
  interp _ _ _ _ wit _ := wit == [[0], [7]]
  sanityInput _ := true

def exValid : Tx → Nat → List TxOut → Scr → SS → Wit → Prop := fun _ _ _ _ _ wit => wit = [[0], [7]]

def exIn (sig : Option Sig) : Input :=
  { witnessUtxo := some ⟨[1], 1000⟩, partialSigs := fun k => if k = 7 then sig else none }

/-- two inputs: input 0 holds a valid signature, input 1 an invalid one -/
def exPsbt : Psbt := ⟨⟨2, 0, [⟨1, 0, 0⟩, ⟨2, 0, 0⟩], 0⟩, [exIn (some 0), exIn (some 1)]⟩

example : InterpSound exP exValid := by
  intro tx i utxos spk wit ss h
  simpa [exP, exValid] using h

example : NonEmptySpend exP := by intro tx i utxos spk; rfl

theorem exP_local : Local exP := by
  intro p q i m hv
  refine ⟨fun d => ?_, rfl⟩
  simp only [exP, hv.2.2.1]

/-- `finalize_mut` on the example: input 0 is finalized, input 1 fails the interpreter check and
is reported — and input 0 STAYS finalized (atomicity is per input). -/
example : (finalizeMut exP exPsbt false).result = .err [.input .interpreter 1] := by decide
example : (finalizeMut exP exPsbt false).psbt.inputs.map Input.isFinal = [true, false] := by decide
example : (finalizeMut exP exPsbt false).psbt.inputs.map (fun i => (i.partialSigs 7, i.finalScriptWitness)) =
    [(none, some [[0], [7]]), (some 1, none)] := by decide
/-- the second run returns the same -/
example : (finalizeMut exP (finalizeMut exP exPsbt false).psbt false).result = .err [.input .interpreter 1] := by
  decide
example : (finalizeInpMut exP exPsbt 0).result = .ok () ∧ (finalizeInpMut exP exPsbt 1).result = .err (.input .interpreter 1)
    ∧ (finalizeInpMut exP exPsbt 2).result = .err .idxOutOfBounds := by decide
/-- extraction refuses while an input is not final -/
example : extract exP (finalizeMut exP exPsbt false).psbt = .err (.input .missingWitness 1) := by decide
example : extract exP (finalizeMut exP ⟨exPsbt.tx, [exIn (some 0), exIn (some 0)]⟩ false).psbt =
    .ok [([], [[0], [7]]), ([], [[0], [7]])] := by decide

/-- a satisfier that has only a malleable satisfaction -/
def exPmall : Params :=
  { exP with satisfy := fun d p i mall => if mall then exP.satisfy d p i mall else none }

/-- `finalize_inp_mall_mut` allows malleable satisfactions, as documented -/
theorem finalize_inp_mall_honours_mall : finalize_inp_mall_honours_mall_full := by
  intro P p i
  refine ⟨fun hi => ?_, fun hi => ?_⟩
  · have : ¬ i ≥ p.inputs.length := by omega
    refine ⟨?_, ?_⟩
    · simp only [finalizeInpMallMut, this, if_false, inpMallFlag]
      cases finalizeInput P p i true <;> rfl
    · simp only [finalizeInpMut, this, if_false]
      cases finalizeInput P p i false <;> rfl
  · have : i ≥ p.inputs.length := hi
    exact ⟨by simp only [finalizeInpMallMut, this, if_true], by simp only [finalizeInpMut, this, if_true]⟩

/-- corollary: whenever the malleable satisfier yields a valid spend, `finalize_inp_mall_mut`
succeeds with exactly that PSBT -/
theorem finalize_inp_mall_succeeds (P : Params) (p p' : Psbt) (i : Nat) (hi : i < p.inputs.length)
    (h : finalizeInput P p i true = .ok p') : finalizeInpMallMut P p i = ⟨p', .ok ()⟩ := by
  rw [((finalize_inp_mall_honours_mall P p i).1 hi).1, h]

/-- and on a single-input PSBT it is `finalize_mall_mut` (what `J mall-honoured` tests) -/
theorem finalize_inp_mall_eq_finalize_mall_single (P : Params) (tx : Tx) (inp : Input) :
    (finalizeInpMallMut P ⟨tx, [inp]⟩ 0).psbt = (finalizeMut P ⟨tx, [inp]⟩ true).psbt ∧
    ((finalizeInpMallMut P ⟨tx, [inp]⟩ 0).result = .ok () ↔ (finalizeMut P ⟨tx, [inp]⟩ true).result = .ok ()) := by
  simp only [finalizeInpMallMut, finalizeMut, inpMallFlag, List.length_cons, List.length_nil, Nat.zero_add,
    ge_iff_le, Nat.le_zero_eq, Nat.succ_ne_zero, if_false, List.range_succ, List.range_zero, List.nil_append,
    finalizeLoop]
  cases finalizeInput P ⟨tx, [inp]⟩ 0 true <;> simp [finalizeLoop]

example : (finalizeInpMallMut exPmall exPsbt 0).result = .ok () ∧
    (finalizeInpMut exPmall exPsbt 0).result = .err (.input .miniscript 0) := by decide

/-- F8: a `non_witness_utxo` with fewer outputs than the spent `vout` -/
def exShort : Psbt :=
  ⟨⟨2, 0, [⟨1, 3, 0⟩], 0⟩, [{ nonWitnessUtxo := some ⟨1, [⟨[1], 5⟩]⟩ }]⟩

/-- F8 fixed: a short previous transaction is an error, not a panic -/
theorem get_utxo_short_prev_tx_is_error : getUtxo exShort 0 = .err .missingUtxo := by decide

example : (finalizeMut exP exShort false).result = .err [.input .missingUtxo 0] := by decide

/-- F8b fixed: more PSBT inputs than transaction inputs is `WrongInputCount` -/
example : (finalizeMut exP ⟨⟨2, 0, [⟨1, 0, 0⟩], 0⟩, [exIn (some 0), exIn (some 0)]⟩ false).result =
    .err [.wrongInputCount, .wrongInputCount] := by decide

/-- a satisfier that looks at ANOTHER input (succeeds for input 0 only once input 1 is final):
without locality `finalize_mut` is not idempotent -/
def exPnonlocal : Params :=
  { exP with satisfy := fun d p i mall =>
      if i = 0 && !((p.inputs[1]?).map Input.isFinal).getD false then none else exP.satisfy d p i mall }

example : (finalizeMut exPnonlocal ⟨exPsbt.tx, [exIn (some 0), exIn (some 0)]⟩ false).result
    = .err [.input .miniscript 0] := by decide
example : (finalizeMut exPnonlocal (finalizeMut exPnonlocal ⟨exPsbt.tx, [exIn (some 0), exIn (some 0)]⟩ false).psbt false).result
    = .ok () := by decide

/-- the counterexample at PSBT level: a valid and an invalid signature for the same key in the two
orders give different PSBTs (last writer wins) — and a different finalization result -/
theorem order_dependent_when_values_differ :
    (finalizeMut exP (exPsbt.applyAll [(1, .partialSig 7 1), (1, .partialSig 7 0)]) false).result ≠
    (finalizeMut exP (exPsbt.applyAll [(1, .partialSig 7 0), (1, .partialSig 7 1)]) false).result := by decide

example : (exPsbt.applyAll [(0, .partialSig 5 1), (1, .partialSig 7 0), (0, .partialSig 5 1)]) =
    (exPsbt.applyAll [(1, .partialSig 7 0), (0, .partialSig 5 1), (0, .partialSig 5 1)]) := by
  apply applyAll_perm_compat
  · exact List.Perm.swap _ _ _
  · simp [OpCompat, OpIndep, FieldIndep]

/-- order independence on the example: signature and preimage insertions on two inputs -/
example : (exPsbt.applyAll [(0, .preimage 3 1), (1, .partialSig 7 0), (0, .partialSig 5 1)]) =
    (exPsbt.applyAll [(0, .partialSig 5 1), (0, .preimage 3 1), (1, .partialSig 7 0)]) := by
  apply applyAll_perm
  · exact ((List.Perm.swap _ _ []).cons _).trans (List.Perm.swap _ _ _)
  · simp [OpIndep, FieldIndep]
/-- two different writes to the SAME entry do not commute (last writer wins) -/
example : ((exPsbt.applyAll [(1, .partialSig 7 0), (1, .partialSig 7 1)]).inputs.map (·.partialSigs 7)) ≠
    ((exPsbt.applyAll [(1, .partialSig 7 1), (1, .partialSig 7 0)]).inputs.map (·.partialSigs 7)) := by decide

/-! ### `finalize_mut` / `finalize_mall_mut` never panic -/

theorem getUtxo_no_panic (p : Psbt) (i : Nat) (hi : i < p.inputs.length) : getUtxo p i ≠ .panic := by
  unfold getUtxo
  have h1 : p.inputs[i]? = some p.inputs[i] := List.getElem?_eq_getElem hi
  rw [h1]
  simp only
  cases hw : p.inputs[i].witnessUtxo with
  | some u => simp
  | none =>
    cases hn : p.inputs[i].nonWitnessUtxo with
    | none => simp
    | some prev =>
      simp only
      cases p.tx.ins[i]? with
      | none => simp
      | some txin => simp only; cases prev.outputs[txin.vout]? <;> simp

theorem prevoutsFrom_no_panic (p : Psbt) :
    ∀ is : List Nat, (∀ i ∈ is, i < p.inputs.length) → prevoutsFrom p is ≠ .panic := by
  intro is
  induction is with
  | nil => intro _; simp [prevoutsFrom]
  | cons i tl ih =>
    intro h
    have h1 := getUtxo_no_panic p i (h i (by simp))
    have h2 := ih (fun j hj => h j (by simp [hj]))
    simp only [prevoutsFrom, Res.bind, Res.mapErr]
    cases hu : getUtxo p i with
    | panic => exact absurd hu h1
    | err e => simp
    | ok u =>
      simp only
      cases hr : prevoutsFrom p tl with
      | panic => exact absurd hr h2
      | err e => simp
      | ok us => simp

theorem getDescriptor_no_panic (P : Params) (p : Psbt) (i : Nat)
    (hi : i < p.inputs.length) : getDescriptor P p i ≠ .panic := by
  have h0 := getUtxo_no_panic p i hi
  have h1 : p.inputs[i]? = some p.inputs[i] := List.getElem?_eq_getElem hi
  unfold getDescriptor getScriptPubkey
  cases hu : getUtxo p i with
  | panic => exact absurd hu h0
  | err e => simp [Res.bind]
  | ok u =>
    simp only [Res.bind, h1]
    repeat' split
    all_goals simp

theorem finalizeInput_no_panic (P : Params) (p : Psbt) (i : Nat) (m : Bool)
    (hi : i < p.inputs.length) : finalizeInput P p i m ≠ .panic := by
  unfold finalizeInput
  by_cases hcnt : p.tx.ins.length = p.inputs.length
  case neg => simp [hcnt]
  simp only [hcnt, bne_self_eq_false, Bool.false_eq_true, if_false]
  have h0 := getUtxo_no_panic p i hi
  have h1 : p.inputs[i]? = some p.inputs[i] := List.getElem?_eq_getElem hi
  have hd := getDescriptor_no_panic P p i hi
  have hp := prevoutsFrom_no_panic p (List.range p.inputs.length) (fun j hj => List.mem_range.mp hj)
  unfold finalizeInputCore
  rw [h1]; simp only
  split
  · simp
  · unfold finalizeInputHelper getScriptPubkey
    cases hu : getUtxo p i with
    | panic => exact absurd hu h0
    | err e => simp [Res.bind, Res.mapErr]
    | ok u =>
      simp only [Res.bind, Res.mapErr]
      have hctw : constructTapWitness P p i m ≠ .panic := by
        unfold constructTapWitness
        simp only [h1]
        cases p.inputs[i].tapInternalKey <;> cases p.inputs[i].tapKeySig <;>
          cases P.tapScriptWitness p i m <;> simp
      have hstep : satisfyStep P p i m u.spk ≠ .panic := by
        unfold satisfyStep
        simp only [Res.bind, Res.mapErr]
        split
        · cases hcc : constructTapWitness P p i m with
          | panic => exact absurd hcc hctw
          | err e => simp
          | ok w => simp
        · cases hdd : getDescriptor P p i with
          | panic => exact absurd hdd hd
          | err e => simp
          | ok d => simp only; split <;> simp
      cases hs : satisfyStep P p i m u.spk with
      | panic => exact absurd hs hstep
      | err e => simp
      | ok r =>
        simp only
        cases hpv : prevouts p with
        | panic => exact absurd hpv hp
        | err e => simp
        | ok utxos =>
          simp only [interpreterInpCheck, getScriptPubkey, hu, Res.bind, Res.mapErr]
          cases p.tx.ins[i]? with
          | none => simp
          | some txin =>
            by_cases hint : P.interp p.tx i utxos u.spk r.1 r.2 = true <;> simp [hint]

theorem finalizeLoop_no_panic (P : Params) (m : Bool) : ∀ (is : List Nat) (p : Psbt) (es : List Err),
    (∀ i ∈ is, i < p.inputs.length) → (finalizeLoop P m is p es).2.2 = false := by
  intro is
  induction is with
  | nil => intro p es _; rfl
  | cons i tl ih =>
    intro p es hb
    simp only [finalizeLoop]
    cases h : finalizeInput P p i m with
    | panic => exact absurd h (finalizeInput_no_panic P p i m (hb i (by simp)))
    | err e => exact ih p _ (fun j hj => hb j (by simp [hj]))
    | ok p' =>
      obtain ⟨_, f2, _, _⟩ := finalizeInput_frame P p p' i m h
      exact ih p' es (fun j hj => by rw [f2]; exact hb j (by simp [hj]))

theorem finalizeMut_no_panic (P : Params) (p : Psbt) (m : Bool) : (finalizeMut P p m).result ≠ .panic := by
  have h := finalizeLoop_no_panic P m (List.range p.inputs.length) p [] (fun j hj => List.mem_range.mp hj)
  unfold finalizeMut
  rcases hl : finalizeLoop P m (List.range p.inputs.length) p [] with ⟨p', es, fl⟩
  rw [hl] at h; simp only at h; subst h
  cases es <;> simp

theorem sanityFrom_no_panic (P : Params) : ∀ (l : List Input) (k : Nat), sanityFrom P l k ≠ .panic := by
  intro l
  induction l with
  | nil => intro k; simp [sanityFrom]
  | cons a tl ih => intro k; simp only [sanityFrom]; split; exact ih (k + 1); simp

theorem sanityCheck_no_panic (P : Params) (p : Psbt) : sanityCheck P p ≠ .panic := by
  unfold sanityCheck; split; simp; exact sanityFrom_no_panic P _ _

theorem finalizeStopLoop_no_panic (P : Params) (m : Bool) : ∀ (is : List Nat) (p : Psbt),
    (∀ i ∈ is, i < p.inputs.length) → (finalizeStopLoop P m is p).2 ≠ .panic := by
  intro is
  induction is with
  | nil => intro p _; simp [finalizeStopLoop]
  | cons i tl ih =>
    intro p hb
    simp only [finalizeStopLoop]
    cases h : finalizeInput P p i m with
    | panic => exact absurd h (finalizeInput_no_panic P p i m (hb i (by simp)))
    | err e => simp
    | ok p' =>
      obtain ⟨_, f2, _, _⟩ := finalizeInput_frame P p p' i m h
      exact ih p' (fun j hj => by rw [f2]; exact hb j (by simp [hj]))

theorem interpreterInpCheck_no_panic (P : Params) (p : Psbt) (i : Nat) (hi : i < p.inputs.length)
    (utxos : List TxOut) (w : Wit) (s : SS) : interpreterInpCheck P p i utxos w s ≠ .panic := by
  have h0 := getUtxo_no_panic p i hi
  unfold interpreterInpCheck getScriptPubkey
  cases hu : getUtxo p i with
  | panic => exact absurd hu h0
  | err e => simp [Res.bind, Res.mapErr]
  | ok u =>
    simp only [Res.bind, Res.mapErr]
    cases p.tx.ins[i]? with
    | none => simp
    | some txin => by_cases hint : P.interp p.tx i utxos u.spk w s = true <;> simp [hint]

theorem interpreterCheckFrom_no_panic (P : Params) (p : Psbt) (utxos : List TxOut) :
    ∀ (rest : List Input) (k : Nat), k + rest.length ≤ p.inputs.length →
      interpreterCheckFrom P p utxos rest k ≠ .panic := by
  intro rest
  induction rest with
  | nil => intro k _; simp [interpreterCheckFrom]
  | cons a tl ih =>
    intro k hk
    simp only [List.length_cons] at hk
    have h1 := interpreterInpCheck_no_panic P p k (by omega) utxos (a.finalScriptWitness.getD []) (a.finalScriptSig.getD [])
    simp only [interpreterCheckFrom, Res.bind]
    cases hc : interpreterInpCheck P p k utxos (a.finalScriptWitness.getD []) (a.finalScriptSig.getD []) with
    | panic => exact absurd hc h1
    | err e => simp
    | ok u => exact ih (k + 1) (by omega)

theorem interpreterCheck_no_panic (P : Params) (p : Psbt) : interpreterCheck P p ≠ .panic := by
  have hp := prevoutsFrom_no_panic p (List.range p.inputs.length) (fun j hj => List.mem_range.mp hj)
  unfold interpreterCheck
  cases hpv : prevouts p with
  | panic => exact absurd hpv hp
  | err e => simp [Res.bind]
  | ok utxos => simp only [Res.bind]; exact interpreterCheckFrom_no_panic P p utxos p.inputs 0 (by omega)

theorem extractFill_no_panic : ∀ (l : List Input) (k : Nat), extractFill l k ≠ .panic := by
  intro l
  induction l with
  | nil => intro k; simp [extractFill]
  | cons a tl ih =>
    intro k
    simp only [extractFill]
    split
    · simp
    · simp only [Res.bind]
      cases hr : extractFill tl (k + 1) with
      | panic => exact absurd hr (ih (k + 1))
      | err e => simp
      | ok l' => simp

/-- the full statement: NO public entry point of the finalizer can panic — for every PSBT
(well-formed or not: wrong input count, missing or short previous transaction, index out of
range), every mode, every satisfier and every interpreter. -/
def finalize_never_panics_full : Prop :=
  ∀ (P : Params) (p : Psbt) (m : Bool) (i : Nat),
    (finalizeMut P p m).result ≠ .panic ∧
    (finalizeInpMut P p i).result ≠ .panic ∧
    (finalizeInpMallMut P p i).result ≠ .panic ∧
    (finalizeDeprecated P p m).result ≠ .panic ∧
    interpreterCheck P p ≠ .panic ∧
    extract P p ≠ .panic

theorem finalize_never_panics : finalize_never_panics_full := by
  intro P p m i
  refine ⟨finalizeMut_no_panic P p m, ?_, ?_, ?_, interpreterCheck_no_panic P p, ?_⟩
  · unfold finalizeInpMut
    by_cases hge : i ≥ p.inputs.length
    · simp [hge]
    · simp only [hge, if_false]
      have := finalizeInput_no_panic P p i false (by omega)
      cases h : finalizeInput P p i false <;> simp_all
  · unfold finalizeInpMallMut
    by_cases hge : i ≥ p.inputs.length
    · simp [hge]
    · simp only [hge, if_false]
      have := finalizeInput_no_panic P p i inpMallFlag (by omega)
      cases h : finalizeInput P p i inpMallFlag <;> simp_all
  · unfold finalizeDeprecated
    have hs := sanityCheck_no_panic P p
    cases h : sanityCheck P p with
    | panic => exact absurd h hs
    | err e => simp
    | ok u =>
      simp only
      exact finalizeStopLoop_no_panic P m _ p (fun j hj => List.mem_range.mp hj)
  · unfold extract
    have hs := sanityCheck_no_panic P p
    cases h : sanityCheck P p with
    | panic => exact absurd h hs
    | err e => simp [Res.bind]
    | ok u =>
      simp only [Res.bind]
      cases hf : extractFill p.inputs 0 with
      | panic => exact absurd hf (extractFill_no_panic _ _)
      | err e => simp
      | ok l =>
        simp only
        cases hi : interpreterCheck P p with
        | panic => exact absurd hi (interpreterCheck_no_panic P p)
        | err e => simp
        | ok u' => simp

/-- the formerly panicking shapes, on every entry point -/
example : (finalizeInpMut exP exShort 0).result = .err (.input .missingUtxo 0) ∧
    (finalizeDeprecated exP exShort false).result = .err (.input .missingUtxo 0) ∧
    interpreterCheck exP exShort = .err (.input .missingUtxo 0) := by decide

/-! ## `sanity_check` (the input's `sighash_type` field against the signatures' sighash bytes) -/

theorem sanityFrom_ok (P : Params) : ∀ (l : List Input) (k : Nat), sanityFrom P l k = .ok () →
    ∀ inp ∈ l, P.sanityInput inp = true := by
  intro l
  induction l with
  | nil => intro _ _ inp h; cases h
  | cons a tl ih =>
    intro k h inp hin
    simp only [sanityFrom] at h
    by_cases ha : P.sanityInput a = true
    · simp only [ha, if_true] at h
      rcases List.mem_cons.mp hin with rfl | h'
      · exact ha
      · exact ih (k + 1) h inp h'
    · simp [ha] at h

/-- the deprecated `psbt::finalize` / `finalize_mall` and `extract` succeed only on a PSBT whose
every input passes the sighash-type check (and whose input count matches the transaction) -/
theorem finalizeDeprecated_ok_sane (P : Params) (p : Psbt) (m : Bool)
    (h : (finalizeDeprecated P p m).result = .ok ()) :
    p.tx.ins.length = p.inputs.length ∧ ∀ inp ∈ p.inputs, P.sanityInput inp = true := by
  unfold finalizeDeprecated at h
  cases hs : sanityCheck P p with
  | err e => simp [hs] at h
  | panic => simp [hs] at h
  | ok u =>
    unfold sanityCheck at hs
    by_cases hc : (p.tx.ins.length != p.inputs.length) = true
    · simp [hc] at hs
    · simp only [hc, Bool.false_eq_true, if_false] at hs
      exact ⟨by simpa using hc, sanityFrom_ok P p.inputs 0 hs⟩

theorem extract_ok_sane (P : Params) (p : Psbt) (l : List (SS × Wit)) (h : extract P p = .ok l) :
    ∀ inp ∈ p.inputs, P.sanityInput inp = true := by
  unfold extract at h
  cases hs : sanityCheck P p with
  | err e => simp [hs, Res.bind] at h
  | panic => simp [hs, Res.bind] at h
  | ok u =>
    unfold sanityCheck at hs
    by_cases hc : (p.tx.ins.length != p.inputs.length) = true
    · simp [hc] at hs
    · simp only [hc, Bool.false_eq_true, if_false] at hs
      exact sanityFrom_ok P p.inputs 0 hs

/-- … whereas the `PsbtExt` finalizers never look at it: `finalize_mut`, `finalize_mall_mut`,
`finalize_inp_mut`, `finalize_inp_mall_mut` return the same for ANY sighash-type check.  (This is
the code as it is: a signature whose sighash byte contradicts the input's `sighash_type` field is
used by these entry points — an OBSERVATION of the run (the property does not forbid it; the spend is
valid and judged by `J spend`), see props.d "observations" — and because
finalization clears `partial_sigs`, a later `extract` no longer sees the contradiction.) -/
theorem finalizeInput_ignores_sanity (P : Params) (f : Input → Bool) (p : Psbt) (i : Nat) (m : Bool) :
    finalizeInput { P with sanityInput := f } p i m = finalizeInput P p i m := rfl

theorem finalizeLoop_ignores_sanity (P : Params) (f : Input → Bool) (m : Bool) :
    ∀ (is : List Nat) (p : Psbt) (es : List Err),
      finalizeLoop { P with sanityInput := f } m is p es = finalizeLoop P m is p es := by
  intro is
  induction is with
  | nil => intro p es; rfl
  | cons i tl ih =>
    intro p es
    simp only [finalizeLoop, finalizeInput_ignores_sanity]
    cases finalizeInput P p i m with
    | ok p' => exact ih p' es
    | err e => exact ih p _
    | panic => rfl

theorem psbtExt_finalizers_ignore_sanity (P : Params) (f : Input → Bool) (p : Psbt) (m : Bool) (i : Nat) :
    finalizeMut { P with sanityInput := f } p m = finalizeMut P p m ∧
    finalizeInpMut { P with sanityInput := f } p i = finalizeInpMut P p i ∧
    finalizeInpMallMut { P with sanityInput := f } p i = finalizeInpMallMut P p i := by
  refine ⟨?_, rfl, rfl⟩
  simp only [finalizeMut, finalizeLoop_ignores_sanity]

/-- concrete: `exP` with a check that refuses every input — the deprecated entry point refuses,
`finalize_mut` finalizes input 0 all the same -/
example : (finalizeDeprecated { exP with sanityInput := fun _ => false } exPsbt false).result = .err (.input .sighash 0) ∧
    (finalizeMut { exP with sanityInput := fun _ => false } exPsbt false).psbt.inputs.map Input.isFinal = [true, false] := by
  decide

end MsVerif.C14

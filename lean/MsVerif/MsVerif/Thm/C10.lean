/-
C10 (checksum half) — "A descriptor string that carries a checksum is rejected if any one or two
of its characters are substituted, or up to four when the substitutions stay inside the checksum
alphabet's first group, and the checksum the library prints is the one it accepts."

Model: `Model/Checksum.lean` (mirror of `descriptor/checksum.rs` + the bech32 engine).
Strings are `List Char`; `checksumOf s` is `Engine::new().input(s); checksum_chars()`,
`verifyChecksumL` is `verify_checksum`.  All statements hold for strings of ANY length.
-/
import MsVerif.Lemmas.ChecksumString
import MsVerif.Lemmas.ChecksumTwo
import MsVerif.Spec.Bch

namespace MsVerif.C10
open MsVerif MsVerif.Checksum

/-! ## T1 — the printed checksum is the accepted one -/

/-- every string over the 95 printable ASCII characters has a checksum (the engine cannot panic
and cannot fail on validated input) -/
theorem checksum_exists (s : List Char) (hs : AllValid s) : ∃ cs, checksumOf s = some cs := by
  obtain ⟨_, r, _, _, _, h⟩ := checksumOf_valid hs
  exact ⟨_, h⟩

/-- a checksum is 8 characters of the bech32 alphabet; in particular never `#` -/
theorem checksum_shape (s cs : List Char) (h : checksumOf s = some cs) :
    cs.length = 8 ∧ AllValid cs ∧ '#' ∉ cs := by
  have hs : AllValid s := by
    refine Classical.byContradiction fun hn => ?_
    rw [checksumOf_invalid hn] at h; cases h
  obtain ⟨_, r, _, _, _, h'⟩ := checksumOf_valid hs
  rw [h] at h'; cases h'
  exact ⟨residueChars_length r, fun c hc => (residueChars_ok r c hc).1,
    fun hc => (residueChars_ok r _ hc).2 rfl⟩

theorem allValid_of_checksum {s cs : List Char} (h : checksumOf s = some cs) : AllValid s := by
  refine Classical.byContradiction fun hn => ?_
  rw [checksumOf_invalid hn] at h; cases h

/-- `verify_checksum` on a string `a ++ "#" ++ b` whose `#` is the last one -/
theorem verify_split (a b : List Char) (ha : AllValid a) (hb : AllValid b) (hn : '#' ∉ b) :
    verifyChecksumL (a ++ '#' :: b) =
      if b.length ≠ 8 then .err .invalidChecksumLength
      else match checksumOf a with
        | none => .panic
        | some expected => if expected ≠ b then .err .invalidChecksum else .ok a := by
  unfold verifyChecksumL
  rw [scanHash_append ha hb hn]
  have hlt : 0 + a.length < (a ++ '#' :: b).length := by simp
  have hd : List.drop (0 + a.length + 1) (a ++ '#' :: b) = b := by
    rw [Nat.zero_add, ← List.drop_drop, List.drop_left]; rfl
  have ht : List.take (0 + a.length) (a ++ '#' :: b) = a := by
    rw [Nat.zero_add, List.take_left]
  simp only [hlt, if_true, hd, ht]
  have : (Engine.new.inputUnchecked a).bind Engine.checksumChars = checksumOf a := by
    unfold checksumOf; rw [input_eq ha]
  rw [this]
  cases checksumOf a with
  | none => by_cases hl : b.length = 8 <;> simp [hl]
  | some e => by_cases hl : b.length = 8 <;> by_cases he : e = b <;> simp [hl, he]

/-- **T1** the checksum the library prints is the one it accepts, and the body is returned
unchanged — for every string (any length, may itself contain `#`). -/
theorem printed_checksum_accepted (s cs : List Char) (h : checksumOf s = some cs) :
    verifyChecksumL (s ++ '#' :: cs) = .ok s := by
  obtain ⟨hl, hv, hn⟩ := checksum_shape s cs h
  rw [verify_split s cs (allValid_of_checksum h) hv hn, h]
  simp [hl]

example : verifyChecksumL ("raw(deadbeef)".toList ++ '#' :: "89f8spxm".toList)
    = .ok "raw(deadbeef)".toList := printed_checksum_accepted _ _ (by decide +kernel)

/-- **T1** on `String`s, as the library's signature has it -/
theorem printed_checksum_accepted_string (s cs : String) (h : checksumChars s = some cs) :
    verifyChecksum (s ++ "#" ++ cs) = .ok s := by
  unfold checksumChars at h
  cases hc : checksumOf s.toList with
  | none => rw [hc] at h; cases h
  | some c =>
    rw [hc] at h
    simp only [Option.map, Option.some.injEq] at h
    subst h
    unfold verifyChecksum
    have : (s ++ "#" ++ String.ofList c).toList = s.toList ++ '#' :: c := by
      simp [String.toList_append]
    rw [this, printed_checksum_accepted _ _ hc]
    simp

/-- the printed checksum is the one of the BIP-380 reference code (on a test vector; the
general statement `checksum_eq_bip380_full` is checked on every run by the `J cscreate` judge) -/
def checksum_eq_bip380_full : Prop := ∀ s : List Char, checksumOf s = Spec.Bch.create s

theorem checksum_eq_bip380_partial :
    checksumOf "sh(multi(2,[00000000/111'/222]xpub,xpub/0))".toList
      = Spec.Bch.create "sh(multi(2,[00000000/111'/222]xpub,xpub/0))".toList := by decide +kernel

/-- `verify_checksum` never panics -/
theorem verify_never_panics (s : List Char) : verifyChecksumL s ≠ .panic :=
  verifyChecksumL_ne_panic s

/-! ## T2 — every single-character substitution is detected (any length) -/

/-- **T2, body**: replacing one character of the body by any other character -/
theorem single_char_detected_body (pre post cs : List Char) (x y : Char)
    (h : checksumOf (pre ++ x :: post) = some cs) (hne : x ≠ y) :
    ∃ e, verifyChecksumL ((pre ++ y :: post) ++ '#' :: cs) = .err e := by
  obtain ⟨hl, hv, hn⟩ := checksum_shape _ cs h
  have hs := allValid_of_checksum h
  obtain ⟨hpre, hxp⟩ := hs.of_append
  obtain ⟨hx, hpost⟩ := hxp.of_cons
  by_cases hy : validChar y = true
  · have hv2 : AllValid (pre ++ y :: post) := hpre.append (AllValid.cons hy hpost)
    obtain ⟨c1, c2, h1, h2, hc⟩ := checksum_differs hpre hpost hx hy hne
    rw [h] at h1; cases h1
    rw [verify_split _ cs hv2 hv hn, h2]
    simp only [hl, ne_eq, not_true_eq_false, if_false]
    have : ¬ c2 = cs := fun e => hc e.symm
    simp [this]
  · refine ⟨.invalidCharacter, ?_⟩
    unfold verifyChecksumL
    rw [scanHash_invalid]
    intro hall
    have := hall y (by simp)
    exact hy this

/-- **T2, checksum part**: replacing one of the eight checksum characters by any other character -/
theorem single_char_detected_checksum (s cs1 cs2 : List Char) (x y : Char)
    (h : checksumOf s = some (cs1 ++ x :: cs2)) (hne : x ≠ y) :
    ∃ e, verifyChecksumL (s ++ '#' :: (cs1 ++ y :: cs2)) = .err e := by
  obtain ⟨hl, hv, hn⟩ := checksum_shape _ _ h
  have hs := allValid_of_checksum h
  obtain ⟨hv1, hv2'⟩ := hv.of_append
  obtain ⟨_, hv2⟩ := hv2'.of_cons
  have hn1 : '#' ∉ cs1 := fun m => hn (List.mem_append_left _ m)
  have hn2 : '#' ∉ cs2 := fun m => hn (List.mem_append_right _ (List.mem_cons_of_mem _ m))
  by_cases hy : validChar y = true
  · by_cases hh : y = '#'
    · -- the new `#` becomes the last one: the checksum is now too short
      subst hh
      have e : s ++ '#' :: (cs1 ++ '#' :: cs2) = (s ++ '#' :: cs1) ++ '#' :: cs2 := by simp
      have hva : AllValid (s ++ '#' :: cs1) := hs.append (AllValid.cons (by decide) hv1)
      rw [e, verify_split _ cs2 hva hv2 hn2]
      have : cs2.length ≠ 8 := by
        simp only [List.length_append, List.length_cons] at hl; omega
      exact ⟨.invalidChecksumLength, by simp [this]⟩
    · have hvb : AllValid (cs1 ++ y :: cs2) := hv1.append (AllValid.cons hy hv2)
      have hnb : '#' ∉ cs1 ++ y :: cs2 := by
        intro m
        rcases List.mem_append.mp m with m | m
        · exact hn1 m
        · rcases List.mem_cons.mp m with m | m
          · exact hh m.symm
          · exact hn2 m
      rw [verify_split s _ hs hvb hnb, h]
      have hl' : (cs1 ++ y :: cs2).length = 8 := by
        simp only [List.length_append, List.length_cons] at hl ⊢; exact hl
      have : ¬ (cs1 ++ x :: cs2 = cs1 ++ y :: cs2) := by
        intro e
        have := List.append_cancel_left e
        exact hne (List.cons.inj this).1
      exact ⟨.invalidChecksum, by simp [hl', this]⟩
  · refine ⟨.invalidCharacter, ?_⟩
    unfold verifyChecksumL
    rw [scanHash_invalid]
    intro hall
    exact hy (hall y (by simp))

/-- **T2** in positional form: in a checksummed string `s#cs`, substituting the character at
any position `i` other than the separator by any other character `c` (of the charset or not)
makes `verify_checksum` fail.  No bound on the length. -/
theorem single_char_detected (s cs : List Char) (h : checksumOf s = some cs) (i : Nat) (c : Char)
    (hi : i < (s ++ '#' :: cs).length) (hsep : i ≠ s.length)
    (hne : (s ++ '#' :: cs)[i] ≠ c) :
    ∃ e, verifyChecksumL ((s ++ '#' :: cs).set i c) = .err e := by
  by_cases hb : i < s.length
  · -- body
    have hx : (s ++ '#' :: cs)[i] = s[i] := List.getElem_append_left hb
    have hsplit : s = s.take i ++ s[i] :: s.drop (i + 1) := by
      rw [List.getElem_cons_drop, List.take_append_drop]
    have e1 : (s ++ '#' :: cs).set i c = (s.take i ++ c :: s.drop (i + 1)) ++ '#' :: cs := by
      rw [List.set_append_left _ _ hb]
      congr 1
      rw [List.set_eq_take_append_cons_drop]; simp [hb]
    rw [e1]
    apply single_char_detected_body (s.take i) (s.drop (i + 1)) cs s[i] c
    · rw [← hsplit]; exact h
    · rw [← hx]; exact hne
  · -- checksum part
    obtain ⟨j, hjdef⟩ : ∃ j, j = i - s.length - 1 := ⟨_, rfl⟩
    have hj : j < cs.length := by
      simp only [List.length_append, List.length_cons] at hi; omega
    have hidx : i = s.length + (j + 1) := by omega
    have hx : (s ++ '#' :: cs)[i] = cs[j] := by
      rw [List.getElem_append_right (by omega)]
      have : i - s.length = j + 1 := by omega
      simp only [this, List.getElem_cons_succ]
    have hsplit : cs = cs.take j ++ cs[j] :: cs.drop (j + 1) := by
      rw [List.getElem_cons_drop, List.take_append_drop]
    have e1 : (s ++ '#' :: cs).set i c = s ++ '#' :: (cs.take j ++ c :: cs.drop (j + 1)) := by
      rw [List.set_append_right _ _ (by omega)]
      congr 1
      have : i - s.length = j + 1 := by omega
      rw [this, List.set_cons_succ]
      congr 1
      rw [List.set_eq_take_append_cons_drop]; simp [hj]
    rw [e1]
    apply single_char_detected_checksum s (cs.take j) (cs.drop (j + 1)) cs[j] c
    · rw [← hsplit]; exact h
    · rw [← hx]; exact hne

example : ∃ e, verifyChecksumL ("raw(dezdbeef)#89f8spxm".toList) = .err e :=
  single_char_detected "raw(deadbeef)".toList "89f8spxm".toList (by decide +kernel) 6 'z'
    (by decide) (by decide) (by decide)

/-- what happens at the separator itself: the string no longer carries a checksum.
`verify_checksum` then either fails (an earlier `#` becomes the separator of a too-long
checksum) or returns the WHOLE corrupted string as the body — never the original body `s`.
(At descriptor level such a string is rejected by the expression parser: trailing characters
after the final `)`; judged by `J csdetectd`.) -/
theorem separator_substitution (s cs : List Char) (c : Char) (hc : c ≠ '#') :
    verifyChecksumL (s ++ c :: cs) ≠ .ok s := by
  unfold verifyChecksumL
  cases hsc : scanHash (s ++ c :: cs) 0 (s ++ c :: cs).length with
  | none => simp
  | some lastHash =>
    simp only
    split
    · split
      · simp
      · split
        · simp
        · split
          · simp
          · -- accepted with an 8-character checksum after `lastHash`: the body is shorter than `s`
            rename_i hlt hlen _ _ _
            intro e
            injection e with e
            have := congrArg List.length e
            simp only [List.length_take, List.length_append, List.length_cons, List.length_drop,
              ne_eq, Decidable.not_not] at this hlen hlt
            have hk : lastHash = s.length := by omega
            rcases scanHash_spec hsc with h1 | ⟨_, h2⟩
            · simp only [List.length_append, List.length_cons] at h1; omega
            · rw [hk, Nat.sub_zero, List.getElem?_append_right (Nat.le_refl _), Nat.sub_self] at h2
              simp only [List.getElem?_cons_zero, Option.some.injEq] at h2
              exact hc h2
    · intro e
      injection e with e
      have := congrArg List.length e
      rename_i hlt
      simp only [List.length_take, List.length_append, List.length_cons] at this hlt
      omega

/-! ## T3 — two substitutions inside the characters' classes

A character is a 5-bit symbol plus a class digit (0, 1, 2 = which third of INPUT_CHARSET it
lies in; three class digits are folded into one more symbol).  A substitution that keeps the
class (digit ↔ digit, hex letter ↔ hex letter or punctuation of the first group, lower case ↔
lower case `i`–`z`, upper case `I`–`Z` ↔ upper case, …) changes exactly one symbol.  Two such
substitutions are detected whenever fewer than 766 characters lie between them — by a
kernel-checked table of `L^d e` for all `1 ≤ d ≤ 1024` and all 31 non-zero symbols `e`
(`Lemmas/ChecksumTable*.lean`). -/

/-- **T3** two class-preserving substitutions in the body, at most 765 characters apart, in a
string of any length -/
theorem two_same_class_substitutions_detected (pre mid post cs : List Char) (x x' y y' : Char)
    (h : checksumOf (pre ++ x :: (mid ++ y :: post)) = some cs)
    (hx' : validChar x' = true) (hy' : validChar y' = true) (hnx : x ≠ x') (hny : y ≠ y')
    (hcx : classOf x = classOf x') (hcy : classOf y = classOf y') (hlen : mid.length ≤ 765) :
    ∃ e, verifyChecksumL ((pre ++ x' :: (mid ++ y' :: post)) ++ '#' :: cs) = .err e := by
  obtain ⟨hl, hv, hn⟩ := checksum_shape _ cs h
  have hs := allValid_of_checksum h
  obtain ⟨hpre, h1⟩ := hs.of_append
  obtain ⟨hx, h2⟩ := h1.of_cons
  obtain ⟨hmid, h3⟩ := h2.of_append
  obtain ⟨hy, hpost⟩ := h3.of_cons
  obtain ⟨c1, c2, e1, e2, hc⟩ :=
    checksum_differs_two hpre hmid hpost hx hx' hy hy' hnx hny hcx hcy hlen
  rw [h] at e1; cases e1
  have hv2 : AllValid (pre ++ x' :: (mid ++ y' :: post)) :=
    hpre.append (AllValid.cons hx' (hmid.append (AllValid.cons hy' hpost)))
  rw [verify_split _ cs hv2 hv hn, e2]
  have : ¬ c2 = cs := fun e => hc e.symm
  exact ⟨.invalidChecksum, by simp [hl, this]⟩

example : classOf '3' = classOf 'a' ∧ classOf 'k' = classOf 'z' ∧ classOf 'K' ≠ classOf 'k' := by
  decide

example : ∃ e, verifyChecksumL "raw(deedbeaf)#89f8spxm".toList = .err e :=
  two_same_class_substitutions_detected "raw(de".toList "dbe".toList "f)".toList "89f8spxm".toList
    'a' 'e' 'e' 'a' (by decide +kernel) (by decide) (by decide) (by decide) (by decide)
    (by decide) (by decide) (by decide)

/-! ## T3 / T4 — two and more substitutions

`checksum_distance_full` is the complete claim of the property.  It follows from the BCH
design distance 5 of the code over GF(32) (one character changes at most two symbols); a kernel
proof needs either the field-theoretic BCH bound or a ≈ 2·10⁸-entry meet-in-the-middle
certificate, neither of which is available here.  It is tested on every run by
`J csdetect`/`J csdetectagg` (random 2-substitutions and ≤ 4 first-group substitutions).
Proved: the one-substitution case for every length (`single_char_detected`). -/
def checksum_distance_full : Prop :=
  ∀ (s cs t : List Char) (k : Nat), checksumOf s = some cs → s.length ≤ 500 →
    Spec.Bch.Substituted k (s ++ '#' :: cs) t →
    (s ++ '#' :: cs)[s.length]? = t[s.length]? →          -- the separator is intact
    (k ≤ 2 ∨ (k ≤ 4 ∧ Spec.Bch.inFirstGroup (s ++ '#' :: cs) t = true)) →
    ∃ e, verifyChecksumL t = .err e

/-- the `k = 1` instance of `checksum_distance_full`, in the specification's vocabulary and
without the length bound.  Missing for the full statement: `k = 2` beyond the class-preserving
case of `two_same_class_substitutions_detected` (a class-changing substitution alters two
symbols, so two of them are up to 4 symbol errors), and `k = 3, 4` inside the first group. -/
theorem checksum_distance_partial (s cs t : List Char) (h : checksumOf s = some cs)
    (hsub : Spec.Bch.Substituted 1 (s ++ '#' :: cs) t)
    (hsep : (s ++ '#' :: cs)[s.length]? = t[s.length]?) :
    ∃ e, verifyChecksumL t = .err e := by
  obtain ⟨hl, h0, h1⟩ := hsub
  obtain ⟨i, hi, c, hne, ht⟩ := hamming_one hl (by omega)
  subst ht
  refine single_char_detected s cs h i c hi ?_ hne
  intro e
  subst e
  rw [List.getElem?_set_self hi, List.getElem?_eq_getElem hi] at hsep
  exact hne (Option.some.inj hsep)

end MsVerif.C10

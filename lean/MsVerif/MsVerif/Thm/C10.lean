/-
C10 (checksum half) — "A descriptor string that carries a checksum is rejected if any one or two
of its characters are substituted, or up to four when the substitutions stay inside the checksum
alphabet's first group, and the checksum the library prints is the one it accepts."

Model: `Model/Checksum.lean` (mirror of `descriptor/checksum.rs` + the bech32 engine).
Strings are `List Char`; `checksumOf s` is `Engine::new().input(s); checksum_chars()`,
`verifyChecksumL` is `verify_checksum`.  All statements hold for strings of ANY length.
-/
import MsVerif.Lemmas.ChecksumString
import MsVerif.Lemmas.ChecksumRun
import MsVerif.Lemmas.ChecksumBip380
import MsVerif.Lemmas.ChecksumTripleRun
import MsVerif.Spec.Bch

namespace MsVerif.C10
open MsVerif MsVerif.Checksum

/-! ## T1 — the printed checksum is the accepted one -/

/-- every string over the 95 printable ASCII characters has a checksum (the engine cannot panic
and cannot fail on validated input) -/
theorem checksum_exists (s : List Char) (hs : AllValid s) : ∃ cs, checksumOf s = some cs := by
  obtain ⟨_, r, _, _, _, h⟩ := checksumOf_valid hs
  exact ⟨_, h⟩

/-- a checksum is 8 characters of the bech32 alphabet; in particular never `#` -/
theorem checksum_shape (s cs : List Char) (h : checksumOf s = some cs) :
    cs.length = 8 ∧ AllValid cs ∧ '#' ∉ cs := by
  have hs : AllValid s := by
    refine Classical.byContradiction fun hn => ?_
    rw [checksumOf_invalid hn] at h; cases h
  obtain ⟨_, r, _, _, _, h'⟩ := checksumOf_valid hs
  rw [h] at h'; cases h'
  exact ⟨residueChars_length r, fun c hc => (residueChars_ok r c hc).1,
    fun hc => (residueChars_ok r _ hc).2 rfl⟩

theorem allValid_of_checksum {s cs : List Char} (h : checksumOf s = some cs) : AllValid s := by
  refine Classical.byContradiction fun hn => ?_
  rw [checksumOf_invalid hn] at h; cases h

/-- `verify_checksum` on a string `a ++ "#" ++ b` whose `#` is the last one -/
theorem verify_split (a b : List Char) (ha : AllValid a) (hb : AllValid b) (hn : '#' ∉ b) :
    verifyChecksumL (a ++ '#' :: b) =
      if b.length ≠ 8 then .err .invalidChecksumLength
      else match checksumOf a with
        | none => .panic
        | some expected => if expected ≠ b then .err .invalidChecksum else .ok a := by
  unfold verifyChecksumL
  rw [scanHash_append ha hb hn]
  have hlt : 0 + a.length < (a ++ '#' :: b).length := by simp
  have hd : List.drop (0 + a.length + 1) (a ++ '#' :: b) = b := by
    rw [Nat.zero_add, ← List.drop_drop, List.drop_left]; rfl
  have ht : List.take (0 + a.length) (a ++ '#' :: b) = a := by
    rw [Nat.zero_add, List.take_left]
  simp only [hlt, if_true, hd, ht]
  have : (Engine.new.inputUnchecked a).bind Engine.checksumChars = checksumOf a := by
    unfold checksumOf; rw [input_eq ha]
  rw [this]
  cases checksumOf a with
  | none => by_cases hl : b.length = 8 <;> simp [hl]
  | some e => by_cases hl : b.length = 8 <;> by_cases he : e = b <;> simp [hl, he]

/-- **T1** the checksum the library prints is the one it accepts, and the body is returned
unchanged — for every string (any length, may itself contain `#`). -/
theorem printed_checksum_accepted (s cs : List Char) (h : checksumOf s = some cs) :
    verifyChecksumL (s ++ '#' :: cs) = .ok s := by
  obtain ⟨hl, hv, hn⟩ := checksum_shape s cs h
  rw [verify_split s cs (allValid_of_checksum h) hv hn, h]
  simp [hl]

example : verifyChecksumL ("raw(deadbeef)".toList ++ '#' :: "89f8spxm".toList)
    = .ok "raw(deadbeef)".toList := printed_checksum_accepted _ _ (by decide +kernel)

/-- **T1** on `String`s, as the library's signature has it -/
theorem printed_checksum_accepted_string (s cs : String) (h : checksumChars s = some cs) :
    verifyChecksum (s ++ "#" ++ cs) = .ok s := by
  unfold checksumChars at h
  cases hc : checksumOf s.toList with
  | none => rw [hc] at h; cases h
  | some c =>
    rw [hc] at h
    simp only [Option.map, Option.some.injEq] at h
    subst h
    unfold verifyChecksum
    have : (s ++ "#" ++ String.ofList c).toList = s.toList ++ '#' :: c := by
      simp [String.toList_append]
    rw [this, printed_checksum_accepted _ _ hc]
    simp

/-- **the checksum the library prints is the BIP-380 checksum**: the model of the Rust engine
(`Engine::input` + `checksum_chars`, class folding, bech32 polymod with the five generator
constants) and the BIP's reference algorithm transcribed independently in `Spec/Bch.lean`
(`descsum_expand`, `descsum_polymod`, `descsum_create`, plain `Nat` arithmetic) agree on EVERY
string — valid or not (both `none` on a character outside the charset), of any length. -/
theorem checksum_eq_bip380 (s : List Char) : checksumOf s = Spec.Bch.create s :=
  checksumOf_eq_create s

/-! the test vectors of BIP-380 ("Checksum and character set") and of Bitcoin Core that the
repository carries (`descriptor/checksum.rs` tests), evaluated by the kernel on the MODEL -/
example : verifyChecksumL "raw(deadbeef)#89f8spxm".toList = .ok "raw(deadbeef)".toList := by
  decide +kernel
example : verifyChecksumL "raw(deadbeef)".toList = .ok "raw(deadbeef)".toList := by decide +kernel
example : verifyChecksumL "raw(deadbeef)#".toList = .err .invalidChecksumLength := by
  decide +kernel                                                       -- missing checksum
example : verifyChecksumL "raw(deadbeef)#89f8spxmx".toList = .err .invalidChecksumLength := by
  decide +kernel                                                       -- too long
example : verifyChecksumL "raw(deadbeef)#89f8spx".toList = .err .invalidChecksumLength := by
  decide +kernel                                                       -- too short
example : verifyChecksumL "raw(dedbeef)#89f8spxm".toList = .err .invalidChecksum := by
  decide +kernel                                                       -- error in payload
example : verifyChecksumL "raw(deadbeef)##9f8spxm".toList = .err .invalidChecksumLength := by
  decide +kernel                                                       -- error in checksum
example : verifyChecksumL "raw(Ü)#00000000".toList = .err .invalidCharacter := by
  decide +kernel                                                       -- invalid character
example : checksumOf "wpkh(tprv8ZgxMBicQKsPdpkqS7Eair4YxjcuuvDPNYmKX3sCniCf16tHEVrjjiSXEkFRnUH77yXc6ZcwHHcLNfjdi5qUvw3VDfgYiH5mNsj5izuiu2N/1/2/*)".toList
    = some "tqz0nc62".toList := by decide +kernel
example : checksumOf "pkh(tpubD6NzVbkrYhZ4XHndKkuB8FifXm8r5FQHwrN6oZuWCz13qb93rtgKvD4PQsqC4HP4yhV3tA2fqr2RbY5mNXfM7RxXUoeABoDtsFUq2zJq6YK/44'/1'/0'/0/*)".toList
    = some "lasegmfs".toList := by decide +kernel
example : checksumOf "sh(multi(2,[00000000/111'/222]xprvA1RpRA33e1JQ7ifknakTFpgNXPmW2YvmhqLQYMmrj4xJXXWYpDPS3xz7iAxn8L39njGVyuoseXzU6rcxFLJ8HFsTjSyQbLYnMpCqE2VbFWc,xprv9uPDJpEQgRQfDcW7BkF7eTya6RPxXeJCqCJGHuCJ4GiRVLzkTXBAJMu2qaMWPrS7AANYqdq6vcBcBUdJCVVFceUvJFjaPdGZ2y9WACViL4L/0))".toList
    = some "ggrsrxfy".toList := by decide +kernel
example : checksumOf "sh(multi(2,[00000000/111'/222]xpub6ERApfZwUNrhLCkDtcHTcxd75RbzS1ed54G1LkBUHQVHQKqhMkhgbmJbZRkrgZw4koxb5JaHWkY4ALHY2grBGRjaDMzQLcgJvLJuZZvRcEL,xpub68NZiKmJWnxxS6aaHmn81bvJeTESw724CRDs6HbuccFQN9Ku14VQrADWgqbhhTHBaohPX4CjNLf9fq9MYo6oDaPPLPxSb7gwQN3ih19Zm4Y/0))".toList
    = some "tjg09x5t".toList := by decide +kernel
example : Spec.Bch.check "raw(deadbeef)#89f8spxm".toList = true := by decide +kernel

/-- `verify_checksum` never panics -/
theorem verify_never_panics (s : List Char) : verifyChecksumL s ≠ .panic :=
  verifyChecksumL_ne_panic s

/-! ## T2 — every single-character substitution is detected (any length) -/

/-- **T2, body**: replacing one character of the body by any other character -/
theorem single_char_detected_body (pre post cs : List Char) (x y : Char)
    (h : checksumOf (pre ++ x :: post) = some cs) (hne : x ≠ y) :
    ∃ e, verifyChecksumL ((pre ++ y :: post) ++ '#' :: cs) = .err e := by
  obtain ⟨hl, hv, hn⟩ := checksum_shape _ cs h
  have hs := allValid_of_checksum h
  obtain ⟨hpre, hxp⟩ := hs.of_append
  obtain ⟨hx, hpost⟩ := hxp.of_cons
  by_cases hy : validChar y = true
  · have hv2 : AllValid (pre ++ y :: post) := hpre.append (AllValid.cons hy hpost)
    obtain ⟨c1, c2, h1, h2, hc⟩ := checksum_differs hpre hpost hx hy hne
    rw [h] at h1; cases h1
    rw [verify_split _ cs hv2 hv hn, h2]
    simp only [hl, ne_eq, not_true_eq_false, if_false]
    have : ¬ c2 = cs := fun e => hc e.symm
    simp [this]
  · refine ⟨.invalidCharacter, ?_⟩
    unfold verifyChecksumL
    rw [scanHash_invalid]
    intro hall
    have := hall y (by simp)
    exact hy this

/-- **T2, checksum part**: replacing one of the eight checksum characters by any other character -/
theorem single_char_detected_checksum (s cs1 cs2 : List Char) (x y : Char)
    (h : checksumOf s = some (cs1 ++ x :: cs2)) (hne : x ≠ y) :
    ∃ e, verifyChecksumL (s ++ '#' :: (cs1 ++ y :: cs2)) = .err e := by
  obtain ⟨hl, hv, hn⟩ := checksum_shape _ _ h
  have hs := allValid_of_checksum h
  obtain ⟨hv1, hv2'⟩ := hv.of_append
  obtain ⟨_, hv2⟩ := hv2'.of_cons
  have hn1 : '#' ∉ cs1 := fun m => hn (List.mem_append_left _ m)
  have hn2 : '#' ∉ cs2 := fun m => hn (List.mem_append_right _ (List.mem_cons_of_mem _ m))
  by_cases hy : validChar y = true
  · by_cases hh : y = '#'
    · -- the new `#` becomes the last one: the checksum is now too short
      subst hh
      have e : s ++ '#' :: (cs1 ++ '#' :: cs2) = (s ++ '#' :: cs1) ++ '#' :: cs2 := by simp
      have hva : AllValid (s ++ '#' :: cs1) := hs.append (AllValid.cons (by decide) hv1)
      rw [e, verify_split _ cs2 hva hv2 hn2]
      have : cs2.length ≠ 8 := by
        simp only [List.length_append, List.length_cons] at hl; omega
      exact ⟨.invalidChecksumLength, by simp [this]⟩
    · have hvb : AllValid (cs1 ++ y :: cs2) := hv1.append (AllValid.cons hy hv2)
      have hnb : '#' ∉ cs1 ++ y :: cs2 := by
        intro m
        rcases List.mem_append.mp m with m | m
        · exact hn1 m
        · rcases List.mem_cons.mp m with m | m
          · exact hh m.symm
          · exact hn2 m
      rw [verify_split s _ hs hvb hnb, h]
      have hl' : (cs1 ++ y :: cs2).length = 8 := by
        simp only [List.length_append, List.length_cons] at hl ⊢; exact hl
      have : ¬ (cs1 ++ x :: cs2 = cs1 ++ y :: cs2) := by
        intro e
        have := List.append_cancel_left e
        exact hne (List.cons.inj this).1
      exact ⟨.invalidChecksum, by simp [hl', this]⟩
  · refine ⟨.invalidCharacter, ?_⟩
    unfold verifyChecksumL
    rw [scanHash_invalid]
    intro hall
    exact hy (hall y (by simp))

/-- **T2** in positional form: in a checksummed string `s#cs`, substituting the character at
any position `i` other than the separator by any other character `c` (of the charset or not)
makes `verify_checksum` fail.  No bound on the length. -/
theorem single_char_detected (s cs : List Char) (h : checksumOf s = some cs) (i : Nat) (c : Char)
    (hi : i < (s ++ '#' :: cs).length) (hsep : i ≠ s.length)
    (hne : (s ++ '#' :: cs)[i] ≠ c) :
    ∃ e, verifyChecksumL ((s ++ '#' :: cs).set i c) = .err e := by
  by_cases hb : i < s.length
  · -- body
    have hx : (s ++ '#' :: cs)[i] = s[i] := List.getElem_append_left hb
    have hsplit : s = s.take i ++ s[i] :: s.drop (i + 1) := by
      rw [List.getElem_cons_drop, List.take_append_drop]
    have e1 : (s ++ '#' :: cs).set i c = (s.take i ++ c :: s.drop (i + 1)) ++ '#' :: cs := by
      rw [List.set_append_left _ _ hb]
      congr 1
      rw [List.set_eq_take_append_cons_drop]; simp [hb]
    rw [e1]
    apply single_char_detected_body (s.take i) (s.drop (i + 1)) cs s[i] c
    · rw [← hsplit]; exact h
    · rw [← hx]; exact hne
  · -- checksum part
    obtain ⟨j, hjdef⟩ : ∃ j, j = i - s.length - 1 := ⟨_, rfl⟩
    have hj : j < cs.length := by
      simp only [List.length_append, List.length_cons] at hi; omega
    have hidx : i = s.length + (j + 1) := by omega
    have hx : (s ++ '#' :: cs)[i] = cs[j] := by
      rw [List.getElem_append_right (by omega)]
      have : i - s.length = j + 1 := by omega
      simp only [this, List.getElem_cons_succ]
    have hsplit : cs = cs.take j ++ cs[j] :: cs.drop (j + 1) := by
      rw [List.getElem_cons_drop, List.take_append_drop]
    have e1 : (s ++ '#' :: cs).set i c = s ++ '#' :: (cs.take j ++ c :: cs.drop (j + 1)) := by
      rw [List.set_append_right _ _ (by omega)]
      congr 1
      have : i - s.length = j + 1 := by omega
      rw [this, List.set_cons_succ]
      congr 1
      rw [List.set_eq_take_append_cons_drop]; simp [hj]
    rw [e1]
    apply single_char_detected_checksum s (cs.take j) (cs.drop (j + 1)) cs[j] c
    · rw [← hsplit]; exact h
    · rw [← hx]; exact hne

example : ∃ e, verifyChecksumL ("raw(dezdbeef)#89f8spxm".toList) = .err e :=
  single_char_detected "raw(deadbeef)".toList "89f8spxm".toList (by decide +kernel) 6 'z'
    (by decide) (by decide) (by decide)

/-- what happens at the separator itself: the string no longer carries a checksum.
`verify_checksum` then either fails (an earlier `#` becomes the separator of a too-long
checksum) or returns the WHOLE corrupted string as the body — never the original body `s`.
(At descriptor level such a string is rejected by the expression parser: trailing characters
after the final `)`; judged by `J csdetectd`.) -/
theorem separator_substitution (s cs : List Char) (c : Char) (hc : c ≠ '#') :
    verifyChecksumL (s ++ c :: cs) ≠ .ok s := by
  unfold verifyChecksumL
  cases hsc : scanHash (s ++ c :: cs) 0 (s ++ c :: cs).length with
  | none => simp
  | some lastHash =>
    simp only
    split
    · split
      · simp
      · split
        · simp
        · split
          · simp
          · -- accepted with an 8-character checksum after `lastHash`: the body is shorter than `s`
            rename_i hlt hlen _ _ _
            intro e
            injection e with e
            have := congrArg List.length e
            simp only [List.length_take, List.length_append, List.length_cons, List.length_drop,
              ne_eq, Decidable.not_not] at this hlen hlt
            have hk : lastHash = s.length := by omega
            rcases scanHash_spec hsc with h1 | ⟨_, h2⟩
            · simp only [List.length_append, List.length_cons] at h1; omega
            · rw [hk, Nat.sub_zero, List.getElem?_append_right (Nat.le_refl _), Nat.sub_self] at h2
              simp only [List.getElem?_cons_zero, Option.some.injEq] at h2
              exact hc h2
    · intro e
      injection e with e
      have := congrArg List.length e
      rename_i hlt
      simp only [List.length_take, List.length_append, List.length_cons] at this hlt
      omega

/-! ## T3 — every two-character substitution is detected

A character is a 5-bit symbol plus a class digit (which third of INPUT_CHARSET it lies in; three
class digits are folded into one more symbol), so one substituted character alters up to two
symbols — its low symbol and the class symbol 1–3 places later — and two substituted characters
up to four.  The polymod step is XOR-linear, so whether the checksum changes depends only on the
error pattern, not on the string.  Two engines are run in lock-step over the two strings
(`Lemmas/ChecksumAuto.lean`): if both substitutions fall into the same group of three the
difference of the residues stays a non-zero value below 2^20 and can never vanish (`L` is
injective); otherwise the first pattern `X`, moved on by the distance `g` between the two class
symbols, must differ from the second pattern `Y`: `L^g X ≠ Y` for ALL patterns and all
`1 ≤ g ≤ 1040` is a kernel-checked table (`Lemmas/ChecksumPair*.lean`: for each `g` and each pair
of offsets a GF(2) rank computation on ten 40-bit vectors, by a verified Gaussian elimination).
The same table covers one substituted body character plus one substituted checksum character.

Length bounds: what the kernel-checked table (1040 symbol distances) supports.  The underlying
mathematical fact holds up to distance 32 763 (≈ 24 500 characters; a direct computation, not
part of the proof), i.e. far beyond the ≈ 500 characters of the property's statement. -/

/-- **T3, body**: two substituted characters in the body — any characters, any classes, any
positions at most 777 characters apart, in a string of ANY length -/
theorem two_substitutions_detected_body (pre mid post cs : List Char) (x x' y y' : Char)
    (h : checksumOf (pre ++ x :: (mid ++ y :: post)) = some cs)
    (hnx : x ≠ x') (hny : y ≠ y') (hlen : mid.length + mid.length / 3 + 4 ≤ 1040) :
    ∃ e, verifyChecksumL ((pre ++ x' :: (mid ++ y' :: post)) ++ '#' :: cs) = .err e := by
  obtain ⟨hl, hv, hn⟩ := checksum_shape _ cs h
  have hs := allValid_of_checksum h
  obtain ⟨hpre, h1⟩ := hs.of_append
  obtain ⟨hx, h2⟩ := h1.of_cons
  obtain ⟨hmid, h3⟩ := h2.of_append
  obtain ⟨hy, hpost⟩ := h3.of_cons
  by_cases hx' : validChar x' = true
  · by_cases hy' : validChar y' = true
    · -- run the two engines: common prefix, x/x', mid, y/y', post
      obtain ⟨en, he, w⟩ := inputUnchecked_valid WF_new hpre
      obtain ⟨p, hp, hpl⟩ := pos_of_valid x hx
      obtain ⟨p', hp', hpl'⟩ := pos_of_valid x' hx'
      obtain ⟨q, hq, hql⟩ := pos_of_valid y hy
      obtain ⟨q', hq', hql'⟩ := pos_of_valid y' hy'
      have hpp : p ≠ p' := by intro e; apply hnx; apply pos_inj hx hx'; rw [hp, hp', e]
      have hqq : q ≠ q' := by intro e; apply hny; apply pos_inj hy hy'; rw [hq, hq', e]
      obtain ⟨a1, b1, ha1, hb1, o1⟩ := one_list (zero_diff w hpl hpl' hpp) hmid
      rw [Nat.zero_add] at o1
      have t2 := one_diff o1 hql hql' hqq hlen
      obtain ⟨a2, b2, ha2, hb2, t3⟩ := two_list t2 hpost
      obtain ⟨ra, rb, hra, hrb, hne⟩ := two_final t3
      have v2 : AllValid (pre ++ x' :: (mid ++ y' :: post)) :=
        hpre.append (AllValid.cons hx' (hmid.append (AllValid.cons hy' hpost)))
      have r1 : Engine.new.inputUnchecked (pre ++ x :: (mid ++ y :: post)) = some a2 := by
        rw [inputUnchecked_append, he]
        simp only [Option.bind, Engine.inputUnchecked, inputByte_eq w hp hpl]
        rw [inputUnchecked_append, ha1]
        simp only [Option.bind, Engine.inputUnchecked, inputByte_eq o1.wf.1 hq hql]; exact ha2
      have r2 : Engine.new.inputUnchecked (pre ++ x' :: (mid ++ y' :: post)) = some b2 := by
        rw [inputUnchecked_append, he]
        simp only [Option.bind, Engine.inputUnchecked, inputByte_eq w hp' hpl']
        rw [inputUnchecked_append, hb1]
        simp only [Option.bind, Engine.inputUnchecked, inputByte_eq o1.wf.2 hq' hql']; exact hb2
      have c1 := checksumOf_of_run hs r1 hra
      have c2 := checksumOf_of_run v2 r2 hrb
      rw [h] at c1
      rw [verify_split _ cs v2 hv hn, c2]
      have : ¬ residueChars rb = cs := by
        intro e; rw [Option.some.inj c1] at e; exact hne (residueChars_inj e).symm
      exact ⟨.invalidChecksum, by simp [hl, this]⟩
    · refine ⟨.invalidCharacter, ?_⟩
      unfold verifyChecksumL
      rw [scanHash_invalid]
      intro hall; exact hy' (hall y' (by simp))
  · refine ⟨.invalidCharacter, ?_⟩
    unfold verifyChecksumL
    rw [scanHash_invalid]
    intro hall; exact hx' (hall x' (by simp))

/-- a class-changing and a class-preserving substitution 11 characters apart -/
example : ∃ e, verifyChecksumL "rAw(deadbeef]#89f8spxm".toList = .err e :=
  two_substitutions_detected_body "r".toList "w(deadbeef".toList [] "89f8spxm".toList
    'a' 'A' ')' ']' (by decide +kernel) (by decide) (by decide) (by decide)

/-- corrupted strings `t1 ++ "#" ++ t2` (separator intact) are rejected as soon as the corrupted
checksum is not the checksum of the corrupted body -/
theorem rejected_of_mismatch (t1 t2 : List Char) (hl2 : t2.length = 8)
    (key : AllValid t1 → checksumOf t1 ≠ some t2) :
    ∃ e, verifyChecksumL (t1 ++ '#' :: t2) = .err e := by
  by_cases hv : AllValid (t1 ++ '#' :: t2)
  · obtain ⟨hv1, hv2'⟩ := hv.of_append
    obtain ⟨_, hv2⟩ := hv2'.of_cons
    by_cases hin : '#' ∈ t2
    · obtain ⟨u, v, e, hnv⟩ := last_hash_split hin
      subst e
      obtain ⟨hvu, hvv'⟩ := hv2.of_append
      obtain ⟨_, hvv⟩ := hvv'.of_cons
      have e2 : t1 ++ '#' :: (u ++ '#' :: v) = (t1 ++ '#' :: u) ++ '#' :: v := by simp
      rw [e2, verify_split _ v (hv1.append (AllValid.cons (by decide) hvu)) hvv hnv]
      have : v.length ≠ 8 := by
        simp only [List.length_append, List.length_cons] at hl2; omega
      exact ⟨.invalidChecksumLength, by simp [this]⟩
    · rw [verify_split t1 t2 hv1 hv2 hin]
      obtain ⟨c, hc⟩ := checksum_exists t1 hv1
      rw [hc]
      have : ¬ c = t2 := fun e => key hv1 (by rw [hc, e])
      exact ⟨.invalidChecksum, by simp [hl2, this]⟩
  · exact ⟨.invalidCharacter, by unfold verifyChecksumL; rw [scanHash_invalid hv]⟩

/-! ## three class-preserving substitutions

A substitution that keeps the character's class (in particular every substitution inside the
first group: digits, `a`–`h`, descriptor punctuation) changes exactly one 5-bit symbol.  The
polymod step is GF(32)-linear (`Lemmas/ChecksumGF32.lean`: the generator constants are the
multiples `2^i·GEN[0]` in GF(2)[x]/(x⁵+x³+1)), so a code word of weight 3,
`e₁·x^d₁ + e₂·x^d₂ = e₃`, would make the upper seven symbols of `x^d₁ mod g` and `x^d₂ mod g`
proportional; a kernel-computed table of their projective normal forms for `d = 1 … 1040`
(`Lemmas/ChecksumTriple*.lean`) shows them pairwise distinct. -/

/-- **three class-preserving substitutions in the body**, the outer two at most 772 characters
apart, in a string of any length.  `_partial`: what is missing for the in-group clause of the
property (`checksum_distance_full`, k = 3) is the case where one or two of the three substituted
characters lie in the checksum part, and the translation into the `Substituted` vocabulary;
four substitutions (k = 4) are not covered at all. -/
theorem three_class_preserving_substitutions_detected_partial
    (pre m1 m2 post cs : List Char) (x x' y y' z z' : Char)
    (h : checksumOf (pre ++ x :: (m1 ++ y :: (m2 ++ z :: post))) = some cs)
    (hx' : validChar x' = true) (hy' : validChar y' = true) (hz' : validChar z' = true)
    (hnx : x ≠ x') (hny : y ≠ y') (hnz : z ≠ z')
    (hcx : classOf x = classOf x') (hcy : classOf y = classOf y') (hcz : classOf z = classOf z')
    (hlen : m1.length + m2.length ≤ 770) :
    ∃ e, verifyChecksumL ((pre ++ x' :: (m1 ++ y' :: (m2 ++ z' :: post))) ++ '#' :: cs) = .err e := by
  obtain ⟨hl, hv, hn⟩ := checksum_shape _ cs h
  have hs := allValid_of_checksum h
  obtain ⟨hpre, h1⟩ := hs.of_append
  obtain ⟨hx, h2⟩ := h1.of_cons
  obtain ⟨hm1, h3⟩ := h2.of_append
  obtain ⟨hy, h4⟩ := h3.of_cons
  obtain ⟨hm2, h5⟩ := h4.of_append
  obtain ⟨hz, hpost⟩ := h5.of_cons
  obtain ⟨c1, c2, e1, e2, hc⟩ := checksum_differs_three hpre hm1 hm2 hpost hx hx' hy hy' hz hz'
    hnx hny hnz hcx hcy hcz hlen
  rw [h] at e1; cases e1
  have hv2 : AllValid (pre ++ x' :: (m1 ++ y' :: (m2 ++ z' :: post))) :=
    hpre.append (AllValid.cons hx' (hm1.append (AllValid.cons hy' (hm2.append (AllValid.cons hz' hpost)))))
  rw [verify_split _ cs hv2 hv hn, e2]
  have : ¬ c2 = cs := fun e => hc e.symm
  exact ⟨.invalidChecksum, by simp [hl, this]⟩

/-- three hexadecimal digits mistyped -/
example : ∃ e, verifyChecksumL "raw(d3a7bee0)#89f8spxm".toList = .err e :=
  three_class_preserving_substitutions_detected_partial "raw(d".toList "a".toList "bee".toList
    ")".toList "89f8spxm".toList 'e' '3' 'd' '7' 'f' '0' (by decide +kernel) (by decide) (by decide)
    (by decide) (by decide) (by decide) (by decide) (by decide +kernel) (by decide +kernel)
    (by decide +kernel) (by decide)

/-! ## T4 — the claim of the property in the specification's vocabulary -/

/-- The complete claim of the property.  OPEN part: `k = 4` inside the first group (4 symbol
errors at arbitrary positions: pairs of proportionality classes instead of single ones, ≈ 10⁸
kernel evaluations), and for `k = 3` the distributions with one or two of the substitutions in the
checksum part (`three_class_preserving_substitutions_detected_partial` has all three in the body).
The whole in-group clause is tested on every run by `J csdetect` / `J csdetectagg` (random ≤ 4
first-group substitutions). -/
def checksum_distance_full : Prop :=
  ∀ (s cs t : List Char) (k : Nat), checksumOf s = some cs → s.length ≤ 500 →
    Spec.Bch.Substituted k (s ++ '#' :: cs) t →
    (s ++ '#' :: cs)[s.length]? = t[s.length]? →          -- the separator is intact
    (k ≤ 2 ∨ (k ≤ 4 ∧ Spec.Bch.inFirstGroup (s ++ '#' :: cs) t = true)) →
    ∃ e, verifyChecksumL t = .err e

/-- **the `k ≤ 2` part of `checksum_distance_full`, proved** — with the length bound 773 instead
of 500: in a checksummed string whose body has at most 773 characters, substituting ANY one or
two characters (body and/or checksum part, by characters of the charset or not), the separator
left intact, makes `verify_checksum` fail.  Missing for the full statement: the in-group clause
(`k = 3`: see `three_class_preserving_substitutions_detected_partial`; `k = 4`: open). -/
theorem checksum_distance_partial (s cs t : List Char) (h : checksumOf s = some cs)
    (hlen : s.length ≤ 773) (hsub : Spec.Bch.Substituted 2 (s ++ '#' :: cs) t)
    (hsep : (s ++ '#' :: cs)[s.length]? = t[s.length]?) :
    ∃ e, verifyChecksumL t = .err e := by
  obtain ⟨hl, h0, h2⟩ := hsub
  obtain ⟨hcl, hcv, hcn⟩ := checksum_shape s cs h
  have hs := allValid_of_checksum h
  -- split `t` at the separator
  have htl : t.length = s.length + 1 + cs.length := by
    rw [← hl]; simp only [List.length_append, List.length_cons]; omega
  have hsplit : t = t.take s.length ++ (t.drop s.length) := (List.take_append_drop _ _).symm
  have hlt : s.length < t.length := by omega
  have hd : t.drop s.length = t[s.length] :: t.drop (s.length + 1) := by
    rw [List.drop_eq_getElem_cons hlt]
  have hc : t[s.length] = '#' := by
    rw [List.getElem?_append_right (Nat.le_refl _), Nat.sub_self, List.getElem?_cons_zero,
      List.getElem?_eq_getElem hlt] at hsep
    exact (Option.some.inj hsep).symm
  obtain ⟨t1, ht1⟩ : ∃ t1, t1 = t.take s.length := ⟨_, rfl⟩
  obtain ⟨t2, ht2⟩ : ∃ t2, t2 = t.drop (s.length + 1) := ⟨_, rfl⟩
  have et : t = t1 ++ '#' :: t2 := by rw [hsplit, hd, hc, ht1, ht2]
  have hl1 : s.length = t1.length := by rw [ht1, List.length_take]; omega
  have hl2 : cs.length = t2.length := by rw [ht2, List.length_drop]; omega
  have hham : Spec.Bch.hamming (s ++ '#' :: cs) t
      = Spec.Bch.hamming s t1 + Spec.Bch.hamming cs t2 := by
    rw [et, hamming_append s _ t1 _ hl1]
    simp [Spec.Bch.hamming]
  rw [hham] at h0 h2
  rw [et]
  apply rejected_of_mismatch t1 t2 (by omega)
  intro hv1
  -- the four ways of distributing one or two substitutions over body and checksum
  by_cases b0 : Spec.Bch.hamming s t1 = 0
  · have := hamming_zero hl1 b0
    subst this
    rw [h]
    intro e
    have e' : cs = t2 := Option.some.inj e
    rw [e'] at h0
    simp only [hamming_self] at h0
    omega
  · by_cases b1 : Spec.Bch.hamming s t1 = 1
    · by_cases c0 : Spec.Bch.hamming cs t2 = 0
      · have := hamming_zero hl2 c0
        subst this
        obtain ⟨ra, rb, M, δ, lo, bs, e1, e2, hp, hx, _, _⟩ := checksum_one hl1 hs hv1 b1
        rw [e2]; rw [h] at e1
        intro e
        have : residueChars rb = residueChars ra := by
          rw [← Option.some.inj e1]; exact Option.some.inj e
        rw [residueChars_inj this, BitVec.xor_self] at hx
        exact pat_ne_zero hp (Lpow_eq_zero M hx.symm)
      · have c1 : Spec.Bch.hamming cs t2 = 1 := by omega
        obtain ⟨j, _, c, _, e⟩ := hamming_one hl2 c1
        rw [e]
        exact body_and_checksum hl1 hs hv1 b1 h (by omega)
    · have b2 : Spec.Bch.hamming s t1 = 2 := by omega
      have c0 : Spec.Bch.hamming cs t2 = 0 := by omega
      have := hamming_zero hl2 c0
      subst this
      obtain ⟨c1, c2, e1, e2, hne⟩ := checksum_differs2 hl1 hs hv1 b2 (by omega)
      rw [e2]; rw [h] at e1
      intro e
      exact hne (by rw [← Option.some.inj e1]; exact (Option.some.inj e).symm)

/-- one substituted body character (class-changing) and one substituted checksum character -/
example : ∃ e, verifyChecksumL "raw(dEadbeef)#89f8spxq".toList = .err e :=
  checksum_distance_partial "raw(deadbeef)".toList "89f8spxm".toList _ (by decide +kernel)
    (by decide) (by decide +kernel) (by decide +kernel)

end MsVerif.C10

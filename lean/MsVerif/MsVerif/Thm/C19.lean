/-
C19 — Equality, ordering and hashing are structural and mutually consistent.

Model (Model/Cmp.lean) ↔ Rust:
  msEq        ↔ `PartialEq for Terminal` (src/miniscript/decode.rs), used by `Miniscript::eq`
  hashWords   ↔ `Hash for Terminal`: the exact sequence of items fed to the hasher
  msCmp       ↔ `Ord for Terminal` (src/miniscript/display.rs); `.error .unreachable` = `unreachable!`
  msClone     ↔ `Clone for Miniscript` (src/miniscript/mod.rs): rtl-post-order rebuild from a stack
  Ms.preOrder / Ms.rtlPostOrder ↔ `pre_order_iter` / `rtl_post_order_iter` (src/iter/tree.rs)
  msEqFixed / msCmpFixed ↔ the same functions after the two proposed one-arm patches

Result on the code AS IT IS: T1, T3, T4 are FALSE (defects F1, F2): the hand-written `eq` has
no arm for `Thresh`, so k and arity are never compared, and the zip of the two traversals stops
with the shorter one; `cmp` never compares the number of children, so the two display walks can
fall out of step (`Equal` for different trees, or `unreachable!`).  The negations are proved on
concrete witnesses, the exact behaviour of `==` is characterised (`eq_characterisation`), the
theorems are proved under the excluding hypotheses (`…_partial`) and at full strength for the
patched functions (`…Fixed…`), so the model swap after a fix is one word per theorem.
T5 (clone) and the iterator theorems hold for every miniscript.

Atoms: keys / hashes are abstract numbers; their orders are a parameter `o : AtomOrd`, assumed
to be lawful total orders (`LawfulAtoms o`) exactly where `Pk: Ord` is.
-/
import MsVerif.Lemmas.CmpOrd

namespace MsVerif.C19
open MsVerif MsVerif.TreeWalk MsVerif.CmpEq MsVerif.CmpOrd

/-! ## witnesses -/

def pk (k : Key) : Ms := .check (.pkK k)
def th (k : Nat) (l : List Ms) : Ms := .thresh k (MsList.ofList l)
/-- the numeric order on all atoms (what the harness uses) -/
def natOrd : AtomOrd := ⟨natCmp, natCmp, fun _ => natCmp⟩

theorem natOrd_lawful : LawfulAtoms natOrd := ⟨natCmp_lawful, natCmp_lawful, fun _ => natCmp_lawful⟩

/-- `thresh(1,pk(0),s:pk(1),s:pk(2))` vs `thresh(2,…)` -/
def wK1 : Ms := th 1 [pk 0, .swap (pk 1), .swap (pk 2)]
def wK2 : Ms := th 2 [pk 0, .swap (pk 1), .swap (pk 2)]
/-- `thresh(1,pk(0))`, `thresh(1,pk(0),s:pk(1))`, `thresh(1,pk(0),s:pk(2))` -/
def wN1 : Ms := th 1 [pk 0]
def wN2 : Ms := th 1 [pk 0, .swap (pk 1)]
def wN3 : Ms := th 1 [pk 0, .swap (pk 2)]
/-- `or_d(multi(1,0),pk(2))` vs `or_d(multi(1,0,1),pk(2))` -/
def wP1 : Ms := .orD (.multi 1 [0]) (pk 2)
def wP2 : Ms := .orD (.multi 1 [0, 1]) (pk 2)

/-! ## T0 — the iterators of `src/iter/tree.rs` yield the structural traversals -/

/-- `pre_order_iter` (stack machine, `nodes` items of fuel) = structural pre-order, every ms -/
theorem preOrder_structural (ms : Ms) : ms.preOrder = ms.pre := preOrder_eq_pre ms

/-- `rtl_post_order_iter` (`PostOrderIter` over the `Rtl` adaptor) = structural right-to-left
post-order, every ms -/
theorem rtlPostOrder_structural (ms : Ms) : ms.rtlPostOrder = ms.rtlPost := rtlPostOrder_eq ms

/-- more fuel never changes what `PreOrderIter` yields (generic statement, any tree type) -/
theorem preOrderIter_fuel (ms : Ms) (extra : Nat) :
    preOrderIter Ms.asNode (ms.nodes + extra) ms = ms.pre := by
  unfold preOrderIter
  rw [preCollect_eq Ms.asNode Ms.pre Ms.pre_eq]
  simp only [List.flatMap_cons, List.flatMap_nil, List.append_nil]
  exact List.take_of_length_le (by rw [Ms.pre_length]; omega)

example : wP1.preOrder = [wP1, .multi 1 [0], pk 2, .pkK 2] := by decide
example : wP1.rtlPostOrder = [.pkK 2, pk 2, .multi 1 [0], wP1] := by decide

/-! ## T1 — `==` ⇔ structural identity -/

/-- T1 at full strength (FALSE for the current code, see `eq_iff_structural_false`) -/
def eq_iff_structural_full : Prop := ∀ a b : Ms, msEq a b = true ↔ a = b

/-- F1, k ignored: `thresh(1,a,b,c) == thresh(2,a,b,c)` -/
theorem eq_ignores_k : msEq wK1 wK2 = true ∧ wK1 ≠ wK2 := by decide

/-- F1, arity ignored: `thresh(1,a) == thresh(1,a,b)` -/
theorem eq_ignores_arity : msEq wN1 wN2 = true ∧ wN1 ≠ wN2 := by decide

/-- the current `==` is not even an equivalence relation (not transitive) -/
theorem eq_not_transitive : msEq wN2 wN1 = true ∧ msEq wN1 wN3 = true ∧ msEq wN2 wN3 = false := by
  decide

theorem eq_iff_structural_false : ¬ eq_iff_structural_full := by
  intro h
  exact eq_ignores_k.2 ((h wK1 wK2).1 eq_ignores_k.1)

/-- EXACTLY what the current `==` decides, for all a b: one of the two pre-order label
sequences — labels = node kind + leaf payload, but NEITHER k NOR the arity of `thresh`
(`CmpEq.lab0`) — is a prefix of the other. -/
theorem eq_characterisation (a b : Ms) : msEq a b = true ↔
    (a.pre.map lab0 <+: b.pre.map lab0 ∨ b.pre.map lab0 <+: a.pre.map lab0) :=
  msEq_iff a b

/-- `==` is reflexive and symmetric (but see `eq_not_transitive`) -/
theorem eq_refl (a : Ms) : msEq a a = true := (msEq_iff a a).2 (Or.inl (List.prefix_refl _))
theorem eq_symm (a b : Ms) : msEq a b = msEq b a := by
  have h1 := msEq_iff a b
  have h2 := msEq_iff b a
  cases h : msEq a b <;> cases h' : msEq b a <;> simp_all [or_comm]

/-- T1 under the excluding hypothesis: if ONE side contains no `thresh` node, `==` is
structural identity -/
theorem eq_iff_structural_partial (a b : Ms) (h : noThresh a = true) : msEq a b = true ↔ a = b := by
  rw [msEq_eq_fixed a b h]; exact msEqFixed_iff a b

example : noThresh wP1 = true ∧ (msEq wP1 wP2 = true ↔ wP1 = wP2) :=
  ⟨by decide, eq_iff_structural_partial wP1 wP2 (by decide)⟩

/-- T1 at full strength for the PATCHED comparison (one more arm: `Thresh` compares k and n) -/
theorem eqFixed_iff_structural (a b : Ms) : msEqFixed a b = true ↔ a = b := msEqFixed_iff a b

example : msEqFixed wK1 wK2 = false ∧ msEqFixed wN1 wN2 = false ∧ msEqFixed wK1 wK1 = true := by decide

/-- the patch changes nothing on pairs that involve no `thresh` -/
theorem eqFixed_conservative (a b : Ms) (h : noThresh a = true) : msEq a b = msEqFixed a b :=
  msEq_eq_fixed a b h

/-! ## T2 (model-level part) — the display tokens determine the tree -/

/-- the pre-order sequence of display tokens (fragment name incl. sugar names `pk`, `t`, `l`,
`u`, `and_n`, number of display children, k, keys, hashes, locks) determines the miniscript:
two miniscripts with the same token sequence — hence the same string form — are identical -/
theorem display_tokens_injective (a b : Ms) (h : toks a = toks b) : a = b := toks_inj a b h

example : toks (pk 0) = [.node .pk 1, .key 0] := by decide
example : toks (.andV (pk 0) .tru) = [.node .t 1, .node .pk 1, .key 0] := by decide

/-! ## T3 — `cmp` is a total order whose `Equal` is `==` -/

/-- the laws (T3) for a comparison function `cmp` and an equality `eq` -/
structure TotalOrderLaws (cmp : Ms → Ms → Except Panic Ordering) (eq : Ms → Ms → Bool) : Prop where
  no_panic : ∀ a b, ∃ r, cmp a b = .ok r
  refl : ∀ a, cmp a a = .ok .eq
  antisymm : ∀ a b r, cmp a b = .ok r → cmp b a = .ok r.swap
  trans_lt : ∀ a b c, cmp a b = .ok .lt → cmp b c = .ok .lt → cmp a c = .ok .lt
  trans_eq_l : ∀ a b c, cmp a b = .ok .eq → cmp a c = cmp b c
  equal_iff_eq : ∀ a b, cmp a b = .ok .eq ↔ eq a b = true
  equal_iff_identical : ∀ a b, cmp a b = .ok .eq ↔ a = b

/-- T3 at full strength (FALSE for the current code) -/
def cmp_total_order_full (o : AtomOrd) : Prop := TotalOrderLaws (msCmp o) msEq

/-- F2: `or_d(multi(1,A),pk(C)).cmp(or_d(multi(1,A,B),pk(C)))` reaches `unreachable!` -/
theorem cmp_panics : msCmp natOrd wP1 wP2 = .error .unreachable := by decide

/-- F1 for `cmp`: `Equal` for thresholds of different arity, and `Equal` although the k's
differ is impossible only because the display walk sees k — but `==` says equal there:
`cmp` and `==` disagree on `thresh(1,…)` vs `thresh(2,…)` -/
theorem cmp_equal_on_different : msCmp natOrd wN1 wN2 = .ok .eq ∧ wN1 ≠ wN2 := by decide
theorem cmp_disagrees_with_eq : msCmp natOrd wK1 wK2 = .ok .lt ∧ msEq wK1 wK2 = true := by decide
theorem cmp_equal_multi : msCmp natOrd (.multi 1 [0]) (.multi 1 [0, 1]) = .ok .eq
    ∧ msEq (.multi 1 [0]) (.multi 1 [0, 1]) = false := by decide

theorem cmp_total_order_false : ¬ cmp_total_order_full natOrd := by
  intro h
  obtain ⟨r, hr⟩ := h.no_panic wP1 wP2
  rw [cmp_panics] at hr
  cases hr

/-- T3 at full strength for the PATCHED functions: never panics, reflexive, antisymmetric,
transitive, `Equal` ⇔ `==` ⇔ identical — for every lawful order on the atoms -/
theorem cmpFixed_total_order (o : AtomOrd) (ho : LawfulAtoms o) :
    TotalOrderLaws (msCmpFixed o) msEqFixed := by
  have L := lexCmp_lawful (tokCmp_lawful o ho)
  have E := msCmpFixed_eq_lex o ho
  have ident : ∀ a b, msCmpFixed o a b = .ok .eq ↔ a = b := by
    intro a b
    rw [E]
    constructor
    · intro h
      exact toks_inj a b ((L.eq_iff _ _).1 (by injection h))
    · rintro rfl
      rw [(L.eq_iff _ _).2 rfl]
  refine ⟨fun a b => ⟨_, E a b⟩, fun a => (ident a a).2 rfl, ?_, ?_, ?_, ?_, ident⟩
  · intro a b r h
    rw [E] at h ⊢
    injection h with h
    rw [L.swap, h]
  · intro a b c h1 h2
    rw [E] at h1 h2 ⊢
    injection h1 with h1; injection h2 with h2
    rw [L.trans_lt _ _ _ h1 h2]
  · intro a b c h
    rw [(ident a b).1 h]
  · intro a b
    rw [ident, msEqFixed_iff]

example : msCmpFixed natOrd wP1 wP2 = .ok .lt ∧ msCmpFixed natOrd wN1 wN2 = .ok .lt
    ∧ msCmpFixed natOrd wK1 wK2 = .ok .lt ∧ msCmpFixed natOrd wK2 wK2 = .ok .eq := by decide

/-- the patched `cmp` is the lexicographic order of the display token sequences -/
theorem cmpFixed_is_lex (o : AtomOrd) (ho : LawfulAtoms o) (a b : Ms) :
    msCmpFixed o a b = .ok (lexCmp (tokCmp o) (toks a) (toks b)) := msCmpFixed_eq_lex o ho a b

/-- T3 under the excluding hypothesis: on miniscripts without `thresh` / `multi` /
`sortedmulti` / `multi_a` / `sortedmulti_a` the CURRENT `cmp` satisfies all the laws with the
CURRENT `==` (restricted to such miniscripts) -/
theorem cmp_total_order_partial (o : AtomOrd) (ho : LawfulAtoms o) :
    (∀ a b, naryFree a = true → ∃ r, msCmp o a b = .ok r) ∧
    (∀ a, naryFree a = true → msCmp o a a = .ok .eq) ∧
    (∀ a b r, naryFree a = true → naryFree b = true → msCmp o a b = .ok r → msCmp o b a = .ok r.swap) ∧
    (∀ a b c, naryFree a = true → naryFree b = true →
      msCmp o a b = .ok .lt → msCmp o b c = .ok .lt → msCmp o a c = .ok .lt) ∧
    (∀ a b, naryFree a = true → (msCmp o a b = .ok .eq ↔ a = b)) := by
  have T := cmpFixed_total_order o ho
  refine ⟨?_, ?_, ?_, ?_, ?_⟩
  · intro a b ha; rw [msCmp_eq_fixed o a b ha]; exact T.no_panic a b
  · intro a ha; rw [msCmp_eq_fixed o a a ha]; exact T.refl a
  · intro a b r ha hb h
    rw [msCmp_eq_fixed o a b ha] at h
    rw [msCmp_eq_fixed o b a hb]; exact T.antisymm a b r h
  · intro a b c ha hb h1 h2
    rw [msCmp_eq_fixed o a b ha] at h1
    rw [msCmp_eq_fixed o b c hb] at h2
    rw [msCmp_eq_fixed o a c ha]; exact T.trans_lt a b c h1 h2
  · intro a b ha; rw [msCmp_eq_fixed o a b ha]; exact T.equal_iff_identical a b

example : naryFree (.andOr (pk 0) (.orI .fls (pk 1)) (.andV (.verify (pk 2)) (.after 100))) = true := by
  decide

/-- the patch changes nothing when the left operand has no n-ary node -/
theorem cmpFixed_conservative (o : AtomOrd) (a b : Ms) (h : naryFree a = true) :
    msCmp o a b = msCmpFixed o a b := msCmp_eq_fixed o a b h

/-! ## T4 — equal values hash equally -/

/-- T4 at full strength (FALSE for the current code) -/
def hash_consistent_full : Prop := ∀ a b : Ms, msEq a b = true → hashWords a = hashWords b

/-- F1: `==` but different hasher input (`Hash` does write k and n) -/
theorem hash_inconsistent : msEq wK1 wK2 = true ∧ hashWords wK1 ≠ hashWords wK2 := by decide

theorem hash_consistent_false : ¬ hash_consistent_full :=
  fun h => hash_inconsistent.2 (h wK1 wK2 hash_inconsistent.1)

/-- T4 under the excluding hypothesis -/
theorem hash_consistent_partial (a b : Ms) (h : noThresh a = true) (he : msEq a b = true) :
    hashWords a = hashWords b := by
  rw [(eq_iff_structural_partial a b h).1 he]

/-- T4 at full strength for the patched `==` -/
theorem hashFixed_consistent (a b : Ms) (he : msEqFixed a b = true) : hashWords a = hashWords b := by
  rw [(msEqFixed_iff a b).1 he]

/-- the hasher input is the concatenation, in pre-order, of what each node writes -/
theorem hashWords_structural (ms : Ms) : hashWords ms = ms.pre.flatMap hashNode := by
  unfold hashWords; rw [preOrder_eq_pre]

example : hashWords (th 1 [pk 7]) =
    [.disc 25, .usize 1, .usize 1, .disc 13, .disc 2, .key 7] := by decide

/-! ## T5 — cloning yields an identical value -/

/-- `Miniscript::clone` (fold over `rtl_post_order_iter`, one `stack.pop().unwrap()` per child
in argument order, `thresh.map_ref(|_| stack.pop().unwrap())`, final `assert_eq!(len, 1)`) never
panics and returns a structurally identical value — for every miniscript -/
theorem clone_eq (ms : Ms) : msClone ms = .ok ms := msClone_eq ms

/-- hence the clone is `==` to the original, compares `Equal` under the patched order … -/
theorem clone_eq_eq (ms : Ms) : (msClone ms).map (msEq ms) = .ok true := by
  rw [clone_eq]; simp [Except.map, eq_refl]

example : msClone (.andOr (pk 0) wK2 wP2) = .ok (.andOr (pk 0) wK2 wP2) := clone_eq _

/-! ## the rank table of fragment names is the byte-wise string order -/

/-- `FragName.rank` (used by the model for `fragment_name().cmp(…)`) agrees with `compare` on
the 37 Rust strings -/
theorem fragRank_faithful :
    FragName.all.all (fun x => FragName.all.all (fun y => compare x.str y.str == natCmp x.rank y.rank))
      = true := by decide +kernel

end MsVerif.C19

/-
C19 — Equality, ordering and hashing are structural and mutually consistent.

Model (Model/Cmp.lean) ↔ Rust (after the fixes e7035cf1 `Terminal equality compares thresh k
and arity` and 150fe1e9 `Ord for Terminal compares the number of children of a node`):
  msEq        ↔ `PartialEq for Terminal` (src/miniscript/decode.rs), used by `Miniscript::eq`
  hashWords   ↔ `Hash for Terminal`: the exact sequence of items fed to the hasher
  msCmp       ↔ `Ord for Terminal` (src/miniscript/display.rs); `.error .unreachable` = `unreachable!`
  msClone     ↔ `Clone for Miniscript` (src/miniscript/mod.rs): rtl-post-order rebuild from a stack
  Ms.preOrder / Ms.rtlPostOrder ↔ `pre_order_iter` / `rtl_post_order_iter` (src/iter/tree.rs)

All theorems are for EVERY miniscript (no bound on size, depth or threshold width).
History: before the two fixes T1, T3, T4 were false (`==` ignored k and arity of `thresh`, was
not transitive and disagreed with `Hash`/`Ord`; `cmp` returned `Equal` for different trees or
reached `unreachable!`).  The former counterexamples are kept below as regression `example`s
(now evaluating to the right answers) and as fixed inputs of the harness.

Atoms: keys / hashes are abstract numbers; their orders are a parameter `o : AtomOrd`, assumed
to be lawful total orders (`LawfulAtoms o`) exactly where `Pk: Ord` is.
-/
import MsVerif.Lemmas.CmpOrd
import MsVerif.Lemmas.PolicyOrd

namespace MsVerif.C19
open MsVerif MsVerif.TreeWalk MsVerif.CmpEq MsVerif.CmpOrd

/-! ## concrete values for the non-vacuity / regression examples -/

def pk (k : Key) : Ms := .check (.pkK k)
def th (k : Nat) (l : List Ms) : Ms := .thresh k (MsList.ofList l)
/-- the numeric order on all atoms (what the harness uses) -/
def natOrd : AtomOrd := ⟨natCmp, natCmp, fun _ => natCmp⟩

theorem natOrd_lawful : LawfulAtoms natOrd := ⟨natCmp_lawful, natCmp_lawful, fun _ => natCmp_lawful⟩

/-- `thresh(1,pk(0),s:pk(1),s:pk(2))` vs `thresh(2,…)` (former F1 witness, k) -/
def wK1 : Ms := th 1 [pk 0, .swap (pk 1), .swap (pk 2)]
def wK2 : Ms := th 2 [pk 0, .swap (pk 1), .swap (pk 2)]
/-- `thresh(1,pk(0))`, `thresh(1,pk(0),s:pk(1))`, `thresh(1,pk(0),s:pk(2))` (former F1 witnesses, arity) -/
def wN1 : Ms := th 1 [pk 0]
def wN2 : Ms := th 1 [pk 0, .swap (pk 1)]
def wN3 : Ms := th 1 [pk 0, .swap (pk 2)]
/-- `or_d(multi(1,0),pk(2))` vs `or_d(multi(1,0,1),pk(2))` (former F2 witness, panic) -/
def wP1 : Ms := .orD (.multi 1 [0]) (pk 2)
def wP2 : Ms := .orD (.multi 1 [0, 1]) (pk 2)

/-! ## T0 — the iterators of `src/iter/tree.rs` yield the structural traversals -/

/-- `pre_order_iter` (stack machine, `nodes` items of fuel) = structural pre-order, every ms -/
theorem preOrder_structural (ms : Ms) : ms.preOrder = ms.pre := preOrder_eq_pre ms

/-- `rtl_post_order_iter` (`PostOrderIter` over the `Rtl` adaptor) = structural right-to-left
post-order, every ms -/
theorem rtlPostOrder_structural (ms : Ms) : ms.rtlPostOrder = ms.rtlPost := rtlPostOrder_eq ms

/-- more fuel never changes what `PreOrderIter` yields -/
theorem preOrderIter_fuel (ms : Ms) (extra : Nat) :
    preOrderIter Ms.asNode (ms.nodes + extra) ms = ms.pre := by
  unfold preOrderIter
  rw [preCollect_eq Ms.asNode Ms.pre Ms.pre_eq]
  simp only [List.flatMap_cons, List.flatMap_nil, List.append_nil]
  exact List.take_of_length_le (by rw [Ms.pre_length]; omega)

example : wP1.preOrder = [wP1, .multi 1 [0], pk 2, .pkK 2] := by decide
example : wP1.rtlPostOrder = [.pkK 2, pk 2, .multi 1 [0], wP1] := by decide

/-! ## T1 — `==` ⇔ structural identity -/

/-- T1: two miniscripts compare equal exactly when they are structurally identical (same
fragments, threshold values and arities, keys, hashes, time locks) -/
theorem eq_iff_structural (a b : Ms) : msEq a b = true ↔ a = b := msEq_iff a b

/-- hence `==` is an equivalence relation -/
theorem eq_refl (a : Ms) : msEq a a = true := (eq_iff_structural a a).2 rfl
theorem eq_symm (a b : Ms) : msEq a b = msEq b a := by
  have h1 := eq_iff_structural a b
  have h2 := eq_iff_structural b a
  cases h : msEq a b <;> cases h' : msEq b a <;> simp_all
theorem eq_trans (a b c : Ms) (h1 : msEq a b = true) (h2 : msEq b c = true) : msEq a c = true := by
  rw [eq_iff_structural] at *; rw [h1, h2]

/-- regression: the former F1 witnesses (k, arity, nested arity) are unequal -/
example : msEq wK1 wK2 = false ∧ msEq wN1 wN2 = false ∧ msEq wN2 wN3 = false ∧ msEq wK1 wK1 = true
    ∧ msEq (th 1 [th 1 [pk 0, .swap (pk 1)], .swap (pk 2)]) (th 1 [th 1 [pk 0], .swap (pk 1), .swap (pk 2)]) = false := by
  decide

/-! ## T2 (model-level part) — the display tokens determine the tree -/

/-- the pre-order sequence of display tokens (fragment name incl. sugar names `pk`, `t`, `l`,
`u`, `and_n`, number of display children, k, keys, hashes, locks) determines the miniscript:
two miniscripts with the same token sequence — hence the same string form — are identical -/
theorem display_tokens_injective (a b : Ms) (h : toks a = toks b) : a = b := toks_inj a b h

example : toks (pk 0) = [.node .pk 1, .key 0] := by decide
example : toks (.andV (pk 0) .tru) = [.node .t 1, .node .pk 1, .key 0] := by decide

/-! ## T3 — `cmp` is a total order whose `Equal` is `==` -/

/-- the laws (T3) for a comparison function `cmp` and an equality `eq` -/
structure TotalOrderLaws (cmp : Ms → Ms → Except Panic Ordering) (eq : Ms → Ms → Bool) : Prop where
  no_panic : ∀ a b, ∃ r, cmp a b = .ok r
  refl : ∀ a, cmp a a = .ok .eq
  antisymm : ∀ a b r, cmp a b = .ok r → cmp b a = .ok r.swap
  trans_lt : ∀ a b c, cmp a b = .ok .lt → cmp b c = .ok .lt → cmp a c = .ok .lt
  trans_eq_l : ∀ a b c, cmp a b = .ok .eq → cmp a c = cmp b c
  equal_iff_eq : ∀ a b, cmp a b = .ok .eq ↔ eq a b = true
  equal_iff_identical : ∀ a b, cmp a b = .ok .eq ↔ a = b

/-- T3: `cmp` never panics, is reflexive, antisymmetric and transitive, and
`Equal` ⇔ `==` ⇔ identical — for every lawful order on the atoms -/
theorem cmp_total_order (o : AtomOrd) (ho : LawfulAtoms o) : TotalOrderLaws (msCmp o) msEq := by
  have L := lexCmp_lawful (tokCmp_lawful o ho)
  have E := msCmp_eq_lex o ho
  have ident : ∀ a b, msCmp o a b = .ok .eq ↔ a = b := by
    intro a b
    rw [E]
    constructor
    · intro h
      exact toks_inj a b ((L.eq_iff _ _).1 (by injection h))
    · rintro rfl
      rw [(L.eq_iff _ _).2 rfl]
  refine ⟨fun a b => ⟨_, E a b⟩, fun a => (ident a a).2 rfl, ?_, ?_, ?_, ?_, ident⟩
  · intro a b r h
    rw [E] at h ⊢
    injection h with h
    rw [L.swap, h]
  · intro a b c h1 h2
    rw [E] at h1 h2 ⊢
    injection h1 with h1; injection h2 with h2
    rw [L.trans_lt _ _ _ h1 h2]
  · intro a b c h
    rw [(ident a b).1 h]
  · intro a b
    rw [ident, msEq_iff]

/-- the hypothesis of T3 is satisfiable -/
example : TotalOrderLaws (msCmp natOrd) msEq := cmp_total_order natOrd natOrd_lawful

/-- `cmp` is the lexicographic order of the display token sequences -/
theorem cmp_is_lex (o : AtomOrd) (ho : LawfulAtoms o) (a b : Ms) :
    msCmp o a b = .ok (lexCmp (tokCmp o) (toks a) (toks b)) := msCmp_eq_lex o ho a b

/-- regression: the former F2 witnesses (panic; `Equal` for different widths) -/
example : msCmp natOrd wP1 wP2 = .ok .lt ∧ msCmp natOrd wN1 wN2 = .ok .lt
    ∧ msCmp natOrd wK1 wK2 = .ok .lt ∧ msCmp natOrd wK2 wK2 = .ok .eq
    ∧ msCmp natOrd (.multi 1 [0]) (.multi 1 [0, 1]) = .ok .lt := by decide

/-! ## T4 — equal values hash equally -/

/-- T4: equal values feed identical word sequences to the hasher (hence equal hashes under
every `Hasher`) -/
theorem hash_consistent (a b : Ms) (he : msEq a b = true) : hashWords a = hashWords b := by
  rw [(eq_iff_structural a b).1 he]

/-- the hasher input is the concatenation, in pre-order, of what each node writes -/
theorem hashWords_structural (ms : Ms) : hashWords ms = ms.pre.flatMap hashNode := by
  unfold hashWords; rw [preOrder_eq_pre]

example : hashWords (th 1 [pk 7]) =
    [.disc 25, .usize 1, .usize 1, .disc 13, .disc 2, .key 7] := by decide
/-- regression: the former F1 witness pair is unequal AND hashes differently -/
example : msEq wK1 wK2 = false ∧ hashWords wK1 ≠ hashWords wK2 := by decide

/-! ## T5 — cloning yields an identical value -/

/-- `Miniscript::clone` (fold over `rtl_post_order_iter`, one `stack.pop().unwrap()` per child
in argument order, `thresh.map_ref(|_| stack.pop().unwrap())`, final `assert_eq!(len, 1)`) never
panics and returns a structurally identical value — for every miniscript -/
theorem clone_eq (ms : Ms) : msClone ms = .ok ms := msClone_eq ms

/-- hence the clone is `==` to the original and compares `Equal` -/
theorem clone_eq_eq (ms : Ms) : (msClone ms).map (msEq ms) = .ok true := by
  rw [clone_eq]; simp [Except.map, eq_refl]
theorem clone_cmp_equal (o : AtomOrd) (ho : LawfulAtoms o) (ms : Ms) :
    (msClone ms).bind (msCmp o ms) = .ok .eq := by
  rw [clone_eq]; exact (cmp_total_order o ho).refl ms

example : msClone (.andOr (pk 0) wK2 wP2) = .ok (.andOr (pk 0) wK2 wP2) := clone_eq _

/-! ## the rank table of fragment names is the byte-wise string order -/

/-- `FragName.rank` (used by the model for `fragment_name().cmp(…)`) agrees with `compare` on
the 36 Rust strings -/
theorem fragRank_faithful :
    FragName.all.all (fun x => FragName.all.all (fun y => compare x.str y.str == natCmp x.rank y.rank))
      = true := by decide +kernel

/-! ## P — `Ord` of concrete and semantic policies (`Eq` / `Hash` are derived = structural) -/

section Policies
open MsVerif.PolicyOrd

/-- the hand-written `Ord for Policy` (both policy types; `polCmp`, Model/PolicyOrd.lean) is a
total order whose `Equal` is structural identity — hence consistent with the derived `==` and
`Hash` — for every lawful order on keys and hashes: locks are compared by consensus value,
`or` branches weight first, thresholds k first, child lists lexicographically -/
theorem policy_cmp_total_order (o : AtomOrd) (ho : LawfulAtoms o) :
    (∀ a b : PPol, polCmp o a b = .eq ↔ a = b) ∧
    (∀ a b : PPol, polCmp o b a = (polCmp o a b).swap) ∧
    (∀ a b c : PPol, polCmp o a b = .lt → polCmp o b c = .lt → polCmp o a c = .lt) :=
  ⟨polCmp_eq_iff o ho, polCmp_swap o ho, polCmp_trans o ho⟩

/-- after the comparison of the variant names the second `match` of `cmp` only sees pairs of
the same variant: its `unreachable!` arm is never reached -/
theorem policy_cmp_no_unreachable (a b : PPol) (h : a.vrank = b.vrank) : sameVariant a b = true :=
  same_rank_same_variant a b h

/-- the rank table is the byte-wise order of the twelve `variant_name()` strings -/
theorem policy_variant_rank_faithful :
    let reps : List PPol := [.after 0, .and .nil, .hash .hash160 0, .hash .hash256 0, .key 0, .older 0,
      .or .nil, .hash .ripemd160 0, .hash .sha256 0, .thresh 1 .nil, .trivial, .unsat]
    reps.all (fun x => reps.all (fun y => compare x.variantName y.variantName == natCmp x.vrank y.vrank))
      = true := by decide +kernel

/-- near-twin locks and weights are told apart -/
example : polCmp natOrd (.older 5) (.older 65541) = .lt
    ∧ polCmp natOrd (.or (.cons 1 (.key 0) (.cons 2 (.key 1) .nil))) (.or (.cons 2 (.key 0) (.cons 1 (.key 1) .nil))) = .lt
    ∧ polCmp natOrd (.and (.cons 0 (.key 0) .nil)) (.key 0) = .lt
    ∧ polCmp natOrd (.thresh 1 (.cons 0 (.key 0) .nil)) (.thresh 1 (.cons 0 (.key 0) (.cons 0 (.key 1) .nil))) = .lt := by
  decide

end Policies

end MsVerif.C19

/-
C04 — script encoding and decoding are inverse and canonical (lexer + decoder part; the size
part `script_size = encoded length` is proved under C09).

Models: Model/Lex.lean (`lex` on bytes: `instructions_minimal`, `read_scriptint`, token
table), Model/Decode.lean (`decode` state machine, `from_ast`, `decode_consensus`),
Model/Encode.lean (`encode`), Model/Tokens.lean (`tokens`, decoder normal form).

What is kernel-checked here
* T2a `lex_serialize`        lexing the bytes of any encoding gives its structural token list
* T2b `lex_canonical`        whatever the lexer accepts is the canonical serialisation of its
                             tokens (full strength, since lex.rs fix 042abd7f)
* T3  `decode_encode`        the decoder returns `ms` on `tokens ms` for every `ms` in decoder
                             normal form whose nodes `from_ast` accepts; the naive statement
                             (every accepted `ms`) is false — `and_v(X,and_v(Y,Z))` comes back
                             re-associated — and is refuted on a witness; `roundtrip_bytes`
                             composes T2a and T3 on bytes
* T4  `decode_canonical`      the decoder never accepts a script that is not the encoding of the
                             miniscript it returns: `decode_with_validation_params(bs) = ms ⇒
                             encode(ms) = bs` (parser half `decode_canonical_tokens` by a
                             specification per nonterminal chained along the run; lexer half
                             `lex_canonical`)
* T5  `norm_encode` / `norm_type` / `norm_sem`  the normal form the decoder returns has the same
                             opcodes, the same type and the same spending condition (C07's
                             `MsSem.sem`) as the original, for every well-typed miniscript
* `lex_total`, `decode_total` termination (fuel is irrelevant / suffices)
* `decode_no_panic`          no `unwrap`/`assert` of `decode` can fire, for ANY token list
-/
import MsVerif.Lemmas.LexEncode
import MsVerif.Lemmas.LexCanon
import MsVerif.Lemmas.DecodeEncode
import MsVerif.Lemmas.DecodeNoPanic
import MsVerif.Lemmas.DecodeCanonBytes
import MsVerif.Lemmas.NormEncode
import MsVerif.Lemmas.NormType
import MsVerif.Lemmas.TokensNorm
import MsVerif.Lemmas.DecodeToy

namespace MsVerif.C04
open MsVerif Script LexL DecodeL TokL NormL

/-! ### termination -/

/-- the lexer loop never needs more fuel than there are bytes: any larger fuel gives the same
answer (so the out-of-fuel branch of the model is dead and `lex` is a total function) -/
theorem lex_total (strict : Bool) (fuel : Nat) (prev : Option Token) (bs : Bytes)
    (h : bs.length ≤ fuel) : lexGo strict fuel prev bs = lexGo strict bs.length prev bs :=
  lexGo_fuel strict fuel prev bs h

/-- the decoder loop finishes within `20·|tokens| + 6` iterations on every token list -/
theorem decode_total (dec : AtomDec) (env : KeyEnv) (ctx : Ctx) (toks : List Token) :
    ∃ r, decodeLoop dec env ctx (decodeFuel toks) (initState toks.reverse) = some r := by
  have h := decodeLoop_fuel (dec := dec) (env := env) (ctx := ctx) (decodeFuel toks)
    (initState toks.reverse) (by rw [measure_init]; simp [decodeFuel])
  cases hr : decodeLoop dec env ctx (decodeFuel toks) (initState toks.reverse) with
  | none => exact absurd hr h
  | some r => exact ⟨r, rfl⟩

example : lexGo false 1000 none [0x51, 0x9d] = lexGo false 2 none [0x51, 0x9d] :=
  lex_total false 1000 none _ (by decide)

/-- hence the model-only outcome `.fuel` of `decodeToks` is never produced by fuel exhaustion -/
theorem decodeToks_eq_loop (dec : AtomDec) (env : KeyEnv) (ctx : Ctx) (toks : List Token) :
    ∃ r, decodeLoop dec env ctx (decodeFuel toks) (initState toks.reverse) = some r ∧
      decodeToks dec env ctx toks = r := by
  obtain ⟨r, hr⟩ := decode_total dec env ctx toks
  exact ⟨r, hr, by simp [decodeToks, hr]⟩

/-! ### no panic (also serves C11) -/

/-- `decode::decode` never reaches `term.pop().unwrap()` on an empty stack nor a failing
`assert_eq!`, whatever the tokens are -/
theorem decode_no_panic (dec : AtomDec) (env : KeyEnv) (ctx : Ctx) (toks : List Token) :
    decodeToks dec env ctx toks ≠ .error .panic := by
  obtain ⟨r, hr, he⟩ := decodeToks_eq_loop dec env ctx toks
  rw [he]
  intro hp
  subst hp
  exact decodeLoop_no_panic (decodeFuel toks) _ (inv_init toks.reverse) hr

/-- the same for the whole `decode_with_validation_params` pipeline on bytes (`Ctx::CONSENSUS`
or `MAX` parameters) -/
theorem decodeScriptP_no_panic (p : DecParams) (dec : AtomDec) (env : KeyEnv) (ctx : Ctx) (bs : Bytes) :
    decodeScriptP p dec env ctx bs ≠ .error .panic := by
  unfold decodeScriptP
  split
  · simp
  · split
    · rename_i e he
      intro h
      simp only [Except.error.injEq] at h
      subst h
      exact decode_no_panic dec env ctx _ he
    · repeat' split
      all_goals simp

theorem decodeScript_no_panic (dec : AtomDec) (env : KeyEnv) (ctx : Ctx) (bs : Bytes) :
    decodeScript dec env ctx bs ≠ .error .panic :=
  decodeScriptP_no_panic .consensus dec env ctx bs

example : decodeScript Toy.dec Toy.env .tap [0x92, 0x92, 0x68] ≠ .error .panic :=
  decodeScript_no_panic _ _ _ _

/-! ### T2a: lexing an encoding -/

/-- `lex (encode ms).bytes` is the structural token list, for every miniscript whose atoms
have the byte lengths of real keys / hashes and whose numbers are below 2^31 -/
theorem lex_serialize (env : KeyEnv) (ctx : Ctx) (ms : Ms) (h : AtomsOk env ms) :
    lex (serialize (encode env ctx ms)) = .ok (tokens env ctx ms) :=
  lexG_encode env ctx true ms h

example : AtomsOk Toy.env Toy.m1 := by
  simp only [Toy.m1, Toy.vpk, Toy.pk, AtomsOk, keyLenOk, Toy.env, hashLen]; simp

example : lex (serialize (encode Toy.env .segwitv0 Toy.m1)) = .ok (tokens Toy.env .segwitv0 Toy.m1) :=
  lex_serialize _ _ _ (by simp only [Toy.m1, Toy.vpk, Toy.pk, AtomsOk, keyLenOk, Toy.env, hashLen]; simp)

/-! ### T2b: canonicity of the lexer -/

/-- whatever the lexer accepts is the canonical serialisation of its tokens: direct minimal
pushes, minimal script numbers, `OP_n` for 0..16, fused `*VERIFY` opcodes -/
theorem lex_canonical (bs : Bytes) (ts : List Token) (h : lex bs = .ok ts) : tokBytes ts = bs :=
  LexL.lexStrict_canonical bs ts h

/-- hence the lexer is injective: no two byte strings have the same tokens -/
theorem lex_injective (bs₁ bs₂ : Bytes) (ts : List Token)
    (h1 : lex bs₁ = .ok ts) (h2 : lex bs₂ = .ok ts) : bs₁ = bs₂ :=
  (lex_canonical bs₁ ts h1).symm.trans (lex_canonical bs₂ ts h2)

/-- regression (fixed in 042abd7f): `OP_1 OP_NUMEQUAL OP_VERIFY` is rejected -/
theorem lex_rejects_split_numequalverify : lex [0x51, 0x9c, 0x69] = .error .nonMinimalVerify := rfl

example : tokBytes [.num 1, .numEqual, .verify] = [0x51, 0x9d] :=
  lex_canonical [0x51, 0x9d] _ rfl

/-- an encoding is the ONLY byte string with its tokens -/
theorem encode_unique_bytes (env : KeyEnv) (ctx : Ctx) (ms : Ms) (h : AtomsOk env ms) (bs : Bytes)
    (hb : lex bs = .ok (tokens env ctx ms)) : bs = serialize (encode env ctx ms) :=
  lex_injective _ _ _ hb (lex_serialize env ctx ms h)

/-! ### T3: decoding an encoding -/

/-- the decoder, run on the tokens of `ms`, returns `ms` and consumes every token — for `ms`
in decoder normal form (`form .A`), atoms known to `dec`, and `from_ast` accepting every node -/
theorem decode_encode (dec : AtomDec) (env : KeyEnv) (ctx : Ctx) (ms : Ms)
    (hform : form .A ms = true) (hok : DecOk dec env ctx ms) :
    decodeToks dec env ctx (tokens env ctx ms) = .ok (ms, []) := by
  apply decodeToks_of_steps
  have := (main dec env ctx ms).a hform hok [] [] [] rfl
  simpa [initState, rt] using this

example : form .A Toy.m1 = true ∧ DecOk Toy.dec Toy.env .segwitv0 Toy.m1 := by
  refine ⟨by decide, ?_⟩
  simp only [Toy.m1, Toy.vpk, Toy.pk, DecOk]
  repeat' apply And.intro
  all_goals first | rfl | decide

/-- non-vacuity with `andor`, `thresh`, `multi`, hashes and a lock (Segwitv0) -/
example : decodeToks Toy.dec Toy.env .segwitv0 (tokens Toy.env .segwitv0 Toy.m3) = .ok (Toy.m3, []) := by
  refine decode_encode _ _ _ _ (by decide) ?_
  simp only [Toy.m3, Toy.pk, DecOk, DecOkL, FullKeyOk]
  repeat' apply And.intro
  all_goals first
    | rfl | decide
    | (intro x hx; simp at hx; rcases hx with rfl | rfl | rfl <;> exact ⟨rfl, by decide⟩)

/-- non-vacuity with `multi_a`, `or_i`, `after` and a hash (Taproot, x-only keys) -/
example : decodeToks Toy.decX Toy.envX .tap (tokens Toy.envX .tap Toy.m4) = .ok (Toy.m4, []) := by
  refine decode_encode _ _ _ _ (by decide) ?_
  simp only [Toy.m4, Toy.vpk, Toy.pk, DecOk, XKeyOk]
  repeat' apply And.intro
  all_goals first
    | rfl | decide
    | (intro x hx; simp at hx; rcases hx with rfl | rfl | rfl <;> exact ⟨rfl, by decide⟩)

/-- the naive statement ("for every `ms` that `from_ast` accepts") -/
def decode_encode_full : Prop :=
  ∀ (dec : AtomDec) (env : KeyEnv) (ctx : Ctx) (ms : Ms), DecOk dec env ctx ms →
    decodeToks dec env ctx (tokens env ctx ms) = .ok (ms, [])

/-- FALSE: `and_v(X,and_v(Y,Z))` is accepted, encodes to the same script as
`and_v(and_v(X,Y),Z)`, and the decoder returns the latter -/
theorem decode_encode_full_false : ¬ decode_encode_full := by
  intro h
  have hd : DecOk Toy.dec Toy.env .segwitv0 Toy.m2 := by
    simp only [Toy.m2, Toy.vpk, Toy.pk, DecOk]
    repeat' apply And.intro
    all_goals first | rfl | decide
  have h1 := h Toy.dec Toy.env .segwitv0 Toy.m2 hd
  have h2 : Toy.okIs (decodeToks Toy.dec Toy.env .segwitv0 (tokens Toy.env .segwitv0 Toy.m2)) Toy.m1 = true := by
    decide +kernel
  rw [h1] at h2
  revert h2
  decide

/-- what IS true for every accepted `ms`: the decoder returns the normal form `norm ms`
(same tokens, hence same script bytes — `tokens_norm`), provided `from_ast` accepts the nodes
of the normal form and `norm ms` is in the decoder's grammar -/
theorem decode_encode_norm (dec : AtomDec) (env : KeyEnv) (ctx : Ctx) (ms : Ms)
    (hform : form .A (norm ms) = true) (hok : DecOk dec env ctx (norm ms)) :
    decodeToks dec env ctx (tokens env ctx ms) = .ok (norm ms, []) := by
  rw [← tokens_norm env ctx ms]
  exact decode_encode dec env ctx (norm ms) hform hok

example : norm Toy.m2 = Toy.m1 := by decide +kernel

/-- why `decode_encode_norm` needs `from_ast` to accept the NORMAL FORM: re-association can raise
the tree height, so a miniscript at the recursion limit (402) has a normal form above it — on
the library: `and_v(v:n:…n:pk(A),and_v(v:pk(B),pk(C)))` with 399 `n:` (height 402) is accepted
by `from_ast` and `validate(CONSENSUS)`, yet `decode_consensus(encode(ms))` fails with
`MaxRecursiveDepthExceeded` (known finding, harness corpus) -/
theorem norm_raises_height_witness :
    let ms : Ms := .andV (.verify (.zeroNotEqual (Toy.pk 1))) (.andV (Toy.vpk 2) (Toy.pk 3))
    (extOf Toy.env .tap (norm ms)).treeHeight = (extOf Toy.env .tap ms).treeHeight + 1 := by
  decide +kernel

/-! ### the normal form has the same script, type and spending condition -/

/-- same encoding, opcode for opcode (no hypothesis) -/
theorem norm_encode (env : KeyEnv) (ctx : Ctx) (ms : Ms) : encode env ctx (norm ms) = encode env ctx ms :=
  encode_norm env ctx ms

/-- same type (correctness and malleability) for every well-typed miniscript -/
theorem norm_type (ms : Ms) (t : Ty) (h : typeOf ms = some t) : typeOf (norm ms) = some t :=
  typeOf_norm ms t h

/-- same spending condition (the trusted specification `MsSem.sem` of C07) in every world, for
every well-typed miniscript.  (Typing is needed: `or_d(and_v(X,Y),Z)` would become
`and_v(X,or_d(Y,Z))`, but `or_d` rejects a non-dissatisfiable first argument.) -/
theorem norm_sem (W : Pol.World) (ms : Ms) (t : Ty) (h : typeOf ms = some t) :
    MsSem.sem W (norm ms) = MsSem.sem W ms :=
  sem_norm W ms t h

example : typeOf Toy.m2 = typeOf (norm Toy.m2) ∧ (typeOf Toy.m2).isSome = true := by
  constructor
  · cases h : typeOf Toy.m2 with
    | none => exact absurd h (by decide +kernel)
    | some t => exact (norm_type _ t h).symm
  · decide +kernel

/-- the round trip of an accepted, well-typed `ms` whose normal form `from_ast` accepts: the
decoder returns `norm ms`, which has byte-identical script, identical type and identical
spending condition -/
theorem roundtrip_preserves (dec : AtomDec) (env : KeyEnv) (ctx : Ctx) (ms : Ms) (t : Ty)
    (hty : typeOf ms = some t) (hform : form .A (norm ms) = true) (hok : DecOk dec env ctx (norm ms)) :
    ∃ d, decodeToks dec env ctx (tokens env ctx ms) = .ok (d, []) ∧
      encode env ctx d = encode env ctx ms ∧ typeOf d = some t ∧
      ∀ W, MsSem.sem W d = MsSem.sem W ms :=
  ⟨norm ms, decode_encode_norm dec env ctx ms hform hok, norm_encode env ctx ms, norm_type ms t hty,
    fun W => norm_sem W ms t hty⟩

example : ∃ d, decodeToks Toy.dec Toy.env .segwitv0 (tokens Toy.env .segwitv0 Toy.m2) = .ok (d, []) ∧
    encode Toy.env .segwitv0 d = encode Toy.env .segwitv0 Toy.m2 ∧ typeOf d = typeOf Toy.m2 := by
  cases h : typeOf Toy.m2 with
  | none => exact absurd h (by decide +kernel)
  | some t =>
    have hn : norm Toy.m2 = Toy.m1 := by decide +kernel
    obtain ⟨d, h1, h2, h3, _⟩ := roundtrip_preserves Toy.dec Toy.env .segwitv0 Toy.m2 t h
      (by rw [hn]; decide) (by
        rw [hn]
        simp only [Toy.m1, Toy.vpk, Toy.pk, DecOk]
        repeat' apply And.intro
        all_goals first | rfl | decide)
    exact ⟨d, h1, h2, h3⟩

/-- the normal form and the de-sugaring keep the token list (so the re-encoding of what the
decoder returns is byte-identical, by `lex_serialize` on both sides) -/
theorem norm_desugar_tokens (env : KeyEnv) (ctx : Ctx) (rp : Key → Nat)
    (h : ∀ k, env.rawPkh (rp k) = env.pkh k) (ms : Ms) :
    tokens env ctx (norm (desugar env rp ms)) = tokens env ctx ms := by
  rw [tokens_norm, tokens_desugar env ctx rp h]

/-- Taproot over FULL keys: the encoder serialises every key through `to_x_only_pubkey`, i.e.
the script of `ms` under the renamed key environment is the script of the renamed miniscript
(`reKey f ms` = the x-only translation), which is what the decoder then returns -/
theorem encode_full_keys_tap (env : KeyEnv) (ctx : Ctx) (f : Key → Key) (ms : Ms) :
    encode env ctx (reKey f ms) = encode (envRe env f) ctx ms :=
  encode_reKey env ctx f ms

example : encode Toy.env .tap (reKey (· + 200) Toy.m1) = encode (envRe Toy.env (· + 200)) .tap Toy.m1 :=
  encode_full_keys_tap _ _ _ _

/-- T2a ∘ T3 on bytes: `decode_with_validation_params(encode(ms), params) = ms` whenever the
top-level checks pass for `ms` -/
theorem roundtrip_bytesP (p : DecParams) (dec : AtomDec) (env : KeyEnv) (ctx : Ctx) (ms : Ms)
    (hatoms : AtomsOk env ms) (hform : form .A ms = true) (hok : DecOk dec env ctx ms)
    (hglobal : checkGlobal env ctx ms = true) (hty : (typeOf ms).isSome = true)
    (hval : validateWith p env ctx ms = true) :
    decodeScriptP p dec env ctx (serialize (encode env ctx ms)) = .ok ms := by
  unfold decodeScriptP
  rw [lex_serialize env ctx ms hatoms]
  simp only [decode_encode dec env ctx ms hform hok]
  simp [hglobal, hval]
  cases h : typeOf ms with
  | none => simp [h] at hty
  | some t => simp

/-- `decode_consensus(encode(ms)) = ms` -/
theorem roundtrip_bytes (dec : AtomDec) (env : KeyEnv) (ctx : Ctx) (ms : Ms)
    (hatoms : AtomsOk env ms) (hform : form .A ms = true) (hok : DecOk dec env ctx ms)
    (hglobal : checkGlobal env ctx ms = true) (hty : (typeOf ms).isSome = true)
    (hval : validateConsensus env ctx ms = true) :
    decodeScript dec env ctx (serialize (encode env ctx ms)) = .ok ms :=
  roundtrip_bytesP .consensus dec env ctx ms hatoms hform hok hglobal hty hval

/-- the permissive entry point (`ValidationParams::MAX`) accepts whatever the consensus entry
point accepts, with the same result: `CONSENSUS` validation only ever rejects more -/
theorem consensus_sub_max (dec : AtomDec) (env : KeyEnv) (ctx : Ctx) (bs : Bytes) (ms : Ms)
    (h : decodeScript dec env ctx bs = .ok ms) : decodeScriptP .max dec env ctx bs = .ok ms := by
  unfold decodeScript decodeScriptP at h
  unfold decodeScriptP
  cases hl : lex bs with
  | error e => simp [hl] at h
  | ok toks =>
    simp only [hl] at h ⊢
    cases hd : decodeToks dec env ctx toks with
    | error e => simp [hd] at h
    | ok r =>
      obtain ⟨top, rest⟩ := r
      simp only [hd] at h ⊢
      by_cases h1 : (!checkGlobal env ctx top) = true
      · simp [h1] at h
      · by_cases h2 : (typeOf top).isNone = true
        · simp [h1, h2] at h
        · by_cases h3 : (!rest.isEmpty) = true
          · simp [h1, h2, h3] at h
          · by_cases h4 : (!validateWith .consensus env ctx top) = true
            · simp [h1, h2, h3, h4] at h
            · simp only [h1, h2, h3, h4, if_false, Bool.false_eq_true, Except.ok.injEq] at h
              subst h
              have hh : (extOf env ctx top).treeHeight ≤ 402 := by
                have hv : validateConsensus env ctx top = true := by simpa [validateWith] using h4
                unfold validateConsensus at hv
                by_cases hgt : (extOf env ctx top).treeHeight > 402
                · simp [hgt] at hv
                · omega
              simp [h1, h2, h3, validateWith, hh]

example : decodeScriptP .max Toy.dec Toy.env .segwitv0 (serialize (encode Toy.env .segwitv0 Toy.m1)) = .ok Toy.m1 :=
  consensus_sub_max _ _ _ _ _ (by
    refine roundtrip_bytes _ _ _ _ ?_ (by decide) ?_ (by decide +kernel) (by decide +kernel) (by decide +kernel)
    · simp only [Toy.m1, Toy.vpk, Toy.pk, AtomsOk, keyLenOk, Toy.env, hashLen]; simp
    · simp only [Toy.m1, Toy.vpk, Toy.pk, DecOk]
      repeat' apply And.intro
      all_goals first | rfl | decide)

example : decodeScript Toy.dec Toy.env .segwitv0 (serialize (encode Toy.env .segwitv0 Toy.m1)) = .ok Toy.m1 := by
  refine roundtrip_bytes _ _ _ _ ?_ (by decide) ?_ (by decide +kernel) (by decide +kernel) (by decide +kernel)
  · simp only [Toy.m1, Toy.vpk, Toy.pk, AtomsOk, keyLenOk, Toy.env, hashLen]; simp
  · simp only [Toy.m1, Toy.vpk, Toy.pk, DecOk]
    repeat' apply And.intro
    all_goals first | rfl | decide

/-! ### T4: the decoder accepts only canonical encodings -/

/-- parser half: the tokens `decode` consumed are exactly the tokens of the miniscript it
returns, for every well-formed token list (`WfAll`: what the lexer produces) and every reverse
lookup that is sound for `env` (`DecSound`) — full decoder, thresholds and multisigs included -/
theorem decode_canonical_tokens (dec : AtomDec) (env : KeyEnv) (ctx : Ctx) (hs : DecSound dec env ctx)
    (toks rest : List Token) (ms : Ms) (hw : WfAll toks)
    (h : decodeToks dec env ctx toks = .ok (ms, rest)) :
    toks = rest.reverse ++ tokens env ctx ms := by
  have := congrArg List.reverse (decodeToks_canonical hs hw h)
  simpa [rt] using this

/-- T4: a script that `decode_with_validation_params` (with `Ctx::CONSENSUS` or `MAX`) accepts
is byte for byte the encoding of the miniscript returned — no hypothesis on the script -/
theorem decode_canonical (p : DecParams) (dec : AtomDec) (env : KeyEnv) (ctx : Ctx)
    (hs : DecSound dec env ctx) (bs : Bytes) (ms : Ms) (h : decodeScriptP p dec env ctx bs = .ok ms) :
    encodeBytes env ctx ms = bs :=
  decodeScriptP_canonical hs h

/-- the same for `decode_consensus` -/
theorem decode_consensus_canonical (dec : AtomDec) (env : KeyEnv) (ctx : Ctx)
    (hs : DecSound dec env ctx) (bs : Bytes) (ms : Ms) (h : decodeScript dec env ctx bs = .ok ms) :
    encodeBytes env ctx ms = bs :=
  decodeScriptP_canonical hs h

/-- hence decoding is injective: two accepted scripts with the same miniscript are equal -/
theorem decode_injective (p q : DecParams) (dec : AtomDec) (env : KeyEnv) (ctx : Ctx)
    (hs : DecSound dec env ctx) (bs₁ bs₂ : Bytes) (ms : Ms)
    (h1 : decodeScriptP p dec env ctx bs₁ = .ok ms) (h2 : decodeScriptP q dec env ctx bs₂ = .ok ms) :
    bs₁ = bs₂ :=
  (decode_canonical p dec env ctx hs bs₁ ms h1).symm.trans (decode_canonical q dec env ctx hs bs₂ ms h2)

/-- the lexer's outputs meet the token hypothesis of `decode_canonical_tokens` -/
theorem lex_wellformed (bs : Bytes) (ts : List Token) (h : lex bs = .ok ts) : WfAll ts := lex_wf h

example : DecSound Toy.decS Toy.env .segwitv0 := Toy.decS_sound _

/-- witness with `andor`, `thresh`, `multi`, two hash kinds and a lock: it is accepted, so by
`decode_canonical` its bytes are the encoding (here used in the direction accepted ⇒ canonical) -/
example : ∃ bs, decodeScript Toy.decS Toy.env .segwitv0 bs = .ok Toy.m3 ∧
    encodeBytes Toy.env .segwitv0 Toy.m3 = bs := by
  have h : decodeScript Toy.decS Toy.env .segwitv0 (serialize (encode Toy.env .segwitv0 Toy.m3)) = .ok Toy.m3 := by
    refine roundtrip_bytes _ _ _ _ ?_ (by decide) ?_ (by decide +kernel) (by decide +kernel) (by decide +kernel)
    · simp only [Toy.m3, Toy.pk, AtomsOk, AtomsOkL, keyLenOk, Toy.env, hashLen]; simp
    · simp only [Toy.m3, Toy.pk, DecOk, DecOkL, FullKeyOk]
      repeat' apply And.intro
      all_goals first
        | rfl | decide
        | (intro x hx; simp at hx; rcases hx with rfl | rfl | rfl <;> exact ⟨rfl, by decide⟩)
  exact ⟨_, h, decode_consensus_canonical _ _ _ (Toy.decS_sound _) _ _ h⟩

end MsVerif.C04

/-
C11 (expression-parser half) — "No input … makes the library panic, overflow the stack, loop,
or allocate without bound", restricted to `expression::Tree::from_str` and `parse_num`.

Model: `Model/Expr.lean`.  Every Rust panic site of `parse_pre_check` / `from_str_inner`
(`expect`, `nodes[idx]`, `&s[a..b]`, `s.as_bytes()[pos + 1]`, the three `assert_eq!` on the
`Vec` capacities) and of the checksum engine it calls is an explicit `PErr.panic` outcome of the
model; the theorems show that outcome unreachable for EVERY input.

Termination / no loop: every function of the model is structurally recursive over the input
character list (accepted by Lean without `partial` or fuel); the Rust loops are `for` loops over
the same bytes.  Allocation: the only allocations are `Vec::with_capacity(n_nodes)` and
`with_capacity(max_depth)`; `builder_matches_pre_check` shows they are never exceeded
(no reallocation), and `n_nodes ≤ len + 1`, `max_depth ≤ len` (`pre_check_linear`).
Not covered by a theorem: the size of native stack frames (the parser itself is iterative).
-/
import MsVerif.Lemmas.ExprBuild
import MsVerif.Lemmas.ChecksumString
import MsVerif.Lemmas.ExprRound
import MsVerif.Lemmas.ExprPrint
import MsVerif.Lemmas.ExprBuildTree

namespace MsVerif.C11
open MsVerif MsVerif.Expr MsVerif.Checksum

/-- pass 1 (`parse_pre_check`, including `verify_checksum`) cannot panic -/
theorem pre_check_no_panic (s : List Char) : parsePreCheck s ≠ .error .panic := by
  unfold parsePreCheck
  cases hv : verifyChecksumL s with
  | panic => exact absurd hv (verifyChecksumL_ne_panic s)
  | err e => simp [throw, throwThe, MonadExceptOf.throw]
  | ok body =>
    simp only
    cases hp : preLoop body.length 0 body ⟨1, 0, []⟩ with
    | error e =>
      have := preLoop_ne_panic (len := body.length) body 0 ⟨1, 0, []⟩ (by simp)
      rw [hp] at this
      simp only [throw, throwThe, MonadExceptOf.throw, ne_eq, Except.error.injEq]
      intro e'; exact this (by rw [e'])
    | ok st =>
      simp only
      cases st.stack with
      | cons o rest => obtain ⟨oc, op⟩ := o; simp [throw, throwThe, MonadExceptOf.throw]
      | nil =>
        simp only
        split <;> simp [throw, throwThe, MonadExceptOf.throw, pure, Except.pure]

/-- what an accepted pre-check means -/
theorem pre_check_ok {s body : List Char} {D N : Nat} (h : parsePreCheck s = .ok (body, D, N)) :
    ∃ pst, preLoop body.length 0 body ⟨1, 0, []⟩ = .ok pst ∧ pst.stack = [] ∧
      pst.maxDepth = D ∧ pst.nNodes = N ∧ D ≤ MAX_RECURSION_DEPTH + 1 := by
  unfold parsePreCheck at h
  cases hv : verifyChecksumL s with
  | panic => rw [hv] at h; simp [throw, throwThe, MonadExceptOf.throw] at h
  | err e => rw [hv] at h; simp [throw, throwThe, MonadExceptOf.throw] at h
  | ok b =>
    rw [hv] at h
    simp only at h
    cases hp : preLoop b.length 0 b ⟨1, 0, []⟩ with
    | error e => rw [hp] at h; simp [throw, throwThe, MonadExceptOf.throw] at h
    | ok st =>
      rw [hp] at h
      simp only at h
      cases hst : st.stack with
      | cons o rest =>
        rw [hst] at h; obtain ⟨oc, op⟩ := o; simp [throw, throwThe, MonadExceptOf.throw] at h
      | nil =>
        rw [hst] at h
        simp only at h
        split at h
        · simp [throw, throwThe, MonadExceptOf.throw] at h
        · rename_i hle
          simp only [pure, Except.pure, Except.ok.injEq, Prod.mk.injEq] at h
          obtain ⟨hb, hD, hN⟩ := h
          subst hb
          exact ⟨st, hp, hst, hD, hN, by omega⟩

/-- the two `Vec::with_capacity` requests are linear in the input: at most `len + 1` nodes and a
parent stack of at most `len` (in fact at most 403 = `MAX_RECURSION_DEPTH + 1`) entries — no unbounded allocation. -/
theorem pre_check_linear {s body : List Char} {D N : Nat} (h : parsePreCheck s = .ok (body, D, N)) :
    N ≤ body.length + 1 ∧ D ≤ body.length ∧ D ≤ 403 ∧ body.length ≤ s.length := by
  obtain ⟨pst, h1, _, h3, h4, h5⟩ := pre_check_ok h
  have := preLoop_linear h1 (Nat.le_refl _) (Nat.le_refl _) (Nat.le_refl _)
  rw [h3, h4] at this
  refine ⟨by omega, by omega, h5, ?_⟩
  -- the body is a prefix of the input
  unfold parsePreCheck at h
  cases hv : verifyChecksumL s with
  | panic => rw [hv] at h; simp [throw, throwThe, MonadExceptOf.throw] at h
  | err e => rw [hv] at h; simp [throw, throwThe, MonadExceptOf.throw] at h
  | ok b =>
    rw [hv] at h
    have hb : b = body := by
      simp only at h
      cases hp : preLoop b.length 0 b ⟨1, 0, []⟩ with
      | error e => rw [hp] at h; simp [throw, throwThe, MonadExceptOf.throw] at h
      | ok st =>
        rw [hp] at h
        simp only at h
        cases hst : st.stack with
        | cons o rest =>
          rw [hst] at h; obtain ⟨oc, op⟩ := o; simp [throw, throwThe, MonadExceptOf.throw] at h
        | nil =>
          rw [hst] at h
          simp only at h
          split at h
          · simp [throw, throwThe, MonadExceptOf.throw] at h
          · simp only [pure, Except.pure, Except.ok.injEq, Prod.mk.injEq] at h
            exact h.1
    subst hb
    unfold verifyChecksumL at hv
    cases hsc : scanHash s 0 s.length with
    | none => rw [hsc] at hv; simp at hv
    | some k =>
      rw [hsc] at hv
      simp only at hv
      split at hv
      · split at hv
        · cases hv
        · split at hv
          · cases hv
          · split at hv
            · cases hv
            · injection hv with hv; rw [← hv]; simp [List.length_take]; omega
      · injection hv with hv; rw [← hv]; simp [List.length_take]; omega

/-- **the two passes agree**: whenever pass 1 accepts with `(max_depth, n_nodes)`, pass 2 runs
to completion without reaching any panic site, pushes exactly `n_nodes` nodes into a vector that
never reallocates, never lets the parent stack outgrow `max_depth`, and every node it creates
sits at depth ≤ `max_depth` — so the three `assert_eq!` hold. -/
theorem builder_matches_pre_check (body : List Char) (D N : Nat) (pst : PreSt)
    (hp : preLoop body.length 0 body ⟨1, 0, []⟩ = .ok pst) (hst : pst.stack = [])
    (hD : pst.maxDepth = D) (hN : pst.nNodes = N) :
    ∃ nodes, build body D N = .ok nodes ∧ nodes.size = N ∧
      ∀ i, i < nodes.size → ∃ d, d ≤ D ∧ HasDepth nodes i d := by
  have hs : body.toArray.size = body.length := List.size_toArray
  have r0 : Rel N D ⟨1, 0, []⟩
      { nodes := #[], nodesCap := N, stack := [], stackCap := D, current := some (Node.null 0) }
      0 body :=
    { depth := rfl, count := rfl
      name := fun c e => by simp only [Option.some.injEq] at e; rw [← e]; exact Nat.le_refl _
      fresh := fun c e => by simp only [Option.some.injEq] at e; rw [← e]; rfl
      look := fun e => by cases e
      stack := fun p hp => by cases hp
      dmax := Nat.le_refl _, ncap := rfl, scap := rfl
      dle := Nat.zero_le _
      dinv := { chain := trivial
                curpar := fun c e => by simp only [Option.some.injEq] at e; rw [← e]; rfl
                alld := fun i hi => by simp at hi
                sdepth := Nat.zero_le _ } }
  have hphi : pst.phi ≤ N := by simp [PreSt.phi, hst, hN]
  obtain ⟨bstF, hb, rF⟩ := buildLoop_ok hs body 0 ⟨1, 0, []⟩ pst _ (by simp) r0 hp hphi
    (by rw [hD]; exact Nat.le_refl _)
  have hcount := rF.count
  rw [hst, hN] at hcount
  simp only [List.length_nil, Nat.add_zero] at hcount
  obtain ⟨st1, hf, hsz1, hcap1, _, hscap1, _, hdep1⟩ :=
    flushCurrent_ok (s := body.toArray) (pos := body.toArray.size) (st := bstF) (Nat.le_refl _)
      (by intro c e; rw [hs]; exact rF.name c e)
      (by intro h1; rw [rF.ncap]; omega)
  refine ⟨st1.nodes, ?_, by omega, (hdep1 D rF.dinv).2⟩
  unfold build
  simp only [hb, hf]
  have e1 : st1.stackCap = D := by rw [hscap1]; exact rF.scap
  have e2 : st1.nodesCap = N := by rw [hcap1]; exact rF.ncap
  have e3 : st1.nodes.size = st1.nodesCap := by rw [e2]; omega
  simp [e1, e2, e3, pure, Except.pure]

/-- **T1** `Tree::from_str` never panics — for every input string (any characters, any length,
any nesting). -/
theorem expr_parser_no_panic (s : List Char) : fromStrInner s ≠ .error .panic := by
  unfold fromStrInner
  cases hp : parsePreCheck s with
  | error e =>
    have := pre_check_no_panic s
    rw [hp] at this
    simp only [throw, throwThe, MonadExceptOf.throw, ne_eq, Except.error.injEq]
    intro e'; exact this (by rw [e'])
  | ok r =>
    obtain ⟨body, D, N⟩ := r
    obtain ⟨pst, h1, h2, h3, h4, _⟩ := pre_check_ok hp
    obtain ⟨nodes, hb, _⟩ := builder_matches_pre_check body D N pst h1 h2 h3 h4
    simp only [hb]
    intro e; cases e

example : fromStrInner "a{b(c),d}#".toList ≠ .error .panic := expr_parser_no_panic _

/-- accepted trees have exactly the pre-checked number of nodes and depth ≤ 403
(`MAX_RECURSION_DEPTH + 1`, the bound `parse_pre_check` applies since /repo 4d088e26): every node
is reached from the root by at most 403 parent links. -/
theorem parse_tree_depth_bounded (s : List Char) (nodes : Array Node)
    (h : fromStrInner s = .ok nodes) :
    0 < nodes.size ∧ ∀ i, i < nodes.size → ∃ d, d ≤ 403 ∧ HasDepth nodes i d := by
  unfold fromStrInner at h
  cases hp : parsePreCheck s with
  | error e => rw [hp] at h; simp [throw, throwThe, MonadExceptOf.throw] at h
  | ok r =>
    obtain ⟨body, D, N⟩ := r
    rw [hp] at h
    simp only at h
    obtain ⟨pst, h1, h2, h3, h4, h5⟩ := pre_check_ok hp
    obtain ⟨nodes', hb, hsz, hd⟩ := builder_matches_pre_check body D N pst h1 h2 h3 h4
    rw [hb] at h
    cases h
    constructor
    · have := (preLoop_mono h1 (Nat.le_refl _)).1
      simp only [PreSt.phi, h2, h4, List.length_nil] at this
      omega
    · intro i hi
      obtain ⟨d, hd1, hd2⟩ := hd i hi
      exact ⟨d, Nat.le_trans hd1 h5, hd2⟩

example : (fromStrInner "wsh(multi(2,A,B))".toList).toOption.map Array.size = some 5 := by
  decide +kernel

/-- nesting one level deeper than the limit is an error, not a crash (404 levels) -/
theorem depth_404_rejected :
    err? (fromStrInner (List.replicate 404 '(' ++ List.replicate 404 ')'))
      = some (.err (.maxRecursionDepthExceeded 404)) := by decide +kernel

/-- nesting 403 — what a Miniscript of the maximal height 402 prints — is accepted -/
theorem depth_403_accepted :
    ∃ nodes, fromStrInner (List.replicate 403 '(' ++ List.replicate 403 ')') = .ok nodes ∧
      nodes.size = 404 := by
  have h : (parsePreCheck (List.replicate 403 '(' ++ List.replicate 403 ')')).toOption.map
      (fun r => r.2) = some (403, 404) := by decide +kernel
  cases hp : parsePreCheck (List.replicate 403 '(' ++ List.replicate 403 ')') with
  | error e => rw [hp] at h; cases h
  | ok r =>
    obtain ⟨body, D, N⟩ := r
    rw [hp] at h
    simp only [Except.toOption, Option.map, Option.some.injEq, Prod.mk.injEq] at h
    obtain ⟨hD, hN⟩ := h
    subst hD; subst hN
    obtain ⟨pst, h1, h2, h3, h4, _⟩ := pre_check_ok hp
    obtain ⟨nodes, hb, hsz, _⟩ := builder_matches_pre_check body 403 404 pst h1 h2 h3 h4
    exact ⟨nodes, by unfold fromStrInner; rw [hp]; exact hb, hsz⟩

/-! ## `parse_num` -/

theorem u32_go_range (s : List Char) (acc n : Nat) (ha : acc ≤ 4294967295)
    (h : u32FromStr.go s acc = .ok n) : n ≤ 4294967295 := by
  induction s generalizing acc with
  | nil => simp only [u32FromStr.go, pure, Except.pure, Except.ok.injEq] at h; omega
  | cons c cs ih =>
    unfold u32FromStr.go at h
    split at h
    · simp only at h
      split at h
      · simp [throw, throwThe, MonadExceptOf.throw] at h
      · exact ih _ (by omega) h
    · simp [throw, throwThe, MonadExceptOf.throw] at h

/-- `parse_num` never returns a value outside `u32` (no wrap-around), never panics (the model has
no panic site: `u32::from_str` uses checked arithmetic) and terminates (structural recursion). -/
theorem parse_num_range (s : List Char) (n : Nat) (h : parseNum s = .ok n) : n < 2 ^ 32 := by
  unfold parseNum at h
  split at h
  · simp only [pure, Except.pure, Except.ok.injEq] at h; omega
  · have key : ∀ m, u32FromStr s = .ok m → m ≤ 4294967295 := by
      intro m hm
      unfold u32FromStr at hm
      split at hm
      · simp [throw, throwThe, MonadExceptOf.throw] at hm
      · exact u32_go_range s 0 m (by omega) hm
    split at h
    · split at h
      · have := key n h; omega
      · simp [throw, throwThe, MonadExceptOf.throw] at h
    · have := key n h; omega

/-- leading zeros, signs and the empty string are rejected; only `"0"` itself starts with `0` -/
theorem parse_num_leading (c : Char) (cs : List Char) (n : Nat) (h : parseNum (c :: cs) = .ok n) :
    (c = '0' ∧ cs = [] ∧ n = 0) ∨ ('1' ≤ c ∧ c ≤ '9') := by
  unfold parseNum at h
  split at h
  · rename_i h0
    simp only [pure, Except.pure, Except.ok.injEq] at h
    simp only [List.cons.injEq] at h0
    exact Or.inl ⟨h0.1, h0.2, h.symm⟩
  · simp only [List.head?_cons] at h
    split at h
    · rename_i hd; exact Or.inr hd
    · simp [throw, throwThe, MonadExceptOf.throw] at h

example : (parseNum "4294967295".toList).toOption = some 4294967295 := by decide +kernel
example : err? (parseNum "4294967296".toList) = some .posOverflow := by decide +kernel
example : err? (parseNum "007".toList) = some .invalidLeadingDigit := by decide +kernel

/-! ## round trip (expression grammar) -/

/-- **the parser accepts everything the printer emits** (proved part of the round trip): for
every well-formed tree (names free of `(){},#`, a node has brackets iff it has children) of depth
≤ 403, `Tree::from_str (print t)` succeeds, without reaching a panic site, with exactly
`size t` nodes, none deeper than `depth t`.  (`parse_print_roundtrip` below adds that the table
carries exactly `t`; the name keeps its `_partial` suffix for the users of this statement.) -/
theorem printed_tree_accepted_partial (t : Tree) (hw : t.WF) (hd : t.depth ≤ 403) :
    ∃ nodes, fromStrInner t.print = .ok nodes ∧ nodes.size = t.size ∧
      ∀ i, i < nodes.size → ∃ d, d ≤ t.depth ∧ HasDepth nodes i d := by
  have hp := parsePreCheck_print t hw hd
  obtain ⟨pst, h1, h2, h3, h4, _⟩ := pre_check_ok hp
  obtain ⟨nodes, hb, hsz, hdep⟩ := builder_matches_pre_check _ _ _ pst h1 h2 h3 h4
  exact ⟨nodes, by unfold fromStrInner; rw [hp]; exact hb, hsz, hdep⟩

example : ∃ nodes, fromStrInner (crl "tr" [rnd "pk" [leaf "A"], leaf "B"]).print = .ok nodes ∧
    nodes.size = 4 := by
  obtain ⟨n, h1, h2, _⟩ := printed_tree_accepted_partial (crl "tr" [rnd "pk" [leaf "A"], leaf "B"])
    (by simp [crl, rnd, leaf, Tree.WF, Tree.WFList, NameOk, special, validChar]) (by decide)
  exact ⟨n, h1, h2⟩

/-- trees deeper than the limit are rejected with `MaxRecursionDepthExceeded` — never a crash -/
theorem printed_deep_tree_rejected (t : Tree) (hw : t.WF) (hd : 403 < t.depth) :
    err? (fromStrInner t.print) = some (.err (.maxRecursionDepthExceeded t.depth)) := by
  have hcl := print_clean t hw
  unfold fromStrInner parsePreCheck
  rw [verify_clean hcl]
  simp only
  have h := preLoop_tree t hw t.print.length 0 [] ⟨1, 0, []⟩ (by simp) (Nat.le_refl _)
    (by simp [Follow])
  rw [List.append_nil] at h
  rw [h]
  simp only [preLoop, adv, pure, Except.pure, List.length_nil, Nat.zero_add]
  have e1 : max 0 t.depth = t.depth := by omega
  have : t.depth > MAX_RECURSION_DEPTH + 1 := by simp only [MAX_RECURSION_DEPTH]; omega
  rw [e1]
  simp only [this, if_true, throw, throwThe, MonadExceptOf.throw, err?]

/-- **expression grammar round trip** `Tree::from_str (print t) = t`, for EVERY tree that the
printer prints injectively: well-formed (names free of `(){},#` and of characters outside the
charset; a node has brackets iff it has children — `a` and `a()` are different trees, the latter
has one child with the empty name) and of depth ≤ 403 (deeper ones are rejected:
`printed_deep_tree_rejected`).  The parser succeeds and the node table it builds, read in
pre-order with the child counts (`toTree`, which is how `TreeIterItem::children` walks it),
is `t` itself: same names, same bracket kinds (`(` vs `{`), same children in the same order. -/
theorem parse_print_roundtrip (t : Tree) (hw : t.WF) (hd : t.depth ≤ 403) :
    ∃ nodes, fromStrInner t.print = .ok nodes ∧ toTree nodes = some t := by
  obtain ⟨nodes, hok, _, _⟩ := printed_tree_accepted_partial t hw hd
  refine ⟨nodes, hok, ?_⟩
  unfold fromStrInner at hok
  rw [parsePreCheck_print t hw hd] at hok
  exact toTree_of_preorder nodes t (build_print t hw _ _ nodes hok)

/-- a taproot descriptor shape: round and curly children, a threshold, a hash, a lock, wrappers,
an empty name (the nested `{…}` of the tap tree) -/
example : ∃ nodes,
    fromStrInner "tr(K,{thresh(2,pk(A),s:sha256(H),sln:older(144)),{pk(B),multi_a(1,C,D)}})".toList
      = .ok nodes ∧
    toTree nodes = some (rnd "tr" [leaf "K", crl "" [
      rnd "thresh" [leaf "2", rnd "pk" [leaf "A"], rnd "s:sha256" [leaf "H"], rnd "sln:older" [leaf "144"]],
      crl "" [rnd "pk" [leaf "B"], rnd "multi_a" [leaf "1", leaf "C", leaf "D"]]]]) := by
  have h := parse_print_roundtrip (rnd "tr" [leaf "K", crl "" [
      rnd "thresh" [leaf "2", rnd "pk" [leaf "A"], rnd "s:sha256" [leaf "H"], rnd "sln:older" [leaf "144"]],
      crl "" [rnd "pk" [leaf "B"], rnd "multi_a" [leaf "1", leaf "C", leaf "D"]]]])
    (by simp [crl, rnd, leaf, Tree.WF, Tree.WFList, NameOk, special, validChar]) (by decide)
  have e : (rnd "tr" [leaf "K", crl "" [
      rnd "thresh" [leaf "2", rnd "pk" [leaf "A"], rnd "s:sha256" [leaf "H"], rnd "sln:older" [leaf "144"]],
      crl "" [rnd "pk" [leaf "B"], rnd "multi_a" [leaf "1", leaf "C", leaf "D"]]]]).print
      = "tr(K,{thresh(2,pk(A),s:sha256(H),sln:older(144)),{pk(B),multi_a(1,C,D)}})".toList := by
    decide +kernel
  rw [e] at h
  exact h

/-- the parser is a left inverse of the printer, so the printer is injective on these trees -/
theorem print_injective (t u : Tree) (ht : t.WF) (hu : u.WF) (hdt : t.depth ≤ 403)
    (hdu : u.depth ≤ 403) (h : t.print = u.print) : t = u := by
  obtain ⟨n1, h1, r1⟩ := parse_print_roundtrip t ht hdt
  obtain ⟨n2, h2, r2⟩ := parse_print_roundtrip u hu hdu
  rw [h, h2] at h1
  have : n2 = n1 := by injection h1
  rw [this, r1] at r2
  exact Option.some.inj r2

/-- instances: all 14 trees of depth ≤ 1 (1–2 children, leaves `` / `a:b`, inner nodes `(…)` /
`a{…}`) and five descriptor-shaped trees round-trip (kernel evaluation) -/
theorem parse_print_roundtrip_partial : sampleTrees.all roundtripOk = true := by
  decide +kernel

example : sampleTrees.length = 19 := by decide +kernel

end MsVerif.C11

/-
The bridge theorem: the flat opcode interpreter `Script.run` on the encoded script
`encode ke ctx ms` equals the structured fragment semantics `frag` (Spec/Frag.lean) — an
equation in `Except Err State`, errors included, for EVERY `ms` (no typing hypothesis), every
core state and every all-true condition stack.

Side conditions (and why):
* `hlim` — `frag` summarises a non-executed branch by the closed form `skipCount` ("oversized
  push? then `pushSize`, else add the opcode count"), whereas the interpreter walks through the
  branch and reports whichever of `opCount` / `pushSize` comes FIRST.  The two agree unless
  both limits are effective AND the script contains a push of more than 520 bytes
  (`both_limits_counterexample`).  Real key environments never produce such a push
  (`KeyEnv.Small`, `encode_noBigPush`), so with realistic keys all limits may be on.
* `hstk` — with `stackLimits` on, the start state must itself respect the 1000-element limit:
  `frag` reads `v:` over a fused opcode as "opcode, then VERIFY", and the intermediate boolean
  push is subject to the stack-size check, while `OP_EQUALVERIFY` etc. never push.

Theorems only; all definitions are in Lemmas/Bridge*.lean.
-/
import MsVerif.Lemmas.BridgeExtra

namespace MsVerif.Bridge
open MsVerif MsVerif.Script

/-- every encoding is conditionally balanced (IF/NOTIF … [ELSE] … ENDIF properly nested) -/
theorem encode_balanced (ke : KeyEnv) (ctx : Ctx) (ms : Ms) : balanced (encode ke ctx ms) = true :=
  balanced_encode ke ctx ms

theorem encodeThresh_balanced (ke : KeyEnv) (ctx : Ctx) (first : Bool) (xs : MsList) :
    balanced (encodeThresh ke ctx first xs) = true :=
  balanced_encodeThresh ke ctx first xs

example : balanced (encode exKe .segwitv0 exMs) = true := encode_balanced _ _ _

/-- General form: limits may be on.  `hlim`: the op-count limit is not effective, or the
stack limits are off, or no push in the script exceeds 520 bytes.  `hstk`: the start state
respects the stack-size limit if it is enforced. -/
theorem exec_encode_eq_frag_limits (env : Env) (ke : KeyEnv) (ctx : Ctx) (ms : Ms) (c : Core)
    (cs : List Bool) (hcs : cs.all id = true)
    (hlim : (env.flags.opLimit && !env.flags.tapscript) = false ∨ env.flags.stackLimits = false
      ∨ bigPush (encode ke ctx ms) = false)
    (hstk : env.flags.stackLimits = true → c.stack.length + c.alt.length ≤ 1000) :
    run env (encode ke ctx ms) ⟨c, cs⟩ = (frag env ke ctx ms c).map (fun c' => ⟨c', cs⟩) :=
  sim_encode env ke ctx ms hlim c cs hcs hstk

example : run (exEnv true true) (encode exKeSmall .segwitv0 exMs) ⟨⟨[[1], [2, 3]], [], 7⟩, [true]⟩
    = (frag (exEnv true true) exKeSmall .segwitv0 exMs ⟨[[1], [2, 3]], [], 7⟩).map (fun c' => ⟨c', [true]⟩) :=
  exec_encode_eq_frag_limits _ _ _ _ _ _ rfl
    (.inr (.inr (encode_noBigPush _ _ exKeSmall_small _))) (fun _ => by decide)

/-- The same for the children of `thresh`. -/
theorem exec_encodeThresh_eq_fragThresh (env : Env) (ke : KeyEnv) (ctx : Ctx) (first : Bool)
    (xs : MsList) (c : Core) (cs : List Bool) (hcs : cs.all id = true)
    (hlim : (env.flags.opLimit && !env.flags.tapscript) = false ∨ env.flags.stackLimits = false
      ∨ bigPush (encodeThresh ke ctx first xs) = false)
    (hstk : env.flags.stackLimits = true → c.stack.length + c.alt.length ≤ 1000) :
    run env (encodeThresh ke ctx first xs) ⟨c, cs⟩
      = (fragThresh env ke ctx first xs c).map (fun c' => ⟨c', cs⟩) :=
  sim_thresh env ke ctx first xs hlim c cs hcs hstk

/-- Stack limits off (op-count limit arbitrary): no further hypothesis. -/
theorem exec_encode_eq_frag_nostack (env : Env) (ke : KeyEnv) (ctx : Ctx) (ms : Ms) (c : Core)
    (cs : List Bool) (hcs : cs.all id = true) (hlim : env.flags.stackLimits = false) :
    run env (encode ke ctx ms) ⟨c, cs⟩ = (frag env ke ctx ms c).map (fun c' => ⟨c', cs⟩) :=
  exec_encode_eq_frag_limits env ke ctx ms c cs hcs (.inr (.inl hlim))
    (fun h => by rw [hlim] at h; cases h)

example : run (exEnv true false) (encode exKe .segwitv0 exMsBad) ⟨⟨[[]], [], 200⟩, []⟩
    = (frag (exEnv true false) exKe .segwitv0 exMsBad ⟨[[]], [], 200⟩).map (fun c' => ⟨c', []⟩) :=
  exec_encode_eq_frag_nostack _ _ _ _ _ _ rfl rfl

/-- The bridge theorem as specified in DESIGN.md §2.2 (both limits off). -/
theorem exec_encode_eq_frag (env : Env) (ke : KeyEnv) (ctx : Ctx) (ms : Ms) (c : Core) (cs : List Bool)
    (hcs : cs.all id = true) (hlim : env.flags.opLimit = false ∧ env.flags.stackLimits = false) :
    run env (encode ke ctx ms) ⟨c, cs⟩ = (frag env ke ctx ms c).map (fun c' => ⟨c', cs⟩) :=
  exec_encode_eq_frag_nostack env ke ctx ms c cs hcs hlim.2

example : run (exEnv false false) (encode exKe .segwitv0 exMs) ⟨⟨[], [[5]], 300⟩, [true, true]⟩
    = (frag (exEnv false false) exKe .segwitv0 exMs ⟨[], [[5]], 300⟩).map (fun c' => ⟨c', [true, true]⟩) :=
  exec_encode_eq_frag _ _ _ _ _ _ rfl ⟨rfl, rfl⟩

/-- All limits may be on when the key environment is realistic (every key / hash ≤ 520 bytes). -/
theorem exec_encode_eq_frag_small (env : Env) (ke : KeyEnv) (ctx : Ctx) (ms : Ms) (c : Core)
    (cs : List Bool) (hcs : cs.all id = true) (hke : KeyEnv.Small ke)
    (hstk : env.flags.stackLimits = true → c.stack.length + c.alt.length ≤ 1000) :
    run env (encode ke ctx ms) ⟨c, cs⟩ = (frag env ke ctx ms c).map (fun c' => ⟨c', cs⟩) :=
  exec_encode_eq_frag_limits env ke ctx ms c cs hcs (.inr (.inr (encode_noBigPush ke ctx hke ms))) hstk

example : run (exEnv true true) (encode exKeSmall .tap exMs) ⟨⟨[[]], [], 200⟩, []⟩
    = (frag (exEnv true true) exKeSmall .tap exMs ⟨[[]], [], 200⟩).map (fun c' => ⟨c', []⟩) :=
  exec_encode_eq_frag_small _ _ _ _ _ _ rfl exKeSmall_small (fun _ => by decide)

/-- The statement without any limits hypothesis … -/
def exec_encode_eq_frag_full : Prop :=
  ∀ (env : Env) (ke : KeyEnv) (ctx : Ctx) (ms : Ms) (c : Core) (cs : List Bool), cs.all id = true →
    (env.flags.stackLimits = true → c.stack.length + c.alt.length ≤ 1000) →
    run env (encode ke ctx ms) ⟨c, cs⟩ = (frag env ke ctx ms c).map (fun c' => ⟨c', cs⟩)

attribute [local instance] decEqExcept in
/-- … is false for the current `skipCount`: with both limits on, a 521-byte "key" in a dead
branch after the 201st opcode makes the interpreter stop with `opCount` while `frag` reports
`pushSize` (`or_i(and_v(c:pk_k(0),pk_k(1)),1)`, IF not taken, 200 opcodes already counted). -/
theorem both_limits_counterexample :
    run (exEnv true true) (encode exKe .segwitv0 exMsBad) ⟨⟨[[]], [], 200⟩, []⟩ = .error .opCount ∧
    frag (exEnv true true) exKe .segwitv0 exMsBad ⟨[[]], [], 200⟩ = .error .pushSize := by
  decide +kernel

theorem exec_encode_eq_frag_full_false : ¬ exec_encode_eq_frag_full := by
  intro h
  have h1 := h (exEnv true true) exKe .segwitv0 exMsBad ⟨[[]], [], 200⟩ [] rfl (fun _ => by decide)
  rw [both_limits_counterexample.1, both_limits_counterexample.2] at h1
  cases h1

/-- a successful run of an encoding leaves the condition stack as it was -/
theorem run_encode_conds (env : Env) (ke : KeyEnv) (ctx : Ctx) (ms : Ms) (c : Core) (cs : List Bool)
    (s' : State) (hcs : cs.all id = true)
    (hlim : (env.flags.opLimit && !env.flags.tapscript) = false ∨ env.flags.stackLimits = false
      ∨ bigPush (encode ke ctx ms) = false)
    (hstk : env.flags.stackLimits = true → c.stack.length + c.alt.length ≤ 1000)
    (hrun : run env (encode ke ctx ms) ⟨c, cs⟩ = .ok s') :
    s'.conds = cs ∧ frag env ke ctx ms c = .ok s'.core := by
  rw [exec_encode_eq_frag_limits env ke ctx ms c cs hcs hlim hstk] at hrun
  cases hf : frag env ke ctx ms c with
  | error e => rw [hf] at hrun; cases hrun
  | ok c' => rw [hf] at hrun; cases hrun; exact ⟨rfl, rfl⟩

/-- Top-level acceptance (CLEANSTACK form) of the encoded script on an initial stack, in terms
of `frag`. -/
theorem accepts_iff_frag (env : Env) (ke : KeyEnv) (ctx : Ctx) (ms : Ms) (stack : List Bytes)
    (hlim : (env.flags.opLimit && !env.flags.tapscript) = false ∨ env.flags.stackLimits = false
      ∨ bigPush (encode ke ctx ms) = false)
    (hstk : env.flags.stackLimits = true → stack.length ≤ 1000) :
    accepts env (encode ke ctx ms) stack = true ↔
      ∃ c' a, frag env ke ctx ms ⟨stack, [], 0⟩ = .ok c' ∧ c'.stack = [a] ∧ castToBool a = true := by
  unfold accepts State.init
  rw [exec_encode_eq_frag_limits env ke ctx ms ⟨stack, [], 0⟩ [] rfl hlim (fun h => by simpa using hstk h)]
  cases hf : frag env ke ctx ms ⟨stack, [], 0⟩ with
  | error e => simp
  | ok c' =>
    simp only [map_ok, List.isEmpty_nil, Bool.true_and, Except.ok.injEq, exists_and_left, exists_eq_left']
    rcases hst : c'.stack with _ | ⟨a, _ | ⟨b, r⟩⟩ <;> simp

example : accepts (exEnv true true) (encode exKeSmall .segwitv0 exMs) [[1], [1], [1]] = true ↔
    ∃ c' a, frag (exEnv true true) exKeSmall .segwitv0 exMs ⟨[[1], [1], [1]], [], 0⟩ = .ok c'
      ∧ c'.stack = [a] ∧ castToBool a = true :=
  accepts_iff_frag _ _ _ _ _ (.inr (.inr (encode_noBigPush _ _ exKeSmall_small _))) (fun _ => by decide)

/-- Consensus-only acceptance (top element true, no CLEANSTACK). -/
theorem acceptsLoose_iff_frag (env : Env) (ke : KeyEnv) (ctx : Ctx) (ms : Ms) (stack : List Bytes)
    (hlim : (env.flags.opLimit && !env.flags.tapscript) = false ∨ env.flags.stackLimits = false
      ∨ bigPush (encode ke ctx ms) = false)
    (hstk : env.flags.stackLimits = true → stack.length ≤ 1000) :
    acceptsLoose env (encode ke ctx ms) stack = true ↔
      ∃ c' a r, frag env ke ctx ms ⟨stack, [], 0⟩ = .ok c' ∧ c'.stack = a :: r ∧ castToBool a = true := by
  unfold acceptsLoose State.init
  rw [exec_encode_eq_frag_limits env ke ctx ms ⟨stack, [], 0⟩ [] rfl hlim (fun h => by simpa using hstk h)]
  cases hf : frag env ke ctx ms ⟨stack, [], 0⟩ with
  | error e => simp
  | ok c' =>
    simp only [map_ok, List.isEmpty_nil, Bool.true_and, Except.ok.injEq, exists_and_left, exists_eq_left']
    rcases hst : c'.stack with _ | ⟨a, r⟩ <;> simp

/-- Acceptance with all limits off, as in DESIGN.md. -/
theorem accepts_iff_frag_nolimits (env : Env) (ke : KeyEnv) (ctx : Ctx) (ms : Ms) (stack : List Bytes)
    (hlim : env.flags.opLimit = false ∧ env.flags.stackLimits = false) :
    accepts env (encode ke ctx ms) stack = true ↔
      ∃ c' a, frag env ke ctx ms ⟨stack, [], 0⟩ = .ok c' ∧ c'.stack = [a] ∧ castToBool a = true :=
  accepts_iff_frag env ke ctx ms stack (.inr (.inl hlim.2)) (fun h => by rw [hlim.2] at h; cases h)

end MsVerif.Bridge

/-
C10 (round-trip part, AST level) — "formatting any miniscript and parsing the result gives back an
equal object, formatting is a fixed point after one round trip; aliases and syntactic sugar never
change meaning".

Model: `Model/Display.lean` (`toTree` = `Display for Miniscript` of src/miniscript/display.rs as an
expression tree, `fromTree` = `FromTree for Miniscript` of src/miniscript/mod.rs incl.
`Miniscript::from_ast`).  `display c m = (toTree c m).print` are the characters; the string ↔ tree
step is the expression grammar (`Model/Expr.lean`, theorems in `Thm/C11.lean`).

The quantifier "every `Ms` the library can hold" is `Ms.all (nodeOk c) m`: at every node
`from_ast` succeeded (type check, height ≤ 402, `check_global_validity`), the invariants of the Rust
types hold (`AbsLockTime`/`RelLockTime` ranges, `Threshold<_, MAX>`: 1 ≤ k ≤ n ≤ MAX) and the atoms
are read back by the key type's `FromStr`.  There is NO excluded fragment: before repo commit
b17364cb `Display` printed a bare `RawPkH` under a name the parser does not know and folded
`c:RawPkH` into a name the parser reads as a different object (this file then proved the negation
of the unrestricted statement on that witness); with the repaired printer the theorem holds for
raw public key hashes too (`rawpkh_*` below are now instances of T5).
-/
import MsVerif.Lemmas.DisplayPlain
import MsVerif.Lemmas.DisplayString
import MsVerif.Lemmas.DescString
import MsVerif.Spec.Bip388
import MsVerif.Spec.KeyGrammar
import MsVerif.Model.Validate

namespace MsVerif.C10b
open MsVerif MsVerif.Display

/-- **T5, full strength** the parser inverts the printer: for EVERY miniscript object, parsing the
expression tree that `Display` prints gives back the SAME abstract syntax tree — through wrapper
folding (`t:`, `l:`, `u:`, merged prefixes, the `:` separator), `pk`/`pkh`, `and_n`,
`expr_raw_pkh`, thresholds and multis of any size. -/
theorem fromTree_toTree (c : Codec) (m : Ms) (h : Ms.all (nodeOk c) m = true) :
    fromTree c (toTree c m) = .ok m := by
  unfold fromTree toTree
  rw [toTreeW_noCurly c m []]
  have := rtW c m [] h
  simp only [List.map_nil] at this
  rw [this]
  have hg : Ms.all c.gv m = true :=
    all_mono (nodeOk c) c.gv (fun x hx => ((nodeOk_iff c x).1 hx).2.2.1) m h
  simp [wrapAll, hg]

/-- the same with the atom hypothesis stated once for the key type (`FromStr ∘ Display = id`) -/
theorem fromTree_toTree_codec (c : Codec) (hc : CodecOk c) (m : Ms)
    (h : Ms.all (fun x => (typeOf x).isSome && decide (height x ≤ MAX_RECURSION_DEPTH) && c.gv x
                          && localOk x) m = true) :
    fromTree c (toTree c m) = .ok m := by
  apply fromTree_toTree
  refine all_mono _ (nodeOk c) (fun x hx => ?_) m h
  simp only [nodeOk, Bool.and_eq_true] at hx ⊢
  exact ⟨hx, atomsOk_of_codecOk c hc x⟩

/-- the hypothesis at the root -/
theorem all_root (p : Ms → Bool) (m : Ms) (h : Ms.all p m = true) : p m = true := by
  cases m <;> simp only [Ms.all, Bool.and_eq_true] at h <;>
    first | exact h | exact h.1 | exact h.1.1 | exact h.1.1.1

/-- **T5 on CHARACTERS**: `Miniscript::from_str` (expression parser of Model/Expr.lean: checksum
scan, pre-check, node-table builder — then `FromTree`) applied to the characters `Display` writes
gives back the same AST.  Uses `Expr.fromStr_print` (the node table built for a printed tree is the
table of that tree), the well-formedness of the printed tree (`toTreeW_wf`: names free of
`(){},#`) and its nesting bound `height + 1 ≤ 403` (`toTreeW_depth`). -/
theorem fromStr_display (c : Codec) (hn : CodecNames c) (m : Ms) (h : Ms.all (nodeOk c) m = true) :
    fromStr c (display c m) = .ok m := by
  have hwf : (toTree c m).WF := toTreeW_wf c hn m [] nil_pre
  have hh : height m ≤ MAX_RECURSION_DEPTH := ((nodeOk_iff c m).1 (all_root _ m h)).2.1
  have hd : (toTree c m).depth ≤ 403 := by
    have := toTreeW_depth c m []
    unfold toTree
    simp only [MAX_RECURSION_DEPTH] at hh
    omega
  obtain ⟨nodes, hok, hdec⟩ := Expr.fromStr_print (toTree c m) hwf hd
  unfold fromStr display
  rw [hok]
  simp only [hdec]
  exact fromTree_toTree c m h

/-- **formatting is a fixed point after one round trip**, on characters:
`print (parse (print m)) = print m` -/
theorem display_fixed_point (c : Codec) (hn : CodecNames c) (m : Ms) (h : Ms.all (nodeOk c) m = true) :
    (fromStr c (display c m)).map (display c) = .ok (display c m) := by
  rw [fromStr_display c hn m h]; rfl

/-- the decimal codec prints atoms inside the character set -/
theorem decCodec_names (gv : Ms → Bool) : CodecNames (decCodec gv) :=
  ⟨fun k => showNat_nameOk k, fun _ h => showNat_nameOk h, fun h => showNat_nameOk h⟩

/-- the unsugared spelling (`c:pk_k(K)`, `and_v(X,1)`, `or_i(0,X)`, `or_i(X,0)`, `andor(X,Y,0)`)
parses to the AST it spells -/
theorem plain_spelling_parses (c : Codec) (m : Ms) (h : Ms.all (nodeOk c) m = true) :
    fromTree c (plainTree c m) = .ok m := by
  unfold fromTree plainTree
  rw [plainTreeW_noCurly c m []]
  have := rtXW c m [] h
  simp only [List.map_nil] at this
  rw [this]
  have hg : Ms.all c.gv m = true :=
    all_mono (nodeOk c) c.gv (fun x hx => ((nodeOk_iff c x).1 hx).2.2.1) m h
  simp [wrapAll, hg]

/-- aliases and syntactic sugar never change meaning: the sugared spelling that `Display` chooses
and the unsugared spelling of the same object parse to the same AST -/
theorem sugar_never_changes_meaning (c : Codec) (m : Ms) (h : Ms.all (nodeOk c) m = true) :
    fromTree c (plainTree c m) = fromTree c (toTree c m) := by
  rw [fromTree_toTree c m h, plain_spelling_parses c m h]

/-! ## raw public key hashes: the formerly excluded point, now instances of T5 -/

/-- `c:expr_raw_pkh(H)` is printed as the wrapper `c:` over `expr_raw_pkh(H)` (no folding) … -/
theorem rawpkh_check_printed_unfolded (c : Codec) (h : Nat) :
    toTree c (.check (.rawPkH h)) = plainTree c (.check (.rawPkH h)) := by
  unfold toTree plainTree
  rw [toTreeW, plainTreeW]
  simp only [sugarCheck]
  rw [toTreeW, plainTreeW]

/-- … and parses back to the B-typed `c:RawPkH`, not to the bare K-typed fragment -/
theorem rawpkh_check_roundtrip (c : Codec) (h : Nat)
    (hok : Ms.all (nodeOk c) (.check (.rawPkH h)) = true) :
    fromTree c (toTree c (.check (.rawPkH h))) = .ok (.check (.rawPkH h)) :=
  fromTree_toTree c _ hok

/-- a bare `RawPkH` prints under the name the parser reads -/
theorem rawpkh_bare_roundtrip (c : Codec) (h : Nat) (hok : Ms.all (nodeOk c) (.rawPkH h) = true) :
    fromTree c (toTree c (.rawPkH h)) = .ok (.rawPkH h) :=
  fromTree_toTree c _ hok

/-- a codec and context in which everything is admissible -/
def idCodec : Codec := decCodec (fun _ => true)

/-- the two objects are admissible (non-vacuity of the two statements above) and distinct -/
theorem rawpkh_admissible : Ms.all (nodeOk idCodec) (.check (.rawPkH 0)) = true := by
  have h0 : readDec (showNat 0) = some 0 := readDec_showNat 0 (by omega)
  simp [Ms.all, nodeOk, localOk, atomsOk, idCodec, decCodec, h0, height, MAX_RECURSION_DEPTH]
  decide

theorem rawpkh_spellings_differ :
    fromTree idCodec (toTree idCodec (.check (.rawPkH 0))) ≠ fromTree idCodec (toTree idCodec (.rawPkH 0)) := by
  have h := rawpkh_admissible
  rw [rawpkh_check_roundtrip idCodec 0 h,
    rawpkh_bare_roundtrip idCodec 0 (by
      simp only [Ms.all, Bool.and_eq_true] at h
      simpa [Ms.all] using h.2)]
  intro e; cases e

/-! ## non-vacuity: concrete objects satisfy the hypothesis -/

/-- `tv:or_i(pk(1),and_n(pkh(2),l:older(144)))`-like object with every sugar form -/
def sample : Ms :=
  .andV (.verify (.orI (.check (.pkK 1))
      (.andOr (.check (.pkH 2)) (.orI .fls (.older 144)) .fls))) .tru

theorem sample_ok : Ms.all (nodeOk idCodec) sample = true := by
  have h1 : readDec (showNat 1) = some 1 := readDec_showNat 1 (by omega)
  have h2 : readDec (showNat 2) = some 2 := readDec_showNat 2 (by omega)
  simp [sample, Ms.all, nodeOk, localOk, atomsOk, idCodec, decCodec, h1, h2, height,
    MAX_RECURSION_DEPTH]
  decide

example : fromTree idCodec (toTree idCodec sample) = .ok sample :=
  fromTree_toTree idCodec sample sample_ok

example : fromStr idCodec (display idCodec sample) = .ok sample :=
  fromStr_display idCodec (decCodec_names _) sample sample_ok

example : fromTree idCodec (plainTree idCodec sample) = fromTree idCodec (toTree idCodec sample) :=
  sugar_never_changes_meaning idCodec sample sample_ok

example : fromTree idCodec (toTree idCodec (.check (.rawPkH 0))) = .ok (.check (.rawPkH 0)) :=
  rawpkh_check_roundtrip idCodec 0 rawpkh_admissible

/-! ## non-vacuity in REAL contexts: `gv` is the model of `Ctx::check_global_validity` of
Model/Validate.lean (fragment availability, key kinds, script-size limits), not "accept all" -/

/-- keys of `n` bytes (33: compressed, 32: x-only) -/
def envOf (n : Nat) : KeyEnv where
  ser _ := List.replicate n 0
  sortKey _ := List.replicate n 0
  pkh _ := List.replicate 20 0
  rawPkh _ := List.replicate 20 0
  hashVal kind _ := match kind with
    | .sha256 | .hash256 => List.replicate 32 0
    | _ => List.replicate 20 0

/-- the codec of a real context: decimal atoms, `check_global_validity` of `ctx` with every key of
kind `kind` -/
def ctxCodec (ctx : Ctx) (kind : KeyKind) (keyLen : Nat) : Codec :=
  decCodec (fun m => checkGlobalValidity ctx ⟨fun _ => kind, fun _ => 1⟩ (extOf (envOf keyLen) ctx m).pkCost m)

/-- Segwitv0 with compressed keys: `tv:or_i(pk(1),and_n(pkh(2),l:older(144)))` and a 2-of-3 `multi` -/
def sampleSegwit : Ms := .andB sample (.alt (.multi 2 [1, 2, 3]))

theorem sampleSegwit_ok : Ms.all (nodeOk (ctxCodec .segwitv0 .compressed 33)) sampleSegwit = true := by
  have h1 : readDec (showNat 1) = some 1 := readDec_showNat 1 (by omega)
  have h2 : readDec (showNat 2) = some 2 := readDec_showNat 2 (by omega)
  have h3 : readDec (showNat 3) = some 3 := readDec_showNat 3 (by omega)
  simp only [sampleSegwit, sample, Ms.all, nodeOk, localOk, atomsOk, ctxCodec, decCodec, h1, h2, h3,
    List.all_cons, List.all_nil, beq_self_eq_true, Bool.and_true, Bool.true_and]
  decide +kernel

example : fromTree (ctxCodec .segwitv0 .compressed 33) (toTree (ctxCodec .segwitv0 .compressed 33) sampleSegwit)
    = .ok sampleSegwit := fromTree_toTree _ _ sampleSegwit_ok

/-- in Segwitv0 an x-only key is refused by `check_pk`: the hypothesis is not "anything goes" -/
theorem sampleSegwit_xonly_refused :
    Ms.all (nodeOk (ctxCodec .segwitv0 .xonly 32)) sampleSegwit = false := by
  have h1 : readDec (showNat 1) = some 1 := readDec_showNat 1 (by omega)
  have h2 : readDec (showNat 2) = some 2 := readDec_showNat 2 (by omega)
  have h3 : readDec (showNat 3) = some 3 := readDec_showNat 3 (by omega)
  simp only [sampleSegwit, sample, Ms.all, nodeOk, localOk, atomsOk, ctxCodec, decCodec, h1, h2, h3,
    List.all_cons, List.all_nil, beq_self_eq_true, Bool.and_true, Bool.true_and]
  decide +kernel

/-- Tap with x-only keys: `and_v(v:multi_a(2,1,2,3),or_d(pk(4),and_v(v:pkh(5),older(10))))` -/
def sampleTap : Ms :=
  .andV (.verify (.multiA 2 [1, 2, 3]))
    (.orD (.check (.pkK 4)) (.andV (.verify (.check (.pkH 5))) (.older 10)))

theorem sampleTap_ok : Ms.all (nodeOk (ctxCodec .tap .xonly 32)) sampleTap = true := by
  have h1 : readDec (showNat 1) = some 1 := readDec_showNat 1 (by omega)
  have h2 : readDec (showNat 2) = some 2 := readDec_showNat 2 (by omega)
  have h3 : readDec (showNat 3) = some 3 := readDec_showNat 3 (by omega)
  have h4 : readDec (showNat 4) = some 4 := readDec_showNat 4 (by omega)
  have h5 : readDec (showNat 5) = some 5 := readDec_showNat 5 (by omega)
  simp only [sampleTap, Ms.all, nodeOk, localOk, atomsOk, ctxCodec, decCodec, h1, h2, h3, h4, h5,
    List.all_cons, List.all_nil, beq_self_eq_true, Bool.and_true, Bool.true_and]
  decide +kernel

example : fromTree (ctxCodec .tap .xonly 32) (toTree (ctxCodec .tap .xonly 32) sampleTap) = .ok sampleTap :=
  fromTree_toTree _ _ sampleTap_ok

example : (fromStr (ctxCodec .tap .xonly 32) (display (ctxCodec .tap .xonly 32) sampleTap)).map
    (display (ctxCodec .tap .xonly 32)) = .ok (display (ctxCodec .tap .xonly 32) sampleTap) :=
  display_fixed_point _ (decCodec_names _) _ sampleTap_ok

/-- `multi_a` does not exist in Segwitv0: the same object is not admissible there -/
theorem sampleTap_not_segwit : Ms.all (nodeOk (ctxCodec .segwitv0 .compressed 33)) sampleTap = false := by
  have h1 : readDec (showNat 1) = some 1 := readDec_showNat 1 (by omega)
  have h2 : readDec (showNat 2) = some 2 := readDec_showNat 2 (by omega)
  have h3 : readDec (showNat 3) = some 3 := readDec_showNat 3 (by omega)
  have h4 : readDec (showNat 4) = some 4 := readDec_showNat 4 (by omega)
  have h5 : readDec (showNat 5) = some 5 := readDec_showNat 5 (by omega)
  simp only [sampleTap, Ms.all, nodeOk, localOk, atomsOk, ctxCodec, decCodec, h1, h2, h3, h4, h5,
    List.all_cons, List.all_nil, beq_self_eq_true, Bool.and_true, Bool.true_and]
  decide +kernel

/-! ## the descriptor wrappers (Model/DescDisplay.lean) -/

open DescDisplay in
/-- **descriptor wrappers, tree level**: `pkh`, `wpkh`, `sh(wpkh)`, `sh(wsh(M))`, `sh(M)`, `wsh(M)`, a
bare `M`, `tr(K)` and `tr(K,TREE)` with a tap tree of any shape (inner nodes at depth < 128):
`FromTree for Descriptor` applied to the printed tree gives back the same descriptor.
`DescOk`: the inner miniscripts are admissible (`nodeOk`), the wrapper constructor accepts
(`wrapOk`/`leafOk`), keys read back — and a bare miniscript is not `c:pk_h(K)` (F15 below). -/
theorem desc_fromTree_toTree (c : DCodec) (d : Desc) (h : DescOk c d) :
    DescDisplay.fromTree c (DescDisplay.toTree c d) = .ok d :=
  DescDisplay.fromTree_toTree c d h

open DescDisplay in
/-- **descriptor wrappers, on characters** (no checksum): holds while the printed nesting is within
the expression parser's limit (403); beyond it the library refuses its own output (finding F14b) -/
theorem desc_fromStr_display (c : DCodec) (hn : DNames c) (d : Desc) (h : DescOk c d)
    (hd : (DescDisplay.toTree c d).depth ≤ 403) :
    DescDisplay.fromStr c (DescDisplay.display c d) = .ok d :=
  DescDisplay.fromStr_display c hn d h hd

open DescDisplay in
/-- F15 in the model: the bare descriptor `c:pk_h(K)` prints as `pkh(K)` and reads back as the
`pkh()` descriptor, a different object -/
theorem desc_bare_pkh_differs (c : DCodec) (k : Key)
    (hk : (c.ms .bare).showKey k = c.showKey k) (hr : c.readKey (c.showKey k) = some k)
    (hw : c.wrapOk (.pkh k) = true) :
    DescDisplay.fromTree c (DescDisplay.toTree c (.bare (.check (.pkH k)))) = .ok (.pkh k)
      ∧ Desc.pkh k ≠ Desc.bare (.check (.pkH k)) :=
  ⟨bare_pkh_reads_as_pkh c k hk hr hw, by intro e; cases e⟩

/-- a descriptor codec with REAL wrapper checks: the C12 model of `top_level_checks` + the wrapper's
`validate` (Model/Validate.lean), compressed keys outside taproot and x-only keys inside -/
def realDCodec : DescDisplay.DCodec where
  ms ctx := match ctx with
    | .tap => ctxCodec .tap .xonly 32
    | ctx => ctxCodec ctx .compressed 33
  showKey := showNat
  readKey := readDec
  wrapOk d := match d with
    | .wsh m => topLevelChecks ⟨fun _ => .compressed, fun _ => 1⟩ .segwitv0 m
        && wrapperValidate (envOf 33) ⟨fun _ => .compressed, fun _ => 1⟩ .segwitv0 m
    | .sh m => topLevelChecks ⟨fun _ => .compressed, fun _ => 1⟩ .legacy m
        && wrapperValidate (envOf 33) ⟨fun _ => .compressed, fun _ => 1⟩ .legacy m
    | .bare m => topLevelChecks ⟨fun _ => .compressed, fun _ => 1⟩ .bare m
    | _ => true
  leafOk m := isOk (validate (envOf 32) ⟨fun _ => .xonly, fun _ => 1⟩ .tap (Ctx.CONSENSUS .tap) m)

theorem realDCodec_names : DescDisplay.DNames realDCodec :=
  ⟨fun ctx => by cases ctx <;> exact decCodec_names _, fun k => showNat_nameOk k⟩

/-- `sh(wsh(and_b(tv:or_i(pk(1),and_n(pkh(2),l:older(144))),a:multi(2,1,2,3))))` -/
theorem sampleDesc_ok : DescDisplay.DescOk realDCodec (.shWsh sampleSegwit) := by
  refine ⟨sampleSegwit_ok, ?_⟩
  decide +kernel

example : DescDisplay.fromTree realDCodec (DescDisplay.toTree realDCodec (.shWsh sampleSegwit))
    = .ok (.shWsh sampleSegwit) := desc_fromTree_toTree _ _ sampleDesc_ok

example : DescDisplay.fromStr realDCodec (DescDisplay.display realDCodec (.shWsh sampleSegwit))
    = .ok (.shWsh sampleSegwit) :=
  desc_fromStr_display _ realDCodec_names _ sampleDesc_ok (by
    have := toTreeW_depth (realDCodec.ms .segwitv0) sampleSegwit []
    simp only [DescDisplay.toTree, Expr.Tree.depth, Expr.Tree.depthList, Display.toTree]
    have hh : height sampleSegwit ≤ 10 := by decide
    omega)

/-- `tr(7,{and_v(v:multi_a(2,1,2,3),…),{pk(4),pk(5)}})` -/
def sampleTr : DescDisplay.Desc :=
  .tr 7 (some (.node (.leaf sampleTap) (.node (.leaf (.check (.pkK 4))) (.leaf (.check (.pkK 5))))))

theorem sampleTr_ok : DescDisplay.DescOk realDCodec sampleTr := by
  have h4 : readDec (showNat 4) = some 4 := readDec_showNat 4 (by omega)
  have h5 : readDec (showNat 5) = some 5 := readDec_showNat 5 (by omega)
  have h7 : readDec (showNat 7) = some 7 := readDec_showNat 7 (by omega)
  have hk : ∀ k : Nat, k ≤ 9 → Ms.all (nodeOk (ctxCodec .tap .xonly 32)) (.check (.pkK k)) = true := by
    intro k hk9
    have hr : readDec (showNat k) = some k := readDec_showNat k (by omega)
    simp only [Ms.all, nodeOk, localOk, atomsOk, ctxCodec, decCodec, hr, beq_self_eq_true, Bool.and_true]
    have : k = 0 ∨ k = 1 ∨ k = 2 ∨ k = 3 ∨ k = 4 ∨ k = 5 ∨ k = 6 ∨ k = 7 ∨ k = 8 ∨ k = 9 := by omega
    rcases this with rfl | rfl | rfl | rfl | rfl | rfl | rfl | rfl | rfl | rfl <;> decide +kernel
  refine ⟨h7, rfl, ?_⟩
  refine ⟨by decide, ⟨sampleTap_ok, by decide +kernel⟩, by decide, ⟨hk 4 (by decide), by decide +kernel⟩,
    ⟨hk 5 (by decide), by decide +kernel⟩⟩

example : DescDisplay.fromTree realDCodec (DescDisplay.toTree realDCodec sampleTr) = .ok sampleTr :=
  desc_fromTree_toTree _ _ sampleTr_ok

/-! ## numeric arguments -/

/-- every value in the range of its position, printed in decimal, is read back as that value
(lock times, threshold `k`, `or` weights): printing a number and parsing it is the identity -/
theorem numArg_showNat (pos : NumPos) (v : Nat) (hv : v ≤ 4294967295)
    (hr : match pos with
          | .lock => 1 ≤ v ∧ v ≤ 2147483647
          | .threshK _ lo hi => lo ≤ v ∧ v ≤ hi
          | .weight => 1 ≤ v) :
    numArg pos (showNat v) = some v := by
  unfold numArg
  rw [parseNum_showNat v hv]
  cases pos <;> simp_all

/-- a text `parse_num` refuses is refused at every position -/
theorem numArg_none_of_parseNum (pos : NumPos) (s : List Char) (e : Expr.NumErr)
    (h : Expr.parseNum s = .error e) : numArg pos s = none := by
  unfold numArg; rw [h]

/-- texts that are not canonical `u32` decimals are refused at every position -/
theorem numArg_noncanonical (pos : NumPos) :
    numArg pos "01".toList = none ∧ numArg pos "+1".toList = none ∧ numArg pos "".toList = none
      ∧ numArg pos "4294967296".toList = none ∧ numArg pos "18446744073709551616".toList = none :=
  ⟨numArg_none_of_parseNum pos _ .invalidLeadingDigit (by rfl),
   numArg_none_of_parseNum pos _ .invalidLeadingDigit (by rfl),
   numArg_none_of_parseNum pos _ .empty (by rfl),
   numArg_none_of_parseNum pos _ .posOverflow (by rfl),
   numArg_none_of_parseNum pos _ .posOverflow (by rfl)⟩

example : numArg .lock "2147483648".toList = none ∧ numArg .lock "0".toList = none
    ∧ numArg (.threshK 3 1 3) "4".toList = none ∧ numArg .weight "4294967295".toList = some 4294967295 := by
  decide +kernel

/-! ## the text-level specifications used by the judges are consistent on instances -/

open Spec.Bip388 in
/-- BIP-388: the template of a descriptor with a repeated key instantiates back to the descriptor,
and satisfies the placeholder rules with two key information items -/
theorem bip388_template_instance :
    let d := "wsh(multi(2,[d3/48']xpubA/<0;1>/*,tpubB/<4;9>/*,[d3/48']xpubA/<2;3>/*))".toList
    (templateOf d).map (fun r => String.ofList r.1) = some "wsh(multi(2,@0/**,@1/<4;9>/*,@0/<2;3>/*))"
    ∧ ((templateOf d).bind fun r => instantiate r.1 r.2) = some d
    ∧ ((templateOf d).bind fun r => checkTemplate r.1).map (·.2) = some 2 := by
  decide +kernel

open Spec.Bip388 in
/-- BIP-388: descriptors without a template and templates breaking the placeholder rules -/
theorem bip388_rejections :
    templateOf "wpkh(xpubA/0/*)".toList = none ∧ templateOf "wpkh(xpubA/<1;0>/*)".toList = none
    ∧ templateOf "wsh(multi(2,xpubA/<0;1>/*,xpubA/<1;2>/*))".toList = none
    ∧ checkTemplate "wsh(multi(2,@1/**,@0/**))".toList = none
    ∧ checkTemplate "wpkh(@1/**)".toList = none
    ∧ checkTemplate "wsh(multi(2,@0/**,@0/<1;2>/*))".toList = none
    ∧ checkTemplate "wpkh(@0x/**)".toList = none
    ∧ (checkTemplate "wsh(multi(2,@0/**,@1/**,@1/<2;3>/*))".toList).isSome = true := by
  decide +kernel

open Spec.KeyGrammar in
/-- BIP-380/389 key grammar on instances (x-only hex key with origin; malformed spellings) -/
theorem keyexpr_instances :
    valid false "[d34db33f/44'/0h/7]c57b973499cb87c1409b29b475185b624c6abb8421f003246f1ede275d367af4".toList = true
    ∧ valid false "[d34db33f/44H]c57b973499cb87c1409b29b475185b624c6abb8421f003246f1ede275d367af4".toList = false
    ∧ valid false "[d34db33]c57b973499cb87c1409b29b475185b624c6abb8421f003246f1ede275d367af4".toList = false
    ∧ isMulti "<0;1h;2'>".toList = true ∧ isMulti "<0>".toList = false
    ∧ derivOk ["0".toList, "<0;1>".toList, "*h".toList] false = true
    ∧ derivOk ["<0;1>".toList, "<2;3>".toList] false = false
    ∧ derivOk ["*".toList, "0".toList] false = false := by
  decide +kernel

end MsVerif.C10b

/-
C10 (round-trip part, AST level) — "formatting any miniscript and parsing the result gives back an
equal object, formatting is a fixed point after one round trip; aliases and syntactic sugar never
change meaning".

Model: `Model/Display.lean` (`toTree` = `Display for Miniscript` of src/miniscript/display.rs as an
expression tree, `fromTree` = `FromTree for Miniscript` of src/miniscript/mod.rs incl.
`Miniscript::from_ast`).  `display c m = (toTree c m).print` are the characters; the string ↔ tree
step is the expression grammar (`Model/Expr.lean`, theorems in `Thm/C11.lean`).

The quantifier "every `Ms` the library can hold" is `Ms.all (nodeOk c) m`: at every node
`from_ast` succeeded (type check, height ≤ 402, `check_global_validity`), the invariants of the Rust
types hold (`AbsLockTime`/`RelLockTime` ranges, `Threshold<_, MAX>`: 1 ≤ k ≤ n ≤ MAX) and the atoms
are read back by the key type's `FromStr`.  There is NO excluded fragment: before repo commit
b17364cb `Display` printed a bare `RawPkH` under a name the parser does not know and folded
`c:RawPkH` into a name the parser reads as a different object (this file then proved the negation
of the unrestricted statement on that witness); with the repaired printer the theorem holds for
raw public key hashes too (`rawpkh_*` below are now instances of T5).
-/
import MsVerif.Lemmas.DisplayPlain
import MsVerif.Spec.Bip388
import MsVerif.Spec.KeyGrammar

namespace MsVerif.C10b
open MsVerif MsVerif.Display

/-- **T5, full strength** the parser inverts the printer: for EVERY miniscript object, parsing the
expression tree that `Display` prints gives back the SAME abstract syntax tree — through wrapper
folding (`t:`, `l:`, `u:`, merged prefixes, the `:` separator), `pk`/`pkh`, `and_n`,
`expr_raw_pkh`, thresholds and multis of any size. -/
theorem fromTree_toTree (c : Codec) (m : Ms) (h : Ms.all (nodeOk c) m = true) :
    fromTree c (toTree c m) = .ok m := by
  unfold fromTree toTree
  rw [toTreeW_noCurly c m []]
  have := rtW c m [] h
  simp only [List.map_nil] at this
  rw [this]
  have hg : Ms.all c.gv m = true :=
    all_mono (nodeOk c) c.gv (fun x hx => ((nodeOk_iff c x).1 hx).2.2.1) m h
  simp [wrapAll, hg]

/-- the same with the atom hypothesis stated once for the key type (`FromStr ∘ Display = id`) -/
theorem fromTree_toTree_codec (c : Codec) (hc : CodecOk c) (m : Ms)
    (h : Ms.all (fun x => (typeOf x).isSome && decide (height x ≤ MAX_RECURSION_DEPTH) && c.gv x
                          && localOk x) m = true) :
    fromTree c (toTree c m) = .ok m := by
  apply fromTree_toTree
  refine all_mono _ (nodeOk c) (fun x hx => ?_) m h
  simp only [nodeOk, Bool.and_eq_true] at hx ⊢
  exact ⟨hx, atomsOk_of_codecOk c hc x⟩

/-- formatting is a fixed point after one round trip -/
theorem display_fixed_point (c : Codec) (m m' : Ms) (h : Ms.all (nodeOk c) m = true)
    (hp : fromTree c (toTree c m) = .ok m') : display c m' = display c m := by
  rw [fromTree_toTree c m h] at hp
  injection hp with e
  rw [e]

/-- the unsugared spelling (`c:pk_k(K)`, `and_v(X,1)`, `or_i(0,X)`, `or_i(X,0)`, `andor(X,Y,0)`)
parses to the AST it spells -/
theorem plain_spelling_parses (c : Codec) (m : Ms) (h : Ms.all (nodeOk c) m = true) :
    fromTree c (plainTree c m) = .ok m := by
  unfold fromTree plainTree
  rw [plainTreeW_noCurly c m []]
  have := rtXW c m [] h
  simp only [List.map_nil] at this
  rw [this]
  have hg : Ms.all c.gv m = true :=
    all_mono (nodeOk c) c.gv (fun x hx => ((nodeOk_iff c x).1 hx).2.2.1) m h
  simp [wrapAll, hg]

/-- aliases and syntactic sugar never change meaning: the sugared spelling that `Display` chooses
and the unsugared spelling of the same object parse to the same AST -/
theorem sugar_never_changes_meaning (c : Codec) (m : Ms) (h : Ms.all (nodeOk c) m = true) :
    fromTree c (plainTree c m) = fromTree c (toTree c m) := by
  rw [fromTree_toTree c m h, plain_spelling_parses c m h]

/-! ## raw public key hashes: the formerly excluded point, now instances of T5 -/

/-- `c:expr_raw_pkh(H)` is printed as the wrapper `c:` over `expr_raw_pkh(H)` (no folding) … -/
theorem rawpkh_check_printed_unfolded (c : Codec) (h : Nat) :
    toTree c (.check (.rawPkH h)) = plainTree c (.check (.rawPkH h)) := by
  unfold toTree plainTree
  rw [toTreeW, plainTreeW]
  simp only [sugarCheck]
  rw [toTreeW, plainTreeW]

/-- … and parses back to the B-typed `c:RawPkH`, not to the bare K-typed fragment -/
theorem rawpkh_check_roundtrip (c : Codec) (h : Nat)
    (hok : Ms.all (nodeOk c) (.check (.rawPkH h)) = true) :
    fromTree c (toTree c (.check (.rawPkH h))) = .ok (.check (.rawPkH h)) :=
  fromTree_toTree c _ hok

/-- a bare `RawPkH` prints under the name the parser reads -/
theorem rawpkh_bare_roundtrip (c : Codec) (h : Nat) (hok : Ms.all (nodeOk c) (.rawPkH h) = true) :
    fromTree c (toTree c (.rawPkH h)) = .ok (.rawPkH h) :=
  fromTree_toTree c _ hok

/-- a codec and context in which everything is admissible -/
def idCodec : Codec := decCodec (fun _ => true)

/-- the two objects are admissible (non-vacuity of the two statements above) and distinct -/
theorem rawpkh_admissible : Ms.all (nodeOk idCodec) (.check (.rawPkH 0)) = true := by
  have h0 : readDec (showNat 0) = some 0 := readDec_showNat 0 (by omega)
  simp [Ms.all, nodeOk, localOk, atomsOk, idCodec, decCodec, h0, height, MAX_RECURSION_DEPTH]
  decide

theorem rawpkh_spellings_differ :
    fromTree idCodec (toTree idCodec (.check (.rawPkH 0))) ≠ fromTree idCodec (toTree idCodec (.rawPkH 0)) := by
  have h := rawpkh_admissible
  rw [rawpkh_check_roundtrip idCodec 0 h,
    rawpkh_bare_roundtrip idCodec 0 (by
      simp only [Ms.all, Bool.and_eq_true] at h
      simpa [Ms.all] using h.2)]
  intro e; cases e

/-! ## non-vacuity: concrete objects satisfy the hypothesis -/

/-- `tv:or_i(pk(1),and_n(pkh(2),l:older(144)))`-like object with every sugar form -/
def sample : Ms :=
  .andV (.verify (.orI (.check (.pkK 1))
      (.andOr (.check (.pkH 2)) (.orI .fls (.older 144)) .fls))) .tru

theorem sample_ok : Ms.all (nodeOk idCodec) sample = true := by
  have h1 : readDec (showNat 1) = some 1 := readDec_showNat 1 (by omega)
  have h2 : readDec (showNat 2) = some 2 := readDec_showNat 2 (by omega)
  simp [sample, Ms.all, nodeOk, localOk, atomsOk, idCodec, decCodec, h1, h2, height,
    MAX_RECURSION_DEPTH]
  decide

example : fromTree idCodec (toTree idCodec sample) = .ok sample :=
  fromTree_toTree idCodec sample sample_ok

example : fromTree idCodec (plainTree idCodec sample) = fromTree idCodec (toTree idCodec sample) :=
  sugar_never_changes_meaning idCodec sample sample_ok

example : fromTree idCodec (toTree idCodec (.check (.rawPkH 0))) = .ok (.check (.rawPkH 0)) :=
  rawpkh_check_roundtrip idCodec 0 rawpkh_admissible

/-! ## numeric arguments -/

/-- every value in the range of its position, printed in decimal, is read back as that value
(lock times, threshold `k`, `or` weights): printing a number and parsing it is the identity -/
theorem numArg_showNat (pos : NumPos) (v : Nat) (hv : v ≤ 4294967295)
    (hr : match pos with
          | .lock => 1 ≤ v ∧ v ≤ 2147483647
          | .threshK _ lo hi => lo ≤ v ∧ v ≤ hi
          | .weight => 1 ≤ v) :
    numArg pos (showNat v) = some v := by
  unfold numArg
  rw [parseNum_showNat v hv]
  cases pos <;> simp_all

/-- a text `parse_num` refuses is refused at every position -/
theorem numArg_none_of_parseNum (pos : NumPos) (s : List Char) (e : Expr.NumErr)
    (h : Expr.parseNum s = .error e) : numArg pos s = none := by
  unfold numArg; rw [h]

/-- texts that are not canonical `u32` decimals are refused at every position -/
theorem numArg_noncanonical (pos : NumPos) :
    numArg pos "01".toList = none ∧ numArg pos "+1".toList = none ∧ numArg pos "".toList = none
      ∧ numArg pos "4294967296".toList = none ∧ numArg pos "18446744073709551616".toList = none :=
  ⟨numArg_none_of_parseNum pos _ .invalidLeadingDigit (by rfl),
   numArg_none_of_parseNum pos _ .invalidLeadingDigit (by rfl),
   numArg_none_of_parseNum pos _ .empty (by rfl),
   numArg_none_of_parseNum pos _ .posOverflow (by rfl),
   numArg_none_of_parseNum pos _ .posOverflow (by rfl)⟩

example : numArg .lock "2147483648".toList = none ∧ numArg .lock "0".toList = none
    ∧ numArg (.threshK 3 1 3) "4".toList = none ∧ numArg .weight "4294967295".toList = some 4294967295 := by
  decide +kernel

/-! ## the text-level specifications used by the judges are consistent on instances -/

open Spec.Bip388 in
/-- BIP-388: the template of a descriptor with a repeated key instantiates back to the descriptor,
and satisfies the placeholder rules with two key information items -/
theorem bip388_template_instance :
    let d := "wsh(multi(2,[d3/48']xpubA/<0;1>/*,tpubB/<4;9>/*,[d3/48']xpubA/<2;3>/*))".toList
    (templateOf d).map (fun r => String.ofList r.1) = some "wsh(multi(2,@0/**,@1/<4;9>/*,@0/<2;3>/*))"
    ∧ ((templateOf d).bind fun r => instantiate r.1 r.2) = some d
    ∧ ((templateOf d).bind fun r => checkTemplate r.1).map (·.2) = some 2 := by
  decide +kernel

open Spec.Bip388 in
/-- BIP-388: descriptors without a template and templates breaking the placeholder rules -/
theorem bip388_rejections :
    templateOf "wpkh(xpubA/0/*)".toList = none ∧ templateOf "wpkh(xpubA/<1;0>/*)".toList = none
    ∧ templateOf "wsh(multi(2,xpubA/<0;1>/*,xpubA/<1;2>/*))".toList = none
    ∧ checkTemplate "wsh(multi(2,@1/**,@0/**))".toList = none
    ∧ checkTemplate "wpkh(@1/**)".toList = none
    ∧ checkTemplate "wsh(multi(2,@0/**,@0/<1;2>/*))".toList = none
    ∧ checkTemplate "wpkh(@0x/**)".toList = none
    ∧ (checkTemplate "wsh(multi(2,@0/**,@1/**,@1/<2;3>/*))".toList).isSome = true := by
  decide +kernel

open Spec.KeyGrammar in
/-- BIP-380/389 key grammar on instances (x-only hex key with origin; malformed spellings) -/
theorem keyexpr_instances :
    valid false "[d34db33f/44'/0h/7]c57b973499cb87c1409b29b475185b624c6abb8421f003246f1ede275d367af4".toList = true
    ∧ valid false "[d34db33f/44H]c57b973499cb87c1409b29b475185b624c6abb8421f003246f1ede275d367af4".toList = false
    ∧ valid false "[d34db33]c57b973499cb87c1409b29b475185b624c6abb8421f003246f1ede275d367af4".toList = false
    ∧ isMulti "<0;1h;2'>".toList = true ∧ isMulti "<0>".toList = false
    ∧ derivOk ["0".toList, "<0;1>".toList, "*h".toList] false = true
    ∧ derivOk ["<0;1>".toList, "<2;3>".toList] false = false
    ∧ derivOk ["*".toList, "0".toList] false = false := by
  decide +kernel

end MsVerif.C10b

/-
C06 — static types predict what fragments do when executed.

Every theorem is about the structured fragment semantics `frag env ke ctx ms : Core → Except Err
Core` (`Spec/Frag.lean`), i.e. about real opcode execution of `encode ms` (by the bridge theorem
`run (encode ms) = frag ms` of `Thm/Bridge.lean`; `zero_arg_run`, `one_arg_run`, `base_B_run`
below are stated directly on the flat interpreter `Script.run`), for EVERY machine state: all main stacks, alt
stacks and opcode counters, every key/hash environment, every signature oracle, every
transaction — no bound.  The only assumptions are

* `env.flags.stackLimits = false`: the 1000-element / 520-byte limits are off (with them on, no
  statement of the form "the elements below are irrelevant" can hold; the limits are C09's
  subject).  The opcode-count limit, MINIMALIF, NULLFAIL, NULLDUMMY, MINIMALDATA and the
  tapscript rules are arbitrary — the theorems hold under the script rules of every context;
* `wf ms`: every `thresh` has a child and every `multi` at most 20 keys — invariants of the
  library's `Threshold<T, MAX>` that the typing model `typeOf` does not re-check;
* `typeOf ms = some τ`: the fragment is well typed with the type the library assigns
  (`Model/TypeCheck.lean`, tied to `Miniscript::ty` by the C05 tables and the C06 run).

Proved here (T = DESIGN.md numbering), with the hypotheses each group needs BEYOND the three above:
* `frame`                  — every fragment (typed or not) ignores what lies below the part of the
                             stack it reaches, errors included                                  (—)
* `zero_arg`, `one_arg`    — `z` / `o`: consumes exactly 0 / 1 elements, on every stack, errors
                             included; result has exactly the size the base promises    (T1; —)
* `nonzero_B/V/K`          — `n`: never satisfied when the top input is the empty vector
                             (T1; `wfK`: multi-family thresholds ≥ 1)
* `base_B/V/K/W`, `base_B_length`, `verify_leaves_nothing`, `key_on_top`
                           — stack shape per base type with the number of removed elements
                             bounded by `maxArgs ms` (computed from the AST) and by the stack
                             depth; alt stack restored                                  (T5; —)
* `unit_B`, `unit_W`       — `u`: a true result is exactly `[1]`                         (T2; —)
  ALL OF THE ABOVE: every stack, every environment (oracle, hashes, transaction, flags).
* `signed_*_stackwise`, `signed_B_needs_signature`
                           — `s`: on an input holding no valid signature never satisfied
                             (T4; `wfS`, `OracleSane`: script-generated values are not signatures)
* `forced_*_stackwise`, `forced_B_dissat_needs_signature`
                           — `f`: on an input holding no valid signature never dissatisfied
                             (T4; `wfS`, `wfT`, `OracleSane`); `forced_for_all_oracles_false`:
                             the reading "never dissatisfied on ANY stack" is false
* `signed_B/V/K/W`, `forced_B/K/W` — the same for the oracle that accepts nothing (`NoSig`)
* `dissatisfiable`, `dissatisfiable_B`, `dissatisfiable_B_run`
                           — `d`: a witness computed without any asset dissatisfies the fragment
                             under every signature oracle (T3; the C01/C02/C07 side conditions)
* `zero_arg_run`, `one_arg_run`, `base_B_run`, `dissatisfiable_B_run` — on `Script.run (encode ms)`
-/
import MsVerif.Lemmas.TypeSoundDissat
import MsVerif.Thm.Bridge

namespace MsVerif.C06
open MsVerif MsVerif.Script MsVerif.TypeSound

/-- the core `c` with `rest` put below its stack -/
abbrev below (c : Core) (rest : List Bytes) : Core := { c with stack := c.stack ++ rest }

/-- an outcome with `rest` put below the resulting stack (errors unchanged) -/
abbrev belowR (r : Except Err Core) (rest : List Bytes) : Except Err Core := r.map (below · rest)

/-- the two error kinds that mean "ran out of stack" -/
abbrev Underflow (r : Except Err Core) : Prop :=
  r = .error .stackUnderflow ∨ r = .error .unbalancedConditional

/-! ## Frame: the part of the stack a fragment does not reach is irrelevant -/

/-- FRAME (no typing needed).  If running `ms` on `c` does not run out of stack, then running it
with any `rest` below gives the same outcome — same error, or same result with `rest` untouched
below it. -/
theorem frame {env : Env} (hlim : env.flags.stackLimits = false) (ke : KeyEnv) (ctx : Ctx) (ms : Ms)
    (c : Core) (rest : List Bytes) (h : ¬ Underflow (frag env ke ctx ms c)) :
    frag env ke ctx ms (below c rest) = belowR (frag env ke ctx ms c) rest :=
  framed_frag hlim ke ctx ms c rest ⟨fun e => h (Or.inl e), fun e => h (Or.inr e)⟩

/-! ## `z` and `o`: exact argument counts -/

/-- T1 `z`.  A fragment typed zero-arg behaves on EVERY stack exactly as on the empty stack
(same error or same result), with the stack left untouched below the result; and on success the
result consists of exactly what the base type promises (B: one element, V: none). -/
theorem zero_arg {env : Env} (hlim : env.flags.stackLimits = false) (ke : KeyEnv) (ctx : Ctx)
    {ms : Ms} {τ : Ty} (hwf : wf ms = true) (hty : typeOf ms = some τ) (hz : τ.corr.input = .zero)
    (stk alt : List Bytes) (ops : Nat) :
    frag env ke ctx ms ⟨stk, alt, ops⟩ = belowR (frag env ke ctx ms ⟨[], alt, ops⟩) stk ∧
    ∀ c', frag env ke ctx ms ⟨[], alt, ops⟩ = .ok c' → c'.stack.length = resLen τ.corr.base 0 := by
  have hc := args_cons hlim ke ctx ms hwf τ 0 hty (by rw [hz]; rfl)
  obtain ⟨hn, hok⟩ := hc [] [] alt ops rfl
  refine ⟨?_, ?_⟩
  · exact framed_frag hlim ke ctx ms ⟨[], alt, ops⟩ stk hn
  · intro c' h
    obtain ⟨out, ho, hs⟩ := hok c' h
    rw [hs, List.append_nil, ho]

/-- T1 `o`.  A fragment typed one-arg (`o`, with or without `n`) consumes exactly the top element:
on `x :: stk` it behaves exactly as on `[x]` (same error or same result) with `stk` untouched
below; on success the result on `[x]` has exactly the size the base type promises (B: 1, V: 0,
K: the key on top of `x`, which `CHECKSIG` then consumes). -/
theorem one_arg {env : Env} (hlim : env.flags.stackLimits = false) (ke : KeyEnv) (ctx : Ctx)
    {ms : Ms} {τ : Ty} (hwf : wf ms = true) (hty : typeOf ms = some τ)
    (ho : τ.corr.input = .one ∨ τ.corr.input = .oneNonZero)
    (x : Bytes) (stk alt : List Bytes) (ops : Nat) :
    frag env ke ctx ms ⟨x :: stk, alt, ops⟩ = belowR (frag env ke ctx ms ⟨[x], alt, ops⟩) stk ∧
    ∀ c', frag env ke ctx ms ⟨[x], alt, ops⟩ = .ok c' → c'.stack.length = resLen τ.corr.base 1 := by
  have hc := args_cons hlim ke ctx ms hwf τ 1 hty (by rcases ho with h | h <;> rw [h] <;> rfl)
  obtain ⟨hn, hok⟩ := hc [x] [] alt ops rfl
  refine ⟨?_, ?_⟩
  · exact framed_frag hlim ke ctx ms ⟨[x], alt, ops⟩ stk hn
  · intro c' h
    obtain ⟨out, ho', hs⟩ := hok c' h
    rw [hs, List.append_nil, ho']

/-- a one-arg fragment never completes by running out of stack as long as one element is there -/
theorem one_arg_no_underflow {env : Env} (hlim : env.flags.stackLimits = false) (ke : KeyEnv) (ctx : Ctx)
    {ms : Ms} {τ : Ty} (hwf : wf ms = true) (hty : typeOf ms = some τ)
    (ho : τ.corr.input = .one ∨ τ.corr.input = .oneNonZero)
    (x : Bytes) (stk alt : List Bytes) (ops : Nat) :
    ¬ Underflow (frag env ke ctx ms ⟨x :: stk, alt, ops⟩) := by
  have hc := args_cons hlim ke ctx ms hwf τ 1 hty (by rcases ho with h | h <;> rw [h] <;> rfl)
  obtain ⟨hn, _⟩ := hc [x] stk alt ops rfl
  intro hu
  rcases hu with hu | hu
  · exact hn.1 hu
  · exact hn.2 hu

/-! ## Base types: the stack shape the composition rules assume -/

/-- T5 `B`: a successful B fragment restores the alt stack, removes EXACTLY `n` input elements and
pushes exactly one result `v`, where `n` is at most `maxArgs ms` (a bound computed from the AST)
and at most the stack depth — so `c'.stack.length + n = c.stack.length + 1`. -/
theorem base_B {env : Env} (hlim : env.flags.stackLimits = false) (ke : KeyEnv) (ctx : Ctx)
    {ms : Ms} {τ : Ty} (hwf : wf ms = true) (hty : typeOf ms = some τ) (hb : τ.corr.base = .B)
    {c c' : Core} (hrun : frag env ke ctx ms c = .ok c') :
    c'.alt = c.alt ∧ ∃ v n, n ≤ maxArgs ms ∧ n ≤ c.stack.length ∧ c'.stack = v :: c.stack.drop n := by
  obtain ⟨ha, hp⟩ := shapeN hlim ke ctx ms hwf τ hty c c' hrun
  obtain ⟨v, n, hn, e, _⟩ := (PostN.B hb).1 hp
  exact ⟨ha, v, min n c.stack.length, Nat.le_trans (Nat.min_le_left _ _) hn, Nat.min_le_right _ _,
    by rw [e, drop_min]⟩

/-- the length form of `base_B`: one element pushed, at most `maxArgs ms` popped -/
theorem base_B_length {env : Env} (hlim : env.flags.stackLimits = false) (ke : KeyEnv) (ctx : Ctx)
    {ms : Ms} {τ : Ty} (hwf : wf ms = true) (hty : typeOf ms = some τ) (hb : τ.corr.base = .B)
    {c c' : Core} (hrun : frag env ke ctx ms c = .ok c') :
    c.stack.length + 1 ≤ c'.stack.length + maxArgs ms ∧ c'.stack.length ≤ c.stack.length + 1 := by
  obtain ⟨_, v, n, hn, hl, e⟩ := base_B hlim ke ctx hwf hty hb hrun
  rw [e, List.length_cons, List.length_drop]
  omega

/-- T5 `V`: a successful V fragment restores the alt stack and removes exactly `n ≤ maxArgs ms`
input elements, pushing nothing. -/
theorem base_V {env : Env} (hlim : env.flags.stackLimits = false) (ke : KeyEnv) (ctx : Ctx)
    {ms : Ms} {τ : Ty} (hwf : wf ms = true) (hty : typeOf ms = some τ) (hb : τ.corr.base = .V)
    {c c' : Core} (hrun : frag env ke ctx ms c = .ok c') :
    c'.alt = c.alt ∧ ∃ n, n ≤ maxArgs ms ∧ n ≤ c.stack.length ∧ c'.stack = c.stack.drop n := by
  obtain ⟨ha, hp⟩ := shapeN hlim ke ctx ms hwf τ hty c c' hrun
  obtain ⟨n, hn, e⟩ := (PostN.V hb).1 hp
  exact ⟨ha, min n c.stack.length, Nat.le_trans (Nat.min_le_left _ _) hn, Nat.min_le_right _ _,
    by rw [e, drop_min]⟩

/-- T5: "V never leaves a value" — whatever a V fragment leaves was already there, in the same
order (it continues or aborts; it can never leave `false`). -/
theorem verify_leaves_nothing {env : Env} (hlim : env.flags.stackLimits = false) (ke : KeyEnv) (ctx : Ctx)
    {ms : Ms} {τ : Ty} (hwf : wf ms = true) (hty : typeOf ms = some τ) (hb : τ.corr.base = .V)
    {c c' : Core} (hrun : frag env ke ctx ms c = .ok c') :
    c'.stack.length ≤ c.stack.length ∧ c'.stack = c.stack.drop (c.stack.length - c'.stack.length) := by
  obtain ⟨_, n, _, _, e⟩ := base_V hlim ke ctx hwf hty hb hrun
  have hl : c'.stack.length = c.stack.length - n := by rw [e, List.length_drop]
  refine ⟨by omega, ?_⟩
  by_cases hn : n ≤ c.stack.length
  · rw [hl, show c.stack.length - (c.stack.length - n) = n by omega]; exact e
  · have h0 : c'.stack = [] := by rw [e, List.drop_eq_nil_of_le (by omega)]
    rw [h0, List.length_nil, Nat.sub_zero, List.drop_eq_nil_of_le (Nat.le_refl _)]

/-- T5 `K`: a successful K fragment restores the alt stack, removes exactly `n ≤ maxArgs ms` input
elements and pushes exactly one element (the key, see `key_on_top`). -/
theorem base_K {env : Env} (hlim : env.flags.stackLimits = false) (ke : KeyEnv) (ctx : Ctx)
    {ms : Ms} {τ : Ty} (hwf : wf ms = true) (hty : typeOf ms = some τ) (hb : τ.corr.base = .K)
    {c c' : Core} (hrun : frag env ke ctx ms c = .ok c') :
    c'.alt = c.alt ∧ ∃ k n, n ≤ maxArgs ms ∧ n ≤ c.stack.length ∧ c'.stack = k :: c.stack.drop n := by
  obtain ⟨ha, hp⟩ := shapeN hlim ke ctx ms hwf τ hty c c' hrun
  obtain ⟨k, n, hn, e⟩ := (PostN.K hb).1 hp
  exact ⟨ha, k, min n c.stack.length, Nat.le_trans (Nat.min_le_left _ _) hn, Nat.min_le_right _ _,
    by rw [e, drop_min]⟩

/-- T5 `K`: the element a K fragment leaves on top is the key: the serialisation named by a
`pk_k`, or an element whose HASH160 is the hash committed by a `pk_h` of the fragment. -/
theorem key_on_top {env : Env} (ke : KeyEnv) (ctx : Ctx)
    {ms : Ms} {τ : Ty} (hty : typeOf ms = some τ) (hb : τ.corr.base = .K)
    {c c' : Core} (hrun : frag env ke ctx ms c = .ok c') :
    ∃ k r, c'.stack = k :: r ∧ keyTop env ke ms k :=
  key_top ke ctx ms τ hty hb c c' hrun

/-- T5 `W`: a successful W fragment restores the alt stack, needs an element `x` on top, removes
exactly `n ≤ maxArgs ms` elements below `x` and leaves exactly `x` and one result `v`, in either
order (`a:` leaves `x` on top, `s:` below) — what `BOOLAND`/`BOOLOR`/`ADD` consume. -/
theorem base_W {env : Env} (hlim : env.flags.stackLimits = false) (ke : KeyEnv) (ctx : Ctx)
    {ms : Ms} {τ : Ty} (hwf : wf ms = true) (hty : typeOf ms = some τ) (hb : τ.corr.base = .W)
    {c c' : Core} (hrun : frag env ke ctx ms c = .ok c') :
    c'.alt = c.alt ∧ ∃ x tl v n, n ≤ maxArgs ms ∧ n ≤ tl.length ∧ c.stack = x :: tl ∧
      (c'.stack = x :: v :: tl.drop n ∨ c'.stack = v :: x :: tl.drop n) := by
  obtain ⟨ha, hp⟩ := shapeN hlim ke ctx ms hwf τ hty c c' hrun
  obtain ⟨x, tl, v, n, hn, e1, e2, _⟩ := (PostN.W hb).1 hp
  refine ⟨ha, x, tl, v, min n tl.length, Nat.le_trans (Nat.min_le_left _ _) hn, Nat.min_le_right _ _, e1, ?_⟩
  rw [← drop_min]; exact e2

/-! ## `u`: a true result is exactly 1 -/

/-- T2 `u` for B: if a unit B fragment completes and its result is true (`CastToBool`), the
result is exactly the one-byte vector `[1]`. -/
theorem unit_B {env : Env} (hlim : env.flags.stackLimits = false) (ke : KeyEnv) (ctx : Ctx)
    {ms : Ms} {τ : Ty} (hwf : wf ms = true) (hty : typeOf ms = some τ) (hb : τ.corr.base = .B)
    (hu : τ.corr.unit = true) {c c' : Core} (hrun : frag env ke ctx ms c = .ok c')
    {v : Bytes} {r : List Bytes} (hs : c'.stack = v :: r) (hv : castToBool v = true) : v = [1] := by
  obtain ⟨_, hp⟩ := shape hlim ke ctx ms hwf τ hty c c' hrun
  obtain ⟨v', n, e, huv⟩ := (Post.B hb).1 hp
  rw [hs] at e
  simp only [List.cons.injEq] at e
  obtain ⟨rfl, _⟩ := e
  exact huv hu hv

/-- T2 `u` for W: of the two elements a unit W fragment leaves, the one that is not the `x` it
found on top is exactly `[1]` whenever it is true. -/
theorem unit_W {env : Env} (hlim : env.flags.stackLimits = false) (ke : KeyEnv) (ctx : Ctx)
    {ms : Ms} {τ : Ty} (hwf : wf ms = true) (hty : typeOf ms = some τ) (hb : τ.corr.base = .W)
    (hu : τ.corr.unit = true) {c c' : Core} (hrun : frag env ke ctx ms c = .ok c') :
    ∃ x tl v n, c.stack = x :: tl ∧
      (c'.stack = x :: v :: tl.drop n ∨ c'.stack = v :: x :: tl.drop n) ∧
      (castToBool v = true → v = [1]) := by
  obtain ⟨_, hp⟩ := shape hlim ke ctx ms hwf τ hty c c' hrun
  obtain ⟨x, tl, v, n, e1, e2, huv⟩ := (Post.W hb).1 hp
  exact ⟨x, tl, v, n, e1, e2, huv hu⟩

/-! ## `n`: never satisfied with the empty vector on top

`wfK ms`: every `multi`-family threshold is at least 1 (guaranteed by `Threshold::new`). -/

/-- T1 `n` for B: a B fragment typed `n` (`oneNonZero` / `anyNonZero`), run on a stack whose top
element is the empty vector, never completes with a true result. -/
theorem nonzero_B {env : Env} (hlim : env.flags.stackLimits = false) (ke : KeyEnv) (ctx : Ctx)
    {ms : Ms} {τ : Ty} (hwf : wf ms = true) (hwk : wfK ms = true) (hty : typeOf ms = some τ)
    (hb : τ.corr.base = .B) (hn : τ.corr.input = .oneNonZero ∨ τ.corr.input = .anyNonZero)
    {stk alt : List Bytes} {ops : Nat} {c' : Core}
    (hrun : frag env ke ctx ms ⟨[] :: stk, alt, ops⟩ = .ok c') {v : Bytes} {r : List Bytes}
    (hs : c'.stack = v :: r) : castToBool v = false := by
  have := nonzero hlim ke ctx ms hwf hwk τ hty hn stk alt ops c' hrun
  rw [hb] at this
  exact this v r hs

/-- T1 `n` for V: a V fragment typed `n` cannot complete at all on such a stack. -/
theorem nonzero_V {env : Env} (hlim : env.flags.stackLimits = false) (ke : KeyEnv) (ctx : Ctx)
    {ms : Ms} {τ : Ty} (hwf : wf ms = true) (hwk : wfK ms = true) (hty : typeOf ms = some τ)
    (hb : τ.corr.base = .V) (hn : τ.corr.input = .oneNonZero ∨ τ.corr.input = .anyNonZero)
    (stk alt : List Bytes) (ops : Nat) :
    ∃ e, frag env ke ctx ms ⟨[] :: stk, alt, ops⟩ = .error e := by
  cases hr : frag env ke ctx ms ⟨[] :: stk, alt, ops⟩ with
  | error e => exact ⟨e, rfl⟩
  | ok c' =>
    have := nonzero hlim ke ctx ms hwf hwk τ hty hn stk alt ops c' hr
    rw [hb] at this
    exact this.elim

/-- T1 `n` for K: the `OP_CHECKSIG` that follows a K fragment typed `n` never pushes true. -/
theorem nonzero_K {env : Env} (hlim : env.flags.stackLimits = false) (ke : KeyEnv) (ctx : Ctx)
    {ms : Ms} {τ : Ty} (hwf : wf ms = true) (hwk : wfK ms = true) (hty : typeOf ms = some τ)
    (hb : τ.corr.base = .K) (hn : τ.corr.input = .oneNonZero ∨ τ.corr.input = .anyNonZero)
    {stk alt : List Bytes} {ops : Nat} {c' c'' : Core}
    (hrun : frag env ke ctx ms ⟨[] :: stk, alt, ops⟩ = .ok c') (hsig : opc env .checksig c' = .ok c'')
    {v : Bytes} {r : List Bytes} (hs : c''.stack = v :: r) : castToBool v = false := by
  have := nonzero hlim ke ctx ms hwf hwk τ hty hn stk alt ops c' hrun
  rw [hb] at this
  exact this c'' hsig v r hs

/-! ## `s` and `f`: what cannot happen without a signature

`NoSig env`: no signature verifies (`env.sigOk pk sg = false` for all `pk`, `sg`) — the spender
has no valid signature for anything.  `wfS ms`, `wfT ms`: the remaining construction invariants
of the library (multi-family thresholds ≥ 1, `multi_a` has a key, `thresh` has k ≤ n < 2³¹
children; lock times in 1 … 2³¹−1). -/

/-- T4 `s` for B: without a valid signature a signed B fragment never completes with a true
result. -/
theorem signed_B {env : Env} (hlim : env.flags.stackLimits = false) (hns : NoSig env) (ke : KeyEnv) (ctx : Ctx)
    {ms : Ms} {τ : Ty} (hwf : wf ms = true) (hws : wfS ms = true) (hty : typeOf ms = some τ)
    (hb : τ.corr.base = .B) (hs : τ.mall.signed = true) {c c' : Core}
    (hrun : frag env ke ctx ms c = .ok c') {v : Bytes} {r : List Bytes} (hst : c'.stack = v :: r) :
    castToBool v = false :=
  (UnsatS.B hb).1 (signed hlim hns ke ctx ms hwf hws τ hty hs c c' hrun) v r hst

/-- T4 `s` for V: without a valid signature a signed V fragment never completes. -/
theorem signed_V {env : Env} (hlim : env.flags.stackLimits = false) (hns : NoSig env) (ke : KeyEnv) (ctx : Ctx)
    {ms : Ms} {τ : Ty} (hwf : wf ms = true) (hws : wfS ms = true) (hty : typeOf ms = some τ)
    (hb : τ.corr.base = .V) (hs : τ.mall.signed = true) (c : Core) :
    ∃ e, frag env ke ctx ms c = .error e := by
  cases hr : frag env ke ctx ms c with
  | error e => exact ⟨e, rfl⟩
  | ok c' => exact ((UnsatS.V hb).1 (signed hlim hns ke ctx ms hwf hws τ hty hs c c' hr)).elim

/-- T4 `s` for K (every K fragment is signed): without a valid signature the `OP_CHECKSIG` that
consumes the key never pushes true — whatever was executed before. -/
theorem signed_K {env : Env} (hns : NoSig env) {c' c'' : Core} (hsig : opc env .checksig c' = .ok c'')
    {v : Bytes} {r : List Bytes} (hst : c''.stack = v :: r) : castToBool v = false :=
  checksig_nosig hns hsig hst

/-- T4 `s` for W: without a valid signature the result a signed W fragment leaves next to the
`x` it found on top is false. -/
theorem signed_W {env : Env} (hlim : env.flags.stackLimits = false) (hns : NoSig env) (ke : KeyEnv) (ctx : Ctx)
    {ms : Ms} {τ : Ty} (hwf : wf ms = true) (hws : wfS ms = true) (hty : typeOf ms = some τ)
    (hb : τ.corr.base = .W) (hs : τ.mall.signed = true) {c c' : Core}
    (hrun : frag env ke ctx ms c = .ok c') {x : Bytes} {tl : List Bytes} (hst : c.stack = x :: tl) :
    ∃ v r, (c'.stack = x :: v :: r ∨ c'.stack = v :: x :: r) ∧ castToBool v = false :=
  (UnsatS.W hb).1 (signed hlim hns ke ctx ms hwf hws τ hty hs c c' hrun) x tl hst

/-- T4 `f` for B: without a valid signature a forced B fragment (`Dissat::None`) that completes
leaves a TRUE value — it cannot be dissatisfied. -/
theorem forced_B {env : Env} (hlim : env.flags.stackLimits = false) (hns : NoSig env) (ke : KeyEnv) (ctx : Ctx)
    {ms : Ms} {τ : Ty} (hwf : wf ms = true) (hws : wfS ms = true) (hwt : wfT ms = true)
    (hty : typeOf ms = some τ) (hb : τ.corr.base = .B) (hd : τ.mall.dissat = .none) {c c' : Core}
    (hrun : frag env ke ctx ms c = .ok c') {v : Bytes} {r : List Bytes} (hst : c'.stack = v :: r) :
    castToBool v = true :=
  (ForcedS.B hb).1 (forced hlim hns ke ctx ms hwf hws hwt τ hty hd c c' hrun) v r hst

/-- T4 `f` for K: without a valid signature a forced K fragment cannot complete at all. -/
theorem forced_K {env : Env} (hlim : env.flags.stackLimits = false) (hns : NoSig env) (ke : KeyEnv) (ctx : Ctx)
    {ms : Ms} {τ : Ty} (hwf : wf ms = true) (hws : wfS ms = true) (hwt : wfT ms = true)
    (hty : typeOf ms = some τ) (hb : τ.corr.base = .K) (hd : τ.mall.dissat = .none) (c : Core) :
    ∃ e, frag env ke ctx ms c = .error e := by
  cases hr : frag env ke ctx ms c with
  | error e => exact ⟨e, rfl⟩
  | ok c' => exact ((ForcedS.K hb).1 (forced hlim hns ke ctx ms hwf hws hwt τ hty hd c c' hr)).elim

/-- T4 `f` for W -/
theorem forced_W {env : Env} (hlim : env.flags.stackLimits = false) (hns : NoSig env) (ke : KeyEnv) (ctx : Ctx)
    {ms : Ms} {τ : Ty} (hwf : wf ms = true) (hws : wfS ms = true) (hwt : wfT ms = true)
    (hty : typeOf ms = some τ) (hb : τ.corr.base = .W) (hd : τ.mall.dissat = .none) {c c' : Core}
    (hrun : frag env ke ctx ms c = .ok c') {x : Bytes} {tl : List Bytes} (hst : c.stack = x :: tl) :
    ∃ v r, (c'.stack = x :: v :: r ∨ c'.stack = v :: x :: r) ∧ castToBool v = true :=
  (ForcedS.W hb).1 (forced hlim hns ke ctx ms hwf hws hwt τ hty hd c c' hrun) x tl hst

/-! ## `s` and `f`, stack-wise: for EVERY sane oracle, on stacks without a valid signature

`Clean env v`: `v` verifies under no key.  `AllClean env c`: every element of the main and the alt
stack of `c` is clean — "the input contains no valid signature".  `OracleSane env ke`: no value
the script generates by itself (`Gen`: script numbers, booleans, its key / key-hash / hash
constants, hash outputs) is a valid signature — without it a `CHECKSIG` could accept e.g. the
number a previous fragment left, and the letters `s`/`f` would say nothing about inputs.
`same_frag` (Lemmas/TypeSoundClean.lean) shows that such a run IS, step by step, the run under
the oracle that accepts nothing, which is how the `NoSig` theorems transfer. -/

/-- T4 `s`, the property's meaning: on an input without a valid signature a signed B fragment is
never satisfied — for every sane oracle. -/
theorem signed_B_stackwise {env : Env} (hlim : env.flags.stackLimits = false) {ke : KeyEnv}
    (hso : OracleSane env ke) (ctx : Ctx) {ms : Ms} {τ : Ty} (hwf : wf ms = true) (hws : wfS ms = true)
    (hty : typeOf ms = some τ) (hb : τ.corr.base = .B) (hs : τ.mall.signed = true) {c c' : Core}
    (hclean : AllClean env c) (hrun : frag env ke ctx ms c = .ok c') {v : Bytes} {r : List Bytes}
    (hst : c'.stack = v :: r) : castToBool v = false :=
  (UnsatS.B hb).1 (signed_clean hlim hso ctx ms hwf hws τ hty hs c c' hclean hrun) v r hst

/-- the same read forwards: every execution that SATISFIES a signed B fragment started from a
state holding at least one element that is a valid signature for some key. -/
theorem signed_B_needs_signature {env : Env} (hlim : env.flags.stackLimits = false) {ke : KeyEnv}
    (hso : OracleSane env ke) (ctx : Ctx) {ms : Ms} {τ : Ty} (hwf : wf ms = true) (hws : wfS ms = true)
    (hty : typeOf ms = some τ) (hb : τ.corr.base = .B) (hs : τ.mall.signed = true) {c c' : Core}
    (hrun : frag env ke ctx ms c = .ok c') {v : Bytes} {r : List Bytes}
    (hst : c'.stack = v :: r) (hsat : castToBool v = true) :
    ∃ e, (e ∈ c.stack ∨ e ∈ c.alt) ∧ ∃ pk, env.sigOk pk e = true := by
  apply Classical.byContradiction
  intro hne
  have hclean : AllClean env c := by
    constructor
    · intro e he pk
      cases hsk : env.sigOk pk e with
      | false => rfl
      | true => exact (hne ⟨e, Or.inl he, pk, hsk⟩).elim
    · intro e he pk
      cases hsk : env.sigOk pk e with
      | false => rfl
      | true => exact (hne ⟨e, Or.inr he, pk, hsk⟩).elim
  have := signed_B_stackwise hlim hso ctx hwf hws hty hb hs hclean hrun hst
  rw [hsat] at this
  cases this

/-- T4 `s` for V, stack-wise: without a valid signature in the input a signed V fragment aborts. -/
theorem signed_V_stackwise {env : Env} (hlim : env.flags.stackLimits = false) {ke : KeyEnv}
    (hso : OracleSane env ke) (ctx : Ctx) {ms : Ms} {τ : Ty} (hwf : wf ms = true) (hws : wfS ms = true)
    (hty : typeOf ms = some τ) (hb : τ.corr.base = .V) (hs : τ.mall.signed = true) {c : Core}
    (hclean : AllClean env c) : ∃ e, frag env ke ctx ms c = .error e := by
  cases hr : frag env ke ctx ms c with
  | error e => exact ⟨e, rfl⟩
  | ok c' => exact ((UnsatS.V hb).1 (signed_clean hlim hso ctx ms hwf hws τ hty hs c c' hclean hr)).elim

/-- T4 `s` for W, stack-wise -/
theorem signed_W_stackwise {env : Env} (hlim : env.flags.stackLimits = false) {ke : KeyEnv}
    (hso : OracleSane env ke) (ctx : Ctx) {ms : Ms} {τ : Ty} (hwf : wf ms = true) (hws : wfS ms = true)
    (hty : typeOf ms = some τ) (hb : τ.corr.base = .W) (hs : τ.mall.signed = true) {c c' : Core}
    (hclean : AllClean env c) (hrun : frag env ke ctx ms c = .ok c') {x : Bytes} {tl : List Bytes}
    (hst : c.stack = x :: tl) :
    ∃ v r, (c'.stack = x :: v :: r ∨ c'.stack = v :: x :: r) ∧ castToBool v = false :=
  (UnsatS.W hb).1 (signed_clean hlim hso ctx ms hwf hws τ hty hs c c' hclean hrun) x tl hst

/-- T4 `f`, the property's meaning ("a forced fragment cannot be made to leave 0 without a
signature"): on an input without a valid signature a forced B fragment that completes leaves a
TRUE value — for every sane oracle. -/
theorem forced_B_stackwise {env : Env} (hlim : env.flags.stackLimits = false) {ke : KeyEnv}
    (hso : OracleSane env ke) (ctx : Ctx) {ms : Ms} {τ : Ty} (hwf : wf ms = true) (hws : wfS ms = true)
    (hwt : wfT ms = true) (hty : typeOf ms = some τ) (hb : τ.corr.base = .B) (hd : τ.mall.dissat = .none)
    {c c' : Core} (hclean : AllClean env c) (hrun : frag env ke ctx ms c = .ok c') {v : Bytes}
    {r : List Bytes} (hst : c'.stack = v :: r) : castToBool v = true :=
  (ForcedS.B hb).1 (forced_clean hlim hso ctx ms hwf hws hwt τ hty hd c c' hclean hrun) v r hst

/-- the same read forwards: an execution that DISSATISFIES a forced B fragment (completes with a
false value) consumed a state holding a valid signature. -/
theorem forced_B_dissat_needs_signature {env : Env} (hlim : env.flags.stackLimits = false) {ke : KeyEnv}
    (hso : OracleSane env ke) (ctx : Ctx) {ms : Ms} {τ : Ty} (hwf : wf ms = true) (hws : wfS ms = true)
    (hwt : wfT ms = true) (hty : typeOf ms = some τ) (hb : τ.corr.base = .B) (hd : τ.mall.dissat = .none)
    {c c' : Core} (hrun : frag env ke ctx ms c = .ok c') {v : Bytes} {r : List Bytes}
    (hst : c'.stack = v :: r) (hdis : castToBool v = false) :
    ∃ e, (e ∈ c.stack ∨ e ∈ c.alt) ∧ ∃ pk, env.sigOk pk e = true := by
  apply Classical.byContradiction
  intro hne
  have hclean : AllClean env c := by
    constructor
    · intro e he pk
      cases hsk : env.sigOk pk e with
      | false => rfl
      | true => exact (hne ⟨e, Or.inl he, pk, hsk⟩).elim
    · intro e he pk
      cases hsk : env.sigOk pk e with
      | false => rfl
      | true => exact (hne ⟨e, Or.inr he, pk, hsk⟩).elim
  have := forced_B_stackwise hlim hso ctx hwf hws hwt hty hb hd hclean hrun hst
  rw [hdis] at this
  cases this

/-- T4 `f` for K / W, stack-wise -/
theorem forced_K_stackwise {env : Env} (hlim : env.flags.stackLimits = false) {ke : KeyEnv}
    (hso : OracleSane env ke) (ctx : Ctx) {ms : Ms} {τ : Ty} (hwf : wf ms = true) (hws : wfS ms = true)
    (hwt : wfT ms = true) (hty : typeOf ms = some τ) (hb : τ.corr.base = .K) (hd : τ.mall.dissat = .none)
    {c : Core} (hclean : AllClean env c) : ∃ e, frag env ke ctx ms c = .error e := by
  cases hr : frag env ke ctx ms c with
  | error e => exact ⟨e, rfl⟩
  | ok c' => exact ((ForcedS.K hb).1 (forced_clean hlim hso ctx ms hwf hws hwt τ hty hd c c' hclean hr)).elim

theorem forced_W_stackwise {env : Env} (hlim : env.flags.stackLimits = false) {ke : KeyEnv}
    (hso : OracleSane env ke) (ctx : Ctx) {ms : Ms} {τ : Ty} (hwf : wf ms = true) (hws : wfS ms = true)
    (hwt : wfT ms = true) (hty : typeOf ms = some τ) (hb : τ.corr.base = .W) (hd : τ.mall.dissat = .none)
    {c c' : Core} (hclean : AllClean env c) (hrun : frag env ke ctx ms c = .ok c') {x : Bytes}
    {tl : List Bytes} (hst : c.stack = x :: tl) :
    ∃ v r, (c'.stack = x :: v :: r ∨ c'.stack = v :: x :: r) ∧ castToBool v = true :=
  (ForcedS.W hb).1 (forced_clean hlim hso ctx ms hwf hws hwt τ hty hd c c' hclean hrun) x tl hst

/-! ### non-vacuity of the stack-wise hypotheses -/

/-- the toy world `Toy` (Lemmas/TypeSoundDissat.lean) with an oracle that accepts exactly one 64-byte string -/
def saneEnv : Env := { Toy.env 0 0 with sigOk := fun _ sg => sg == List.replicate 64 0x11 }

/-- `OracleSane` is satisfiable: numbers are at most 10 bytes long, the toy keys 33, and the toy
hash outputs end in the byte 7 -/
theorem saneEnv_sane : OracleSane saneEnv Toy.ke := by
  intro v hg pk
  show (v == List.replicate 64 0x11) = false
  cases hg with
  | num n => exact ne_of_length (by have := numEncode_length n; simp only [List.length_replicate]; omega)
  | small n => exact ne_of_length (by split <;> simp)
  | bool b => exact ne_of_length (by cases b <;> simp [boolBytes])
  | ser k => exact ne_of_length (by simp [Toy.ke, Toy.ser])
  | pkh k => exact ne_of_last
  | rawPkh h => exact ne_of_last
  | hashVal kind h => exact ne_of_last
  | hash op a => exact ne_of_last

/-- a state without a valid signature (the oracle of `saneEnv` is not the toy one of Thm/C01) -/
theorem exClean : AllClean saneEnv ⟨[[1], Toy.ser 0 ++ [1]], [[2]], 0⟩ := by
  constructor <;> intro e he pk <;> simp at he <;> (try rcases he with rfl | rfl) <;> (try subst he) <;>
    exact ne_of_length (by simp [Toy.ser])

/-- `signed_B_stackwise` instantiated on `and_v(v:pk(K0),after(100))` (signed, with a lock) -/
example (c' : Core) (v : Bytes) (r : List Bytes)
    (h : frag saneEnv Toy.ke .segwitv0 (.andV (.verify (.check (.pkK 0))) (.after 100))
      ⟨[[1], Toy.ser 0 ++ [1]], [[2]], 0⟩ = .ok c') (hst : c'.stack = v :: r) : castToBool v = false :=
  signed_B_stackwise (τ := ⟨⟨.B, .oneNonZero, false, false⟩, ⟨.none, true, true⟩⟩) rfl saneEnv_sane .segwitv0
    (by decide) (by decide) (by decide) rfl rfl exClean h hst

/-! ### `f` is NOT "cannot be dissatisfied on any stack"

`Dissat::None` means that every dissatisfaction involves a signature, not that there is none:
`and_b(and_v(v:pk(K0),1),a:0)` is typed `f` by the library (rule `and_b`: left child forced and
signed), and WITH a valid signature for K0 it completes with the false value — satisfy the left
child, dissatisfy the right one.  So the reading "for every oracle and every stack a forced
fragment never ends dissatisfied" is false; `forced_B_stackwise` is the strongest true form. -/

/-- `and_b(and_v(v:pk(K0),1),a:0)` -/
def exForced : Ms := .andB (.andV (.verify (.check (.pkK 0))) .tru) (.alt .fls)

example : wf exForced = true ∧ wfS exForced = true ∧ wfT exForced = true ∧
    (typeOf exForced).map (fun t => (t.corr.base, t.mall.dissat)) = some (.B, .none) := by decide

/-- in the toy world `Toy` (Lemmas/TypeSoundDissat.lean) (a signature is valid iff it is `key ++ [1]`), on the stack holding
the valid signature for K0, the forced fragment completes and leaves the empty vector -/
theorem forced_dissatisfied_with_signature :
    ∃ c', frag (Toy.env 0 0) Toy.ke .segwitv0 exForced ⟨[Toy.ser 0 ++ [1]], [], 0⟩ = .ok c' ∧
      c'.stack = [[]] :=
  ⟨⟨[[]], [], 4⟩, by rfl, rfl⟩

/-- the over-strong reading of `f` is refuted -/
theorem forced_for_all_oracles_false :
    ¬ (∀ (env : Env) (ke : KeyEnv) (ctx : Ctx) (ms : Ms) (τ : Ty) (c c' : Core) (v : Bytes) (r : List Bytes),
        env.flags.stackLimits = false → wf ms = true → wfS ms = true → wfT ms = true → typeOf ms = some τ →
        τ.corr.base = .B → τ.mall.dissat = .none → frag env ke ctx ms c = .ok c' → c'.stack = v :: r →
        castToBool v = true) := by
  intro h
  obtain ⟨c', hr, hs⟩ := forced_dissatisfied_with_signature
  have := h (Toy.env 0 0) Toy.ke .segwitv0 exForced _ _ c' [] [] rfl (by decide) (by decide) (by decide)
    (by decide : typeOf exForced = some ⟨⟨.B, .anyNonZero, false, true⟩, ⟨.none, true, true⟩⟩) rfl rfl hr hs
  simp [castToBool] at this

/-! ## `d`: a dissatisfiable fragment has a signature-free input that dissatisfies it

By composition of C07.`dissatisfiable_of_type`, C02.`mall_complete_table` and C01.`dissat_sound`
(`Lemmas/TypeSoundDissat.lean`); their hypotheses are carried explicitly:
`EnvOk env ctx` (limits off, tapscript rules iff the context is Tap), `Agrees env ke noAssets σ`
(keys have the shape the context wants, `pk_h` commits to HASH160 of the key, 32 zero bytes are
not a preimage of a committed hash, witness elements are shorter than 2³¹ bytes; NOTHING about
signatures, because the caller holds none), `WF ctx ms` (`Threshold::new` / lock-time ranges /
multi vs multi_a per context), `noRaw ms` (no raw pubkey hash: its key is not in the script),
`ThreshKOK ms` (1 ≤ k ≤ n at every `thresh`), `SmallScript ms` (fewer than 2⁵⁵ witness items), and `LocksMet`: the locks the model REPORTS for
this dissatisfaction are met by the transaction (the library reports none for a `d` fragment in
non-malleable mode — C01.`dissat_clean_nonmall`; for the malleable-mode witness used here this
is a hypothesis, discharged by evaluation in the example).

The witness is the dissatisfaction the satisfier computes for a caller who holds NO signature,
NO preimage and NO lock (`noCfg`), and the run reaches the dissatisfied shape under EVERY
signature oracle `so` — in particular under the one that accepts nothing, for which the input
trivially contains no valid signature. -/

/-- T3 `d`, all base types (vocabulary of Spec/SatSpec.lean): there is a witness template `w`,
computed without any asset, such that under every signature oracle the fragment run on the
realised witness (above any `rest`, any alt stack, any opcode counter) leaves exactly the empty
vector in place of the witness (B), the key over an empty signature (K), resp. the empty vector
next to the untouched top element (W). -/
theorem dissatisfiable {env : Env} {ke : KeyEnv} {ctx : Ctx} {σ : Ph → Bytes} {ms : Ms} {τ : Ty}
    (henv : SatSpec.EnvOk env ctx) (hag : SatSpec.Agrees env ke noAssets σ) (hwf : SatSpec.WF ctx ms)
    (hty : typeOf ms = some τ) (hraw : Lift.noRaw ms = true) (hk : C02.ThreshKOK ms) (hsm : C02.SmallScript ms)
    (hd : τ.corr.dissat = true)
    (hl : SatSpec.LocksMet env (satDissat (noCfg ke ctx) ms).dissat) :
    ∃ w, (satDissat (noCfg ke ctx) ms).dissat.stack = .stack w ∧
      ∀ so : Bytes → Bytes → Bool, SatSpec.DisRuns { env with sigOk := so } ke ctx σ τ.corr ms w := by
  obtain ⟨w, hw⟩ := dissat_stack_of_type ke ctx ms τ hty hraw hk hsm hd
  refine ⟨w, hw, fun so => ?_⟩
  exact C01.dissat_sound (cfg := noCfg ke ctx) (env := { env with sigOk := so })
    ⟨henv.opLimit, henv.stackLimits, henv.tap⟩ (agrees_oracle hag so) ms τ hwf hty w hw hl

/-- T3 `d` for B, spelled out: a concrete input `inp` such that, under every signature oracle,
`frag` on `inp ++ rest` completes, restores the alt stack and leaves exactly `[] :: rest`. -/
theorem dissatisfiable_B {env : Env} {ke : KeyEnv} {ctx : Ctx} {σ : Ph → Bytes} {ms : Ms} {τ : Ty}
    (henv : SatSpec.EnvOk env ctx) (hag : SatSpec.Agrees env ke noAssets σ) (hwf : SatSpec.WF ctx ms)
    (hty : typeOf ms = some τ) (hraw : Lift.noRaw ms = true) (hk : C02.ThreshKOK ms) (hsm : C02.SmallScript ms)
    (hb : τ.corr.base = .B) (hd : τ.corr.dissat = true)
    (hl : SatSpec.LocksMet env (satDissat (noCfg ke ctx) ms).dissat) :
    ∃ inp : List Bytes, ∀ (so : Bytes → Bytes → Bool) (rest alt : List Bytes) (ops : Nat),
      ∃ c', frag { env with sigOk := so } ke ctx ms ⟨inp ++ rest, alt, ops⟩ = .ok c' ∧
        c'.stack = [] :: rest ∧ c'.alt = alt := by
  obtain ⟨w, _, hr⟩ := dissatisfiable henv hag hwf hty hraw hk hsm hd hl
  exact ⟨SatSpec.stk σ w, fun so rest alt ops => (SatSpec.disRuns_B hb).mp (hr so) rest alt ops⟩

/-- T3 `d` on real opcode execution, under the oracle that accepts nothing (so the input holds
no valid signature): the flat interpreter runs the encoded script on `inp ++ rest` to
`[] :: rest`. -/
theorem dissatisfiable_B_run {env : Env} {ke : KeyEnv} {ctx : Ctx} {σ : Ph → Bytes} {ms : Ms} {τ : Ty}
    (henv : SatSpec.EnvOk env ctx) (hag : SatSpec.Agrees env ke noAssets σ) (hwf : SatSpec.WF ctx ms)
    (hty : typeOf ms = some τ) (hraw : Lift.noRaw ms = true) (hk : C02.ThreshKOK ms) (hsm : C02.SmallScript ms)
    (hb : τ.corr.base = .B) (hd : τ.corr.dissat = true)
    (hl : SatSpec.LocksMet env (satDissat (noCfg ke ctx) ms).dissat) :
    ∃ inp : List Bytes, (∀ pk, ∀ sg ∈ inp, (noSigEnv env).sigOk pk sg = false) ∧
      ∀ (rest alt : List Bytes) (ops : Nat) (cs : List Bool), cs.all id = true →
        ∃ ops', run (noSigEnv env) (encode ke ctx ms) ⟨⟨inp ++ rest, alt, ops⟩, cs⟩
          = .ok ⟨⟨[] :: rest, alt, ops'⟩, cs⟩ := by
  obtain ⟨inp, h⟩ := dissatisfiable_B henv hag hwf hty hraw hk hsm hb hd hl
  refine ⟨inp, fun _ _ _ => rfl, fun rest alt ops cs hcs => ?_⟩
  obtain ⟨c', hr, hs, ha⟩ := h (fun _ _ => false) rest alt ops
  have hb' := Bridge.exec_encode_eq_frag_nostack (noSigEnv env) ke ctx ms ⟨inp ++ rest, alt, ops⟩ cs hcs
    henv.stackLimits
  refine ⟨c'.ops, ?_⟩
  rw [hb']
  show (frag { env with sigOk := fun _ _ => false } ke ctx ms ⟨inp ++ rest, alt, ops⟩).map _ = _
  rw [hr]
  obtain ⟨s, a, o⟩ := c'
  simp only at hs ha
  subst hs; subst ha
  rfl

/-! ### non-vacuity of `d`: an `andor` over a lock, a hash and a 2-of-3 threshold, typed `d` -/

/-- `andor(pk(K0), and_v(v:pk(K1),older(144)), thresh(2,pk(K2),s:pk(K3),a:sha256(H0)))` -/
def exD : Ms :=
  .andOr (Toy.pk 0) (.andV (.verify (Toy.pk 1)) (.older 144))
    (.thresh 2 (.cons (Toy.pk 2) (.cons (.swap (Toy.pk 3)) (.cons (.alt (.hash .sha256 0)) .nil))))

example : (typeOf exD).map (fun t => (t.corr.base, t.corr.dissat)) = some (.B, true) ∧
    Lift.noRaw exD = true ∧ C02.ThreshKOK exD ∧ C02.SmallScript exD := by decide

example : SatSpec.WF .segwitv0 exD := by simp [exD, Toy.pk, SatSpec.WF, SatSpec.WFs, MsList.length]

/-- the witness the satisfier computes without assets: three empty vectors for the threshold
children … and one for `pk(K0)`; no lock is reported -/
example : (satDissat (noCfg Toy.ke .segwitv0) exD).dissat
    = ⟨.stack [.hashDissat, .pushZero, .pushZero, .pushZero], false, none, none⟩ := by decide

/-- all hypotheses of `dissatisfiable_B` hold in the toy world `Toy` (Lemmas/TypeSoundDissat.lean) -/
example : ∃ inp : List Bytes, ∀ (so : Bytes → Bytes → Bool) (rest alt : List Bytes) (ops : Nat),
    ∃ c', frag { Toy.env 0 0 with sigOk := so } Toy.ke .segwitv0 exD ⟨inp ++ rest, alt, ops⟩ = .ok c' ∧
      c'.stack = [] :: rest ∧ c'.alt = alt :=
  dissatisfiable_B (τ := ⟨⟨.B, .any, true, false⟩, ⟨.unknown, true, false⟩⟩) (Toy.envOk 0 0) (Toy.agrees 0 0 noAssets)
    (by simp [exD, Toy.pk, SatSpec.WF, SatSpec.WFs, MsList.length]) (by decide) (by decide) (by decide) (by decide) rfl rfl
    (by simp [SatSpec.LocksMet]; decide)

/-! ## The same statements about real opcode execution (`Script.run` on `encode ms`)

`Thm/Bridge.lean` proves `run env (encode ke ctx ms) ⟨c, cs⟩ = (frag env ke ctx ms c).map (⟨·, cs⟩)`
for every all-true condition stack when the stack limits are off; so every theorem above is a
theorem about the flat interpreter running the library's encoding.  The three most used forms: -/

/-- `z` on opcodes: the encoded script of a zero-arg fragment, run by the flat interpreter in any
executing context `cs` on any stack, does what it does on the empty stack, with the stack left
below — same error or same result. -/
theorem zero_arg_run {env : Env} (hlim : env.flags.stackLimits = false) (ke : KeyEnv) (ctx : Ctx)
    {ms : Ms} {τ : Ty} (hwf : wf ms = true) (hty : typeOf ms = some τ) (hz : τ.corr.input = .zero)
    (stk alt : List Bytes) (ops : Nat) (cs : List Bool) (hcs : cs.all id = true) :
    run env (encode ke ctx ms) ⟨⟨stk, alt, ops⟩, cs⟩ =
      (run env (encode ke ctx ms) ⟨⟨[], alt, ops⟩, cs⟩).map (fun s => ⟨below s.core stk, s.conds⟩) := by
  rw [Bridge.exec_encode_eq_frag_nostack env ke ctx ms _ cs hcs hlim,
    Bridge.exec_encode_eq_frag_nostack env ke ctx ms _ cs hcs hlim,
    (zero_arg hlim ke ctx hwf hty hz stk alt ops).1]
  cases frag env ke ctx ms ⟨[], alt, ops⟩ <;> rfl

/-- `o` on opcodes -/
theorem one_arg_run {env : Env} (hlim : env.flags.stackLimits = false) (ke : KeyEnv) (ctx : Ctx)
    {ms : Ms} {τ : Ty} (hwf : wf ms = true) (hty : typeOf ms = some τ)
    (ho : τ.corr.input = .one ∨ τ.corr.input = .oneNonZero)
    (x : Bytes) (stk alt : List Bytes) (ops : Nat) (cs : List Bool) (hcs : cs.all id = true) :
    run env (encode ke ctx ms) ⟨⟨x :: stk, alt, ops⟩, cs⟩ =
      (run env (encode ke ctx ms) ⟨⟨[x], alt, ops⟩, cs⟩).map (fun s => ⟨below s.core stk, s.conds⟩) := by
  rw [Bridge.exec_encode_eq_frag_nostack env ke ctx ms _ cs hcs hlim,
    Bridge.exec_encode_eq_frag_nostack env ke ctx ms _ cs hcs hlim,
    (one_arg hlim ke ctx hwf hty ho x stk alt ops).1]
  cases frag env ke ctx ms ⟨[x], alt, ops⟩ <;> rfl

/-- B shape and `u` on opcodes: when the flat interpreter completes the encoded script of a B
fragment, conditionals are balanced again, the alt stack is restored, exactly one element `v`
replaces some inputs, and for a unit fragment a true `v` is `[1]`. -/
theorem base_B_run {env : Env} (hlim : env.flags.stackLimits = false) (ke : KeyEnv) (ctx : Ctx)
    {ms : Ms} {τ : Ty} (hwf : wf ms = true) (hty : typeOf ms = some τ) (hb : τ.corr.base = .B)
    {c : Core} {cs : List Bool} (hcs : cs.all id = true) {s' : State}
    (hrun : run env (encode ke ctx ms) ⟨c, cs⟩ = .ok s') :
    s'.conds = cs ∧ s'.core.alt = c.alt ∧ ∃ v n, n ≤ maxArgs ms ∧ s'.core.stack = v :: c.stack.drop n ∧
      (τ.corr.unit = true → castToBool v = true → v = [1]) := by
  obtain ⟨hc, hf⟩ := Bridge.run_encode_conds env ke ctx ms c cs s' hcs (.inr (.inl hlim))
    (fun h => by rw [hlim] at h; cases h) hrun
  obtain ⟨ha, v, n, hn, _, e⟩ := base_B hlim ke ctx hwf hty hb hf
  exact ⟨hc, ha, v, n, hn, e, fun hu hv => unit_B hlim ke ctx hwf hty hb hu hf e hv⟩

/-! ## Non-vacuity: the hypotheses are satisfiable on concrete fragments -/

/-- a concrete environment: limits off, MINIMALIF/NULLFAIL on, no signature verifies -/
def exEnv : Env :=
  { flags := ⟨false, true, true, true, true, false, false⟩, sigOk := fun _ _ => false,
    hash := fun _ b => b, nLockTime := 0, nSequence := 0, txVersion := 2 }
def exKe : KeyEnv :=
  { ser := fun k => [2, UInt8.ofNat k], sortKey := fun k => [UInt8.ofNat k], pkh := fun k => [UInt8.ofNat k],
    rawPkh := fun k => [UInt8.ofNat k], hashVal := fun _ h => [UInt8.ofNat h] }

/-- `and_v(v:pk(0),pk(1))`: B, one-arg?  no — `any`; `or_i(1,0)`: B `o`; `and_v(v:1,1)`: B `z` -/
def exZ : Ms := .andV (.verify .tru) .tru
def exO : Ms := .orI .tru .fls
def exW : Ms := .swap (.check (.pkK 0))
def exK : Ms := .andV (.verify .tru) (.pkK 3)
def exT : Ms := .thresh 1 (.cons (.check (.pkK 0)) (.cons (.swap (.check (.pkK 1))) .nil))

example : wf exZ = true ∧ (typeOf exZ).map (·.corr) = some ⟨.B, .zero, false, true⟩ := by decide
example : wf exO = true ∧ (typeOf exO).map (·.corr) = some ⟨.B, .one, true, true⟩ := by decide
example : wf exW = true ∧ (typeOf exW).map (·.corr) = some ⟨.W, .any, true, true⟩ := by decide
example : wf exK = true ∧ (typeOf exK).map (·.corr) = some ⟨.K, .oneNonZero, false, true⟩ := by decide
example : wf exT = true ∧ (typeOf exT).map (·.corr) = some ⟨.B, .any, true, true⟩ := by decide
/-- `j:pk(0)` is typed `n`; `multi(1,0,1)` too and satisfies the threshold side condition -/
def exN : Ms := .nonZero (.check (.pkK 0))
def exM : Ms := .multi 1 [0, 1]
example : wf exN = true ∧ wfK exN = true ∧ (typeOf exN).map (·.corr) = some ⟨.B, .oneNonZero, true, true⟩ := by decide
example : wf exM = true ∧ wfK exM = true ∧ (typeOf exM).map (·.corr) = some ⟨.B, .anyNonZero, true, true⟩ := by decide
example : frag exEnv exKe .segwitv0 exN ⟨[[], [0xAA]], [], 0⟩ = .ok ⟨[[], [0xAA]], [], 5⟩ := by rfl
/-- `and_v(v:pk(0),after(100))` is signed and forced; `exEnv` accepts no signature -/
def exS : Ms := .andV (.verify (.check (.pkK 0))) (.after 100)
example : wf exS = true ∧ wfS exS = true ∧ wfT exS = true ∧ wfS exT = true ∧
    (typeOf exS).map (·.mall) = some ⟨.none, true, true⟩ := by decide
example : NoSig exEnv := fun _ _ => rfl
example : exEnv.flags.stackLimits = false := rfl
/-- the runs the theorems speak about exist: `or_i(1,0)` on `[1] :: rest` leaves `[1] :: rest` -/
example : frag exEnv exKe .segwitv0 exO ⟨[[1], [0xAA]], [], 0⟩ = .ok ⟨[[1], [0xAA]], [], 3⟩ := by rfl
example : frag exEnv exKe .segwitv0 exZ ⟨[[0xAA]], [], 0⟩ = .ok ⟨[[1], [0xAA]], [], 1⟩ := by rfl

/-! ## What remains tested only

Nothing of the property's letters: `z o n u d f s` and the four base shapes are theorems above.
Two hypotheses are stronger than the judge's setting and are stated where they are used:
`OracleSane` (stack-wise `s`/`f`: script-generated values are not valid signatures) and, for `d`,
the C01/C02/C07 side conditions (no raw pubkey hash, `LocksMet` for the computed witness). -/

end MsVerif.C06

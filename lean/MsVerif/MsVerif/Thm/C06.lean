/-
C06 — static types predict what fragments do when executed.

Every theorem is about the structured fragment semantics `frag env ke ctx ms : Core → Except Err
Core` (`Spec/Frag.lean`), i.e. about real opcode execution of `encode ms` (by the bridge theorem
`run (encode ms) = frag ms` of `Thm/Bridge.lean`; `zero_arg_run`, `one_arg_run`, `base_B_run`
below are stated directly on the flat interpreter `Script.run`), for EVERY machine state: all main stacks, alt
stacks and opcode counters, every key/hash environment, every signature oracle, every
transaction — no bound.  The only assumptions are

* `env.flags.stackLimits = false`: the 1000-element / 520-byte limits are off (with them on, no
  statement of the form "the elements below are irrelevant" can hold; the limits are C09's
  subject).  The opcode-count limit, MINIMALIF, NULLFAIL, NULLDUMMY, MINIMALDATA and the
  tapscript rules are arbitrary — the theorems hold under the script rules of every context;
* `wf ms`: every `thresh` has a child and every `multi` at most 20 keys — invariants of the
  library's `Threshold<T, MAX>` that the typing model `typeOf` does not re-check;
* `typeOf ms = some τ`: the fragment is well typed with the type the library assigns
  (`Model/TypeCheck.lean`, tied to `Miniscript::ty` by the C05 tables and the C06 run).

Proved here (T = DESIGN.md numbering):
* `frame`                 — every fragment (typed or not) ignores what lies below the part of the
                            stack it reaches, errors included                        (tool for T1)
* `zero_arg`, `one_arg`   — `z` / `o`: consumes exactly 0 / 1 elements, on every stack, errors
                            included; result has exactly the size the base promises       (T1)
* `base_B/V/K/W`          — stack shape per base type, alt stack restored                 (T5)
* `verify_leaves_nothing` — V never leaves a value                                        (T5)
* `key_on_top`            — K leaves the key on top                                       (T5)
* `unit_B`, `unit_W`      — `u`: a true result is exactly `[1]`                           (T2)
* `nonzero_B/V/K`         — `n`: never satisfied when the top input is the empty vector   (T1)
* `signed_B/V/K/W`        — `s`: when no signature verifies, never satisfied              (T4)
* `forced_B/K/W`          — `f`: when no signature verifies, never dissatisfied           (T4)
Not proved (tested on every run by the `J typeexec` judge): `d`, and the finer stack-wise
reading of `s`/`f`; their full statements are the `def …_full : Prop` at the end of this file.
-/
import MsVerif.Lemmas.TypeSoundForced
import MsVerif.Thm.Bridge

namespace MsVerif.C06
open MsVerif MsVerif.Script MsVerif.TypeSound

/-- the core `c` with `rest` put below its stack -/
abbrev below (c : Core) (rest : List Bytes) : Core := { c with stack := c.stack ++ rest }

/-- an outcome with `rest` put below the resulting stack (errors unchanged) -/
abbrev belowR (r : Except Err Core) (rest : List Bytes) : Except Err Core := r.map (below · rest)

/-- the two error kinds that mean "ran out of stack" -/
abbrev Underflow (r : Except Err Core) : Prop :=
  r = .error .stackUnderflow ∨ r = .error .unbalancedConditional

/-! ## Frame: the part of the stack a fragment does not reach is irrelevant -/

/-- FRAME (no typing needed).  If running `ms` on `c` does not run out of stack, then running it
with any `rest` below gives the same outcome — same error, or same result with `rest` untouched
below it. -/
theorem frame {env : Env} (hlim : env.flags.stackLimits = false) (ke : KeyEnv) (ctx : Ctx) (ms : Ms)
    (c : Core) (rest : List Bytes) (h : ¬ Underflow (frag env ke ctx ms c)) :
    frag env ke ctx ms (below c rest) = belowR (frag env ke ctx ms c) rest :=
  framed_frag hlim ke ctx ms c rest ⟨fun e => h (Or.inl e), fun e => h (Or.inr e)⟩

/-! ## `z` and `o`: exact argument counts -/

/-- T1 `z`.  A fragment typed zero-arg behaves on EVERY stack exactly as on the empty stack
(same error or same result), with the stack left untouched below the result; and on success the
result consists of exactly what the base type promises (B: one element, V: none). -/
theorem zero_arg {env : Env} (hlim : env.flags.stackLimits = false) (ke : KeyEnv) (ctx : Ctx)
    {ms : Ms} {τ : Ty} (hwf : wf ms = true) (hty : typeOf ms = some τ) (hz : τ.corr.input = .zero)
    (stk alt : List Bytes) (ops : Nat) :
    frag env ke ctx ms ⟨stk, alt, ops⟩ = belowR (frag env ke ctx ms ⟨[], alt, ops⟩) stk ∧
    ∀ c', frag env ke ctx ms ⟨[], alt, ops⟩ = .ok c' → c'.stack.length = resLen τ.corr.base 0 := by
  have hc := args_cons hlim ke ctx ms hwf τ 0 hty (by rw [hz]; rfl)
  obtain ⟨hn, hok⟩ := hc [] [] alt ops rfl
  refine ⟨?_, ?_⟩
  · exact framed_frag hlim ke ctx ms ⟨[], alt, ops⟩ stk hn
  · intro c' h
    obtain ⟨out, ho, hs⟩ := hok c' h
    rw [hs, List.append_nil, ho]

/-- T1 `o`.  A fragment typed one-arg (`o`, with or without `n`) consumes exactly the top element:
on `x :: stk` it behaves exactly as on `[x]` (same error or same result) with `stk` untouched
below; on success the result on `[x]` has exactly the size the base type promises (B: 1, V: 0,
K: the key on top of `x`, which `CHECKSIG` then consumes). -/
theorem one_arg {env : Env} (hlim : env.flags.stackLimits = false) (ke : KeyEnv) (ctx : Ctx)
    {ms : Ms} {τ : Ty} (hwf : wf ms = true) (hty : typeOf ms = some τ)
    (ho : τ.corr.input = .one ∨ τ.corr.input = .oneNonZero)
    (x : Bytes) (stk alt : List Bytes) (ops : Nat) :
    frag env ke ctx ms ⟨x :: stk, alt, ops⟩ = belowR (frag env ke ctx ms ⟨[x], alt, ops⟩) stk ∧
    ∀ c', frag env ke ctx ms ⟨[x], alt, ops⟩ = .ok c' → c'.stack.length = resLen τ.corr.base 1 := by
  have hc := args_cons hlim ke ctx ms hwf τ 1 hty (by rcases ho with h | h <;> rw [h] <;> rfl)
  obtain ⟨hn, hok⟩ := hc [x] [] alt ops rfl
  refine ⟨?_, ?_⟩
  · exact framed_frag hlim ke ctx ms ⟨[x], alt, ops⟩ stk hn
  · intro c' h
    obtain ⟨out, ho', hs⟩ := hok c' h
    rw [hs, List.append_nil, ho']

/-- a one-arg fragment never completes by running out of stack as long as one element is there -/
theorem one_arg_no_underflow {env : Env} (hlim : env.flags.stackLimits = false) (ke : KeyEnv) (ctx : Ctx)
    {ms : Ms} {τ : Ty} (hwf : wf ms = true) (hty : typeOf ms = some τ)
    (ho : τ.corr.input = .one ∨ τ.corr.input = .oneNonZero)
    (x : Bytes) (stk alt : List Bytes) (ops : Nat) :
    ¬ Underflow (frag env ke ctx ms ⟨x :: stk, alt, ops⟩) := by
  have hc := args_cons hlim ke ctx ms hwf τ 1 hty (by rcases ho with h | h <;> rw [h] <;> rfl)
  obtain ⟨hn, _⟩ := hc [x] stk alt ops rfl
  intro hu
  rcases hu with hu | hu
  · exact hn.1 hu
  · exact hn.2 hu

/-! ## Base types: the stack shape the composition rules assume -/

/-- T5 `B`: a successful B fragment restores the alt stack and replaces some number `n` of
input elements by exactly one result `v`. -/
theorem base_B {env : Env} (hlim : env.flags.stackLimits = false) (ke : KeyEnv) (ctx : Ctx)
    {ms : Ms} {τ : Ty} (hwf : wf ms = true) (hty : typeOf ms = some τ) (hb : τ.corr.base = .B)
    {c c' : Core} (hrun : frag env ke ctx ms c = .ok c') :
    c'.alt = c.alt ∧ ∃ v n, c'.stack = v :: c.stack.drop n := by
  obtain ⟨ha, hp⟩ := shape hlim ke ctx ms hwf τ hty c c' hrun
  obtain ⟨v, n, e, _⟩ := (Post.B hb).1 hp
  exact ⟨ha, v, n, e⟩

/-- T5 `V`: a successful V fragment restores the alt stack and only removes input elements. -/
theorem base_V {env : Env} (hlim : env.flags.stackLimits = false) (ke : KeyEnv) (ctx : Ctx)
    {ms : Ms} {τ : Ty} (hwf : wf ms = true) (hty : typeOf ms = some τ) (hb : τ.corr.base = .V)
    {c c' : Core} (hrun : frag env ke ctx ms c = .ok c') :
    c'.alt = c.alt ∧ ∃ n, c'.stack = c.stack.drop n := by
  obtain ⟨ha, hp⟩ := shape hlim ke ctx ms hwf τ hty c c' hrun
  exact ⟨ha, (Post.V hb).1 hp⟩

/-- T5: "V never leaves a value" — whatever a V fragment leaves was already there, in the same
order (it continues or aborts; it can never leave `false`). -/
theorem verify_leaves_nothing {env : Env} (hlim : env.flags.stackLimits = false) (ke : KeyEnv) (ctx : Ctx)
    {ms : Ms} {τ : Ty} (hwf : wf ms = true) (hty : typeOf ms = some τ) (hb : τ.corr.base = .V)
    {c c' : Core} (hrun : frag env ke ctx ms c = .ok c') :
    c'.stack.length ≤ c.stack.length ∧ c'.stack = c.stack.drop (c.stack.length - c'.stack.length) := by
  obtain ⟨_, n, e⟩ := base_V hlim ke ctx hwf hty hb hrun
  have hl : c'.stack.length = c.stack.length - n := by rw [e, List.length_drop]
  refine ⟨by omega, ?_⟩
  by_cases hn : n ≤ c.stack.length
  · rw [hl, show c.stack.length - (c.stack.length - n) = n by omega]; exact e
  · have h0 : c'.stack = [] := by rw [e, List.drop_eq_nil_of_le (by omega)]
    rw [h0, List.length_nil, Nat.sub_zero, List.drop_eq_nil_of_le (Nat.le_refl _)]

/-- T5 `K`: a successful K fragment restores the alt stack and leaves one element on top of a
suffix of its input. -/
theorem base_K {env : Env} (hlim : env.flags.stackLimits = false) (ke : KeyEnv) (ctx : Ctx)
    {ms : Ms} {τ : Ty} (hwf : wf ms = true) (hty : typeOf ms = some τ) (hb : τ.corr.base = .K)
    {c c' : Core} (hrun : frag env ke ctx ms c = .ok c') :
    c'.alt = c.alt ∧ ∃ k n, c'.stack = k :: c.stack.drop n := by
  obtain ⟨ha, hp⟩ := shape hlim ke ctx ms hwf τ hty c c' hrun
  exact ⟨ha, (Post.K hb).1 hp⟩

/-- T5 `K`: the element a K fragment leaves on top is the key: the serialisation named by a
`pk_k`, or an element whose HASH160 is the hash committed by a `pk_h` of the fragment. -/
theorem key_on_top {env : Env} (ke : KeyEnv) (ctx : Ctx)
    {ms : Ms} {τ : Ty} (hty : typeOf ms = some τ) (hb : τ.corr.base = .K)
    {c c' : Core} (hrun : frag env ke ctx ms c = .ok c') :
    ∃ k r, c'.stack = k :: r ∧ keyTop env ke ms k :=
  key_top ke ctx ms τ hty hb c c' hrun

/-- T5 `W`: a successful W fragment restores the alt stack, needs an element `x` on top, removes
some number `n` of elements below `x` and leaves exactly `x` and one result `v`, in either
order (`a:` leaves `x` on top, `s:` below) — what `BOOLAND`/`BOOLOR`/`ADD` consume. -/
theorem base_W {env : Env} (hlim : env.flags.stackLimits = false) (ke : KeyEnv) (ctx : Ctx)
    {ms : Ms} {τ : Ty} (hwf : wf ms = true) (hty : typeOf ms = some τ) (hb : τ.corr.base = .W)
    {c c' : Core} (hrun : frag env ke ctx ms c = .ok c') :
    c'.alt = c.alt ∧ ∃ x tl v n, c.stack = x :: tl ∧
      (c'.stack = x :: v :: tl.drop n ∨ c'.stack = v :: x :: tl.drop n) := by
  obtain ⟨ha, hp⟩ := shape hlim ke ctx ms hwf τ hty c c' hrun
  obtain ⟨x, tl, v, n, e1, e2, _⟩ := (Post.W hb).1 hp
  exact ⟨ha, x, tl, v, n, e1, e2⟩

/-! ## `u`: a true result is exactly 1 -/

/-- T2 `u` for B: if a unit B fragment completes and its result is true (`CastToBool`), the
result is exactly the one-byte vector `[1]`. -/
theorem unit_B {env : Env} (hlim : env.flags.stackLimits = false) (ke : KeyEnv) (ctx : Ctx)
    {ms : Ms} {τ : Ty} (hwf : wf ms = true) (hty : typeOf ms = some τ) (hb : τ.corr.base = .B)
    (hu : τ.corr.unit = true) {c c' : Core} (hrun : frag env ke ctx ms c = .ok c')
    {v : Bytes} {r : List Bytes} (hs : c'.stack = v :: r) (hv : castToBool v = true) : v = [1] := by
  obtain ⟨_, hp⟩ := shape hlim ke ctx ms hwf τ hty c c' hrun
  obtain ⟨v', n, e, huv⟩ := (Post.B hb).1 hp
  rw [hs] at e
  simp only [List.cons.injEq] at e
  obtain ⟨rfl, _⟩ := e
  exact huv hu hv

/-- T2 `u` for W: of the two elements a unit W fragment leaves, the one that is not the `x` it
found on top is exactly `[1]` whenever it is true. -/
theorem unit_W {env : Env} (hlim : env.flags.stackLimits = false) (ke : KeyEnv) (ctx : Ctx)
    {ms : Ms} {τ : Ty} (hwf : wf ms = true) (hty : typeOf ms = some τ) (hb : τ.corr.base = .W)
    (hu : τ.corr.unit = true) {c c' : Core} (hrun : frag env ke ctx ms c = .ok c') :
    ∃ x tl v n, c.stack = x :: tl ∧
      (c'.stack = x :: v :: tl.drop n ∨ c'.stack = v :: x :: tl.drop n) ∧
      (castToBool v = true → v = [1]) := by
  obtain ⟨_, hp⟩ := shape hlim ke ctx ms hwf τ hty c c' hrun
  obtain ⟨x, tl, v, n, e1, e2, huv⟩ := (Post.W hb).1 hp
  exact ⟨x, tl, v, n, e1, e2, huv hu⟩

/-! ## `n`: never satisfied with the empty vector on top

`wfK ms`: every `multi`-family threshold is at least 1 (guaranteed by `Threshold::new`). -/

/-- T1 `n` for B: a B fragment typed `n` (`oneNonZero` / `anyNonZero`), run on a stack whose top
element is the empty vector, never completes with a true result. -/
theorem nonzero_B {env : Env} (hlim : env.flags.stackLimits = false) (ke : KeyEnv) (ctx : Ctx)
    {ms : Ms} {τ : Ty} (hwf : wf ms = true) (hwk : wfK ms = true) (hty : typeOf ms = some τ)
    (hb : τ.corr.base = .B) (hn : τ.corr.input = .oneNonZero ∨ τ.corr.input = .anyNonZero)
    {stk alt : List Bytes} {ops : Nat} {c' : Core}
    (hrun : frag env ke ctx ms ⟨[] :: stk, alt, ops⟩ = .ok c') {v : Bytes} {r : List Bytes}
    (hs : c'.stack = v :: r) : castToBool v = false := by
  have := nonzero hlim ke ctx ms hwf hwk τ hty hn stk alt ops c' hrun
  rw [hb] at this
  exact this v r hs

/-- T1 `n` for V: a V fragment typed `n` cannot complete at all on such a stack. -/
theorem nonzero_V {env : Env} (hlim : env.flags.stackLimits = false) (ke : KeyEnv) (ctx : Ctx)
    {ms : Ms} {τ : Ty} (hwf : wf ms = true) (hwk : wfK ms = true) (hty : typeOf ms = some τ)
    (hb : τ.corr.base = .V) (hn : τ.corr.input = .oneNonZero ∨ τ.corr.input = .anyNonZero)
    (stk alt : List Bytes) (ops : Nat) :
    ∃ e, frag env ke ctx ms ⟨[] :: stk, alt, ops⟩ = .error e := by
  cases hr : frag env ke ctx ms ⟨[] :: stk, alt, ops⟩ with
  | error e => exact ⟨e, rfl⟩
  | ok c' =>
    have := nonzero hlim ke ctx ms hwf hwk τ hty hn stk alt ops c' hr
    rw [hb] at this
    exact this.elim

/-- T1 `n` for K: the `OP_CHECKSIG` that follows a K fragment typed `n` never pushes true. -/
theorem nonzero_K {env : Env} (hlim : env.flags.stackLimits = false) (ke : KeyEnv) (ctx : Ctx)
    {ms : Ms} {τ : Ty} (hwf : wf ms = true) (hwk : wfK ms = true) (hty : typeOf ms = some τ)
    (hb : τ.corr.base = .K) (hn : τ.corr.input = .oneNonZero ∨ τ.corr.input = .anyNonZero)
    {stk alt : List Bytes} {ops : Nat} {c' c'' : Core}
    (hrun : frag env ke ctx ms ⟨[] :: stk, alt, ops⟩ = .ok c') (hsig : opc env .checksig c' = .ok c'')
    {v : Bytes} {r : List Bytes} (hs : c''.stack = v :: r) : castToBool v = false := by
  have := nonzero hlim ke ctx ms hwf hwk τ hty hn stk alt ops c' hrun
  rw [hb] at this
  exact this c'' hsig v r hs

/-! ## `s` and `f`: what cannot happen without a signature

`NoSig env`: no signature verifies (`env.sigOk pk sg = false` for all `pk`, `sg`) — the spender
has no valid signature for anything.  `wfS ms`, `wfT ms`: the remaining construction invariants
of the library (multi-family thresholds ≥ 1, `multi_a` has a key, `thresh` has k ≤ n < 2³¹
children; lock times in 1 … 2³¹−1). -/

/-- T4 `s` for B: without a valid signature a signed B fragment never completes with a true
result. -/
theorem signed_B {env : Env} (hlim : env.flags.stackLimits = false) (hns : NoSig env) (ke : KeyEnv) (ctx : Ctx)
    {ms : Ms} {τ : Ty} (hwf : wf ms = true) (hws : wfS ms = true) (hty : typeOf ms = some τ)
    (hb : τ.corr.base = .B) (hs : τ.mall.signed = true) {c c' : Core}
    (hrun : frag env ke ctx ms c = .ok c') {v : Bytes} {r : List Bytes} (hst : c'.stack = v :: r) :
    castToBool v = false :=
  (UnsatS.B hb).1 (signed hlim hns ke ctx ms hwf hws τ hty hs c c' hrun) v r hst

/-- T4 `s` for V: without a valid signature a signed V fragment never completes. -/
theorem signed_V {env : Env} (hlim : env.flags.stackLimits = false) (hns : NoSig env) (ke : KeyEnv) (ctx : Ctx)
    {ms : Ms} {τ : Ty} (hwf : wf ms = true) (hws : wfS ms = true) (hty : typeOf ms = some τ)
    (hb : τ.corr.base = .V) (hs : τ.mall.signed = true) (c : Core) :
    ∃ e, frag env ke ctx ms c = .error e := by
  cases hr : frag env ke ctx ms c with
  | error e => exact ⟨e, rfl⟩
  | ok c' => exact ((UnsatS.V hb).1 (signed hlim hns ke ctx ms hwf hws τ hty hs c c' hr)).elim

/-- T4 `s` for K (every K fragment is signed): without a valid signature the `OP_CHECKSIG` that
consumes the key never pushes true — whatever was executed before. -/
theorem signed_K {env : Env} (hns : NoSig env) {c' c'' : Core} (hsig : opc env .checksig c' = .ok c'')
    {v : Bytes} {r : List Bytes} (hst : c''.stack = v :: r) : castToBool v = false :=
  checksig_nosig hns hsig hst

/-- T4 `s` for W: without a valid signature the result a signed W fragment leaves next to the
`x` it found on top is false. -/
theorem signed_W {env : Env} (hlim : env.flags.stackLimits = false) (hns : NoSig env) (ke : KeyEnv) (ctx : Ctx)
    {ms : Ms} {τ : Ty} (hwf : wf ms = true) (hws : wfS ms = true) (hty : typeOf ms = some τ)
    (hb : τ.corr.base = .W) (hs : τ.mall.signed = true) {c c' : Core}
    (hrun : frag env ke ctx ms c = .ok c') {x : Bytes} {tl : List Bytes} (hst : c.stack = x :: tl) :
    ∃ v r, (c'.stack = x :: v :: r ∨ c'.stack = v :: x :: r) ∧ castToBool v = false :=
  (UnsatS.W hb).1 (signed hlim hns ke ctx ms hwf hws τ hty hs c c' hrun) x tl hst

/-- T4 `f` for B: without a valid signature a forced B fragment (`Dissat::None`) that completes
leaves a TRUE value — it cannot be dissatisfied. -/
theorem forced_B {env : Env} (hlim : env.flags.stackLimits = false) (hns : NoSig env) (ke : KeyEnv) (ctx : Ctx)
    {ms : Ms} {τ : Ty} (hwf : wf ms = true) (hws : wfS ms = true) (hwt : wfT ms = true)
    (hty : typeOf ms = some τ) (hb : τ.corr.base = .B) (hd : τ.mall.dissat = .none) {c c' : Core}
    (hrun : frag env ke ctx ms c = .ok c') {v : Bytes} {r : List Bytes} (hst : c'.stack = v :: r) :
    castToBool v = true :=
  (ForcedS.B hb).1 (forced hlim hns ke ctx ms hwf hws hwt τ hty hd c c' hrun) v r hst

/-- T4 `f` for K: without a valid signature a forced K fragment cannot complete at all. -/
theorem forced_K {env : Env} (hlim : env.flags.stackLimits = false) (hns : NoSig env) (ke : KeyEnv) (ctx : Ctx)
    {ms : Ms} {τ : Ty} (hwf : wf ms = true) (hws : wfS ms = true) (hwt : wfT ms = true)
    (hty : typeOf ms = some τ) (hb : τ.corr.base = .K) (hd : τ.mall.dissat = .none) (c : Core) :
    ∃ e, frag env ke ctx ms c = .error e := by
  cases hr : frag env ke ctx ms c with
  | error e => exact ⟨e, rfl⟩
  | ok c' => exact ((ForcedS.K hb).1 (forced hlim hns ke ctx ms hwf hws hwt τ hty hd c c' hr)).elim

/-- T4 `f` for W -/
theorem forced_W {env : Env} (hlim : env.flags.stackLimits = false) (hns : NoSig env) (ke : KeyEnv) (ctx : Ctx)
    {ms : Ms} {τ : Ty} (hwf : wf ms = true) (hws : wfS ms = true) (hwt : wfT ms = true)
    (hty : typeOf ms = some τ) (hb : τ.corr.base = .W) (hd : τ.mall.dissat = .none) {c c' : Core}
    (hrun : frag env ke ctx ms c = .ok c') {x : Bytes} {tl : List Bytes} (hst : c.stack = x :: tl) :
    ∃ v r, (c'.stack = x :: v :: r ∨ c'.stack = v :: x :: r) ∧ castToBool v = true :=
  (ForcedS.W hb).1 (forced hlim hns ke ctx ms hwf hws hwt τ hty hd c c' hrun) x tl hst

/-! ## The same statements about real opcode execution (`Script.run` on `encode ms`)

`Thm/Bridge.lean` proves `run env (encode ke ctx ms) ⟨c, cs⟩ = (frag env ke ctx ms c).map (⟨·, cs⟩)`
for every all-true condition stack when the stack limits are off; so every theorem above is a
theorem about the flat interpreter running the library's encoding.  The three most used forms: -/

/-- `z` on opcodes: the encoded script of a zero-arg fragment, run by the flat interpreter in any
executing context `cs` on any stack, does what it does on the empty stack, with the stack left
below — same error or same result. -/
theorem zero_arg_run {env : Env} (hlim : env.flags.stackLimits = false) (ke : KeyEnv) (ctx : Ctx)
    {ms : Ms} {τ : Ty} (hwf : wf ms = true) (hty : typeOf ms = some τ) (hz : τ.corr.input = .zero)
    (stk alt : List Bytes) (ops : Nat) (cs : List Bool) (hcs : cs.all id = true) :
    run env (encode ke ctx ms) ⟨⟨stk, alt, ops⟩, cs⟩ =
      (run env (encode ke ctx ms) ⟨⟨[], alt, ops⟩, cs⟩).map (fun s => ⟨below s.core stk, s.conds⟩) := by
  rw [Bridge.exec_encode_eq_frag_nostack env ke ctx ms _ cs hcs hlim,
    Bridge.exec_encode_eq_frag_nostack env ke ctx ms _ cs hcs hlim,
    (zero_arg hlim ke ctx hwf hty hz stk alt ops).1]
  cases frag env ke ctx ms ⟨[], alt, ops⟩ <;> rfl

/-- `o` on opcodes -/
theorem one_arg_run {env : Env} (hlim : env.flags.stackLimits = false) (ke : KeyEnv) (ctx : Ctx)
    {ms : Ms} {τ : Ty} (hwf : wf ms = true) (hty : typeOf ms = some τ)
    (ho : τ.corr.input = .one ∨ τ.corr.input = .oneNonZero)
    (x : Bytes) (stk alt : List Bytes) (ops : Nat) (cs : List Bool) (hcs : cs.all id = true) :
    run env (encode ke ctx ms) ⟨⟨x :: stk, alt, ops⟩, cs⟩ =
      (run env (encode ke ctx ms) ⟨⟨[x], alt, ops⟩, cs⟩).map (fun s => ⟨below s.core stk, s.conds⟩) := by
  rw [Bridge.exec_encode_eq_frag_nostack env ke ctx ms _ cs hcs hlim,
    Bridge.exec_encode_eq_frag_nostack env ke ctx ms _ cs hcs hlim,
    (one_arg hlim ke ctx hwf hty ho x stk alt ops).1]
  cases frag env ke ctx ms ⟨[x], alt, ops⟩ <;> rfl

/-- B shape and `u` on opcodes: when the flat interpreter completes the encoded script of a B
fragment, conditionals are balanced again, the alt stack is restored, exactly one element `v`
replaces some inputs, and for a unit fragment a true `v` is `[1]`. -/
theorem base_B_run {env : Env} (hlim : env.flags.stackLimits = false) (ke : KeyEnv) (ctx : Ctx)
    {ms : Ms} {τ : Ty} (hwf : wf ms = true) (hty : typeOf ms = some τ) (hb : τ.corr.base = .B)
    {c : Core} {cs : List Bool} (hcs : cs.all id = true) {s' : State}
    (hrun : run env (encode ke ctx ms) ⟨c, cs⟩ = .ok s') :
    s'.conds = cs ∧ s'.core.alt = c.alt ∧ ∃ v n, s'.core.stack = v :: c.stack.drop n ∧
      (τ.corr.unit = true → castToBool v = true → v = [1]) := by
  obtain ⟨hc, hf⟩ := Bridge.run_encode_conds env ke ctx ms c cs s' hcs (.inr (.inl hlim))
    (fun h => by rw [hlim] at h; cases h) hrun
  obtain ⟨ha, v, n, e⟩ := base_B hlim ke ctx hwf hty hb hf
  exact ⟨hc, ha, v, n, e, fun hu hv => unit_B hlim ke ctx hwf hty hb hu hf e hv⟩

/-! ## Non-vacuity: the hypotheses are satisfiable on concrete fragments -/

/-- a concrete environment: limits off, MINIMALIF/NULLFAIL on, no signature verifies -/
def exEnv : Env :=
  { flags := ⟨false, true, true, true, true, false, false⟩, sigOk := fun _ _ => false,
    hash := fun _ b => b, nLockTime := 0, nSequence := 0, txVersion := 2 }
def exKe : KeyEnv :=
  { ser := fun k => [2, UInt8.ofNat k], sortKey := fun k => [UInt8.ofNat k], pkh := fun k => [UInt8.ofNat k],
    rawPkh := fun k => [UInt8.ofNat k], hashVal := fun _ h => [UInt8.ofNat h] }

/-- `and_v(v:pk(0),pk(1))`: B, one-arg?  no — `any`; `or_i(1,0)`: B `o`; `and_v(v:1,1)`: B `z` -/
def exZ : Ms := .andV (.verify .tru) .tru
def exO : Ms := .orI .tru .fls
def exW : Ms := .swap (.check (.pkK 0))
def exK : Ms := .andV (.verify .tru) (.pkK 3)
def exT : Ms := .thresh 1 (.cons (.check (.pkK 0)) (.cons (.swap (.check (.pkK 1))) .nil))

example : wf exZ = true ∧ (typeOf exZ).map (·.corr) = some ⟨.B, .zero, false, true⟩ := by decide
example : wf exO = true ∧ (typeOf exO).map (·.corr) = some ⟨.B, .one, true, true⟩ := by decide
example : wf exW = true ∧ (typeOf exW).map (·.corr) = some ⟨.W, .any, true, true⟩ := by decide
example : wf exK = true ∧ (typeOf exK).map (·.corr) = some ⟨.K, .oneNonZero, false, true⟩ := by decide
example : wf exT = true ∧ (typeOf exT).map (·.corr) = some ⟨.B, .any, true, true⟩ := by decide
/-- `j:pk(0)` is typed `n`; `multi(1,0,1)` too and satisfies the threshold side condition -/
def exN : Ms := .nonZero (.check (.pkK 0))
def exM : Ms := .multi 1 [0, 1]
example : wf exN = true ∧ wfK exN = true ∧ (typeOf exN).map (·.corr) = some ⟨.B, .oneNonZero, true, true⟩ := by decide
example : wf exM = true ∧ wfK exM = true ∧ (typeOf exM).map (·.corr) = some ⟨.B, .anyNonZero, true, true⟩ := by decide
example : frag exEnv exKe .segwitv0 exN ⟨[[], [0xAA]], [], 0⟩ = .ok ⟨[[], [0xAA]], [], 5⟩ := by rfl
/-- `and_v(v:pk(0),after(100))` is signed and forced; `exEnv` accepts no signature -/
def exS : Ms := .andV (.verify (.check (.pkK 0))) (.after 100)
example : wf exS = true ∧ wfS exS = true ∧ wfT exS = true ∧ wfS exT = true ∧
    (typeOf exS).map (·.mall) = some ⟨.none, true, true⟩ := by decide
example : NoSig exEnv := fun _ _ => rfl
example : exEnv.flags.stackLimits = false := rfl
/-- the runs the theorems speak about exist: `or_i(1,0)` on `[1] :: rest` leaves `[1] :: rest` -/
example : frag exEnv exKe .segwitv0 exO ⟨[[1], [0xAA]], [], 0⟩ = .ok ⟨[[1], [0xAA]], [], 3⟩ := by rfl
example : frag exEnv exKe .segwitv0 exZ ⟨[[0xAA]], [], 0⟩ = .ok ⟨[[1], [0xAA]], [], 1⟩ := by rfl

/-! ## What remains tested only

`d` is not proved here (it is the dissatisfaction half of C01's satisfier soundness).  `s` and `f`
are proved above for an oracle that accepts NO signature; the judge tests the finer reading
"no element of the INPUT STACK verifies" (the oracle may accept other byte strings), which is
stated here and left open — it needs a provenance invariant (script constants and computed
values are never consumed as signatures) and is false for pathological oracles that accept a
script constant as a signature. -/

/-- an input "without a signature": no element of the stack verifies under any key -/
def SigFree (env : Env) (stk : List Bytes) : Prop := ∀ pk, ∀ sg ∈ stk, env.sigOk pk sg = false

/-- `d`: a dissatisfiable B fragment has a signature-free input on which it leaves exactly `[]` -/
def dissatisfiable_full : Prop :=
  ∀ (env : Env) (ke : KeyEnv) (ctx : Ctx) (ms : Ms) (τ : Ty), env.flags.stackLimits = false →
    wf ms = true → typeOf ms = some τ → τ.corr.base = .B → τ.corr.dissat = true →
    ∀ (rest alt : List Bytes) (ops : Nat), ∃ (inp : List Bytes) (c' : Core), SigFree env inp ∧
      frag env ke ctx ms ⟨inp ++ rest, alt, ops⟩ = .ok c' ∧ c'.stack = [] :: rest

/-- `s`, stack-wise reading -/
def signed_stackwise_full : Prop :=
  ∀ (env : Env) (ke : KeyEnv) (ctx : Ctx) (ms : Ms) (τ : Ty), env.flags.stackLimits = false →
    wf ms = true → wfS ms = true → typeOf ms = some τ → τ.corr.base = .B → τ.mall.signed = true →
    ∀ (stk alt : List Bytes) (ops : Nat) (c' : Core) (v : Bytes) (r : List Bytes), SigFree env stk →
      frag env ke ctx ms ⟨stk, alt, ops⟩ = .ok c' → c'.stack = v :: r → castToBool v = false

/-- `f`, stack-wise reading -/
def forced_stackwise_full : Prop :=
  ∀ (env : Env) (ke : KeyEnv) (ctx : Ctx) (ms : Ms) (τ : Ty), env.flags.stackLimits = false →
    wf ms = true → wfS ms = true → wfT ms = true → typeOf ms = some τ → τ.corr.base = .B →
    τ.mall.dissat = .none →
    ∀ (stk alt : List Bytes) (ops : Nat) (c' : Core) (v : Bytes) (r : List Bytes), SigFree env stk →
      frag env ke ctx ms ⟨stk, alt, ops⟩ = .ok c' → c'.stack = v :: r → castToBool v = true

end MsVerif.C06

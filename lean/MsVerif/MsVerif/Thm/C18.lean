/-
C18 — policy transformations preserve meaning.

Model: `Model/Semantic.lean` (`policy::semantic`), `Model/Concrete.lean` (`Liftable for Concrete`,
`check_timelocks`, `TimelockInfo`).  Specification: `Spec/Policy.lean` — `holdsA v p` (truth
table under an assignment `v` of the atoms), `holds W p` (a world with keys, preimages,
nLockTime, nSequence; CLTV / CSV consensus rules), selections `sels` / `selsC` (one way of
satisfying a policy: exactly `k` children at every threshold).

Every theorem quantifies over ALL policies (any nesting depth, any number of children, any
`k`, repeated atoms, constants anywhere) and all assignments / worlds; hypotheses, where present,
are stated and are what the Rust constructors guarantee:
  `WFC c`            thresholds have `1 ≤ k ≤ n`, `or` has a child     (Model/Concrete.lean)
  `andOrNonEmpty c`  every concrete `and` / `or` has a child           (Model/Concrete.lean)
  `unsatFree c`      no `UNSATISFIABLE` leaf                            (Model/Concrete.lean)
  `NF p`             `p` is in the normal form that `normalized` produces (Model/Semantic.lean)

  `threshKPos c`     every concrete `thresh` has `k ≥ 1` (every `Threshold`)  (Model/Concrete.lean)

History: earlier versions of this file refuted four full-strength statements on the then
current code — `entails` on un-normalised constants (F6), `lift` of non-binary `and`, exactness
of `check_timelocks` through `UNSATISFIABLE` (F10), and `lift` refusing policies that
`check_timelocks` accepts (per-node re-check).  All four were repaired in /repo (`fix:`
commits); the model follows the repaired code and the theorems hold at full strength
(`entails_iff`, `concrete_lift_equiv`, `check_timelocks_exact`, `concrete_lift_total`).

No finding is open for this property.

OBSERVATIONS outside the property's statement (`is_safe_nonmalleable` is not mentioned by C18; T8
below documents the model): the `signed` flag is exact (`is_safe_exact`; `TRIVIAL` used to be
flagged `signed`, repaired in /repo for C08); the `non-malleable` flag is compared with
`Spec.isNonMalleableSpec` on every run (no theorem) and differs for `or` with more than two
branches (one signed branch suffices).
-/
import MsVerif.Lemmas.PolicyOps
import MsVerif.Lemmas.PolicyMinKeys
import MsVerif.Lemmas.PolicyLift
import MsVerif.Lemmas.PolicyEntails
import MsVerif.Lemmas.PolicySels
import MsVerif.Lemmas.PolicySafe
import MsVerif.Lemmas.PolicySort
import MsVerif.Lemmas.PolicyLocks

namespace MsVerif.C18
open MsVerif.Pol MsVerif.Pol.Sem MsVerif.Pol.Conc

/-! ## T1 — `normalized` -/

/-- same truth table, every assignment of the atoms -/
theorem normalized_truth_table (v : Atom → Bool) (p : Policy) :
    holdsA v (normalized p) = holdsA v p := normalized_holdsA v p

/-- in particular in every world -/
theorem normalized_holds (W : World) (p : Policy) : holds W (normalized p) = holds W p :=
  normalized_holdsA W.val p

/-- the result is in normal form … -/
theorem normalized_normal_form (p : Policy) : NF (normalized p) = true := normalized_NF p

/-- … normal forms are left alone … -/
theorem normalized_fixes_normal_forms (p : Policy) (h : NF p = true) : normalized p = p :=
  normalized_of_NF p h

/-- … hence idempotent -/
theorem normalized_idempotent (p : Policy) : normalized (normalized p) = normalized p :=
  normalized_idem p

/-- a normal form is a tautology only if it is `TRIVIAL`, a contradiction only if it is
`UNSATISFIABLE` (so `is_trivial` / `is_unsatisfiable` after `normalized` are exact) -/
theorem normal_form_constants (p : Policy) (h : NF p = true) :
    ((∀ v, holdsA v p = true) → isTrivial p = true)
    ∧ ((∀ v, holdsA v p = false) → isUnsat p = true) := by
  constructor
  · intro hv
    cases ht : isTrivial p
    · have := NF_all_false p h ht; rw [hv] at this; simp at this
    · rfl
  · intro hv
    cases hu : isUnsat p
    · have := NF_all_true p h hu; rw [hv] at this; simp at this
    · rfl

/-! ## T2 — `sorted` -/

theorem sorted_truth_table (v : Atom → Bool) (p : Policy) : holdsA v (sorted p) = holdsA v p :=
  sorted_holdsA v p

theorem sorted_holds (W : World) (p : Policy) : holds W (sorted p) = holds W p :=
  sorted_holdsA W.val p

/-- the order `sorted` sorts by (`Ord for Policy`) is a lawful total order: `Equal` only on
identical policies, antisymmetric, transitive -/
theorem policy_order_lawful :
    (∀ a b, cmp a b = .eq ↔ a = b) ∧ (∀ a b, cmp b a = (cmp a b).swap)
    ∧ (∀ a b c, cmp a b = .lt → cmp b c = .lt → cmp a c = .lt) :=
  ⟨cmp_eq_iff, cmp_swap, cmp_trans⟩

/-- `sorted` only rearranges: the result is the input with children permuted … -/
theorem sorted_is_child_permutation (p : Policy) : ChildPerm p (sorted p) := childPerm_sorted p

/-- … and it is a NORMAL FORM of the children's order: two policies have the same `sorted` form
iff one is the other with the children of thresholds (at any depth) permuted -/
theorem sorted_normal_form (p q : Policy) : sorted p = sorted q ↔ ChildPerm p q := by
  constructor
  · intro h
    have hq := (childPerm_sorted q).symm
    rw [← h] at hq
    exact (childPerm_sorted p).trans hq
  · exact sorted_childPerm

/-! ## T3 — `at_age`, `at_lock_time` -/

/-- `at_age a` is the truth table restricted to what an input of relative age `a` can satisfy:
for EVERY assignment, the filtered policy holds iff the original holds once the `older` locks
that age `a` does not reach are made false.  (`a` is an `nSequence` value with the disable
flag clear, i.e. anything `relative::LockTime` can express.) -/
theorem at_age_exact (v : Atom → Bool) (a : Nat) (ha : a < 2147483648) (p : Policy) :
    holdsA v (atAge a p) = holdsA (restrictAge a v) p := by
  rw [atAge, normalized_holdsA, atAgeRaw_holdsA v ha]

/-- in a world whose input has `nSequence = a` nothing is lost -/
theorem at_age_holds (W : World) (p : Policy) (ha : W.nSequence < 2147483648) :
    holds W (atAge W.nSequence p) = holds W p := by
  rw [holds, at_age_exact _ _ ha]
  have : restrictAge W.nSequence W.val = W.val := by
    funext x; cases x <;> simp [restrictAge, World.val]
  rw [this]; rfl

/-- and no lock that age `a` fails to satisfy survives -/
theorem at_age_no_stale_lock (a : Nat) (ha : a < 2147483648) (p : Policy) (t : Nat)
    (h : Atom.older t ∈ atomsOf (atAge a p)) : csvOk a t = true :=
  atoms_atAgeRaw ha p t (atoms_normalized _ _ h)

theorem at_lock_time_exact (v : Atom → Bool) (n : Nat) (p : Policy) :
    holdsA v (atLockTime n p) = holdsA (restrictLockTime n v) p := by
  rw [atLockTime, normalized_holdsA, atLockTimeRaw_holdsA v n]

theorem at_lock_time_holds (W : World) (p : Policy) :
    holds W (atLockTime W.nLockTime p) = holds W p := by
  rw [holds, at_lock_time_exact]
  have : restrictLockTime W.nLockTime W.val = W.val := by
    funext x; cases x <;> simp [restrictLockTime, World.val]
  rw [this]; rfl

theorem at_lock_time_no_stale_lock (n : Nat) (p : Policy) (t : Nat)
    (h : Atom.after t ∈ atomsOf (atLockTime n p)) : cltvOk n t = true :=
  atoms_atLockTimeRaw n p t (atoms_normalized _ _ h)

/-- `relative_timelocks` / `absolute_timelocks` list exactly the `older` / `after` values of the
policy, strictly ascending (each once) -/
theorem timelock_lists_exact (p : Policy) :
    (∀ t, t ∈ relativeTimelocks p ↔ Atom.older t ∈ atomsOf p)
    ∧ (∀ t, t ∈ absoluteTimelocks p ↔ Atom.after t ∈ atomsOf p)
    ∧ (relativeTimelocks p).Pairwise (· < ·) ∧ (absoluteTimelocks p).Pairwise (· < ·) :=
  ⟨mem_relativeTimelocks p, mem_absoluteTimelocks p, sortDedup_strict _, sortDedup_strict _⟩

/-! ## T4 — `entails` -/

/-- `None` exactly for more than 20 terminals (all inputs) -/
theorem entails_none_iff (a b : Policy) : entails a b = .none ↔ nTerminals a > 20 :=
  Pol.entails_none_iff a b

/-- the recursion fuel of the model always suffices (all inputs) -/
theorem entails_fuel (a b : Policy) : entails a b ≠ .outOfFuel := entails_fuel_ok a b

/-- the answer is truth-table implication — ALL inputs, normalised or not -/
theorem entails_iff (a b : Policy) (r : Bool) (h : entails a b = .some r) :
    r = true ↔ Implies a b :=
  entailsF_correct _ a b r h

/-- put together: at most 20 terminals ⇒ a definite, correct answer -/
theorem entails_decides (a b : Policy) (h : nTerminals a ≤ 20) :
    ∃ r, entails a b = .some r ∧ (r = true ↔ Implies a b) := by
  cases hr : entails a b with
  | none => exact absurd ((entails_none_iff a b).mp hr) (by omega)
  | outOfFuel => exact absurd hr (entails_fuel a b)
  | some r => exact ⟨r, rfl, entails_iff a b r hr⟩

/-- the former F6 witnesses are now answered correctly -/
theorem entails_former_F6_witnesses :
    entails .trivial (.thresh 1 [.trivial, .atom (.key 0)]) = .some true
    ∧ entails (.thresh 2 [.unsat, .atom (.key 0)]) .unsat = .some true
    ∧ entails (.thresh 2 [.unsat, .atom (.key 0)]) (.atom (.key 1)) = .some true := by decide

/-! ## T5 — `minimum_n_keys` -/

/-- a policy holds under an assignment iff every atom of one of its selections is true:
selections are exactly the ways of satisfying a policy -/
theorem selections_characterise_truth (v : Atom → Bool) (p : Policy) :
    holdsA v p = (sels p).any (fun s => s.all v) := holdsA_eq_good v p

/-- `minimum_n_keys` = fewest signatures over all selections (one signature per key
occurrence), `None` iff there is no selection, i.e. (previous theorem) iff unsatisfiable -/
theorem minimum_n_keys_exact (p : Policy) : minimumNKeys p = minSigs p :=
  minimumNKeys_eq_min p

theorem minimum_n_keys_some (p : Policy) (m : Nat) :
    minimumNKeys p = some m ↔ (∃ s ∈ sels p, nSigs s = m) ∧ ∀ s ∈ sels p, m ≤ nSigs s := by
  rw [minimum_n_keys_exact, minSigs, List.min?_eq_some_iff]
  simp only [List.mem_map, forall_exists_index, and_imp, forall_apply_eq_imp_iff₂]

theorem minimum_n_keys_none (p : Policy) :
    minimumNKeys p = none ↔ ∀ v, holdsA v p = false := by
  rw [minimum_n_keys_exact, minSigs]
  constructor
  · intro h v
    have : sels p = [] := by simpa using h
    rw [selections_characterise_truth, this]; rfl
  · intro h
    have hv := h (fun _ => true)
    rw [selections_characterise_truth] at hv
    cases hs : sels p with
    | nil => simp
    | cons s ss => rw [hs] at hv; simp at hv

/-- `n_keys` counts the key leaves, repetitions included -/
theorem n_keys_exact (p : Policy) : nKeys p = keyOccurrences p := nKeys_eq p

/-- every selection is a sub-list of the policy's atoms (so "signatures of a selection" are
key leaves of the policy) -/
theorem selections_are_sublists (p : Policy) (s : List Atom) (h : s ∈ sels p) :
    s.Sublist (atomsOf p) := sels_sublist p s h

/-- against ASSIGNMENTS, all policies: whatever satisfies the policy makes at least
`minimum_n_keys` key leaves true -/
theorem minimum_n_keys_lower_bound (p : Policy) (m : Nat) (h : minimumNKeys p = some m)
    (v : Atom → Bool) (hv : holdsA v p = true) : m ≤ trueKeys v p := by
  rw [selections_characterise_truth, List.any_eq_true] at hv
  obtain ⟨s, hs, hall⟩ := hv
  exact Nat.le_trans (((minimum_n_keys_some p m).mp h).2 s hs) (nSigs_le_trueKeys v p s hs hall)

/-- … and when no key is repeated some satisfying assignment makes exactly that many keys true -/
theorem minimum_n_keys_attained (p : Policy) (m : Nat) (h : minimumNKeys p = some m)
    (hd : ((atomsOf p).filter Atom.isKey).Nodup) :
    ∃ v, holdsA v p = true ∧ trueKeys v p = m := by
  obtain ⟨⟨s, hs, hm⟩, _⟩ := (minimum_n_keys_some p m).mp h
  exact ⟨valOf s, holdsA_valOf_sel p s hs, by rw [trueKeys_valOf p s (sels_sublist p s hs) hd, hm]⟩

/-- THE STATEMENT'S FORM: `minimum_n_keys` is the fewest signing keys over all satisfying
assignments (`minTrueKeys`: brute force over every assignment of the policy's atoms; `None` iff
none satisfies) — for every policy in which no key occurs twice -/
theorem minimum_n_keys_eq_fewest_signers (p : Policy)
    (hd : ((atomsOf p).filter Atom.isKey).Nodup) : minimumNKeys p = minTrueKeys p := by
  cases hm : minimumNKeys p with
  | none =>
    have hun := (minimum_n_keys_none p).mp hm
    have : (subsets (atomsOf p)).filter (fun ts => holdsA (valOf ts) p) = [] := by
      apply List.filter_eq_nil_iff.mpr
      intro ts _; simp [hun]
    simp [minTrueKeys, this]
  | some m =>
    symm
    rw [minTrueKeys, List.min?_eq_some_iff]
    obtain ⟨⟨s, hs, hsm⟩, _⟩ := (minimum_n_keys_some p m).mp hm
    constructor
    · apply List.mem_map.mpr
      refine ⟨s, List.mem_filter.mpr ⟨mem_subsets_of_sublist _ _ (sels_sublist p s hs), ?_⟩, hsm⟩
      simpa using holdsA_valOf_sel p s hs
    · intro b hb
      obtain ⟨ts, hts, rfl⟩ := List.mem_map.mp hb
      obtain ⟨hmem, hsat⟩ := List.mem_filter.mp hts
      have hsub := sublist_of_mem_subsets _ _ hmem
      have := minimum_n_keys_lower_bound p m hm (valOf ts) (by simpa using hsat)
      rwa [trueKeys_valOf p ts hsub hd] at this

/-- with REPEATED keys the library's number is an upper bound of the fewest signing keys (it
counts one signature per key occurrence), and both are `None` together -/
theorem minimum_n_keys_upper_bound (p : Policy) :
    (minimumNKeys p = none ↔ minTrueKeys p = none)
    ∧ ∀ m, minimumNKeys p = some m → ∃ m', minTrueKeys p = some m' ∧ m' ≤ m := by
  constructor
  · constructor
    · intro hm
      have hun := (minimum_n_keys_none p).mp hm
      have : (subsets (atomsOf p)).filter (fun ts => holdsA (valOf ts) p) = [] := by
        apply List.filter_eq_nil_iff.mpr
        intro ts _; simp [hun]
      simp [minTrueKeys, this]
    · intro hn
      cases hm : minimumNKeys p with
      | none => rfl
      | some m =>
        exfalso
        obtain ⟨⟨s, hs, _⟩, _⟩ := (minimum_n_keys_some p m).mp hm
        have hmem : s ∈ (subsets (atomsOf p)).filter (fun ts => holdsA (valOf ts) p) :=
          List.mem_filter.mpr ⟨mem_subsets_of_sublist _ _ (sels_sublist p s hs),
            by simpa using holdsA_valOf_sel p s hs⟩
        have : ((subsets (atomsOf p)).filter (fun ts => holdsA (valOf ts) p)).map nSigs = [] := by
          simpa [minTrueKeys] using hn
        rw [List.map_eq_nil_iff] at this
        rw [this] at hmem; simp at hmem
  · intro m hm
    obtain ⟨⟨s, hs, hsm⟩, _⟩ := (minimum_n_keys_some p m).mp hm
    have hmem : m ∈ ((subsets (atomsOf p)).filter (fun ts => holdsA (valOf ts) p)).map nSigs :=
      List.mem_map.mpr ⟨s, List.mem_filter.mpr ⟨mem_subsets_of_sublist _ _ (sels_sublist p s hs),
        by simpa using holdsA_valOf_sel p s hs⟩, hsm⟩
    cases hmin : minTrueKeys p with
    | none =>
      have : ((subsets (atomsOf p)).filter (fun ts => holdsA (valOf ts) p)).map nSigs = [] := by
        simpa [minTrueKeys] using hmin
      rw [this] at hmem; simp at hmem
    | some m' =>
      refine ⟨m', rfl, ?_⟩
      rw [minTrueKeys, List.min?_eq_some_iff] at hmin
      exact hmin.2 m hmem

/-- the bound is strict for `and(pk(0), pk(0))`: the library says 2, one key signs -/
theorem minimum_n_keys_repeated_key_witness :
    minimumNKeys (.thresh 2 [.atom (.key 0), .atom (.key 0)]) = some 2
    ∧ minTrueKeys (.thresh 2 [.atom (.key 0), .atom (.key 0)]) = some 1 := by
  constructor
  · rw [minimum_n_keys_exact]; decide
  · decide

/-! ## T6 — lifting concrete policies -/

/-- the lifted policy has the concrete policy's truth table — every concrete policy (any number
of children of `and` / `or`), every assignment -/
theorem concrete_lift_equiv (c : CPolicy) (s : Policy) (h : lift c = .ok s) (v : Atom → Bool) :
    holdsA v s = holdsC v c :=
  lift_holdsA v c s h

theorem concrete_lift_holds (c : CPolicy) (s : Policy) (h : lift c = .ok s) (W : World) :
    holds W s = holdsCW W c :=
  lift_holdsA W.val c s h

/-- a concrete policy is refused (with the timelock error) exactly when some satisfiable path
mixes height and time locks, and lifted otherwise — every concrete policy without an empty
`and` / `or` (those have no `Threshold`: `concrete_lift_empty_refused`) whose thresholds have
`k ≥ 1` (every `Threshold`) -/
theorem concrete_lift_total (c : CPolicy) (hn : andOrNonEmpty c = true)
    (hk : threshKPos c = true) :
    (hasMixedPath c = true ∧ lift c = .err) ∨ (hasMixedPath c = false ∧ ∃ s, lift c = .ok s) := by
  have hex := checkTimelocks_exact c hk
  rcases lift_total c hn with ⟨h1, h2⟩ | ⟨h1, h2⟩
  · exact Or.inl ⟨hex.mp h1, h2⟩
  · right
    refine ⟨?_, h2⟩
    cases hm : hasMixedPath c
    · rfl
    · rw [hex.mpr hm] at h1; simp at h1

/-- `lift` and `check_timelocks` agree (no `k ≥ 1` needed) -/
theorem concrete_lift_refuses_iff_check (c : CPolicy) (hn : andOrNonEmpty c = true) :
    (checkTimelocks c = false ∧ lift c = .err)
    ∨ (checkTimelocks c = true ∧ ∃ s, lift c = .ok s) := lift_total c hn

/-- the lifted policy is in normal form -/
theorem concrete_lift_normal_form (c : CPolicy) (s : Policy) (h : lift c = .ok s) :
    NF s = true :=
  liftUnchecked_NF c s ((lift_ok_iff c s).mp h).2

def LiftRes.isErrThreshold : LiftRes → Bool
  | .errThreshold => true
  | _ => false

/-- an empty `and` / `or` is refused with `Error::Threshold` (no panic) -/
theorem concrete_lift_empty_refused :
    LiftRes.isErrThreshold (lift (.and [])) = true
    ∧ LiftRes.isErrThreshold (lift (.or [])) = true
    ∧ LiftRes.isErrThreshold (lift (.and [.atom (.key 0), .or []])) = true := by decide

/-- the former refusal witnesses are lifted now: the unreachable mixed sub-policy disappears -/
theorem concrete_lift_former_refusals :
    lift (.or [.atom (.key 0), .and [.unsat, .and [.atom (.older 1), .atom (.older 4194305)]]])
      = .ok (.atom (.key 0))
    ∧ lift (.and [.unsat, .and [.atom (.older 1), .atom (.older 4194305)]]) = .ok .unsat := by
  constructor <;> rfl

/-! ## T7 — `check_timelocks` -/

/-- soundness, ALL policies: if some satisfiable path needs a height-based and a time-based
lock of the same kind, `check_timelocks` reports it -/
theorem check_timelocks_sound (c : CPolicy) (h : hasMixedPath c = true) :
    checkTimelocks c = false := checkTimelocks_sound c h

/-- exactness: `check_timelocks` refuses iff some satisfiable path mixes height and time locks
— every concrete policy (`UNSATISFIABLE` anywhere, `and` / `or` of any arity including empty,
thresholds with `k > n`); the only hypothesis is `k ≥ 1`, which every `Threshold` satisfies -/
theorem check_timelocks_exact (c : CPolicy) (hk : threshKPos c = true) :
    checkTimelocks c = false ↔ hasMixedPath c = true := checkTimelocks_exact c hk

/-- the private `timelock_info` is `None` exactly for policies without any satisfaction -/
theorem timelock_info_none_iff (c : CPolicy) :
    timelockInfo c = none ↔ ∀ v, holdsC v c = false := by
  rw [(claim_all c).1]
  constructor
  · intro h v; rw [holdsC_eq_good, h]; rfl
  · intro h
    have hv := h (fun _ => true)
    rw [holdsC_eq_good] at hv
    cases hs : selsC false c with
    | nil => rfl
    | cons s ss =>
      rw [hs] at hv
      simp [good] at hv

/-- the former F10 witnesses are accepted now, a genuinely mixed policy is still refused -/
theorem check_timelocks_former_F10_witnesses :
    checkTimelocks (.and [.unsat, .and [.atom (.older 1), .atom (.older 4194305)]]) = true
    ∧ checkTimelocks (.thresh 3 [.atom (.older 1), .atom (.older 4194305), .unsat]) = true
    ∧ checkTimelocks (.thresh 2 [.atom (.older 1), .atom (.older 4194305), .unsat]) = false := by
  decide

/-- the satisfiable paths of a concrete policy are exactly its ways of being satisfied (so
"satisfiable path" above is not an artefact of the definition of `selsC`) -/
theorem concrete_selections_characterise_truth (v : Atom → Bool) (c : CPolicy) :
    holdsC v c = (selsC false c).any (fun s => s.all v) := holdsC_eq_good v c

/-! ## T8 — `is_safe_nonmalleable`, the `signed` flag -/

/-- the specification's SAFE ("every satisfaction needs a signature") is: the policy does not
hold when nobody signs and everything else is available -/
theorem safe_spec_characterisation (c : CPolicy) : isSafeSpec c = !holdsC noKeys c :=
  isSafeSpec_eq c

/-- `signed` ⇔ every satisfaction of the policy needs a signature — every well-formed concrete
policy (`TRIVIAL`, `UNSATISFIABLE`, n-ary `and` / `or` included) -/
theorem is_safe_exact (c : CPolicy) (hw : WFC c = true) :
    (isSafeNonmalleable c).1 = isSafeSpec c := by
  rw [isSafeSpec_eq]; exact safe_exact c hw

/-- the former witness: `or(pk(0), TRIVIAL)` is no longer reported to need a signature -/
theorem is_safe_former_witness :
    (isSafeNonmalleable (.or [.atom (.key 0), .trivial])).1 = false
    ∧ isSafeSpec (.or [.atom (.key 0), .trivial]) = false := by decide

/-! ## Non-vacuity: the hypotheses are satisfiable by non-trivial values, the functions are
not constant -/

example : normalized (.thresh 2 [.thresh 2 [.atom (.key 0), .atom (.key 1)], .trivial,
      .unsat, .thresh 1 [.atom (.key 2), .atom (.key 3)]])
    = .thresh 1 [.thresh 2 [.atom (.key 0), .atom (.key 1)], .atom (.key 2), .atom (.key 3)] := by
  rfl
example : NF (.thresh 2 [.atom (.key 0), .atom (.older 144),
    .thresh 1 [.atom (.key 1), .atom (.after 500000001)]]) = true := by decide
example : atAge 100 (.thresh 1 [.atom (.key 0), .atom (.older 144)]) = .atom (.key 0) := by rfl
example : (100 : Nat) < 2147483648 := by decide
example : entails (.thresh 2 [.atom (.key 0), .atom (.key 1)]) (.atom (.key 1)) = .some true := by
  decide
example : entails (.atom (.key 1)) (.thresh 2 [.atom (.key 0), .atom (.key 1)]) = .some false := by
  decide
example : minimumNKeys (.thresh 2 [.atom (.key 0), .atom (.older 144),
    .thresh 2 [.atom (.key 1), .atom (.key 2)]]) = some 1 := by
  rw [minimum_n_keys_exact]; decide
example : andOrNonEmpty (.and [.atom (.key 0), .or [.atom (.key 1), .atom (.older 5)]]) = true
    ∧ WFC (.and [.atom (.key 0), .or [.atom (.key 1), .atom (.older 5)]]) = true := by decide
example : lift (.and [.atom (.key 0), .atom (.key 1), .atom (.key 2)])
    = .ok (.thresh 3 [.atom (.key 0), .atom (.key 1), .atom (.key 2)]) := by rfl
example : lift (.and [.atom (.key 0)]) = .ok (.atom (.key 0)) := by rfl
example : threshKPos (.thresh 2 [.atom (.older 1), .atom (.older 4194305), .unsat]) = true
    ∧ unsatFree (.thresh 2 [.atom (.older 1), .atom (.older 4194305), .atom (.key 0)]) = true
    ∧ checkTimelocks (.thresh 2 [.atom (.older 1), .atom (.older 4194305), .atom (.key 0)]) = false
    ∧ checkTimelocks (.or [.atom (.older 1), .atom (.older 4194305)]) = true := by decide


/-! ### every hypothesis, on a nested policy with a threshold and a lock -/

/-- the running example: `and(or(2@pk(0), 1@older(144)), thresh(2, pk(1), pk(2), after(500000001)))` -/
def exC : CPolicy :=
  .and [.or [.atom (.key 0), .atom (.older 144)],
        .thresh 2 [.atom (.key 1), .atom (.key 2), .atom (.after 500000001)]]
/-- and its abstract counterpart -/
def exP : Policy :=
  .thresh 2 [.thresh 1 [.atom (.key 0), .atom (.older 144)],
             .thresh 2 [.atom (.key 1), .atom (.key 2), .atom (.after 500000001)]]

-- WFC, threshKPos, andOrNonEmpty, trivialFree, unsatFree all hold of `exC`
example : WFC exC = true ∧ threshKPos exC = true ∧ andOrNonEmpty exC = true
    ∧ trivialFree exC = true ∧ unsatFree exC = true := by decide
-- `concrete_lift_total` / `concrete_lift_refuses_iff_check`: lifted, and the result is `exP`
example : lift exC = .ok exP := by rfl
example : hasMixedPath exC = false ∧ checkTimelocks exC = true := by decide
-- … and the refusing side of the same theorems: a nested mixed path
example : andOrNonEmpty (.and [exC, .thresh 2 [.atom (.older 4194305), .atom (.key 3)]]) = true
    ∧ threshKPos (.and [exC, .thresh 2 [.atom (.older 4194305), .atom (.key 3)]]) = true
    ∧ hasMixedPath (.and [exC, .thresh 2 [.atom (.older 4194305), .atom (.key 3)]]) = true := by
  decide
-- `is_safe_exact`: `exC` is not safe (older(144) + after(..) + one key … no: two of
-- {pk1, pk2, after} always include a key) — it IS safe; dropping a key makes it unsafe
example : (isSafeNonmalleable exC).1 = true ∧ isSafeSpec exC = true := by decide
example : WFC (.and [.or [.atom (.key 0), .atom (.older 144)],
      .thresh 1 [.atom (.key 1), .atom (.after 500000001)]]) = true
    ∧ isSafeSpec (.and [.or [.atom (.key 0), .atom (.older 144)],
      .thresh 1 [.atom (.key 1), .atom (.after 500000001)]]) = false := by decide
-- `normalized_fixes_normal_forms`, `normal_form_constants`: `exP` is a normal form
example : NF exP = true := by decide
-- `minimum_n_keys_eq_fewest_signers` / `_attained`: the keys of `exP` are pairwise distinct
example : ((atomsOf exP).filter Atom.isKey).Nodup := by decide
example : minTrueKeys exP = some 1 := by decide
example : minimumNKeys exP = some 1 := by rw [minimum_n_keys_exact]; decide
-- `at_age_exact` / `at_age_holds`: an age below the lock removes the `older` branch
example : atAge 100 exP
    = .thresh 2 [.atom (.key 0), .thresh 2 [.atom (.key 1), .atom (.key 2), .atom (.after 500000001)]] := by
  rfl
-- `sorted_normal_form`: swapping children at both levels is a `ChildPerm`, the sorted forms agree
example : ChildPerm exP (.thresh 2 [.thresh 2 [.atom (.after 500000001), .atom (.key 2), .atom (.key 1)],
    .thresh 1 [.atom (.older 144), .atom (.key 0)]]) :=
  .trans (.perm 2 (List.Perm.swap _ _ _))
    (.congr 2 (.cons (.perm 2 (show List.Perm [Policy.atom (.key 1), .atom (.key 2), .atom (.after 500000001)] _ from
        List.reverse_perm [Policy.atom (.after 500000001), .atom (.key 2), .atom (.key 1)]))
      (.cons (.perm 1 (List.Perm.swap _ _ _)) .nil)))

end MsVerif.C18

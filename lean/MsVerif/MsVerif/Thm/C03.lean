/-
C03 — non-malleable satisfactions cannot be altered by third parties.

MAIN THEOREM (kernel-checked): TABLE-LEVEL UNIQUENESS, `table_unique_partial`.
For a script of non-malleable type with pairwise distinct keys, if the NON-malleable satisfier
returns the witness `W`, then every canonical satisfaction of the specification's table
(`Spec/SatAll.allSat`: ALL of them — both branches of every `or`, every `k`-subset of a
threshold / multisig) that a third party can assemble — a third party who knows every preimage,
faces the same transaction, and holds of the script's keys only signatures VISIBLE in `W` — is
`W`.  Proved by induction over the typing derivation (`Lemmas/Uniq*.lean`): every fragment,
thresholds of any arity, the four multisig fragments.  Companions: `table_none_partial`
(impossible for the caller / needs a signature ⇒ nothing for the third party),
`dissat_unique_for_e` (type `e` ⇒ the satisfier's dissatisfaction is the only canonical table
dissatisfaction and the one `SatTable.dsatWit` builds), `dissat_unique_needs_nonMall` (without
`m` that statement is false — concrete script).

SCRIPT LEVEL: `nonmall_unique_script_of_bridge` — under the explicit hypothesis `AcceptedImpTable`
(an accepted stack is, element by element, a table satisfaction) the returned witness is the
only accepted stack.  `AcceptedImpTable` is NOT proved (C02's `accepted_imp_satEx` gives existence
of a table satisfaction, not identity of the accepted stack); `nonmall_unique_full` states the
property with the library's own sanity predicate `LibSane` (C12's `validate … SANE`) and the
harness' adversary model and stays open; on explored inputs it is decided on every run by the
exhaustive adversary search (`J nonmall`, `J dnonmall`, `J dnoalt`).  `libSane_facts` /
`libSane_keys_nodup` derive type `B`/`m`/`s` and the distinct keys from `LibSane`.

Also here (the satisfier's selection lattice, used by the induction):
  * `minimum`: refuses two signature-less alternatives, prefers a signature-less one;
  * `has_sig` is exact in non-malleable mode (flag ⇔ signature placeholder), every script;
  * `thresh`: sorted permutation; more than `k` signature-less children ⇒ no stack;
  * judge: the CHECKMULTISIG pruning rule of the adversary search loses no accepted stack.

The taproot finding (a leaf occurring twice: control blocks can be exchanged) is about the
output envelope; there is no model of tr envelopes in this file — it is harness-only
(`J dnoalt`, known_findings.txt).
-/
import MsVerif.Lemmas.MalleLattice
import MsVerif.Lemmas.MalleThresh
import MsVerif.Lemmas.MalleSearch
import MsVerif.Lemmas.UniqFinal
import MsVerif.Model.Validate
import MsVerif.Model.TypeCheck
import MsVerif.Model.Encode
import MsVerif.Spec.SatTable

namespace MsVerif.C03
open MsVerif Sat MalleLattice MalleThresh Uniq

/-! ## (a) `Satisfaction::minimum` -/

/-- (a) two available (not impossible) alternatives, neither with a signature: a third party
could switch between them, so `minimum` returns UNAVAILABLE — whatever their sizes, and also
when one of them is merely `Unavailable` to the caller (unknown preimage). -/
theorem minimum_never_picks_ambiguous (s1 s2 : Sat)
    (h1 : s1.stack ≠ .impossible) (h2 : s2.stack ≠ .impossible)
    (n1 : s1.hasSig = false) (n2 : s2.hasSig = false) :
    minimum s1 s2 = Sat.UNAVAILABLE := by
  rcases minimum_cases s1 s2 with ⟨h, _⟩ | ⟨_, h, _⟩ | ⟨_, _, h⟩
  · exact absurd h h1
  · exact absurd h h2
  · rcases h with ⟨_, _, e⟩ | ⟨_, b, _⟩ | ⟨a, _, _⟩ | ⟨a, _, _⟩
    · exact e
    · rw [n2] at b; cases b
    · rw [n1] at a; cases a
    · rw [n1] at a; cases a

/-- one alternative without a signature, the other with one: the signature-less one is taken
(a third party can remove a signature but not add one) — even if it is more expensive, even if it
is `Unavailable` — and the result is no longer flagged `has_sig`. -/
theorem minimum_sigless_beats_signed (s1 s2 : Sat)
    (h1 : s1.stack ≠ .impossible) (h2 : s2.stack ≠ .impossible)
    (n1 : s1.hasSig = false) (n2 : s2.hasSig = true) :
    minimum s1 s2 = ⟨s1.stack, false, s1.abs, s1.rel⟩ ∧ minimum s2 s1 = ⟨s1.stack, false, s1.abs, s1.rel⟩ := by
  constructor
  · rcases minimum_cases s1 s2 with ⟨h, _⟩ | ⟨_, h, _⟩ | ⟨_, _, h⟩
    · exact absurd h h1
    · exact absurd h h2
    · rcases h with ⟨_, b, _⟩ | ⟨_, _, e⟩ | ⟨a, _, _⟩ | ⟨a, _, _⟩
      · rw [n2] at b; cases b
      · exact e
      · rw [n1] at a; cases a
      · rw [n1] at a; cases a
  · rcases minimum_cases s2 s1 with ⟨h, _⟩ | ⟨_, h, _⟩ | ⟨_, _, h⟩
    · exact absurd h h2
    · exact absurd h h1
    · rcases h with ⟨a, _, _⟩ | ⟨a, _, _⟩ | ⟨_, _, e⟩ | ⟨_, b, _⟩
      · rw [n2] at a; cases a
      · rw [n2] at a; cases a
      · exact e
      · rw [n1] at b; cases b

/-- `minimum` invents nothing: the result's stack is one of the two inputs' stacks or
`Unavailable`; it is flagged `has_sig` only if BOTH inputs were (or one was impossible). -/
theorem minimum_selects (s1 s2 : Sat) :
    ((minimum s1 s2).stack = s1.stack ∨ (minimum s1 s2).stack = s2.stack ∨
      (minimum s1 s2).stack = .unavailable) ∧
    ((minimum s1 s2).hasSig = true →
      (s1.hasSig = true ∨ s1.stack = .impossible) ∧ (s2.hasSig = true ∨ s2.stack = .impossible)) := by
  rcases minimum_cases s1 s2 with ⟨h, e⟩ | ⟨_, h, e⟩ | ⟨_, _, h⟩
  · rw [e]; exact ⟨.inr (.inl rfl), fun hs => ⟨.inr h, .inl hs⟩⟩
  · rw [e]; exact ⟨.inl rfl, fun hs => ⟨.inl hs, .inr h⟩⟩
  · rcases h with ⟨_, _, e⟩ | ⟨_, _, e⟩ | ⟨_, _, e⟩ | ⟨a, b, e | e⟩
    · rw [e]; exact ⟨.inr (.inr rfl), fun hs => by cases hs⟩
    · rw [e]; exact ⟨.inl rfl, fun hs => by cases hs⟩
    · rw [e]; exact ⟨.inr (.inl rfl), fun hs => by cases hs⟩
    · rw [e]; exact ⟨.inl rfl, fun _ => ⟨.inl a, .inl b⟩⟩
    · rw [e]; exact ⟨.inr (.inl rfl), fun _ => ⟨.inl a, .inl b⟩⟩

/-! ## (b) `has_sig` bookkeeping -/

/-- configuration of a non-malleable run -/
def nonMallCfg (env : KeyEnv) (ctx : Ctx) (rootHasSig : Bool) (a : Assets) : SatCfg :=
  ⟨env, ctx, false, rootHasSig, a⟩

/-- a caller holding every ECDSA signature and nothing else; a dummy key environment -/
def exAssets : Assets := ⟨fun _ => true, fun _ => none, fun _ => none, fun _ => none, fun _ => none,
  fun _ _ => false, fun _ => false, fun _ => false⟩
def exEnv : KeyEnv := ⟨fun _ => [], fun _ => [], fun _ => [], fun _ => [], fun _ _ => []⟩

/-- (b) in EITHER mode: a satisfaction or dissatisfaction flagged `has_sig` that is a stack
contains at least one signature placeholder.  (`kPos`: multisig thresholds are ≥ 1, which
`Threshold::new` guarantees; for `multi(0,…)` the Rust flags the signature-free stack `[0]`.) -/
theorem stack_has_sig_placeholder (c : SatCfg) (ms : Ms) (hk : kPos ms = true) (l : List Ph) :
    ((satDissat c ms).sat.hasSig = true → (satDissat c ms).sat.stack = .stack l → hasSigPh l = true) ∧
    ((satDissat c ms).dissat.hasSig = true → (satDissat c ms).dissat.stack = .stack l → hasSigPh l = true) :=
  ⟨fun h hl => (sigInv_satDissat c ms hk).1 h l hl, fun h hl => (sigInv_satDissat c ms hk).2 h l hl⟩

/-- `hasSig_sound`: in NON-malleable mode a result NOT flagged `has_sig` contains no signature
placeholder — so "take the signature-less alternative" in `minimum`/`thresh` really is about
stacks a third party can build without any signature.  (False in malleable mode, where
`minimum_mall` and-s the flags but keeps the cheaper stack.) -/
theorem hasSig_sound (env : KeyEnv) (ctx : Ctx) (rhs : Bool) (a : Assets) (ms : Ms) (l : List Ph) :
    ((satDissat (nonMallCfg env ctx rhs a) ms).sat.hasSig = false →
      (satDissat (nonMallCfg env ctx rhs a) ms).sat.stack = .stack l → hasSigPh l = false) ∧
    ((satDissat (nonMallCfg env ctx rhs a) ms).dissat.hasSig = false →
      (satDissat (nonMallCfg env ctx rhs a) ms).dissat.stack = .stack l → hasSigPh l = false) :=
  ⟨fun h hl => (noSigInv_satDissat _ rfl ms).1 h l hl, fun h hl => (noSigInv_satDissat _ rfl ms).2 h l hl⟩

/-- both directions: in non-malleable mode the flag of a returned stack is exactly
"contains a signature placeholder" -/
theorem hasSig_iff_sig_placeholder (env : KeyEnv) (ctx : Ctx) (rhs : Bool) (a : Assets) (ms : Ms)
    (hk : kPos ms = true) (l : List Ph)
    (hl : (satDissat (nonMallCfg env ctx rhs a) ms).sat.stack = .stack l) :
    (satDissat (nonMallCfg env ctx rhs a) ms).sat.hasSig = hasSigPh l := by
  cases hs : (satDissat (nonMallCfg env ctx rhs a) ms).sat.hasSig with
  | true => exact ((stack_has_sig_placeholder _ ms hk l).1 hs hl).symm
  | false => exact ((hasSig_sound env ctx rhs a ms l).1 hs hl).symm

/-- the malleable mode does NOT have the converse property: for
`or_i(pk(0),and_v(v:sha256(0),and_v(v:sha256(1),and_v(v:sha256(2),1))))` with everything
available `minimum_mall` keeps the cheaper stack `[sig(0), 1]` but and-s the flags to `false`
— which is why `hasSig_sound` is stated for the non-malleable mode only -/
theorem hasSig_sound_fails_in_mall_mode :
    (satDissat ⟨⟨fun _ => [], fun _ => [], fun _ => [], fun _ => [], fun _ _ => []⟩, .segwitv0, true, false,
        ⟨fun _ => true, fun _ => none, fun _ => none, fun _ => none, fun _ => none,
          fun _ _ => true, fun _ => false, fun _ => false⟩⟩
      (.orI (.check (.pkK 0)) (.andV (.verify (.hash .sha256 0)) (.andV (.verify (.hash .sha256 1))
        (.andV (.verify (.hash .sha256 2)) .tru))))).sat
    = ⟨.stack [.ecdsaSig 0, .pushOne], false, none, none⟩ := by
  decide

/-! ## (c) `Satisfaction::thresh` -/

/-- the index order used by `thresh` is a sorted permutation of `0..n` (stable insertion sort
by `(is_impossible, has_sig, weight)`) -/
theorem thresh_sort_is_sorted_permutation (key : Nat → SortKey) (n : Nat) :
    (sortIdx key n).Perm (List.range n) ∧
    (sortIdx key n).Pairwise (fun i j => (key i).le (key j) = true) :=
  ⟨sortIdx_perm key n, sortIdx_sorted key n⟩

/-- (c) if MORE than `k` children have an available (not impossible) satisfaction without a
signature, a third party could exchange one of the chosen ones for an unchosen one: the
non-malleable threshold never returns a stack. -/
theorem threshNonMall_refuses_ambiguous (k : Nat) (dissats sats : List Sat)
    (hlen : sats.length = dissats.length)
    (hmany : k < (sats.filter (fun s => !decide (s.stack = .impossible) && !s.hasSig)).length) :
    ∀ l, (threshNonMall k dissats sats).stack ≠ .stack l := by
  have hc : k < (List.range dissats.length).countP
      (fun i => !decide (sats[i]!.stack = .impossible) && !sats[i]!.hasSig) := by
    rw [← hlen, countP_range_getElemBang (fun s => !decide (s.stack = .impossible) && !s.hasSig) sats,
      List.countP_eq_length_filter]
    exact hmany
  intro l
  rcases threshNonMall_refuses k dissats sats hc with e | e <;> rw [e] <;> intro h <;> cases h

/-! ## TABLE-LEVEL UNIQUENESS (the typing-invariant argument)

`SatAll.allSat adv sortK ms` (Spec/SatAll.lean) enumerates EVERY canonical satisfaction of the
specification's table that a holder of `adv` can assemble (both branches of every `or`, every
`k`-subset of a threshold's children / of a multisig's signatures); `Uniq.items` turns the
satisfier's placeholders into table items.  The adversary `adv` (structure `Uniq.AdvOK`):
no signature the caller does not have, the same transaction (the lock checks agree), preimages
and everything else unconstrained — i.e. the adversary may know ALL preimages.

The proof is the induction over the typing derivation (`Lemmas/UniqMain.lean`, `Uniq.uinv`) with
the invariant `Uniq.AltInv` for every alternative the satisfier forms:  impossible ⇒ the
adversary's table list is empty;  flagged `has_sig` and no adversary signature for the keys ⇒
empty;  a returned stack whose keys' adversary signatures are all visible in it ⇒ it is the only
table entry.  `minimum`, `concatenate_rev`, `thresh` preserve it (the `(false,false)` refusal,
"signature-less beats signed", and the position-`k` test of `thresh` are exactly what is needed);
pairwise distinct keys make a signature visible in the result belong to one sub-witness. -/

/-- caller's availability in a context (`Complete.availOf`, the `Avail` C02 uses) -/
abbrev callerAvail (a : Assets) (ctx : Ctx) : SatTable.Avail := Complete.availOf a ctx

/-- (b) TABLE-LEVEL UNIQUENESS.  A script of non-malleable type (`m`; `s` is what makes the
library pass `root_has_sig = true`) with pairwise distinct keys.  If the NON-malleable satisfier
returns the stack `W` for the caller's assets `a`, then EVERY table satisfaction assemblable by a
third party who (1) holds no signature the caller lacks and (2) holds, of the script's keys,
only signatures that are VISIBLE in `W`, (3) faces the same transaction, and who may know every
preimage, is `W` itself.  So the third party can neither alter the witness nor choose another
spending path — at the level of the specification's satisfaction table.

`_partial`: the caller is assumed to know every preimage of the script (`SideOK.pre`, as in C02's
`nonmall_complete`; the satisfier's `Unavailable` bookkeeping for unknown preimages is not
covered), raw key hashes are excluded (as by `SANE`), and "table level" — the step from accepted
byte stacks to table rows is `AcceptedImpTable` below. -/
theorem table_unique_partial (ke : KeyEnv) (ctx : Ctx) (a : Assets) (ms : Ms) (τ : Ty)
    (W : List Ph) (adv : SatTable.Avail)
    (hτ : typeOf ms = some τ) (hm : τ.mall.nonMall = true) (hs : τ.mall.signed = true)
    (hside : SideOK ctx a ms)
    (hW : (satDissat (nonMallCfg ke ctx τ.mall.signed a) ms).sat.stack = .stack W)
    (hadv : AdvOK adv (callerAvail a ctx))
    (hvis : ∀ k ∈ keysOf ms, adv.sig k = true → SatTable.Item.sig k ∈ items W) :
    ∀ t ∈ SatAll.allSat adv (sortKeys ke) ms, t = items W := by
  rw [hs] at hW
  exact (uinv_top ke ctx a ms τ adv hτ hm hside hadv).sat.i3 W hW hvis

/-- companion: where the satisfier finds NO satisfaction because one is impossible for the
caller (missing signature, unmet lock), the third party has no table satisfaction either; and
where the satisfier's result needs a signature, a third party without any signature for the
script's keys has none -/
theorem table_none_partial (ke : KeyEnv) (ctx : Ctx) (a : Assets) (ms : Ms) (τ : Ty)
    (adv : SatTable.Avail)
    (hτ : typeOf ms = some τ) (hm : τ.mall.nonMall = true) (hs : τ.mall.signed = true)
    (hside : SideOK ctx a ms) (hadv : AdvOK adv (callerAvail a ctx)) :
    ((satDissat (nonMallCfg ke ctx τ.mall.signed a) ms).sat.stack = .impossible →
      SatAll.allSat adv (sortKeys ke) ms = []) ∧
    ((satDissat (nonMallCfg ke ctx τ.mall.signed a) ms).sat.hasSig = true →
      (∀ k ∈ keysOf ms, adv.sig k = false) → SatAll.allSat adv (sortKeys ke) ms = []) := by
  rw [hs]
  have h := (uinv_top ke ctx a ms τ adv hτ hm hside hadv).sat
  exact ⟨h.i1, h.i2⟩

/-- (c) for type `e` (`dissat = unique`) in a non-malleable script: the satisfier's
dissatisfaction is a signature-free stack `d`, and it is the ONLY canonical table dissatisfaction
— for every third party (`AdvOK`), in particular for one without any signature — and it is the
row the trusted first-match table `SatTable.dsatWit` constructs. -/
theorem dissat_unique_for_e (ke : KeyEnv) (ctx : Ctx) (a : Assets) (ms : Ms) (τ : Ty)
    (hτ : typeOf ms = some τ) (hm : τ.mall.nonMall = true) (he : τ.mall.dissat = .unique)
    (hside : SideOK ctx a ms) :
    ∃ d, (satDissat (nonMallCfg ke ctx true a) ms).dissat.stack = .stack d ∧
      (∀ k, SatTable.Item.sig k ∉ items d) ∧
      (∀ adv, AdvOK adv (callerAvail a ctx) → ∀ t ∈ SatAll.allDsat adv (sortKeys ke) ms, t = items d) ∧
      (∀ its, SatTable.dsatWit (callerAvail a ctx) (sortKeys ke) ms = some its → its = items d) := by
  obtain ⟨ua, ur, hu⟩ := Complete.exists_units a ms hside.locks
  have hP : Complete.allNodes (Complete.nmP Complete.MODEL_NZ a ua ur) ms = true := by
    unfold Complete.nmP Complete.allNodes
    rw [Complete.all_and, Complete.all_and, Complete.all_and, Complete.all_and]
    simp only [Bool.and_eq_true]
    exact ⟨⟨⟨⟨hu, Complete.nzOK (.inl rfl)⟩, hside.raw⟩, hside.pre⟩, hside.kok⟩
  have nm := nmInv' ⟨ke, ctx, false, true, a⟩ ua ur rfl rfl ms τ hτ hm hP
  obtain ⟨d, hd⟩ := Complete.isStk_exists (nm.du he).1
  have self : AdvOK (callerAvail a ctx) (callerAvail a ctx) := ⟨fun _ h => h, fun _ => rfl, fun _ => rfl⟩
  refine ⟨d, hd, ?_, ?_, ?_⟩
  · exact fun k => dissat_nos ⟨ke, ctx, false, true, a⟩ rfl ms (nm.du he).2 d hd k
  · intro adv hadv t ht
    exact ((uinv_top ke ctx a ms τ adv hτ hm hside hadv).du he).i3 d hd (fun _ hk => by cases hk) t ht
  · intro its hits
    exact ((uinv_top ke ctx a ms τ _ hτ hm hside self).du he).i3 d hd (fun _ hk => by cases hk) its
      (dsatWit_mem _ _ ms its hits)

/-- the statement (c) WITHOUT the non-malleability hypothesis (as it stood in this file before)
is FALSE: `or_b(or_i(pk(0),pk(1)),a:pk(2))` is typed `dissat = unique` (the `or_b` rule says so
unconditionally), the first-match table dissatisfies it, but `or_i(pk,pk)` has two
dissatisfactions and the non-malleable satisfier answers `Unavailable`. -/
theorem dissat_unique_needs_nonMall :
    let ms : Ms := .orB (.orI (.check (.pkK 0)) (.check (.pkK 1))) (.alt (.check (.pkK 2)))
    (typeOf ms).map (·.mall.dissat) = some .unique ∧
    (typeOf ms).map (·.mall.nonMall) = some false ∧
    (SatTable.dsatWit (callerAvail exAssets .segwitv0) (sortKeys exEnv) ms).isSome = true ∧
    (satDissat (nonMallCfg exEnv .segwitv0 true exAssets) ms).dissat.stack = .unavailable ∧
    (SatAll.allDsat (callerAvail exAssets .segwitv0) (sortKeys exEnv) ms).length = 2 := by
  decide

/-- the script on which (c) failed before defect F3 (`j:` dissatisfaction IMPOSSIBLE) was
repaired: `j:and_v(v:pk(0),1)`; it now meets the hypotheses of `dissat_unique_for_e` -/
theorem dissat_table_agrees_at_j :
    typeOf (.nonZero (.andV (.verify (.check (.pkK 0))) .tru))
      = some ⟨⟨.B, .oneNonZero, true, true⟩, ⟨.unique, true, true⟩⟩ ∧
    SatTable.dsatWit (callerAvail exAssets .segwitv0) (sortKeys exEnv)
        (.nonZero (.andV (.verify (.check (.pkK 0))) .tru)) = some [.empty] ∧
    (satDissat (nonMallCfg exEnv .segwitv0 true exAssets)
      (.nonZero (.andV (.verify (.check (.pkK 0))) .tru))).dissat.stack = .stack [.pushZero] ∧
    items [Ph.pushZero] = [SatTable.Item.empty] := by
  decide

/-! ## the judge's CHECKMULTISIG pruning rule -/

/-- Soundness of the only script-specific pruning rule of the adversary search
(`Driver/OpsMalle.lean`, `sigBlockKeys` / `nextChoices`): if CHECKMULTISIG(VERIFY) succeeds under
NULLFAIL + NULLDUMMY on a stack `n, keys…, m, sigs…, dummy, rest`, then the dummy is empty and
every signature element is empty or a valid signature for one of the keys — so restricting the
candidates for these positions to exactly those elements loses no accepted stack. -/
theorem search_sigblock_pruning_sound (env : Script.Env) (s s' : Script.Core) (verify : Bool)
    (hnf : env.flags.nullFail = true) (hnd : env.flags.nullDummy = true)
    (nB mB dummy : Bytes) (keys sigs rest : List Bytes) (n m : Nat)
    (hst : s.stack = nB :: (keys ++ mB :: (sigs ++ dummy :: rest)))
    (hn : Script.numDecode env.flags.minimalNum 4 nB = some (n : Int)) (hkl : keys.length = n)
    (hm : Script.numDecode env.flags.minimalNum 4 mB = some (m : Int)) (hsl : sigs.length = m)
    (h : Script.multisig env s verify = .ok s') :
    dummy = [] ∧ ∀ sg ∈ sigs, sg = [] ∨ ∃ k ∈ keys, env.sigOk k sg = true :=
  MalleSearch.multisig_block env s s' verify hnf hnd nB mB dummy keys sigs rest n m hst hn hkl hm hsl h

/-- a 1-of-2 environment in which `[7]` is a valid signature for the key `03 00…00` only -/
def exMsEnv : Script.Env := ⟨⟨false, true, true, true, true, true, true⟩,
  fun pk sg => pk == (3 :: List.replicate 32 0) && sg == [7], fun _ b => b, 0, 0, 2⟩

/-- instance of the hypotheses: CHECKMULTISIG succeeds on `2 <key 02…> <key 03…> 1 [7] <>` -/
example :
    (match Script.multisig exMsEnv ⟨[[2], 2 :: List.replicate 32 0, 3 :: List.replicate 32 0, [1], [7], []], [], 0⟩ false with
     | .ok c => c.stack == [[1]]
     | .error _ => false) = true := by
  simp (decide := true) [Script.multisig, Script.multisigLoop, exMsEnv, Script.numDecode, Script.numDecodeRaw,
    Script.countOp, Script.pushElem, Script.boolBytes, Script.leValue]

/-! ## the property itself at Script level

The library's default sanity is CONCRETE here: `LibSane` = `Miniscript::validate(&Ctx::SANE)`
succeeds (C12's model `Model/Validate.lean`: typed, base `B`, non-malleable, every branch signed,
no duplicate keys, no mixed time locks, no raw key hash, within the limits).  The adversary model
is the one of the harness: a candidate stack may contain ANY byte strings, except that every
element that verifies as a signature for some public key is an element of the original witness
(unforgeability as a hypothesis on `env.sigOk`); preimages and public keys are not restricted. -/

/-- the library's default sanity rules -/
def LibSane (kenv : KeyEnv) (K : KeyInfo) (ctx : Ctx) (ms : Ms) : Prop :=
  isOk (validate kenv K ctx (Ctx.SANE ctx) ms) = true

/-- standardness flags of a context (as `Driver.ctxFlags … true`) -/
def stdFlags : Ctx → Script.Flags
  | .tap => ⟨true, true, true, true, true, false, true⟩
  | .segwitv0 => ⟨false, true, true, true, true, true, true⟩
  | _ => ⟨false, false, true, true, true, true, true⟩

theorem sane_params (ctx : Ctx) :
    (Ctx.SANE ctx).allowMalleability = false ∧ (Ctx.SANE ctx).allowNonB = false ∧
    (Ctx.SANE ctx).allowSiglessBranch = false ∧ (Ctx.SANE ctx).allowDuplicateKeys = false := by
  cases ctx <;> decide

/-- what `LibSane` gives directly: typed, base `B`, type `m` and `s`, no repeated keys -/
theorem libSane_facts (kenv : KeyEnv) (K : KeyInfo) (ctx : Ctx) (ms : Ms) (h : LibSane kenv K ctx ms) :
    ∃ τ, typeOf ms = some τ ∧ τ.corr.base = .B ∧ τ.mall.nonMall = true ∧ τ.mall.signed = true ∧
      hasRepeatedKeys ms = false := by
  obtain ⟨pm, pb, ps, pd⟩ := sane_params ctx
  unfold LibSane validate at h
  cases hτ : typeOf ms with
  | none => simp [hτ, isOk] at h
  | some τ =>
    simp only [hτ] at h
    cases hv : validateNonTopLevel kenv K ctx (Ctx.SANE ctx) ms with
    | error e => simp [hv, isOk] at h
    | ok u =>
      simp only [hv] at h
      refine ⟨τ, rfl, ?_⟩
      have hrep : hasRepeatedKeys ms = false := by
        unfold validateNonTopLevel chk at hv
        simp only [pd, Bool.not_false, Bool.true_and] at hv
        cases hr : hasRepeatedKeys ms with
        | false => rfl
        | true =>
          simp only [hr] at hv
          split at hv
          · cases hv
          · simp at hv
      unfold topLevelCheck chk at h
      simp only [pm, pb, ps, Bool.not_false, Bool.true_and] at h
      cases hnm : τ.mall.nonMall <;> cases hsg : τ.mall.signed <;> cases hb : τ.corr.base <;>
        simp_all [isOk]

/-- THE BRIDGE still missing between the table and Script (the gap named T3 in the design):
every stack the Script semantics accepts under the standardness rules, assembled by the third
party, is — element by element, through a realisation `real` of table items as bytes — one of
the table's canonical satisfactions for the third party's availability.  (C02's
`accepted_imp_satEx` gives the EXISTENCE of a table satisfaction from an accepted stack, not that
the accepted stack IS one; for junk in hash-dissatisfaction positions it is false without the
typing invariants — which is where `m` has to enter once more.) -/
def AcceptedImpTable (env : Script.Env) (kenv : KeyEnv) (ctx : Ctx) (ms : Ms) (adv : SatTable.Avail)
    (real : SatTable.Item → Bytes) : Prop :=
  ∀ w' : List Bytes, Script.accepts env (encode kenv ctx ms) w'.reverse = true →
    ∃ t ∈ SatAll.allSat adv (sortKeys kenv) ms, w' = t.map real

/-- (d) Script-level uniqueness, conditional on the bridge: under `AcceptedImpTable` the witness
the non-malleable satisfier returned is the ONLY stack the Script semantics accepts -/
theorem nonmall_unique_script_of_bridge (ke : KeyEnv) (ctx : Ctx) (a : Assets) (ms : Ms) (τ : Ty)
    (W : List Ph) (adv : SatTable.Avail) (env : Script.Env) (real : SatTable.Item → Bytes)
    (hτ : typeOf ms = some τ) (hm : τ.mall.nonMall = true) (hs : τ.mall.signed = true)
    (hside : SideOK ctx a ms)
    (hW : (satDissat (nonMallCfg ke ctx τ.mall.signed a) ms).sat.stack = .stack W)
    (hadv : AdvOK adv (callerAvail a ctx))
    (hvis : ∀ k ∈ keysOf ms, adv.sig k = true → SatTable.Item.sig k ∈ items W)
    (hbridge : AcceptedImpTable env ke ctx ms adv real) :
    ∀ w' : List Bytes, Script.accepts env (encode ke ctx ms) w'.reverse = true →
      w' = (items W).map real := by
  intro w' hacc
  obtain ⟨t, ht, rfl⟩ := hbridge w' hacc
  rw [table_unique_partial ke ctx a ms τ W adv hτ hm hs hside hW hadv hvis t ht]

/-- C03 at full strength, with the library's own sanity predicate and the harness' adversary
model.  `real` realises the satisfier's placeholders as the caller's bytes (`RealOK`: the
realised signatures verify, nothing else does unless it is in the witness — unforgeability).
OPEN: provable from `nonmall_unique_script_of_bridge` once (1) `AcceptedImpTable` is proved for
sane scripts, (2) `SideOK` is derived from `LibSane` (distinct keys: `libSane_facts`; lock
compatibility and fragment/context facts are not yet derived from `validate`), (3) callers that
do not know every preimage are covered. -/
def nonmall_unique_full : Prop :=
  ∀ (kenv : KeyEnv) (K : KeyInfo) (ctx : Ctx) (a : Assets) (ms : Ms) (τ : Ty) (env : Script.Env)
    (real : Ph → Bytes) (W : List Ph),
    typeOf ms = some τ → LibSane kenv K ctx ms → env.flags = stdFlags ctx →
    (satDissat (nonMallCfg kenv ctx τ.mall.signed a) ms).sat.stack = .stack W →
    -- the original witness is accepted
    Script.accepts env (encode kenv ctx ms) (W.map real).reverse = true →
    ∀ w' : List Bytes,
      -- unforgeability: a candidate element that verifies as a signature is one of the original's
      (∀ x ∈ w', (∃ pk, env.sigOk pk x = true) → x ∈ W.map real) →
      Script.accepts env (encode kenv ctx ms) w'.reverse = true →
      w' = W.map real

/-- with `libSane_facts`: the library's sanity gives the distinct-keys side condition -/
theorem libSane_keys_nodup (kenv : KeyEnv) (K : KeyInfo) (ctx : Ctx) (ms : Ms) (h : LibSane kenv K ctx ms) :
    (keysOf ms).Nodup := by
  obtain ⟨_, _, _, _, _, hrep⟩ := libSane_facts kenv K ctx ms h
  exact nodup_of_not_repeated ms hrep

/-! ## a concrete, nested instance of every hypothesis

`and_v(v:pk(0), and_v(v:thresh(2,pk(2),s:pk(3),s:pk(4)), or_d(pk(1), and_v(v:sha256(0),older(10)))))`
— a threshold, a hash, a relative lock, an `or` with a signature-less branch.  The caller holds
signatures for keys 0, 2, 3 (not 1, not 4), the preimage, and a transaction meeting `older(10)`.
The satisfier returns `[pre, <> (pk 1), <> (pk 4), sig3, sig2, sig0]`; the third party holds the
three visible signatures, every preimage, the same transaction. -/

def exMs : Ms :=
  .andV (.verify (.check (.pkK 0)))
    (.andV (.verify (.thresh 2 (.cons (.check (.pkK 2)) (.cons (.swap (.check (.pkK 3)))
        (.cons (.swap (.check (.pkK 4))) .nil)))))
      (.orD (.check (.pkK 1)) (.andV (.verify (.hash .sha256 0)) (.older 10))))

def exA : Assets := ⟨fun k => k == 0 || k == 2 || k == 3, fun _ => none, fun _ => none, fun _ => none,
  fun _ => none, fun _ _ => true, fun n => n == 10, fun _ => false⟩

def exW : List Ph := [.preimage .sha256 0, .pushZero, .pushZero, .ecdsaSig 3, .ecdsaSig 2, .ecdsaSig 0]

def exTy : Ty := ⟨⟨.B, .anyNonZero, false, false⟩, ⟨.none, true, true⟩⟩

/-- the third party: the visible signatures, all preimages, the same locks -/
def exAdv : SatTable.Avail := { callerAvail exA .segwitv0 with sig := fun k => k == 0 || k == 2 || k == 3 }

theorem exMs_typed : typeOf exMs = some exTy := by decide

theorem exMs_side : SideOK .segwitv0 exA exMs :=
  ⟨by decide, by decide, by decide, by decide, by decide, by decide⟩

theorem exMs_sat : (satDissat (nonMallCfg exEnv .segwitv0 exTy.mall.signed exA) exMs).sat.stack = .stack exW := by
  decide

theorem exAdv_ok : AdvOK exAdv (callerAvail exA .segwitv0) :=
  ⟨fun k h => by simpa [exAdv, callerAvail, Complete.availOf, Complete.sigAvail, Ctx.sigType, exA] using h,
   fun _ => rfl, fun _ => rfl⟩

/-- `table_unique_partial` applies: every table satisfaction the third party can assemble for
the example is the satisfier's witness -/
example : ∀ t ∈ SatAll.allSat exAdv (sortKeys exEnv) exMs, t = items exW :=
  table_unique_partial exEnv .segwitv0 exA exMs exTy exW exAdv exMs_typed rfl rfl exMs_side exMs_sat
    exAdv_ok (by decide)

/-- … and there IS such a table satisfaction (the statement is not vacuous) -/
example : SatAll.allSat exAdv (sortKeys exEnv) exMs = [items exW] := by decide

/-- `dissat_unique_for_e` on a nested `e`-typed fragment: `thresh(2,pk(2),s:pk(3),s:pk(4))` -/
example : ∃ d, (satDissat (nonMallCfg exEnv .segwitv0 true exA)
      (.thresh 2 (.cons (.check (.pkK 2)) (.cons (.swap (.check (.pkK 3))) (.cons (.swap (.check (.pkK 4))) .nil))))).dissat.stack
      = .stack d ∧ (∀ k, SatTable.Item.sig k ∉ items d) :=
  let ⟨d, h1, h2, _⟩ := dissat_unique_for_e exEnv .segwitv0 exA _
    ⟨⟨.B, .any, true, true⟩, ⟨.unique, true, true⟩⟩ (by decide) rfl rfl
    ⟨by decide, by decide, by decide, by decide, by decide, by decide⟩
  ⟨d, h1, h2⟩

/-- `libSane_facts` is not vacuous: the example passes the library's sanity rules (model) -/
example : LibSane exEnv ⟨fun _ => .compressed, fun _ => 0⟩ .segwitv0 exMs := by
  unfold LibSane; decide

/-! ## non-vacuity -/

/-- (a) on concrete values: a 33-byte preimage stack vs an `Unavailable` alternative, no
signatures: refused -/
example : minimum ⟨.stack [.preimage .sha256 0], false, none, none⟩ ⟨.unavailable, false, none, none⟩
    = Sat.UNAVAILABLE :=
  minimum_never_picks_ambiguous _ _ (by decide) (by decide) rfl rfl

/-- the sig-less alternative wins although it is the more expensive one -/
example : minimum ⟨.stack [.preimage .sha256 0, .preimage .sha256 1, .preimage .sha256 2], false, none, none⟩
    ⟨.stack [.ecdsaSig 0], true, none, none⟩
    = ⟨.stack [.preimage .sha256 0, .preimage .sha256 1, .preimage .sha256 2], false, none, none⟩ :=
  (minimum_sigless_beats_signed _ _ (by decide) (by decide) rfl rfl).1

/-- (b) instantiated: `and_v(v:pk(0),or_d(pk(1),sha256(0)))` with both signatures and the
preimage takes the hash branch; the flag is set because of `pk(0)`'s signature -/
example :
    let a : Assets := ⟨fun _ => true, fun _ => none, fun _ => none, fun _ => none, fun _ => none,
      fun _ _ => true, fun _ => false, fun _ => false⟩
    let env : KeyEnv := ⟨fun _ => [], fun _ => [], fun _ => [], fun _ => [], fun _ _ => []⟩
    let ms : Ms := .andV (.verify (.check (.pkK 0))) (.orD (.check (.pkK 1)) (.hash .sha256 0))
    kPos ms = true ∧
    (satDissat (nonMallCfg env .segwitv0 true a) ms).sat
      = ⟨.stack [.preimage .sha256 0, .pushZero, .ecdsaSig 0], true, none, none⟩ := by
  decide

/-- (c) instantiated: two hash children with known preimages, `k = 1`: refused -/
example :
    threshNonMall 1
      [⟨.stack [.hashDissat], false, none, none⟩, ⟨.stack [.hashDissat], false, none, none⟩]
      [⟨.stack [.preimage .sha256 0], false, none, none⟩, ⟨.stack [.preimage .sha256 1], false, none, none⟩]
    = Sat.UNAVAILABLE := by
  decide

example : ∀ l, (threshNonMall 1
      [⟨.stack [.hashDissat], false, none, none⟩, ⟨.stack [.hashDissat], false, none, none⟩]
      [⟨.stack [.preimage .sha256 0], false, none, none⟩, ⟨.stack [.preimage .sha256 1], false, none, none⟩]).stack
    ≠ .stack l :=
  threshNonMall_refuses_ambiguous 1 _ _ rfl (by decide)

end MsVerif.C03

/-
C03 — non-malleable satisfactions cannot be altered by third parties.

What is kernel-checked here (Tier 1 of DESIGN "### C03"): the SELECTION LATTICE of the satisfier
model (`Model/Satisfy.lean` ↔ `src/miniscript/satisfy/{mod,sat_dissat}.rs`), i.e. the rules by
which the non-malleable mode refuses ambiguous choices:

  * `minimum` (a)   — never returns a stack when both alternatives are available without a
                      signature; prefers the signature-less alternative over a signed one and
                      then drops the `has_sig` flag; only the `(true,true)` case compares cost.
  * `has_sig` (b)   — bookkeeping is EXACT in non-malleable mode: a returned stack is flagged
                      `has_sig` iff it contains a signature placeholder (every fragment, every
                      asset set, by induction over the script).
  * `thresh` (c)    — the index sort is a stable sorted permutation; if more than `k` children
                      have an available signature-less satisfaction the result is never a stack.

  * judge (d)       — the one script-specific pruning rule of the adversary search (signature
                      block of CHECKMULTISIG under NULLFAIL + NULLDUMMY) loses no accepted stack.

What is NOT proved here: the uniqueness claim itself (`nonmall_unique_full`, stated below over
`Script.accepts`/`encode`).  It is DECIDED on every run, for every explored input, by the
exhaustive adversary search of `Driver/OpsMalle.lean` (`J nonmall` lines of `harness/src/c03.rs`).
Missing for a proof: (T2) uniqueness among the specification table's satisfactions from the
typing invariants `s`/`e`/`m`, and (T3) "every accepted stack is a table satisfaction" for
arbitrary byte strings — the C02.T2 / C06 lemmas about `frag`, which do not exist yet.

`dissat_unique_for_e_full` (the model's dissatisfaction of a fragment typed `dissat = unique` is
the specification table's canonical one) is stated and left open.  It was FALSE of the code
before the repair of defect F3 (`Terminal::NonZero` had the dissatisfaction IMPOSSIBLE instead of
`[""]`); on the repaired code the former counterexample agrees with the table
(`dissat_table_agrees_at_j`, by evaluation).
-/
import MsVerif.Lemmas.MalleLattice
import MsVerif.Lemmas.MalleThresh
import MsVerif.Lemmas.MalleSearch
import MsVerif.Model.TypeCheck
import MsVerif.Model.Encode
import MsVerif.Spec.SatTable

namespace MsVerif.C03
open MsVerif Sat MalleLattice MalleThresh

/-! ## (a) `Satisfaction::minimum` -/

/-- (a) two available (not impossible) alternatives, neither with a signature: a third party
could switch between them, so `minimum` returns UNAVAILABLE — whatever their sizes, and also
when one of them is merely `Unavailable` to the caller (unknown preimage). -/
theorem minimum_never_picks_ambiguous (s1 s2 : Sat)
    (h1 : s1.stack ≠ .impossible) (h2 : s2.stack ≠ .impossible)
    (n1 : s1.hasSig = false) (n2 : s2.hasSig = false) :
    minimum s1 s2 = Sat.UNAVAILABLE := by
  rcases minimum_cases s1 s2 with ⟨h, _⟩ | ⟨_, h, _⟩ | ⟨_, _, h⟩
  · exact absurd h h1
  · exact absurd h h2
  · rcases h with ⟨_, _, e⟩ | ⟨_, b, _⟩ | ⟨a, _, _⟩ | ⟨a, _, _⟩
    · exact e
    · rw [n2] at b; cases b
    · rw [n1] at a; cases a
    · rw [n1] at a; cases a

/-- one alternative without a signature, the other with one: the signature-less one is taken
(a third party can remove a signature but not add one) — even if it is more expensive, even if it
is `Unavailable` — and the result is no longer flagged `has_sig`. -/
theorem minimum_sigless_beats_signed (s1 s2 : Sat)
    (h1 : s1.stack ≠ .impossible) (h2 : s2.stack ≠ .impossible)
    (n1 : s1.hasSig = false) (n2 : s2.hasSig = true) :
    minimum s1 s2 = ⟨s1.stack, false, s1.abs, s1.rel⟩ ∧ minimum s2 s1 = ⟨s1.stack, false, s1.abs, s1.rel⟩ := by
  constructor
  · rcases minimum_cases s1 s2 with ⟨h, _⟩ | ⟨_, h, _⟩ | ⟨_, _, h⟩
    · exact absurd h h1
    · exact absurd h h2
    · rcases h with ⟨_, b, _⟩ | ⟨_, _, e⟩ | ⟨a, _, _⟩ | ⟨a, _, _⟩
      · rw [n2] at b; cases b
      · exact e
      · rw [n1] at a; cases a
      · rw [n1] at a; cases a
  · rcases minimum_cases s2 s1 with ⟨h, _⟩ | ⟨_, h, _⟩ | ⟨_, _, h⟩
    · exact absurd h h2
    · exact absurd h h1
    · rcases h with ⟨a, _, _⟩ | ⟨a, _, _⟩ | ⟨_, _, e⟩ | ⟨_, b, _⟩
      · rw [n2] at a; cases a
      · rw [n2] at a; cases a
      · exact e
      · rw [n1] at b; cases b

/-- `minimum` invents nothing: the result's stack is one of the two inputs' stacks or
`Unavailable`; it is flagged `has_sig` only if BOTH inputs were (or one was impossible). -/
theorem minimum_selects (s1 s2 : Sat) :
    ((minimum s1 s2).stack = s1.stack ∨ (minimum s1 s2).stack = s2.stack ∨
      (minimum s1 s2).stack = .unavailable) ∧
    ((minimum s1 s2).hasSig = true →
      (s1.hasSig = true ∨ s1.stack = .impossible) ∧ (s2.hasSig = true ∨ s2.stack = .impossible)) := by
  rcases minimum_cases s1 s2 with ⟨h, e⟩ | ⟨_, h, e⟩ | ⟨_, _, h⟩
  · rw [e]; exact ⟨.inr (.inl rfl), fun hs => ⟨.inr h, .inl hs⟩⟩
  · rw [e]; exact ⟨.inl rfl, fun hs => ⟨.inl hs, .inr h⟩⟩
  · rcases h with ⟨_, _, e⟩ | ⟨_, _, e⟩ | ⟨_, _, e⟩ | ⟨a, b, e | e⟩
    · rw [e]; exact ⟨.inr (.inr rfl), fun hs => by cases hs⟩
    · rw [e]; exact ⟨.inl rfl, fun hs => by cases hs⟩
    · rw [e]; exact ⟨.inr (.inl rfl), fun hs => by cases hs⟩
    · rw [e]; exact ⟨.inl rfl, fun _ => ⟨.inl a, .inl b⟩⟩
    · rw [e]; exact ⟨.inr (.inl rfl), fun _ => ⟨.inl a, .inl b⟩⟩

/-! ## (b) `has_sig` bookkeeping -/

/-- configuration of a non-malleable run -/
def nonMallCfg (env : KeyEnv) (ctx : Ctx) (rootHasSig : Bool) (a : Assets) : SatCfg :=
  ⟨env, ctx, false, rootHasSig, a⟩

/-- (b) in EITHER mode: a satisfaction or dissatisfaction flagged `has_sig` that is a stack
contains at least one signature placeholder.  (`kPos`: multisig thresholds are ≥ 1, which
`Threshold::new` guarantees; for `multi(0,…)` the Rust flags the signature-free stack `[0]`.) -/
theorem stack_has_sig_placeholder (c : SatCfg) (ms : Ms) (hk : kPos ms = true) (l : List Ph) :
    ((satDissat c ms).sat.hasSig = true → (satDissat c ms).sat.stack = .stack l → hasSigPh l = true) ∧
    ((satDissat c ms).dissat.hasSig = true → (satDissat c ms).dissat.stack = .stack l → hasSigPh l = true) :=
  ⟨fun h hl => (sigInv_satDissat c ms hk).1 h l hl, fun h hl => (sigInv_satDissat c ms hk).2 h l hl⟩

/-- `hasSig_sound`: in NON-malleable mode a result NOT flagged `has_sig` contains no signature
placeholder — so "take the signature-less alternative" in `minimum`/`thresh` really is about
stacks a third party can build without any signature.  (False in malleable mode, where
`minimum_mall` and-s the flags but keeps the cheaper stack.) -/
theorem hasSig_sound (env : KeyEnv) (ctx : Ctx) (rhs : Bool) (a : Assets) (ms : Ms) (l : List Ph) :
    ((satDissat (nonMallCfg env ctx rhs a) ms).sat.hasSig = false →
      (satDissat (nonMallCfg env ctx rhs a) ms).sat.stack = .stack l → hasSigPh l = false) ∧
    ((satDissat (nonMallCfg env ctx rhs a) ms).dissat.hasSig = false →
      (satDissat (nonMallCfg env ctx rhs a) ms).dissat.stack = .stack l → hasSigPh l = false) :=
  ⟨fun h hl => (noSigInv_satDissat _ rfl ms).1 h l hl, fun h hl => (noSigInv_satDissat _ rfl ms).2 h l hl⟩

/-- both directions: in non-malleable mode the flag of a returned stack is exactly
"contains a signature placeholder" -/
theorem hasSig_iff_sig_placeholder (env : KeyEnv) (ctx : Ctx) (rhs : Bool) (a : Assets) (ms : Ms)
    (hk : kPos ms = true) (l : List Ph)
    (hl : (satDissat (nonMallCfg env ctx rhs a) ms).sat.stack = .stack l) :
    (satDissat (nonMallCfg env ctx rhs a) ms).sat.hasSig = hasSigPh l := by
  cases hs : (satDissat (nonMallCfg env ctx rhs a) ms).sat.hasSig with
  | true => exact ((stack_has_sig_placeholder _ ms hk l).1 hs hl).symm
  | false => exact ((hasSig_sound env ctx rhs a ms l).1 hs hl).symm

/-- the malleable mode does NOT have the converse property: for
`or_i(pk(0),and_v(v:sha256(0),and_v(v:sha256(1),and_v(v:sha256(2),1))))` with everything
available `minimum_mall` keeps the cheaper stack `[sig(0), 1]` but and-s the flags to `false`
— which is why `hasSig_sound` is stated for the non-malleable mode only -/
theorem hasSig_sound_fails_in_mall_mode :
    (satDissat ⟨⟨fun _ => [], fun _ => [], fun _ => [], fun _ => [], fun _ _ => []⟩, .segwitv0, true, false,
        ⟨fun _ => true, fun _ => none, fun _ => none, fun _ => none, fun _ => none,
          fun _ _ => true, fun _ => false, fun _ => false⟩⟩
      (.orI (.check (.pkK 0)) (.andV (.verify (.hash .sha256 0)) (.andV (.verify (.hash .sha256 1))
        (.andV (.verify (.hash .sha256 2)) .tru))))).sat
    = ⟨.stack [.ecdsaSig 0, .pushOne], false, none, none⟩ := by
  decide

/-! ## (c) `Satisfaction::thresh` -/

/-- the index order used by `thresh` is a sorted permutation of `0..n` (stable insertion sort
by `(is_impossible, has_sig, weight)`) -/
theorem thresh_sort_is_sorted_permutation (key : Nat → SortKey) (n : Nat) :
    (sortIdx key n).Perm (List.range n) ∧
    (sortIdx key n).Pairwise (fun i j => (key i).le (key j) = true) :=
  ⟨sortIdx_perm key n, sortIdx_sorted key n⟩

/-- (c) if MORE than `k` children have an available (not impossible) satisfaction without a
signature, a third party could exchange one of the chosen ones for an unchosen one: the
non-malleable threshold never returns a stack. -/
theorem threshNonMall_refuses_ambiguous (k : Nat) (dissats sats : List Sat)
    (hlen : sats.length = dissats.length)
    (hmany : k < (sats.filter (fun s => !decide (s.stack = .impossible) && !s.hasSig)).length) :
    ∀ l, (threshNonMall k dissats sats).stack ≠ .stack l := by
  have hc : k < (List.range dissats.length).countP
      (fun i => !decide (sats[i]!.stack = .impossible) && !sats[i]!.hasSig) := by
    rw [← hlen, countP_range_getElemBang (fun s => !decide (s.stack = .impossible) && !s.hasSig) sats,
      List.countP_eq_length_filter]
    exact hmany
  intro l
  rcases threshNonMall_refuses k dissats sats hc with e | e <;> rw [e] <;> intro h <;> cases h

/-! ## (e) dissatisfactions vs the specification table -/

def phItem : Ph → SatTable.Item
  | .pubkey k _ => .key k
  | .pubkeyHash h _ => .rawKey h
  | .ecdsaSig k | .schnorrSig k _ => .sig k
  | .ecdsaSigPkh h | .schnorrSigPkh h _ => .rawSig h
  | .preimage kind h => .pre kind h
  | .hashDissat => .zero32
  | .pushOne => .one
  | .pushZero => .empty

def availOf (a : Assets) : SatTable.Avail where
  sig k := a.ecdsaSig k || (a.schnorrSig k).isSome
  preimage := a.preimage
  after := a.checkAfter
  older n := a.checkOlder (relCanon n)
  rawKey h := (a.rawPkhPk h).isSome
  rawSig h := (a.rawPkhEcdsa h).isSome || (a.rawPkhSchnorr h).isSome

/-- a caller holding every ECDSA signature and nothing else; a dummy key environment -/
def exAssets : Assets := ⟨fun _ => true, fun _ => none, fun _ => none, fun _ => none, fun _ => none,
  fun _ _ => false, fun _ => false, fun _ => false⟩
def exEnv : KeyEnv := ⟨fun _ => [], fun _ => [], fun _ => [], fun _ => [], fun _ _ => []⟩

/-- (e), full statement: for a fragment whose type says `dissat = unique`, the non-malleable
model's dissatisfaction IS the specification table's canonical dissatisfaction. -/
def dissat_unique_for_e_full : Prop :=
  ∀ (env : KeyEnv) (ctx : Ctx) (a : Assets) (ms : Ms) (τ : Ty),
    typeOf ms = some τ → τ.mall.dissat = .unique →
    ∀ items, SatTable.dsatWit (availOf a) (sortKeys env) ms = some items →
      ∃ l, (satDissat (nonMallCfg env ctx τ.mall.signed a) ms).dissat.stack = .stack l ∧ l.map phItem = items

/-- the script on which the statement failed before defect F3 (`j:` dissatisfaction IMPOSSIBLE)
was repaired: `j:and_v(v:pk(0),1)` is typed `dissat = unique`, the table's dissatisfaction is
`[""]`, and the model (= `sat_dissat.rs`, `Terminal::NonZero`) now returns exactly that. -/
theorem dissat_table_agrees_at_j :
    typeOf (.nonZero (.andV (.verify (.check (.pkK 0))) .tru))
      = some ⟨⟨.B, .oneNonZero, true, true⟩, ⟨.unique, true, true⟩⟩ ∧
    SatTable.dsatWit (availOf exAssets) (sortKeys exEnv) (.nonZero (.andV (.verify (.check (.pkK 0))) .tru))
      = some [.empty] ∧
    (satDissat (nonMallCfg exEnv .segwitv0 true exAssets)
      (.nonZero (.andV (.verify (.check (.pkK 0))) .tru))).dissat.stack = .stack [.pushZero] ∧
    [Ph.pushZero].map phItem = [SatTable.Item.empty] := by
  decide

/-! ## the judge's CHECKMULTISIG pruning rule -/

/-- Soundness of the only script-specific pruning rule of the adversary search
(`Driver/OpsMalle.lean`, `sigBlockKeys` / `nextChoices`): if CHECKMULTISIG(VERIFY) succeeds under
NULLFAIL + NULLDUMMY on a stack `n, keys…, m, sigs…, dummy, rest`, then the dummy is empty and
every signature element is empty or a valid signature for one of the keys — so restricting the
candidates for these positions to exactly those elements loses no accepted stack. -/
theorem search_sigblock_pruning_sound (env : Script.Env) (s s' : Script.Core) (verify : Bool)
    (hnf : env.flags.nullFail = true) (hnd : env.flags.nullDummy = true)
    (nB mB dummy : Bytes) (keys sigs rest : List Bytes) (n m : Nat)
    (hst : s.stack = nB :: (keys ++ mB :: (sigs ++ dummy :: rest)))
    (hn : Script.numDecode env.flags.minimalNum 4 nB = some (n : Int)) (hkl : keys.length = n)
    (hm : Script.numDecode env.flags.minimalNum 4 mB = some (m : Int)) (hsl : sigs.length = m)
    (h : Script.multisig env s verify = .ok s') :
    dummy = [] ∧ ∀ sg ∈ sigs, sg = [] ∨ ∃ k ∈ keys, env.sigOk k sg = true :=
  MalleSearch.multisig_block env s s' verify hnf hnd nB mB dummy keys sigs rest n m hst hn hkl hm hsl h

/-- a 1-of-2 environment in which `[7]` is a valid signature for the key `03 00…00` only -/
def exMsEnv : Script.Env := ⟨⟨false, true, true, true, true, true, true⟩,
  fun pk sg => pk == (3 :: List.replicate 32 0) && sg == [7], fun _ b => b, 0, 0, 2⟩

/-- instance of the hypotheses: CHECKMULTISIG succeeds on `2 <key 02…> <key 03…> 1 [7] <>` -/
example :
    (match Script.multisig exMsEnv ⟨[[2], 2 :: List.replicate 32 0, 3 :: List.replicate 32 0, [1], [7], []], [], 0⟩ false with
     | .ok c => c.stack == [[1]]
     | .error _ => false) = true := by
  simp (decide := true) [Script.multisig, Script.multisigLoop, exMsEnv, Script.numDecode, Script.numDecodeRaw,
    Script.countOp, Script.pushElem, Script.boolBytes, Script.leValue]

/-! ## the property itself (open; decided by search on explored inputs) -/

/-- standardness flags of a context (as `Driver.ctxFlags … true`) -/
def stdFlags : Ctx → Script.Flags
  | .tap => ⟨true, true, true, true, true, false, true⟩
  | .segwitv0 => ⟨false, true, true, true, true, true, true⟩
  | _ => ⟨false, false, true, true, true, true, true⟩

/-- C03 at full strength.  `real` turns the satisfier's placeholders into the caller's bytes;
the adversary may use ANY byte strings except signatures that verify for some key and are not
visible in the original witness (unforgeability is a hypothesis, not an axiom); `sane` stands for
the remaining `Ctx::SANE` conditions (no repeated keys, no mixed time locks, limits). -/
def nonmall_unique_full : Prop :=
  ∀ (kenv : KeyEnv) (ctx : Ctx) (a : Assets) (ms : Ms) (τ : Ty) (env : Script.Env)
    (real : Ph → Bytes) (sane : Ms → Prop) (l : List Ph),
    typeOf ms = some τ → τ.corr.base = .B → τ.mall.nonMall = true → τ.mall.signed = true → sane ms →
    env.flags = stdFlags ctx →
    (satDissat (nonMallCfg kenv ctx true a) ms).sat.stack = .stack l →
    ∀ w' : List Bytes,
      (∀ x ∈ w', (∃ pk, env.sigOk pk x = true) → x ∈ l.map real) →
      Script.accepts env (encode kenv ctx ms) w'.reverse = true →
      w' = l.map real

/-! ## non-vacuity -/

/-- (a) on concrete values: a 33-byte preimage stack vs an `Unavailable` alternative, no
signatures: refused -/
example : minimum ⟨.stack [.preimage .sha256 0], false, none, none⟩ ⟨.unavailable, false, none, none⟩
    = Sat.UNAVAILABLE :=
  minimum_never_picks_ambiguous _ _ (by decide) (by decide) rfl rfl

/-- the sig-less alternative wins although it is the more expensive one -/
example : minimum ⟨.stack [.preimage .sha256 0, .preimage .sha256 1, .preimage .sha256 2], false, none, none⟩
    ⟨.stack [.ecdsaSig 0], true, none, none⟩
    = ⟨.stack [.preimage .sha256 0, .preimage .sha256 1, .preimage .sha256 2], false, none, none⟩ :=
  (minimum_sigless_beats_signed _ _ (by decide) (by decide) rfl rfl).1

/-- (b) instantiated: `and_v(v:pk(0),or_d(pk(1),sha256(0)))` with both signatures and the
preimage takes the hash branch; the flag is set because of `pk(0)`'s signature -/
example :
    let a : Assets := ⟨fun _ => true, fun _ => none, fun _ => none, fun _ => none, fun _ => none,
      fun _ _ => true, fun _ => false, fun _ => false⟩
    let env : KeyEnv := ⟨fun _ => [], fun _ => [], fun _ => [], fun _ => [], fun _ _ => []⟩
    let ms : Ms := .andV (.verify (.check (.pkK 0))) (.orD (.check (.pkK 1)) (.hash .sha256 0))
    kPos ms = true ∧
    (satDissat (nonMallCfg env .segwitv0 true a) ms).sat
      = ⟨.stack [.preimage .sha256 0, .pushZero, .ecdsaSig 0], true, none, none⟩ := by
  decide

/-- (c) instantiated: two hash children with known preimages, `k = 1`: refused -/
example :
    threshNonMall 1
      [⟨.stack [.hashDissat], false, none, none⟩, ⟨.stack [.hashDissat], false, none, none⟩]
      [⟨.stack [.preimage .sha256 0], false, none, none⟩, ⟨.stack [.preimage .sha256 1], false, none, none⟩]
    = Sat.UNAVAILABLE := by
  decide

example : ∀ l, (threshNonMall 1
      [⟨.stack [.hashDissat], false, none, none⟩, ⟨.stack [.hashDissat], false, none, none⟩]
      [⟨.stack [.preimage .sha256 0], false, none, none⟩, ⟨.stack [.preimage .sha256 1], false, none, none⟩]).stack
    ≠ .stack l :=
  threshNonMall_refuses_ambiguous 1 _ _ rfl (by decide)

end MsVerif.C03

/-
C09 — static size and resource figures are true upper bounds.

Model: `Model/Ext.lean` (`ExtData`, `threshold`, `scriptSize`), `Model/Satisfy.lean` (satisfier
templates with the `ItemSize` table), `Model/Encode.lean`.  Helper lemmas: `Lemmas/Bounds*.lean`.
State of /repo: after the `fix:` commits for `cast_dupif` (+2 bytes / +1 element), uncompressed
keys (66-byte push) and `threshold` (`i < k`).

What is proved here
* T1 `witness_bounds_nonmall_partial` / `dissat_bounds_nonmall_partial`: for EVERY well-typed
  fragment (`typeOf` + the numeric invariants `SatSpec.WF`), in non-malleable mode, any assets:
  whenever the model satisfier returns a stack, `sat_data` / `dissat_data` EXISTS and bounds its
  element count, serialized size and (outside tapscript) scriptSig size.  No structural side
  condition.  `witness_bytes_bound_nonmall_partial`: the same about the REAL bytes `w.map σ`
  measured with `Spec/Bounds` (CompactSize + bytes, minimal pushes), for every realisation `σ`
  whose elements are no longer than the library assumes (`LenOk`: signature ≤ 72 bytes, …).
* `witness_bounds_partial` / `dissat_bounds_partial` / `witness_bytes_bound_partial`: both
  satisfier modes, under the structural hypotheses `good` (needed in malleable mode:
  `andv_dissat_undershoots`, `witness_bounds_full_false`).
* `max_satisfaction_accessors_bound`, `within_resource_limits_items`, `sane_resource_check_items`:
  the public accessors and what the declarations imply for witness items / scriptSig size.
* T2 `script_size_eq`, `script_num_size_eq`, `has_free_verify_eq`, `pk_cost_eq`,
  `pk_cost_ge_encoded_length`.
* T3 `static_ops_eq`, `opcount_partial` (scripts without `multi`: the counter ends at
  `static_ops` on ANY witness); `opcount_full` (with `multi`) is OPEN.
* T5 `declared_op_count_le`, `op_limit_compliance_partial`,
  `satisfaction_accepted_with_op_limit_partial` (composes with C01: satisfactions of declared
  scripts without `multi` are accepted with the 201-opcode limit ON);
  `exec_stack_bound_full_false`: `max_exec_stack_count` is NOT a bound (two `decide` witnesses),
  so the stack part of `limits_full` stays open (and is false in tapscript: known finding).
-/
import MsVerif.Lemmas.BoundsInduct
import MsVerif.Lemmas.BoundsSize
import MsVerif.Lemmas.BoundsOps
import MsVerif.Lemmas.BoundsTyped
import MsVerif.Lemmas.BoundsBytes
import MsVerif.Lemmas.BoundsLimit
import MsVerif.Model.TypeCheck
import MsVerif.Model.ExtApi
import MsVerif.Model.Lift
import MsVerif.Thm.C01

namespace MsVerif.C09
open MsVerif ExtData

/-! ## T1: witness count / size / scriptSig size -/

/-- T1 (satisfactions).  `good`: see its doc comment; `AssetsOk` says what the caller hands in
has the sizes the library assumes (Schnorr signatures 64/65 bytes).  Nothing is assumed about
the key revealed for a raw `pk_h` hash: its figure is the largest key of the context
(`pkLen_le_rawKeySig`; before the library fix "size figures of a raw pkh assume the largest key
the context allows" the figure was 34 bytes and a 65-byte key overshot it). -/
theorem witness_bounds_partial (ke : KeyEnv) (ctx : Ctx) (mall rootHasSig : Bool) (a : Assets)
    (ha : AssetsOk ke ctx a) (ms : Ms) (hg : good ke ctx ms = true) (w : List Ph)
    (h : (satDissat ⟨ke, ctx, mall, rootHasSig, a⟩ ms).sat.stack = .stack w) :
    ∃ d, (extOf ke ctx ms).satData = some d ∧ w.length ≤ d.wCount
      ∧ (w.map Ph.size).sum ≤ d.wSize ∧ (ctx ≠ .tap → (w.map phSs).sum ≤ d.ssSize) := by
  obtain ⟨d, hd, c1, c2, c3⟩ := (bound_ms ke ctx mall rootHasSig a ha ms hg).1 w h
  exact ⟨d, hd, c1, c2, fun hc => c3 (by simp [ess, hc])⟩

/-- T1 (dissatisfactions): the same for `dissat_data`, for every `disOK` fragment. -/
theorem dissat_bounds_partial (ke : KeyEnv) (ctx : Ctx) (mall rootHasSig : Bool) (a : Assets)
    (ha : AssetsOk ke ctx a) (ms : Ms) (hg : good ke ctx ms = true)
    (hd : disOK ms = true) (w : List Ph)
    (h : (satDissat ⟨ke, ctx, mall, rootHasSig, a⟩ ms).dissat.stack = .stack w) :
    ∃ d, (extOf ke ctx ms).dissatData = some d ∧ w.length ≤ d.wCount
      ∧ (w.map Ph.size).sum ≤ d.wSize ∧ (ctx ≠ .tap → (w.map phSs).sum ≤ d.ssSize) := by
  obtain ⟨d, hd', c1, c2, c3⟩ := (bound_ms ke ctx mall rootHasSig a ha ms hg).2 hd w h
  exact ⟨d, hd', c1, c2, fun hc => c3 (by simp [ess, hc])⟩

/-- the witness size the library's `util::witness_size` would report is bounded likewise -/
theorem witness_size_le (ke : KeyEnv) (ctx : Ctx) (mall rootHasSig : Bool) (a : Assets)
    (ha : AssetsOk ke ctx a) (ms : Ms) (hg : good ke ctx ms = true) (w : List Ph)
    (h : (satDissat ⟨ke, ctx, mall, rootHasSig, a⟩ ms).sat.stack = .stack w) :
    ∃ d, (extOf ke ctx ms).satData = some d ∧ witnessSize w ≤ d.wSize + varintLen w.length := by
  obtain ⟨d, hd, _, c2, _⟩ := witness_bounds_partial ke ctx mall rootHasSig a ha ms hg w h
  exact ⟨d, hd, by simp only [witnessSize]; omega⟩

/-! ### every well-typed script, non-malleable mode — no structural side condition -/

/-- T1 for the scripts users actually have: EVERY well-typed fragment (`typeOf`, plus the numeric
invariants `WF` that `Threshold::new` / `from_consensus` / the context rules guarantee), in
NON-MALLEABLE mode (`Miniscript::satisfy`, `build_template`, `Plan`s), any assets: whenever the
satisfier returns a stack, `sat_data` exists and bounds its element count, its serialized size
and (outside tapscript) its scriptSig size.  No `good`: in this mode `minimum` never prefers an
alternative carrying a signature over a signature-free one and `d`-typed dissatisfactions are
signature-free (C01 `dissat_clean_nonmall`), so the figure-less `and_v` "dissatisfaction" can
never be the one chosen.  `_partial` only in that it speaks about one of the two modes; for the
malleable mode see `witness_bounds_partial` (needs `good`) and `witness_bounds_full_false`. -/
theorem witness_bounds_nonmall_partial (ke : KeyEnv) (ctx : Ctx) (rootHasSig : Bool) (a : Assets)
    (ha : AssetsOk ke ctx a) (ms : Ms) (τ : Ty) (hty : typeOf ms = some τ)
    (hwf : SatSpec.WF ctx ms) (w : List Ph)
    (h : (satDissat ⟨ke, ctx, false, rootHasSig, a⟩ ms).sat.stack = .stack w) :
    ∃ d, (extOf ke ctx ms).satData = some d ∧ w.length ≤ d.wCount
      ∧ (w.map Ph.size).sum ≤ d.wSize ∧ (ctx ≠ .tap → (w.map phSs).sum ≤ d.ssSize) := by
  obtain ⟨d, hd, c1, c2, c3⟩ := (bound_typed ke ctx rootHasSig a ha ms τ hty hwf).1 w h
  exact ⟨d, hd, c1, c2, fun hc => c3 (by simp [ess, hc])⟩

/-- the same for the dissatisfaction of every `d`-typed fragment; the figure exists statically -/
theorem dissat_bounds_nonmall_partial (ke : KeyEnv) (ctx : Ctx) (rootHasSig : Bool) (a : Assets)
    (ha : AssetsOk ke ctx a) (ms : Ms) (τ : Ty) (hty : typeOf ms = some τ)
    (hwf : SatSpec.WF ctx ms) (hd : τ.corr.dissat = true) :
    (extOf ke ctx ms).dissatData.isSome = true ∧
    ∀ w, (satDissat ⟨ke, ctx, false, rootHasSig, a⟩ ms).dissat.stack = .stack w →
      ∃ d, (extOf ke ctx ms).dissatData = some d ∧ w.length ≤ d.wCount
        ∧ (w.map Ph.size).sum ≤ d.wSize ∧ (ctx ≠ .tap → (w.map phSs).sum ≤ d.ssSize) := by
  obtain ⟨h1, h2⟩ := (bound_typed ke ctx rootHasSig a ha ms τ hty hwf).2 hd
  refine ⟨h2, fun w h => ?_⟩
  obtain ⟨d, hd', c1, c2, c3⟩ := h1 w h
  exact ⟨d, hd', c1, c2, fun hc => c3 (by simp [ess, hc])⟩

/-! ### from the placeholder table to bytes -/

/-- T1 in BYTES.  `σ` realises the placeholders (`Placeholder::satisfy_self`); `LenOk σ p`
(Lemmas/BoundsBytes.lean) says the real element is no longer than the library assumes for its
kind — ECDSA signature ≤ 72 bytes with its sighash byte, Schnorr signature as long as recorded,
key one byte shorter than its recorded push, preimage 32 bytes, `1` = `01`, `0` = empty.  Then
the REAL witness `w.map σ` has at most `max_witness_stack_count` elements, serializes
(`Spec/Bounds.itemsSize`: CompactSize + bytes per element) to at most
`max_witness_stack_size`, and its minimal-push scriptSig (`Spec/Bounds.scriptSigPushSize`) is
at most `max_script_sig_size`. -/
theorem witness_bytes_bound_nonmall_partial (ke : KeyEnv) (ctx : Ctx) (rootHasSig : Bool) (a : Assets)
    (ha : AssetsOk ke ctx a) (ms : Ms) (τ : Ty) (hty : typeOf ms = some τ)
    (hwf : SatSpec.WF ctx ms) (w : List Ph)
    (h : (satDissat ⟨ke, ctx, false, rootHasSig, a⟩ ms).sat.stack = .stack w)
    (σ : Ph → Bytes) (hlen : ∀ p ∈ w, LenOk σ p) :
    ∃ d, (extOf ke ctx ms).satData = some d ∧ (w.map σ).length ≤ d.wCount
      ∧ Bounds.itemsSize (w.map σ) ≤ d.wSize
      ∧ (ctx ≠ .tap → Bounds.scriptSigPushSize (w.map σ) ≤ d.ssSize) := by
  obtain ⟨d, hd, c1, c2, c3⟩ := witness_bounds_nonmall_partial ke ctx rootHasSig a ha ms τ hty hwf w h
  obtain ⟨b1, b2⟩ := witness_le_table σ w hlen
  refine ⟨d, hd, by simpa using c1, ?_, fun hc => ?_⟩
  · exact Nat.le_trans b1 c2
  · exact Nat.le_trans b2 (c3 hc)

/-- the byte version under `good` (both satisfier modes) -/
theorem witness_bytes_bound_partial (ke : KeyEnv) (ctx : Ctx) (mall rootHasSig : Bool) (a : Assets)
    (ha : AssetsOk ke ctx a) (ms : Ms) (hg : good ke ctx ms = true) (w : List Ph)
    (h : (satDissat ⟨ke, ctx, mall, rootHasSig, a⟩ ms).sat.stack = .stack w)
    (σ : Ph → Bytes) (hlen : ∀ p ∈ w, LenOk σ p) :
    ∃ d, (extOf ke ctx ms).satData = some d ∧ (w.map σ).length ≤ d.wCount
      ∧ Bounds.itemsSize (w.map σ) ≤ d.wSize
      ∧ (ctx ≠ .tap → Bounds.scriptSigPushSize (w.map σ) ≤ d.ssSize) := by
  obtain ⟨d, hd, c1, c2, c3⟩ := witness_bounds_partial ke ctx mall rootHasSig a ha ms hg w h
  obtain ⟨b1, b2⟩ := witness_le_table σ w hlen
  exact ⟨d, hd, by simpa using c1, Nat.le_trans b1 c2, fun hc => Nat.le_trans b2 (c3 hc)⟩

/-! ### the public accessors and declarations (`Model/ExtApi.lean`, `Model/Lift.lean`) -/

/-- `max_satisfaction_size()` and `max_satisfaction_witness_elements()` are defined and bound
every produced satisfaction: the serialized witness items in Segwitv0 / Tap, the scriptSig pushes
in Legacy / Bare, and the element count plus one for the witness script. -/
theorem max_satisfaction_accessors_bound (ke : KeyEnv) (ctx : Ctx) (mall rootHasSig : Bool) (a : Assets)
    (ha : AssetsOk ke ctx a) (ms : Ms) (hg : good ke ctx ms = true) (w : List Ph)
    (h : (satDissat ⟨ke, ctx, mall, rootHasSig, a⟩ ms).sat.stack = .stack w) :
    ∃ m e, maxSatSize ctx (extOf ke ctx ms) = some m ∧ maxSatWitnessElements (extOf ke ctx ms) = some e
      ∧ w.length + 1 ≤ e
      ∧ ((ctx = .segwitv0 ∨ ctx = .tap) → (w.map Ph.size).sum ≤ m)
      ∧ ((ctx = .legacy ∨ ctx = .bare) → (w.map phSs).sum ≤ m) := by
  obtain ⟨d, hd, c1, c2, c3⟩ := witness_bounds_partial ke ctx mall rootHasSig a ha ms hg w h
  have c3' : ctx ≠ .tap → (w.map phSs).sum ≤ d.ssSize := c3
  clear c3 ha hg h
  cases ctx
  all_goals
    refine ⟨_, _, by rw [maxSatSize, hd]; rfl, by rw [maxSatWitnessElements, hd]; rfl,
      by show w.length + 1 ≤ d.wCount + 1; omega, fun hc => ?_, fun hc => ?_⟩
    all_goals first
      | exact c2
      | exact c3' (by decide)
      | (rcases hc with hc | hc <;> cases hc)

/-- a script the library declares `within_resource_limits` in Segwitv0 yields at most 100
witness items (script included), in Legacy a scriptSig of at most 1650 bytes of pushes -/
theorem within_resource_limits_items (ke : KeyEnv) (ctx : Ctx) (mall rootHasSig : Bool) (a : Assets)
    (ha : AssetsOk ke ctx a) (ms : Ms) (hg : good ke ctx ms = true) (w : List Ph)
    (h : (satDissat ⟨ke, ctx, mall, rootHasSig, a⟩ ms).sat.stack = .stack w)
    (hl : Lift.withinResourceLimits ke ctx ms = true) :
    (ctx = .segwitv0 → w.length + 1 ≤ 100) ∧ (ctx = .legacy → (w.map phSs).sum ≤ 1650) := by
  obtain ⟨d, hd, c1, c2, c3⟩ := witness_bounds_partial ke ctx mall rootHasSig a ha ms hg w h
  simp only [Lift.withinResourceLimits, Bool.and_eq_true] at hl
  have hp := hl.2
  constructor
  · rintro rfl
    simp only [Lift.localPolicyOk, hd] at hp
    simp [Lift.MAX_STANDARD_P2WSH_STACK_ITEMS] at hp
    omega
  · rintro rfl
    simp only [Lift.localPolicyOk, hd] at hp
    have := c3 (by decide)
    simp [Lift.MAX_SCRIPTSIG_SIZE] at hp
    omega

/-- the Legacy part with the redeem script: the whole scriptSig of the `sh()` spend - the pushes
of the satisfaction plus the push of the script itself - stays within 1650 bytes (the library
compared the satisfaction alone before the fix "the Legacy scriptSig size limit accounts for the
redeem script push"; then this statement was false for 13 x `v:c:pk_h`). -/
theorem within_resource_limits_p2sh_scriptsig (ke : KeyEnv) (mall rootHasSig : Bool) (a : Assets)
    (ha : AssetsOk ke .legacy a) (ms : Ms) (hg : good ke .legacy ms = true) (w : List Ph)
    (h : (satDissat ⟨ke, .legacy, mall, rootHasSig, a⟩ ms).sat.stack = .stack w)
    (hl : Lift.withinResourceLimits ke .legacy ms = true) :
    (w.map phSs).sum + scriptSize ke .legacy ms + Lift.pushOpcodeSize (scriptSize ke .legacy ms)
      ≤ 1650 := by
  obtain ⟨d, hd, c1, c2, c3⟩ := witness_bounds_partial ke .legacy mall rootHasSig a ha ms hg w h
  simp only [Lift.withinResourceLimits, Bool.and_eq_true] at hl
  have hp := hl.2
  simp only [Lift.localPolicyOk, hd] at hp
  have := c3 (by decide)
  simp [Lift.MAX_SCRIPTSIG_SIZE] at hp
  omega

/-- `validate` under the witness-item limit of `Segwitv0::SANE`: accepted scripts yield at most
100 witness items (script included) -/
theorem sane_resource_check_items (ke : KeyEnv) (mall rootHasSig : Bool) (a : Assets)
    (ha : AssetsOk ke .segwitv0 a) (ms : Ms) (hg : good ke .segwitv0 ms = true) (w : List Ph)
    (h : (satDissat ⟨ke, .segwitv0, mall, rootHasSig, a⟩ ms).sat.stack = .stack w)
    (hv : resourceCheck (resourceOnly (Ctx.SANE .segwitv0)) (scriptSize ke .segwitv0 ms)
      (extOf ke .segwitv0 ms) = .ok ()) :
    w.length + 1 ≤ 100 := by
  obtain ⟨d, hd, c1, _, _⟩ := witness_bounds_partial ke .segwitv0 mall rootHasSig a ha ms hg w h
  simp only [resourceCheck, hd, chk] at hv
  split at hv
  · cases hv
  · split at hv
    · cases hv
    · rename_i hn
      simp [resourceOnly, Ctx.SANE, MAX_STANDARD_P2WSH_STACK_ITEMS] at hn
      omega

/-- the statement one would like (every well-typed fragment, no side conditions on it) -/
def witness_bounds_full : Prop :=
  ∀ (ke : KeyEnv) (ctx : Ctx) (mall rootHasSig : Bool) (a : Assets) (ms : Ms) (w : List Ph),
    AssetsOk ke ctx a → (typeOf ms).isSome = true →
    (satDissat ⟨ke, ctx, mall, rootHasSig, a⟩ ms).sat.stack = .stack w →
    ∃ d, (extOf ke ctx ms).satData = some d ∧ w.length ≤ d.wCount ∧ (w.map Ph.size).sum ≤ d.wSize

/-! ### concrete environment for examples and for the counter-example -/

/-- keys 0..99 compressed (33 bytes), 100.. uncompressed (65 bytes) -/
def ke0 : KeyEnv where
  ser k := if k < 100 then List.replicate 33 2 else List.replicate 65 4
  sortKey _ := []
  pkh _ := List.replicate 20 0
  rawPkh _ := List.replicate 20 0
  hashVal _ _ := List.replicate 32 0

/-- signatures for the listed keys, every relative lock met, nothing else -/
def assets0 (keys : List Key) : Assets where
  ecdsaSig k := keys.contains k
  schnorrSig k := if keys.contains k then some 65 else none
  rawPkhPk _ := none
  rawPkhEcdsa _ := none
  rawPkhSchnorr _ := none
  preimage _ _ := false
  checkOlder _ := true
  checkAfter _ := false

theorem assets0_ok (ctx : Ctx) (keys : List Key) : AssetsOk ke0 ctx (assets0 keys) where
  schnorr k sz h := by simp only [assets0] at h; split at h <;> simp_all
  rawSchnorr _ _ _ h := by simp [assets0] at h

/-- the caller knows the (uncompressed, id 100) key behind raw hash 0 and holds its signature -/
def assetsR : Assets :=
  { assets0 [] with rawPkhPk := fun h => if h = 0 then some 100 else none
                    rawPkhEcdsa := fun h => if h = 0 then some 100 else none }

theorem assetsR_ok (ctx : Ctx) : AssetsOk ke0 ctx assetsR where
  schnorr k sz h := by simp [assetsR, assets0] at h
  rawSchnorr _ _ _ h := by simp [assetsR, assets0] at h

/-- the instance that was the defect: `c:pk_h(<raw hash>)` in Legacy satisfied with a 65-byte
key.  The satisfier's witness is signature (73) + key push (66) = 139 bytes, and the figure is
139 (it was 107). -/
theorem raw_pkh_uncompressed_tight :
    ∃ w, (satDissat ⟨ke0, .legacy, false, false, assetsR⟩ (.check (.rawPkH 0))).sat.stack = .stack w
      ∧ (w.map Ph.size).sum = 139
      ∧ ((extOf ke0 .legacy (.check (.rawPkH 0))).satData.map (·.wSize)) = some 139 := by
  refine ⟨[.ecdsaSigPkh 0, .pubkeyHash 0 66], by decide, by decide, by decide⟩

/-- assets with every preimage known -/
def assetsP (keys : List Key) : Assets := { assets0 keys with preimage := fun _ _ => true }

theorem assetsP_ok (ctx : Ctx) (keys : List Key) : AssetsOk ke0 ctx (assetsP keys) where
  schnorr k sz h := by simp only [assetsP, assets0] at h; split at h <;> simp_all
  rawSchnorr _ _ _ h := by simp [assetsP, assets0] at h

/-- `andor(thresh(2,pk(0),s:pk(1),s:pk(2)),
          or_i(multi(2,3,4,5),and_v(v:sha256(0),and_v(v:pkh(6),dv:older(144)))),pk(7))`:
threshold, multisig, hash, relative lock, `d:` wrapper, nesting depth 5 -/
def exTyped : Ms :=
  .andOr (.thresh 2 (.cons (.check (.pkK 0)) (.cons (.swap (.check (.pkK 1))) (.cons (.swap (.check (.pkK 2))) .nil))))
    (.orI (.multi 2 [3, 4, 5]) (.andV (.verify (.hash .sha256 0))
      (.andV (.verify (.check (.pkH 6))) (.dupIf (.verify (.older 144))))))
    (.check (.pkK 7))

theorem exTyped_typed : ∃ τ, typeOf exTyped = some τ := by
  cases h : typeOf exTyped with
  | none => exact absurd h (by decide)
  | some τ => exact ⟨τ, rfl⟩

theorem exTyped_wf : SatSpec.WF .segwitv0 exTyped := by
  simp [exTyped, SatSpec.WF, SatSpec.WFs, MsList.length]

/-- maximal-length real bytes: 72-byte ECDSA signatures, keys as long as their recorded push -/
def σ0 : Ph → Bytes
  | .pubkey _ s | .pubkeyHash _ s => List.replicate (s - 1) 2
  | .ecdsaSig _ | .ecdsaSigPkh _ => List.replicate 72 1
  | .schnorrSig _ s | .schnorrSigPkh _ s => List.replicate s 1
  | .preimage _ _ => List.replicate 32 9
  | .hashDissat => List.replicate 32 0
  | .pushOne => [1]
  | .pushZero => []

/-- non-vacuity of `witness_bounds_nonmall_partial` / `witness_bytes_bound_nonmall_partial`:
with signatures for keys 0, 1, 6, the preimage and the lock met, the non-malleable satisfier
returns an 8-element witness for `exTyped`; every hypothesis holds, and the count figure (8) is
attained -/
example :
    (satDissat ⟨ke0, .segwitv0, false, true, assetsP [0, 1, 6]⟩ exTyped).sat.stack
      = .stack [.pushOne, .ecdsaSig 6, .pubkey 6 34, .preimage .sha256 0, .pushZero, .pushZero,
          .ecdsaSig 1, .ecdsaSig 0]
    ∧ ∃ d, (extOf ke0 .segwitv0 exTyped).satData = some d
      ∧ ([Ph.pushOne, .ecdsaSig 6, .pubkey 6 34, .preimage .sha256 0, .pushZero, .pushZero,
          .ecdsaSig 1, .ecdsaSig 0].map σ0).length ≤ d.wCount
      ∧ Bounds.itemsSize ([Ph.pushOne, .ecdsaSig 6, .pubkey 6 34, .preimage .sha256 0, .pushZero,
          .pushZero, .ecdsaSig 1, .ecdsaSig 0].map σ0) ≤ d.wSize
      ∧ ((Ctx.segwitv0 : Ctx) ≠ .tap → Bounds.scriptSigPushSize ([Ph.pushOne, .ecdsaSig 6, .pubkey 6 34,
          .preimage .sha256 0, .pushZero, .pushZero, .ecdsaSig 1, .ecdsaSig 0].map σ0) ≤ d.ssSize) := by
  have hs : (satDissat ⟨ke0, .segwitv0, false, true, assetsP [0, 1, 6]⟩ exTyped).sat.stack
      = .stack [.pushOne, .ecdsaSig 6, .pubkey 6 34, .preimage .sha256 0, .pushZero, .pushZero,
          .ecdsaSig 1, .ecdsaSig 0] := by decide
  obtain ⟨τ, hτ⟩ := exTyped_typed
  exact ⟨hs, witness_bytes_bound_nonmall_partial ke0 .segwitv0 true (assetsP [0, 1, 6]) (assetsP_ok _ _)
    exTyped τ hτ exTyped_wf _ hs σ0 (by simp [LenOk, σ0])⟩

/-- `or_d(or_i(c:raw_pkh(0),and_v(v:pk(1),pk(2))),pk(3))` -/
def msAndVDis : Ms :=
  .orD (.orI (.check (.rawPkH 0)) (.andV (.verify (.check (.pkK 1))) (.check (.pkK 2)))) (.check (.pkK 3))

/-- Why `disOK` is needed.  Malleable mode, signatures for keys 1 and 3, key of the raw hash
unknown: the model satisfier dissatisfies the `or_i` through its `and_v` branch (`[0, sig1, 0]`),
for which `ExtData` has no figure; the `or_d` figure 147 then only covers the other
alternatives, the produced stack has size 148. -/
theorem andv_dissat_undershoots :
    (typeOf msAndVDis).isSome = true
    ∧ (satDissat ⟨ke0, .segwitv0, true, true, assets0 [1, 3]⟩ msAndVDis).sat.stack
        = .stack [.ecdsaSig 3, .pushZero, .ecdsaSig 1, .pushZero]
    ∧ (extOf ke0 .segwitv0 msAndVDis).satData = some ⟨147, 4, 147, 2, 0⟩
    ∧ (147 : Nat) < ([Ph.ecdsaSig 3, Ph.pushZero, Ph.ecdsaSig 1, Ph.pushZero].map Ph.size).sum := by decide

theorem witness_bounds_full_false : ¬ witness_bounds_full := by
  intro h
  obtain ⟨ht, h1, h2, h3⟩ := andv_dissat_undershoots
  obtain ⟨d, hd, _, hs⟩ := h ke0 .segwitv0 true true (assets0 [1, 3]) msAndVDis _ (assets0_ok _ _) ht h1
  rw [h2] at hd
  cases hd
  exact absurd hs (by decide)

/-- the inputs that violated the bound before the fixes now satisfy `good`: `dv:older(1)`,
`c:pk_h(<uncompressed>)`, `thresh(1,pk,a:l:n:after(1),a:l:n:after(1))` (negative differences),
`or_d(thresh(1,and_b(pk,s:pk),a:0),pk)` (a child without satisfaction figure) -/
example : good ke0 .segwitv0 (.dupIf (.verify (.older 1))) = true
    ∧ good ke0 .legacy (.check (.pkH 100)) = true
    ∧ good ke0 .segwitv0 (.thresh 1 (.cons (.check (.pkK 0))
        (.cons (.alt (.orI .fls (.zeroNotEqual (.after 1))))
        (.cons (.alt (.orI .fls (.zeroNotEqual (.after 1)))) .nil)))) = true
    ∧ good ke0 .segwitv0 (.orD (.thresh 1 (.cons (.andB (.check (.pkK 0)) (.swap (.check (.pkK 1))))
        (.cons (.alt .fls) .nil))) (.check (.pkK 2))) = true := by decide

/-- non-vacuity of T1: a script with `thresh`, `multi`, hashes, `or_i`, `andor`, `d:` satisfies `good` -/
example : good ke0 .segwitv0
    (.andOr (.thresh 2 (.cons (.check (.pkK 0)) (.cons (.swap (.check (.pkK 1)))
        (.cons (.alt (.hash .sha256 0)) .nil))))
      (.orI (.multi 2 [3, 4, 5]) (.andV (.verify (.check (.pkH 6))) (.dupIf (.verify (.older 144)))))
      (.check (.pkK 7))) = true := by decide

/-! ## T2: the script size is exact -/

/-- T2.  `Miniscript::script_size` equals the length of the encoded script, for every fragment
whose numbers are `u32`s, whose `thresh` nodes have a child, and whose key / hash byte strings
have the lengths the context prescribes (`sizeOk`).  Uncompressed keys included: `script_size`
uses `Ctx::pk_len` (66). -/
theorem script_size_eq (ke : KeyEnv) (ctx : Ctx) (ms : Ms) (h : sizeOk ke ctx ms = true) :
    scriptSize ke ctx ms = (Script.serialize (encode ke ctx ms)).length :=
  scriptSize_eq ke ctx ms h

/-- `script_num_size` is the byte size of `push_int`, on all of `u32` (boundaries 16/17, 127/128,
32767/32768, 8388607/8388608, 2^31-1/2^31) -/
theorem script_num_size_eq (n : Nat) (h : n < 4294967296) :
    scriptNumSize n = (pushInt n).bytes.length := (pushInt_len n h).symm

/-- `has_free_verify` holds exactly when the encoding ends in an opcode `push_verify` fuses with -/
theorem has_free_verify_eq (ke : KeyEnv) (ctx : Ctx) (ms : Ms) :
    (extOf ke ctx ms).hasFreeVerify = endsFusable (encode ke ctx ms) := hfv_eq ke ctx ms

example : sizeOk ke0 .legacy
    (.andV (.verify (.check (.pkK 100))) (.orI (.thresh 2 (.cons (.check (.pkK 0))
      (.cons (.swap (.check (.pkH 1))) (.cons (.alt (.hash .sha256 0)) .nil)))) (.after 8388608))) = true := by
  decide

/-- `pk_cost`, the figure `check_global_consensus_validity` compares with the script-size
limits, equals `script_size` — uncompressed keys included — except that `multi_a`'s `num_cost`
table over-estimates by one byte when `n > 16 ≥ k` or `16 < k ≤ 127` (`costSlack`).  Hence
`script_size ≤ pk_cost` always, and `=` for scripts without `multi_a`. -/
theorem pk_cost_eq (ke : KeyEnv) (ctx : Ctx) (ms : Ms) (h : costOk ke ctx ms = true) :
    (extOf ke ctx ms).pkCost = scriptSize ke ctx ms + costSlack ms := pkCost_eq ke ctx ms h

theorem pk_cost_ge_encoded_length (ke : KeyEnv) (ctx : Ctx) (ms : Ms) (h1 : costOk ke ctx ms = true)
    (h2 : sizeOk ke ctx ms = true) :
    (Script.serialize (encode ke ctx ms)).length ≤ (extOf ke ctx ms).pkCost := by
  rw [pk_cost_eq ke ctx ms h1, script_size_eq ke ctx ms h2]; omega

example : costOk ke0 .legacy (.andV (.verify (.check (.pkK 100))) (.orI (.multi 2 [100, 0, 1])
      (.thresh 1 (.cons (.check (.pkK 0)) (.cons (.swap (.check (.pkH 101))) .nil))))) = true
    ∧ (extOf ke0 .legacy (.check (.pkK 100))).pkCost = 67 := by decide

/-! ## T3: executed opcodes -/

/-- `static_ops` is the number of non-push opcodes of the encoded script (no `multi_a`, whose
`static_ops` the library leaves at 0 because tapscript has no opcode limit) -/
theorem static_ops_eq (ke : KeyEnv) (ctx : Ctx) (ms : Ms) (h : opsOk ms = true) :
    (extOf ke ctx ms).staticOps = codeCount (encode ke ctx ms) := staticOps_eq ke ctx ms h

/-- T3 for scripts without `multi`: on ANY witness and in any environment, every run of the
encoded script that does not fail ends with Core's `nOpCount` EQUAL to `static_ops` (every
non-push opcode counts, executed or not; `max_exec_op_count` is 0 for these scripts).
What is missing (`opcount_full`): scripts with `multi`, where each EXECUTED CHECKMULTISIG adds
its number of keys and the figure `max_exec_op_count` follows the satisfier's path. -/
theorem opcount_partial (env : Script.Env) (ke : KeyEnv) (ctx : Ctx) (ms : Ms)
    (h1 : opsOk ms = true) (h2 : multiFree ms = true) (s s' : Script.State)
    (hrun : Script.run env (encode ke ctx ms) s = .ok s') :
    s'.core.ops = s.core.ops + (extOf ke ctx ms).staticOps := by
  have hall : (encode ke ctx ms).all (fun op => !isMultisig op) = true := by
    rw [List.all_eq_true]; intro op hop; simp [encode_noMs ke ctx ms h2 op hop]
  have := run_ops (encode ke ctx ms) s s' hall hrun
  rw [← static_ops_eq ke ctx ms h1] at this
  exact this

/-- the full statement (all fragments incl. `multi`, on the satisfactions the satisfier
produces): OPEN — it needs an opcode-accounting version of C01's soundness induction (which
branch executes depends on the witness); decided on every run by the `J bound` judge (`ops`). -/
def opcount_full : Prop :=
  ∀ (env : Script.Env) (σ : Ph → Bytes) (cfg : SatCfg) (ms : Ms) (τ : Ty) (w : List Ph) (d : SatData)
    (s' : Script.State),
    SatSpec.EnvOk env cfg.ctx → SatSpec.Agrees env cfg.env cfg.assets σ → SatSpec.WF cfg.ctx ms →
    typeOf ms = some τ → cfg.ctx ≠ .tap → (satDissat cfg ms).sat.stack = .stack w →
    (extOf cfg.env cfg.ctx ms).satData = some d →
    Script.run env (encode cfg.env cfg.ctx ms) (Script.State.init (SatSpec.stk σ w)) = .ok s' →
    s'.core.ops ≤ (extOf cfg.env cfg.ctx ms).staticOps + d.execOps

example : opsOk (.andOr (.check (.pkK 0)) (.orI (.hash .sha256 0) (.andV (.verify (.check (.pkH 6))) (.older 144)))
    (.thresh 1 (.cons (.check (.pkK 1)) (.cons (.swap (.check (.pkK 2))) .nil)))) = true
  ∧ multiFree (.andOr (.check (.pkK 0)) (.orI (.hash .sha256 0) (.andV (.verify (.check (.pkH 6))) (.older 144)))
    (.thresh 1 (.cons (.check (.pkK 1)) (.cons (.swap (.check (.pkK 2))) .nil)))) = true := by decide

/-! ## T5: limits -/

/-- what `within_resource_limits` declares about opcodes outside tapscript:
`static_ops + max_exec_op_count ≤ 201` -/
theorem declared_op_count_le (ke : KeyEnv) (ctx : Ctx) (ms : Ms) (hc : ctx ≠ .tap)
    (hl : Lift.withinResourceLimits ke ctx ms = true) :
    ∃ d, (extOf ke ctx ms).satData = some d ∧ (extOf ke ctx ms).staticOps + d.execOps ≤ 201 := by
  simp only [Lift.withinResourceLimits, Bool.and_eq_true] at hl
  have h := hl.1.2
  have hop : Lift.opCountOk (extOf ke ctx ms) = true := by
    cases ctx <;> first | exact absurd rfl hc | simpa [Lift.localConsensusOk] using h
  unfold Lift.opCountOk at hop
  cases hd : (extOf ke ctx ms).satData with
  | none => simp [ExtData.satOpCount, hd] at hop
  | some d =>
    simp [ExtData.satOpCount, hd, Lift.MAX_OPS_PER_SCRIPT] at hop
    exact ⟨d, rfl, hop⟩

/-- Limit compliance, opcode part, for scripts without `multi`: if the library declares the
script within its limits (`within_resource_limits`), executing it with the 201-opcode limit
ENFORCED gives exactly the verdict of the limit-free execution — on any stack.  (The counter
ends at `static_ops ≤ 201`, `opcount_partial`, and only grows.) -/
theorem op_limit_compliance_partial (env : Script.Env) (ke : KeyEnv) (ctx : Ctx) (ms : Ms)
    (h1 : opsOk ms = true) (h2 : multiFree ms = true) (hc : ctx ≠ .tap)
    (hl : Lift.withinResourceLimits ke ctx ms = true) (stack : List Script.Bytes) :
    Script.accepts (withOpLimit env) (encode ke ctx ms) stack
      = Script.accepts env (encode ke ctx ms) stack := by
  obtain ⟨d, _, hle⟩ := declared_op_count_le ke ctx ms hc hl
  have hall : (encode ke ctx ms).all (fun op => !isMultisig op) = true := by
    rw [List.all_eq_true]; intro op hop; simp [encode_noMs ke ctx ms h2 op hop]
  have hrun := run_opLimit env (encode ke ctx ms) (Script.State.init stack) hall
    (by rw [← static_ops_eq ke ctx ms h1]; simp [Script.State.init]; omega)
  unfold Script.accepts
  rw [hrun]

/-- …composed with C01: every satisfaction the satisfier produces for such a script is
ACCEPTED by the flat interpreter with the opcode limit on (stack limits still off: see below) -/
theorem satisfaction_accepted_with_op_limit_partial {env : Script.Env} {σ : Ph → Bytes} {cfg : SatCfg}
    (henv : SatSpec.EnvOk env cfg.ctx) (hag : SatSpec.Agrees env cfg.env cfg.assets σ)
    (ms : Ms) (τ : Ty) (hwf : SatSpec.WF cfg.ctx ms) (hty : typeOf ms = some τ)
    (hB : τ.corr.base = .B) (w : List Ph) (hs : (satDissat cfg ms).sat.stack = .stack w)
    (hlk : SatSpec.LocksMet env (satDissat cfg ms).sat)
    (h1 : opsOk ms = true) (h2 : multiFree ms = true) (hc : cfg.ctx ≠ .tap)
    (hl : Lift.withinResourceLimits cfg.env cfg.ctx ms = true) :
    Script.accepts (withOpLimit env) (encode cfg.env cfg.ctx ms) (SatSpec.stk σ w) = true := by
  rw [op_limit_compliance_partial env cfg.env cfg.ctx ms h1 h2 hc hl]
  exact C01.top_level_sat_sound_exec henv hag ms τ hwf hty hB w hs hlk

/-! ### a small concrete world of our own (no dependence on upstream example names) -/

namespace W
open MsVerif.Script MsVerif.SatSpec

/-- 33-byte "compressed keys" `02 00…00 k` -/
def ser (k : Key) : Bytes := 2 :: (List.replicate 31 0 ++ [UInt8.ofNat k])
/-- 32-byte preimages `09…09 h` -/
def pre (h : Nat) : Bytes := List.replicate 31 9 ++ [UInt8.ofNat h]
/-- toy hash: append a byte (injective) -/
def toyHash (b : Bytes) : Bytes := b ++ [7]

def ke : KeyEnv where
  ser := ser
  sortKey := ser
  pkh k := toyHash (ser k)
  rawPkh h := toyHash (ser h)
  hashVal _ h := toyHash (pre h)

/-- segwit-v0 standardness flags, limits off; a signature is valid iff it is `key ++ [1]` -/
def tEnv (lockTime seq : Nat) : Env where
  flags := ⟨false, true, true, true, true, false, false⟩
  sigOk pk sig := sig == pk ++ [1]
  hash _ b := toyHash b
  nLockTime := lockTime
  nSequence := seq
  txVersion := 2

def tσ : Ph → Bytes
  | .pubkey k _ => ser k
  | .pubkeyHash h _ => ser h
  | .ecdsaSig k => ser k ++ [1]
  | .ecdsaSigPkh h => ser h ++ [1]
  | .schnorrSig k _ => ser k ++ [1]
  | .schnorrSigPkh h _ => ser h ++ [1]
  | .preimage _ h => pre h
  | .hashDissat => List.replicate 32 0
  | .pushOne => [1]
  | .pushZero => []

def pk (k : Key) : Ms := .check (.pkK k)
/-- `and_v(v:pk(K0),or_d(pk(K1),older(144)))` -/
def ms : Ms := .andV (.verify (pk 0)) (.orD (pk 1) (.older 144))
def ty : Ty := ⟨⟨.B, .anyNonZero, false, false⟩, ⟨.none, true, true⟩⟩

/-- signatures for K0 and K1, nothing else -/
def assets1 : Assets :=
  ⟨fun k => k == 0 || k == 1, fun _ => none, fun _ => none, fun _ => none, fun _ => none,
   fun _ _ => false, fun _ => false, fun _ => false⟩
def cfg1 : SatCfg := ⟨ke, .segwitv0, false, true, assets1⟩

end W

section world
open W MsVerif.Script MsVerif.SatSpec

theorem wEnvOk (lt sq : Nat) : EnvOk (tEnv lt sq) .segwitv0 := ⟨rfl, rfl, rfl⟩

theorem wKeyOk (lt sq : Nat) (k : Key) : pubkeyOk (tEnv lt sq) (ser k) = true := by
  simp [pubkeyOk, tEnv, ser]

/-- every signature / preimage the satisfier could hold is genuine here: `Agrees` for EVERY
asset set -/
theorem wAgrees (lt sq : Nat) (a : Assets) : Agrees (tEnv lt sq) ke a tσ where
  pushOne := rfl
  pushZero := rfl
  hashDissat := rfl
  keyShape := wKeyOk lt sq
  pkh _ := rfl
  pubkey _ _ := rfl
  ecdsa k _ := ⟨by simp [tσ], by simp [tEnv, tσ, ke]⟩
  schnorr k _ _ := ⟨by simp [tσ], by simp [tEnv, tσ, ke]⟩
  rawPk h _ _ := ⟨rfl, wKeyOk lt sq h⟩
  rawEcdsa h _ _ _ := ⟨by simp [tσ], by simp [tEnv, tσ]⟩
  rawSchnorr h _ _ _ _ := ⟨by simp [tσ], by simp [tEnv, tσ]⟩
  preimage _ h _ := ⟨by simp [tσ, pre], rfl⟩
  zeroNoPreimage _ h := by
    intro e
    have := congrArg List.head? e
    simp [tEnv, ke, toyHash, pre, List.replicate] at this
  sizeOk p := by cases p <;> simp [tσ, ser, pre]

theorem wTyped : typeOf W.ms = some W.ty := by decide
theorem wWf : WF .segwitv0 W.ms := by simp [W.ms, W.pk, WF]

end world

/-- `and_v(v:pk(K0),or_d(pk(K1),older(144)))` in the world `W`: declared within limits, no
`multi`; its satisfaction is accepted with the opcode limit enforced -/
example : Script.accepts (withOpLimit (W.tEnv 0 0)) (encode W.ke .segwitv0 W.ms)
    (SatSpec.stk W.tσ [.ecdsaSig 1, .ecdsaSig 0]) = true :=
  satisfaction_accepted_with_op_limit_partial (cfg := W.cfg1) (wEnvOk 0 0) (wAgrees 0 0 _)
    W.ms W.ty wWf wTyped rfl _ (by decide) (by simp [SatSpec.LocksMet]; decide)
    (by decide) (by decide) (by decide) (by decide)

/-! ### execution stack depth: the figure is NOT a bound -/

/-- "`max_exec_stack_count` bounds what the execution of a produced satisfaction puts on the
stacks beyond the witness itself" … -/
def exec_stack_bound_full : Prop :=
  ∀ (env : Script.Env) (σ : Ph → Bytes) (cfg : SatCfg) (ms : Ms) (τ : Ty) (w : List Ph) (d : SatData)
    (s' : Script.State) (peak : Nat),
    SatSpec.EnvOk env cfg.ctx → SatSpec.Agrees env cfg.env cfg.assets σ → SatSpec.WF cfg.ctx ms →
    typeOf ms = some τ → (satDissat cfg ms).sat.stack = .stack w →
    (extOf cfg.env cfg.ctx ms).satData = some d →
    Script.runPeak env (encode cfg.env cfg.ctx ms) (Script.State.init (SatSpec.stk σ w)) w.length
      = .ok (s', peak) →
    peak ≤ w.length + d.execStack

def peakOf : Except Script.Err (Script.State × Nat) → Option Nat
  | .ok (_, p) => some p
  | .error _ => none

/-- `thresh(1,andor(0,1,0),s:sha256(H))` -/
def msStackT : Ms := .thresh 1 (.cons (.andOr .fls .tru .fls) (.cons (.swap (.hash .sha256 0)) .nil))

/-- … is false.  Witness 1 (`ExtData::threshold` decides "first child" by the SORTED position):
the unsatisfiable first child leaves its `0` on the stack while `s:sha256` runs: peak 4, but
1 witness element + `max_exec_stack_count` 2 = 3.  Witness 2 (F12): `multi(1,K0,K1)` ignores
the pushes of `k` and `n`: peak 6, but 2 + 2 = 4. -/
theorem exec_stack_witnesses :
    (satDissat ⟨W.ke, .segwitv0, false, false, assetsP []⟩ msStackT).sat.stack = .stack [.preimage .sha256 0]
    ∧ (extOf W.ke .segwitv0 msStackT).satData = some ⟨33, 1, 33, 2, 0⟩
    ∧ peakOf (Script.runPeak (W.tEnv 0 0) (encode W.ke .segwitv0 msStackT)
        (Script.State.init (SatSpec.stk W.tσ [.preimage .sha256 0])) 1) = some 4
    ∧ (extOf W.ke .segwitv0 (.multi 1 [0, 1])).satData = some ⟨74, 2, 74, 2, 2⟩
    ∧ peakOf (Script.runPeak (W.tEnv 0 0) (encode W.ke .segwitv0 (.multi 1 [0, 1]))
        (Script.State.init (SatSpec.stk W.tσ [.pushZero, .ecdsaSig 0])) 2) = some 6 := by
  decide +kernel

theorem exec_stack_bound_full_false : ¬ exec_stack_bound_full := by
  intro h
  obtain ⟨h1, h2, h3, _, _⟩ := exec_stack_witnesses
  cases hr : Script.runPeak (W.tEnv 0 0) (encode W.ke .segwitv0 msStackT)
      (Script.State.init (SatSpec.stk W.tσ [.preimage .sha256 0])) 1 with
  | error e => rw [hr] at h3; cases h3
  | ok r =>
    obtain ⟨s', peak⟩ := r
    rw [hr] at h3
    have hp : peak = 4 := by simpa [peakOf] using h3
    have := h (W.tEnv 0 0) W.tσ ⟨W.ke, .segwitv0, false, false, assetsP []⟩ msStackT
      _ [.preimage .sha256 0] _ s' peak (wEnvOk 0 0) (wAgrees 0 0 _)
      (by simp [msStackT, SatSpec.WF, SatSpec.WFs, MsList.length]) (Option.get_mem (by decide : (typeOf msStackT).isSome = true)) h1 h2 hr
    simp [hp] at this

/-! ### the full limit statement

`limits_full`: a script the library declares within the limits of its context is accepted with
ALL limits enforced (ops ≤ 201, stack + altstack ≤ 1000, pushes ≤ 520) on every satisfaction the
satisfier produces.  OPEN, and false as it stands in tapscript: the stack part would have to go
through `max_exec_stack_count`, which is not a bound (`exec_stack_bound_full_false`; the known
finding `and_v(v:thresh(1,andor(0,1,0),s:sha256),multi_a(1,<997 keys>))` is declared within
limits and reaches 1001 elements).  Proved parts: the opcode limit for scripts without `multi`
(`op_limit_compliance_partial`, composing with C01's acceptance theorem), the witness-item and
scriptSig-size limits (`within_resource_limits_items`, `sane_resource_check_items`), the script
size (`pk_cost_ge_encoded_length`).  Everything else is decided on every run by `J bound`. -/
def limits_full : Prop :=
  ∀ (env : Script.Env) (σ : Ph → Bytes) (cfg : SatCfg) (ms : Ms) (τ : Ty) (w : List Ph),
    SatSpec.EnvOk env cfg.ctx → SatSpec.Agrees env cfg.env cfg.assets σ → SatSpec.WF cfg.ctx ms →
    typeOf ms = some τ → τ.corr.base = .B → (satDissat cfg ms).sat.stack = .stack w →
    SatSpec.LocksMet env (satDissat cfg ms).sat →
    Lift.withinResourceLimits cfg.env cfg.ctx ms = true →
    Script.accepts { env with flags := { env.flags with opLimit := true, stackLimits := true } }
      (encode cfg.env cfg.ctx ms) (SatSpec.stk σ w) = true

end MsVerif.C09

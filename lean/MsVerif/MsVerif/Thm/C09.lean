/-
C09 — static size and resource figures are true upper bounds.

Model: `Model/Ext.lean` (`ExtData`, `threshold`, `scriptSize`), `Model/Satisfy.lean` (satisfier
templates with the `ItemSize` table), `Model/Encode.lean`.  Helper lemmas: `Lemmas/Bounds*.lean`.
State of /repo: after the `fix:` commits for `cast_dupif` (+2 bytes / +1 element), uncompressed
keys (66-byte push) and `threshold` (`i < k`).

What is proved here
* T1 `witness_bounds_partial` / `dissat_bounds_partial`: whenever the model satisfier (either
  mode, any assets) returns a stack, the library's `sat_data` / `dissat_data` EXISTS and bounds
  its element count, its serialized size and (outside tapscript) its scriptSig size — by
  induction over the AST (no bound on size / depth / n), `d:` wrappers, uncompressed keys and
  every `thresh` included.  The remaining hypotheses (`good`) are: `multi_a` only in tapscript
  with `k ≥ 1`; a child whose dissatisfaction enters the parent's satisfaction is `disOK` (not
  an `and_v` with a dissatisfiable right child, for which the satisfier builds a
  dissatisfaction while `ExtData::and_v` has `dissat_data: None`); `thresh` children have a
  dissatisfaction figure.  They are needed: `andv_dissat_undershoots` is a well-typed
  counter-example of the faithful model without them (on the real library that input trips
  `assert!(!l_dis.has_sig)` in `sat_dissat.rs` instead — reported under C11).
* T2 `script_size_eq`, `script_num_size_eq`, `has_free_verify_eq`, and `pk_cost_eq`:
  `pk_cost` (the figure the script-size limits are checked against) = script size, plus a
  documented over-estimate for `multi_a`.
* T3 `static_ops_eq`, `opcount_partial`.
-/
import MsVerif.Lemmas.BoundsInduct
import MsVerif.Lemmas.BoundsSize
import MsVerif.Lemmas.BoundsOps
import MsVerif.Model.TypeCheck
import MsVerif.Model.ExtApi
import MsVerif.Model.Lift

namespace MsVerif.C09
open MsVerif ExtData

/-! ## T1: witness count / size / scriptSig size -/

/-- T1 (satisfactions).  `good`: see its doc comment; `AssetsOk` says what the caller hands in
has the sizes the library assumes (Schnorr signatures 64/65 bytes, keys revealed for raw
`pk_h` hashes compressed in Bare/Legacy). -/
theorem witness_bounds_partial (ke : KeyEnv) (ctx : Ctx) (mall rootHasSig : Bool) (a : Assets)
    (ha : AssetsOk ke ctx a) (ms : Ms) (hg : good ke ctx ms = true) (w : List Ph)
    (h : (satDissat ⟨ke, ctx, mall, rootHasSig, a⟩ ms).sat.stack = .stack w) :
    ∃ d, (extOf ke ctx ms).satData = some d ∧ w.length ≤ d.wCount
      ∧ (w.map Ph.size).sum ≤ d.wSize ∧ (ctx ≠ .tap → (w.map phSs).sum ≤ d.ssSize) := by
  obtain ⟨d, hd, c1, c2, c3⟩ := (bound_ms ke ctx mall rootHasSig a ha ms hg).1 w h
  exact ⟨d, hd, c1, c2, fun hc => c3 (by simp [ess, hc])⟩

/-- T1 (dissatisfactions): the same for `dissat_data`, for every `disOK` fragment. -/
theorem dissat_bounds_partial (ke : KeyEnv) (ctx : Ctx) (mall rootHasSig : Bool) (a : Assets)
    (ha : AssetsOk ke ctx a) (ms : Ms) (hg : good ke ctx ms = true)
    (hd : disOK ms = true) (w : List Ph)
    (h : (satDissat ⟨ke, ctx, mall, rootHasSig, a⟩ ms).dissat.stack = .stack w) :
    ∃ d, (extOf ke ctx ms).dissatData = some d ∧ w.length ≤ d.wCount
      ∧ (w.map Ph.size).sum ≤ d.wSize ∧ (ctx ≠ .tap → (w.map phSs).sum ≤ d.ssSize) := by
  obtain ⟨d, hd', c1, c2, c3⟩ := (bound_ms ke ctx mall rootHasSig a ha ms hg).2 hd w h
  exact ⟨d, hd', c1, c2, fun hc => c3 (by simp [ess, hc])⟩

/-- the witness size the library's `util::witness_size` would report is bounded likewise -/
theorem witness_size_le (ke : KeyEnv) (ctx : Ctx) (mall rootHasSig : Bool) (a : Assets)
    (ha : AssetsOk ke ctx a) (ms : Ms) (hg : good ke ctx ms = true) (w : List Ph)
    (h : (satDissat ⟨ke, ctx, mall, rootHasSig, a⟩ ms).sat.stack = .stack w) :
    ∃ d, (extOf ke ctx ms).satData = some d ∧ witnessSize w ≤ d.wSize + varintLen w.length := by
  obtain ⟨d, hd, _, c2, _⟩ := witness_bounds_partial ke ctx mall rootHasSig a ha ms hg w h
  exact ⟨d, hd, by simp only [witnessSize]; omega⟩

/-! ### the public accessors and declarations (`Model/ExtApi.lean`, `Model/Lift.lean`) -/

/-- `max_satisfaction_size()` and `max_satisfaction_witness_elements()` are defined and bound
every produced satisfaction: the serialized witness items in Segwitv0 / Tap, the scriptSig pushes
in Legacy / Bare, and the element count plus one for the witness script. -/
theorem max_satisfaction_accessors_bound (ke : KeyEnv) (ctx : Ctx) (mall rootHasSig : Bool) (a : Assets)
    (ha : AssetsOk ke ctx a) (ms : Ms) (hg : good ke ctx ms = true) (w : List Ph)
    (h : (satDissat ⟨ke, ctx, mall, rootHasSig, a⟩ ms).sat.stack = .stack w) :
    ∃ m e, maxSatSize ctx (extOf ke ctx ms) = some m ∧ maxSatWitnessElements (extOf ke ctx ms) = some e
      ∧ w.length + 1 ≤ e
      ∧ ((ctx = .segwitv0 ∨ ctx = .tap) → (w.map Ph.size).sum ≤ m)
      ∧ ((ctx = .legacy ∨ ctx = .bare) → (w.map phSs).sum ≤ m) := by
  obtain ⟨d, hd, c1, c2, c3⟩ := witness_bounds_partial ke ctx mall rootHasSig a ha ms hg w h
  have c3' : ctx ≠ .tap → (w.map phSs).sum ≤ d.ssSize := c3
  clear c3 ha hg h
  cases ctx
  all_goals
    refine ⟨_, _, by rw [maxSatSize, hd]; rfl, by rw [maxSatWitnessElements, hd]; rfl,
      by show w.length + 1 ≤ d.wCount + 1; omega, fun hc => ?_, fun hc => ?_⟩
    all_goals first
      | exact c2
      | exact c3' (by decide)
      | (rcases hc with hc | hc <;> cases hc)

/-- a script the library declares `within_resource_limits` in Segwitv0 yields at most 100
witness items (script included), in Legacy a scriptSig of at most 1650 bytes of pushes -/
theorem within_resource_limits_items (ke : KeyEnv) (ctx : Ctx) (mall rootHasSig : Bool) (a : Assets)
    (ha : AssetsOk ke ctx a) (ms : Ms) (hg : good ke ctx ms = true) (w : List Ph)
    (h : (satDissat ⟨ke, ctx, mall, rootHasSig, a⟩ ms).sat.stack = .stack w)
    (hl : Lift.withinResourceLimits ke ctx ms = true) :
    (ctx = .segwitv0 → w.length + 1 ≤ 100) ∧ (ctx = .legacy → (w.map phSs).sum ≤ 1650) := by
  obtain ⟨d, hd, c1, c2, c3⟩ := witness_bounds_partial ke ctx mall rootHasSig a ha ms hg w h
  simp only [Lift.withinResourceLimits, Bool.and_eq_true] at hl
  have hp := hl.2
  constructor
  · rintro rfl
    simp only [Lift.localPolicyOk, hd] at hp
    simp [Lift.MAX_STANDARD_P2WSH_STACK_ITEMS] at hp
    omega
  · rintro rfl
    simp only [Lift.localPolicyOk, hd] at hp
    have := c3 (by decide)
    simp [Lift.MAX_SCRIPTSIG_SIZE] at hp
    omega

/-- `validate` under the witness-item limit of `Segwitv0::SANE`: accepted scripts yield at most
100 witness items (script included) -/
theorem sane_resource_check_items (ke : KeyEnv) (mall rootHasSig : Bool) (a : Assets)
    (ha : AssetsOk ke .segwitv0 a) (ms : Ms) (hg : good ke .segwitv0 ms = true) (w : List Ph)
    (h : (satDissat ⟨ke, .segwitv0, mall, rootHasSig, a⟩ ms).sat.stack = .stack w)
    (hv : resourceCheck (resourceOnly (Ctx.SANE .segwitv0)) (scriptSize ke .segwitv0 ms)
      (extOf ke .segwitv0 ms) = .ok ()) :
    w.length + 1 ≤ 100 := by
  obtain ⟨d, hd, c1, _, _⟩ := witness_bounds_partial ke .segwitv0 mall rootHasSig a ha ms hg w h
  simp only [resourceCheck, hd, chk] at hv
  split at hv
  · cases hv
  · split at hv
    · cases hv
    · rename_i hn
      simp [resourceOnly, Ctx.SANE, MAX_STANDARD_P2WSH_STACK_ITEMS] at hn
      omega

/-- the statement one would like (every well-typed fragment, no side conditions on it) -/
def witness_bounds_full : Prop :=
  ∀ (ke : KeyEnv) (ctx : Ctx) (mall rootHasSig : Bool) (a : Assets) (ms : Ms) (w : List Ph),
    AssetsOk ke ctx a → (typeOf ms).isSome = true →
    (satDissat ⟨ke, ctx, mall, rootHasSig, a⟩ ms).sat.stack = .stack w →
    ∃ d, (extOf ke ctx ms).satData = some d ∧ w.length ≤ d.wCount ∧ (w.map Ph.size).sum ≤ d.wSize

/-! ### concrete environment for examples and for the counter-example -/

/-- keys 0..99 compressed (33 bytes), 100.. uncompressed (65 bytes) -/
def ke0 : KeyEnv where
  ser k := if k < 100 then List.replicate 33 2 else List.replicate 65 4
  sortKey _ := []
  pkh _ := List.replicate 20 0
  rawPkh _ := List.replicate 20 0
  hashVal _ _ := List.replicate 32 0

/-- signatures for the listed keys, every relative lock met, nothing else -/
def assets0 (keys : List Key) : Assets where
  ecdsaSig k := keys.contains k
  schnorrSig k := if keys.contains k then some 65 else none
  rawPkhPk _ := none
  rawPkhEcdsa _ := none
  rawPkhSchnorr _ := none
  preimage _ _ := false
  checkOlder _ := true
  checkAfter _ := false

theorem assets0_ok (ctx : Ctx) (keys : List Key) : AssetsOk ke0 ctx (assets0 keys) where
  schnorr k sz h := by simp only [assets0] at h; split at h <;> simp_all
  rawSchnorr _ _ _ h := by simp [assets0] at h
  rawPk _ _ h := by simp [assets0] at h
  rawEcdsa _ _ h := by simp [assets0] at h

/-- `or_d(or_i(c:raw_pkh(0),and_v(v:pk(1),pk(2))),pk(3))` -/
def msAndVDis : Ms :=
  .orD (.orI (.check (.rawPkH 0)) (.andV (.verify (.check (.pkK 1))) (.check (.pkK 2)))) (.check (.pkK 3))

/-- Why `disOK` is needed.  Malleable mode, signatures for keys 1 and 3, key of the raw hash
unknown: the model satisfier dissatisfies the `or_i` through its `and_v` branch (`[0, sig1, 0]`),
for which `ExtData` has no figure; the `or_d` figure 147 then only covers the other
alternatives, the produced stack has size 148. -/
theorem andv_dissat_undershoots :
    (typeOf msAndVDis).isSome = true
    ∧ (satDissat ⟨ke0, .segwitv0, true, true, assets0 [1, 3]⟩ msAndVDis).sat.stack
        = .stack [.ecdsaSig 3, .pushZero, .ecdsaSig 1, .pushZero]
    ∧ (extOf ke0 .segwitv0 msAndVDis).satData = some ⟨147, 4, 147, 2, 0⟩
    ∧ (147 : Nat) < ([Ph.ecdsaSig 3, Ph.pushZero, Ph.ecdsaSig 1, Ph.pushZero].map Ph.size).sum := by decide

theorem witness_bounds_full_false : ¬ witness_bounds_full := by
  intro h
  obtain ⟨ht, h1, h2, h3⟩ := andv_dissat_undershoots
  obtain ⟨d, hd, _, hs⟩ := h ke0 .segwitv0 true true (assets0 [1, 3]) msAndVDis _ (assets0_ok _ _) ht h1
  rw [h2] at hd
  cases hd
  exact absurd hs (by decide)

/-- the inputs that violated the bound before the fixes now satisfy `good`: `dv:older(1)`,
`c:pk_h(<uncompressed>)`, `thresh(1,pk,a:l:n:after(1),a:l:n:after(1))` (negative differences),
`or_d(thresh(1,and_b(pk,s:pk),a:0),pk)` (a child without satisfaction figure) -/
example : good ke0 .segwitv0 (.dupIf (.verify (.older 1))) = true
    ∧ good ke0 .legacy (.check (.pkH 100)) = true
    ∧ good ke0 .segwitv0 (.thresh 1 (.cons (.check (.pkK 0))
        (.cons (.alt (.orI .fls (.zeroNotEqual (.after 1))))
        (.cons (.alt (.orI .fls (.zeroNotEqual (.after 1)))) .nil)))) = true
    ∧ good ke0 .segwitv0 (.orD (.thresh 1 (.cons (.andB (.check (.pkK 0)) (.swap (.check (.pkK 1))))
        (.cons (.alt .fls) .nil))) (.check (.pkK 2))) = true := by decide

/-- non-vacuity of T1: a script with `thresh`, `multi`, hashes, `or_i`, `andor`, `d:` satisfies `good` -/
example : good ke0 .segwitv0
    (.andOr (.thresh 2 (.cons (.check (.pkK 0)) (.cons (.swap (.check (.pkK 1)))
        (.cons (.alt (.hash .sha256 0)) .nil))))
      (.orI (.multi 2 [3, 4, 5]) (.andV (.verify (.check (.pkH 6))) (.dupIf (.verify (.older 144)))))
      (.check (.pkK 7))) = true := by decide

/-! ## T2: the script size is exact -/

/-- T2.  `Miniscript::script_size` equals the length of the encoded script, for every fragment
whose numbers are `u32`s, whose `thresh` nodes have a child, and whose key / hash byte strings
have the lengths the context prescribes (`sizeOk`).  Uncompressed keys included: `script_size`
uses `Ctx::pk_len` (66). -/
theorem script_size_eq (ke : KeyEnv) (ctx : Ctx) (ms : Ms) (h : sizeOk ke ctx ms = true) :
    scriptSize ke ctx ms = (Script.serialize (encode ke ctx ms)).length :=
  scriptSize_eq ke ctx ms h

/-- `script_num_size` is the byte size of `push_int`, on all of `u32` (boundaries 16/17, 127/128,
32767/32768, 8388607/8388608, 2^31-1/2^31) -/
theorem script_num_size_eq (n : Nat) (h : n < 4294967296) :
    scriptNumSize n = (pushInt n).bytes.length := (pushInt_len n h).symm

/-- `has_free_verify` holds exactly when the encoding ends in an opcode `push_verify` fuses with -/
theorem has_free_verify_eq (ke : KeyEnv) (ctx : Ctx) (ms : Ms) :
    (extOf ke ctx ms).hasFreeVerify = endsFusable (encode ke ctx ms) := hfv_eq ke ctx ms

example : sizeOk ke0 .legacy
    (.andV (.verify (.check (.pkK 100))) (.orI (.thresh 2 (.cons (.check (.pkK 0))
      (.cons (.swap (.check (.pkH 1))) (.cons (.alt (.hash .sha256 0)) .nil)))) (.after 8388608))) = true := by
  decide

/-- `pk_cost`, the figure `check_global_consensus_validity` compares with the script-size
limits, equals `script_size` — uncompressed keys included — except that `multi_a`'s `num_cost`
table over-estimates by one byte when `n > 16 ≥ k` or `16 < k ≤ 127` (`costSlack`).  Hence
`script_size ≤ pk_cost` always, and `=` for scripts without `multi_a`. -/
theorem pk_cost_eq (ke : KeyEnv) (ctx : Ctx) (ms : Ms) (h : costOk ke ctx ms = true) :
    (extOf ke ctx ms).pkCost = scriptSize ke ctx ms + costSlack ms := pkCost_eq ke ctx ms h

theorem pk_cost_ge_encoded_length (ke : KeyEnv) (ctx : Ctx) (ms : Ms) (h1 : costOk ke ctx ms = true)
    (h2 : sizeOk ke ctx ms = true) :
    (Script.serialize (encode ke ctx ms)).length ≤ (extOf ke ctx ms).pkCost := by
  rw [pk_cost_eq ke ctx ms h1, script_size_eq ke ctx ms h2]; omega

example : costOk ke0 .legacy (.andV (.verify (.check (.pkK 100))) (.orI (.multi 2 [100, 0, 1])
      (.thresh 1 (.cons (.check (.pkK 0)) (.cons (.swap (.check (.pkH 101))) .nil))))) = true
    ∧ (extOf ke0 .legacy (.check (.pkK 100))).pkCost = 67 := by decide

/-! ## T3: executed opcodes -/

/-- `static_ops` is the number of non-push opcodes of the encoded script (no `multi_a`, whose
`static_ops` the library leaves at 0 because tapscript has no opcode limit) -/
theorem static_ops_eq (ke : KeyEnv) (ctx : Ctx) (ms : Ms) (h : opsOk ms = true) :
    (extOf ke ctx ms).staticOps = codeCount (encode ke ctx ms) := staticOps_eq ke ctx ms h

/-- T3 for scripts without `multi`: on ANY witness and in any environment, every run of the
encoded script that does not fail ends with Core's `nOpCount` = `static_ops` (every non-push
opcode counts, executed or not), hence `≤ static_ops + max_exec_op_count`, the figure compared
with `MAX_OPS_PER_SCRIPT`. -/
theorem opcount_partial (env : Script.Env) (ke : KeyEnv) (ctx : Ctx) (ms : Ms)
    (h1 : opsOk ms = true) (h2 : multiFree ms = true) (s s' : Script.State)
    (hrun : Script.run env (encode ke ctx ms) s = .ok s') :
    s'.core.ops = s.core.ops + (extOf ke ctx ms).staticOps
    ∧ ∀ d, (extOf ke ctx ms).satData = some d →
        s'.core.ops ≤ s.core.ops + ((extOf ke ctx ms).staticOps + d.execOps) := by
  have hall : (encode ke ctx ms).all (fun op => !isMultisig op) = true := by
    rw [List.all_eq_true]; intro op hop; simp [encode_noMs ke ctx ms h2 op hop]
  have := run_ops (encode ke ctx ms) s s' hall hrun
  rw [← static_ops_eq ke ctx ms h1] at this
  exact ⟨this, fun d _ => by omega⟩

/-- the full statement: also with `multi`, where each EXECUTED CHECKMULTISIG adds its number of
keys; decided on every run by the `J bound` judge (`ops`), not proved -/
def opcount_full : Prop :=
  ∀ (env : Script.Env) (ke : KeyEnv) (ctx : Ctx) (ms : Ms) (stack : List Script.Bytes) (s' : Script.State)
    (d : SatData), ctx ≠ .tap → (typeOf ms).isSome = true → (extOf ke ctx ms).satData = some d →
    Script.run env (encode ke ctx ms) (Script.State.init stack) = .ok s' →
    s'.core.ops ≤ (extOf ke ctx ms).staticOps + d.execOps

example : opsOk (.andOr (.check (.pkK 0)) (.orI (.hash .sha256 0) (.andV (.verify (.check (.pkH 6))) (.older 144)))
    (.thresh 1 (.cons (.check (.pkK 1)) (.cons (.swap (.check (.pkK 2))) .nil)))) = true
  ∧ multiFree (.andOr (.check (.pkK 0)) (.orI (.hash .sha256 0) (.andV (.verify (.check (.pkH 6))) (.older 144)))
    (.thresh 1 (.cons (.check (.pkK 1)) (.cons (.swap (.check (.pkK 2))) .nil)))) = true := by decide

/-! ## T5: limits — judged on every run, not proved

`limits_full`: a script the library declares within the limits of its context
(`check_local_validity`) is accepted by the Script semantics with all limits enabled (ops ≤ 201,
stack + altstack ≤ 1000, elements ≤ 520) and its produced satisfactions respect the script-size,
witness-item and scriptSig-size limits.  Decided for every satisfaction the library produces by
the `J bound` lines (`lim=1` ⇒ executed with `Flags.opLimit`/`stackLimits` on; peak depth from
`runPeak`).  `max_exec_stack_count` is known to be inexact (CHECKMULTISIG's pushes of k and n,
the accumulator during a `thresh` dissatisfaction), which is why no theorem is attempted. -/

end MsVerif.C09

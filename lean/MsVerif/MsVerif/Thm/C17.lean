/-
C17 — Spending plans are faithful to the satisfier and report exact time locks.

Model functions ↔ Rust (Model/Plan.lean, Model/Satisfy.lean, Lemmas/PlanLocks.lean):
  intoPlan ↔ Descriptor::into_plan{,_mall}        PlanM.satisfy / planSatisfy ↔ Plan::satisfy
  descGetSatisfaction / getSatisfaction ↔ Descriptor::get_satisfaction{,_mall}
  keyTemplate / keyGetSatisfaction ↔ Pkh/Wpkh::{plan_satisfaction, get_satisfaction}
  witnessToScriptSig ↔ util::witness_to_scriptsig  scriptsigSize/witnessSize ↔ Plan::{scriptsig_size, witness_size}
  isKeyDirectChildOf / hasEcdsaKey ↔ plan::is_key_direct_child_of / Assets::has_ecdsa_key
  tSatDissat ↔ Satisfaction::sat_dissat carrying, next to every (dis)satisfaction, the list of
               `after` / `older` values of the fragments that (dis)satisfaction executes
The plan path and the descriptor path run the same `sat_dissat`; the T1 theorems are about
the glue and hold for EVERY template `t : Sat`.

Findings proved here as negations on concrete witnesses (the full statements stay as
`def …_full : Prop`):  F9 (`Plan::satisfy` for `sh(<miniscript>)` drops the redeem script and
pushes `[1]` non-minimally), F7 (`is_key_direct_child_of` panics on an origin-less key), and
three size formulas that undershoot.
-/
import MsVerif.Model.Plan
import MsVerif.Lemmas.PlanLocks

namespace MsVerif.C17
open MsVerif MsVerif.Plan MsVerif.Script MsVerif.PlanLocks MsVerif.Sat

/-! ## T1 — a plan exists exactly when the satisfier succeeds, and completes to the same bytes -/

/-- T1a: for every descriptor type and every template, `into_plan` returns a plan iff
`get_satisfaction` does not return `Err`; and `get_satisfaction` panics (the `expect` after
`try_completing`) exactly when a plan exists that the satisfier cannot complete. -/
theorem plan_iff_satisfy (d : DescData) (r : Ph → Option Bytes) (t : Sat) :
    ((intoPlan t).isSome ↔ descGetSatisfaction d r t ≠ .err) ∧
    (descGetSatisfaction d r t = .panic ↔
      ∃ p, intoPlan t = some p ∧ p.satisfy d r = none) := by
  unfold intoPlan descGetSatisfaction msSatisfy PlanM.satisfy
  cases h : t.stack with
  | stack l => cases hc : complete r l <;> simp [hc]
  | unavailable => simp
  | impossible => simp

/-- T1a with the completion hypothesis (every placeholder of a template built from the
provider view of a satisfier can be produced by that satisfier): plan ⇔ `Ok`. -/
theorem plan_iff_satisfy_ok (d : DescData) (r : Ph → Option Bytes) (t : Sat)
    (hc : ∀ l, t.stack = .stack l → (complete r l).isSome) :
    (intoPlan t).isSome ↔ ∃ x, descGetSatisfaction d r t = .ok x := by
  unfold intoPlan descGetSatisfaction msSatisfy
  cases h : t.stack with
  | stack l =>
    have := hc l h
    cases hcl : complete r l with
    | none => simp [hcl] at this
    | some bs => simp [hcl]
  | unavailable => simp
  | impossible => simp

/-- T1b (assembly): `Plan::satisfy` and `get_satisfaction` build the same (witness, scriptSig)
from the same completed stack for every descriptor type except `sh(<miniscript>)`; for `bare`
provided no stack item is a non-empty minimal script number (bare descriptors are `pk`,
`pkh`, `multi`: signatures, keys and the empty dummy only). -/
theorem plan_satisfy_eq_partial (d : DescData) (stack : List Bytes) (hsh : d.ty ≠ .sh)
    (hbare : d.ty = .bare → ∀ b ∈ stack, b = [] ∨ readScriptInt b = none) :
    planSatisfy d stack = getSatisfaction d stack := by
  unfold planSatisfy getSatisfaction
  cases hty : d.ty <;> simp_all [DescData.unsignedScriptSig, witnessToScriptSig]
  exact flatMap_congr_mem _ _ _ (fun b hb => (w2ssItem_eq_pushSlice b (hbare b hb)).symm)

/-- the full statement of T1b — FALSE of the current code -/
def plan_satisfy_eq_full : Prop :=
  ∀ (d : DescData) (stack : List Bytes), planSatisfy d stack = getSatisfaction d stack

/-- F9: for `sh(<miniscript>)` the plan's scriptSig lacks the redeem script
(`sh(1)`-shaped witness: empty stack, redeem script `OP_1`) -/
theorem plan_satisfy_eq_full_false : ¬ plan_satisfy_eq_full := by
  intro h
  have := h ⟨.sh, [0x51], []⟩ []
  revert this
  decide

/-- F9, second half: even the pushes that ARE made differ — `Plan::satisfy` pushes the item
`[1]` (`PushOne`, e.g. the `or_i` selector) as `01 01`, the descriptor path as `OP_1` -/
theorem plan_satisfy_pushes_one_non_minimally :
    (planSatisfy ⟨.sh, [], []⟩ [[1]]).2 = [0x01, 0x01] ∧
    witnessToScriptSig [[1]] = [0x51] := by decide

/-- T1b for the repaired glue (`witness_to_scriptsig` on `stack (++ redeem script)`):
all eight descriptor types, every stack -/
theorem plan_satisfy_eq_fixed (d : DescData) (stack : List Bytes) :
    planSatisfyFixed d stack = getSatisfaction d stack := by
  unfold planSatisfyFixed planSatisfy getSatisfaction
  cases hty : d.ty <;> simp [DescData.unsignedScriptSig, hty]

/-- T1 end to end on the model: whenever `get_satisfaction` returns `Ok x`, a plan exists and
completing it (repaired glue) returns exactly `x`; with the current glue the same holds
outside `sh(<miniscript>)` under the `bare` side condition. -/
theorem plan_satisfy_eq (d : DescData) (r : Ph → Option Bytes) (t : Sat) (x : List Bytes × Bytes)
    (h : descGetSatisfaction d r t = .ok x) :
    ∃ p, intoPlan t = some p ∧ p.abs = t.abs ∧ p.rel = t.rel ∧ p.satisfyFixed d r = some x ∧
      (d.ty ≠ .sh → (d.ty = .bare → ∀ l, complete r p.template = some l →
          ∀ b ∈ l, b = [] ∨ readScriptInt b = none) → p.satisfy d r = some x) := by
  unfold descGetSatisfaction msSatisfy at h
  cases hs : t.stack with
  | stack l =>
    rw [hs] at h
    cases hc : complete r l with
    | none => simp [hc] at h
    | some bs =>
      simp only [hc] at h
      injection h with h
      refine ⟨⟨l, t.abs, t.rel⟩, by simp [intoPlan, hs], rfl, rfl, ?_, ?_⟩
      · simp [PlanM.satisfyFixed, hc, plan_satisfy_eq_fixed, h]
      · intro hsh hbare
        simp only [PlanM.satisfy, hc, Option.map_some]
        rw [plan_satisfy_eq_partial d bs hsh (fun hb => hbare hb bs hc), h]
  | unavailable => rw [hs] at h; simp at h
  | impossible => rw [hs] at h; simp at h

example : descGetSatisfaction ⟨.wsh, [0xac], []⟩ (fun _ => some [7]) ⟨.stack [.ecdsaSig 0], true, none, some 10⟩
    = .ok ([[7], [0xac]], []) := by decide

/-- T1 for the single-key descriptors (`pkh`, `wpkh`, `sh(wpkh)`): a plan exists iff the
provider has the key; the satisfier succeeds iff it has a signature; with the provider being
the view of the satisfier (`avail = sig.isSome`) the two coincide and the plan completes to
the same bytes. -/
theorem key_plan_iff_satisfy_eq (d : DescData) (hty : d.ty = .pkh ∨ d.ty = .wpkh ∨ d.ty = .shWpkh)
    (k : Key) (n : Nat) (sig : Option Bytes) (pk : Bytes) (r : Ph → Option Bytes)
    (hsig : r (.ecdsaSig k) = sig) (hpk : r (.pubkey k n) = some pk) :
    ((intoPlan (keyTemplate k n sig.isSome)).isSome ↔ ∃ x, keyGetSatisfaction d sig pk = .ok x) ∧
    ∀ p, intoPlan (keyTemplate k n sig.isSome) = some p →
      (p.satisfy d r).map Outcome.ok = some (keyGetSatisfaction d sig pk) := by
  cases sig with
  | none => simp [keyTemplate, intoPlan, keyGetSatisfaction]
  | some s =>
    refine ⟨by simp [keyTemplate, intoPlan, keyGetSatisfaction], ?_⟩
    intro p hp
    simp only [keyTemplate, intoPlan, Option.isSome_some, if_true, Option.some.injEq] at hp
    subst hp
    have hc : complete r [Ph.ecdsaSig k, Ph.pubkey k n] = some [s, pk] := by
      simp [complete, hsig, hpk]
    simp only [PlanM.satisfy, hc, keyGetSatisfaction, Option.map_some]
    rcases hty with h | h | h <;>
      simp [planSatisfy, getSatisfaction, h]

example : keyGetSatisfaction ⟨.shWpkh, [], [0, 20]⟩ (some [9]) [2] = .ok ([[9], [2]], [2, 0, 20]) := by decide

/-! ## T2 / T3 — the reported time locks are sufficient and necessary

`tSatDissat c ms` is `satDissat c ms` (first conjunct of T2: erasure) carrying for every
(dis)satisfaction the lists `A` / `R` of the `after` / `older` values of the fragments that
this (dis)satisfaction executes.  `checkLockTime` / `checkSequence` are the BIP65 / BIP112
comparisons of the trusted Script spec. -/

/-- T2: for every script, asset set and mode — a transaction whose nLockTime equals the
reported absolute lock (sequence not final) passes CHECKLOCKTIMEVERIFY for EVERY `after`
the returned satisfaction executes; a transaction (version ≥ 2) whose nSequence has the
reported relative lock's unit and value, disable flag clear, passes CHECKSEQUENCEVERIFY for
every `older` it executes; and when no lock is reported, none is executed. -/
theorem locks_sufficient (c : SatCfg) (ms : Ms) (env : Script.Env) :
    (tSatDissat c ms).sat.s = (satDissat c ms).sat ∧
    (∀ m, (satDissat c ms).sat.abs = some m → env.nLockTime = m → env.nSequence ≠ SEQ_FINAL →
        ∀ n ∈ (tSatDissat c ms).sat.A, checkLockTime env n = true) ∧
    ((satDissat c ms).sat.abs = none → (tSatDissat c ms).sat.A = []) ∧
    (∀ m, (satDissat c ms).sat.rel = some m → seqMasked env.nSequence = seqMasked m →
        (env.nSequence / SEQ_DISABLE) % 2 = 0 → env.txVersion ≥ 2 →
        ∀ n ∈ (tSatDissat c ms).sat.R, checkSequence env n = true) ∧
    ((satDissat c ms).sat.rel = none → (tSatDissat c ms).sat.R = []) := by
  have hs := (tSatDissat_s c ms).2
  have hi := (tSatDissat_inv c ms).2
  rw [← hs]
  refine ⟨rfl, ?_, ?_, ?_, ?_⟩
  · intro m hm hlt hsq n hn
    have h := hi.1
    simp only [hm, AbsInv] at h
    have := h.2 n hn
    simp only [checkLockTime, Bool.and_eq_true, Bool.or_eq_true,
      decide_eq_true_eq, bne_iff_ne, ne_eq]
    simp only [LOCKTIME_THRESHOLD, hlt]
    refine ⟨⟨?_, this.2⟩, hsq⟩
    omega
  · intro hm
    have h := hi.1
    simpa only [hm, AbsInv] using h
  · intro m hm hsm hdis hv n hn
    have h := hi.2
    simp only [hm, RelInv] at h
    have := h.2 n hn
    simp only [relIsTime, relVal] at this
    simp only [SEQ_DISABLE] at hdis
    have h1 : (n / 4194304 % 2 = 1) ↔ (m / 4194304 % 2 = 1) := by
      have h0 := this.1
      rw [Bool.eq_iff_iff] at h0
      simpa using h0
    have h2 := this.2
    simp only [checkSequence, Bool.and_eq_true, Bool.or_eq_true, decide_eq_true_eq, beq_iff_eq]
    simp only [hsm]
    simp only [SEQ_DISABLE, seqMasked, SEQ_TYPE, SEQ_MASK]
    refine ⟨⟨hv, hdis⟩, ?_, ?_⟩ <;> omega
  · intro hm
    have h := hi.2
    simpa only [hm, RelInv] using h

/-- T3: the reported lock is ATTAINED — it is itself one of the `after` (`older`) values the
satisfaction executes — hence necessary: every transaction that passes all of them has the
reported lock's unit and a value ≥ it (and a non-final resp. enabled sequence, version ≥ 2). -/
theorem locks_necessary (c : SatCfg) (ms : Ms) (env : Script.Env) :
    (∀ m, (satDissat c ms).sat.abs = some m → m ∈ (tSatDissat c ms).sat.A ∧
        ((∀ n ∈ (tSatDissat c ms).sat.A, checkLockTime env n = true) →
          (env.nLockTime < 500000000 ↔ m < 500000000) ∧ m ≤ env.nLockTime ∧
          env.nSequence ≠ SEQ_FINAL)) ∧
    (∀ m, (satDissat c ms).sat.rel = some m → m ∈ (tSatDissat c ms).sat.R ∧
        ((∀ n ∈ (tSatDissat c ms).sat.R, checkSequence env n = true) →
          env.txVersion ≥ 2 ∧ (env.nSequence / SEQ_DISABLE) % 2 = 0 ∧
          (relIsTime env.nSequence = relIsTime m) ∧ relVal m ≤ relVal env.nSequence)) := by
  have hs := (tSatDissat_s c ms).2
  have hi := (tSatDissat_inv c ms).2
  rw [← hs]
  constructor
  · intro m hm
    have h := hi.1
    simp only [hm, AbsInv] at h
    refine ⟨h.1, fun hall => ?_⟩
    have := hall m h.1
    simp only [checkLockTime, Bool.and_eq_true, Bool.or_eq_true,
      decide_eq_true_eq, bne_iff_ne, ne_eq] at this
    simp only [LOCKTIME_THRESHOLD] at this
    refine ⟨?_, this.1.2, this.2⟩
    omega
  · intro m hm
    have h := hi.2
    simp only [hm, RelInv] at h
    refine ⟨h.1, fun hall => ?_⟩
    have := hall m h.1
    simp only [checkSequence, Bool.and_eq_true, Bool.or_eq_true, decide_eq_true_eq, beq_iff_eq] at this
    simp only [SEQ_DISABLE, seqMasked, SEQ_TYPE, SEQ_MASK] at this
    refine ⟨this.1.1, by simpa [SEQ_DISABLE] using this.1.2, ?_, ?_⟩
    · simp only [relIsTime]
      have h2 := this.2
      have : (env.nSequence / 4194304 % 2 = 1) ↔ (m / 4194304 % 2 = 1) := by omega
      rw [Bool.eq_iff_iff]
      simpa using this
    · simp only [relVal]; omega

/-- T3, the three ways to undercut a reported absolute lock all fail: a smaller nLockTime, an
nLockTime of the other unit, a final sequence (which disables nLockTime) -/
theorem locks_necessary_abs_variants_fail (c : SatCfg) (ms : Ms) (env : Script.Env) (m : Nat)
    (hm : (satDissat c ms).sat.abs = some m)
    (hbad : env.nLockTime < m ∨ ¬ (env.nLockTime < 500000000 ↔ m < 500000000) ∨
            env.nSequence = SEQ_FINAL) :
    ∃ n ∈ (tSatDissat c ms).sat.A, checkLockTime env n = false := by
  have h := ((locks_necessary c ms env).1 m hm)
  refine ⟨m, h.1, ?_⟩
  cases hc : checkLockTime env m with
  | false => rfl
  | true =>
    exfalso
    simp only [checkLockTime, Bool.and_eq_true, Bool.or_eq_true,
      decide_eq_true_eq, bne_iff_ne, ne_eq] at hc
    simp only [LOCKTIME_THRESHOLD] at hc
    rcases hbad with h1 | h1 | h1
    · omega
    · omega
    · exact hc.2 h1

/-- … and the same for a reported relative lock: smaller value, other unit, disabled sequence -/
theorem locks_necessary_rel_variants_fail (c : SatCfg) (ms : Ms) (env : Script.Env) (m : Nat)
    (hm : (satDissat c ms).sat.rel = some m)
    (hbad : relVal env.nSequence < relVal m ∨ relIsTime env.nSequence ≠ relIsTime m ∨
            (env.nSequence / SEQ_DISABLE) % 2 = 1 ∨ env.txVersion < 2) :
    ∃ n ∈ (tSatDissat c ms).sat.R, checkSequence env n = false := by
  have h := ((locks_necessary c ms env).2 m hm)
  refine ⟨m, h.1, ?_⟩
  cases hc : checkSequence env m with
  | false => rfl
  | true =>
    exfalso
    simp only [checkSequence, Bool.and_eq_true, Bool.or_eq_true, decide_eq_true_eq, beq_iff_eq] at hc
    simp only [SEQ_DISABLE, seqMasked, SEQ_TYPE, SEQ_MASK] at hc
    simp only [relVal, relIsTime, SEQ_DISABLE, ne_eq] at hbad
    rcases hbad with h1 | h1 | h1 | h1
    · omega
    · apply h1
      have : (env.nSequence / 4194304 % 2 = 1) ↔ (m / 4194304 % 2 = 1) := by omega
      rw [Bool.eq_iff_iff]
      simpa using this
    · omega
    · omega

/-! non-vacuity: `or_d(pk(1), and_v(v:pk(0), and_v(v:after(100), and_v(v:older(10), after(200)))))`
with a signature for key 0 only, locks up to 200 / 20 available: the reported locks are
200 / 10 and the executed lists are `[200, 100]` / `[10]`; with both keys the cheaper `pk(1)`
branch is taken and nothing is reported or executed. -/
def exAssets (keys : Key → Bool) : Assets :=
  { ecdsaSig := keys, schnorrSig := fun _ => none, rawPkhPk := fun _ => none,
    rawPkhEcdsa := fun _ => none, rawPkhSchnorr := fun _ => none, preimage := fun _ _ => false,
    checkOlder := fun n => n ≤ 20, checkAfter := fun n => n ≤ 200 }
def exKeyEnv : KeyEnv := ⟨fun _ => [], fun _ => [], fun _ => [], fun _ => [], fun _ _ => []⟩
def exCfg (keys : Key → Bool) : SatCfg := ⟨exKeyEnv, .segwitv0, false, true, exAssets keys⟩
def exMs : Ms :=
  .orD (.check (.pkK 1)) (.andV (.verify (.check (.pkK 0))) (.andV (.verify (.after 100))
    (.andV (.verify (.older 10)) (.after 200))))

example : (satDissat (exCfg (· == 0)) exMs).sat.abs = some 200 ∧
    (satDissat (exCfg (· == 0)) exMs).sat.rel = some 10 ∧
    (tSatDissat (exCfg (· == 0)) exMs).sat.A = [200, 100] ∧
    (tSatDissat (exCfg (· == 0)) exMs).sat.R = [10] := by decide
example : (satDissat (exCfg fun _ => true) exMs).sat.abs = none ∧
    (tSatDissat (exCfg fun _ => true) exMs).sat.A = [] := by decide

/-! ## T5 — key-source matching; `is_key_direct_child_of` is total under the guard -/

/-- F7: on an origin-less key (empty derivation path) and a source of the same fingerprint
with a non-empty path the current code evaluates `path[..(0 - 1)]`: panic -/
theorem is_key_direct_child_of_panics : isKeyDirectChildOf [] [1] = none := by decide

/-- … and it propagates through `Assets::has_ecdsa_key` (hence `into_plan`) -/
theorem has_ecdsa_key_panics : hasEcdsaKey isKeyDirectChildOf 7 [] [⟨7, [1], true⟩] = none := by decide

/-- the full statement "never panics" — FALSE of the current code -/
def is_key_direct_child_of_total_full : Prop := ∀ pk src, (isKeyDirectChildOf pk src).isSome

theorem is_key_direct_child_of_total_full_false : ¬ is_key_direct_child_of_total_full :=
  fun h => by have := h [] [1]; revert this; decide

/-- T5: with the guard (`definite_path_len > 0 &&`) the function is total and decides exactly
the documented relation: the source path is the key's path or the key's path minus its last
child number -/
theorem is_key_direct_child_of_fixed_spec (pk src : List Nat) :
    ∃ b, isKeyDirectChildOfFixed pk src = some b ∧
      (b = true ↔ (pk = src ∨ ∃ c, pk = src ++ [c])) := by
  unfold isKeyDirectChildOfFixed
  by_cases h : pk = src
  · exact ⟨true, by simp [h], by simp [h]⟩
  · refine ⟨decide (pk.length > 0) && src == pk.take (pk.length - 1), by simp only [h, if_false], ?_⟩
    rw [← take_pred_eq_iff]
    simp [h]

/-- the guard changes nothing where the current code does not panic -/
theorem is_key_direct_child_of_fixed_agrees (pk src : List Nat) (b : Bool)
    (h : isKeyDirectChildOf pk src = some b) : isKeyDirectChildOfFixed pk src = some b := by
  unfold isKeyDirectChildOf at h
  unfold isKeyDirectChildOfFixed
  by_cases h1 : pk = src
  · simp_all
  · by_cases h2 : pk.length = 0
    · simp_all
    · have : pk.length > 0 := Nat.pos_of_ne_zero h2
      simp_all

/-- T5: `Assets::has_ecdsa_key` with the guarded helper never panics and is the documented
predicate: some source can sign ECDSA, has the key's fingerprint, and its path is the key's
path or its parent -/
theorem has_ecdsa_key_fixed_spec (fp : Nat) (path : List Nat) (srcs : List KeySrc) :
    ∃ b, hasEcdsaKey isKeyDirectChildOfFixed fp path srcs = some b ∧
      (b = true ↔ ∃ s ∈ srcs, s.ecdsa = true ∧ s.fp = fp ∧
          (path = s.path ∨ ∃ c, path = s.path ++ [c])) := by
  induction srcs with
  | nil => exact ⟨false, rfl, by simp⟩
  | cons s rest ih =>
    obtain ⟨b, hb, hbs⟩ := ih
    obtain ⟨m, hm, hms⟩ := is_key_direct_child_of_fixed_spec path s.path
    unfold hasEcdsaKey
    by_cases hc : (s.ecdsa && s.fp == fp) = true
    · simp only [hc, if_true, hm]
      have hc' : s.ecdsa = true ∧ s.fp = fp := by simpa using hc
      cases m with
      | true =>
        refine ⟨true, rfl, ?_⟩
        simp only [true_iff]
        exact ⟨s, by simp, hc'.1, hc'.2, hms.mp rfl⟩
      | false =>
        refine ⟨b, hb, ?_⟩
        rw [hbs]
        constructor
        · rintro ⟨x, hx, h⟩; exact ⟨x, by simp [hx], h⟩
        · rintro ⟨x, hx, h⟩
          rcases List.mem_cons.mp hx with rfl | hx
          · exact absurd (hms.mpr h.2.2) (by simp)
          · exact ⟨x, hx, h⟩
    · simp only [hc]
      refine ⟨b, by simpa using hb, ?_⟩
      rw [hbs]
      constructor
      · rintro ⟨x, hx, h⟩; exact ⟨x, by simp [hx], h⟩
      · rintro ⟨x, hx, h⟩
        rcases List.mem_cons.mp hx with rfl | hx
        · exact absurd (by simp [h.1, h.2.1]) hc
        · exact ⟨x, hx, h⟩

example : hasEcdsaKey isKeyDirectChildOfFixed 7 [48, 0, 5] [⟨7, [48], true⟩, ⟨7, [48, 0], true⟩] = some true := by
  decide

/-! ## sizes — what the announced figures leave out (negations on concrete witnesses) -/

/-- the statement "announced sizes are upper bounds of the serialized sizes of the spend that
validates" — FALSE of the current code for `sh`, `wsh`, `sh(wsh)`, `sh(wpkh)` -/
def sizes_upper_bound_full : Prop :=
  ∀ (d : DescData) (t : List Ph) (stack : List Bytes),
    stack.length = t.length →
    (∀ i (h : i < t.length) (h' : i < stack.length), (stack[i]).length + 1 ≤ (t[i]).size) →
    serializedScriptSigSize (planSatisfyFixed d stack).2 ≤ scriptsigSize d.ty (t.map Item.ph) ∧
    serializedWitnessSize (planSatisfyFixed d stack).1 ≤ Plan.witnessSize d.ty (t.map Item.ph)

/-- `sh(wpkh)`: `scriptsig_size` says 23; the scriptSig `16 0014<20 bytes>` serializes to 24
bytes (the push opcode of the witness program is not counted).  Same for `sh(wsh)`: 35 vs 36. -/
theorem sh_segwit_scriptsig_size_off_by_one (d : DescData) (t : List Item)
    (h : (d.ty = .shWpkh ∧ d.inner.length = 22) ∨ (d.ty = .shWsh ∧ d.inner.length = 34)) :
    serializedScriptSigSize d.unsignedScriptSig = scriptsigSize d.ty t + 1 := by
  rcases h with ⟨h, hl⟩ | ⟨h, hl⟩ <;>
    simp [DescData.unsignedScriptSig, h, serializedScriptSigSize, pushSlice, pushPrefix, hl,
      scriptsigSize, DescType.segwitVersion, varintLen]

/-- `wsh`: `witness_size` is the size of the template only; the real witness has one more
item, the witness script -/
theorem wsh_witness_size_omits_script (d : DescData) (hty : d.ty = .wsh) (stack : List Bytes) :
    (planSatisfy d stack).1 = stack ++ [d.script] ∧
    ∀ t, Plan.witnessSize .wsh t = templateSize t := by
  constructor
  · simp [planSatisfy, hty]
  · intro t; simp [Plan.witnessSize, DescType.segwitVersion]

theorem sizes_upper_bound_full_false : ¬ sizes_upper_bound_full := by
  intro h
  -- wsh(1): empty template, witness = [script]
  have := (h ⟨.wsh, [0x51], []⟩ [] [] rfl (by intro i hi; simp at hi)).2
  revert this
  decide

end MsVerif.C17

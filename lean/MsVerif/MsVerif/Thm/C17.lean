/-
C17 — Spending plans are faithful to the satisfier and report exact time locks.

Model functions ↔ Rust (Model/Plan.lean, Model/Satisfy.lean, Lemmas/PlanLocks.lean):
  intoPlan ↔ Descriptor::into_plan{,_mall}        PlanM.satisfy / planSatisfy ↔ Plan::satisfy
  descGetSatisfaction / getSatisfaction ↔ Descriptor::get_satisfaction{,_mall}
  keyTemplate / keyGetSatisfaction ↔ Pkh/Wpkh::{plan_satisfaction, get_satisfaction}
  witnessToScriptSig ↔ util::witness_to_scriptsig  scriptsigSize/witnessSize ↔ Plan::{scriptsig_size, witness_size}
  isKeyDirectChildOf / hasEcdsaKey ↔ plan::is_key_direct_child_of / Assets::has_ecdsa_key (total)
  tSatDissat ↔ Satisfaction::sat_dissat carrying, next to every (dis)satisfaction, the list of
               `after` / `older` values of the fragments that (dis)satisfaction executes
The plan path and the descriptor path run the same `sat_dissat`; the T1 theorems are about
the glue and hold for EVERY template `t : Sat`.

History: the negations of T1b (F9: `Plan::satisfy` for `sh(<miniscript>)` dropped the redeem
script and pushed `[1]` non-minimally) and of T5 (F7: `is_key_direct_child_of` panicked on an
origin-less key) were proved here against the earlier code; both are fixed in /repo, the model
follows the fixed code and the theorems are now stated at full strength.  Still proved as
negations: three size formulas that undershoot (`wsh` / `sh(wsh)` witness script not counted,
`sh(wpkh)` / `sh(wsh)` scriptSig 23 / 35 instead of 24 / 36).
-/
import MsVerif.Model.Plan
import MsVerif.Lemmas.PlanLocks

namespace MsVerif.C17
open MsVerif MsVerif.Plan MsVerif.Script MsVerif.PlanLocks MsVerif.Sat

/-! ## T1 — a plan exists exactly when the satisfier succeeds, and completes to the same bytes -/

/-- T1a: for every descriptor type and every template, `into_plan` returns a plan iff
`get_satisfaction` does not return `Err`; and `get_satisfaction` panics (the `expect` after
`try_completing`) exactly when a plan exists that the satisfier cannot complete. -/
theorem plan_iff_satisfy (d : DescData) (r : Ph → Option Bytes) (t : Sat) :
    ((intoPlan t).isSome ↔ descGetSatisfaction d r t ≠ .err) ∧
    (descGetSatisfaction d r t = .panic ↔
      ∃ p, intoPlan t = some p ∧ p.satisfy d r = none) := by
  unfold intoPlan descGetSatisfaction msSatisfy PlanM.satisfy
  cases h : t.stack with
  | stack l => cases hc : complete r l <;> simp [hc]
  | unavailable => simp
  | impossible => simp

/-- T1a with the completion hypothesis (every placeholder of a template built from the
provider view of a satisfier can be produced by that satisfier): plan ⇔ `Ok`. -/
theorem plan_iff_satisfy_ok (d : DescData) (r : Ph → Option Bytes) (t : Sat)
    (hc : ∀ l, t.stack = .stack l → (complete r l).isSome) :
    (intoPlan t).isSome ↔ ∃ x, descGetSatisfaction d r t = .ok x := by
  unfold intoPlan descGetSatisfaction msSatisfy
  cases h : t.stack with
  | stack l =>
    have := hc l h
    cases hcl : complete r l with
    | none => simp [hcl] at this
    | some bs => simp [hcl]
  | unavailable => simp
  | impossible => simp

/-- T1b (assembly), all eight descriptor types: `Plan::satisfy` and `get_satisfaction` build
the same (witness, scriptSig) from the same completed stack.  Unconditional for bare, sh, wpkh,
sh-wpkh, wsh, sh-wsh, tr.  For `pkh` the descriptor path pushes signature and key with
`push_slice` / `push_key` while the plan goes through `witness_to_scriptsig`; they agree when
no item is a non-empty minimal script number — true of every signature and public key
(`readScriptInt_long`: anything longer than 4 bytes). -/
theorem plan_satisfy_eq (d : DescData) (stack : List Bytes)
    (hpkh : d.ty = .pkh → ∀ b ∈ stack, b = [] ∨ readScriptInt b = none) :
    planSatisfy d stack = getSatisfaction d stack := by
  unfold planSatisfy getSatisfaction
  cases hty : d.ty <;> simp_all [DescData.unsignedScriptSig, witnessToScriptSig]
  exact flatMap_congr_mem _ _ _ (fun b hb => w2ssItem_eq_pushSlice b (hpkh b hb))

/-- T1b without side condition for the seven types other than `pkh` -/
theorem plan_satisfy_eq_non_pkh (d : DescData) (stack : List Bytes) (h : d.ty ≠ .pkh) :
    planSatisfy d stack = getSatisfaction d stack :=
  plan_satisfy_eq d stack (fun hh => absurd hh h)

/-- the `sh(<miniscript>)` case spelled out: the redeem script is the last push and `[1]`
is pushed as `OP_1` (the two halves of the former finding F9) -/
theorem plan_satisfy_sh (script : Bytes) (stack : List Bytes) :
    planSatisfy ⟨.sh, script, []⟩ stack = ([], witnessToScriptSig (stack ++ [script])) ∧
    (planSatisfy ⟨.sh, [0xac], []⟩ [[1]]).2 = [0x51, 0x01, 0xac] := by
  constructor
  · rfl
  · decide

/-- T1 end to end for the miniscript-based types and `tr`: whenever `get_satisfaction`
returns `Ok x`, a plan exists, carries the template's locks, and completing it with the same
satisfier returns exactly `x`. -/
theorem plan_satisfy_eq_e2e (d : DescData) (hty : d.ty ≠ .pkh) (r : Ph → Option Bytes) (t : Sat)
    (x : List Bytes × Bytes) (h : descGetSatisfaction d r t = .ok x) :
    ∃ p, intoPlan t = some p ∧ p.abs = t.abs ∧ p.rel = t.rel ∧ p.satisfy d r = some x := by
  unfold descGetSatisfaction msSatisfy at h
  cases hs : t.stack with
  | stack l =>
    rw [hs] at h
    cases hc : complete r l with
    | none => simp [hc] at h
    | some bs =>
      simp only [hc] at h
      injection h with h
      refine ⟨⟨l, t.abs, t.rel⟩, by simp [intoPlan, hs], rfl, rfl, ?_⟩
      simp only [PlanM.satisfy, hc, Option.map_some]
      rw [plan_satisfy_eq_non_pkh d bs hty, h]
  | unavailable => rw [hs] at h; simp at h
  | impossible => rw [hs] at h; simp at h

example : descGetSatisfaction ⟨.wsh, [0xac], []⟩ (fun _ => some [7]) ⟨.stack [.ecdsaSig 0], true, none, some 10⟩
    = .ok ([[7], [0xac]], []) := by decide
example : descGetSatisfaction ⟨.sh, [0xac], []⟩ (fun p => if p = .pushOne then some [1] else some [9, 9, 9, 9, 9])
    ⟨.stack [.ecdsaSig 0, .pushOne], true, none, none⟩ = .ok ([], [5, 9, 9, 9, 9, 9, 0x51, 0x01, 0xac]) := by decide

/-- T1 for the single-key descriptors (`pkh`, `wpkh`, `sh(wpkh)`): a plan exists iff the
provider has the key; the satisfier succeeds iff it has a signature; with the provider being
the view of the satisfier (`avail = sig.isSome`) the two coincide and the plan completes to
the same bytes (`pkh`: signature and key longer than 4 bytes, as all are). -/
theorem key_plan_iff_satisfy_eq (d : DescData) (_hty : d.ty = .pkh ∨ d.ty = .wpkh ∨ d.ty = .shWpkh)
    (k : Key) (n : Nat) (sig : Option Bytes) (pk : Bytes) (r : Ph → Option Bytes)
    (hsig : r (.ecdsaSig k) = sig) (hpk : r (.pubkey k n) = some pk)
    (hlen : d.ty = .pkh → 4 < pk.length ∧ ∀ s, sig = some s → 4 < s.length) :
    ((intoPlan (keyTemplate k n sig.isSome)).isSome ↔ ∃ x, keyGetSatisfaction d sig pk = .ok x) ∧
    ∀ p, intoPlan (keyTemplate k n sig.isSome) = some p →
      (p.satisfy d r).map Outcome.ok = some (keyGetSatisfaction d sig pk) := by
  cases sig with
  | none => simp [keyTemplate, intoPlan, keyGetSatisfaction]
  | some s =>
    refine ⟨by simp [keyTemplate, intoPlan, keyGetSatisfaction], ?_⟩
    intro p hp
    simp only [keyTemplate, intoPlan, Option.isSome_some, if_true, Option.some.injEq] at hp
    subst hp
    have hc : complete r [Ph.ecdsaSig k, Ph.pubkey k n] = some [s, pk] := by
      simp [complete, hsig, hpk]
    simp only [PlanM.satisfy, hc, keyGetSatisfaction, Option.map_some]
    rw [plan_satisfy_eq d [s, pk]]
    intro hp b hb
    right
    have := hlen hp
    simp only [List.mem_cons, List.not_mem_nil, or_false] at hb
    rcases hb with rfl | rfl
    · exact readScriptInt_long _ (this.2 _ rfl)
    · exact readScriptInt_long _ this.1

example : keyGetSatisfaction ⟨.shWpkh, [], [0, 20]⟩ (some [9]) [2] = .ok ([[9], [2]], [2, 0, 20]) := by decide

/-! ## T2 / T3 — the reported time locks are sufficient and necessary

`tSatDissat c ms` is `satDissat c ms` (first conjunct of T2: erasure) carrying for every
(dis)satisfaction the lists `A` / `R` of the `after` / `older` values of the fragments that
this (dis)satisfaction executes.  `checkLockTime` / `checkSequence` are the BIP65 / BIP112
comparisons of the trusted Script spec. -/

/-- T2: for every script, asset set and mode — a transaction whose nLockTime equals the
reported absolute lock (sequence not final) passes CHECKLOCKTIMEVERIFY for EVERY `after`
the returned satisfaction executes; a transaction (version ≥ 2) whose nSequence has the
reported relative lock's unit and value, disable flag clear, passes CHECKSEQUENCEVERIFY for
every `older` it executes; and when no lock is reported, none is executed. -/
theorem locks_sufficient (c : SatCfg) (ms : Ms) (env : Script.Env) :
    (tSatDissat c ms).sat.s = (satDissat c ms).sat ∧
    (∀ m, (satDissat c ms).sat.abs = some m → env.nLockTime = m → env.nSequence ≠ SEQ_FINAL →
        ∀ n ∈ (tSatDissat c ms).sat.A, checkLockTime env n = true) ∧
    ((satDissat c ms).sat.abs = none → (tSatDissat c ms).sat.A = []) ∧
    (∀ m, (satDissat c ms).sat.rel = some m → seqMasked env.nSequence = seqMasked m →
        (env.nSequence / SEQ_DISABLE) % 2 = 0 → env.txVersion ≥ 2 →
        ∀ n ∈ (tSatDissat c ms).sat.R, checkSequence env n = true) ∧
    ((satDissat c ms).sat.rel = none → (tSatDissat c ms).sat.R = []) := by
  have hs := (tSatDissat_s c ms).2
  have hi := (tSatDissat_inv c ms).2
  rw [← hs]
  refine ⟨rfl, ?_, ?_, ?_, ?_⟩
  · intro m hm hlt hsq n hn
    have h := hi.1
    simp only [hm, AbsInv] at h
    have := h.2 n hn
    simp only [checkLockTime, Bool.and_eq_true, Bool.or_eq_true,
      decide_eq_true_eq, bne_iff_ne, ne_eq]
    simp only [LOCKTIME_THRESHOLD, hlt]
    refine ⟨⟨?_, this.2⟩, hsq⟩
    omega
  · intro hm
    have h := hi.1
    simpa only [hm, AbsInv] using h
  · intro m hm hsm hdis hv n hn
    have h := hi.2
    simp only [hm, RelInv] at h
    have := h.2 n hn
    simp only [relIsTime, relVal] at this
    simp only [SEQ_DISABLE] at hdis
    have h1 : (n / 4194304 % 2 = 1) ↔ (m / 4194304 % 2 = 1) := by
      have h0 := this.1
      rw [Bool.eq_iff_iff] at h0
      simpa using h0
    have h2 := this.2
    simp only [checkSequence, Bool.and_eq_true, Bool.or_eq_true, decide_eq_true_eq, beq_iff_eq]
    simp only [hsm]
    simp only [SEQ_DISABLE, seqMasked, SEQ_TYPE, SEQ_MASK]
    refine ⟨⟨hv, hdis⟩, ?_, ?_⟩ <;> omega
  · intro hm
    have h := hi.2
    simpa only [hm, RelInv] using h

/-- T3: the reported lock is ATTAINED — it is itself one of the `after` (`older`) values the
satisfaction executes — hence necessary: every transaction that passes all of them has the
reported lock's unit and a value ≥ it (and a non-final resp. enabled sequence, version ≥ 2). -/
theorem locks_necessary (c : SatCfg) (ms : Ms) (env : Script.Env) :
    (∀ m, (satDissat c ms).sat.abs = some m → m ∈ (tSatDissat c ms).sat.A ∧
        ((∀ n ∈ (tSatDissat c ms).sat.A, checkLockTime env n = true) →
          (env.nLockTime < 500000000 ↔ m < 500000000) ∧ m ≤ env.nLockTime ∧
          env.nSequence ≠ SEQ_FINAL)) ∧
    (∀ m, (satDissat c ms).sat.rel = some m → m ∈ (tSatDissat c ms).sat.R ∧
        ((∀ n ∈ (tSatDissat c ms).sat.R, checkSequence env n = true) →
          env.txVersion ≥ 2 ∧ (env.nSequence / SEQ_DISABLE) % 2 = 0 ∧
          (relIsTime env.nSequence = relIsTime m) ∧ relVal m ≤ relVal env.nSequence)) := by
  have hs := (tSatDissat_s c ms).2
  have hi := (tSatDissat_inv c ms).2
  rw [← hs]
  constructor
  · intro m hm
    have h := hi.1
    simp only [hm, AbsInv] at h
    refine ⟨h.1, fun hall => ?_⟩
    have := hall m h.1
    simp only [checkLockTime, Bool.and_eq_true, Bool.or_eq_true,
      decide_eq_true_eq, bne_iff_ne, ne_eq] at this
    simp only [LOCKTIME_THRESHOLD] at this
    refine ⟨?_, this.1.2, this.2⟩
    omega
  · intro m hm
    have h := hi.2
    simp only [hm, RelInv] at h
    refine ⟨h.1, fun hall => ?_⟩
    have := hall m h.1
    simp only [checkSequence, Bool.and_eq_true, Bool.or_eq_true, decide_eq_true_eq, beq_iff_eq] at this
    simp only [SEQ_DISABLE, seqMasked, SEQ_TYPE, SEQ_MASK] at this
    refine ⟨this.1.1, by simpa [SEQ_DISABLE] using this.1.2, ?_, ?_⟩
    · simp only [relIsTime]
      have h2 := this.2
      have : (env.nSequence / 4194304 % 2 = 1) ↔ (m / 4194304 % 2 = 1) := by omega
      rw [Bool.eq_iff_iff]
      simpa using this
    · simp only [relVal]; omega

/-- T3, the three ways to undercut a reported absolute lock all fail: a smaller nLockTime, an
nLockTime of the other unit, a final sequence (which disables nLockTime) -/
theorem locks_necessary_abs_variants_fail (c : SatCfg) (ms : Ms) (env : Script.Env) (m : Nat)
    (hm : (satDissat c ms).sat.abs = some m)
    (hbad : env.nLockTime < m ∨ ¬ (env.nLockTime < 500000000 ↔ m < 500000000) ∨
            env.nSequence = SEQ_FINAL) :
    ∃ n ∈ (tSatDissat c ms).sat.A, checkLockTime env n = false := by
  have h := ((locks_necessary c ms env).1 m hm)
  refine ⟨m, h.1, ?_⟩
  cases hc : checkLockTime env m with
  | false => rfl
  | true =>
    exfalso
    simp only [checkLockTime, Bool.and_eq_true, Bool.or_eq_true,
      decide_eq_true_eq, bne_iff_ne, ne_eq] at hc
    simp only [LOCKTIME_THRESHOLD] at hc
    rcases hbad with h1 | h1 | h1
    · omega
    · omega
    · exact hc.2 h1

/-- … and the same for a reported relative lock: smaller value, other unit, disabled sequence -/
theorem locks_necessary_rel_variants_fail (c : SatCfg) (ms : Ms) (env : Script.Env) (m : Nat)
    (hm : (satDissat c ms).sat.rel = some m)
    (hbad : relVal env.nSequence < relVal m ∨ relIsTime env.nSequence ≠ relIsTime m ∨
            (env.nSequence / SEQ_DISABLE) % 2 = 1 ∨ env.txVersion < 2) :
    ∃ n ∈ (tSatDissat c ms).sat.R, checkSequence env n = false := by
  have h := ((locks_necessary c ms env).2 m hm)
  refine ⟨m, h.1, ?_⟩
  cases hc : checkSequence env m with
  | false => rfl
  | true =>
    exfalso
    simp only [checkSequence, Bool.and_eq_true, Bool.or_eq_true, decide_eq_true_eq, beq_iff_eq] at hc
    simp only [SEQ_DISABLE, seqMasked, SEQ_TYPE, SEQ_MASK] at hc
    simp only [relVal, relIsTime, SEQ_DISABLE, ne_eq] at hbad
    rcases hbad with h1 | h1 | h1 | h1
    · omega
    · apply h1
      have : (env.nSequence / 4194304 % 2 = 1) ↔ (m / 4194304 % 2 = 1) := by omega
      rw [Bool.eq_iff_iff]
      simpa using this
    · omega
    · omega

/-! non-vacuity: `or_d(pk(1), and_v(v:pk(0), and_v(v:after(100), and_v(v:older(10), after(200)))))`
with a signature for key 0 only, locks up to 200 / 20 available: the reported locks are
200 / 10 and the executed lists are `[200, 100]` / `[10]`; with both keys the cheaper `pk(1)`
branch is taken and nothing is reported or executed. -/
def exAssets (keys : Key → Bool) : Assets :=
  { ecdsaSig := keys, schnorrSig := fun _ => none, rawPkhPk := fun _ => none,
    rawPkhEcdsa := fun _ => none, rawPkhSchnorr := fun _ => none, preimage := fun _ _ => false,
    checkOlder := fun n => n ≤ 20, checkAfter := fun n => n ≤ 200 }
def exKeyEnv : KeyEnv := ⟨fun _ => [], fun _ => [], fun _ => [], fun _ => [], fun _ _ => []⟩
def exCfg (keys : Key → Bool) : SatCfg := ⟨exKeyEnv, .segwitv0, false, true, exAssets keys⟩
def exMs : Ms :=
  .orD (.check (.pkK 1)) (.andV (.verify (.check (.pkK 0))) (.andV (.verify (.after 100))
    (.andV (.verify (.older 10)) (.after 200))))

example : (satDissat (exCfg (· == 0)) exMs).sat.abs = some 200 ∧
    (satDissat (exCfg (· == 0)) exMs).sat.rel = some 10 ∧
    (tSatDissat (exCfg (· == 0)) exMs).sat.A = [200, 100] ∧
    (tSatDissat (exCfg (· == 0)) exMs).sat.R = [10] := by decide
example : (satDissat (exCfg fun _ => true) exMs).sat.abs = none ∧
    (tSatDissat (exCfg fun _ => true) exMs).sat.A = [] := by decide

/-! ## T5 — key-source matching

`is_key_direct_child_of` and `Assets::has_ecdsa_key` are total (`Bool`-valued functions of the
model; the `len - 1` on an empty path is guarded since the F7 fix) and decide the documented
relation. -/

/-- T5: `is_key_direct_child_of` holds exactly when the source path is the key's path or the
key's path minus its last child number — for every pair of paths, the empty ones included -/
theorem is_key_direct_child_of_spec (pk src : List Nat) :
    isKeyDirectChildOf pk src = true ↔ (pk = src ∨ ∃ c, pk = src ++ [c]) := by
  unfold isKeyDirectChildOf
  by_cases h : pk = src
  · simp [h]
  · rw [← take_pred_eq_iff]
    simp [h]

/-- the former panic input (key without origin, same-fingerprint source of depth 1): `false` -/
theorem is_key_direct_child_of_empty_path (src : List Nat) :
    isKeyDirectChildOf [] src = decide (src = []) := by
  unfold isKeyDirectChildOf
  by_cases h : ([] : List Nat) = src
  · simp [← h]
  · have : src ≠ [] := fun hh => h hh.symm
    simp [h, this]

/-- T5: `Assets::has_ecdsa_key` is the documented predicate: some source can sign ECDSA, has
the key's fingerprint, and its path is the key's path or its parent -/
theorem has_ecdsa_key_spec (fp : Nat) (path : List Nat) (srcs : List KeySrc) :
    hasEcdsaKey fp path srcs = true ↔
      ∃ s ∈ srcs, s.ecdsa = true ∧ s.fp = fp ∧ (path = s.path ∨ ∃ c, path = s.path ++ [c]) := by
  unfold hasEcdsaKey
  simp only [List.any_eq_true, Bool.and_eq_true, beq_iff_eq, is_key_direct_child_of_spec]
  constructor
  · rintro ⟨s, hs, ⟨h1, h2⟩, h3⟩; exact ⟨s, hs, h1, h2, h3⟩
  · rintro ⟨s, hs, h1, h2, h3⟩; exact ⟨s, hs, ⟨h1, h2⟩, h3⟩

example : hasEcdsaKey 7 [48, 0, 5] [⟨7, [48], true⟩, ⟨7, [48, 0], true⟩] = true := by decide
example : hasEcdsaKey 7 [] [⟨7, [1], true⟩] = false := by decide

/-! ## sizes — what the announced figures still leave out (negations on concrete witnesses) -/

/-- the statement "announced sizes are upper bounds of the serialized sizes of the spend" —
FALSE of the current code for `wsh`, `sh(wsh)`, `sh(wpkh)` (pinned by plan.rs's unit tests) -/
def sizes_upper_bound_full : Prop :=
  ∀ (d : DescData) (t : List Ph) (stack : List Bytes),
    stack.length = t.length →
    (∀ i (h : i < t.length) (h' : i < stack.length), (stack[i]).length + 1 ≤ (t[i]).size) →
    serializedScriptSigSize (planSatisfy d stack).2 ≤ scriptsigSize d.ty (t.map Item.ph) d.script.length ∧
    serializedWitnessSize (planSatisfy d stack).1 ≤ Plan.witnessSize d.ty (t.map Item.ph)

/-- `sh(wpkh)`: `scriptsig_size` says 23; the scriptSig `16 0014<20 bytes>` serializes to 24
bytes (the push opcode of the witness program is not counted).  Same for `sh(wsh)`: 35 vs 36. -/
theorem sh_segwit_scriptsig_size_off_by_one (d : DescData) (t : List Item) (n : Nat)
    (h : (d.ty = .shWpkh ∧ d.inner.length = 22) ∨ (d.ty = .shWsh ∧ d.inner.length = 34)) :
    serializedScriptSigSize d.unsignedScriptSig = scriptsigSize d.ty t n + 1 := by
  rcases h with ⟨h, hl⟩ | ⟨h, hl⟩ <;>
    simp [DescData.unsignedScriptSig, h, serializedScriptSigSize, pushSlice, pushPrefix, hl,
      scriptsigSize, DescType.segwitVersion, varintLen]

/-- `wsh`: `witness_size` is the size of the template only; the real witness has one more
item, the witness script -/
theorem wsh_witness_size_omits_script (d : DescData) (hty : d.ty = .wsh) (stack : List Bytes) :
    (planSatisfy d stack).1 = stack ++ [d.script] ∧
    ∀ t, Plan.witnessSize .wsh t = templateSize t := by
  constructor
  · simp [planSatisfy, hty]
  · intro t; simp [Plan.witnessSize, DescType.segwitVersion]

theorem sizes_upper_bound_full_false : ¬ sizes_upper_bound_full := by
  intro h
  -- wsh(1): empty template, witness = [script]
  have := (h ⟨.wsh, [0x51], []⟩ [] [] rfl (by intro i hi; simp at hi)).2
  revert this
  decide

/-- `sh(<miniscript>)` after the F9 fix: the announced scriptSig size counts every template
item, the redeem-script push, and the compact-size prefix of that byte count -/
theorem sh_scriptsig_size_counts_redeem (t : List Item) (n : Nat) :
    scriptsigSize .sh t n =
      ((t.map Item.size).sum + pushLen n) + varintLen ((t.map Item.size).sum + pushLen n) := by
  simp [scriptsigSize, DescType.segwitVersion]

/-! ## items and sizes — what the per-item judge (`J tmpl-items`) buys -/

/-- an item that fits its placeholder serializes (length prefix + bytes) within the size the
placeholder announces -/
theorem item_fits_size (it : Item) (len : Nat) (h : it.fits len = true) :
    varintLen len + len ≤ it.size := by
  cases it with
  | ph p =>
    cases p <;> simp [Item.fits] at h <;> simp [Item.size, Ph.size, varintLen] <;> (try split) <;> omega
  | tapScript n => simp [Item.fits] at h; subst h; simp [Item.size]; omega
  | tapControl n => simp [Item.fits] at h; subst h; simp [Item.size]; omega

/-- hence a witness whose items fit the template one by one serializes within
`witness_size(template)` — the announced `Plan::witness_size` of `wpkh`, `sh(wpkh)` and `tr`
(whose witness is exactly the completed template) is an upper bound of the real size -/
theorem witness_size_upper_bound (t : List Item) (ls : List Nat) (hlen : ls.length = t.length)
    (h : ∀ p ∈ t.zip ls, p.1.fits p.2 = true) :
    varintLen ls.length + (ls.map fun l => varintLen l + l).sum ≤ templateSize t := by
  unfold templateSize
  have hsum : (ls.map fun l => varintLen l + l).sum ≤ (t.map Item.size).sum := by
    induction t generalizing ls with
    | nil => cases ls <;> simp_all
    | cons it t ih =>
      cases ls with
      | nil => simp at hlen
      | cons l ls =>
        simp only [List.map_cons, List.sum_cons]
        have h1 := item_fits_size it l (h (it, l) (by simp))
        have h2 := ih ls (by simpa using hlen) (fun p hp => h p (by simp [hp]))
        omega
  rw [hlen]; omega

example : Plan.witnessSize .tr [.ph (.schnorrSig 0 64)] = templateSize [.ph (.schnorrSig 0 64)] := by decide

end MsVerif.C17

/-
C17 — Spending plans are faithful to the satisfier and report exact time locks.

Model functions ↔ Rust (Model/Plan.lean, Model/Satisfy.lean, Lemmas/PlanLocks.lean):
  intoPlan ↔ Descriptor::into_plan{,_mall}        PlanM.satisfy / planSatisfy ↔ Plan::satisfy
  descGetSatisfaction / getSatisfaction ↔ Descriptor::get_satisfaction{,_mall}
  keyTemplate / keyGetSatisfaction ↔ Pkh/Wpkh::{plan_satisfaction, get_satisfaction}
  witnessToScriptSig ↔ util::witness_to_scriptsig  scriptsigSize/witnessSize ↔ Plan::{scriptsig_size, witness_size}
  isKeyDirectChildOf / hasEcdsaKey ↔ plan::is_key_direct_child_of / Assets::has_ecdsa_key (total)
  tryCompleting ↔ Satisfaction::try_completing (with its raw-pkh key fallback); complete ↔ the
               plain `satisfy_self` map of Plan::satisfy; Stfr / Stfr.assets / Stfr.realise ↔ a
               Satisfier, `impl AssetProvider for Satisfier`, Placeholder::satisfy_self
  tSatDissat ↔ Satisfaction::sat_dissat carrying, next to every (dis)satisfaction, the list of
               `after` / `older` values of the fragments that (dis)satisfaction executes
               (Lemmas/PlanLocks.lean); Lemmas/PlanLockExec.lean links the lists to EXECUTION

T1: `plan_faithful` (full strength on the model; completion hypothesis discharged by
    `plan_iff_satisfy_ok` / `plan_completes`), `plan_satisfy_eq` (all 8 types), key descriptors.
T2/T3: `locks_sufficient_exec`, `locks_necessary_exec(_abs/_rel)` — about `Script.run` on the
    encoded script; `locks_sufficient` / `locks_necessary` are the list-level lemmas behind them.
T5: key-source matching.  Sizes: proved bounds (bare/pkh/sh scriptSig, wpkh/sh-wpkh/tr witness)
    and `_false` theorems for the keyed findings (wsh/sh-wsh witness, sh-wpkh/sh-wsh scriptSig).
History: F7 / F9 (found here) are fixed in /repo; the model follows the fixed code.
-/
import MsVerif.Model.Plan
import MsVerif.Lemmas.PlanLocks
import MsVerif.Lemmas.PlanSizes
import MsVerif.Lemmas.PlanLockExec
import MsVerif.Lemmas.PlanComplete
import MsVerif.Thm.C01

namespace MsVerif.C17
open MsVerif MsVerif.Plan MsVerif.Script MsVerif.PlanLocks MsVerif.Sat MsVerif.PlanSizes
open MsVerif.SatSpec MsVerif.PlanLockExec MsVerif.PlanComplete

/-! ## T1 — a plan exists exactly when the satisfier succeeds, and completes to the same bytes -/

/-- T1a: for every descriptor type and every template, `into_plan` returns a plan iff
`get_satisfaction` does not return `Err`; and `get_satisfaction` panics (the `expect` after
`try_completing`) exactly when a plan exists whose template `try_completing` cannot complete. -/
theorem plan_iff_satisfy (d : DescData) (r : Ph → Option Bytes) (fb : Nat → Option Bytes) (t : Sat) :
    ((intoPlan t).isSome ↔ descGetSatisfaction d r fb t ≠ .err) ∧
    (descGetSatisfaction d r fb t = .panic ↔
      ∃ p, intoPlan t = some p ∧ tryCompleting r fb none p.template = none) := by
  unfold intoPlan descGetSatisfaction msSatisfy
  cases h : t.stack with
  | stack l => cases hc : tryCompleting r fb none l <;> simp [hc]
  | unavailable => simp
  | impossible => simp

/-- T1a for the MODEL'S satisfier (the completion hypothesis discharged): let the provider be
the `impl AssetProvider for Satisfier` view of a satisfier `S` (`c.assets = S.assets c.ctx`).
Then for every script, both modes: `get_satisfaction` never hits its `expect` — every
placeholder of the template is one `S` can produce (with `try_completing`'s fallback for the
key of a tapscript raw pkh) — so a plan exists iff `get_satisfaction` returns `Ok`. -/
theorem plan_iff_satisfy_ok (S : Stfr) (c : SatCfg) (hc : c.assets = S.assets c.ctx)
    (d : DescData) (ms : Ms) :
    descGetSatisfaction d S.realise S.fallback (satDissat c ms).sat ≠ .panic ∧
    ((intoPlan (satDissat c ms).sat).isSome ↔
      ∃ x, descGetSatisfaction d S.realise S.fallback (satDissat c ms).sat = .ok x) := by
  have hL : LeafOk (TryOk S.realise S.fallback) c.env c.ctx c.assets := hc ▸ leafOk_try S c.env c.ctx
  have hinv := (satDissat_sinv tryOk_closed c hL ms).2
  unfold intoPlan descGetSatisfaction msSatisfy
  cases h : (satDissat c ms).sat.stack with
  | stack l =>
    obtain ⟨bs, hbs⟩ := Option.isSome_iff_exists.mp (hinv l h none)
    simp [hbs]
  | unavailable => simp
  | impossible => simp

/-- … and `Plan::satisfy` (the same `Placeholder::satisfy_all`) completes every such plan -/
theorem plan_completes (S : Stfr) (c : SatCfg) (hc : c.assets = S.assets c.ctx)
    (d : DescData) (ms : Ms) (p : PlanM) (hp : intoPlan (satDissat c ms).sat = some p) :
    (p.satisfy d S.realise S.fallback).isSome := by
  have hL : LeafOk (TryOk S.realise S.fallback) c.env c.ctx c.assets := hc ▸ leafOk_try S c.env c.ctx
  have hinv := (satDissat_sinv tryOk_closed c hL ms).2
  unfold intoPlan at hp
  cases h : (satDissat c ms).sat.stack with
  | stack l =>
    simp only [h, Option.some.injEq] at hp
    subst hp
    obtain ⟨bs, hbs⟩ := Option.isSome_iff_exists.mp (hinv l h none)
    simp [PlanM.satisfy, hbs]
  | unavailable => simp [h] at hp
  | impossible => simp [h] at hp

/-- T1b (assembly), all eight descriptor types: `Plan::satisfy` and `get_satisfaction` build
the same (witness, scriptSig) from the same completed stack.  Unconditional for bare, sh, wpkh,
sh-wpkh, wsh, sh-wsh, tr.  For `pkh` the descriptor path pushes signature and key with
`push_slice` / `push_key` while the plan goes through `witness_to_scriptsig`; they agree when
no item is a non-empty minimal script number — true of every signature and public key
(`readScriptInt_long`: anything longer than 4 bytes). -/
theorem plan_satisfy_eq (d : DescData) (stack : List Bytes)
    (hpkh : d.ty = .pkh → ∀ b ∈ stack, b = [] ∨ readScriptInt b = none) :
    planSatisfy d stack = getSatisfaction d stack := by
  unfold planSatisfy getSatisfaction
  cases hty : d.ty <;> simp_all [DescData.unsignedScriptSig, witnessToScriptSig]
  exact flatMap_congr_mem _ _ _ (fun b hb => w2ssItem_eq_pushSlice b (hpkh b hb))

/-- T1b without side condition for the seven types other than `pkh` -/
theorem plan_satisfy_eq_non_pkh (d : DescData) (stack : List Bytes) (h : d.ty ≠ .pkh) :
    planSatisfy d stack = getSatisfaction d stack :=
  plan_satisfy_eq d stack (fun hh => absurd hh h)

/-- the `sh(<miniscript>)` case spelled out: the redeem script is the last push and `[1]`
is pushed as `OP_1` (the two halves of the former finding F9) -/
theorem plan_satisfy_sh (script : Bytes) (stack : List Bytes) :
    planSatisfy ⟨.sh, script, []⟩ stack = ([], witnessToScriptSig (stack ++ [script])) ∧
    (planSatisfy ⟨.sh, [0xac], []⟩ [[1]]).2 = [0x51, 0x01, 0xac] := by
  constructor
  · rfl
  · decide

/-- T1 end to end for the miniscript-based types and `tr`, ANY satisfier and template:
`Plan::satisfy` returns `x` iff `get_satisfaction` returns `Ok x` (both complete the template
with the same `Placeholder::satisfy_all` and assemble the same bytes), and the plan carries the
template's locks. -/
theorem plan_satisfy_eq_e2e (d : DescData) (hty : d.ty ≠ .pkh) (r : Ph → Option Bytes)
    (fb : Nat → Option Bytes) (t : Sat) (p : PlanM) (hp : intoPlan t = some p) :
    p.abs = t.abs ∧ p.rel = t.rel ∧
    ∀ x, p.satisfy d r fb = some x ↔ descGetSatisfaction d r fb t = .ok x := by
  unfold intoPlan at hp
  cases hs : t.stack with
  | stack l =>
    simp only [hs, Option.some.injEq] at hp
    subst hp
    refine ⟨rfl, rfl, fun x => ?_⟩
    simp only [PlanM.satisfy, descGetSatisfaction, msSatisfy, hs]
    cases hc : tryCompleting r fb none l with
    | none => simp
    | some bs => simp [plan_satisfy_eq_non_pkh d bs hty]
  | unavailable => simp [hs] at hp
  | impossible => simp [hs] at hp

/-- **T1 at full strength on the model**: provider = view of the satisfier `S`, every script,
both modes, every miniscript-based descriptor type and `tr`: a plan exists iff
`get_satisfaction` succeeds, the plan carries the template's locks, and completing it with
`S` returns byte for byte what `get_satisfaction` returns. -/
theorem plan_faithful (S : Stfr) (c : SatCfg) (hc : c.assets = S.assets c.ctx)
    (d : DescData) (hty : d.ty ≠ .pkh) (ms : Ms) :
    ((intoPlan (satDissat c ms).sat).isSome ↔
      ∃ x, descGetSatisfaction d S.realise S.fallback (satDissat c ms).sat = .ok x) ∧
    ∀ p, intoPlan (satDissat c ms).sat = some p →
      p.abs = (satDissat c ms).sat.abs ∧ p.rel = (satDissat c ms).sat.rel ∧
      ∃ x, p.satisfy d S.realise S.fallback = some x ∧
        descGetSatisfaction d S.realise S.fallback (satDissat c ms).sat = .ok x := by
  refine ⟨(plan_iff_satisfy_ok S c hc d ms).2, fun p hp => ?_⟩
  obtain ⟨x, hx⟩ := Option.isSome_iff_exists.mp (plan_completes S c hc d ms p hp)
  obtain ⟨ha, hr, h1⟩ := plan_satisfy_eq_e2e d hty S.realise S.fallback _ p hp
  exact ⟨ha, hr, x, hx, (h1 x).mp hx⟩

/-- a satisfier that knows the (key, signature) pair of a tapscript raw pkh only through
`lookup_raw_pkh_tap_leaf_script_sig` -/
def exSigOnly : Stfr where
  ecdsaSig _ := none
  schnorrSig _ := none
  keyBytes _ _ := []
  rawPk _ := none
  rawXonly _ := none
  rawEcdsa _ := none
  rawSchnorr h := if h = 0 then some (0, List.replicate 32 2, List.replicate 64 7) else none
  preimage _ _ := none
  checkOlder _ := false
  checkAfter _ := false

def exSigOnlyCfg : SatCfg :=
  ⟨⟨fun _ => [], fun _ => [], fun _ => [], fun _ => [], fun _ _ => []⟩, .tap, false, true, exSigOnly.assets .tap⟩

/-- regression example (the former `plan_completes_full_false` witness): for the tapscript
leaf `c:expr_raw_pkh(H)` and the satisfier above, `Plan::satisfy` used to return
`CouldNotSatisfy` (plain `satisfy_self`) where `get_satisfaction` succeeded; both now take the
key that comes with the signature and return the same witness -/
example :
    intoPlan (satDissat exSigOnlyCfg (.check (.rawPkH 0))).sat
      = some ⟨[.schnorrSigPkh 0 64, .pubkeyHash 0 33], none, none⟩ ∧
    PlanM.satisfy ⟨.tr, [], []⟩ exSigOnly.realise exSigOnly.fallback
        ⟨[.schnorrSigPkh 0 64, .pubkeyHash 0 33], none, none⟩
      = some ([List.replicate 64 7, List.replicate 32 2], []) ∧
    descGetSatisfaction ⟨.tr, [], []⟩ exSigOnly.realise exSigOnly.fallback
        (satDissat exSigOnlyCfg (.check (.rawPkH 0))).sat
      = .ok ([List.replicate 64 7, List.replicate 32 2], []) := by decide

example : descGetSatisfaction ⟨.wsh, [0xac], []⟩ (fun _ => some [7]) (fun _ => none) ⟨.stack [.ecdsaSig 0], true, none, some 10⟩
    = .ok ([[7], [0xac]], []) := by decide
example : descGetSatisfaction ⟨.sh, [0xac], []⟩ (fun p => if p = .pushOne then some [1] else some [9, 9, 9, 9, 9])
    (fun _ => none) ⟨.stack [.ecdsaSig 0, .pushOne], true, none, none⟩ = .ok ([], [5, 9, 9, 9, 9, 9, 0x51, 0x01, 0xac]) := by decide

/-- T1 for the single-key descriptors (`pkh`, `wpkh`, `sh(wpkh)`): a plan exists iff the
provider has the key; the satisfier succeeds iff it has a signature; with the provider being
the view of the satisfier (`avail = sig.isSome`) the two coincide and the plan completes to
the same bytes (`pkh`: signature and key longer than 4 bytes, as all are). -/
theorem key_plan_iff_satisfy_eq (d : DescData) (_hty : d.ty = .pkh ∨ d.ty = .wpkh ∨ d.ty = .shWpkh)
    (k : Key) (n : Nat) (sig : Option Bytes) (pk : Bytes) (r : Ph → Option Bytes)
    (fb : Nat → Option Bytes) (hsig : r (.ecdsaSig k) = sig) (hpk : r (.pubkey k n) = some pk)
    (hlen : d.ty = .pkh → 4 < pk.length ∧ ∀ s, sig = some s → 4 < s.length) :
    ((intoPlan (keyTemplate k n sig.isSome)).isSome ↔ ∃ x, keyGetSatisfaction d sig pk = .ok x) ∧
    ∀ p, intoPlan (keyTemplate k n sig.isSome) = some p →
      (p.satisfy d r fb).map Plan.Outcome.ok = some (keyGetSatisfaction d sig pk) := by
  cases sig with
  | none => simp [keyTemplate, intoPlan, keyGetSatisfaction]
  | some s =>
    refine ⟨by simp [keyTemplate, intoPlan, keyGetSatisfaction], ?_⟩
    intro p hp
    simp only [keyTemplate, intoPlan, Option.isSome_some, if_true, Option.some.injEq] at hp
    subst hp
    have hc : tryCompleting r fb none [Ph.ecdsaSig k, Ph.pubkey k n] = some [s, pk] := by
      simp [tryCompleting, hsig, hpk]
    simp only [PlanM.satisfy, hc, keyGetSatisfaction, Option.map_some]
    rw [plan_satisfy_eq d [s, pk]]
    intro hp b hb
    right
    have := hlen hp
    simp only [List.mem_cons, List.not_mem_nil, or_false] at hb
    rcases hb with rfl | rfl
    · exact readScriptInt_long _ (this.2 _ rfl)
    · exact readScriptInt_long _ this.1

example : keyGetSatisfaction ⟨.shWpkh, [], [0, 20]⟩ (some [9]) [2] = .ok ([[9], [2]], [2, 0, 20]) := by decide

/-! ## T2 / T3 — the reported time locks are sufficient and necessary

`tSatDissat c ms` is `satDissat c ms` (first conjunct of T2: erasure) carrying for every
(dis)satisfaction the lists `A` / `R` of the `after` / `older` values of the fragments that
this (dis)satisfaction executes.  `checkLockTime` / `checkSequence` are the BIP65 / BIP112
comparisons of the trusted Script spec. -/

/-- T2: for every script, asset set and mode — a transaction whose nLockTime equals the
reported absolute lock (sequence not final) passes CHECKLOCKTIMEVERIFY for EVERY `after`
the returned satisfaction executes; a transaction (version ≥ 2) whose nSequence has the
reported relative lock's unit and value, disable flag clear, passes CHECKSEQUENCEVERIFY for
every `older` it executes; and when no lock is reported, none is executed. -/
theorem locks_sufficient (c : SatCfg) (ms : Ms) (env : Script.Env) :
    (tSatDissat c ms).sat.s = (satDissat c ms).sat ∧
    (∀ m, (satDissat c ms).sat.abs = some m → env.nLockTime = m → env.nSequence ≠ SEQ_FINAL →
        ∀ n ∈ (tSatDissat c ms).sat.A, checkLockTime env n = true) ∧
    ((satDissat c ms).sat.abs = none → (tSatDissat c ms).sat.A = []) ∧
    (∀ m, (satDissat c ms).sat.rel = some m → seqMasked env.nSequence = seqMasked m →
        (env.nSequence / SEQ_DISABLE) % 2 = 0 → env.txVersion ≥ 2 →
        ∀ n ∈ (tSatDissat c ms).sat.R, checkSequence env n = true) ∧
    ((satDissat c ms).sat.rel = none → (tSatDissat c ms).sat.R = []) := by
  have hs := (tSatDissat_s c ms).2
  have hi := (tSatDissat_inv c ms).2
  rw [← hs]
  refine ⟨rfl, ?_, ?_, ?_, ?_⟩
  · intro m hm hlt hsq n hn
    have h := hi.1
    simp only [hm, AbsInv] at h
    have := h.2 n hn
    simp only [checkLockTime, Bool.and_eq_true, Bool.or_eq_true,
      decide_eq_true_eq, bne_iff_ne, ne_eq]
    simp only [LOCKTIME_THRESHOLD, hlt]
    refine ⟨⟨?_, this.2⟩, hsq⟩
    omega
  · intro hm
    have h := hi.1
    simpa only [hm, AbsInv] using h
  · intro m hm hsm hdis hv n hn
    have h := hi.2
    simp only [hm, RelInv] at h
    have := h.2 n hn
    simp only [relIsTime, relVal] at this
    simp only [SEQ_DISABLE] at hdis
    have h1 : (n / 4194304 % 2 = 1) ↔ (m / 4194304 % 2 = 1) := by
      have h0 := this.1
      rw [Bool.eq_iff_iff] at h0
      simpa using h0
    have h2 := this.2
    simp only [checkSequence, Bool.and_eq_true, Bool.or_eq_true, decide_eq_true_eq, beq_iff_eq]
    simp only [hsm]
    simp only [SEQ_DISABLE, seqMasked, SEQ_TYPE, SEQ_MASK]
    refine ⟨⟨hv, hdis⟩, ?_, ?_⟩ <;> omega
  · intro hm
    have h := hi.2
    simpa only [hm, RelInv] using h

/-- T3: the reported lock is ATTAINED — it is itself one of the `after` (`older`) values the
satisfaction executes — hence necessary: every transaction that passes all of them has the
reported lock's unit and a value ≥ it (and a non-final resp. enabled sequence, version ≥ 2). -/
theorem locks_necessary (c : SatCfg) (ms : Ms) (env : Script.Env) :
    (∀ m, (satDissat c ms).sat.abs = some m → m ∈ (tSatDissat c ms).sat.A ∧
        ((∀ n ∈ (tSatDissat c ms).sat.A, checkLockTime env n = true) →
          (env.nLockTime < 500000000 ↔ m < 500000000) ∧ m ≤ env.nLockTime ∧
          env.nSequence ≠ SEQ_FINAL)) ∧
    (∀ m, (satDissat c ms).sat.rel = some m → m ∈ (tSatDissat c ms).sat.R ∧
        ((∀ n ∈ (tSatDissat c ms).sat.R, checkSequence env n = true) →
          env.txVersion ≥ 2 ∧ (env.nSequence / SEQ_DISABLE) % 2 = 0 ∧
          (relIsTime env.nSequence = relIsTime m) ∧ relVal m ≤ relVal env.nSequence)) := by
  have hs := (tSatDissat_s c ms).2
  have hi := (tSatDissat_inv c ms).2
  rw [← hs]
  constructor
  · intro m hm
    have h := hi.1
    simp only [hm, AbsInv] at h
    refine ⟨h.1, fun hall => ?_⟩
    have := hall m h.1
    simp only [checkLockTime, Bool.and_eq_true, Bool.or_eq_true,
      decide_eq_true_eq, bne_iff_ne, ne_eq] at this
    simp only [LOCKTIME_THRESHOLD] at this
    refine ⟨?_, this.1.2, this.2⟩
    omega
  · intro m hm
    have h := hi.2
    simp only [hm, RelInv] at h
    refine ⟨h.1, fun hall => ?_⟩
    have := hall m h.1
    simp only [checkSequence, Bool.and_eq_true, Bool.or_eq_true, decide_eq_true_eq, beq_iff_eq] at this
    simp only [SEQ_DISABLE, seqMasked, SEQ_TYPE, SEQ_MASK] at this
    refine ⟨this.1.1, by simpa [SEQ_DISABLE] using this.1.2, ?_, ?_⟩
    · simp only [relIsTime]
      have h2 := this.2
      have : (env.nSequence / 4194304 % 2 = 1) ↔ (m / 4194304 % 2 = 1) := by omega
      rw [Bool.eq_iff_iff]
      simpa using this
    · simp only [relVal]; omega

/-- T3, the three ways to undercut a reported absolute lock all fail: a smaller nLockTime, an
nLockTime of the other unit, a final sequence (which disables nLockTime) -/
theorem locks_necessary_abs_variants_fail (c : SatCfg) (ms : Ms) (env : Script.Env) (m : Nat)
    (hm : (satDissat c ms).sat.abs = some m)
    (hbad : env.nLockTime < m ∨ ¬ (env.nLockTime < 500000000 ↔ m < 500000000) ∨
            env.nSequence = SEQ_FINAL) :
    ∃ n ∈ (tSatDissat c ms).sat.A, checkLockTime env n = false := by
  have h := ((locks_necessary c ms env).1 m hm)
  refine ⟨m, h.1, ?_⟩
  cases hc : checkLockTime env m with
  | false => rfl
  | true =>
    exfalso
    simp only [checkLockTime, Bool.and_eq_true, Bool.or_eq_true,
      decide_eq_true_eq, bne_iff_ne, ne_eq] at hc
    simp only [LOCKTIME_THRESHOLD] at hc
    rcases hbad with h1 | h1 | h1
    · omega
    · omega
    · exact hc.2 h1

/-- … and the same for a reported relative lock: smaller value, other unit, disabled sequence -/
theorem locks_necessary_rel_variants_fail (c : SatCfg) (ms : Ms) (env : Script.Env) (m : Nat)
    (hm : (satDissat c ms).sat.rel = some m)
    (hbad : relVal env.nSequence < relVal m ∨ relIsTime env.nSequence ≠ relIsTime m ∨
            (env.nSequence / SEQ_DISABLE) % 2 = 1 ∨ env.txVersion < 2) :
    ∃ n ∈ (tSatDissat c ms).sat.R, checkSequence env n = false := by
  have h := ((locks_necessary c ms env).2 m hm)
  refine ⟨m, h.1, ?_⟩
  cases hc : checkSequence env m with
  | false => rfl
  | true =>
    exfalso
    simp only [checkSequence, Bool.and_eq_true, Bool.or_eq_true, decide_eq_true_eq, beq_iff_eq] at hc
    simp only [SEQ_DISABLE, seqMasked, SEQ_TYPE, SEQ_MASK] at hc
    simp only [relVal, relIsTime, SEQ_DISABLE, ne_eq] at hbad
    rcases hbad with h1 | h1 | h1 | h1
    · omega
    · apply h1
      have : (env.nSequence / 4194304 % 2 = 1) ↔ (m / 4194304 % 2 = 1) := by omega
      rw [Bool.eq_iff_iff]
      simpa using this
    · omega
    · omega

/-! ### the link to EXECUTION

The lists `A` / `R` are not just bookkeeping: `Lemmas/PlanLockExec.lean` proves, by induction
over the AST with the same case analysis as C01's soundness proof (every fragment incl.
`thresh`, both modes, any assets), that a (dis)satisfaction whose lists contain a lock the
transaction does not meet makes the emitted opcodes end in `unsatisfiedLocktime` — the
fragments executed before the offending CLTV / CSV run exactly as C01's `sat_sound` says.
With T3 (the reported lock is a member of the list) and the bridge theorem
(`run (encode ms) = frag ms`) this gives the property's lock sentence about real opcode
execution: the spend validates with the reported locks and fails with the lock-time error
below them, in the other unit, or with a final / disabled sequence. -/

section exec
variable {env : Env} {σ : Ph → Bytes} {cfg : SatCfg}

/-- **Necessity, on the opcode interpreter.**  If the satisfier returns a satisfaction for a
well-typed `B` script and the transaction does NOT pass CLTV for the reported absolute lock
or CSV for the reported relative lock, then executing the encoded script on exactly that
witness ends in `Err.unsatisfiedLocktime` (structured semantics and flat interpreter), so the
spend is rejected.  Every fragment, both modes, any asset set. -/
theorem locks_necessary_exec (henv : EnvOk env cfg.ctx) (hag : Agrees env cfg.env cfg.assets σ)
    (ms : Ms) (τ : Ty) (hwf : WF cfg.ctx ms) (hty : typeOf ms = some τ) (hB : τ.corr.base = .B)
    (w : List Ph) (hs : (satDissat cfg ms).sat.stack = .stack w)
    (hbad : (∃ m, (satDissat cfg ms).sat.abs = some m ∧ checkLockTime env m = false) ∨
            (∃ m, (satDissat cfg ms).sat.rel = some m ∧ checkSequence env m = false)) :
    frag env cfg.env cfg.ctx ms ⟨stk σ w, [], 0⟩ = .error .unsatisfiedLocktime ∧
    run env (encode cfg.env cfg.ctx ms) (State.init (stk σ w)) = .error .unsatisfiedLocktime ∧
    Script.accepts env (encode cfg.env cfg.ctx ms) (stk σ w) = false := by
  have hse := (tSatDissat_s cfg ms).2
  have hi := (tSatDissat_inv cfg ms).2
  have hbl : Blocks env (tSatDissat cfg ms).sat := by
    rcases hbad with ⟨m, hm, hc⟩ | ⟨m, hm, hc⟩
    · have h := hi.1
      rw [hse] at h
      simp only [hm, AbsInv] at h
      exact .inl ⟨m, h.1, hc⟩
    · have h := hi.2
      rw [hse] at h
      simp only [hm, RelInv] at h
      exact .inr ⟨m, h.1, hc⟩
  have hf := (fsound_all henv hag ms τ hwf hty).sat w (by rw [hse]; exact hs) hbl
  have hf' := (satFails_nonW (by simp [hB])).mp hf [] [] 0
  simp only [List.append_nil] at hf'
  have hb := Bridge.exec_encode_eq_frag_nostack env cfg.env cfg.ctx ms ⟨stk σ w, [], 0⟩ [] rfl
    henv.stackLimits
  refine ⟨hf', ?_, ?_⟩
  · unfold State.init; rw [hb, hf']; rfl
  · unfold Script.accepts State.init; rw [hb, hf']; rfl

/-- the same with the three ways to undercut an absolute lock spelled out: smaller
nLockTime, nLockTime of the other unit, final sequence -/
theorem locks_necessary_exec_abs (henv : EnvOk env cfg.ctx) (hag : Agrees env cfg.env cfg.assets σ)
    (ms : Ms) (τ : Ty) (hwf : WF cfg.ctx ms) (hty : typeOf ms = some τ) (hB : τ.corr.base = .B)
    (w : List Ph) (hs : (satDissat cfg ms).sat.stack = .stack w) (m : Nat)
    (hm : (satDissat cfg ms).sat.abs = some m)
    (hbad : env.nLockTime < m ∨ ¬ (env.nLockTime < 500000000 ↔ m < 500000000) ∨
            env.nSequence = SEQ_FINAL) :
    Script.accepts env (encode cfg.env cfg.ctx ms) (stk σ w) = false := by
  refine (locks_necessary_exec henv hag ms τ hwf hty hB w hs (.inl ⟨m, hm, ?_⟩)).2.2
  cases hc : checkLockTime env m with
  | false => rfl
  | true =>
    exfalso
    simp only [checkLockTime, Bool.and_eq_true, Bool.or_eq_true,
      decide_eq_true_eq, bne_iff_ne, ne_eq] at hc
    simp only [LOCKTIME_THRESHOLD] at hc
    rcases hbad with h1 | h1 | h1
    · omega
    · omega
    · exact hc.2 h1

/-- … and a relative lock: smaller value, other unit, disabled sequence, version < 2 -/
theorem locks_necessary_exec_rel (henv : EnvOk env cfg.ctx) (hag : Agrees env cfg.env cfg.assets σ)
    (ms : Ms) (τ : Ty) (hwf : WF cfg.ctx ms) (hty : typeOf ms = some τ) (hB : τ.corr.base = .B)
    (w : List Ph) (hs : (satDissat cfg ms).sat.stack = .stack w) (m : Nat)
    (hm : (satDissat cfg ms).sat.rel = some m)
    (hbad : relVal env.nSequence < relVal m ∨ relIsTime env.nSequence ≠ relIsTime m ∨
            (env.nSequence / SEQ_DISABLE) % 2 = 1 ∨ env.txVersion < 2) :
    Script.accepts env (encode cfg.env cfg.ctx ms) (stk σ w) = false := by
  refine (locks_necessary_exec henv hag ms τ hwf hty hB w hs (.inr ⟨m, hm, ?_⟩)).2.2
  cases hc : checkSequence env m with
  | false => rfl
  | true =>
    exfalso
    simp only [checkSequence, Bool.and_eq_true, Bool.or_eq_true, decide_eq_true_eq, beq_iff_eq] at hc
    simp only [SEQ_DISABLE, seqMasked, SEQ_TYPE, SEQ_MASK] at hc
    simp only [relVal, relIsTime, SEQ_DISABLE, ne_eq] at hbad
    rcases hbad with h1 | h1 | h1 | h1
    · omega
    · apply h1
      have : (env.nSequence / 4194304 % 2 = 1) ↔ (m / 4194304 % 2 = 1) := by omega
      rw [Bool.eq_iff_iff]
      simpa using this
    · omega
    · omega

/-- **Sufficiency, on the opcode interpreter** (C01's `top_level_sat_sound_exec` at equality):
a transaction whose nLockTime equals the reported absolute lock (sequence not final) and
whose nSequence carries the reported relative lock's unit and value (disable flag clear,
version ≥ 2) makes the encoded script ACCEPT exactly that witness. -/
theorem locks_sufficient_exec (henv : EnvOk env cfg.ctx) (hag : Agrees env cfg.env cfg.assets σ)
    (ms : Ms) (τ : Ty) (hwf : WF cfg.ctx ms) (hty : typeOf ms = some τ) (hB : τ.corr.base = .B)
    (w : List Ph) (hs : (satDissat cfg ms).sat.stack = .stack w)
    (habs : ∀ m, (satDissat cfg ms).sat.abs = some m →
      env.nLockTime = m ∧ env.nSequence ≠ SEQ_FINAL)
    (hrel : ∀ m, (satDissat cfg ms).sat.rel = some m →
      seqMasked env.nSequence = seqMasked m ∧ (env.nSequence / SEQ_DISABLE) % 2 = 0 ∧
      env.txVersion ≥ 2) :
    Script.accepts env (encode cfg.env cfg.ctx ms) (stk σ w) = true := by
  refine C01.top_level_sat_sound_exec henv hag ms τ hwf hty hB w hs ⟨?_, ?_⟩
  · intro m hm
    obtain ⟨hl, hsq⟩ := habs m hm
    simp only [checkLockTime, Bool.and_eq_true, Bool.or_eq_true, decide_eq_true_eq, bne_iff_ne,
      ne_eq]
    simp only [LOCKTIME_THRESHOLD, hl]
    refine ⟨⟨?_, Nat.le_refl _⟩, hsq⟩
    omega
  · intro m hm
    obtain ⟨hsm, hdis, hv⟩ := hrel m hm
    simp only [SEQ_DISABLE] at hdis
    simp only [checkSequence, Bool.and_eq_true, Bool.or_eq_true, decide_eq_true_eq, beq_iff_eq]
    simp only [hsm]
    simp only [SEQ_DISABLE, seqMasked, SEQ_TYPE, SEQ_MASK]
    refine ⟨⟨hv, hdis⟩, ?_, Nat.le_refl _⟩
    omega

end exec

/-! non-vacuity of the execution theorems: a small world of our own (33-byte keys
`02 00…00 k`, a signature is valid iff it is `key ++ [1]`, hashing appends a byte) in which
every hypothesis holds -/
namespace Toy

def ser (k : Key) : Bytes := 2 :: (List.replicate 31 0 ++ [UInt8.ofNat k])
def pre (h : Nat) : Bytes := List.replicate 31 9 ++ [UInt8.ofNat h]
def toyHash (b : Bytes) : Bytes := b ++ [7]

def ke : KeyEnv where
  ser := ser
  sortKey := ser
  pkh k := toyHash (ser k)
  rawPkh h := toyHash (ser h)
  hashVal _ h := toyHash (pre h)

/-- segwit-v0 standardness flags, limits off -/
def tEnv (lockTime seq : Nat) : Env where
  flags := ⟨false, true, true, true, true, false, false⟩
  sigOk pk sig := sig == pk ++ [1]
  hash _ b := toyHash b
  nLockTime := lockTime
  nSequence := seq
  txVersion := 2

def tσ : Ph → Bytes
  | .pubkey k _ => ser k
  | .pubkeyHash h _ => ser h
  | .ecdsaSig k => ser k ++ [1]
  | .ecdsaSigPkh h => ser h ++ [1]
  | .schnorrSig k _ => ser k ++ [1]
  | .schnorrSigPkh h _ => ser h ++ [1]
  | .preimage _ h => pre h
  | .hashDissat => List.replicate 32 0
  | .pushOne => [1]
  | .pushZero => []

/-- `and_v(v:pk(K0),or_d(pk(K1),older(144)))` -/
def ms : Ms := .andV (.verify (.check (.pkK 0))) (.orD (.check (.pkK 1)) (.older 144))
def ty : Ty := ⟨⟨.B, .anyNonZero, false, false⟩, ⟨.none, true, true⟩⟩

/-- signature for K0 only, and 144 blocks have passed -/
def assets : Assets :=
  ⟨fun k => k == 0, fun _ => none, fun _ => none, fun _ => none, fun _ => none,
   fun _ _ => false, fun n => n == 144, fun _ => false⟩

def cfg : SatCfg := ⟨ke, .segwitv0, false, true, assets⟩

end Toy

open Toy in
theorem toy_envOk (lt sq : Nat) : EnvOk (tEnv lt sq) .segwitv0 := ⟨rfl, rfl, rfl⟩

open Toy in
theorem toy_keyOk (lt sq : Nat) (k : Key) : pubkeyOk (tEnv lt sq) (ser k) = true := by
  simp [pubkeyOk, tEnv, ser]

open Toy in
theorem toy_agrees (lt sq : Nat) (a : Assets) : Agrees (tEnv lt sq) ke a tσ where
  pushOne := rfl
  pushZero := rfl
  hashDissat := rfl
  keyShape := toy_keyOk lt sq
  pkh _ := rfl
  pubkey _ _ := rfl
  ecdsa k _ := ⟨by simp [tσ], by simp [tEnv, tσ, ke]⟩
  schnorr k _ _ := ⟨by simp [tσ], by simp [tEnv, tσ, ke]⟩
  rawPk h _ _ := ⟨rfl, toy_keyOk lt sq h⟩
  rawEcdsa h _ _ _ := ⟨by simp [tσ], by simp [tEnv, tσ]⟩
  rawSchnorr h _ _ _ _ := ⟨by simp [tσ], by simp [tEnv, tσ]⟩
  preimage _ h _ := ⟨by simp [tσ, pre], rfl⟩
  zeroNoPreimage _ h := by
    intro e
    have := congrArg List.head? e
    simp [tEnv, ke, toyHash, pre, List.replicate] at this
  sizeOk p := by cases p <;> simp [tσ, ser, pre]

open Toy in
theorem toy_typed : typeOf ms = some ty := by decide
open Toy in
theorem toy_wf : WF .segwitv0 ms := by simp [ms, WF]


/-- `and_v(v:pk(K0),or_d(pk(K1),older(144)))` with a signature for K0 only: the satisfier
returns `[<empty>, sig(K0)]` and reports the relative lock 144; at nSequence = 144 the encoded
script accepts the witness, at 143 it is rejected — both by the theorems -/
example : (satDissat Toy.cfg Toy.ms).sat = ⟨.stack [.pushZero, .ecdsaSig 0], true, none, some 144⟩ ∧
    Script.accepts (Toy.tEnv 0 144) (encode Toy.ke .segwitv0 Toy.ms) (stk Toy.tσ [.pushZero, .ecdsaSig 0]) = true ∧
    Script.accepts (Toy.tEnv 0 143) (encode Toy.ke .segwitv0 Toy.ms) (stk Toy.tσ [.pushZero, .ecdsaSig 0]) = false :=
  ⟨by decide,
   locks_sufficient_exec (cfg := Toy.cfg) (toy_envOk 0 144) (toy_agrees 0 144 _) Toy.ms Toy.ty
      toy_wf toy_typed rfl _ (by decide) (by decide) (by decide),
   locks_necessary_exec_rel (cfg := Toy.cfg) (toy_envOk 0 143) (toy_agrees 0 143 _) Toy.ms Toy.ty
      toy_wf toy_typed rfl _ (by decide) 144 (by decide) (.inl (by decide))⟩

/-- … and by direct evaluation of the flat interpreter -/
example :
    Script.accepts (Toy.tEnv 0 144) (encode Toy.ke .segwitv0 Toy.ms) (stk Toy.tσ [.pushZero, .ecdsaSig 0]) = true ∧
    Script.accepts (Toy.tEnv 0 143) (encode Toy.ke .segwitv0 Toy.ms) (stk Toy.tσ [.pushZero, .ecdsaSig 0]) = false := by
  decide +kernel

/-! non-vacuity: `or_d(pk(1), and_v(v:pk(0), and_v(v:after(100), and_v(v:older(10), after(200)))))`
with a signature for key 0 only, locks up to 200 / 20 available: the reported locks are
200 / 10 and the executed lists are `[200, 100]` / `[10]`; with both keys the cheaper `pk(1)`
branch is taken and nothing is reported or executed. -/
def exAssets (keys : Key → Bool) : Assets :=
  { ecdsaSig := keys, schnorrSig := fun _ => none, rawPkhPk := fun _ => none,
    rawPkhEcdsa := fun _ => none, rawPkhSchnorr := fun _ => none, preimage := fun _ _ => false,
    checkOlder := fun n => n ≤ 20, checkAfter := fun n => n ≤ 200 }
def exKeyEnv : KeyEnv := ⟨fun _ => [], fun _ => [], fun _ => [], fun _ => [], fun _ _ => []⟩
def exCfg (keys : Key → Bool) : SatCfg := ⟨exKeyEnv, .segwitv0, false, true, exAssets keys⟩
def exMs : Ms :=
  .orD (.check (.pkK 1)) (.andV (.verify (.check (.pkK 0))) (.andV (.verify (.after 100))
    (.andV (.verify (.older 10)) (.after 200))))

example : (satDissat (exCfg (· == 0)) exMs).sat.abs = some 200 ∧
    (satDissat (exCfg (· == 0)) exMs).sat.rel = some 10 ∧
    (tSatDissat (exCfg (· == 0)) exMs).sat.A = [200, 100] ∧
    (tSatDissat (exCfg (· == 0)) exMs).sat.R = [10] := by decide
example : (satDissat (exCfg fun _ => true) exMs).sat.abs = none ∧
    (tSatDissat (exCfg fun _ => true) exMs).sat.A = [] := by decide

/-! ## T5 — key-source matching

`is_key_direct_child_of` and `Assets::has_ecdsa_key` are total (`Bool`-valued functions of the
model; the `len - 1` on an empty path is guarded since the F7 fix) and decide the documented
relation. -/

/-- T5: `is_key_direct_child_of` holds exactly when the source path is the key's path or the
key's path minus its last child number — for every pair of paths, the empty ones included -/
theorem is_key_direct_child_of_spec (pk src : List Nat) :
    isKeyDirectChildOf pk src = true ↔ (pk = src ∨ ∃ c, pk = src ++ [c]) := by
  unfold isKeyDirectChildOf
  by_cases h : pk = src
  · simp [h]
  · rw [← take_pred_eq_iff]
    simp [h]

/-- the former panic input (key without origin, same-fingerprint source of depth 1): `false` -/
theorem is_key_direct_child_of_empty_path (src : List Nat) :
    isKeyDirectChildOf [] src = decide (src = []) := by
  unfold isKeyDirectChildOf
  by_cases h : ([] : List Nat) = src
  · simp [← h]
  · have : src ≠ [] := fun hh => h hh.symm
    simp [h, this]

/-- T5: `Assets::has_ecdsa_key` is the documented predicate: some source can sign ECDSA, has
the key's fingerprint, and its path is the key's path or its parent -/
theorem has_ecdsa_key_spec (fp : Nat) (path : List Nat) (srcs : List KeySrc) :
    hasEcdsaKey fp path srcs = true ↔
      ∃ s ∈ srcs, s.ecdsa = true ∧ s.fp = fp ∧ (path = s.path ∨ ∃ c, path = s.path ++ [c]) := by
  unfold hasEcdsaKey
  simp only [List.any_eq_true, Bool.and_eq_true, beq_iff_eq, is_key_direct_child_of_spec]
  constructor
  · rintro ⟨s, hs, ⟨h1, h2⟩, h3⟩; exact ⟨s, hs, h1, h2, h3⟩
  · rintro ⟨s, hs, h1, h2, h3⟩; exact ⟨s, hs, ⟨h1, h2⟩, h3⟩

example : hasEcdsaKey 7 [48, 0, 5] [⟨7, [48], true⟩, ⟨7, [48, 0], true⟩] = true := by decide
example : hasEcdsaKey 7 [] [⟨7, [1], true⟩] = false := by decide

/-! ## sizes — what the announced figures still leave out (negations on concrete witnesses) -/

/-- the statement "announced sizes are upper bounds of the serialized sizes of the spend" —
FALSE of the current code for `wsh`, `sh(wsh)`, `sh(wpkh)` (pinned by plan.rs's unit tests) -/
def sizes_upper_bound_full : Prop :=
  ∀ (d : DescData) (t : List Ph) (stack : List Bytes),
    stack.length = t.length →
    (∀ i (h : i < t.length) (h' : i < stack.length), (stack[i]).length + 1 ≤ (t[i]).size) →
    serializedScriptSigSize (planSatisfy d stack).2 ≤ scriptsigSize d.ty (t.map Item.ph) d.script.length ∧
    serializedWitnessSize (planSatisfy d stack).1 ≤ Plan.witnessSize d.ty (t.map Item.ph)

/-- `sh(wpkh)`: `scriptsig_size` says 23; the scriptSig `16 0014<20 bytes>` serializes to 24
bytes (the push opcode of the witness program is not counted).  Same for `sh(wsh)`: 35 vs 36. -/
theorem sh_segwit_scriptsig_size_off_by_one (d : DescData) (t : List Item) (n : Nat)
    (h : (d.ty = .shWpkh ∧ d.inner.length = 22) ∨ (d.ty = .shWsh ∧ d.inner.length = 34)) :
    serializedScriptSigSize d.unsignedScriptSig = scriptsigSize d.ty t n + 1 := by
  rcases h with ⟨h, hl⟩ | ⟨h, hl⟩ <;>
    simp [DescData.unsignedScriptSig, h, serializedScriptSigSize, pushSlice, pushPrefix, hl,
      scriptsigSize, DescType.segwitVersion, varintLen]

/-- `wsh`: `witness_size` is the size of the template only; the real witness has one more
item, the witness script -/
theorem wsh_witness_size_omits_script (d : DescData) (hty : d.ty = .wsh) (stack : List Bytes) :
    (planSatisfy d stack).1 = stack ++ [d.script] ∧
    ∀ t, Plan.witnessSize .wsh t = templateSize t := by
  constructor
  · simp [planSatisfy, hty]
  · intro t; simp [Plan.witnessSize, DescType.segwitVersion]

theorem sizes_upper_bound_full_false : ¬ sizes_upper_bound_full := by
  intro h
  -- wsh(1): empty template, witness = [script]
  have := (h ⟨.wsh, [0x51], []⟩ [] [] rfl (by intro i hi; simp at hi)).2
  revert this
  decide

/-- `sh(<miniscript>)` after the F9 fix: the announced scriptSig size counts every template
item, the redeem-script push, and the compact-size prefix of that byte count -/
theorem sh_scriptsig_size_counts_redeem (t : List Item) (n : Nat) :
    scriptsigSize .sh t n =
      ((t.map Item.size).sum + pushLen n) + varintLen ((t.map Item.size).sum + pushLen n) := by
  simp [scriptsigSize, DescType.segwitVersion]

/-! ## items and sizes — what the per-item judge (`J tmpl-items`) buys -/

/-- an item that fits its placeholder serializes (length prefix + bytes) within the size the
placeholder announces -/
theorem item_fits_size (it : Item) (len : Nat) (h : it.fits len = true) :
    varintLen len + len ≤ it.size := by
  cases it with
  | ph p =>
    cases p <;> simp [Item.fits] at h <;> simp [Item.size, Ph.size, varintLen] <;> (try split) <;> omega
  | tapScript n => simp [Item.fits] at h; subst h; simp [Item.size]; omega
  | tapControl n => simp [Item.fits] at h; subst h; simp [Item.size]; omega

/-- hence a witness whose items fit the template one by one serializes within
`witness_size(template)` — the announced `Plan::witness_size` of `wpkh`, `sh(wpkh)` and `tr`
(whose witness is exactly the completed template) is an upper bound of the real size -/
theorem witness_size_upper_bound (t : List Item) (ls : List Nat) (hlen : ls.length = t.length)
    (h : ∀ p ∈ t.zip ls, p.1.fits p.2 = true) :
    varintLen ls.length + (ls.map fun l => varintLen l + l).sum ≤ templateSize t := by
  unfold templateSize
  have hsum : (ls.map fun l => varintLen l + l).sum ≤ (t.map Item.size).sum := by
    induction t generalizing ls with
    | nil => cases ls <;> simp_all
    | cons it t ih =>
      cases ls with
      | nil => simp at hlen
      | cons l ls =>
        simp only [List.map_cons, List.sum_cons]
        have h1 := item_fits_size it l (h (it, l) (by simp))
        have h2 := ih ls (by simpa using hlen) (fun p hp => h p (by simp [hp]))
        omega
  rw [hlen]; omega

/-- `wpkh`, `sh(wpkh)`, `tr`: the witness `Plan::satisfy` returns is exactly the completed
template, so the announced `witness_size` bounds its serialized size -/
theorem witness_size_upper_bound_plan (d : DescData)
    (hty : d.ty = .wpkh ∨ d.ty = .shWpkh ∨ d.ty = .tr) (t : List Item) (stack : List Bytes)
    (hlen : stack.length = t.length)
    (hfit : ∀ q ∈ t.zip stack, q.1.fits q.2.length = true) :
    serializedWitnessSize (planSatisfy d stack).1 ≤ Plan.witnessSize d.ty t := by
  have hw : (planSatisfy d stack).1 = stack := by
    rcases hty with h | h | h <;> simp [planSatisfy, h]
  have hs : Plan.witnessSize d.ty t = templateSize t := by
    rcases hty with h | h | h <;> simp [Plan.witnessSize, h, DescType.segwitVersion]
  rw [hw, hs]
  unfold serializedWitnessSize
  split
  · exact Nat.zero_le _
  · have := witness_size_upper_bound t (stack.map List.length) (by simpa using hlen)
      (by
        intro p hp
        rw [List.zip_map_right] at hp
        obtain ⟨q, hq, rfl⟩ := List.mem_map.mp hp
        exact hfit q hq)
    simpa [List.map_map, Function.comp_def] using this

example : Plan.witnessSize .tr [.ph (.schnorrSig 0 64)] = templateSize [.ph (.schnorrSig 0 64)] := by decide

/-- `bare`, `pkh`, `sh(<miniscript>)` (the figures the F9 fix corrected): the announced
`scriptsig_size` — Σ placeholder sizes, + the redeem-script push for `sh`, + the compact size
of that byte count — bounds the serialized scriptSig `Plan::satisfy` returns, and there is no
witness.  Side conditions: the items fit their placeholders, the script is 1 or 5..65535
bytes long (every script with a key or a hash is). -/
theorem scriptsig_size_upper_bound (d : DescData) (hty : d.ty = .bare ∨ d.ty = .pkh ∨ d.ty = .sh)
    (t : List Ph) (stack : List Bytes) (hlen : stack.length = t.length)
    (hfit : ∀ q ∈ t.zip stack, (Item.ph q.1).fits q.2.length = true)
    (hscript : d.script.length = 1 ∨ (5 ≤ d.script.length ∧ d.script.length ≤ 0xffff)) :
    serializedScriptSigSize (planSatisfy d stack).2 ≤
        scriptsigSize d.ty (t.map Item.ph) d.script.length ∧
    serializedWitnessSize (planSatisfy d stack).1 = 0 := by
  have hsum : ((t.map Item.ph).map Item.size).sum = (t.map Ph.size).sum := by
    simp [List.map_map, Function.comp_def, Item.size]
  have hb := w2ss_length t stack hlen hfit
  have hsc := w2ssItem_length d.script (by omega)
  rcases hty with h | h | h
  · refine ⟨?_, by simp [planSatisfy, h, serializedWitnessSize]⟩
    simp only [planSatisfy, h, scriptsigSize, DescType.segwitVersion, serializedScriptSigSize, hsum]
    have := varintLen_mono hb
    simp; omega
  · refine ⟨?_, by simp [planSatisfy, h, serializedWitnessSize]⟩
    simp only [planSatisfy, h, scriptsigSize, DescType.segwitVersion, serializedScriptSigSize, hsum]
    have := varintLen_mono hb
    simp; omega
  · refine ⟨?_, by simp [planSatisfy, h, serializedWitnessSize]⟩
    simp only [planSatisfy, h, scriptsigSize, DescType.segwitVersion, serializedScriptSigSize, hsum,
      w2ss_append, List.length_append]
    have hs1 : (witnessToScriptSig [d.script]).length = (w2ssItem d.script).length := by
      simp [witnessToScriptSig]
    have := varintLen_mono (Nat.add_le_add hb (hs1 ▸ hsc))
    simp [hs1] at this ⊢; omega

/-- non-vacuity: `sh(pk(K))` with a 72-byte signature and a 35-byte redeem script -/
example : serializedScriptSigSize (planSatisfy ⟨.sh, List.replicate 35 0xac, []⟩ [List.replicate 72 0x30]).2 = 110 ∧
    scriptsigSize .sh [.ph (.ecdsaSig 0)] 35 = 110 := by decide +kernel

/-- the same bound for `wsh` / `sh(wsh)` witnesses — FALSE of the current code (keyed findings
`J sizes wsh.` / `J sizes shwsh.`): the witness script is not counted -/
def wsh_witness_size_bound : Prop :=
  ∀ (d : DescData), (d.ty = .wsh ∨ d.ty = .shWsh) → ∀ (t : List Item) (stack : List Bytes),
    stack.length = t.length → (∀ q ∈ t.zip stack, q.1.fits q.2.length = true) →
    serializedWitnessSize (planSatisfy d stack).1 ≤ Plan.witnessSize d.ty t

theorem wsh_witness_size_bound_false : ¬ wsh_witness_size_bound := by
  intro h
  have := h ⟨.wsh, List.replicate 35 0xac, []⟩ (.inl rfl) [.ph (.ecdsaSig 0)] [List.replicate 72 0x30]
    rfl (by decide)
  revert this
  decide +kernel

/-- … and the scriptSig bound for `sh(wpkh)` / `sh(wsh)` — FALSE (keyed findings
`J sizes shwpkh.` / `J sizes shwsh.`): 23 / 35 announced, 24 / 36 serialized -/
def sh_segwit_scriptsig_size_bound : Prop :=
  ∀ (d : DescData), (d.ty = .shWpkh ∧ d.inner.length = 22) ∨ (d.ty = .shWsh ∧ d.inner.length = 34) →
    ∀ (t : List Item) (stack : List Bytes) (n : Nat),
      serializedScriptSigSize (planSatisfy d stack).2 ≤ scriptsigSize d.ty t n

theorem sh_segwit_scriptsig_size_bound_false : ¬ sh_segwit_scriptsig_size_bound := by
  intro h
  have := h ⟨.shWpkh, [], List.replicate 22 0⟩ (.inl ⟨rfl, by decide⟩) [] [] 0
  revert this
  decide +kernel

end MsVerif.C17

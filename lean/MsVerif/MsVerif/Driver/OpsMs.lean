/- Ops on miniscripts: typing, encoding, ext data, satisfier templates, script execution. -/
import MsVerif.Driver.AstParse
import MsVerif.Model.TypeCheck
import MsVerif.Model.Encode
import MsVerif.Model.Ext
import MsVerif.Model.Satisfy
import MsVerif.Spec.Hash
import MsVerif.Spec.Frag

namespace MsVerif.Driver
open MsVerif Script

/-- symbol tables sent by the harness in `D` lines -/
structure Tables where
  keys : List (Nat × Bytes × Bytes × Bytes) := []      -- id ↦ (ser, sortKey, pkh)
  hashes : List ((HashKind × Nat) × Bytes × Bytes) := [] -- (kind,id) ↦ (value, preimage)
  rawpkh : List (Nat × Bytes) := []
  sigs : List (Bytes × Bytes) := []                      -- valid (pubkey, signature) pairs
  dsigs : List (Nat × Bytes × Bytes) := []               -- valid (sighash domain, pubkey, signature)
  tapcommits : List (Bytes × Bytes × Bytes) := []        -- verified (control block, script, output key)

def Tables.keyEnv (t : Tables) : KeyEnv where
  ser k := match t.keys.lookup k with | some (s, _, _) => s | none => []
  sortKey k := match t.keys.lookup k with | some (_, s, _) => s | none => []
  pkh k := match t.keys.lookup k with | some (_, _, h) => h | none => []
  rawPkh h := (t.rawpkh.lookup h).getD []
  hashVal kind h := match t.hashes.lookup (kind, h) with | some (v, _) => v | none => []

def parseHashKind : String → Option HashKind
  | "sha256" => some .sha256 | "hash256" => some .hash256 | "ripemd160" => some .ripemd160
  | "hash160" => some .hash160 | _ => none
def HashKind.name : HashKind → String
  | .sha256 => "sha256" | .hash256 => "hash256" | .ripemd160 => "ripemd160" | .hash160 => "hash160"

def defLine (t : Tables) (args : List String) : Option Tables :=
  match args with
  | ["key", id, ser, sort, pkh] => do
    let id ← id.toNat?; let ser ← Hash.ofHex ser; let sort ← Hash.ofHex sort; let pkh ← Hash.ofHex pkh
    pure { t with keys := (id, ser, sort, pkh) :: t.keys }
  | ["hash", kind, id, v, p] => do
    let kind ← parseHashKind kind; let id ← id.toNat?; let v ← Hash.ofHex v; let p ← Hash.ofHex p
    pure { t with hashes := ((kind, id), v, p) :: t.hashes }
  | ["rawpkh", id, h] => do
    let id ← id.toNat?; let h ← Hash.ofHex h
    pure { t with rawpkh := (id, h) :: t.rawpkh }
  | ["sig", pk, sg] => do
    let pk ← Hash.ofHex pk; let sg ← Hash.ofHex sg
    pure { t with sigs := (pk, sg) :: t.sigs }
  | ["clearsigs"] => some { t with sigs := [], dsigs := [], tapcommits := [] }
  | ["dsig", dom, pk, sg] => do
    let dom ← dom.toNat?; let pk ← Hash.ofHex pk; let sg ← Hash.ofHex sg
    pure { t with dsigs := (dom, pk, sg) :: t.dsigs }
  | ["tapcommit", cb, sc, ok] => do
    let cb ← Hash.ofHex cb; let sc ← Hash.ofHex sc; let ok ← Hash.ofHex ok
    pure { t with tapcommits := (cb, sc, ok) :: t.tapcommits }
  | _ => none

/-! ### canonical output strings -/

def showOptNat : Option Nat → String | some n => toString n | none => "-"

def showSatData : Option SatData → String
  | none => "none"
  | some d => s!"({d.wSize},{d.wCount},{d.ssSize},{d.execStack},{d.execOps})"

def showTl (t : TimelockInfo) : String :=
  String.ofList [bitChar t.csvWithHeight, bitChar t.csvWithTime, bitChar t.cltvWithHeight,
    bitChar t.cltvWithTime, bitChar t.containsCombination]

def showExt (e : ExtData) : String :=
  s!"pk={e.pkCost} fv={bitChar e.hasFreeVerify} ops={e.staticOps} sat={showSatData e.satData} dis={showSatData e.dissatData} tl={showTl e.timelockInfo} h={e.treeHeight}"

def showPh : Ph → String
  | .pubkey k s => s!"pk({k}:{s})" | .pubkeyHash h s => s!"pkh({h}:{s})"
  | .ecdsaSig k => s!"sig({k})" | .ecdsaSigPkh h => s!"sigh({h})"
  | .schnorrSig k s => s!"ssig({k}:{s})" | .schnorrSigPkh h s => s!"ssigh({h}:{s})"
  | .preimage kind h => s!"pre({HashKind.name kind}:{h})"
  | .hashDissat => "z32" | .pushOne => "1" | .pushZero => "0"

def showSat (s : Sat) : String :=
  let st := match s.stack with
    | .stack l => "S[" ++ ",".intercalate (l.map showPh) ++ "]"
    | .unavailable => "UNAVAILABLE"
    | .impossible => "IMPOSSIBLE"
  s!"{st} sig={bitChar s.hasSig} abs={showOptNat s.abs} rel={showOptNat s.rel}"

/-! ### assets wire format: `e=0,1;s=200:64;p=sha256:0;o=10;a=100;rp=0:0;re=0:0;rs=0:200:64` -/

def splitItems (s : String) : List String := if s == "-" then [] else s.splitOn ","

def parsePair (s : String) : Option (Nat × Nat) :=
  match s.splitOn ":" with
  | [a, b] => do let a ← a.toNat?; let b ← b.toNat?; pure (a, b)
  | _ => none

def parseAssets (s : String) : Option Assets := do
  let fields := (s.splitOn ";").filterMap fun f =>
    match f.splitOn "=" with | [k, v] => some (k, v) | _ => none
  let get := fun k => (fields.lookup k).getD "-"
  let e ← (splitItems (get "e")).mapM String.toNat?
  let sc ← (splitItems (get "s")).mapM parsePair
  let p ← (splitItems (get "p")).mapM fun it =>
    match it.splitOn ":" with
    | [k, h] => do let k ← parseHashKind k; let h ← h.toNat?; pure (k, h)
    | _ => none
  let o ← (splitItems (get "o")).mapM String.toNat?
  let a ← (splitItems (get "a")).mapM String.toNat?
  let rp ← (splitItems (get "rp")).mapM parsePair
  let re ← (splitItems (get "re")).mapM parsePair
  let rs ← (splitItems (get "rs")).mapM fun it =>
    match it.splitOn ":" with
    | [h, k, sz] => do let h ← h.toNat?; let k ← k.toNat?; let sz ← sz.toNat?; pure (h, (k, sz))
    | _ => none
  pure {
    ecdsaSig := fun k => e.contains k
    schnorrSig := fun k => sc.lookup k
    rawPkhPk := fun h => rp.lookup h
    rawPkhEcdsa := fun h => re.lookup h
    rawPkhSchnorr := fun h => rs.lookup h
    preimage := fun k h => p.contains (k, h)
    checkOlder := fun n => o.contains n
    checkAfter := fun n => a.contains n }

/-! ### script execution judge -/

def realHash : HashOp → Bytes → Bytes
  | .sha256 => Hash.sha256 | .hash256 => Hash.hash256 | .ripemd160 => Hash.ripemd160
  | .hash160 => Hash.hash160

/-- flags per context: consensus + standardness of that output type -/
def ctxFlags (ctx : Ctx) (limits : Bool) : Flags :=
  match ctx with
  | .tap => ⟨true, true, true, true, true, false, limits⟩
  | .segwitv0 => ⟨false, true, true, true, true, limits, limits⟩
  | _ => ⟨false, false, true, true, true, limits, limits⟩

def mkEnv (t : Tables) (ctx : Ctx) (limits : Bool) (lockTime seq : Nat) : Env where
  flags := ctxFlags ctx limits
  sigOk pk sg := t.sigs.contains (pk, sg)
  hash := realHash
  nLockTime := lockTime
  nSequence := seq
  txVersion := 2

def parseHexList (s : String) : Option (List Bytes) :=
  if s == "." then some [] else (s.splitOn ",").mapM Hash.ofHex

def showErr (e : Err) : String := reprStr e

/-- run a script (bytes) on a witness given bottom-first, as it appears in a witness -/
def execVerdict (t : Tables) (ctx : Ctx) (limits : Bool) (script : Bytes) (witBottomFirst : List Bytes)
    (lockTime seq : Nat) : String :=
  match parse script with
  | none => "bad:unparseable-script"
  | some ops =>
    let env := mkEnv t ctx limits lockTime seq
    match runPeak env ops (State.init witBottomFirst.reverse) witBottomFirst.length with
    | .error e => "bad:" ++ showErr e
    | .ok (s, peak) =>
      if !s.conds.isEmpty then "bad:unbalanced"
      else match s.core.stack with
        | [a] => if castToBool a then s!"ok ops={s.core.ops} peak={peak}" else "bad:false"
        | [] => "bad:empty-stack"
        | _ => "bad:unclean-stack"

def stripStats (s : String) : String := (s.splitOn " ").headD ""

def opsMs (t : Tables) (kind op : String) (args : List String) : Option String :=
  match kind, op, args with
  | "C", "typeof", [_ctx, ast] => do
    let ms ← parseAst ast
    pure (match typeOf ms with | some ty => ty.toStr | none => "ERR")
  | "C", "encode", [ctx, ast] => do
    let ctx ← parseCtx ctx; let ms ← parseAst ast
    pure (Hash.toHexW (encodeBytes t.keyEnv ctx ms))
  | "C", "scriptsize", [ctx, ast] => do
    let ctx ← parseCtx ctx; let ms ← parseAst ast
    pure (toString (scriptSize t.keyEnv ctx ms))
  | "C", "ext", [ctx, ast] => do
    let ctx ← parseCtx ctx; let ms ← parseAst ast
    pure (showExt (extOf t.keyEnv ctx ms))
  | "C", "satisfy", [ctx, mode, ast, assets] => do
    let ctx ← parseCtx ctx; let ms ← parseAst ast; let a ← parseAssets assets
    let ty ← typeOf ms
    let cfg : SatCfg := ⟨t.keyEnv, ctx, mode == "mall", ty.mall.signed, a⟩
    pure (showSat (satDissat cfg ms).sat)
  | "C", "dissatisfy", [ctx, mode, ast, assets] => do
    let ctx ← parseCtx ctx; let ms ← parseAst ast; let a ← parseAssets assets
    let ty ← typeOf ms
    let cfg : SatCfg := ⟨t.keyEnv, ctx, mode == "mall", ty.mall.signed, a⟩
    pure (showSat (satDissat cfg ms).dissat)
  | "C", "sha256", [h] => do let b ← Hash.ofHex h; pure (Hash.toHex (Hash.sha256 b))
  | "C", "ripemd160", [h] => do let b ← Hash.ofHex h; pure (Hash.toHex (Hash.ripemd160 b))
  | "C", "hash160", [h] => do let b ← Hash.ofHex h; pure (Hash.toHex (Hash.hash160 b))
  | "C", "hash256", [h] => do let b ← Hash.ofHex h; pure (Hash.toHex (Hash.hash256 b))
  -- J exec <ctx> <limits 0/1> <locktime> <sequence> <script hex> <witness items, bottom first> [case info…]
  | "J", "exec", ctx :: limits :: lt :: sq :: script :: wit :: _ => do
    let ctx ← parseCtx ctx; let lt ← lt.toNat?; let sq ← sq.toNat?
    let script ← Hash.ofHex script; let wit ← parseHexList wit
    pure (stripStats (execVerdict t ctx (limits == "1") script wit lt sq))
  -- J execfail: the same run must NOT be accepted (used for lock-time necessity etc.)
  | "J", "execfail", ctx :: limits :: lt :: sq :: script :: wit :: _ => do
    let ctx ← parseCtx ctx; let lt ← lt.toNat?; let sq ← sq.toNat?
    let script ← Hash.ofHex script; let wit ← parseHexList wit
    let v := stripStats (execVerdict t ctx (limits == "1") script wit lt sq)
    pure (if v == "ok" then "bad:accepted" else "ok")
  -- C execstats: measured executed op count and peak stack (for C09), full verdict string
  | "C", "execstats", ctx :: limits :: lt :: sq :: script :: wit :: _ => do
    let ctx ← parseCtx ctx; let lt ← lt.toNat?; let sq ← sq.toNat?
    let script ← Hash.ofHex script; let wit ← parseHexList wit
    pure (execVerdict t ctx (limits == "1") script wit lt sq)
  -- model-internal self check of the bridge statement: flat execution of the encoded script
  -- equals the structured fragment semantics (limits off), on this concrete stack
  | "C", "fragsame", ctx :: lt :: sq :: ast :: wit :: _ => do
    let ctx ← parseCtx ctx; let lt ← lt.toNat?; let sq ← sq.toNat?
    let ms ← parseAst ast; let wit ← parseHexList wit
    let env := mkEnv t ctx false lt sq
    let c0 : Core := ⟨wit.reverse, [], 0⟩
    let flat := (run env (encode t.keyEnv ctx ms) ⟨c0, []⟩).map (·.core)
    let str := frag env t.keyEnv ctx ms c0
    let same := match flat, str with
      | .ok a, .ok b => a == b
      | .error a, .error b => a == b
      | _, _ => false
    pure (if same then "same" else "diff")
  | _, _, _ => none

end MsVerif.Driver

/-
Ops for C16 (descriptor outputs, derivation, multipath split).

Descriptor wire format (no spaces):
  bare(<ast>)  pkh(<k>)  wpkh(<k>)  wsh(<ast>)  sh(<ast>)  sh(wsh(<ast>))  sh(wpkh(<k>))
  tr(<k>)  tr(<k>;<depth>:<ast>;<depth>:<ast>…)
with `<ast>` the neutral miniscript AST of Driver/AstParse.lean and `<k>` a key atom.

  C spk|explicit|scriptcode|unsignedss <desc>      model accessor over the `D key` tables, with the
                                                   REAL sha256/hash160 of Spec/Hash.lean (`ERR` = Err)
  C addrspk <desc>                                 script_pubkey of the model's address payload
  C addrstr <desc> <net>                           the model's address STRING (Base58Check / Bech32(m) in Lean)
  C trspk <desc> <root|-> <outkey>                 tr: the model computes the BIP341 Merkle root (C15 model of
                                                   TrSpendInfo::from_tr, real tagged SHA-256); `<root> -> <outkey>`
                                                   is the elliptic-curve tweak done by rust-bitcoin (the only oracle);
                                                   answer: p2tr(outkey) if the roots agree, `ROOT:<model root>` otherwise
  C desctype <desc>                                `Descriptor::desc_type()` and its `segwit_version()`: e.g. `ShWsh:0`, `Bare:-`
  C build <desc>                                   OK | ERR: would the constructor (`Descriptor::new_*` after `from_ast`
                                                   on every node) accept this shape over the `D key` table keys?  The model
                                                   is C12's entry-point model (Model/Validate.lean `accepts … .wrapper`,
                                                   `keyOnlyAccepts`, leaves through `.trNew`), so a false rejection is a
                                                   correspondence failure instead of a silently shrinking input domain
  J buildexpect <desc> <accept|reject> <OK|ERR>    directed expectation stated by the harness
  J addrspec <type> <net> <hex data> <address>     the library's `Address::to_string()` is the specification's address
                                                   of the output (Spec/Address.lean) AND decodes (Lean Base58Check /
                                                   Bech32(m) decoder) to the expected network class / hrp and payload
  J outspec <type> <hex data> <spk> <explicit> <scriptcode> <unsignedss>
        the IMPLEMENTATION's four answers are judged by Spec/Outputs.lean for the output that
        commits to `<hex data>` (pubkey for pkh/wpkh/shwpkh, explicit script otherwise)
  J rustoracle <name> <input…> <pass|fail:…>       verdict of an oracle inside rust-bitcoin

Symbolic key language (keys of `Descriptor<DescriptorPublicKey>`), `<desc>@<atom>=<key>,…`:
  key   := [origin] body          origin := `[F<n>/<step>/…]`
  body  := S<id> | X<id>/<step>/…[/*|/*h] | M<id>{<path>;<path>;…}[/*|/*h]
  path  := m | <step>/<step>/…    step := <n> | <n>h
A derived public key prints as `S<id>` or `X<id>/<i>/<i>/…` (the xpub reached from `X<id>` along
normal indices), `PANIC` for an `unreachable!()` arm.

  C atindex <kdesc> <index>        ok:<table> | err:<Kind>     (at_derivation_index)
  C deriveat <kdesc> <index>       derive_at_index(..).into_result()
  C haswild <kdesc>                has_wildcard, is_multipath as two bits
  C derive <kdesc> <index>         ok:<table of derived keys> | err:<Kind>
  C definite <kdesc>               into_definite
  C split <kdesc>                  ok:<table>|<table>… | err:<Kind>
  C findidx <kdesc> <lo> <hi> <t|none>   target = spk at index t (symbolic: the derived key table)
-/
import MsVerif.Driver.OpsMs
import MsVerif.Model.Descriptor
import MsVerif.Spec.Bip341
import MsVerif.Driver.OpsValidate

namespace MsVerif.Driver.DescOps
open MsVerif MsVerif.Driver MsVerif.Desc MsVerif.Keys MsVerif.Bip32 MsVerif.Outputs

/-! ### descriptor shapes -/

def stripPrefix (p : String) (cs : List Char) : Option (List Char) :=
  let pc := p.toList
  if cs.take pc.length == pc then some (cs.drop pc.length) else none

def stripSuffix (p : String) (cs : List Char) : Option (List Char) :=
  let pc := p.toList
  if cs.length ≥ pc.length && cs.drop (cs.length - pc.length) == pc then
    some (cs.take (cs.length - pc.length)) else none

def between (pre suf : String) (cs : List Char) : Option String :=
  (stripPrefix pre cs).bind fun r => (stripSuffix suf r).map String.ofList

def parseLeaf (s : String) : Option (Nat × Ms) :=
  match s.splitOn ":" with
  | [d, a] => do let d ← d.toNat?; let m ← parseAst a; pure (d, m)
  | _ => none

def parseDesc (s : String) : Option Desc :=
  let cs := s.toList
  match between "sh(wsh(" "))" cs with
  | some a => (parseAst a).map fun m => .sh (.wsh m)
  | none =>
  match between "sh(wpkh(" "))" cs with
  | some k => k.toNat?.map fun k => .sh (.wpkh k)
  | none =>
  match between "sh(" ")" cs with
  | some a => (parseAst a).map fun m => .sh (.ms m)
  | none =>
  match between "wsh(" ")" cs with
  | some a => (parseAst a).map .wsh
  | none =>
  match between "wpkh(" ")" cs with
  | some k => k.toNat?.map .wpkh
  | none =>
  match between "pkh(" ")" cs with
  | some k => k.toNat?.map .pkh
  | none =>
  match between "bare(" ")" cs with
  | some a => (parseAst a).map .bare
  | none =>
  match between "tr(" ")" cs with
  | some body =>
    match body.splitOn ";" with
    | k :: leaves => do
      let k ← k.toNat?
      let ls ← leaves.mapM parseLeaf
      pure (.tr k ls)
    | [] => none
  | none => none

/-- parameters of a concrete run: real hashes, key bytes from the `D key` tables; the taproot
output key is outside the model (judged by rust-bitcoin in the harness) -/
def descParams (t : Tables) : Params where
  H := ⟨Hash.sha256, Hash.hash160⟩
  -- the sort key is computed by the MODEL from the pushed serialisation (mirror of
  -- `bip67_sort_key` / the x-only variant), not taken from the `D key` sort column
  env := { t.keyEnv with sortKey := fun k => sortKeyOfSer (t.keyEnv.ser k) }
  trOutputKey _ _ := []

def isTr : Desc → Bool
  | .tr .. => true
  | _ => false

def hexOrErr : Option Bytes → String
  | some b => Hash.toHexW b
  | none => "ERR"

/-- the constructor of the harness (`ast::to_ms` = `from_ast` bottom-up, then `Descriptor::new_*`) -/
def buildAccepts (t : Tables) : Desc → Bool
  | .bare ms => accepts t.keyEnv (Val.keyInfoOf t) .bare .wrapper ms
  | .wsh ms | .sh (.wsh ms) => accepts t.keyEnv (Val.keyInfoOf t) .segwitv0 .wrapper ms
  | .sh (.ms ms) => accepts t.keyEnv (Val.keyInfoOf t) .legacy .wrapper ms
  | .pkh k => keyOnlyAccepts (Val.keyInfoOf t) .pkh k
  | .wpkh k => keyOnlyAccepts (Val.keyInfoOf t) .wpkh k
  | .sh (.wpkh k) => keyOnlyAccepts (Val.keyInfoOf t) .shWpkh k
  | .tr ik leaves =>
    keyOnlyAccepts (Val.keyInfoOf t) .tr ik
      && leaves.all (fun l => decide (l.1 ≤ 128) && accepts t.keyEnv (Val.keyInfoOf t) .tap .trNew l.2)

def parseNet : String → Option Network
  | "bitcoin" => some .bitcoin | "testnet" => some .testnet | "testnet4" => some .testnet4
  | "signet" => some .signet | "regtest" => some .regtest | _ => none

/-- decode an address string with the Lean decoders and compare with what the output commits to -/
def addrDecodesTo (H : Hashes) (net : Address.Net) (o : Output) (s : String) : Bool :=
  match o with
  | .bare _ => false
  | .pkh pk => Address.decodeLegacy s == some (net.cls, .p2pkh, H.hash160 pk)
  | .sh rs => Address.decodeLegacy s == some (net.cls, .p2sh, H.hash160 rs)
  | .shWpkh pk => Address.decodeLegacy s == some (net.cls, .p2sh, H.hash160 (p2wpkh (H.hash160 pk)))
  | .shWsh ws => Address.decodeLegacy s == some (net.cls, .p2sh, H.hash160 (p2wsh (H.sha256 ws)))
  | .wpkh pk => Address.decodeSegwit s == some (net.hrp, 0, H.hash160 pk)
  | .wsh ws => Address.decodeSegwit s == some (net.hrp, 0, H.sha256 ws)
  | .tr k => Address.decodeSegwit s == some (net.hrp, 1, k)

def parseOutput (ty : String) (data : Bytes) : Option Output :=
  match ty with
  | "bare" => some (.bare data) | "pkh" => some (.pkh data) | "wpkh" => some (.wpkh data)
  | "sh" => some (.sh data) | "wsh" => some (.wsh data) | "shwpkh" => some (.shWpkh data)
  | "shwsh" => some (.shWsh data) | "tr" => some (.tr data)
  | _ => none

/-! ### symbolic keys -/

abbrev SX := Nat × List Nat      -- xpub id, normal indices walked from it
abbrev SKey := DPK SX Nat

def symCkd (x : SX) (i : Nat) : SX := (x.1, x.2 ++ [i])

def parseStep (s : String) : Option Child :=
  match stripSuffix "h" s.toList with
  | some n => (String.ofList n).toNat?.map .hardened
  | none => s.toNat?.map .normal

def parsePath (steps : List String) : Option (List Child) := steps.mapM parseStep

def parseWild (steps : List String) : List String × Wildcard :=
  match steps.getLast? with
  | some "*" => (steps.dropLast, .unhardened)
  | some "*h" => (steps.dropLast, .hardened)
  | _ => (steps, .none)

def parseOrigin (s : String) : Option Origin :=
  match s.splitOn "/" with
  | f :: steps => do
    let fp ← (stripPrefix "F" f.toList).bind fun n => (String.ofList n).toNat?
    let p ← parsePath steps
    pure ⟨fp, p⟩
  | [] => none

def parseKeyBody (origin : Option Origin) (s : String) : Option SKey :=
  let cs := s.toList
  match cs with
  | 'S' :: n => (String.ofList n).toNat?.map fun id => .single origin id
  | 'X' :: rest =>
    match (String.ofList rest).splitOn "/" with
    | id :: steps => do
      let id ← id.toNat?
      let (steps, wc) := parseWild steps
      let p ← parsePath steps
      pure (.xpub origin (id, []) p wc)
    | [] => none
  | 'M' :: rest =>
    match (String.ofList rest).splitOn "{" with
    | [id, tail] =>
      match tail.splitOn "}" with
      | [paths, wcs] => do
        let id ← id.toNat?
        let ps ← (paths.splitOn ";").mapM fun p =>
          if p == "m" then some [] else parsePath (p.splitOn "/")
        let wc ← match wcs with
          | "" => some Wildcard.none | "/*" => some .unhardened | "/*h" => some .hardened | _ => none
        pure (.multi origin (id, []) ps wc)
      | _ => none
    | _ => none
  | _ => none

def parseKey (s : String) : Option SKey :=
  match s.toList with
  | '[' :: rest =>
    match (String.ofList rest).splitOn "]" with
    | [o, body] => do let o ← parseOrigin o; parseKeyBody (some o) body
    | _ => none
  | _ => parseKeyBody none s

def parseKDesc (s : String) : Option (KDesc SKey) :=
  match s.splitOn "@" with
  | [sh, tab] => do
    let shape ← parseDesc sh
    let entries ← (tab.splitOn ",").mapM fun e =>
      match e.splitOn "=" with
      | [a, k] => do let a ← a.toNat?; let k ← parseKey k; pure (a, k)
      | _ => none
    pure ⟨shape, fun a => entries.lookup a⟩
  | _ => none

def showStep : Child → String
  | .normal i => toString i
  | .hardened i => toString i ++ "h"

def showPath (p : List Child) : String := "/".intercalate (p.map showStep)
def showPathSuffix (p : List Child) : String := String.join (p.map fun c => "/" ++ showStep c)

def showWild : Wildcard → String
  | .none => "" | .unhardened => "/*" | .hardened => "/*h"

def showOrigin : Option Origin → String
  | none => ""
  | some o => "[F" ++ toString o.fingerprint ++ showPathSuffix o.path ++ "]"

def showSX (x : SX) : String := "X" ++ toString x.1 ++ String.join (x.2.map fun i => "/" ++ toString i)

def showKey : SKey → String
  | .single o k => showOrigin o ++ "S" ++ toString k
  | .xpub o x p wc => showOrigin o ++ showSX x ++ showPathSuffix p ++ showWild wc
  | .multi o x ps wc =>
    showOrigin o ++ "M" ++ toString x.1 ++ "{" ++
      ";".intercalate (ps.map fun p => if p.isEmpty then "m" else showPath p) ++ "}" ++ showWild wc

def showDerived : Derived SX Nat → String
  | .single k => "S" ++ toString k
  | .ofXpub x => showSX x
  | .panic => "PANIC"

/-- sorted, duplicate-free atoms of the shape -/
def atomsOf (d : Desc) : List Nat := (d.keysPre.mergeSort (· ≤ ·)).eraseDups

def showTable {κ : Type} (sh : κ → String) (d : KDesc κ) : String :=
  ",".intercalate ((atomsOf d.shape).map fun a =>
    toString a ++ "=" ++ (match d.key a with | some k => sh k | none => "?"))

def showKeyErr : KeyErr → String
  | .wildcard => "Wildcard" | .multipath => "Multipath" | .hardenedStep => "HardenedStep"
  | .noWildcard => "NoWildcard"

def showSplitErr : SplitErr → String
  | .lenMismatch => "LenMismatch" | .panicEmpty => "PANIC"

def strBytes (s : String) : Bytes := s.toList.map fun c => UInt8.ofNat c.toNat

/-- symbolic scriptPubKey: the derived-key table (injective stand-in for the real script) -/
def symSpk (d : KDesc (Derived SX Nat)) : Bytes := strBytes (showTable showDerived d)

end MsVerif.Driver.DescOps

namespace MsVerif.Driver
open MsVerif MsVerif.Desc MsVerif.Keys MsVerif.Bip32 MsVerif.Outputs MsVerif.Driver.DescOps

def opsDesc (t : Tables) (kind op : String) (args : List String) : Option String :=
  let P := descParams t
  match kind, op, args with
  | "C", "spk", [d] => do
    let d ← parseDesc d
    pure (if isTr d then "TR" else Hash.toHexW (d.scriptPubkey P))
  | "C", "explicit", [d] => do let d ← parseDesc d; pure (hexOrErr (d.explicitScript P))
  | "C", "scriptcode", [d] => do let d ← parseDesc d; pure (hexOrErr (d.scriptCode P))
  | "C", "unsignedss", [d] => do let d ← parseDesc d; pure (Hash.toHexW (d.unsignedScriptSig P))
  | "C", "addrspk", [d] => do
    let d ← parseDesc d
    pure (if isTr d then "TR" else
      match d.address P .bitcoin with
      | some (_, p) => Hash.toHexW p.scriptPubkey
      | none => "ERR")
  | "C", "desctype", [d] => do
    let d ← parseDesc d
    let name := match d.descType with
      | .bare => "Bare" | .sh => "Sh" | .pkh => "Pkh" | .wpkh => "Wpkh" | .wsh => "Wsh"
      | .shWsh => "ShWsh" | .shWpkh => "ShWpkh" | .tr => "Tr"
    pure (name ++ ":" ++ (match d.descType.segwitVersion with | some v => toString v | none => "-"))
  | "C", "build", [d] => do
    let d ← parseDesc d
    pure (if buildAccepts t d then "OK" else "ERR")
  | "J", "buildexpect", [_d, want, got] =>
    some (if (want == "accept" && got == "OK") || (want == "reject" && got == "ERR") then "ok"
          else "bad:" ++ want ++ "-but-" ++ got)
  | "C", "addrstr", [d, net] => do
    let d ← parseDesc d; let net ← parseNet net
    pure (if isTr d then "TR" else (d.addressString P net).getD "ERR")
  | "C", "trspk", [d, root, outkey] => do
    let d ← parseDesc d; let outkey ← Hash.ofHex outkey
    match d with
    | .tr ik leaves =>
      -- run the C15 model with the identity "tweak": the output key slot then holds the Merkle root
      match Tap.SpendInfo.fromTr (ω := Option Bytes) Bip341.alg (fun _ r => r) (P.env.ser ik)
          (if leaves.isEmpty then none else some (trLeafScripts P leaves)) with
      | none => pure "PANIC"
      | some si =>
        let mine := match si.outputKey with | some r => Hash.toHex r | none => "-"
        pure (if mine == root then Hash.toHexW (Script.serialize [.small 1, .push outkey]) else "ROOT:" ++ mine)
    | _ => none
  | "J", "addrspec", [ty, net, data, addr] => do
    let data ← Hash.ofHex data; let o ← parseOutput ty data; let net ← parseNet net
    let enc := Address.addressOfOutput P.H net.toSpec o
    let bad := (if enc != some addr then ["encode"] else [])
      ++ (if addrDecodesTo P.H net.toSpec o addr then [] else ["decode"])
    pure (if bad.isEmpty then "ok" else "bad:" ++ ",".intercalate bad)
  | "J", "outspec", [ty, data, spk, expl, code, uss] => do
    let data ← Hash.ofHex data
    let o ← parseOutput ty data
    let H := P.H
    let bad := (if Hash.toHexW (o.scriptPubKey H) != spk then ["spk"] else [])
      ++ (if hexOrErr (o.explicitScript H) != expl then ["explicit"] else [])
      ++ (if hexOrErr (o.scriptCode H) != code then ["scriptcode"] else [])
      ++ (if Hash.toHexW (o.unsignedScriptSig H) != uss then ["unsignedss"] else [])
      ++ (match o.explicitScript H with
          | some e => if Hash.toHexW (o.wrap H e) != spk then ["wrap"] else []
          | none => [])
    pure (if bad.isEmpty then "ok" else "bad:" ++ ",".intercalate bad)
  | "J", "rustoracle", _ :: _ :: rest =>
    match rest.getLast? with
    | some v => some (if v == "pass" then "ok" else "bad")
    | none => none
  | "C", "atindex", [d, i] => do
    let d ← parseKDesc d; let i ← i.toNat?
    pure (match d.atDerivationIndex i with
      | .ok d' => "ok:" ++ showTable showKey d'
      | .error e => "err:" ++ showKeyErr e)
  | "C", "deriveat", [d, i] => do
    let d ← parseKDesc d; let i ← i.toNat?
    pure (match (d.deriveAtIndex i).intoResult with
      | .ok d' => "ok:" ++ showTable showKey d'
      | .error e => "err:" ++ showKeyErr e)
  | "C", "definite", [d] => do
    let d ← parseKDesc d
    pure (match d.intoDefinite with
      | .ok d' => "ok:" ++ showTable showKey d'
      | .error e => "err:" ++ showKeyErr e)
  | "C", "derive", [d, i] => do
    let d ← parseKDesc d; let i ← i.toNat?
    pure (match d.derivedDescriptor symCkd i with
      | .ok d' => "ok:" ++ showTable showDerived d'
      | .error e => "err:" ++ showKeyErr e)
  | "C", "haswild", [d] => do
    let d ← parseKDesc d
    pure (String.ofList [bitChar d.hasWildcard, bitChar d.isMultipath])
  | "C", "split", [d] => do
    let d ← parseKDesc d
    pure (match d.intoSingleDescriptors with
      | .ok ds => "ok:" ++ "|".intercalate (ds.map (showTable showKey))
      | .error e => "err:" ++ showSplitErr e)
  | "C", "findidx", [d, lo, hi, tgt] => do
    let d ← parseKDesc d; let lo ← lo.toNat?; let hi ← hi.toNat?
    let target : Bytes :=
      if tgt == "none" then strBytes "none"
      else if tgt == "self" then
        match d.intoDefinite with
        | .ok c => symSpk (c.derivedDefinite symCkd)
        | .error _ => strBytes "none"
      else match tgt.toNat? with
        | some ti => (match d.derivedDescriptor symCkd ti with
          | .ok c => symSpk c
          | .error _ => strBytes "none")
        | none => strBytes "none"
    pure (match d.findDerivationIndexForSpk symCkd symSpk target lo hi with
      | .ok (some (i, c)) => "ok:" ++ toString i ++ ":" ++ showTable showDerived c
      | .ok none => "ok:none"
      | .error e => "err:" ++ showKeyErr e)
  | _, _, _ => none

end MsVerif.Driver

/-
Line-protocol ops for C14 (PSBT finalizer state machine).

`C psbtstep <setup> <history> <oracle>` — replay `<history>` on `Model/Psbt.lean` from the
blank PSBT described by `<setup>`; the satisfier / interpreter PARAMETERS of the model are
the finite tables in `<oracle>` (computed by the harness without the psbt module).  Answer:
result class of the last operation + abstract state of every input.

`J <judge> … <verdict>` for the judges whose verdict is computed on the harness side from
the real PSBT bytes (the failing history is on the line): `ok` iff the last token is `ok`.
-/
import MsVerif.Model.Psbt

namespace MsVerif.Driver
open MsVerif.Psbt

namespace PsbtOps

def b (s : String) : Bytes := s.toUTF8.toList
def str (bs : Bytes) : String := String.ofList (bs.map fun x => Char.ofNat x.toNat)

def nKeys : Nat := 18
def nHashes : Nat := 16
def nLeaves : Nat := 16

inductive Kind | pk | pkh | wpkh | shwpkh | wsh | shwsh | sh | tr | bare
  deriving DecidableEq

structure InSetup where
  kind : Kind
  single : Nat
  mode : String
  keys : List Nat
  leaves : List (List Nat)
  ik : Nat
  dec : Bool := true

def parseKind : String → Option Kind
  | "pk" => some .pk | "pkh" => some .pkh | "wpkh" => some .wpkh | "shwpkh" => some .shwpkh
  | "wsh" => some .wsh | "shwsh" => some .shwsh | "sh" => some .sh | "tr" => some .tr | "bare" => some .bare | _ => none

def natList (s : String) (sep : String) : List Nat :=
  if s == "-" || s == "_" then [] else (s.splitOn sep).filterMap String.toNat?

def parseInput (s : String) : Option InSetup :=
  match s.splitOn ":" with
  | [k, single, mode, keys, leaves, ik, dec] => do
    let kind ← parseKind k
    pure { kind, single := single.toNat?.getD 0, mode, keys := natList keys "+",
           leaves := if leaves == "-" then [] else (leaves.splitOn "|").map (natList · "+"),
           ik := ik.toNat?.getD 0, dec := dec == "1" }
  | _ => none

def ws (i : Nat) : Scr := b s!"ws{i}"
def rs (i : Nat) : Scr := b s!"rs{i}"
def wrap (f : String) (s : Scr) : Scr := b (f ++ "(") ++ s ++ b ")"
def keyScr (f : String) (k : Nat) : Scr := b s!"{f}({k})"

def spkOf (i : Nat) (s : InSetup) : Scr :=
  match s.kind with
  | .pk => keyScr "p2pk" s.single
  | .pkh => keyScr "p2pkh" s.single
  | .wpkh => keyScr "p2wpkh" s.single
  | .shwpkh => wrap "p2sh" (keyScr "p2wpkh" s.single)
  | .wsh => wrap "p2wsh" (ws i)
  | .shwsh => wrap "p2sh" (wrap "p2wsh" (ws i))
  | .sh => wrap "p2sh" (rs i)
  | .tr => b s!"p2tr({i})"
  | .bare => b s!"bare{i}"

def segwitKind : Kind → Bool
  | .pk | .pkh | .sh | .bare => false
  | _ => true

def kindOfScr (s : Scr) : SpkKind :=
  let t := str s
  if t.startsWith "p2pk(" then .p2pk
  else if t.startsWith "p2pkh(" then .p2pkh
  else if t.startsWith "p2wpkh(" then .p2wpkh
  else if t.startsWith "p2wsh(" then .p2wsh
  else if t.startsWith "p2sh(" then .p2sh
  else if t.startsWith "p2tr(" then .p2tr
  else .other

def utxoOf (i : Nat) (s : InSetup) : TxOut := ⟨spkOf i s, 1000 + i⟩
def prevOf (i : Nat) (s : InSetup) : PrevTx := ⟨100 + i, [utxoOf i s]⟩

def blankInput (i : Nat) (s : InSetup) : Input :=
  { witnessUtxo := if s.mode != "n" then some (utxoOf i s) else none
    nonWitnessUtxo := if s.mode != "w" then some (prevOf i s) else none }

def updateData (i : Nat) (s : InSetup) : UpdateData :=
  let origins := s.keys.map fun k => (k, k)
  match s.kind with
  | .tr =>
    let scripts := (List.range s.leaves.length).map fun li => (li, b s!"leaf{i}.{li}")
    let tko := s.keys.map fun k =>
      (k, ((List.range s.leaves.length).filter fun li => (s.leaves.getD li []).contains k, k))
    { redeemScript := none, witnessScript := none, origins := [],
      tap := some (s.ik, if s.leaves.isEmpty then none else some i, scripts, tko) }
  | .wsh => { redeemScript := none, witnessScript := some (ws i), origins, tap := none }
  | .shwsh => { redeemScript := some (wrap "p2wsh" (ws i)), witnessScript := some (ws i), origins, tap := none }
  | .sh => { redeemScript := some (rs i), witnessScript := none, origins, tap := none }
  | .shwpkh => { redeemScript := some (keyScr "p2wpkh" s.single), witnessScript := none, origins, tap := none }
  | _ => { redeemScript := none, witnessScript := none, origins, tap := none }

/-- canonical description of the satisfaction-relevant contents of an input (same format as
the harness' `field_sig`) — a function of the field MAPS only -/
def hasOrigins (inp : Input) : Bool :=
  ((List.range nKeys).any fun k => (inp.bip32 k).isSome) || ((List.range nKeys).any fun k => (inp.tapKeyOrigins k).isSome)

def fieldSig (s : InSetup) (p : Psbt) (inp : Input) : String :=
  let sigTok := (List.range nKeys).filterMap fun k =>
    let v : Option Sig :=
      if s.kind == .tr then
        ((List.range s.leaves.length).filterMap fun li => inp.tapScriptSigs (k, li)).head?
      else inp.partialSigs k
    v.map fun g => (if g == 0 then "s" else "b") ++ toString k
  let preTok := (List.range nHashes).filterMap fun j =>
    (inp.preimages j).map fun g => (if g == 0 then "p" else "q") ++ toString j
  let u := if s.kind == .tr && (List.range nLeaves).any (fun li => (inp.tapScripts li).isSome) then ["u"] else []
  let l := if (List.range nLeaves).any (fun li => inp.tapScripts li == some (b "nonstd")) then ["L"] else []
  -- which inputs record key origins (raw key hashes are resolved through them, across inputs)
  let o := p.inputs.zipIdx.filterMap fun (other, j) => if hasOrigins other then some s!"O{j}" else none
  let all := sigTok ++ preTok ++ u ++ l ++ o
  if all.isEmpty then "-" else "+".intercalate all

def tokBytes (t : String) : Bytes := if t == "e" then [] else b t
def ssTok (ss : SS) : String := if ss.isEmpty then "e" else str ss
def witOfTok (t : String) : Wit := if t == "e" then [] else [b t]
def witTok : Wit → String
  | [] => "e"
  | [t] => str t
  | _ => "?"

abbrev OracleT := List (String × String)

def satLookup (o : OracleT) (setup : List InSetup) (p : Psbt) (i : Nat) (mall : Bool) : Option (Wit × SS) :=
  match setup[i]?, p.inputs[i]? with
  | some s, some inp =>
    match o.lookup s!"S{i}.{if mall then 1 else 0}.{fieldSig s p inp}" with
    | some v =>
      match v.splitOn "/" with
      | [sst, wt] => some (witOfTok wt, tokBytes sst)
      | _ => none
    | none => none
  | _, _ => none

def mkParams (o : OracleT) (setup : List InSetup) : Params where
  kind := kindOfScr
  toP2wsh := wrap "p2wsh"
  toP2sh := wrap "p2sh"
  p2pkKey s := (((str s).drop 5).dropEnd 1).toString.toNat?
  isP2pkhOf s k := s == keyScr "p2pkh" k
  isP2wpkhOf s k := s == keyScr "p2wpkh" k
  decodes _ s := !(setup.zipIdx.any fun (st, i) => !st.dec && (s == ws i || s == rs i || s == spkOf i st))
  allKeys := List.range nKeys
  satisfy _ p i mall := satLookup o setup p i mall
  tapScriptWitness p i mall := (satLookup o setup p i mall).map (·.1)
  sigBytes i sig := b ((o.lookup s!"K{i}.{if sig == 0 then "g" else "b"}").getD "?")
  -- the referenced outputs as the finalizer sees them: `o` the output really spent, `x` a
  -- disagreeing witness_utxo
  interp _ i utxos _ wit ss :=
    let view := String.ofList (utxos.zipIdx.map fun (u, j) => if u.value == 1000 + j then 'o' else 'x')
    o.lookup s!"I{i}.{view}.{ssTok ss}/{witTok wit}" == some "ok"
  -- `sanity_check`: the input's sighash_type field (SINGLE when set by the `h` op) against the
  -- sighash byte of every partial signature (ALL for every signature of the histories)
  sanityInput inp := inp.sighashType.isNone || !((List.range nKeys).any fun k => (inp.partialSigs k).isSome)

def showInputErr : InputErr → String
  | .keyErr => "KeyErr" | .couldNotSatisfyTr => "CouldNotSatisfyTr" | .interpreter => "Interpreter"
  | .invalidRedeemScript => "InvalidRedeemScript" | .invalidWitnessScript => "InvalidWitnessScript"
  | .miniscript => "Miniscript" | .missingRedeemScript => "MissingRedeemScript"
  | .missingWitness => "MissingWitness" | .missingPubkey => "MissingPubkey"
  | .missingWitnessScript => "MissingWitnessScript" | .missingUtxo => "MissingUtxo"
  | .nonEmptyWitnessScript => "NonEmptyWitnessScript" | .nonEmptyRedeemScript => "NonEmptyRedeemScript"
  | .sighash => "WrongSighashFlag"

def showErr : Err → String
  | .input e i => s!"{showInputErr e}@{i}"
  | .wrongInputCount => "WrongInputCount"
  | .idxOutOfBounds => "OOB"

def showInput (inp : Input) : String :=
  let ss := match inp.finalScriptSig with | some s => str s | none => "-"
  let w := match inp.finalScriptWitness with | some w => witTok w | none => "-"
  let keys := List.range nKeys
  let g : List (Bool × String) := [
    (inp.witnessUtxo.isSome, "w"), (inp.nonWitnessUtxo.isSome, "n"), (inp.redeemScript.isSome, "r"),
    (inp.witnessScript.isSome, "W"), (keys.any fun k => (inp.bip32 k).isSome, "b"),
    (keys.any fun k => (inp.partialSigs k).isSome, "s"),
    ((List.range nHashes).any fun j => (inp.preimages j).isSome, "h"),
    (inp.tapInternalKey.isSome, "I"), (inp.tapMerkleRoot.isSome, "R"),
    ((List.range nLeaves).any fun l => (inp.tapScripts l).isSome, "T"),
    (keys.any fun k => (inp.tapKeyOrigins k).isSome, "o"), (inp.tapKeySig.isSome, "k"),
    (keys.any fun k => (List.range nLeaves).any fun l => (inp.tapScriptSigs (k, l)).isSome, "S"),
    (inp.sighashType.isSome, "?")]
  let gs := String.join (g.filterMap fun (c, s) => if c then some s else none)
  s!"{ss}/{w}:{if gs.isEmpty then "-" else gs}"

def showState (p : Psbt) : String := ";".intercalate (p.inputs.map showInput)

def modify (p : Psbt) (i : Nat) (f : Input → Input) : Psbt :=
  match p.inputs[i]? with
  | some inp => { p with inputs := p.inputs.set i (f inp) }
  | none => p

def showMut {α} (sh : α → String) (o : MutOut α) : Psbt × String :=
  (o.psbt, match o.result with | .ok _ => "ok" | .err e => "err:" ++ sh e | .panic => "panic")

/-- one operation of the history -/
def stepOp (P : Params) (setup : List InSetup) (o : OracleT) (p : Psbt) (tok : String) : Option (Psbt × String) := do
  let c ← tok.toList.head?
  let rest := (tok.drop 1).toString
  let (i, k) ← match rest.splitOn "." with
    | [i] => some (i.toNat?.getD 0, 0)
    | [i, k] => some (i.toNat?.getD 0, k.toNat?.getD 0)
    | _ => none
  let s? := setup[i]?
  match c with
  | 'u' =>
    let s ← s?
    match updateInputWithDescriptor p i (segwitKind s.kind) (spkOf i s) (updateData i s) with
    | .ok p' => pure (p', "ok")
    | .error .utxoCheck => pure (p, "err:UtxoCheck")
    | .error .indexOutOfBounds => pure (p, "err:OOB")
    | .error .missingInputUtxo => pure (p, "err:MissingInputUtxo")
    | .error .mismatchedScriptPubkey => pure (p, "err:MismatchedScriptPubkey")
  | 's' | 'b' =>
    let s ← s?
    let g : Sig := if c == 's' then 0 else 1
    if s.kind == .tr then
      let ops := ((List.range s.leaves.length).filter fun li => (s.leaves.getD li []).contains k).map
        fun li => (i, FieldOp.tapScriptSig k li g)
      pure (p.applyAll ops, "ok")
    else pure (p.applyAt i (.partialSig k g), "ok")
  | 't' | 'y' =>
    let s ← s?
    if s.kind == .tr then pure (p.applyAt i (.tapKeySig (if c == 't' then 0 else 1)), "ok") else pure (p, "ok")
  | 'p' | 'q' => pure (p.applyAt i (.preimage k (if c == 'p' then 0 else 1)), "ok")
  | 'x' =>
    let s ← s?
    let bad : Scr := b s!"bad{i}"
    match s.kind with
    | .wsh | .shwsh => pure (modify p i fun inp => { inp with witnessScript := some bad }, "ok")
    | .sh | .shwpkh => pure (modify p i fun inp => { inp with redeemScript := some bad }, "ok")
    | .bare =>
      if i % 2 == 0 then pure (modify p i fun inp => { inp with witnessScript := some bad }, "ok")
      else pure (modify p i fun inp => { inp with redeemScript := some bad }, "ok")
    | _ => pure (p, "ok")
  | 'd' => pure (modify p i fun inp => { inp with witnessUtxo := none, nonWitnessUtxo := none }, "ok")
  | 'h' =>
    pure (modify p i fun inp => { inp with sighashType := if inp.sighashType.isSome then none else some 3 }, "ok")
  | 'o' =>
    pure (modify p i fun inp => { inp with bip32 := fun _ => none, tapKeyOrigins := fun _ => none }, "ok")
  | 'k' =>
    -- a previous transaction with ANOTHER txid whose output `vout` is nevertheless the right one
    let s ← s?
    pure (modify p i fun inp => { inp with witnessUtxo := none, nonWitnessUtxo := some ⟨999 + i, [utxoOf i s]⟩ }, "ok")
  | 'e' =>
    -- witness_utxo and non_witness_utxo disagree (other value)
    let s ← s?
    pure (modify p i fun inp => { inp with witnessUtxo := some ⟨spkOf i s, 2000 + i⟩, nonWitnessUtxo := some (prevOf i s) }, "ok")
  | 'w' =>
    let s ← s?
    pure (modify p i fun inp => { inp with witnessUtxo := some (utxoOf i s), nonWitnessUtxo := none }, "ok")
  | 'z' =>
    -- a script field the output type must not have / a wrong redeem script on sh-wsh
    let s ← s?
    let bad : Scr := b s!"bad{i}"
    match s.kind with
    | .wsh | .shwsh => pure (modify p i fun inp => { inp with redeemScript := some bad }, "ok")
    | .sh => pure (modify p i fun inp => { inp with witnessScript := some bad }, "ok")
    | _ => pure (p, "ok")
  | 'l' =>
    pure (modify p i fun inp => { inp with tapScripts := fun cb => (inp.tapScripts cb).map fun _ => b "nonstd" }, "ok")
  | 'v' =>
    pure (modify p i fun inp => { inp with witnessUtxo := none, nonWitnessUtxo := some ⟨100 + i, []⟩ }, "ok")
  | 'r' =>
    let s ← s?
    let bl := blankInput i s
    pure (modify p i fun inp => { inp with witnessUtxo := bl.witnessUtxo, nonWitnessUtxo := bl.nonWitnessUtxo }, "ok")
  | 'g' =>
    pure (modify p i fun inp => { inp with finalScriptWitness := some (witOfTok ((o.lookup "G").getD "?")) }, "ok")
  | 'F' => pure (showMut (fun es => "+".intercalate (es.map showErr)) (finalizeMut P p false))
  | 'M' => pure (showMut (fun es => "+".intercalate (es.map showErr)) (finalizeMut P p true))
  | 'f' => pure (showMut showErr (finalizeInpMut P p i))
  | 'm' => pure (showMut showErr (finalizeInpMallMut P p i))
  | 'L' => pure (showMut showErr (finalizeDeprecated P p false))
  | 'N' => pure (showMut showErr (finalizeDeprecated P p true))
  | 'X' =>
    match extract P p with
    | .ok l => pure (p, "ok:" ++ ",".intercalate (l.map fun (ss, w) => s!"{ssTok ss}/{witTok w}"))
    | .err e => pure (p, "err:" ++ showErr e)
    | .panic => pure (p, "panic")
  | _ => none

def replay (P : Params) (setup : List InSetup) (o : OracleT) : List String → Psbt → String → Option (Psbt × String)
  | [], p, last => some (p, last)
  | t :: ts, p, _ =>
    match stepOp P setup o p t with
    | some (p', r) => replay P setup o ts p' r
    | none => none

def parseOracle (s : String) : OracleT :=
  if s == "-" then [] else
  (s.splitOn ";").filterMap fun e =>
    match e.splitOn "=" with
    | [k, v] => some (k, v)
    | _ => none

def psbtstep (setupS histS oracleS : String) : Option String := do
  let setup ← (setupS.splitOn ";").mapM parseInput
  let o := parseOracle oracleS
  let P := mkParams o setup
  let n := setup.length
  let tx : Tx := ⟨2, 0, (List.range n).map fun i => ⟨100 + i, 0, 0⟩, 0⟩
  let p0 : Psbt := ⟨tx, (List.range n).map fun i => blankInput i (setup.getD i ⟨.pk, 0, "w", [], [], 0, true⟩)⟩
  let hist := if histS == "-" then [] else histS.splitOn ","
  let (p, r) ← replay P setup o hist p0 "ok"
  pure s!"{r} {showState p}"

end PsbtOps

/-- judges whose verdict is computed by the harness from the real PSBT bytes -/
def harnessJudges : List String :=
  ["idempotent", "final-untouched", "atomic", "order-independent", "update-consistent",
   "update-mismatch-refused", "update-output-consistent", "sighash-agrees", "mall-honoured",
   "extract-same-tx", "mode-honoured", "sighash-type-finalizes", "sighash-type-extracts",
   "rawpkh-finalizes", "update-atomic", "byvalue-agrees", "update-unchecked-agrees",
   "interpreter-check-agrees", "raw-field"]

def opsPsbtCore (kind op : String) (args : List String) : Option String :=
  match kind, op, args with
  | "C", "psbtstep", [setup, hist, oracle] => some ((PsbtOps.psbtstep setup hist oracle).getD "bad-args")
  | "J", name, args =>
    if harnessJudges.contains name then
      some (match args.getLast? with | some "ok" => "ok" | some v => v | none => "bad-args")
    else none
  | _, _, _ => none

end MsVerif.Driver

/- C02 ops: the specification's satisfaction table vs the implementation's satisfier. -/
import MsVerif.Driver.OpsMs
import MsVerif.Spec.SatTable

namespace MsVerif.Driver
open MsVerif Script SatTable

def availOf (a : Assets) : Avail where
  sig k := a.ecdsaSig k || (a.schnorrSig k).isSome
  preimage := a.preimage
  after := a.checkAfter
  older n := a.checkOlder (relCanon n)
  rawKey h := (a.rawPkhPk h).isSome
  rawSig h := (a.rawPkhEcdsa h).isSome || (a.rawPkhSchnorr h).isSome

/-- concrete bytes of a table item -/
def realise (t : Tables) (a : Assets) : Item → Option Bytes
  | .sig k =>
    let pk := t.keyEnv.ser k
    -- the signature the harness issued for this key (Schnorr: the size the assets announce)
    match a.schnorrSig k with
    | some sz => (t.sigs.find? fun p => p.1 == pk && p.2.length == sz).map (·.2)
    | none => (t.sigs.find? fun p => p.1 == pk).map (·.2)
  | .key k => some (t.keyEnv.ser k)
  | .rawKey h => (t.keys.find? fun e => e.2.2.2 == t.keyEnv.rawPkh h).map (·.2.1)
  | .rawSig h =>
    match t.keys.find? fun e => e.2.2.2 == t.keyEnv.rawPkh h with
    | some e => (t.sigs.find? fun p => p.1 == e.2.1).map (·.2)
    | none => none
  | .pre kind h => (t.hashes.lookup (kind, h)).map (·.2)
  | .zero32 => some (List.replicate 32 0)
  | .one => some [1]
  | .empty => some []

def runWit (t : Tables) (ctx : Ctx) (lt sq : Nat) (ms : Ms) (wit : List Bytes) : Except Err (List Bytes) :=
  let env := mkEnv t ctx false lt sq
  match run env (encode t.keyEnv ctx ms) (State.init wit.reverse) with
  | .ok s => if s.conds.isEmpty then .ok s.core.stack else .error .unbalancedConditional
  | .error e => .error e

def opsSat (t : Tables) (kind op : String) (args : List String) : Option String :=
  match kind, op, args with
  -- model-internal validation of the trusted table: its witnesses really execute as claimed
  | "C", "tablecheck", [ctx, lt, sq, ast, assets] => do
    let ctx ← parseCtx ctx; let lt ← lt.toNat?; let sq ← sq.toNat?
    let ms ← parseAst ast; let a ← parseAssets assets
    let ty ← typeOf ms
    if ty.corr.base != .B then pure "consistent" else
    let av := availOf a
    let sortK := sortKeys t.keyEnv
    let sw := satWit av sortK ms
    let dw := dsatWit av sortK ms
    if sw.isSome != satEx av ms then pure "inconsistent:satEx-vs-satWit" else
    if dw.isSome != dsatEx av ms then pure "inconsistent:dsatEx-vs-dsatWit" else
    let chk (w : Option (List Item)) (wantTrue : Bool) : String :=
      match w with
      | none => ""
      | some items =>
        match items.mapM (realise t a) with
        | none => "unrealisable"
        | some bs =>
          match runWit t ctx lt sq ms bs with
          | .error e => "exec-error:" ++ reprStr e
          | .ok [v] =>
            if wantTrue then (if castToBool v then "" else "sat-left-false")
            else (if v == [] then "" else "dsat-left-nonempty")
          | .ok _ => "unclean"
    let r1 := chk sw true
    let r2 := chk dw false
    pure (if r1 == "" && r2 == "" then "consistent" else s!"inconsistent:sat[{r1}]dsat[{r2}]")
  -- J complete <ctx> <ast> <assets> <sane> <allpre> <mall: some|none> <nonmall: some|none>
  | "J", "complete", [_ctx, ast, assets, sane, allpre, mall, nonmall] => do
    let ms ← parseAst ast; let a ← parseAssets assets
    let ex := satEx (availOf a) ms
    if ex && mall == "none" then pure "bad:satisfiable-but-malleable-satisfier-found-nothing"
    else if ex && sane == "1" && allpre == "1" && nonmall == "none" then
      pure "bad:satisfiable-sane-all-preimages-but-nonmalleable-satisfier-found-nothing"
    else pure "ok"
  -- diagnostic converse: the library found a satisfaction although the table has none
  | "J", "tablecovers", [_ctx, ast, assets, mall] => do
    let ms ← parseAst ast; let a ← parseAssets assets
    pure (if mall == "some" && !satEx (availOf a) ms then "bad:library-satisfies-outside-the-table" else "ok")
  | _, _, _ => none

end MsVerif.Driver

/-
C13 ops: the transaction interpreter against real script execution.

  J interp-accepts-own  the library's own satisfaction of a sane descriptor must be accepted
  J interp-sound        interpreter accepts  =>  `Spec.verifySpend` accepts
  J constraints         reported constraints = checks performed by an INSTRUMENTED execution of the
                        Script specification (wrapping `Script.step`, not editing it)
  C interp              `Model/Interp.lean` (big-step model of `Iter::iter_next`) vs the real iterator
  X interp-diag         diagnostic class of a judged case (not part of the decision; used for the
                        statistics of converse disagreements)
  J interp-sound-m / J constraints-m / C interp-m   the same for the entry points
                        `iter_assume_sigs` (mode `assume`: a signature is valid iff it has the
                        shape of one - table `D sig - <sig>`) and `iter_custom` (mode `ban:<pk>`:
                        real verification, never for that key); the mode changes the signature
                        oracle on BOTH sides (Script's `sigOk` and the model's `verifySig`)
  J policy              the reported constraints satisfy the spending condition `Spec/MsSem.sem`
                        of the executed miniscript
  J policy-key          a single-key output reports exactly one signature, for that key
  J inferred            the inferred descriptor's miniscript, encoded by the Lean encoder, is the
                        executed script, and `Spec/Outputs` maps it to the spent scriptPubKey
-/
import MsVerif.Driver.OpsSpend
import MsVerif.Model.Interp
import MsVerif.Spec.MsSem
import MsVerif.Spec.Outputs

namespace MsVerif.Driver
open MsVerif Script Spend

def spendEnvV (t : Tables) (ver lt sq : Nat) : SpendEnv :=
  { spendEnv t lt sq with txVersion := ver }

/-! ### which script runs on which stack (the structure of `Spend.verifySpend`) -/

inductive Resolved
  | script (fl : Flags) (dom : Nat) (script : List Op) (stack : List Bytes)
  | keypath (outKey sig : Bytes)
  | unknown

def resolveV0 (prog : SpkKind) (witness : List Bytes) : Resolved :=
  match prog with
  | .p2wpkh h =>
    match witness with
    | [sig, pk] => .script segwitFlags DOM_SEGWITV0 (p2pkhScript h) [pk, sig]
    | _ => .unknown
  | .p2wsh _ =>
    match witness.getLast? with
    | some sb => match parse sb with
      | some sc => .script segwitFlags DOM_SEGWITV0 sc witness.dropLast.reverse
      | none => .unknown
    | none => .unknown
  | _ => .unknown

def resolve (spkB ssB : Bytes) (witness : List Bytes) : Resolved :=
  match parse spkB, parse ssB with
  | some spk, some ss =>
    match classify spk with
    | .p2wpkh h => resolveV0 (.p2wpkh h) witness
    | .p2wsh h => resolveV0 (.p2wsh h) witness
    | .p2tr k =>
      match witness with
      | [sig] => .keypath k sig
      | _ =>
        match witness.dropLast.getLast? with
        | some sb => match parse sb with
          | some sc => .script tapFlags DOM_TAPSCRIPT sc witness.dropLast.dropLast.reverse
          | none => .unknown
        | none => .unknown
    | .p2sh _ =>
      match pushedStack ss with
      | [] => .unknown
      | redeemB :: rest =>
        match parse redeemB with
        | none => .unknown
        | some redeem =>
          match classify redeem with
          | .p2wpkh wh => resolveV0 (.p2wpkh wh) witness
          | .p2wsh wh => resolveV0 (.p2wsh wh) witness
          | _ => .script legacyFlags DOM_LEGACY redeem rest
    | .other => .script legacyFlags DOM_LEGACY spk (pushedStack ss)
  | _, _ => .unknown

/-! ### instrumented execution -/

structure Log where
  sigs : List (Bytes × Bytes) := []
  hashes : List (HashOp × Bytes × Bytes) := []      -- (kind, digest, preimage)
  afters : List Nat := []
  olders : List Nat := []
  pending : Option (HashOp × Bytes × Bytes) := none
  /-- the last three executed elements, newest first (to recognise `SIZE <32> EQUALVERIFY <HASH>`) -/
  recent : List Op := []

/-- the (key, signature) pairs CHECKMULTISIG's matching loop accepts -/
def multisigMatches (env : Env) : List Bytes → List Bytes → List (Bytes × Bytes)
  | [], _ => []
  | _ :: _, [] => []
  | sig :: sigs, key :: keys =>
    if sigs.length + 1 > keys.length + 1 then []
    else if !sig.isEmpty && env.sigOk key sig then (key, sig) :: multisigMatches env sigs keys
    else multisigMatches env (sig :: sigs) keys
termination_by s k => s.length + k.length

def hashOpOf : Opc → Option HashOp
  | .sha256 => some .sha256 | .hash256 => some .hash256 | .ripemd160 => some .ripemd160
  | .hash160 => some .hash160 | _ => none

/-- what the opcode about to be executed in state `s` checks, read off the stack -/
def observe (env : Env) (s : State) (log : Log) (op : Op) : Log :=
  if !s.executing then log else
  match op with
  | .small _ | .push _ => log
  | .bad _ => log
  | .code o =>
    let log0 := { log with pending := none }
    match o, s.core.stack with
    | .checksig, pk :: sig :: _ | .checksigverify, pk :: sig :: _ | .checksigadd, pk :: _ :: sig :: _ =>
      match checkSig env sig pk with
      | .ok true => { log0 with sigs := (pk, sig) :: log0.sigs }
      | _ => log0
    | .checkmultisig, nB :: r | .checkmultisigverify, nB :: r =>
      match numDecode env.flags.minimalNum 4 nB with
      | some nI =>
        let n := nI.toNat
        match r.drop n with
        | mB :: r2 =>
          match numDecode env.flags.minimalNum 4 mB with
          | some mI => { log0 with sigs := multisigMatches env (r2.take mI.toNat) (r.take n) ++ log0.sigs }
          | none => log0
        | [] => log0
      | none => log0
    | .equal, a :: b :: _ | .equalverify, a :: b :: _ =>
      match log.pending with
      | some (k, d, pre) => if a == b && a == d then { log0 with hashes := (k, d, pre) :: log0.hashes } else log0
      | none => log0
    | .cltv, a :: _ =>
      match numDecode env.flags.minimalNum 5 a with
      | some v => { log0 with afters := v.toNat :: log0.afters }
      | none => log0
    | .csv, a :: _ =>
      match numDecode env.flags.minimalNum 5 a with
      | some v => { log0 with olders := v.toNat :: log0.olders }
      | none => log0
    | o, a :: _ =>
      match hashOpOf o with
      | some k =>
        -- a hash LOCK is `SIZE <32> EQUALVERIFY <HASH> <h> EQUAL`; `DUP HASH160 <h> EQUALVERIFY`
        -- of pk_h is a key-hash check, reported through the signature check that follows
        if log.recent == [.code .equalverify, .push [32], .code .size] then
          { log0 with pending := some (k, env.hash k a, a) }
        else log0
      | none => log0
    | _, _ => log0

def remember (s : State) (log : Log) (op : Op) : Log :=
  if s.executing then { log with recent := (op :: log.recent).take 3 } else log

def instrRun (env : Env) : List Op → State → Log → Except Err (State × Log)
  | [], s, log => .ok (s, log)
  | op :: rest, s, log =>
    let log' := remember s (observe env s log op) op
    match step env s op with
    | .error e => .error e
    | .ok s' => instrRun env rest s' log'

def hashOpName : HashOp → String
  | .sha256 => "sha256" | .hash256 => "hash256" | .ripemd160 => "ripemd160" | .hash160 => "hash160"

def relCanon (n : Nat) : Nat := seqMasked n

def logTokens (l : Log) : List String :=
  l.sigs.map (fun p => s!"sig:{Hash.toHexW p.1}:{Hash.toHexW p.2}")
  ++ l.hashes.map (fun h => s!"hash:{hashOpName h.1}:{Hash.toHexW h.2.1}:{Hash.toHexW h.2.2}")
  ++ l.afters.map (fun n => s!"after:{n}")
  ++ l.olders.map (fun n => s!"older:{relCanon n}")

/-- insertion sort of strings (canonical multiset) -/
def insStr (x : String) : List String → List String
  | [] => [x]
  | y :: ys => if x ≤ y then x :: y :: ys else y :: insStr x ys
def sortStr (l : List String) : List String := l.foldr insStr []

/-- normalise a constraint token reported by the interpreter to the instrumented vocabulary -/
def normToken (tok : String) : String :=
  match tok.splitOn ":" with
  | ["sigh", _h, pk, sg] => s!"sig:{pk}:{sg}"
  | ["older", n] => match n.toNat? with | some v => s!"older:{relCanon v}" | none => tok
  | _ => tok

/-- the multiset of checks the executed path performs successfully; `none` if the spend does not
execute successfully at all -/
def executedChecks (e : SpendEnv) (spk ss : Bytes) (wit : List Bytes) : Option (List String) :=
  match resolve spk ss wit with
  | .keypath k sig =>
    if e.sigOk DOM_TAPKEY k sig then some [s!"sig:{Hash.toHexW k}:{Hash.toHexW sig}"] else none
  | .script fl dom sc stack =>
    let env := Spend.mkEnv e fl dom
    match instrRun env sc (State.init stack) {} with
    | .ok (_, log) => some (sortStr (logTokens log))
    | .error _ => none
  | .unknown => none

/-! ### the model of the interpreter, instantiated -/

def hkOp : HashKind → HashOp
  | .sha256 => .sha256 | .hash256 => .hash256 | .ripemd160 => .ripemd160 | .hash160 => .hash160

def interpEnv (t : Tables) (ctx : Ctx) (dom ver lt sq : Nat) : Interp.IEnv where
  verifySig pk sig := t.dsigs.contains (dom, pk, sig)
  keyParse pk :=
    if ctx == .tap then pk.length == 32
    else (pk.length == 33 && (pk.head? == some 2 || pk.head? == some 3))
      || (pk.length == 65 && (pk.head? == some 4 || pk.head? == some 6 || pk.head? == some 7))
  hash160 := Hash.hash160
  hash k := realHash (hkOp k)
  lockTime := lt
  sequence := sq
  txVersion := ver

def showIErr : Interp.IErr → String
  | .unexpectedStackEnd => "UnexpectedStackEnd"
  | .unexpectedStackElementPush => "UnexpectedStackElementPush"
  | .unexpectedStackBoolean => "UnexpectedStackBoolean"
  | .verifyFailed => "VerifyFailed"
  | .pkEvaluationError => "PkEvaluationError"
  | .sigInvalid => "SigInvalid"
  | .pkHashVerifyFail => "PkHashVerifyFail"
  | .pubkeyParseError => "PubkeyParseError"
  | .hashPreimageLengthMismatch => "HashPreimageLengthMismatch"
  | .absoluteLockTimeComparisonInvalid => "AbsoluteLockTimeComparisonInvalid"
  | .absoluteLockTimeNotMet => "AbsoluteLockTimeNotMet"
  | .relativeLockTimeNotMet => "RelativeLockTimeNotMet"
  | .relativeLockTimeDisabled => "RelativeLockTimeDisabled"
  | .insufficientSignaturesMultiSig => "InsufficientSignaturesMultiSig"
  | .missingExtraZeroMultiSig => "MissingExtraZeroMultiSig"
  | .multiSigEvaluationError => "MultiSigEvaluationError"
  | .couldNotEvaluate => "CouldNotEvaluate"
  | .scriptSatisfactionError => "ScriptSatisfactionError"

def showConstraint (_tap : Bool) : Interp.Constraint → String
  | .pk pk sg => s!"sig:{Hash.toHexW pk}:{Hash.toHexW sg}"
  | .pkh h pk sg => s!"sigh:{Hash.toHexW h}:{Hash.toHexW pk}:{Hash.toHexW sg}"
  | .hashLock k h pre => s!"hash:{HashKind.name k}:{Hash.toHexW h}:{Hash.toHexW pre}"
  | .older n => s!"older:{relCanon n}"
  | .after n => s!"after:{n}"

/-! ### the other entry points: one signature oracle per mode, used on both sides -/

inductive Mode
  | real
  | assume
  | ban (pk : Bytes)
  /-- `Prevouts::One(i, _)` while input `idx` is spent -/
  | one (i idx : Nat)

def parseMode (s : String) : Option Mode :=
  if s == "real" then some .real
  else if s == "assume" then some .assume
  else match s.splitOn ":" with
    | ["ban", pk] => (Hash.ofHex pk).map .ban
    | ["one", i, idx] => match i.toNat?, idx.toNat? with
      | some i, some idx => some (.one i idx)
      | _, _ => none
    | _ => none

/-- `assume`: every element with the shape of a signature (registered by the harness with libsecp's
DER parser / the BIP341 lengths, as `D sig - <sig>`) verifies for every key -/
def sigOkM (t : Tables) (m : Mode) (dom : Nat) (pk sg : Bytes) : Bool :=
  match m with
  | .real => t.dsigs.contains (dom, pk, sg)
  | .assume => t.sigs.contains ([], sg)
  | .ban b => pk != b && t.dsigs.contains (dom, pk, sg)
  -- only the previous output of input `i` is known: a legacy digest needs none; a BIP143 digest needs
  -- the amount of the input being spent; a BIP341 digest needs every previous output unless the
  -- signature is ANYONECANPAY (explicit sighash byte with bit 0x80), then the one being spent
  | .one i idx =>
    let known := i == idx
    let acp := sg.length == 65 && (sg.getLast?.getD 0) &&& 0x80 != 0
    (dom == 0 || (dom == 1 && known) || (dom ≥ 2 && known && acp)) && t.dsigs.contains (dom, pk, sg)

def spendEnvM (t : Tables) (m : Mode) (ver lt sq : Nat) : SpendEnv :=
  { spendEnvV t ver lt sq with sigOk := sigOkM t m }

def interpEnvM (t : Tables) (m : Mode) (ctx : Ctx) (dom ver lt sq : Nat) : Interp.IEnv :=
  { interpEnv t ctx dom ver lt sq with verifySig := fun pk sg => sigOkM t m dom pk sg }

/-! ### the reported constraints against the spending condition -/

def tokFields (tok : String) : List String := tok.splitOn ":"

/-- the world the reported constraints describe: who signed, which preimages were shown, and the
largest absolute / relative lock reported (none: a lock time / sequence no lock is satisfied by) -/
def worldOfTokens (t : Tables) (toks : List String) : Pol.World where
  canSign k :=
    let pk := Hash.toHexW (t.keyEnv.ser k)
    toks.any fun tok => match tokFields tok with
      | ["sig", p, _] => p == pk
      | ["sigh", _, p, _] => p == pk
      | _ => false
  preimage kind h :=
    toks.any fun tok => match tokFields tok with
      | ["hash", k, hv, _] =>
        (([HashKind.sha256, .hash256, .ripemd160, .hash160].find? fun hk => MsSem.polHash hk == kind).map
          fun hk => k == HashKind.name hk && hv == Hash.toHexW (t.keyEnv.hashVal hk h)).getD false
      | _ => false
  nLockTime := (toks.filterMap fun tok => match tokFields tok with | ["after", n] => n.toNat? | _ => none).foldl max 0
  nSequence :=
    match toks.filterMap fun tok => match tokFields tok with | ["older", n] => n.toNat? | _ => none with
    | [] => 4294967295
    | l => l.foldl max 0

def parseVerdictArgs (args : List String) : Option (Nat × Nat × Nat × Bytes × Bytes × List Bytes × String) :=
  match args with
  | _cls :: ver :: lt :: sq :: spk :: ss :: wit :: last :: _ => do
    let ver ← ver.toNat?; let lt ← lt.toNat?; let sq ← sq.toNat?
    let spk ← Hash.ofHex spk; let ss ← Hash.ofHex ss; let wit ← parseHexList wit
    pure (ver, lt, sq, spk, ss, wit, last)
  | _ => none

def opsInterp (t : Tables) (kind op : String) (args : List String) : Option String :=
  match kind, op with
  -- J interp-accepts-own <input class> <ver> <lt> <sq> <spk> <ss> <wit> <interp verdict> | info
  | "J", "interp-accepts-own" => do
    let (_, _, _, _, _, _, v) ← parseVerdictArgs args
    pure (if v == "accept" then "ok" else "bad:interpreter-rejects-the-librarys-own-satisfaction(" ++ v ++ ")")
  -- J interp-sound <input class> <ver> <lt> <sq> <spk> <ss> <wit> <interp verdict> | info
  | "J", "interp-sound" => do
    let (ver, lt, sq, spk, ss, wit, v) ← parseVerdictArgs args
    if v != "accept" then pure "ok" else
    pure (match verifySpend (spendEnvV t ver lt sq) spk ss wit with
      | .ok => "ok"
      | .fail w => "bad:interpreter-accepts-but-script-rejects(" ++ w ++ ")")
  | "X", "interp-diag" => do
    let (ver, lt, sq, spk, ss, wit, v) ← parseVerdictArgs args
    pure (match verifySpend (spendEnvV t ver lt sq) spk ss wit, v == "accept" with
      | .ok, true => "both-accept"
      | .fail w, true => "interp-only(" ++ w ++ ")"
      | .ok, false => "script-only(" ++ v ++ ")"
      | .fail _, false => "both-reject")
  -- J constraints <input class> <ver> <lt> <sq> <spk> <ss> <wit> <constraint tokens, comma separated> | info
  | "J", "constraints" => do
    let (ver, lt, sq, spk, ss, wit, cs) ← parseVerdictArgs args
    let reported := sortStr ((if cs == "-" then [] else cs.splitOn ",").map normToken)
    pure (match executedChecks (spendEnvV t ver lt sq) spk ss wit with
      | none => "ok"      -- the script does not execute: that is `interp-sound`'s finding, not this one's
      | some ex =>
        if ex == reported then "ok"
        else "bad:reported[" ++ ",".intercalate reported ++ "]executed[" ++ ",".intercalate ex ++ "]")
  -- C interp <ctx> <dom> <ver> <lt> <sq> <ast> <stack, bottom first>
  | "C", "interp" =>
    match args with
    | [ctx, dom, ver, lt, sq, ast, st] => do
      let ctx ← parseCtx ctx; let dom ← dom.toNat?; let ver ← ver.toNat?; let lt ← lt.toNat?; let sq ← sq.toNat?
      let ms ← parseAst ast; let st ← parseHexList st
      let a : Interp.AStack := st.reverse.map Interp.Elem.ofBytes
      pure (match Interp.interpTop t.keyEnv (interpEnv t ctx dom ver lt sq) ms a with
        | .ok cs => "accept " ++ (if cs.isEmpty then "-" else ",".intercalate (cs.map (showConstraint (ctx == .tap))))
        | .error e => "reject:" ++ showIErr e)
    | _ => none
  -- C txdata-key <0|1 require compressed> <pk> => accept | reject:txdata:<class>
  -- (the real `from_txdata` + `iter` verdict on a key-hash spend that is valid but for the key's form)
  | "C", "txdata-key" =>
    match args with
    | [rc, pk] => do
      let pk ← Hash.ofHex pk
      pure (match Interp.pkFromSlice (interpEnv t .segwitv0 1 2 0 0).keyParse (rc == "1") pk with
        | .ok () => "accept"
        | .error .pubkeyParse => "reject:txdata:PubkeyParseError"
        | .error .uncompressed => "reject:txdata:UncompressedPubkey")
    | _ => none
  -- C txdata-segwit-script <ast> => accept | reject:txdata:Miniscript
  -- (a p2wsh / sh-wsh spend of this miniscript that Script accepts)
  | "C", "txdata-segwit-script" =>
    match args with
    | [ast] => do
      let ms ← parseAst ast
      pure (if Interp.segwitScriptAdmits t.keyEnv ms then "accept" else "reject:txdata:Miniscript")
    | _ => none
  -- C script-verdict <input class> <ver> <lt> <sq> <spk> <ss> <wit> - | info   => accept | reject(..)
  -- (a premise of the harness: this hand-built spend is valid for `Spec/Spend.verifySpend`)
  | "C", "script-verdict" => do
    let (ver, lt, sq, spk, ss, wit, _) ← parseVerdictArgs args
    pure (match verifySpend (spendEnvV t ver lt sq) spk ss wit with
      | .ok => "accept"
      | .fail w => "reject(" ++ w ++ ")")
  -- J accessors <spk> <ss> <wit> <is_legacy><is_segwit_v0><is_taproot_v1_key_spend><is_taproot_v1_script_spend>:<ecdsa|schnorr>
  -- (the output-type flags of an `Interpreter` that `from_txdata` built, against Spec/Spend's classification)
  | "J", "accessors" =>
    match args with
    | spk :: ss :: wit :: flags :: _ => do
      let spk ← Hash.ofHex spk; let ss ← Hash.ofHex ss; let wit ← parseHexList wit
      let spkOps ← parse spk
      let segwitProg (k : SpkKind) : Bool := match k with | .p2wpkh _ | .p2wsh _ => true | _ => false
      let expect : String :=
        match classify spkOps with
        | .p2wpkh _ | .p2wsh _ => "0100:ecdsa"
        | .p2tr _ => if wit.length == 1 then "0010:schnorr" else "0001:schnorr"
        | .p2sh _ =>
          let nested := match (parse ss).map pushedStack with
            | some (redeem :: _) => ((parse redeem).map fun r => segwitProg (classify r)).getD false
            | _ => false
          if nested then "0100:ecdsa" else "1000:ecdsa"
        | .other => "1000:ecdsa"
      pure (if flags == expect then "ok" else s!"bad:accessors-say({flags})-output-type-is({expect})")
    | _ => none
  -- C verify-sig <dom> <pk> <sig>   => true | false   (`Interpreter::verify_sig` = the independent oracle)
  | "C", "verify-sig" =>
    match args with
    | dom :: pk :: sg :: _ => do
      let dom ← dom.toNat?; let pk ← Hash.ofHex pk; let sg ← Hash.ofHex sg
      pure (if t.dsigs.contains (dom, pk, sg) then "true" else "false")
    | _ => none
  -- C verify-sig-oob ... => false   (input index out of range: documented to return false)
  | "C", "verify-sig-oob" => some "false"
  -- J interp-reuse <same|diff> | info   (a second iteration over the same / a cloned Interpreter)
  | "J", "interp-reuse" =>
    match args with
    | v :: _ => some (if v == "same" then "ok" else "bad:second-use-of-the-interpreter-object-differs")
    | _ => none
  | "J", "interp-accepts-own-m" =>
    match args with
    | _m :: rest => do
      let (_, _, _, _, _, _, v) ← parseVerdictArgs rest
      pure (if v == "accept" then "ok" else "bad:this-entry-point-rejects-a-spend-that-iter-accepts(" ++ v ++ ")")
    | _ => none
  -- J interp-sound-m <mode> <input class> <ver> <lt> <sq> <spk> <ss> <wit> <verdict> | info
  | "J", "interp-sound-m" =>
    match args with
    | m :: rest => do
      let m ← parseMode m
      let (ver, lt, sq, spk, ss, wit, v) ← parseVerdictArgs rest
      if v != "accept" then pure "ok" else
      pure (match verifySpend (spendEnvM t m ver lt sq) spk ss wit with
        | .ok => "ok"
        | .fail w => "bad:interpreter-accepts-but-script-rejects(" ++ w ++ ")")
    | _ => none
  | "J", "constraints-m" =>
    match args with
    | m :: rest => do
      let m ← parseMode m
      let (ver, lt, sq, spk, ss, wit, cs) ← parseVerdictArgs rest
      let reported := sortStr ((if cs == "-" then [] else cs.splitOn ",").map normToken)
      pure (match executedChecks (spendEnvM t m ver lt sq) spk ss wit with
        | none => "ok"
        | some ex =>
          if ex == reported then "ok"
          else "bad:reported[" ++ ",".intercalate reported ++ "]executed[" ++ ",".intercalate ex ++ "]")
    | _ => none
  -- C interp-m <mode> <ctx> <dom> <ver> <lt> <sq> <ast> <stack, bottom first>
  | "C", "interp-m" =>
    match args with
    | [m, ctx, dom, ver, lt, sq, ast, st] => do
      let m ← parseMode m
      let ctx ← parseCtx ctx; let dom ← dom.toNat?; let ver ← ver.toNat?; let lt ← lt.toNat?; let sq ← sq.toNat?
      let ms ← parseAst ast; let st ← parseHexList st
      let a : Interp.AStack := st.reverse.map Interp.Elem.ofBytes
      pure (match Interp.interpTop t.keyEnv (interpEnvM t m ctx dom ver lt sq) ms a with
        | .ok cs => "accept " ++ (if cs.isEmpty then "-" else ",".intercalate (cs.map (showConstraint (ctx == .tap))))
        | .error e => "reject:" ++ showIErr e)
    | _ => none
  -- J policy <ctx> <ast> <constraint tokens> | info
  | "J", "policy" =>
    match args with
    | _ctx :: ast :: cs :: _ => do
      let ms ← parseAst ast
      let toks := if cs == "-" then [] else cs.splitOn ","
      pure (if MsSem.sem (worldOfTokens t toks) ms then "ok"
        else "bad:reported-constraints-do-not-satisfy-the-spending-condition")
    | _ => none
  -- J policy-key <pk> <constraint tokens> | info
  | "J", "policy-key" =>
    match args with
    | pk :: cs :: _ =>
      some (match (if cs == "-" then [] else cs.splitOn ",").map tokFields with
        | [["sig", p, _]] => if p == pk then "ok" else "bad:signature-reported-for-another-key"
        | _ => "bad:a-single-key-output-must-report-exactly-one-signature")
    | _ => none
  -- J inferred <spk> <executed script element or -> <kind> <ast | key | -> | info
  | "J", "inferred" =>
    match args with
    | spk :: elem :: kind :: body :: _ => do
      let spk ← Hash.ofHex spk
      let H : Outputs.Hashes := ⟨Hash.sha256, Hash.hash160⟩
      let scriptOut (ctx : Ctx) (mk : Bytes → Outputs.Output) (needElem : Bool) : Option String := do
        let ms ← parseAst body
        let sc := encodeBytes t.keyEnv ctx ms
        let el ← if needElem then Hash.ofHex elem else some sc
        pure (if sc != el then "bad:inferred-miniscript-does-not-encode-to-the-executed-script"
          else if Outputs.Output.scriptPubKey H (mk sc) != spk then "bad:inferred-descriptor-has-another-scriptPubKey"
          else "ok")
      let keyOut (mk : Bytes → Outputs.Output) : Option String := do
        let pk ← Hash.ofHex body
        pure (if Outputs.Output.scriptPubKey H (mk pk) != spk then "bad:inferred-descriptor-has-another-scriptPubKey" else "ok")
      match kind with
      | "bare" => scriptOut .bare .bare false
      | "sh" => scriptOut .legacy .sh true
      | "wsh" => scriptOut .segwitv0 .wsh true
      | "shwsh" => scriptOut .segwitv0 .shWsh true
      | "pkh" => keyOut .pkh
      | "wpkh" => keyOut .wpkh
      | "shwpkh" => keyOut .shWpkh
      | "none" => some "bad:no-inferred-descriptor-for-a-sane-spend"
      | _ => some "bad:inferred-descriptor-not-readable"
    | _ => none
  | _, _ => none

end MsVerif.Driver

/-
C10 (checksum) and C11 (expression parser) ops.  Strings travel HEX-ENCODED (UTF-8 bytes) as a
single token, `-` for the empty string.

  C checksum <hex>                 model `Engine::new().input(s); checksum()`  → 8 chars | ERR:InvalidCharacter | PANIC
  C verifycs <hex>                 model `verify_checksum`                     → ok:<body length> | ERR:<kind> | PANIC
  C exprtree <hex>                 model `Tree::from_str`                      → ok:<n>:<node;node;…> | ERR:<kind>:<pos…> | PANIC
  C parsenum <hex>                 model `parse_num`                           → <n> | ERR:<kind>
  J cscreate <hex s> <cs>          SPEC (BIP-380 reference `descsum_create`) : ok iff the implementation's checksum is the specified one
  J csprint <hex s> <hex printed> <verdict>
                                   SPEC `descsum_check printed` holds and the implementation accepted its own output, returning `s`
  J csdetect <k> <hex original> <hex corrupted> <verdict>
  J csdetectd <k> <hex original> <hex corrupted> <verdict>
                                   SPEC: `original` passes `descsum_check`, `corrupted` is a ≤k-character substitution of it
                                   (k ≤ 2, or k ≤ 4 with all substitutions inside the first group): must be `rejected`.
                                   `csdetect` judges `verify_checksum` alone and therefore exempts corrupted strings that contain no `#`
                                   at all (they no longer carry a checksum; `C10.separator_substitution`); `csdetectd` judges
                                   `Descriptor::from_str` and has no exemption.
  J csdetectall <op> 1 <hex original> <total> <rejected> <exempt>
                                   aggregate over ALL single substitutions (positions × 94 replacement characters); every
                                   individual failure is also emitted as its own `csdetect` line
  J csdetectagg <k> <hex original> <tried> <rejected> <exempt>     aggregate over random k-substitutions
  C parsenumnz <hex>               model `parse_num_nonzero`
  J cschunk <hex s> <splits> <cs>  engine fed in chunks at the given split points: SPEC checksum of the whole string
  J csdisplay <route> <hex {:#} body> <hex Display>   Display = body # SPEC checksum (checksum::Formatter route)
  J csdetectr <route> <k> <hex original> <hex corrupted> <verdict>     csdetectd through another parser (route)
  J csdetectrall <route> 1 <hex original> <total> <rejected>           all single substitutions through a route
  J nopanicagg <class> <route> <n> <npanic>     raw corpus: n calls under catch_unwind, npanic must be 0
  J rawrt <route> <hex> <verdict> / J rawrtagg <class> <route> <n> <nbad>   accepted raw strings round-trip
  J mustreject <route> <reason> <hex> <verdict>  designated malformed strings must be refused
  J treeapi <hex> <verdict>        TreeIterItem accessors and iterators agree with the node table
  J descaccept <hex descriptor#checksum> <verdict>   a well-formed descriptor carrying the SPEC checksum must be accepted
  J depthlimit <round|curly> <d> <verdict>   d-fold well-formed nesting is accepted iff d ≤ 403 = MAX_RECURSION_DEPTH + 1
                                   (C11.printed_tree_accepted_partial / printed_deep_tree_rejected)
  J descdepth <verdict> nesting=<m> <wrapper> taptree-depth=<t> leaf-height=<h> chars=<len>
                                   a descriptor the library itself constructed (Descriptor::new_wsh / new_sh_wsh / new_tr around a
                                   sane miniscript of tree height h) and printed must be accepted by `Descriptor::from_str` and print
                                   the same again: ok iff the verdict is `accepted`
  J nopanic <op> <hex | gen:description> <verdict>   ok iff verdict ≠ PANIC
  J nohang <op> <gen:description> <fast|SLOW>
-/
import MsVerif.Model.Expr
import MsVerif.Spec.Bch

namespace MsVerif.Driver.Text
open MsVerif

def hexVal (c : Char) : Option Nat :=
  if '0' ≤ c ∧ c ≤ '9' then some (c.toNat - 48)
  else if 'a' ≤ c ∧ c ≤ 'f' then some (c.toNat - 87)
  else none

def hexBytes : List Char → ByteArray → Option ByteArray
  | [], acc => some acc
  | [_], _ => none
  | a :: b :: rest, acc =>
    match hexVal a, hexVal b with
    | some x, some y => hexBytes rest (acc.push (UInt8.ofNat (x * 16 + y)))
    | _, _ => none

/-- hex token → string (`-` = empty); `none` if not hex or not UTF-8 -/
def unhex (tok : String) : Option String :=
  if tok == "-" then some "" else
  match hexBytes tok.toList ByteArray.empty with
  | none => none
  | some b => String.fromUTF8? b

def optNat : Option Nat → String
  | none => "-"
  | some n => toString n

def parensStr : Expr.Parens → String
  | .none => "n" | .round => "r" | .curly => "c"

def nodeStr (n : Expr.Node) : String :=
  s!"{n.namePos}.{n.name.length}.{parensStr n.parens}.{n.nChildren}.{optNat n.parentIdx}.{optNat n.lastChildIdx}.{optNat n.rightSiblingIdx}"

def treeErrStr : Expr.TreeErr → String
  | .checksum e => "ERR:Checksum:" ++ e.toStr
  | .maxRecursionDepthExceeded a => s!"ERR:MaxRecursionDepthExceeded:{a}"
  | .expectedParenOrComma p => s!"ERR:ExpectedParenOrComma:{p}"
  | .unmatchedOpenParen p => s!"ERR:UnmatchedOpenParen:{p}"
  | .unmatchedCloseParen p => s!"ERR:UnmatchedCloseParen:{p}"
  | .mismatchedParens a b => s!"ERR:MismatchedParens:{a}:{b}"
  | .trailingCharacter p => s!"ERR:TrailingCharacter:{p}"

def exprTreeStr (s : String) : String :=
  match Expr.fromStrInner s.toList with
  | .error .panic => "PANIC"
  | .error (.err e) => treeErrStr e
  | .ok nodes =>
    s!"ok:{nodes.size}:" ++ ";".intercalate (nodes.toList.map nodeStr)

def numErrStr : Expr.NumErr → String
  | .invalidLeadingDigit => "ERR:InvalidLeadingDigit"
  | .empty => "ERR:Empty"
  | .invalidDigit => "ERR:InvalidDigit"
  | .posOverflow => "ERR:PosOverflow"

def okbadT (b : Bool) : String := if b then "ok" else "bad"

/-- the admissible corruption classes of the property -/
def admissible (k : Nat) (orig corr : List Char) : Bool :=
  decide (Spec.Bch.Substituted k orig corr) && (k ≤ 2 || (k ≤ 4 && Spec.Bch.inFirstGroup orig corr))

def judgeDetect (exemptNoHash : Bool) (k orig corr verdict : String) : Option String := do
  let k ← k.toNat?
  let o ← unhex orig
  let c ← unhex corr
  if o == c then pure "ok" else
  if !Spec.Bch.check o.toList then pure "bad-case:original-not-checksummed" else
  if !admissible k o.toList c.toList then pure "bad-case:not-an-admissible-substitution" else
  if exemptNoHash && !c.toList.contains '#' then pure "ok" else
  pure (okbadT (verdict == "rejected"))

end MsVerif.Driver.Text

namespace MsVerif.Driver
open MsVerif MsVerif.Driver.Text

def opsText (kind op : String) (args : List String) : Option String :=
  match kind, op, args with
  | "C", "checksum", [h] => do
    let s ← unhex h
    -- `Engine::input` then `Engine::checksum`
    if !s.toList.all Checksum.validChar then pure "ERR:InvalidCharacter" else
    match (Checksum.Engine.new.inputUnchecked s.toList).bind Checksum.Engine.checksumChars with
    | none => pure "PANIC"
    | some cs => pure (String.ofList cs)
  | "C", "verifycs", [h] => do
    let s ← unhex h
    match Checksum.verifyChecksumL s.toList with
    | .ok b => pure s!"ok:{b.length}"
    | .err e => pure ("ERR:" ++ e.toStr)
    | .panic => pure "PANIC"
  | "C", "exprtree", [h] => do
    let s ← unhex h
    pure (exprTreeStr s)
  | "C", "parsenum", [h] => do
    let s ← unhex h
    match Expr.parseNum s.toList with
    | .ok n => pure (toString n)
    | .error e => pure (numErrStr e)
  | "C", "parsenumnz", [h] => do
    let s ← unhex h
    match Expr.parseNumNonzero s.toList with
    | .ok n => pure (toString n)
    | .error .illegalZero => pure "ERR:IllegalZero"
    | .error (.num e) => pure (numErrStr e)
  -- the engine fed in chunks (as `checksum::Formatter` does) must give the SPEC checksum of the whole
  | "J", "cschunk", [h, _, cs] => do
    let s ← unhex h
    match Spec.Bch.create s.toList with
    | some c => pure (okbadT (String.ofList c == cs))
    | none => pure (okbadT (cs == "ERR:InvalidCharacter"))
  -- Display of a descriptor (through `checksum::Formatter`): `{:#}` body ++ "#" ++ SPEC checksum of the body
  | "J", "csdisplay", [_, hb, hp] => do
    let b ← unhex hb
    let p ← unhex hp
    match Spec.Bch.create b.toList with
    | some c => pure (okbadT (p == b ++ "#" ++ String.ofList c))
    | none => pure "bad:body-not-in-charset"
  -- a corrupted checksummed string offered to ANY parser (route = type / entry point) must be rejected
  | "J", "csdetectr", [_, k, o, c, verdict] => judgeDetect false k o c verdict
  | "J", "csdetectrall", [_, "1", h, total, rejected] => do
    let s ← unhex h
    let total ← total.toNat?; let rejected ← rejected.toNat?
    pure (okbadT (Spec.Bch.check s.toList && total == s.toList.length * 94 && rejected == total))
  -- raw corpus: aggregate of calls made under catch_unwind
  | "J", "nopanicagg", [_, _, _, npanic] => pure (okbadT (npanic == "0"))
  -- raw corpus, C10: a string a parser ACCEPTS gives an object that round-trips
  | "J", "rawrt", [_, _, verdict] => pure (okbadT (verdict == "ok"))
  -- (counts only: every failing string has its own `J rawrt` line)
  | "J", "rawrtagg", [_, _, n, nbad] => do
    let n ← n.toNat?; let nbad ← nbad.toNat?
    pure (okbadT (nbad ≤ n))
  -- designated malformed strings (one reason each) must be refused
  | "J", "mustreject", [_, _, _, verdict] => pure (okbadT (verdict == "rejected"))
  -- tree accessors / iterators agree with the node table
  | "J", "treeapi", [_, verdict] => pure (okbadT (verdict == "consistent" || verdict == "rejected"))
  | "J", "cscreate", [h, cs] => do
    let s ← unhex h
    match Spec.Bch.create s.toList with
    | some c => pure (okbadT (String.ofList c == cs))
    | none => pure (okbadT (cs == "ERR:InvalidCharacter"))
  | "J", "csprint", [h, hp, verdict] => do
    let s ← unhex h
    let p ← unhex hp
    pure (okbadT (Spec.Bch.check p.toList && p.toList.take s.length == s.toList
                  && p.length == s.length + 9 && verdict == s!"accepted:{s.length}"))
  | "J", "csdetect", [k, o, c, verdict] => judgeDetect true k o c verdict
  | "J", "csdetectd", [k, o, c, verdict] => judgeDetect false k o c verdict
  | "J", "csdetectall", [op, "1", h, total, rejected, exempt] => do
    -- aggregate over ALL single substitutions of one string: position × 94 replacement characters
    let s ← unhex h
    let total ← total.toNat?; let rejected ← rejected.toNat?; let exempt ← exempt.toNat?
    let n := s.toList.length
    let body := s.toList.take (n - 9)
    let maxExempt := if op == "csdetect" && !body.contains '#' then 94 else 0
    pure (okbadT (Spec.Bch.check s.toList && total == n * 94 && rejected + exempt == total
                  && exempt ≤ maxExempt))
  | "J", "csdetectagg", [_, h, tried, rejected, exempt] => do
    let s ← unhex h
    let tried ← tried.toNat?; let rejected ← rejected.toNat?; let exempt ← exempt.toNat?
    pure (okbadT (Spec.Bch.check s.toList && rejected + exempt == tried))
  | "J", "descaccept", [h, verdict] => do
    let s ← unhex h
    pure (okbadT (Spec.Bch.check s.toList && verdict == "accepted"))
  | "J", "depthlimit", [_, d, verdict] => do
    -- `d` well-formed nested levels `a(a(…x…))`: accepted iff d ≤ MAX_RECURSION_DEPTH + 1
    let d ← d.toNat?
    pure (okbadT (verdict == (if d ≤ Expr.MAX_RECURSION_DEPTH + 1 then "accepted" else "rejected")))
  | "J", "descdepth", [verdict, _, _, _, _, _] => pure (okbadT (verdict == "accepted"))
  | "J", "nopanic", [_, _, verdict] => pure (okbadT (verdict != "PANIC"))
  | "J", "nohang", [_, _, verdict] => pure (okbadT (verdict == "fast"))
  | _, _, _ => none

end MsVerif.Driver
